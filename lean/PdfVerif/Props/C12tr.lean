import PdfVerif.Lemmas.TRGo
import PdfVerif.Generated.FnCharcode
/-!
# C12 (translator part): charcode range predicates on the GENERATED code (font/charcode)

`Gen.charcode_Range_IsValid`, `Gen.charcode_canMerge`, `Gen.charcode_minLength` are re-created
from font/charcode/{range,codec}.go on every run.  `none` = the Go function panics (index out of
range); the theorems say when that cannot happen.
-/
namespace PdfVerif.C12tr
open PdfVerif PdfVerif.Gen PdfVerif.Go

/-- specification of `Range.IsValid`: equal lengths between 1 and 4, and `Low ≤ High` bytewise -/
def RangeValid (r : charcode_Range) : Prop :=
  r.Low.length = r.High.length ∧ 1 ≤ r.Low.length ∧ r.Low.length ≤ 4 ∧
    ∀ k, k < r.Low.length → r.Low.getD k 0 ≤ r.High.getD k 0

instance (r : charcode_Range) : Decidable (RangeValid r) := by unfold RangeValid; infer_instance

/-- `Range.IsValid` never panics and decides exactly `RangeValid`, for every pair of byte strings -/
theorem isValid_spec (r : charcode_Range) :
    charcode_Range_IsValid r = some (decide (RangeValid r)) := by
  unfold charcode_Range_IsValid
  simp only [pure, bind]
  by_cases h : r.Low.length = r.High.length ∧ 1 ≤ r.Low.length ∧ r.Low.length ≤ 4
  · have c : (len r.Low != len r.High || len r.Low == 0 || decide (len r.Low > 4)) = false := by
      unfold len
      generalize r.Low.length = n at h ⊢
      generalize r.High.length = m at h ⊢
      simp only [Bool.or_eq_false_iff, bne_eq_false_iff_eq, beq_eq_false_iff_ne, ne_eq, decide_eq_false_iff_not]
      omega
    simp only [c, Bool.false_eq_true, if_false]
    rw [forIn_option_search (List.range r.Low.length) (fun k => k < r.Low.length) _
      (fun k => decide (r.Low.getD k 0 > r.High.getD k 0)) (none, ()) (some false, ()) ?_
      (fun k hk => List.mem_range.mp hk)]
    · by_cases hall : ∀ k, k < r.Low.length → r.Low.getD k 0 ≤ r.High.getD k 0
      · have : ((List.range r.Low.length).any fun k => decide (r.Low.getD k 0 > r.High.getD k 0)) = false := by
          rw [List.any_eq_false]
          intro k hk
          have := hall k (List.mem_range.mp hk)
          simp only [decide_eq_true_eq, gt_iff_lt]
          exact UInt8.not_lt.mpr this
        have hv : RangeValid r := ⟨h.1, h.2.1, h.2.2, hall⟩
        simp only [this]
        simp [hv]
      · have : ((List.range r.Low.length).any fun k => decide (r.Low.getD k 0 > r.High.getD k 0)) = true := by
          rw [List.any_eq_true]
          have ⟨k, hk⟩ := Classical.not_forall.mp hall
          have ⟨hk1, hk2⟩ := Classical.not_imp.mp hk
          exact ⟨k, List.mem_range.mpr hk1, by simpa using UInt8.not_le.mp hk2⟩
        have hv : ¬ RangeValid r := fun hv => hall hv.2.2.2
        simp only [this]
        simp [hv]
    · intro k hk
      rw [getD_idx _ _ hk, getD_idx _ _ (by omega)]
      simp only [Option.bind_some]
  · have c : (len r.Low != len r.High || len r.Low == 0 || decide (len r.Low > 4)) = true := by
      unfold len
      generalize r.Low.length = n at h ⊢
      generalize r.High.length = m at h ⊢
      simp only [Bool.or_eq_true, bne_iff_ne, ne_eq, beq_iff_eq, decide_eq_true_eq]
      omega
    have hv : ¬ RangeValid r := fun hv => h ⟨hv.1, hv.2.1, hv.2.2.1⟩
    simp [c, hv]

example : charcode_Range_IsValid ⟨[0, 0x80], [0x7f, 0xff]⟩ = some true := by decide +kernel
example : RangeValid ⟨[0, 0x80], [0x7f, 0xff]⟩ ∧ ¬ RangeValid ⟨[1], [0]⟩ := by decide +kernel

/-! ## minLength -/

/-- `minLength`: 1 for the empty code space range, otherwise the minimum of the code lengths; no panic -/
theorem minLength_spec (csr : List charcode_Range) (hl : csr.length < 9223372036854775808) :
    charcode_minLength csr = some (match csr with
      | [] => 1
      | r :: rs => rs.foldl (fun m q => min m (len q.Low)) (len r.Low)) := by
  unfold charcode_minLength
  simp only [pure, bind]
  match csr with
  | [] => simp [len]
  | r :: rs =>
    have c : (len (r :: rs) == 0) = false := by simp [len]; omega
    simp only [c, Bool.false_eq_true, if_false]
    have h0 : idx (r :: rs) 0 = some r := by simp [idx]
    have h1 : slice (r :: rs) 1 (len (r :: rs)) = some rs := by
      rw [slice_general _ _ _ (by omega) (by simp [len]; omega) (by simp [len])]
      simp [len]
    rw [h0, h1]
    simp only [Option.bind_some]
    rw [forIn_option_yield rs (fun _ => True) _ (fun q m => min m (len q.Low)) ?_ (fun _ _ => trivial)]
    · simp
    · intro q m _
      by_cases hq : len q.Low < m
      · have : min m (len q.Low) = len q.Low := by omega
        simp [hq, this]
      · have : min m (len q.Low) = m := by omega
        simp [hq, this]

theorem minLength_nil : charcode_minLength [] = some 1 := by decide +kernel

/-! ## matchLen -/

/-- the first `r.Low.length` bytes of `s` lie in the box of `r` -/
def prefixInBox (r : charcode_Range) (s : List UInt8) : Prop :=
  r.Low.length ≤ s.length ∧ ∀ k, k < r.Low.length → r.Low.getD k 0 ≤ s.getD k 0 ∧ s.getD k 0 ≤ r.High.getD k 0

instance (r : charcode_Range) (s : List UInt8) : Decidable (prefixInBox r s) := by
  unfold prefixInBox; infer_instance

/-- **matchLen**: for a code space range whose ranges have `High` at least as long as `Low` (true
after `IsValid`), `matchLen` does not panic and returns the code length of the *first* range whose
box contains the leading bytes of `s`, or 0 if there is none -/
theorem matchLen_spec (csr : List charcode_Range) (s : List UInt8)
    (hv : ∀ r ∈ csr, r.Low.length ≤ r.High.length) :
    charcode_CodeSpaceRange_matchLen csr s =
      some (match csr.find? (fun r => decide (prefixInBox r s)) with
        | some r => len r.Low
        | none => 0) := by
  unfold charcode_CodeSpaceRange_matchLen
  simp only [pure, bind]
  rw [forIn_option_findSome csr (fun r => r.Low.length ≤ r.High.length) _
    (fun r => if decide (prefixInBox r s) then some (some (len r.Low), ()) else none) (none, ()) ?_ hv]
  · -- findSome? with this g is find? followed by the length
    have : ∀ l : List charcode_Range,
        ((l.findSome? fun r => if decide (prefixInBox r s) = true then some (some (len r.Low), ()) else none).getD (none, ())).fst
        = (l.find? fun r => decide (prefixInBox r s)).map fun r => len r.Low := by
      intro l
      induction l with
      | nil => rfl
      | cons a as ih =>
        simp only [List.findSome?_cons, List.find?_cons]
        by_cases ha : prefixInBox a s
        · simp [ha]
        · have hd : decide (prefixInBox a s) = false := by simp [ha]
          simp only [hd, Bool.false_eq_true, if_false]
          exact ih
    simp only [Option.bind_some]
    rw [this]
    cases csr.find? (fun r => decide (prefixInBox r s)) <;> rfl
  · intro r hr
    by_cases hlen : len s < len r.Low
    · have hn : ¬ prefixInBox r s := by
        intro hp; unfold len at hlen; have := hp.1; omega
      simp [hlen, hn]
    · simp only [hlen, decide_false, Bool.false_eq_true, if_false]
      unfold len at hlen
      have hcount : (len r.Low - 0).toNat = r.Low.length := by simp [len]
      rw [hcount]
      rw [forIn_option_search (List.range r.Low.length) (fun k => k < r.Low.length) _
        (fun k => decide (s.getD k 0 < r.Low.getD k 0 ∨ s.getD k 0 > r.High.getD k 0)) true false ?_
        (fun k hk => List.mem_range.mp hk)]
      · simp only [Option.bind_some]
        by_cases hp : prefixInBox r s
        · have : ((List.range r.Low.length).any fun k =>
              decide (s.getD k 0 < r.Low.getD k 0 ∨ s.getD k 0 > r.High.getD k 0)) = false := by
            rw [List.any_eq_false]
            intro k hk
            have := hp.2 k (List.mem_range.mp hk)
            simp only [decide_eq_true_eq, not_or, gt_iff_lt]
            exact ⟨UInt8.not_lt.mpr this.1, UInt8.not_lt.mpr this.2⟩
          rw [this]
          simp [hp]
        · have : ((List.range r.Low.length).any fun k =>
              decide (s.getD k 0 < r.Low.getD k 0 ∨ s.getD k 0 > r.High.getD k 0)) = true := by
            rw [List.any_eq_true]
            have hne : ¬ ∀ k, k < r.Low.length → r.Low.getD k 0 ≤ s.getD k 0 ∧ s.getD k 0 ≤ r.High.getD k 0 :=
              fun hall => hp ⟨by omega, hall⟩
            have ⟨k, hk⟩ := Classical.not_forall.mp hne
            have ⟨hk1, hk2⟩ := Classical.not_imp.mp hk
            refine ⟨k, List.mem_range.mpr hk1, ?_⟩
            simp only [decide_eq_true_eq, gt_iff_lt]
            by_cases h1 : r.Low.getD k 0 ≤ s.getD k 0
            · right
              exact UInt8.not_le.mp (fun h2 => hk2 ⟨h1, h2⟩)
            · left
              exact UInt8.not_le.mp h1
          rw [this]
          simp [hp]
      · intro k hk
        have e0 : (0 : Int) + (k : Int) = (k : Int) := by omega
        rw [e0, getD_idx _ _ (by omega), getD_idx _ _ hk, getD_idx _ _ (by omega)]
        simp only [obind]
        generalize s.getD k 0 = x
        generalize r.Low.getD k 0 = lo
        generalize r.High.getD k 0 = hi
        by_cases h1 : x < lo <;> by_cases h2 : x > hi <;> simp [h1, h2]

example : charcode_CodeSpaceRange_matchLen [⟨[0], [0x7f]⟩, ⟨[0x80, 0x40], [0xff, 0xfc]⟩] [0x81, 0x41, 0] = some 2 := by
  decide +kernel

/-! ## canMerge -/

/-- position `k` of the two ranges differs -/
def differs (r s : charcode_Range) (k : Nat) : Bool :=
  !(r.Low.getD k 0 == s.Low.getD k 0 && r.High.getD k 0 == s.High.getD k 0)
/-- at position `k`, `s` starts right after the end of `r` -/
def adjacent (r s : charcode_Range) (k : Nat) : Bool :=
  decide (((r.High.getD k 0).toNat : Int) + 1 = ((s.Low.getD k 0).toNat : Int))

/-- what the loop of `canMerge` computes over the positions `ks`; `seen` = an adjacent position was met -/
def mergeScan (r s : charcode_Range) : List Nat → Bool → Bool
  | [], _ => true
  | k :: ks, seen =>
    if !differs r s k then mergeScan r s ks seen
    else if !adjacent r s k || seen then false
    else mergeScan r s ks true

/-- the counter `numAdjacent` when the loop ends (only needed to state the loop lemma as an equation) -/
def mergeCount (r s : charcode_Range) : List Nat → Int → Int
  | [], n => n
  | k :: ks, n =>
    if !differs r s k then mergeCount r s ks n
    else if !adjacent r s k || decide (n > 0) then n
    else mergeCount r s ks (i64 (n + 1))

theorem canMerge_loop (r s : charcode_Range) (L : Nat)
    (body : Nat → Option Bool × Int → Option (ForInStep (Option Bool × Int)))
    (hbody : ∀ k (st : Option Bool × Int), k < L → body k st =
      if !differs r s k then some (ForInStep.yield (none, st.snd))
      else if !adjacent r s k || decide (st.snd > 0) then some (ForInStep.done (some false, st.snd))
      else some (ForInStep.yield (none, i64 (st.snd + 1))))
    (ks : List Nat) (hk : ∀ k ∈ ks, k < L) (n : Int) (hn : 0 ≤ n) (hb : n + ks.length < 4611686018427387904) :
    forIn ks ((none : Option Bool), n) body =
      some ((if mergeScan r s ks (decide (n > 0)) then none else some false), mergeCount r s ks n) := by
  induction ks generalizing n with
  | nil => simp [mergeScan, mergeCount]
  | cons k ks ih =>
    have hkL := hk k (by simp)
    have hks : ∀ k ∈ ks, k < L := fun k hk' => hk k (by simp [hk'])
    simp only [List.forIn_cons]
    rw [hbody k (none, n) hkL]
    simp only []
    unfold mergeScan mergeCount
    simp only [List.length_cons] at hb
    by_cases hd : differs r s k = true
    · simp only [hd, Bool.not_true, Bool.false_eq_true, if_false]
      by_cases ha : (!adjacent r s k || decide (n > 0)) = true
      · simp [ha, bind]
      · have ha' : (!adjacent r s k || decide (n > 0)) = false := by
          cases hh : (!adjacent r s k || decide (n > 0)) <;> simp_all
        simp only [ha', Bool.false_eq_true, if_false, bind, Option.bind_some]
        have hn0 : ¬ (n > 0) := by
          intro h; apply ha; simp [h]
        have hm := ih hks (i64 (n + 1)) (by rw [i64_of_bounds (by omega) (by omega)]; omega)
          (by rw [i64_of_bounds (by omega) (by omega)]; omega)
        have : decide (i64 (n + 1) > 0) = true := by
          rw [i64_of_bounds (by omega) (by omega)]; simp; omega
        rw [this] at hm
        exact hm
    · have hd' : differs r s k = false := by simpa using hd
      simp only [hd', Bool.not_false, if_true, bind, Option.bind_some]
      exact ih hks n hn (by omega)

/-- `canMerge` on ranges whose four bound strings have the same length (in particular on valid
ranges of equal length): it does not panic and computes `mergeScan` over all positions -/
theorem canMerge_eq (r s : charcode_Range) (hl : r.Low.length < 4611686018427387904)
    (h2 : r.High.length = r.Low.length) (h3 : s.Low.length = r.Low.length) (h4 : s.High.length = r.Low.length) :
    charcode_canMerge r s = some (mergeScan r s (List.range r.Low.length) false) := by
  unfold charcode_canMerge
  simp only [pure, bind]
  have c : (len r.Low != len s.Low) = false := by simp [len, h3]
  simp only [c, Bool.false_eq_true, if_false]
  have hL : (len s.Low).toNat = r.Low.length := by simp [len, h3]
  rw [hL]
  rw [canMerge_loop r s r.Low.length _ ?_ (List.range r.Low.length) (fun k hk => List.mem_range.mp hk) 0
    (by omega) (by simp; omega)]
  · have d0 : decide ((0 : Int) > 0) = false := by decide
    rw [d0]
    cases hms : mergeScan r s (List.range r.Low.length) false <;> simp
  · intro k st hk
    rw [getD_idx _ _ (by omega), getD_idx _ _ (by omega), getD_idx _ _ (by omega), getD_idx _ _ (by omega)]
    unfold differs adjacent
    generalize r.Low.getD k 0 = a
    generalize s.Low.getD k 0 = b
    generalize r.High.getD k 0 = c
    generalize s.High.getD k 0 = d
    simp only [obind]
    have hc := u8_cast_bounds c
    generalize (c.toNat : Int) = C at hc ⊢
    generalize (b.toNat : Int) = B
    as_aux_lemma =>
      rw [i64_of_bounds (by omega) (by omega)]
      by_cases e1 : a = b <;> by_cases e2 : c = d <;> simp [e1, e2]

theorem mergeScan_seen (r s : charcode_Range) (ks : List Nat) (h : mergeScan r s ks true = true) :
    ∀ k ∈ ks, differs r s k = false := by
  induction ks with
  | nil => simp
  | cons a as ih =>
    unfold mergeScan at h
    cases hd : differs r s a
    · simp only [hd, Bool.not_false, if_true] at h
      intro k hk
      rcases List.mem_cons.mp hk with rfl | hk
      · exact hd
      · exact ih h k hk
    · simp [hd] at h

theorem mergeScan_char (r s : charcode_Range) (ks : List Nat) (h : mergeScan r s ks false = true) :
    (∀ k ∈ ks, differs r s k = false) ∨
    ∃ p ∈ ks, differs r s p = true ∧ adjacent r s p = true ∧ ∀ k ∈ ks, k ≠ p → differs r s k = false := by
  induction ks with
  | nil => left; simp
  | cons a as ih =>
    unfold mergeScan at h
    cases hd : differs r s a
    · simp only [hd, Bool.not_false, if_true] at h
      rcases ih h with hall | ⟨p, hp, h1, h2, h3⟩
      · left
        intro k hk
        rcases List.mem_cons.mp hk with rfl | hk
        · exact hd
        · exact hall k hk
      · right
        refine ⟨p, List.mem_cons_of_mem _ hp, h1, h2, ?_⟩
        intro k hk hne
        rcases List.mem_cons.mp hk with rfl | hk
        · exact hd
        · exact h3 k hk hne
    · simp only [hd, Bool.not_true, Bool.false_eq_true, if_false, Bool.or_false] at h
      cases ha : adjacent r s a
      · simp [ha] at h
      · simp only [ha, Bool.not_true, Bool.false_eq_true, if_false] at h
        right
        refine ⟨a, List.mem_cons_self, hd, ha, ?_⟩
        intro k hk hne
        rcases List.mem_cons.mp hk with rfl | hk
        · exact absurd rfl hne
        · exact mergeScan_seen r s as h k hk

/-- `code` lies in the box `[lo, hi]` (the set of codes of a range) -/
def inBox (lo hi code : List UInt8) : Prop :=
  code.length = lo.length ∧ ∀ k, k < lo.length → lo.getD k 0 ≤ code.getD k 0 ∧ code.getD k 0 ≤ hi.getD k 0

/-- **canMerge is sound** ("merging only joins adjacent boxes"): if `canMerge r s` answers true for
two ranges with `Low ≤ High` bytewise and equal lengths, the merged range `[r.Low, s.High]`
contains exactly the codes of `r` and of `s`. -/
theorem canMerge_union (r s : charcode_Range) (hl : r.Low.length < 4611686018427387904)
    (h2 : r.High.length = r.Low.length) (h3 : s.Low.length = r.Low.length) (h4 : s.High.length = r.Low.length)
    (hr : ∀ k, k < r.Low.length → r.Low.getD k 0 ≤ r.High.getD k 0)
    (hs : ∀ k, k < r.Low.length → s.Low.getD k 0 ≤ s.High.getD k 0)
    (hm : charcode_canMerge r s = some true) (code : List UInt8) :
    inBox r.Low s.High code ↔ inBox r.Low r.High code ∨ inBox s.Low s.High code := by
  rw [canMerge_eq r s hl h2 h3 h4] at hm
  have hm' : mergeScan r s (List.range r.Low.length) false = true := by simpa using hm
  have eqAt : ∀ k, differs r s k = false → r.Low.getD k 0 = s.Low.getD k 0 ∧ r.High.getD k 0 = s.High.getD k 0 := by
    intro k hk
    unfold differs at hk
    simpa using hk
  unfold inBox
  rw [h3]
  rcases mergeScan_char r s _ hm' with hall | ⟨p, hp, hd, ha, hrest⟩
  · -- identical ranges
    have e : ∀ k, k < r.Low.length → r.Low.getD k 0 = s.Low.getD k 0 ∧ r.High.getD k 0 = s.High.getD k 0 :=
      fun k hk => eqAt k (hall k (List.mem_range.mpr hk))
    constructor
    · rintro ⟨hlen, hb⟩
      left
      exact ⟨hlen, fun k hk => ⟨(hb k hk).1, by rw [(e k hk).2]; exact (hb k hk).2⟩⟩
    · rintro (⟨hlen, hb⟩ | ⟨hlen, hb⟩)
      · exact ⟨hlen, fun k hk => ⟨(hb k hk).1, by rw [← (e k hk).2]; exact (hb k hk).2⟩⟩
      · exact ⟨hlen, fun k hk => ⟨by rw [(e k hk).1]; exact (hb k hk).1, (hb k hk).2⟩⟩
  · -- exactly one position p where s continues r
    have hpL : p < r.Low.length := List.mem_range.mp hp
    have e : ∀ k, k < r.Low.length → k ≠ p → r.Low.getD k 0 = s.Low.getD k 0 ∧ r.High.getD k 0 = s.High.getD k 0 :=
      fun k hk hne => eqAt k (hrest k (List.mem_range.mpr hk) hne)
    have hadj : (r.High.getD p 0).toNat + 1 = (s.Low.getD p 0).toNat := by
      unfold adjacent at ha
      have := of_decide_eq_true ha
      omega
    have hrp := UInt8.le_iff_toNat_le.mp (hr p hpL)
    have hsp := UInt8.le_iff_toNat_le.mp (hs p hpL)
    constructor
    · rintro ⟨hlen, hb⟩
      have hbp := hb p hpL
      by_cases hc : (code.getD p 0).toNat ≤ (r.High.getD p 0).toNat
      · left
        refine ⟨hlen, fun k hk => ⟨(hb k hk).1, ?_⟩⟩
        by_cases hkp : k = p
        · subst hkp; exact UInt8.le_iff_toNat_le.mpr hc
        · rw [(e k hk hkp).2]; exact (hb k hk).2
      · right
        refine ⟨hlen, fun k hk => ⟨?_, (hb k hk).2⟩⟩
        by_cases hkp : k = p
        · subst hkp; apply UInt8.le_iff_toNat_le.mpr; omega
        · rw [← (e k hk hkp).1]; exact (hb k hk).1
    · rintro (⟨hlen, hb⟩ | ⟨hlen, hb⟩)
      · refine ⟨hlen, fun k hk => ⟨(hb k hk).1, ?_⟩⟩
        by_cases hkp : k = p
        · subst hkp
          have := UInt8.le_iff_toNat_le.mp (hb k hk).2
          apply UInt8.le_iff_toNat_le.mpr; omega
        · rw [← (e k hk hkp).2]; exact (hb k hk).2
      · refine ⟨hlen, fun k hk => ⟨?_, (hb k hk).2⟩⟩
        by_cases hkp : k = p
        · subst hkp
          have := UInt8.le_iff_toNat_le.mp (hb k hk).1
          apply UInt8.le_iff_toNat_le.mpr; omega
        · rw [(e k hk hkp).1]; exact (hb k hk).1

example : charcode_canMerge ⟨[0], [0x7f]⟩ ⟨[0x80], [0xff]⟩ = some true := by decide +kernel
example : charcode_canMerge ⟨[0, 0], [0x7f, 0xff]⟩ ⟨[0x80, 0], [0xff, 0xfe]⟩ = some false := by decide +kernel
/-- on malformed ranges (High shorter than Low) the Go code indexes out of range; the generated
function reports the panic.  `NewCodec` calls `canMerge` only on ranges that passed `IsValid`. -/
example : charcode_canMerge ⟨[0, 0], [0x7f]⟩ ⟨[0x80, 0], [0xff]⟩ = none := by decide +kernel

end PdfVerif.C12tr

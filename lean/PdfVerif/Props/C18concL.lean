import PdfVerif.Lemmas.CONCRuns
import PdfVerif.Lemmas.CONCLive
import PdfVerif.Lemmas.CONCMarker
/-!
# C18 — `exclusive_runs_once` and `exclusive_progress`

* The decode function run on behalf of a pending (i.e. by the registered owner of an exclusive
  decode) is entered at most once — for all traces, panics included.
* When `DecodeExclusive` is used as documented — only for "sinks": a decode function running
  under `DecodeExclusive` never calls `DecodeExclusive` on a reference again — and no decode
  function panics, no reachable state is a deadlock: if some thread is inside a call, some thread
  can take a step which is not the start of a new call.  (Without the restriction there are
  deadlocks: `C18concCE.exclusive_self_deadlock`.)
-/
namespace PdfVerif.C18concL
open PdfVerif PdfVerif.CONC

theorem xr_reachable (cfg : Cfg) (ls : List Label) (s : State)
    (h : run cfg State.init ls = some s) : XInv s ∧ RInv s :=
  run_inv cfg (fun _ => True) (fun s => XInv s ∧ RInv s)
    (fun _ _ _ _ _ hi hs => ⟨hi.1.step hs, RInv.step hi.1 hi.2 hs⟩) ls State.init s
    (fun _ _ => trivial) ⟨XInv.init, RInv.init⟩ h

/-- `exclusive_once` (5): in every reachable state, for every pending `p`, the history contains at
most one entry of a decode function on behalf of `p` — the function of an exclusive decode runs
once, however many callers there are and however they interleave. -/
theorem exclusive_runs_once (cfg : Cfg) (ls : List Label) (s : State)
    (h : run cfg State.init ls = some s) (p : Pid) : runsOf s.hist p ≤ 1 :=
  (xr_reachable cfg ls s h).2.once p

/-- before the owner has entered its function nobody has: a pending whose owner is still at
`ex:owner` or inside the reference loop of its `Decode` has no recorded run -/
theorem not_run_before_owner (cfg : Cfg) (ls : List Label) (s : State)
    (h : run cfg State.init ls = some s) (t : Tid) (p : Pid) (hp : p ∈ preRun (s.thr t)) :
    runsOf s.hist p = 0 :=
  (xr_reachable cfg ls s h).2.pre t p hp

theorem xl_reachable (cfg : Cfg) (ls : List Label) (s : State)
    (hg : GuardedRun cfg SinkGuard State.init ls) (h : run cfg State.init ls = some s) :
    XInv s ∧ LInv s :=
  run_invG cfg SinkGuard (fun s => XInv s ∧ LInv s)
    (fun _ _ _ _ hg hi hs => ⟨hi.1.step hs, LInv.step hi.1 hg hi.2 hs⟩) ls State.init s hg
    ⟨XInv.init, LInv.init⟩ h

/-- `exclusive_progress`: deadlock freedom under the documented discipline of `DecodeExclusive`.
In every state reachable by a trace in which exclusive decodes are not nested and decode functions
do not panic, if some thread is inside a call then some
thread can continue its current call (leave `Get`/a hook, or return from its decode function). -/
theorem exclusive_progress (cfg : Cfg) (ls : List Label) (s : State)
    (hg : GuardedRun cfg SinkGuard State.init ls) (h : run cfg State.init ls = some s)
    (t : Tid) (hne : s.thr t ≠ []) :
    ∃ t', (step cfg s t' .go).isSome = true ∨ (step cfg s t' (.fnRet (.err (.fn 0)))).isSome = true := by
  obtain ⟨hx, hl⟩ := xl_reachable cfg ls s hg h
  -- a thread whose top frame is not a waiter can always continue
  have hfree : ∀ t0 f rest, s.thr t0 = f :: rest → (∀ k p, f ≠ .exWait k p) →
      (step cfg s t0 .go).isSome = true ∨ (step cfg s t0 (.fnRet (.err (.fn 0)))).isSome = true := by
    intro t0 f rest e hw
    refine enabled_of_top e ((hl.stk t0).nodead f (by rw [e]; simp)) ?_ hw
    intro k p ef
    subst ef
    exact (hl.stk t0).top k p rest e
  cases e : s.thr t with
  | nil => exact absurd e hne
  | cons f rest =>
    by_cases hw : ∃ k p, f = .exWait k p
    · obtain ⟨k, p, rfl⟩ := hw
      cases hd : (s.pend p).done with
      | true =>
        -- the pending is closed: the waiter wakes up
        refine ⟨t, .inl ?_⟩
        have hout := hx.doneOut p hd
        have hnp := hl.out p
        simp only [step, e, hd, if_true]
        cases ho : (s.pend p).out with
        | none => exact absurd ho hout
        | some res =>
          cases res with
          | panic => exact absurd ho hnp
          | err er => simp
          | ok v => simp
      | false =>
        -- the pending is open: its owner exists and is not itself waiting
        have hp : p < s.npend := hx.frames t (.exWait k p) (by rw [e]; simp)
        obtain ⟨t2, h2⟩ := hl.live p hp hd
        cases e2 : s.thr t2 with
        | nil => rw [e2] at h2; simp [owned] at h2
        | cons g rest2 =>
          refine ⟨t2, hfree t2 g rest2 e2 ?_⟩
          intro k' p' eg
          subst eg
          -- the waiter frame on top and the owner frame below would be two exclusive frames
          rw [e2, owned_cons_none _ rfl] at h2
          obtain ⟨g2, hg2, ho2⟩ := List.mem_filterMap.mp h2
          have hex : isExcl g2 = true := by cases g2 <;> simp [owns] at ho2 <;> rfl
          have hc := hl.one t2
          rw [e2, exclCount_cons] at hc
          have : 1 ≤ exclCount rest2 := by
            unfold exclCount
            exact List.length_pos_iff.mpr (List.ne_nil_of_mem (List.mem_filter.mpr ⟨hg2, hex⟩))
          simp [isExcl] at hc
          omega
    · exact ⟨t, hfree t f rest e (fun k p ef => hw ⟨k, p, ef⟩)⟩

/-- non-vacuity: the page/form pattern — an exclusive "sink" decode whose function decodes another
object, racing with a plain decode of that object whose function starts the exclusive decode —
satisfies the guard; here thread 1 waits for the pending owned by thread 0. -/
example :
    let cfg : Cfg := ⟨fun _ => .direct, true⟩
    let ls : List Label :=
      [(0, .callExcl (.ref 1) 0 []), (0, .go), (1, .callDecode (.ref 2) 0 []), (1, .go),
       (1, .callExcl (.ref 1) 0 []), (0, .go), (0, .callDecode (.ref 2) 0 [])]
    GuardedRun cfg SinkGuard State.init ls ∧ (run cfg State.init ls).isSome = true := by
  refine ⟨?_, by decide⟩
  simp [GuardedRun, SinkGuard, step, canCall, exclCall, decLoop, State.init, upd, exclCount, isExcl,
    maxDepth, Gen.limits_MaxExtractDepth, retDec, deliver, deliverStack]

/-! ## marker_released -/

theorem xm_reachable (cfg : Cfg) (ls : List Label) (s : State)
    (h : run cfg State.init ls = some s) : XInv s ∧ MInv s :=
  run_inv cfg (fun _ => True) (fun s => XInv s ∧ MInv s)
    (fun _ _ _ _ _ hi hs => ⟨hi.1.step hs, MInv.step hi.1 hi.2 hs⟩) ls State.init s
    (fun _ _ => trivial) ⟨XInv.init, MInv.init⟩ h

/-- `marker_released`: on every exit path of `DecodeExclusive` — return, error, panic of the decode
function, `runtime.Goexit` — the in-progress marker is cleared and `done` is closed.  As an
invariant over ALL traces (no guard: decode functions may panic at any point, in any nesting):
(1) a `wip` entry always names a pending which is not closed and whose owner frame is alive in
some thread's stack; (2) every pending which is not closed — i.e. every pending a waiter can be
blocked on — has a live owner.  So no caller ever waits for an owner that is gone. -/
theorem marker_released (cfg : Cfg) (ls : List Label) (s : State)
    (h : run cfg State.init ls = some s) :
    (∀ k p, s.wip k = some p → (s.pend p).done = false ∧ ∃ t, p ∈ owned (s.thr t)) ∧
    (∀ p, p < s.npend → (s.pend p).done = false → ∃ t, p ∈ owned (s.thr t)) := by
  obtain ⟨hx, hm⟩ := xm_reachable cfg ls s h
  refine ⟨fun k p hk => ?_, hm.live⟩
  have hd := hm.undone k p hk
  exact ⟨hd, hm.live p (hx.wipb k p hk) hd⟩

/-- the audit's scenario: thread 0 owns `(r1, type 0)`, thread 1 waits; the owner's decode
function panics.  The waiter is released with the abort error, the marker is gone, and a later
exclusive decode of the reference runs afresh and succeeds. -/
example :
    let cfg : Cfg := ⟨fun _ => .direct, true⟩
    let ls : List Label :=
      [(0, .callExcl (.ref 1) 0 []), (1, .callExcl (.ref 1) 0 []), (0, .go), (0, .go),
       (0, .fnRet .panic), (1, .go),
       (2, .callExcl (.ref 1) 0 []), (2, .go), (2, .go), (2, .fnRet (.ok 7)), (2, .go), (2, .go), (2, .go)]
    (run cfg State.init ls).map (fun s => (s.thr 0, s.thr 1, s.thr 2)) = some ([.dead], [], []) ∧
    (run cfg State.init ls).map (fun s => s.wip (1, 0)) = some none ∧
    (run cfg State.init ls).map (fun s => s.hist.take 1) = some [.exc 2 (.ref 1) 0 (.ok 7) (some 1)] ∧
    (run cfg State.init ls).map (fun s => s.hist.filter fun e => match e with | .exc 1 _ _ _ _ => true | _ => false)
      = some [.exc 1 (.ref 1) 0 (.err .aborted) (some 0)] := by
  refine ⟨by decide, by decide, by decide, by decide⟩

end PdfVerif.C18concL

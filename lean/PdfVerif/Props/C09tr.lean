import PdfVerif.Lemmas.TRGo
import PdfVerif.Generated.FnPdf
/-!
# C09 (translator part): permission algebra and PKCS#7 un-padding on the GENERATED code

`Gen.pdf_stdSecPToPerm`, `Gen.pdf_stdSecPermToP`, `Gen.pdf_Perm_canR2`, `Gen.pdf_unpadPKCS7` are
re-created from crypto.go on every run.  The permission theorems quantify over all 128
permission sets and all revisions the writer can select, so `decide +kernel` is a proof.
-/
namespace PdfVerif.C09tr
open PdfVerif PdfVerif.Gen PdfVerif.Go

/-- the documented implications: Print ⇒ PrintDegraded, Annotate ⇒ Forms, Modify ⇒ Assemble
(bit values from the regenerated constants) -/
def closure (p : Nat) : Nat :=
  p ||| (if p &&& pdf_PermPrint ≠ 0 then pdf_PermPrintDegraded else 0)
    ||| (if p &&& pdf_PermAnnotate ≠ 0 then pdf_PermForms else 0)
    ||| (if p &&& pdf_PermModify ≠ 0 then pdf_PermAssemble else 0)

/-- revisions the writer selects (createStdSecHandler) -/
def revisions : List Int := [2, 3, 4, 6]

/-- **perm_algebra** (R ≥ 3): user access reports exactly the requested permissions closed under
the documented implications, for all 128 permission sets -/
theorem perm_algebra : ∀ p : Nat, p < 128 → ∀ R ∈ [(3 : Int), 4, 6],
    pdf_stdSecPToPerm R (pdf_stdSecPermToP (p : Int)) = (closure p : Int) := by decide +kernel

/-- **perm_algebra** for revision 2, which the writer selects only when `canR2` holds -/
theorem perm_algebra_R2 : ∀ p : Nat, p < 128 → pdf_Perm_canR2 (p : Int) = true →
    pdf_stdSecPToPerm 2 (pdf_stdSecPermToP (p : Int)) = (closure p : Int) := by decide +kernel

/-- `canR2` is exactly "no implied permission is granted without the one that implies it"
(revision 2 has no bits for PrintDegraded, Forms and Assemble alone) -/
theorem canR2_iff : ∀ p : Nat, p < 128 → (pdf_Perm_canR2 (p : Int) = true ↔
    ((p &&& pdf_PermPrintDegraded ≠ 0 → p &&& pdf_PermPrint ≠ 0) ∧
     (p &&& pdf_PermForms ≠ 0 → p &&& pdf_PermAnnotate ≠ 0) ∧
     (p &&& pdf_PermAssemble ≠ 0 → p &&& pdf_PermModify ≠ 0))) := by
  decide +kernel

/-- without `canR2` revision 2 would grant more or less than requested: the guard is needed
(witness: PrintDegraded alone comes back with full printing removed) -/
theorem R2_needs_canR2 : ∃ p : Nat, p < 128 ∧ pdf_Perm_canR2 (p : Int) = false ∧
    pdf_stdSecPToPerm 2 (pdf_stdSecPermToP (p : Int)) ≠ (closure p : Int) := ⟨2, by decide +kernel⟩

/-- all permissions (what owner access reports) survive the encoding at every revision, and the
encoded word is the standard's "everything allowed" value with the two reserved low bits clear -/
theorem perm_all : pdf_stdSecPermToP (pdf_PermAll : Int) = 0xFFFFFFFC ∧
    ∀ R ∈ revisions, pdf_stdSecPToPerm R (pdf_stdSecPermToP (pdf_PermAll : Int)) = (pdf_PermAll : Int) := by
  decide +kernel

/-- the reserved bits 1 and 2 of P are always 0 and bits 7, 8 and 13–32 always 1 (ISO 32000 table 22) -/
theorem permToP_reserved : ∀ p : Nat, p < 128 →
    pdf_stdSecPermToP (p : Int) &&& 3 = 0 ∧ pdf_stdSecPermToP (p : Int) &&& 0xFFFFF0C0 = 0xFFFFF0C0 := by
  decide +kernel

/-- `PermToP` is injective on closed permission sets (nothing the user may request is lost):
a corollary of `perm_algebra`, since `PToPerm 3` is a left inverse there -/
theorem permToP_injective_on_closed (p q : Nat) (hp : p < 128) (hq : q < 128)
    (cp : closure p = p) (cq : closure q = q)
    (h : pdf_stdSecPermToP (p : Int) = pdf_stdSecPermToP (q : Int)) : p = q := by
  have h1 := perm_algebra p hp 3 (by simp)
  have h2 := perm_algebra q hq 3 (by simp)
  rw [h, h2, cp, cq] at h1
  exact (Int.ofNat_inj.mp h1).symm

/-- `PToPerm` as a function of the eight tests it makes on P -/
def pToPermBits (R : Int) (b3 b12 b4 b11 b5 b6 b9 : Bool) : Int := Id.run do
  let mut perm : Int := 127
  if R == 2 then
    if b3 then perm := and64 perm (-7)
  else
    if decide (R ≥ 3) then
      if b3 && b12 then perm := and64 perm (-7)
      else
        if !b3 && b12 then perm := and64 perm (-5)
  if b4 then
    perm := and64 perm (-65)
    if b11 then perm := and64 perm (-33)
  if b5 then perm := and64 perm (-2)
  if b6 then
    perm := and64 perm (-17)
    if b9 then perm := and64 perm (-9)
  return perm

theorem pToPerm_eq_bits (R : Int) (P : UInt32) :
    pdf_stdSecPToPerm R P = pToPermBits R (P &&& 4 == 0) (P &&& 2048 == 0) (P &&& 8 == 0) (P &&& 1024 == 0)
      (P &&& 16 == 0) (P &&& 32 == 0) (P &&& 256 == 0) := by
  unfold pdf_stdSecPToPerm pToPermBits
  simp only [bne]

/-- **whatever P a file contains** (all 2³² values) and for every revision the writer can select,
the decoded permissions lie in 0..PermAll, and for R ≥ 3 they are closed under the implications -/
theorem pToPerm_range (R : Int) (hR : R ∈ revisions) (P : UInt32) :
    0 ≤ pdf_stdSecPToPerm R P ∧ pdf_stdSecPToPerm R P ≤ 127 ∧
    (R ≠ 2 → (closure (pdf_stdSecPToPerm R P).toNat : Int) = pdf_stdSecPToPerm R P) := by
  rw [pToPerm_eq_bits]
  generalize (P &&& 4 == 0) = b3
  generalize (P &&& 2048 == 0) = b12
  generalize (P &&& 8 == 0) = b4
  generalize (P &&& 1024 == 0) = b11
  generalize (P &&& 16 == 0) = b5
  generalize (P &&& 32 == 0) = b6
  generalize (P &&& 256 == 0) = b9
  have key : ∀ R ∈ revisions, ∀ b3 b12 b4 b11 b5 b6 b9 : Bool,
      0 ≤ pToPermBits R b3 b12 b4 b11 b5 b6 b9 ∧ pToPermBits R b3 b12 b4 b11 b5 b6 b9 ≤ 127 ∧
      (R ≠ 2 → (closure (pToPermBits R b3 b12 b4 b11 b5 b6 b9).toNat : Int) = pToPermBits R b3 b12 b4 b11 b5 b6 b9) := by
    decide +kernel
  exact key R hR b3 b12 b4 b11 b5 b6 b9

example : closure 4 = 6 ∧ closure 80 = 120 := by decide +kernel

/-! ## unpadPKCS7 (constant-time check of the last AES block) -/

/-- the 0/1 integers of crypto/subtle -/
def b01 (c : Bool) : Int := if c then 1 else 0

theorem ctLessOrEq_b01 (x y : Int) : ctLessOrEq x y = b01 (decide (x ≤ y)) := by
  unfold ctLessOrEq b01; split <;> simp [*]
theorem ctByteEq_b01 (x y : UInt8) : ctByteEq x y = b01 (x == y) := by
  unfold ctByteEq b01; split <;> simp [*]
theorem xor1_b01 (c : Bool) : xor64 1 (b01 c) = b01 (!c) := by cases c <;> decide
theorem or_b01 (a b : Bool) : or64 (b01 a) (b01 b) = b01 (a || b) := by cases a <;> cases b <;> decide
theorem and_b01 (a b : Bool) : and64 (b01 a) (b01 b) = b01 (a && b) := by cases a <;> cases b <;> decide
theorem b01_ne_one (c : Bool) : (b01 c != 1) = !c := by cases c <;> decide

theorem fold_and_b01 (l : List Nat) (c : Nat → Bool) (i : Bool) :
    l.foldl (fun s k => and64 s (b01 (c k))) (b01 i) = b01 (i && l.all c) := by
  induction l generalizing i with
  | nil => simp
  | cons a as ih => simp only [List.foldl_cons, and_b01, ih, List.all_cons, Bool.and_assoc]

/-- byte `i` from the end of `buf` (0 = last); only used where it exists -/
def fromEnd (buf : List UInt8) (i : Nat) : UInt8 := buf.getD (buf.length - 1 - i) 0

theorem idx_fromEnd (buf : List UInt8) (i : Nat) (h : i < buf.length) (hl : buf.length < 9223372036854775808) :
    idx buf (i64 (i64 (len buf - 1) - (i : Int))) = some (fromEnd buf i) := by
  have e1 : i64 (len buf - 1) = len buf - 1 := by
    unfold len; exact i64_of_bounds (by omega) (by omega)
  have e2 : i64 (len buf - 1 - (i : Int)) = ((buf.length - 1 - i : Nat) : Int) := by
    unfold len; rw [i64_of_bounds (by omega) (by omega)]; omega
  rw [e1, e2, idx_natCast]
  unfold fromEnd
  rw [List.getD_eq_getElem?_getD, List.getElem?_eq_getElem (by omega)]
  simp

/-- PKCS#7 well-formedness of the last block (ISO 32000-2, 7.6.3.1) -/
def wellPadded (buf : List UInt8) : Bool :=
  decide (16 ≤ buf.length) && decide (buf.length % 16 = 0) &&
    (decide (1 ≤ (fromEnd buf 0).toNat) && decide ((fromEnd buf 0).toNat ≤ 16) &&
      (List.range 16).all fun i => decide (i + 1 ≤ (fromEnd buf 0).toNat → fromEnd buf i = fromEnd buf 0))

/-- **unpadPKCS7, complete specification** for every buffer (of a length a Go slice can have):
it never panics; it accepts exactly the buffers whose length is a positive multiple of 16 and whose
last block ends in `k` bytes of value `k`, 1 ≤ k ≤ 16; it then returns the buffer without them -/
theorem unpad_spec (buf : List UInt8) (hl : buf.length < 9223372036854775808) :
    pdf_unpadPKCS7 buf = some (if wellPadded buf then (buf.take (buf.length - (fromEnd buf 0).toNat), none)
      else ([], some "errCorrupted")) := by
  unfold pdf_unpadPKCS7
  simp only [pure, bind]
  by_cases hn : 16 ≤ buf.length ∧ buf.length % 16 = 0
  · have c1 : (decide (len buf < 16) || remK (len buf) 16 != 0) = false := by
      unfold len remK
      have : Int.tmod (buf.length : Int) 16 = 0 := by
        rw [Int.tmod_eq_emod_of_nonneg (by omega)]; omega
      simp [this]; omega
    simp only [c1, Bool.false_eq_true, if_false]
    have hlast : idx buf (i64 (len buf - 1)) = some (fromEnd buf 0) := by
      have := idx_fromEnd buf 0 (by omega) hl
      have e1 : i64 (len buf - 1) = len buf - 1 := by
        unfold len; exact i64_of_bounds (by omega) (by omega)
      rw [e1] at this
      have e2 : i64 (len buf - 1 - ((0 : Nat) : Int)) = len buf - 1 := by
        simp; unfold len; exact i64_of_bounds (by omega) (by omega)
      rw [e2] at this
      rw [e1]; exact this
    rw [hlast]
    simp only [Option.bind_some]
    have hbody : ∀ (k : Nat) (s : Int), k < 16 →
        ((idx buf (i64 (i64 (len buf - 1) - (k : Int)))).bind fun b =>
          some (ForInStep.yield (and64 s (or64 (xor64 1 (ctLessOrEq (i64 ((k : Int) + 1)) ((fromEnd buf 0).toNat : Int)))
            (ctByteEq b (fromEnd buf 0)))))) =
        some (ForInStep.yield (and64 s (b01 (decide (k + 1 ≤ (fromEnd buf 0).toNat → fromEnd buf k = fromEnd buf 0))))) := by
      intro k s hk
      rw [idx_fromEnd buf k (by omega) hl]
      simp only [Option.bind_some]
      rw [i64_of_bounds (by omega) (by omega), ctLessOrEq_b01, ctByteEq_b01, xor1_b01, or_b01]
      congr 4
      by_cases h1 : k + 1 ≤ (fromEnd buf 0).toNat <;> by_cases h2 : fromEnd buf k = fromEnd buf 0 <;> simp [h1, h2] <;> omega
    have h16 : Int.toNat 16 = 16 := rfl
    rw [h16, forIn_option_yield (List.range 16) (fun k => k < 16) _
      (fun k s => and64 s (b01 (decide (k + 1 ≤ (fromEnd buf 0).toNat → fromEnd buf k = fromEnd buf 0))))
      hbody (fun k hk => List.mem_range.mp hk)]
    simp only [Option.bind_some]
    rw [ctLessOrEq_b01, ctByteEq_b01, xor1_b01, and_b01, fold_and_b01, b01_ne_one]
    have hwp : wellPadded buf =
        ((decide (((fromEnd buf 0).toNat : Int) ≤ 16) && !(fromEnd buf 0 == 0)) &&
          (List.range 16).all fun k => decide (k + 1 ≤ (fromEnd buf 0).toNat → fromEnd buf k = fromEnd buf 0)) := by
      unfold wellPadded
      have hz : (fromEnd buf 0 == 0) = decide ((fromEnd buf 0).toNat = 0) := by
        rw [Bool.eq_iff_iff]; simp [← UInt8.toNat_inj]
      rw [hz]
      have a1 : decide (16 ≤ buf.length) = true := by simp [hn.1]
      have a2 : decide (buf.length % 16 = 0) = true := by simp [hn.2]
      rw [a1, a2]
      simp only [Bool.true_and]
      congr 1
      rw [Bool.eq_iff_iff]
      simp only [Bool.and_eq_true, decide_eq_true_eq, Bool.not_eq_true', decide_eq_false_iff_not]
      omega
    rw [← hwp]
    cases hw : wellPadded buf
    · simp
    · simp only [Bool.not_true, Bool.false_eq_true, if_false, if_true]
      rw [hwp] at hw
      simp only [Bool.and_eq_true, decide_eq_true_eq] at hw
      have hle : (fromEnd buf 0).toNat ≤ 16 := by omega
      have e : i64 (len buf - ((fromEnd buf 0).toNat : Int)) = ((buf.length - (fromEnd buf 0).toNat : Nat) : Int) := by
        unfold len; rw [i64_of_bounds (by omega) (by omega)]; omega
      rw [e, slice_zero _ _ (by omega) (by omega)]
      simp
  · have c1 : (decide (len buf < 16) || remK (len buf) 16 != 0) = true := by
      unfold len remK
      rw [Int.tmod_eq_emod_of_nonneg (by omega)]
      by_cases h16 : buf.length < 16
      · simp; omega
      · have : ¬ (buf.length % 16 = 0) := by omega
        have : ¬ ((buf.length : Int) % 16 = 0) := by omega
        simp [this]
    simp only [c1, if_true]
    have : wellPadded buf = false := by
      unfold wellPadded
      by_cases h16 : 16 ≤ buf.length
      · have : ¬ (buf.length % 16 = 0) := by omega
        simp [this]
      · simp [h16]
    simp [this]

/-- PKCS#7 padding as the encrypting writer applies it: `k = 16 - len mod 16` bytes of value `k` -/
def pkcs7Pad (x : List UInt8) : List UInt8 :=
  x ++ List.replicate (16 - x.length % 16) (UInt8.ofNat (16 - x.length % 16))

theorem fromEnd_pad (x : List UInt8) (i : Nat) (h : i < 16 - x.length % 16) :
    fromEnd (pkcs7Pad x) i = UInt8.ofNat (16 - x.length % 16) := by
  unfold fromEnd pkcs7Pad
  rw [List.getD_eq_getElem?_getD, List.getElem?_append_right (by simp; omega)]
  simp only [List.length_append, List.length_replicate]
  rw [List.getElem?_replicate]
  have : x.length + (16 - x.length % 16) - 1 - i - x.length < 16 - x.length % 16 := by omega
  simp [this]

/-- **pkcs7_rt**: un-padding inverts padding, for every plaintext -/
theorem pkcs7_rt (x : List UInt8) (hl : x.length + 16 < 9223372036854775808) :
    pdf_unpadPKCS7 (pkcs7Pad x) = some (x, none) := by
  have hlen : (pkcs7Pad x).length = x.length + (16 - x.length % 16) := by simp [pkcs7Pad]
  have hk : (UInt8.ofNat (16 - x.length % 16)).toNat = 16 - x.length % 16 := by
    simp only [UInt8.toNat_ofNat']
    omega
  have h0 := fromEnd_pad x 0 (by omega)
  rw [unpad_spec _ (by omega)]
  have hw : wellPadded (pkcs7Pad x) = true := by
    unfold wellPadded
    rw [h0, hk, hlen]
    simp only [Bool.and_eq_true, decide_eq_true_eq, List.all_eq_true, List.mem_range]
    refine ⟨⟨by omega, by omega⟩, ⟨by omega, by omega⟩, ?_⟩
    intro i hi hik
    exact fromEnd_pad x i (by omega)
  rw [hw, h0, hk, hlen]
  simp only [if_true]
  congr 2
  unfold pkcs7Pad
  have : x.length + (16 - x.length % 16) - (16 - x.length % 16) = x.length := by omega
  rw [this, List.take_left']
  rfl

example : pdf_unpadPKCS7 (pkcs7Pad [1, 2, 3]) = some ([1, 2, 3], none) := by decide +kernel
example : wellPadded [0,0,0,0,0,0,0,0,0,0,0,0,0,3,3,3] = true ∧ wellPadded [0,0,0,0,0,0,0,0,0,0,0,0,0,2,3,3] = false := by
  decide +kernel

/-! ## tryCrop (over-long O and U strings) -/

/-- `tryCrop` for a non-negative target length: never panics; removes the excess exactly when
it consists of zero bytes -/
theorem tryCrop_spec (s : List UInt8) (l : Int) (h0 : 0 ≤ l) (hl : s.length < 9223372036854775808) :
    pdf_tryCrop s l = some (if (s.length : Int) ≤ l then s
      else if (s.drop l.toNat).all (· == 0) then s.take l.toNat else s) := by
  unfold pdf_tryCrop
  simp only [pure, bind]
  by_cases hle : (s.length : Int) ≤ l
  · simp [len, hle]
  · have c1 : decide (len s ≤ l) = false := decide_eq_false (by unfold len; omega)
    simp only [c1, Bool.false_eq_true, if_false, hle]
    rw [forIn_option_search (List.range (len s - l).toNat) (fun k => k < (len s - l).toNat) _
      (fun k => s.getD (l.toNat + k) 0 != 0) (none, ()) (some s, ()) ?_ (fun k hk => List.mem_range.mp hk)]
    · have hany : ((List.range (len s - l).toNat).any fun k => s.getD (l.toNat + k) 0 != 0) =
          !(s.drop l.toNat).all (· == 0) := by
        rw [Bool.eq_iff_iff]
        simp only [List.any_eq_true, List.mem_range, Bool.not_eq_true', List.all_eq_false, bne_iff_ne, ne_eq,
          beq_iff_eq]
        unfold len
        constructor
        · rintro ⟨k, hk, hne⟩
          refine ⟨s.getD (l.toNat + k) 0, ?_, hne⟩
          rw [List.getD_eq_getElem?_getD, List.getElem?_eq_getElem (by omega)]
          simp only [Option.getD_some]
          rw [List.mem_iff_getElem]
          exact ⟨k, by simp; omega, by simp⟩
        · rintro ⟨v, hv, hne⟩
          rw [List.mem_iff_getElem] at hv
          obtain ⟨k, hk, rfl⟩ := hv
          simp at hk
          refine ⟨k, by omega, ?_⟩
          rw [List.getD_eq_getElem?_getD, List.getElem?_eq_getElem (by omega)]
          simp only [Option.getD_some]
          rw [List.getElem_drop] at hne
          exact hne
      rw [hany]
      cases (s.drop l.toNat).all (· == 0)
      · simp
      · simp only [Bool.not_true, Bool.false_eq_true, if_false, Option.bind_some, if_true]
        unfold slice
        have : (0 : Int) ≤ 0 ∧ 0 ≤ l ∧ l ≤ (s.length : Int) := ⟨by omega, h0, by omega⟩
        simp [this]
    · intro k hk
      unfold len at hk
      have : idx s (l + (k : Int)) = some (s.getD (l.toNat + k) 0) := by
        have e : l + (k : Int) = ((l.toNat + k : Nat) : Int) := by omega
        rw [e, idx_natCast, List.getD_eq_getElem?_getD, List.getElem?_eq_getElem (by omega)]
        simp
      rw [this]
      simp only [Option.bind_some]


example : pdf_tryCrop [1, 2, 0, 0] 2 = some [1, 2] ∧ pdf_tryCrop [1, 2, 0, 3] 2 = some [1, 2, 0, 3] := by decide +kernel

/-- a negative length makes the Go code index out of range: the generated function reports the
panic (the callers pass the constants 32 and 48) -/
example : pdf_tryCrop [1, 2] (-1) = none := by decide +kernel

end PdfVerif.C09tr

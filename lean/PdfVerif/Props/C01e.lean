import PdfVerif.Lemmas.C01Canon
/-!
# C01 (part e) — formatting is independent of Go's map order

`Format` is a function in the model, so "deterministic" is definitional; the content of the
clause is that the only place where the iteration order of a Go map could enter — the list of
entries handed to `Dict.SortedKeys` — does not matter: any permutation of a key-unique entry
list gives the same output, at the top level and at any depth.
-/
namespace PdfVerif.C01e
open PdfVerif PdfVerif.C01L

/-- **`sortedKeys_perm`.**  `Dict.SortedKeys` (Type, Subtype first, then ascending) yields the
same entry order for every permutation of a key-unique entry list. -/
theorem sortedKeys_perm (kv1 kv2 : List (Bytes × Obj)) (h : kv1.Perm kv2) (hn : (keysOf kv1).Nodup) :
    sortedEntries kv1 = sortedEntries kv2 :=
  sortedEntries_perm_eq h hn

/-- `SortedKeys` lists every entry of the dictionary exactly once -/
theorem sortedKeys_complete (kv : List (Bytes × Obj)) : (sortedEntries kv).Perm kv :=
  sortedEntries_perm kv

/-- Go's string order, as used by `SortedKeys`, is a strict total order on byte strings -/
theorem bytesLt_strict_total (a b c : Bytes) :
    bytesLt a a = false ∧ (bytesLt a b = true → bytesLt b c = true → bytesLt a c = true) ∧
    (a ≠ b → bytesLt a b = true ∨ bytesLt b a = true) :=
  ⟨bytesLt_irrefl a, bytesLt_trans a b c, bytesLt_total a b⟩

theorem canonKV_eq_map (kv : List (Bytes × Obj)) : canonKV kv = kv.map (fun e => (e.1, e.2.canon)) := by
  induction kv with
  | nil => rfl
  | cons e es ih => obtain ⟨k, v⟩ := e; simp [canonKV, ih]

/-- Two dictionaries whose entry lists agree up to order *after* canonicalising the values
(so the values may themselves contain re-ordered dictionaries, at any depth) have the same
canonical form. -/
theorem canon_dict_congr (kv1 kv2 : List (Bytes × Obj)) (hn : (keysOf kv1).Nodup)
    (h : (canonKV kv1).Perm (canonKV kv2)) : (Obj.dict kv1).canon = (Obj.dict kv2).canon := by
  simp only [Obj.canon]
  rw [sortedEntries_perm_eq h (by rw [canonKV_keys]; exact hn)]

theorem canon_dict_perm (kv1 kv2 : List (Bytes × Obj)) (hn : (keysOf kv1).Nodup) (h : kv1.Perm kv2) :
    (Obj.dict kv1).canon = (Obj.dict kv2).canon := by
  refine canon_dict_congr kv1 kv2 hn ?_
  rw [canonKV_eq_map, canonKV_eq_map]
  exact h.map _

theorem canonList_append (xs ys : List Obj) : canonList (xs ++ ys) = canonList xs ++ canonList ys := by
  induction xs with
  | nil => rfl
  | cons x xs ih => simp [canonList, ih]

/-- `Format` looks at its arguments only through their canonical forms -/
theorem format_canon (opt : FmtOpt) (xs ys : List Obj) (h : canonList xs = canonList ys) :
    format opt xs = format opt ys := by
  unfold format; rw [h]

/-- **Formatting is independent of map order.**  Replacing, anywhere in the argument list of
`Format`, a dictionary by one with the same key-unique entries in another order (the values
possibly re-ordered inside as well) does not change the output, under any option set. -/
theorem format_dict_perm (opt : FmtOpt) (pre post : List Obj) (kv1 kv2 : List (Bytes × Obj))
    (hn : (keysOf kv1).Nodup) (h : (canonKV kv1).Perm (canonKV kv2)) :
    format opt (pre ++ .dict kv1 :: post) = format opt (pre ++ .dict kv2 :: post) := by
  apply format_canon
  rw [canonList_append, canonList_append]
  simp only [canonList]
  rw [canon_dict_congr kv1 kv2 hn h]

/-- the same one level down: a re-ordered dictionary inside an array -/
theorem format_arr_dict_perm (opt : FmtOpt) (pre post : List Obj) (kv1 kv2 : List (Bytes × Obj))
    (hn : (keysOf kv1).Nodup) (h : kv1.Perm kv2) :
    format opt [.arr (pre ++ .dict kv1 :: post)] = format opt [.arr (pre ++ .dict kv2 :: post)] := by
  apply format_canon
  simp only [canonList, Obj.canon]
  rw [canonList_append, canonList_append]
  simp only [canonList]
  rw [canon_dict_perm kv1 kv2 hn h]

-- non-vacuity: three entries incl. `Type`, two orders, same bytes
example : format ⟨false, false⟩ [.dict [([66], .int 1), ([84, 121, 112, 101], .name [88]), ([65], .null)]]
    = format ⟨false, false⟩ [.dict [([65], .null), ([66], .int 1), ([84, 121, 112, 101], .name [88])]] := by
  decide +kernel

end PdfVerif.C01e

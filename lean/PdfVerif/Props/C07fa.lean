import PdfVerif.Props.C06fa
import PdfVerif.Spec.FAAsciiHex
import PdfVerif.Spec.FAAscii85
import PdfVerif.Spec.FARunLength
/-!
# C07 (part A) — the library's codecs against the reference codecs of `Spec/`

For ASCIIHex, ASCII85 and RunLength, for all byte strings:
`Spec.decode (Model.encode x) = some x` (an independent decoder reads what the library writes) and
`Model.decode (Spec.encode x) = (x, none)` (the library reads what an independent encoder writes).
-/
namespace PdfVerif.C07fa
open PdfVerif PdfVerif.FA

/-! ## ASCIIHex -/
section AsciiHex
open AsciiHex

/-- per-byte facts tying the library's alphabet to the specification's digit values -/
theorem ahex_spec_digits : ∀ b, b < 256 →
    digits b = [alpha (b / 16), alpha (b % 16)] ∧
    Spec.AsciiHex.digitVal (alpha (b / 16)) = some (b / 16) ∧
    Spec.AsciiHex.digitVal (alpha (b % 16)) = some (b % 16) ∧
    Spec.AsciiHex.isWhite (alpha (b / 16)) = false ∧ Spec.AsciiHex.isWhite (alpha (b % 16)) = false ∧
    (alpha (b / 16) == 0x3E) = false ∧ (alpha (b % 16) == 0x3E) = false ∧
    b / 16 * 16 + b % 16 = b := by decide +kernel

theorem spec_upToEOD_append (a b : List Nat) (ha : ∀ c ∈ a, (c == 0x3E) = false) :
    Spec.AsciiHex.upToEOD (a ++ b) = (Spec.AsciiHex.upToEOD b).map (a ++ ·) := by
  induction a with
  | nil => simp
  | cons c cs ih =>
    have hc : (c == 0x3E) = false := ha c (by simp)
    simp only [List.cons_append, Spec.AsciiHex.upToEOD, hc]
    rw [ih (fun d hd => ha d (by simp [hd]))]
    simp [Option.map_map, Function.comp_def]

/-- the non-white characters before the EOD marker -/
def specBody (s : List Nat) : Option (List Nat) :=
  (Spec.AsciiHex.upToEOD s).map (List.filter fun c => !Spec.AsciiHex.isWhite c)

def hexs : Bytes → Bytes
  | [] => []
  | b :: bs => digits b ++ hexs bs

def NoGT (l : Bytes) : Prop := ∀ c ∈ l, (c == 0x3E) = false

theorem ahex_consts : Gen.ahex_writer_Write_nl = 10 ∧ Gen.ahex_writer_Close_closeNl = 10 ∧ Gen.ahex_writer_Close_gt = 0x3E := by
  decide

theorem ahex_body (xs : Bytes) (hx : AllBytes xs) : ∀ buf, NoGT buf →
    specBody (run buf xs) = some (buf.filter (fun c => !Spec.AsciiHex.isWhite c) ++ hexs xs) := by
  obtain ⟨k1, k2, k3⟩ := ahex_consts
  induction xs with
  | nil =>
    intro buf hb
    simp only [run, close, k2, k3, hexs, List.append_nil]
    split
    · rw [specBody, List.append_assoc, spec_upToEOD_append _ _ hb]
      simp [Spec.AsciiHex.upToEOD, Spec.AsciiHex.isWhite]
    · rw [specBody, spec_upToEOD_append _ _ hb]
      simp [Spec.AsciiHex.upToEOD]
  | cons b bs ih =>
    intro buf hb
    have hb256 : b < 256 := by simp at hx; exact hx.1
    have hbs : AllBytes bs := by simp at hx; exact hx.2
    obtain ⟨d0, d1, d2, d3, d4, d5, d6, _⟩ := ahex_spec_digits b hb256
    have hdg : NoGT (digits b) := by
      intro c hc; rw [d0] at hc; simp at hc; rcases hc with rfl | rfl <;> assumption
    have hdf : (digits b).filter (fun c => !Spec.AsciiHex.isWhite c) = digits b := by
      rw [d0]; simp [d3, d4]
    simp only [run, step, k1]
    split
    · split
      · have hb' : NoGT (buf ++ [10]) := by
          intro c hc; simp at hc; rcases hc with h | rfl
          · exact hb c h
          · rfl
        rw [specBody, spec_upToEOD_append _ _ hb']
        have := ih hbs (digits b) hdg
        rw [specBody] at this
        cases hu : Spec.AsciiHex.upToEOD (run (digits b) bs) with
        | none => rw [hu] at this; simp at this
        | some body =>
          rw [hu] at this
          simp only [Option.map_some, Option.some.injEq] at this
          have hw10 : Spec.AsciiHex.isWhite 10 = true := by decide
          rw [hdf] at this
          simp [this, hexs, hw10]
      · simp only [List.nil_append]
        have hbuf : buf = [] := by
          cases buf with
          | nil => rfl
          | cons _ _ => simp at *
        subst hbuf
        rw [ih hbs (digits b) hdg, hdf]; simp [hexs]
    · simp only [List.nil_append]
      rw [ih hbs (buf ++ digits b) (by
        intro c hc; simp at hc; rcases hc with h | h
        · exact hb c h
        · exact hdg c h)]
      simp [hdf, hexs]

theorem ahex_spec_pairs (xs : Bytes) (hx : AllBytes xs) :
    (Spec.AsciiHex.allDigits (hexs xs)).map Spec.AsciiHex.pairUp = some xs := by
  induction xs with
  | nil => simp [hexs, Spec.AsciiHex.allDigits, Spec.AsciiHex.pairUp]
  | cons b bs ih =>
    have hb256 : b < 256 := by simp at hx; exact hx.1
    have hbs : AllBytes bs := by simp at hx; exact hx.2
    obtain ⟨d0, d1, d2, _, _, _, _, d7⟩ := ahex_spec_digits b hb256
    have := ih hbs
    cases hd : Spec.AsciiHex.allDigits (hexs bs) with
    | none => rw [hd] at this; simp at this
    | some ds =>
      rw [hd] at this
      simp only [Option.map_some, Option.some.injEq] at this
      simp [hexs, d0, Spec.AsciiHex.allDigits, d1, d2, hd, Spec.AsciiHex.pairUp, this, d7]

/-- **The reference ASCIIHex decoder reads what the library writes.** -/
theorem spec_reads_model_asciihex (x : Bytes) (hx : AllBytes x) :
    Spec.AsciiHex.decode (encode x) = some x := by
  have hb := ahex_body x hx [] (by intro c hc; simp at hc)
  simp only [specBody, encode] at hb ⊢
  unfold Spec.AsciiHex.decode
  cases hu : Spec.AsciiHex.upToEOD (run [] x) with
  | none => rw [hu] at hb; simp at hb
  | some body =>
    rw [hu] at hb
    simp only [Option.map_some, Option.some.injEq, List.filter_nil, List.nil_append] at hb
    simp only [hb]
    exact ahex_spec_pairs x hx

theorem ahex_upper : ∀ b, b < 256 →
    hexVal (Spec.AsciiHex.upperDigit (b / 16)) = some (b / 16) ∧
    hexVal (Spec.AsciiHex.upperDigit (b % 16)) = some (b % 16) ∧
    b / 16 * 2 ^ Gen.ahex_reader_Read_shift + b % 16 = b := by decide +kernel

/-- **The library reads what the reference ASCIIHex encoder writes** (upper-case digits, no
    line breaks). -/
theorem model_reads_spec_asciihex (x : Bytes) (hx : AllBytes x) :
    decode (Spec.AsciiHex.encode x) = (x, none) := by
  unfold decode
  induction x with
  | nil =>
    have : hexVal 0x3E = none ∧ isWs 0x3E = false ∧ Gen.ahex_reader_Read_gt = 0x3E := by decide
    simp [Spec.AsciiHex.encode, dec, this]
  | cons b bs ih =>
    have hb256 : b < 256 := by simp at hx; exact hx.1
    have hbs : AllBytes bs := by simp at hx; exact hx.2
    obtain ⟨u1, u2, u3⟩ := ahex_upper b hb256
    simp [Spec.AsciiHex.encode, dec, u1, u2, u3, ih hbs]

example : Spec.AsciiHex.decode (encode (List.range 50)) = some (List.range 50) := by decide +kernel

end AsciiHex

/-! ## RunLength -/
section RunLength
open RunLength C06fa

attribute [local simp] Gen.rl_rlWriter_Write_trigger Gen.rl_rlWriter_Write_startRepeat
  Gen.rl_rlWriter_Write_maxLiteral Gen.rl_rlWriter_Write_maxRepeat Gen.rl_rlWriter_flushLiteral_litBias
  Gen.rl_rlWriter_flushRepeat_repBase Gen.rl_rlWriter_Close_eod Gen.rl_rlReader_Read_eod
  Gen.rl_rlReader_Read_litBound Gen.rl_rlReader_Read_litBias Gen.rl_rlReader_Read_repBase

/-- the reference decoder, given enough fuel for its whole input, reads `e` as `F` and goes on
    with enough fuel for the rest -/
def SpecEmits (e F : Bytes) : Prop :=
  ∀ fuel rest, fuel ≥ (e ++ rest).length + 1 → ∃ fuel', fuel' ≥ rest.length + 1 ∧
    Spec.RunLength.decodeAux fuel (e ++ rest) = (Spec.RunLength.decodeAux fuel' rest).map (F ++ ·)

theorem rl_spec_sem : PacketSem SpecEmits where
  nil := by
    intro fuel rest hf
    exact ⟨fuel, by simpa using hf, by simp⟩
  append := by
    intro e1 F1 e2 F2 h1 h2 fuel rest hf
    obtain ⟨f1, hf1, hd1⟩ := h1 fuel (e2 ++ rest) (by simpa [List.append_assoc] using hf)
    obtain ⟨f2, hf2, hd2⟩ := h2 f1 rest hf1
    refine ⟨f2, hf2, ?_⟩
    rw [List.append_assoc, hd1, hd2]
    simp [Option.map_map, Function.comp_def]
  lit := by
    intro lit h1 h2 fuel rest hf
    obtain ⟨f, rfl⟩ : ∃ f, fuel = f + 1 := ⟨fuel - 1, by omega⟩
    refine ⟨f, by simp [litPacket] at hf; omega, ?_⟩
    have e1 : ¬ (lit.length - 1 = 128) := by omega
    have e2 : lit.length - 1 < 128 := by omega
    have e3 : lit.length - 1 + 1 = lit.length := by omega
    have e4 : ¬ (lit.length + rest.length < lit.length) := by omega
    simp [litPacket, Spec.RunLength.decodeAux, e1, e2, e3, e4]
  rep := by
    intro n v h1 h2 fuel rest hf
    obtain ⟨f, rfl⟩ : ∃ f, fuel = f + 1 := ⟨fuel - 1, by omega⟩
    refine ⟨f, by simp [repPacket] at hf; omega, ?_⟩
    have e1 : ¬ (257 - n = 128) := by omega
    have e2 : ¬ (257 - n < 128) := by omega
    have e3 : 257 - (257 - n) = n := by omega
    simp [repPacket, Spec.RunLength.decodeAux, e1, e2, e3]

theorem rl_spec_run (xs : Bytes) : ∀ w, RlWOK w → ∀ fuel, fuel ≥ (run w xs).length + 1 →
    Spec.RunLength.decodeAux fuel (run w xs) = some (rlPending w ++ xs) := by
  induction xs with
  | nil =>
    intro w hw fuel hf
    obtain ⟨e, he, hE⟩ := rl_close_emits rl_spec_sem w hw
    simp only [run] at hf ⊢
    rw [he] at hf ⊢
    obtain ⟨f', hf', hd⟩ := hE fuel [Gen.rl_rlWriter_Close_eod] hf
    obtain ⟨f, rfl⟩ : ∃ f, f' = f + 1 := ⟨f' - 1, by omega⟩
    rw [hd]
    simp [Spec.RunLength.decodeAux]
  | cons b bs ih =>
    intro w hw fuel hf
    obtain ⟨hok, F, hF, hE⟩ := rl_step_ok rl_spec_sem w b hw
    simp only [run] at hf ⊢
    obtain ⟨f', hf', hd⟩ := hE fuel _ hf
    rw [hd, ih _ hok f' hf']
    simp only [Option.map_some]
    rw [← List.append_assoc, hF]; simp

/-- **The reference RunLength decoder reads what the library writes.** -/
theorem spec_reads_model_runlength (x : Bytes) : Spec.RunLength.decode (encode x) = some x := by
  have := rl_spec_run x W.init (by simp [RlWOK, W.init]) ((run W.init x).length + 1) (Nat.le_refl _)
  simpa [Spec.RunLength.decode, encode, rlPending, W.init] using this

example : Spec.RunLength.decode (encode [1, 2, 2, 3, 3, 3, 3, 4, 4]) = some [1, 2, 2, 3, 3, 3, 3, 4, 4] := by
  decide +kernel


theorem spec_runLen (v : Nat) : ∀ cap bs, Spec.RunLength.runLen v cap bs ≤ cap ∧
    Spec.RunLength.runLen v cap bs ≤ bs.length ∧
    bs = List.replicate (Spec.RunLength.runLen v cap bs) v ++ bs.drop (Spec.RunLength.runLen v cap bs) := by
  intro cap
  induction cap with
  | zero => intro bs; simp [Spec.RunLength.runLen]
  | succ cap ih =>
    intro bs
    cases bs with
    | nil => simp [Spec.RunLength.runLen]
    | cons c cs =>
      by_cases hc : c = v
      · obtain ⟨h1, h2, h3⟩ := ih cs
        subst hc
        simp only [Spec.RunLength.runLen, beq_self_eq_true, if_true]
        refine ⟨by omega, by simp; omega, ?_⟩
        rw [Nat.add_comm 1, List.replicate_succ, List.cons_append, List.drop_succ_cons, ← h3]
      · simp [Spec.RunLength.runLen, hc]

theorem rl_flushLit_emits (lit : Bytes) (h : lit.length ≤ 128) : RlEmits (Spec.RunLength.flushLit lit) lit := by
  unfold Spec.RunLength.flushLit
  cases lit with
  | nil => simp; exact rl_emits_nil
  | cons c cs =>
    have := rl_model_sem.lit (c :: cs) (by simp) h
    simpa [litPacket] using this

theorem rl_model_reads_aux : ∀ fuel lit xs, fuel ≥ xs.length + 1 → lit.length ≤ 127 →
    dec .len (Spec.RunLength.encodeAux fuel lit xs) = (lit ++ xs, none) := by
  intro fuel
  induction fuel with
  | zero => intro lit xs hf; omega
  | succ fuel ih =>
    intro lit xs hf hl
    cases xs with
    | nil =>
      rw [Spec.RunLength.encodeAux, rl_flushLit_emits lit (by omega)]
      simp [dec]
    | cons b bs =>
      rw [Spec.RunLength.encodeAux]
      obtain ⟨r1, r2, r3⟩ := spec_runLen b 127 bs
      generalize Spec.RunLength.runLen b 127 bs = k at *
      by_cases hn : 1 + k ≥ 2
      · rw [if_pos hn]
        have hrep : RlEmits [257 - (1 + k), b] (List.replicate (1 + k) b) := by
          have := rl_model_sem.rep (1 + k) b hn (by omega)
          simpa [repPacket] using this
        rw [rl_emits_append (rl_flushLit_emits lit (by omega)) hrep]
        rw [show 1 + k - 1 = k by omega, ih [] (bs.drop k) (by simp at hf ⊢; omega) (by simp)]
        simp only [DecRes.pre_mk, List.nil_append]
        rw [Nat.add_comm 1 k, List.replicate_succ]
        congr 1
        rw [List.append_assoc, List.cons_append, ← r3]
      · rw [if_neg hn]
        by_cases h128 : (lit.length + 1 == 128) = true
        · rw [if_pos h128]
          have h128' : lit.length + 1 = 128 := by simpa using h128
          rw [rl_flushLit_emits (lit ++ [b]) (by simp; omega), ih [] bs (by simp at hf; omega) (by simp)]
          simp
        · rw [if_neg h128]
          have h128' : ¬ lit.length + 1 = 128 := by simpa using h128
          rw [ih (lit ++ [b]) bs (by simp at hf; omega) (by simp; omega)]
          simp

/-- **The library reads what the reference RunLength encoder writes** (repeat packets for every
    run of two or more bytes, literal packets otherwise — not the library's own strategy). -/
theorem model_reads_spec_runlength (x : Bytes) : decode (Spec.RunLength.encode x) = (x, none) := by
  have := rl_model_reads_aux (x.length + 1) [] x (Nat.le_refl _) (by simp)
  simpa [decode, Spec.RunLength.encode] using this

example : decode (Spec.RunLength.encode [1, 2, 2, 3, 3, 3, 3, 4, 4]) = ([1, 2, 2, 3, 3, 3, 3, 4, 4], none) := by
  decide +kernel

end RunLength


/-! ## ASCII85 -/
section Ascii85
open Ascii85 C06fa

theorem a85_charsOf_eq (v : Nat) : Spec.Ascii85.charsOf v = digits5 v := by
  simp only [Spec.Ascii85.charsOf, digits5, base, bang, Gen.a85_ascii85Writer_Write_base,
    Gen.a85_ascii85Writer_Write_bang, Nat.div_div_eq_div_mul, Nat.reduceMul]

theorem a85_bytesOf_eq (v : Nat) : Spec.Ascii85.bytesOf v = bytes4 v := by
  simp only [Spec.Ascii85.bytesOf, bytes4, Nat.reducePow]

theorem a85_word_lt (b1 b2 b3 b4 : Nat) (h1 : b1 < 256) (h2 : b2 < 256) (h3 : b3 < 256) (h4 : b4 < 256) :
    Spec.Ascii85.word b1 b2 b3 b4 < 2 ^ 32 ∧ bytes4 (Spec.Ascii85.word b1 b2 b3 b4) = [b1, b2, b3, b4] := by
  simp only [Spec.Ascii85.word, bytes4, Nat.reducePow]
  refine ⟨by omega, ?_⟩
  congr 1
  · omega
  · congr 1
    · omega
    · congr 1
      · omega
      · congr 1; omega

/-- **The library reads what the reference ASCII85 encoder writes** (no line breaks). -/
theorem model_reads_spec_ascii85 (x : Bytes) (hx : AllBytes x) :
    decode (Spec.Ascii85.encode x) = (x, none) := by
  unfold decode
  induction x using Spec.Ascii85.encode.induct with
  | case1 b1 b2 b3 b4 rest ih =>
    simp only [allBytes_cons] at hx
    obtain ⟨h1, h2, h3, h4, hr⟩ := hx
    obtain ⟨hw, hb⟩ := a85_word_lt b1 b2 b3 b4 h1 h2 h3 h4
    rw [Spec.Ascii85.encode]
    have hg := a85_group_ok (Spec.Ascii85.word b1 b2 b3 b4) hw
    rw [a85_charsOf_eq]
    have hz : Gen.a85_ascii85Writer_Write_z = 122 := rfl
    rw [hz] at hg
    rw [hg, ih hr, hb]
    simp
  | case2 b1 b2 b3 =>
    simp only [allBytes_cons] at hx
    obtain ⟨h1, h2, h3, _⟩ := hx
    rw [Spec.Ascii85.encode, a85_charsOf_eq]
    have := a85_dec_tail3 (b1 * 65536 + b2 * 256 + b3) (by omega)
    rw [show Spec.Ascii85.word b1 b2 b3 0 = (b1 * 65536 + b2 * 256 + b3) * 256 by simp only [Spec.Ascii85.word]; omega,
      this]
    congr 1
    congr 1
    · omega
    · congr 1
      · omega
      · congr 1; omega
  | case3 b1 b2 =>
    simp only [allBytes_cons] at hx
    obtain ⟨h1, h2, _⟩ := hx
    rw [Spec.Ascii85.encode, a85_charsOf_eq]
    have := a85_dec_tail2 (b1 * 256 + b2) (by omega)
    rw [show Spec.Ascii85.word b1 b2 0 0 = (b1 * 256 + b2) * 65536 by simp only [Spec.Ascii85.word]; omega, this]
    congr 1
    congr 1
    · omega
    · congr 1; omega
  | case4 b1 =>
    simp only [allBytes_cons] at hx
    obtain ⟨h1, _⟩ := hx
    rw [Spec.Ascii85.encode, a85_charsOf_eq]
    have := a85_dec_tail1 b1 h1
    rw [show Spec.Ascii85.word b1 0 0 0 = b1 * 16777216 by simp only [Spec.Ascii85.word]; omega, this]
  | case5 =>
    have t0 := a85_dec_tilde0 []
    simp only [Gen.a85_ascii85Writer_Close_tilde, Gen.a85_ascii85Writer_Close_gt] at t0
    rw [Spec.Ascii85.encode, t0]

example : decode (Spec.Ascii85.encode [0, 0, 0, 0, 1, 2, 3, 4, 255, 255, 255, 255, 9, 8]) =
    ([0, 0, 0, 0, 1, 2, 3, 4, 255, 255, 255, 255, 9, 8], none) := by decide +kernel


/-! ### the reference decoder on the library's output -/

theorem a85_value5 (v : Nat) (hv : v < 2 ^ 32) :
    Spec.Ascii85.value [v / 85 / 85 / 85 / 85 % 85, v / 85 / 85 / 85 % 85, v / 85 / 85 % 85, v / 85 % 85, v % 85] = v := by
  have h4 : v / 85 / 85 / 85 / 85 % 85 = v / 85 / 85 / 85 / 85 := Nat.mod_eq_of_lt (by omega)
  simp only [Spec.Ascii85.value, List.foldl]
  rw [h4, Nat.zero_mul, Nat.zero_add, Nat.div_add_mod' (v / 85 / 85 / 85) 85, Nat.div_add_mod' (v / 85 / 85) 85,
    Nat.div_add_mod' (v / 85) 85, Nat.div_add_mod' v 85]

theorem a85_isDigit (d : Nat) (hd : d < 85) : Spec.Ascii85.isDigit (d + 33) = true ∧ d + 33 - 33 = d := by
  simp [Spec.Ascii85.isDigit]; omega

/-- a full group written by the library is read by the reference decoder -/
theorem a85_spec_group (v : Nat) (hv : v < 2 ^ 32) (rest : Bytes) :
    Spec.Ascii85.groups [] (digits5 v ++ rest) = (Spec.Ascii85.groups [] rest).map (bytes4 v ++ ·) := by
  simp only [digits5, base, bang, Gen.a85_ascii85Writer_Write_base, Gen.a85_ascii85Writer_Write_bang,
    List.cons_append, List.nil_append]
  obtain ⟨i0, j0⟩ := a85_isDigit (v / 85 / 85 / 85 / 85 % 85) (Nat.mod_lt _ (by decide))
  obtain ⟨i1, j1⟩ := a85_isDigit (v / 85 / 85 / 85 % 85) (Nat.mod_lt _ (by decide))
  obtain ⟨i2, j2⟩ := a85_isDigit (v / 85 / 85 % 85) (Nat.mod_lt _ (by decide))
  obtain ⟨i3, j3⟩ := a85_isDigit (v / 85 % 85) (Nat.mod_lt _ (by decide))
  obtain ⟨i4, j4⟩ := a85_isDigit (v % 85) (Nat.mod_lt _ (by decide))
  have hval := a85_value5 v hv
  have hv' : v < 4294967296 := hv
  simp only [Spec.Ascii85.groups, i0, i1, i2, i3, i4, j0, j1, j2, j3, j4, if_true, List.nil_append, List.cons_append,
    List.length_cons, List.length_nil, Nat.reduceAdd, Nat.reduceBEq, Bool.false_eq_true, if_false, hval, hv',
    beq_self_eq_true, a85_bytesOf_eq]

theorem a85_spec_z (rest : Bytes) :
    Spec.Ascii85.groups [] (122 :: rest) = (Spec.Ascii85.groups [] rest).map ([0, 0, 0, 0] ++ ·) := by
  simp [Spec.Ascii85.groups, Spec.Ascii85.isDigit]


theorem a85_padn3 (v q : Nat) (hv : v < 256) (h1 : q * 614125 ≤ v * 16777216) (h2 : v * 16777216 < q * 614125 + 614125) :
    ((q * 85 + 84) * 85 + 84) * 85 + 84 < 4294967296 ∧
    (((q * 85 + 84) * 85 + 84) * 85 + 84) / 16777216 % 256 = v := by
  have hd : (((q * 85 + 84) * 85 + 84) * 85 + 84) / 16777216 = v := by omega
  rw [hd]; omega

theorem a85_padn2 (v q : Nat) (hv : v < 65536) (h1 : q * 7225 ≤ v * 65536) (h2 : v * 65536 < q * 7225 + 7225) :
    (q * 85 + 84) * 85 + 84 < 4294967296 ∧
    ((q * 85 + 84) * 85 + 84) / 16777216 % 256 = v / 256 ∧ ((q * 85 + 84) * 85 + 84) / 65536 % 256 = v % 256 := by
  have hd : ((q * 85 + 84) * 85 + 84) / 65536 = v := by omega
  have hd' : ((q * 85 + 84) * 85 + 84) / 16777216 = v / 256 := by
    rw [show (16777216:Nat) = 65536 * 256 from rfl, ← Nat.div_div_eq_div_mul, hd]
  rw [hd, hd']; omega

theorem a85_padn1 (v q : Nat) (hv : v < 16777216) (h1 : q * 85 ≤ v * 256) (h2 : v * 256 < q * 85 + 85) :
    q * 85 + 84 < 4294967296 ∧
    (q * 85 + 84) / 16777216 % 256 = v / 65536 ∧ (q * 85 + 84) / 65536 % 256 = v / 256 % 256 ∧
    (q * 85 + 84) / 256 % 256 = v % 256 := by
  have hd : (q * 85 + 84) / 256 = v := by omega
  have hd' : (q * 85 + 84) / 65536 = v / 256 := by
    rw [show (65536:Nat) = 256 * 256 from rfl, ← Nat.div_div_eq_div_mul, hd]
  have hd'' : (q * 85 + 84) / 16777216 = v / 65536 := by
    rw [show (16777216:Nat) = 256 * 65536 from rfl, ← Nat.div_div_eq_div_mul, hd]
  rw [hd, hd', hd'']; omega

/-- one digit that does not complete a group, for the reference decoder -/
theorem a85_spec_digit (cur : List Nat) (d : Nat) (cs : Bytes) (hd : d < 85) (hl : cur.length + 1 ≠ 5) :
    Spec.Ascii85.groups cur ((d + 33) :: cs) = Spec.Ascii85.groups (cur ++ [d]) cs := by
  obtain ⟨i0, j0⟩ := a85_isDigit d hd
  have hl' : ¬ (cur.length = 4) := by omega
  simp [Spec.Ascii85.groups, i0, hl']

/-- end of data with `n+1 ≥ 2` digits in the current group -/
theorem a85_spec_end (cur : List Nat) (n : Nat) (hn : cur.length = n + 2) :
    Spec.Ascii85.groups cur [] =
      (if Spec.Ascii85.value (cur ++ List.replicate (4 - (n + 1)) 84) < 4294967296 then
        some ((Spec.Ascii85.bytesOf (Spec.Ascii85.value (cur ++ List.replicate (4 - (n + 1)) 84))).take (n + 1))
       else none) := by
  simp [Spec.Ascii85.groups, hn]

/-- the partial final group written by `Close`, read by the reference decoder -/
theorem a85_spec_tail1 (v : Nat) (hv : v < 256) :
    Spec.Ascii85.groups [] ((digits5 (v * 16777216)).take 2) = some [v] := by
  generalize hV : v * 16777216 = V
  have hVlt : V < 2 ^ 32 := by omega
  simp only [digits5, base, bang, Gen.a85_ascii85Writer_Write_base, Gen.a85_ascii85Writer_Write_bang, List.take]
  have h4 : V / 85 / 85 / 85 / 85 % 85 = V / 85 / 85 / 85 / 85 := Nat.mod_eq_of_lt (by omega)
  rw [h4, a85_spec_digit _ _ _ (by omega) (by simp), a85_spec_digit _ _ _ (Nat.mod_lt _ (by decide)) (by simp),
    a85_spec_end _ 0 rfl]
  obtain ⟨p1, p2⟩ := a85_padn3 v (V / 85 / 85 / 85) hv (by omega) (by omega)
  have hval : Spec.Ascii85.value ([] ++ [V / 85 / 85 / 85 / 85] ++ [V / 85 / 85 / 85 % 85] ++ List.replicate (4 - (0 + 1)) 84)
      = ((V / 85 / 85 / 85 * 85 + 84) * 85 + 84) * 85 + 84 := by
    simp only [Spec.Ascii85.value, List.nil_append, List.cons_append, List.replicate, List.foldl, Nat.zero_mul,
      Nat.zero_add, Nat.reduceSub, Nat.reduceAdd, Nat.div_add_mod' (V / 85 / 85 / 85) 85]
  rw [hval, if_pos p1]
  simp only [Spec.Ascii85.bytesOf, List.take, Nat.zero_add]
  rw [p2]

theorem a85_spec_tail2 (v : Nat) (hv : v < 65536) :
    Spec.Ascii85.groups [] ((digits5 (v * 65536)).take 3) = some [v / 256, v % 256] := by
  generalize hV : v * 65536 = V
  have hVlt : V < 2 ^ 32 := by omega
  simp only [digits5, base, bang, Gen.a85_ascii85Writer_Write_base, Gen.a85_ascii85Writer_Write_bang, List.take]
  have h4 : V / 85 / 85 / 85 / 85 % 85 = V / 85 / 85 / 85 / 85 := Nat.mod_eq_of_lt (by omega)
  rw [h4, a85_spec_digit _ _ _ (by omega) (by simp), a85_spec_digit _ _ _ (Nat.mod_lt _ (by decide)) (by simp),
    a85_spec_digit _ _ _ (Nat.mod_lt _ (by decide)) (by simp), a85_spec_end _ 1 rfl]
  obtain ⟨p1, p2, p3⟩ := a85_padn2 v (V / 85 / 85) hv (by omega) (by omega)
  have hval : Spec.Ascii85.value ([] ++ [V / 85 / 85 / 85 / 85] ++ [V / 85 / 85 / 85 % 85] ++ [V / 85 / 85 % 85] ++
      List.replicate (4 - (1 + 1)) 84) = (V / 85 / 85 * 85 + 84) * 85 + 84 := by
    simp only [Spec.Ascii85.value, List.nil_append, List.cons_append, List.replicate, List.foldl, Nat.zero_mul,
      Nat.zero_add, Nat.reduceSub, Nat.reduceAdd, Nat.div_add_mod' (V / 85 / 85 / 85) 85, Nat.div_add_mod' (V / 85 / 85) 85]
  rw [hval, if_pos p1]
  simp only [Spec.Ascii85.bytesOf, List.take, Nat.reduceAdd]
  rw [p2, p3]

theorem a85_spec_tail3 (v : Nat) (hv : v < 16777216) :
    Spec.Ascii85.groups [] ((digits5 (v * 256)).take 4) = some [v / 65536, v / 256 % 256, v % 256] := by
  generalize hV : v * 256 = V
  have hVlt : V < 2 ^ 32 := by omega
  simp only [digits5, base, bang, Gen.a85_ascii85Writer_Write_base, Gen.a85_ascii85Writer_Write_bang, List.take]
  have h4 : V / 85 / 85 / 85 / 85 % 85 = V / 85 / 85 / 85 / 85 := Nat.mod_eq_of_lt (by omega)
  rw [h4, a85_spec_digit _ _ _ (by omega) (by simp), a85_spec_digit _ _ _ (Nat.mod_lt _ (by decide)) (by simp),
    a85_spec_digit _ _ _ (Nat.mod_lt _ (by decide)) (by simp),
    a85_spec_digit _ _ _ (Nat.mod_lt _ (by decide)) (by simp), a85_spec_end _ 2 rfl]
  obtain ⟨p1, p2, p3, p4⟩ := a85_padn1 v (V / 85) hv (by omega) (by omega)
  have hval : Spec.Ascii85.value ([] ++ [V / 85 / 85 / 85 / 85] ++ [V / 85 / 85 / 85 % 85] ++ [V / 85 / 85 % 85] ++
      [V / 85 % 85] ++ List.replicate (4 - (2 + 1)) 84) = V / 85 * 85 + 84 := by
    simp only [Spec.Ascii85.value, List.nil_append, List.cons_append, List.replicate, List.foldl, Nat.zero_mul,
      Nat.zero_add, Nat.reduceSub, Nat.reduceAdd, Nat.div_add_mod' (V / 85 / 85 / 85) 85, Nat.div_add_mod' (V / 85 / 85) 85,
      Nat.div_add_mod' (V / 85) 85]
  rw [hval, if_pos p1]
  simp only [Spec.Ascii85.bytesOf, List.take, Nat.reduceAdd]
  rw [p2, p3, p4]


/-- the characters of the groups the writer still produces from state `(v, k)` and input `xs`,
    without line breaks and without the EOD marker -/
def chars : Nat → Nat → Bytes → Bytes
  | v, k, [] => if k != 0 then (digits5 (v * 2 ^ ((4 - k) * 8))).take (k + 1) else []
  | v, k, b :: bs =>
    if k + 1 == 4 then (if v * 256 + b == 0 then [122] else digits5 (v * 256 + b)) ++ chars 0 0 bs
    else chars (v * 256 + b) (k + 1) bs

/-- group characters: `!`…`u` or `z` -/
def Good (l : Bytes) : Prop := ∀ c ∈ l, 33 ≤ c ∧ c ≤ 122

theorem good_digits5 (v : Nat) : Good (digits5 v) := by
  intro c hc
  simp only [digits5, base, bang, Gen.a85_ascii85Writer_Write_base, Gen.a85_ascii85Writer_Write_bang,
    List.mem_cons, List.not_mem_nil, or_false] at hc
  rcases hc with rfl | rfl | rfl | rfl | rfl <;> omega

theorem good_append {a b : Bytes} (ha : Good a) (hb : Good b) : Good (a ++ b) := by
  intro c hc; rcases List.mem_append.mp hc with h | h
  · exact ha c h
  · exact hb c h

theorem good_take {a : Bytes} (n : Nat) (ha : Good a) : Good (a.take n) :=
  fun c hc => ha c (List.mem_of_mem_take hc)

theorem good_grp (v : Nat) : Good (if (v == 0) = true then [122] else digits5 v) := by
  split
  · intro c hc; simp at hc; omega
  · exact good_digits5 v

theorem good_filter {l : Bytes} (h : Good l) : l.filter (fun c => !Spec.Ascii85.isWhite c) = l := by
  apply List.filter_eq_self.mpr
  intro c hc
  obtain ⟨h1, h2⟩ := h c hc
  have : Spec.Ascii85.isWhite c = false := by
    simp only [Spec.Ascii85.isWhite, Bool.or_eq_false_iff, beq_eq_false_iff_ne, ne_eq]
    omega
  simp [this]

theorem good_upToEOD {l : Bytes} (h : Good l) : Spec.Ascii85.upToEOD (l ++ [126, 62]) = some l := by
  induction l with
  | nil => simp [Spec.Ascii85.upToEOD]
  | cons c cs ih =>
    have hc := h c (by simp)
    have hne : (c == 126) = false := by simp; omega
    simp only [List.cons_append, Spec.Ascii85.upToEOD, hne]
    rw [ih (fun d hd => h d (by simp [hd]))]
    simp

theorem good_chars : ∀ xs v k, Good (chars v k xs) := by
  intro xs
  induction xs with
  | nil =>
    intro v k
    simp only [chars]
    split
    · exact good_take _ (good_digits5 _)
    · intro c hc; simp at hc
  | cons b bs ih =>
    intro v k
    simp only [chars]
    split
    · exact good_append (good_grp _) (ih 0 0)
    · exact ih _ _

theorem a85_step_part (w : W) (b : Nat) (h : ¬ w.k + 1 = 4) :
    step w b = (⟨w.v * 256 + b, w.k + 1, w.buf⟩, []) := by
  have h' : ¬ w.k = 3 := by omega
  simp [step, h', Gen.a85_ascii85Writer_Write_groupBytes, Gen.a85_ascii85Writer_Write_byteBits]

theorem a85_step_full (w : W) (b : Nat) (h : w.k + 1 = 4) :
    step w b = (if cap < w.buf.length + 8 then
        (⟨0, 0, if (w.v * 256 + b == 0) = true then [122] else digits5 (w.v * 256 + b)⟩, w.buf ++ [10])
      else (⟨0, 0, w.buf ++ if (w.v * 256 + b == 0) = true then [122] else digits5 (w.v * 256 + b)⟩, [])) := by
  have h' : w.k = 3 := by omega
  simp [step, h', Gen.a85_ascii85Writer_Write_groupBytes, Gen.a85_ascii85Writer_Write_byteBits,
    Gen.a85_ascii85Writer_Write_reserve, Gen.a85_ascii85Writer_Write_z, Gen.a85_ascii85Writer_Write_nl]

/-- the library's output with the white space removed: the line buffer, the group characters, EOD -/
theorem a85_filter_run (xs : Bytes) : ∀ w, Good w.buf →
    (run w xs).filter (fun c => !Spec.Ascii85.isWhite c) = w.buf ++ chars w.v w.k xs ++ [126, 62] := by
  have hnl : Spec.Ascii85.isWhite Gen.a85_ascii85Writer_Write_nl = true := by decide
  have hte : [Gen.a85_ascii85Writer_Close_tilde, Gen.a85_ascii85Writer_Close_gt] = [126, 62] := rfl
  induction xs with
  | nil =>
    intro w hw
    simp only [run, close, chars, hte, Gen.a85_ascii85Writer_Write_groupBytes, Gen.a85_ascii85Writer_Write_byteBits]
    have hg : Good (w.buf ++ (if (w.k != 0) = true then (digits5 (w.v * 2 ^ ((4 - w.k) * 8))).take (w.k + 1) else [])) := by
      apply good_append hw
      split
      · exact good_take _ (good_digits5 _)
      · intro c hc; simp at hc
    rw [List.filter_append, good_filter hg]
    simp [Spec.Ascii85.isWhite]
  | cons b bs ih =>
    intro w hw
    have hnl10 : Spec.Ascii85.isWhite 10 = true := by decide
    by_cases hk : w.k + 1 = 4
    · have hk' : (w.k + 1 == 4) = true := beq_iff_eq.mpr hk
      simp only [run, chars, a85_step_full w b hk, hk', if_true]
      split
      · simp only []
        rw [List.filter_append, List.filter_append, good_filter hw, ih _ (good_grp _)]
        simp [hnl10]
      · simp only []
        rw [List.nil_append, ih _ (good_append hw (good_grp _))]
        simp
    · have hk' : (w.k + 1 == 4) = false := beq_false_of_ne hk
      simp only [run, chars, a85_step_part w b hk, hk', Bool.false_eq_true, if_false]
      rw [List.nil_append, ih ⟨w.v * 256 + b, w.k + 1, w.buf⟩ hw]

/-- the reference decoder on the group characters -/
theorem a85_spec_chars (xs : Bytes) (hx : AllBytes xs) : ∀ v k, A85WOK ⟨v, k, []⟩ →
    Spec.Ascii85.groups [] (chars v k xs) = some (a85AccBytes k v ++ xs) := by
  induction xs with
  | nil =>
    intro v k hw
    simp only [chars, List.append_nil]
    rcases hw with ⟨hk, hv⟩ | ⟨hk, hv⟩ | ⟨hk, hv⟩ | ⟨hk, hv⟩ <;> simp only at hk hv <;> subst hk
    · simp [a85AccBytes, Spec.Ascii85.groups]
    · simpa [a85AccBytes] using a85_spec_tail1 v hv
    · simpa [a85AccBytes] using a85_spec_tail2 v hv
    · simpa [a85AccBytes] using a85_spec_tail3 v hv
  | cons b bs ih =>
    intro v k hw
    have hb256 : b < 256 := by simp at hx; exact hx.1
    have hbs : AllBytes bs := by simp at hx; exact hx.2
    simp only [chars]
    rcases hw with ⟨hk, hv⟩ | ⟨hk, hv⟩ | ⟨hk, hv⟩ | ⟨hk, hv⟩ <;> simp only at hk hv <;> subst hk
    · subst hv
      have := ih hbs (0 * 256 + b) 1 (Or.inr (Or.inl ⟨rfl, by simp; omega⟩))
      simpa [a85AccBytes] using this
    · have := ih hbs (v * 256 + b) 2 (Or.inr (Or.inr (Or.inl ⟨rfl, by simp; omega⟩)))
      have e1 : (v * 256 + b) / 256 = v := by omega
      have e2 : (v * 256 + b) % 256 = b := by omega
      simpa [a85AccBytes, e1, e2] using this
    · have := ih hbs (v * 256 + b) 3 (Or.inr (Or.inr (Or.inr ⟨rfl, by simp; omega⟩)))
      have e1 : (v * 256 + b) / 65536 = v / 256 := by omega
      have e2 : (v * 256 + b) / 256 % 256 = v % 256 := by omega
      have e3 : (v * 256 + b) % 256 = b := by omega
      simpa [a85AccBytes, e1, e2, e3] using this
    · have hv' : v * 256 + b < 2 ^ 32 := by omega
      have e4 : bytes4 (v * 256 + b) = a85AccBytes 3 v ++ [b] := by
        simp only [bytes4, a85AccBytes, Nat.reducePow, List.cons_append, List.nil_append]
        have e0 : (v * 256 + b) / 16777216 % 256 = v / 65536 := by omega
        have e1 : (v * 256 + b) / 65536 % 256 = v / 256 % 256 := by omega
        have e2 : (v * 256 + b) / 256 % 256 = v % 256 := by omega
        have e3 : (v * 256 + b) % 256 = b := by omega
        rw [e0, e1, e2, e3]
      have hrec := ih hbs 0 0 (Or.inl ⟨rfl, rfl⟩)
      simp only [Nat.reduceAdd, beq_self_eq_true, if_true]
      split
      · rename_i h0
        have hz : v * 256 + b = 0 := by simpa using h0
        rw [List.cons_append, List.nil_append, a85_spec_z, hrec]
        have : bytes4 (v * 256 + b) = [0, 0, 0, 0] := by rw [hz]; rfl
        rw [e4] at this
        simp [a85AccBytes, ← this]
      · rw [a85_spec_group _ hv', hrec, e4]
        simp [a85AccBytes]

/-- **The reference ASCII85 decoder reads what the library writes** (`z` groups, line breaks,
    partial final group, `~>`). -/
theorem spec_reads_model_ascii85 (x : Bytes) (hx : AllBytes x) :
    Spec.Ascii85.decode (encode x) = some x := by
  unfold Spec.Ascii85.decode encode
  rw [a85_filter_run x W.init (by intro c hc; simp [W.init] at hc)]
  simp only [W.init, List.nil_append]
  rw [good_upToEOD (good_chars x 0 0)]
  have := a85_spec_chars x hx 0 0 (Or.inl ⟨rfl, rfl⟩)
  simpa [a85AccBytes] using this

example : Spec.Ascii85.decode (encode (List.replicate 4 0 ++ List.range 70)) =
    some (List.replicate 4 0 ++ List.range 70) := by decide +kernel

end Ascii85

end PdfVerif.C07fa

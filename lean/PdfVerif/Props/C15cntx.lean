import PdfVerif.Props.C15cntp
/-!
# C15 — the operator table's names are admissible; concrete instances of `ops_rt`/`split_rt`
-/
namespace PdfVerif.C15cntx
open PdfVerif PdfVerif.CNT PdfVerif.C15cnt PdfVerif.C15cnto PdfVerif.C15cntd PdfVerif.C15cnti PdfVerif.C15cntn PdfVerif.C15cntm PdfVerif.C15cntp

/-- decidable form of `OpNameOk` -/
def opNameOkB (name : Bytes) : Bool :=
  !name.isEmpty && name.all cReg && decide (name.length ≤ Gen.content_maxNameBytes) &&
    (match classify name with
     | .op n => n == name
     | _ => false) &&
    name != Gen.content_opBeginInlineImage

theorem opNameOkB_sound (name : Bytes) (h : opNameOkB name = true) : OpNameOk name := by
  simp only [opNameOkB, Bool.and_eq_true, Bool.not_eq_true', decide_eq_true_eq, bne_iff_ne, ne_eq] at h
  obtain ⟨⟨⟨⟨h1, h2⟩, h3⟩, h4⟩, h5⟩ := h
  refine ⟨by intro e; subst e; simp at h1, ?_, h3, ?_, h5⟩
  · intro b hb
    exact List.all_eq_true.mp h2 b hb
  · split at h4
    · rename_i n heq
      simp at h4
      rw [heq, h4]
    · simp at h4

/-- **Every operator of the operator table** (except the pseudo-operators and `BI`, which starts
an inline image) **is an admissible operator name** — `ops_rt` covers the whole table. -/
theorem table_names_ok : ∀ e ∈ Gen.content_operators,
    (e.1 != Gen.content_OpRawContent && e.1 != Gen.content_OpInlineImage && e.1 != Gen.content_opBeginInlineImage) = true →
    opNameOkB e.1 = true := by decide +kernel

/-- unknown operator names, including number-like and keyword-like ones, are admissible -/
theorem odd_names_ok : ∀ n ∈ ([[102, 111, 111], [43], [45, 45], [49, 46, 50, 46, 51], [49, 97], [110, 117, 108],
    [116, 114, 117, 101, 120], [66, 73, 120], [69, 73], [73, 68], [128, 255], [35], [92]] : List Bytes),
    opNameOkB n = true := by decide +kernel

/-- decidable form of "the written token of a real is a number token" -/
def realTokB (w : Bytes) : Bool :=
  !w.isEmpty && w.all cReg && decide (w.length ≤ Gen.content_maxNameBytes) &&
    (match classify w with
     | .real t => t == w
     | _ => false)

theorem realTokB_sound (w : Bytes) (h : realTokB w = true) : RegTok w (.real w) := by
  simp only [realTokB, Bool.and_eq_true, Bool.not_eq_true', decide_eq_true_eq] at h
  obtain ⟨⟨⟨h1, h2⟩, h3⟩, h4⟩ := h
  refine ⟨by intro e; subst e; simp at h1, ?_, h3, ?_⟩
  · intro b hb
    exact List.all_eq_true.mp h2 b hb
  · split at h4
    · rename_i t heq
      simp at h4
      rw [heq, h4]
    · simp at h4

theorem flatOk_real (t : Bytes) (h : realTokB (realToken t) = true) : FlatOk (.real t) :=
  realTokB_sound _ h

/-- real tokens as `strconv.FormatFloat(x, 'f', -1, 64)` writes them are number tokens:
`-0.5`, `12` (written `12.`), `0.000001`, 1e21 written out -/
example : FlatOk (.real [45, 48, 46, 53]) := flatOk_real _ (by decide +kernel)
example : FlatOk (.real [49, 50]) := flatOk_real _ (by decide +kernel)
example : FlatOk (.real [48, 46, 48, 48, 48, 48, 48, 49]) := flatOk_real _ (by decide +kernel)
example : FlatOk (.real ([49] ++ List.replicate 21 48)) := flatOk_real _ (by decide +kernel)

theorem goodO_flat (a : Obj) (h : FlatOk a) : GoodO a := by
  cases a <;> first | (simpa [GoodO] using h) | exact absurd h (by simp [FlatOk])

theorem depthO_flat (a : Obj) (h : FlatOk a) : depthO a = 0 := by
  cases a <;> first | rfl | exact absurd h (by simp [FlatOk])

/-- flat operands are operands of `ops_rt_deep` -/
theorem argD_flat (a : Obj) (h : FlatOk a) : ArgD a := by
  rw [ArgD, canon_flat a h]
  exact ⟨goodO_flat a h, by rw [depthO_flat a h]; exact Nat.zero_le _⟩

theorem valD_flat (a : Obj) (h : FlatOk a) : ValD a := by
  refine .inr ?_
  rw [canon_flat a h]
  exact ⟨goodO_flat a h, by rw [depthO_flat a h]; exact Nat.zero_le _⟩

/-- a concrete sequence meeting the hypotheses of `ops_rt_deep`:
`1 2.5 -3 4 re`, `(a)\(( Tj` (string with unbalanced parentheses, a backslash, CR LF),
`/F#201 12 Tf` (name with a space), a comment, `null true foo`, and an inline image whose
dictionary has a key with a space and a `#` (`A #B`), a nil entry, an empty array and a nested
array as values, and whose data contains `EI` look-alikes -/
def sampleOps : List (Bytes × List Obj) :=
  [([114, 101], [.int 1, .real [50, 46, 53], .int (-3), .int 4]),
   ([84, 106], [.str [97, 41, 92, 40, 40, 13, 10]]),
   ([84, 102], [.name [70, 32, 49], .int 12]),
   (Gen.content_OpRawContent, [.str [37, 32, 99, 40]]),
   ([102, 111, 111], [.null, .bool true]),
   (Gen.content_OpInlineImage,
     [.dict [([65, 32, 35, 66], .int 7), ([68], .arr []), ([72], .int 3), ([78], .null),
             ([87], .int 2), ([88], .arr [.arr [.int 0, .name [97]], .str [40]])],
      .str [97, 10, 69, 73, 120, 32, 69, 73, 10]])]

theorem sampleOps_ok : ∀ op ∈ sampleOps, OpOkD op := by
  intro op hop
  simp only [sampleOps, List.mem_cons, List.mem_nil_iff, or_false] at hop
  have i64 : ∀ i : Int, -9223372036854775808 ≤ i → i ≤ 9223372036854775807 → FlatOk (.int i) := flatOk_int
  rcases hop with rfl | rfl | rfl | rfl | rfl | rfl
  · refine .inl ⟨opNameOkB_sound _ (by decide +kernel), ?_, by decide +kernel⟩
    intro a ha
    simp at ha
    rcases ha with rfl | rfl | rfl | rfl
    · exact argD_flat _ (i64 1 (by decide) (by decide))
    · exact argD_flat _ (flatOk_real _ (by decide +kernel))
    · exact argD_flat _ (i64 (-3) (by decide) (by decide))
    · exact argD_flat _ (i64 4 (by decide) (by decide))
  · refine .inl ⟨opNameOkB_sound _ (by decide +kernel), ?_, by decide +kernel⟩
    intro a ha
    simp at ha
    subst ha
    refine argD_flat _ ?_
    show (7 : Nat) < Gen.content_maxStringBytes
    decide +kernel
  · refine .inl ⟨opNameOkB_sound _ (by decide +kernel), ?_, by decide +kernel⟩
    intro a ha
    simp at ha
    rcases ha with rfl | rfl
    · exact argD_flat _ ⟨by decide, by decide +kernel⟩
    · exact argD_flat _ (i64 12 (by decide) (by decide))
  · exact .inr (.inl ⟨rfl, _, rfl, ⟨by decide, by decide, by decide +kernel⟩⟩)
  · refine .inl ⟨opNameOkB_sound _ (by decide +kernel), ?_, by decide +kernel⟩
    intro a ha
    simp at ha
    rcases ha with rfl | rfl <;> exact argD_flat _ trivial
  · refine .inr (.inr ⟨rfl, _, _, rfl, ?_⟩)
    have g0 : GoodO (.int 0) := goodO_flat _ (i64 0 (by decide) (by decide))
    have gn : GoodO (.name [97]) := goodO_flat _ ⟨by decide, by decide +kernel⟩
    have gs : GoodO (.str [40]) := goodO_flat _ (by
      show (1 : Nat) < Gen.content_maxStringBytes
      decide +kernel)
    have ge : GoodO (.arr []) := by
      unfold GoodO; exact ⟨by simp only [GoodL], by decide +kernel⟩
    have gi : GoodO (.arr [.int 0, .name [97]]) := by
      unfold GoodO; exact ⟨by simp only [GoodL]; exact ⟨g0, gn, trivial⟩, by decide +kernel⟩
    have gx : GoodO (.arr [.arr [.int 0, .name [97]], .str [40]]) := by
      unfold GoodO; exact ⟨by simp only [GoodL]; exact ⟨gi, gs, trivial⟩, by decide +kernel⟩
    exact {
      entries := by
        intro e he
        simp at he
        rcases he with rfl | rfl | rfl | rfl | rfl | rfl
        · exact ⟨by decide, by decide +kernel, valD_flat _ (i64 7 (by decide) (by decide))⟩
        · exact ⟨by decide, by decide +kernel, .inr ⟨by simpa [Obj.canon, canonList] using ge, by decide +kernel⟩⟩
        · exact ⟨by decide, by decide +kernel, valD_flat _ (i64 3 (by decide) (by decide))⟩
        · exact ⟨by decide, by decide +kernel, .inl rfl⟩
        · exact ⟨by decide, by decide +kernel, valD_flat _ (i64 2 (by decide) (by decide))⟩
        · exact ⟨by decide, by decide +kernel, .inr ⟨by simpa [Obj.canon, canonList] using gx, by decide +kernel⟩⟩
      count := by decide +kernel
      width := by decide +kernel
      height := by decide +kernel
      pixels := by decide +kernel
      dataLen := by decide +kernel
      framing := .inl ⟨by decide +kernel, by decide +kernel, by decide +kernel⟩ }

/-- the instance of `ops_rt_deep`: the written bytes of `sampleOps` scan back as `sampleOps` -/
theorem sampleOps_rt (bs : Bytes) (hb : fmtOps sampleOps = some bs) :
    scan bs = some (sampleOps.map normOpD) := ops_rt_deep sampleOps sampleOps_ok bs hb

/-- and the writer does produce bytes for it (the hypothesis `fmtOps … = some bs` is satisfiable) -/
theorem sampleOps_written : (fmtOps sampleOps).isSome = true := by decide +kernel

/-- the image dictionary comes back without its nil entry, with the escaped key decoded and the
empty array as an empty array -/
example : (match imgDict [([65, 32, 35, 66], .int 7), ([68], .arr []), ([72], .int 3), ([78], .null), ([87], .int 2)] with
    | [(k1, .int 7), (k2, .arr []), (k3, .int 3), (k4, .int 2)] =>
      k1 == [65, 32, 35, 66] && k2 == [68] && k3 == [72] && k4 == [87]
    | _ => false) = true := by decide +kernel

/-! ## composite operands -/

/-- `[(a) -120 (\() /N] TJ` and `/Span <</MCID 3 /ActualText (x)y) /A null>> BDC`: operators with
an array of flat operands and with a dictionary of flat values meet the hypotheses of
`C15cntn.ops_rt` -/
def sampleOps1 : List (Bytes × List Obj) :=
  [([84, 74], [.arr [.str [97], .int (-120), .str [40], .name [78]]]),
   ([66, 68, 67], [.name [83, 112, 97, 110],
      .dict [([77, 67, 73, 68], .int 3), ([65, 99, 116, 117, 97, 108, 84, 101, 120, 116], .str [120, 41, 121]), ([65], .null)]])]

theorem sampleOps1_ok : ∀ op ∈ sampleOps1, OpOkN op := by
  intro op hop
  simp only [sampleOps1, List.mem_cons, List.mem_nil_iff, or_false] at hop
  have i64 : ∀ i : Int, -9223372036854775808 ≤ i → i ≤ 9223372036854775807 → FlatOk (.int i) := flatOk_int
  have hstr : ∀ s : Bytes, s.length < 10 → FlatOk (.str s) := by
    intro s hs
    show s.length < Gen.content_maxStringBytes
    have : (10 : Nat) ≤ Gen.content_maxStringBytes := by decide +kernel
    omega
  rcases hop with rfl | rfl
  · refine .inl ⟨opNameOkB_sound _ (by decide +kernel), ?_, by decide +kernel⟩
    intro a ha
    simp at ha
    subst ha
    refine .arr _ ?_ (by decide +kernel)
    intro x hx
    simp at hx
    rcases hx with rfl | rfl | rfl | rfl
    · exact hstr _ (by decide)
    · exact i64 _ (by decide) (by decide)
    · exact hstr _ (by decide)
    · exact ⟨by decide, by decide +kernel⟩
  · refine .inl ⟨opNameOkB_sound _ (by decide +kernel), ?_, by decide +kernel⟩
    intro a ha
    simp at ha
    rcases ha with rfl | rfl
    · exact .flat _ ⟨by decide, by decide +kernel⟩
    · refine .dict _ ?_ (by decide +kernel)
      intro e he
      simp at he
      rcases he with rfl | rfl | rfl
      · exact ⟨by decide, by decide +kernel, i64 _ (by decide) (by decide)⟩
      · exact ⟨by decide, by decide +kernel, hstr _ (by decide)⟩
      · exact ⟨by decide, by decide +kernel, trivial⟩

theorem sampleOps1_rt (bs : Bytes) (hb : fmtOps sampleOps1 = some bs) :
    scan bs = some (sampleOps1.map normOpN) := C15cntn.ops_rt sampleOps1 sampleOps1_ok bs hb

theorem sampleOps1_written : (fmtOps sampleOps1).isSome = true := by decide +kernel

/-- the dictionary comes back in written (`SortedKeys`) order without its null entry -/
example : (match norm1 (.dict [([77, 67, 73, 68], .int 3), ([65, 99, 116, 117, 97, 108, 84, 101, 120, 116], .str [120, 41, 121]), ([65], .null)]) with
    | .dict [(k1, .str _), (k2, .int 3)] => k1 == [65, 99, 116, 117, 97, 108, 84, 101, 120, 116] && k2 == [77, 67, 73, 68]
    | _ => false) = true := by decide +kernel


/-! ## nested operands -/

/-- `[[1 [(x)]] <</K [/a null] /B <<>>>> []] foo` — arrays in arrays, a dictionary inside an array
with an array and an empty dictionary as values, an empty array -/
def deepArg : Obj :=
  .arr [.arr [.int 1, .arr [.str [120]]],
        .dict [([75], .arr [.name [97], .null]), ([66], .dict [])],
        .arr []]

theorem deepArg_ok : ArgD deepArg := by
  have i1 : GoodO (.int 1) := by simpa [GoodO] using flatOk_int 1 (by decide) (by decide)
  have s1 : GoodO (.str [120]) := by
    have : (1 : Nat) < Gen.content_maxStringBytes := by decide +kernel
    simpa [GoodO, FlatOk] using this
  have n1 : GoodO (.name [97]) := by
    have : AllBytes [97] ∧ [97].length ≤ Gen.content_maxNameBytes := ⟨by decide, by decide +kernel⟩
    simpa [GoodO, FlatOk] using this
  have z1 : GoodO .null := by simp [GoodO, FlatOk]
  have a3 : GoodO (.arr [.str [120]]) := by
    unfold GoodO; exact ⟨by simp only [GoodL]; exact ⟨s1, trivial⟩, by decide +kernel⟩
  have a2 : GoodO (.arr [.int 1, .arr [.str [120]]]) := by
    unfold GoodO; exact ⟨by simp only [GoodL]; exact ⟨i1, a3, trivial⟩, by decide +kernel⟩
  have d0 : GoodO (.dict []) := by
    unfold GoodO; exact ⟨by simp only [GoodKV], by decide +kernel⟩
  have a4 : GoodO (.arr [.name [97], .null]) := by
    unfold GoodO; exact ⟨by simp only [GoodL]; exact ⟨n1, z1, trivial⟩, by decide +kernel⟩
  have d1 : GoodO (.dict [([66], .dict []), ([75], .arr [.name [97], .null])]) := by
    unfold GoodO
    refine ⟨?_, by decide +kernel⟩
    simp only [GoodKV]
    exact ⟨by decide, by decide +kernel, d0, by decide, by decide +kernel, a4, trivial⟩
  have a5 : GoodO (.arr []) := by
    unfold GoodO; exact ⟨by simp only [GoodL], by decide +kernel⟩
  have hc : deepArg.canon = .arr [.arr [.int 1, .arr [.str [120]]],
        .dict [([66], .dict []), ([75], .arr [.name [97], .null])], .arr []] := by rfl
  refine ⟨?_, ?_⟩
  · rw [hc]
    unfold GoodO
    exact ⟨by simp only [GoodL]; exact ⟨a2, d1, a5, trivial⟩, by decide +kernel⟩
  · rw [hc]
    decide +kernel

theorem deepOp_ok : OpOkD ([102, 111, 111], [deepArg]) :=
  .inl ⟨opNameOkB_sound _ (by decide +kernel), by intro a ha; simp at ha; subst ha; exact deepArg_ok, by decide +kernel⟩

/-- instance of `ops_rt_deep` -/
theorem deepOp_rt (bs : Bytes) (hb : fmtOps [([102, 111, 111], [deepArg])] = some bs) :
    scan bs = some ([([102, 111, 111], [deepArg])].map normOpD) :=
  ops_rt_deep _ (by intro op hop; simp at hop; subst hop; exact deepOp_ok) bs hb

theorem deepOp_written : (fmtOps [([102, 111, 111], [deepArg])]).isSome = true := by decide +kernel


/-- the same operand, with the hypotheses checked on the operand as given (unsorted dictionary) -/
theorem deepArg_ok_given : ArgD deepArg := by
  refine argD_of_good deepArg ?_ (by decide +kernel)
  have i1 : GoodO (.int 1) := goodO_flat _ (flatOk_int 1 (by decide) (by decide))
  have s1 : GoodO (.str [120]) := goodO_flat _ (by
    show (1 : Nat) < Gen.content_maxStringBytes
    decide +kernel)
  have n1 : GoodO (.name [97]) := goodO_flat _ ⟨by decide, by decide +kernel⟩
  have z1 : GoodO .null := goodO_flat _ trivial
  have a3 : GoodO (.arr [.str [120]]) := by
    unfold GoodO; exact ⟨by simp only [GoodL]; exact ⟨s1, trivial⟩, by decide +kernel⟩
  have a2 : GoodO (.arr [.int 1, .arr [.str [120]]]) := by
    unfold GoodO; exact ⟨by simp only [GoodL]; exact ⟨i1, a3, trivial⟩, by decide +kernel⟩
  have d0 : GoodO (.dict []) := by
    unfold GoodO; exact ⟨by simp only [GoodKV], by decide +kernel⟩
  have a4 : GoodO (.arr [.name [97], .null]) := by
    unfold GoodO; exact ⟨by simp only [GoodL]; exact ⟨n1, z1, trivial⟩, by decide +kernel⟩
  have d1 : GoodO (.dict [([75], .arr [.name [97], .null]), ([66], .dict [])]) := by
    unfold GoodO
    refine ⟨?_, by decide +kernel⟩
    simp only [GoodKV]
    exact ⟨by decide, by decide +kernel, a4, by decide, by decide +kernel, d0, trivial⟩
  have a5 : GoodO (.arr []) := by
    unfold GoodO; exact ⟨by simp only [GoodL], by decide +kernel⟩
  unfold deepArg GoodO
  exact ⟨by simp only [GoodL]; exact ⟨a2, d1, a5, trivial⟩, by decide +kernel⟩

/-- the dictionary operand of `deepArg` comes back as its two entries in `SortedKeys` order -/
example : (match normD (.dict [([66], .dict []), ([75], .arr [.name [97], .null])]) with
    | .dict [(k1, .dict []), (k2, .arr [.name _, .null])] => k1 == [66] && k2 == [75]
    | _ => false) = true := by decide +kernel

end PdfVerif.C15cntx

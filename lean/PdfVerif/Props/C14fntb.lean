import PdfVerif.Model.FNTCid
import PdfVerif.Lemmas.FNTMap
/-!
# C14 (work package FNT) — composite fonts: `cidenc` utf8 and identity/fixed encoders

* `decode_utf8` / `append_utf8`: the code the UTF-8 encoder makes for a rune is written by
  `AppendCode` as the rune's UTF-8 bytes and is cut off the front of any string by `Decode` as
  one valid code of that length — this is the **unique segmentation** of strings built from
  allocated codes (the code space ranges `charcode.UTF8` are prefix-free on these codes).
* `utf8_alloc_injective`, `utf8_codes_readback`: for every history of `Encode` calls (any CIDs,
  texts, widths, any results of NFC, any position of the private-use cursor).
* identity / fixed CMaps: pairs accepted by `Encode` never share a code
  (`fixed_encode_injective`); the full statement over `GetCode` is **false** for the code as it is
  (`fixed_getcode_full_false`, the finding `fixed-code-shared-text`); read-back of the two-byte
  codes (`identity_codes_readback`).
Models: `Model/FNTCid.lean`, `Model/FNTCodec.lean`.
-/
namespace PdfVerif.C14fntb
open PdfVerif PdfVerif.FNT

/-! ## segmentation of UTF-8 codes by the code space ranges -/

theorem d1 (b0 : Nat) (rest : Bytes) (h : b0 ≤ 0x7F) :
    decode csrUTF8 (b0 :: rest) = (b0, 1, true) := by
  have n1 : ¬ (194 ≤ b0) := by omega
  have n2 : ¬ (224 ≤ b0) := by omega
  have n3 : ¬ (240 ≤ b0) := by omega
  simp [decode, decodeAux, filterAt, csrUTF8, Range.matchAt, List.filter, h, n1, n2, n3]

theorem d2 (b0 b1 : Nat) (rest : Bytes) (h0 : 0xC2 ≤ b0) (h0' : b0 ≤ 0xDF) (h1 : 0x80 ≤ b1) (h1' : b1 ≤ 0xBF) :
    decode csrUTF8 (b0 :: b1 :: rest) = (b0 + b1 * 256, 2, true) := by
  have n1 : ¬ (b0 ≤ 127) := by omega
  have n2 : ¬ (224 ≤ b0) := by omega
  have n3 : ¬ (240 ≤ b0) := by omega
  simp [decode, decodeAux, filterAt, csrUTF8, Range.matchAt, List.filter, h0, h0', h1, h1', n1, n2, n3]

theorem d3 (b0 b1 b2 : Nat) (rest : Bytes) (h0 : 0xE0 ≤ b0) (h0' : b0 ≤ 0xEF)
    (h1 : 0x80 ≤ b1) (h1' : b1 ≤ 0xBF) (h2 : 0x80 ≤ b2) (h2' : b2 ≤ 0xBF) :
    decode csrUTF8 (b0 :: b1 :: b2 :: rest) = (b0 + b1 * 256 + b2 * 65536, 3, true) := by
  have n1 : ¬ (b0 ≤ 127) := by omega
  have n2 : ¬ (b0 ≤ 223) := by omega
  have n3 : ¬ (240 ≤ b0) := by omega
  have p1 : 194 ≤ b0 := by omega
  simp [decode, decodeAux, filterAt, csrUTF8, Range.matchAt, List.filter, h0, h0', h1, h1', h2, h2', n1, n2, n3, p1]

theorem d4 (b0 b1 b2 b3 : Nat) (rest : Bytes) (h0 : 0xF0 ≤ b0) (h0' : b0 ≤ 0xF4)
    (h1 : 0x80 ≤ b1) (h1' : b1 ≤ 0xBF) (h2 : 0x80 ≤ b2) (h2' : b2 ≤ 0xBF) (h3 : 0x80 ≤ b3) (h3' : b3 ≤ 0xBF) :
    decode csrUTF8 (b0 :: b1 :: b2 :: b3 :: rest) = (b0 + b1 * 256 + b2 * 65536 + b3 * 16777216, 4, true) := by
  have n1 : ¬ (b0 ≤ 127) := by omega
  have n2 : ¬ (b0 ≤ 223) := by omega
  have n3 : ¬ (b0 ≤ 239) := by omega
  have p1 : 194 ≤ b0 := by omega
  have p2 : 224 ≤ b0 := by omega
  simp [decode, decodeAux, filterAt, csrUTF8, Range.matchAt, List.filter, h0, h0', h1, h1', h2, h2', h3, h3',
    n1, n2, n3, p1, p2]

theorem pack1 (a : Nat) : packLE [a] = a := by simp [packLE, packFrom]
theorem pack2 (a b : Nat) : packLE [a, b] = a + b * 256 := by simp [packLE, packFrom]
theorem pack3 (a b c : Nat) : packLE [a, b, c] = a + b * 256 + c * 65536 := by
  simp [packLE, packFrom]; omega
theorem pack4 (a b c d : Nat) : packLE [a, b, c, d] = a + b * 256 + c * 65536 + d * 16777216 := by
  simp [packLE, packFrom]; omega

/-- **unique segmentation.**  For every rune `r` (any `Nat`: surrogates and values above
U+10FFFF become U+FFFD as in Go) and every continuation `rest`, `Decode` reads exactly the bytes of
`string(r)` from the front of `string(r) ++ rest`, reports them valid, and returns `runeToCode r`. -/
theorem decode_utf8 (r : Nat) (rest : Bytes) :
    decode csrUTF8 (utf8Bytes r ++ rest) = (runeToCode r, (utf8Bytes r).length, true) := by
  unfold runeToCode utf8Bytes
  split
  · simp only [List.cons_append, List.nil_append, List.length_cons, List.length_nil, pack1]
    exact d1 r rest (by omega)
  · split
    · simp only [List.cons_append, List.nil_append, List.length_cons, List.length_nil, pack2]
      exact d2 _ _ rest (by omega) (by omega) (by omega) (by omega)
    · split
      · simp only [List.cons_append, List.nil_append, List.length_cons, List.length_nil, pack3]
        exact d3 _ _ _ rest (by omega) (by omega) (by omega) (by omega) (by omega) (by omega)
      · split
        · simp only [List.cons_append, List.nil_append, List.length_cons, List.length_nil, pack3]
          exact d3 _ _ _ rest (by omega) (by omega) (by omega) (by omega) (by omega) (by omega)
        · split
          · simp only [List.cons_append, List.nil_append, List.length_cons, List.length_nil, pack4]
            exact d4 _ _ _ _ rest (by omega) (by omega) (by omega) (by omega) (by omega) (by omega) (by omega) (by omega)
          · simp only [List.cons_append, List.nil_append, List.length_cons, List.length_nil, pack3]
            exact d3 _ _ _ rest (by omega) (by omega) (by omega) (by omega) (by omega) (by omega)

theorem utf8Bytes_ne_nil (r : Nat) : utf8Bytes r ≠ [] := by
  unfold utf8Bytes
  split; · simp
  split; · simp
  split; · simp
  split; · simp
  split <;> simp

theorem utf8Bytes_length_pos (r : Nat) : 1 ≤ (utf8Bytes r).length := by
  have := utf8Bytes_ne_nil r
  cases h : utf8Bytes r with
  | nil => exact absurd h this
  | cons _ _ => simp

/-! ### AppendCode writes the rune's bytes -/

theorem a1 (b0 : Nat) (h : b0 ≤ 0x7F) : appendCode csrUTF8 b0 = [b0] := by
  have e : b0 % 256 = b0 := by omega
  have n1 : ¬ (194 ≤ b0) := by omega
  have n2 : ¬ (224 ≤ b0) := by omega
  have n3 : ¬ (240 ≤ b0) := by omega
  simp [appendCode, appendAux, filterAt, csrUTF8, Range.matchAt, List.filter, e, h, n1, n2, n3]

theorem a2 (b0 b1 : Nat) (h0 : 0xC2 ≤ b0) (h0' : b0 ≤ 0xDF) (h1 : 0x80 ≤ b1) (h1' : b1 ≤ 0xBF) :
    appendCode csrUTF8 (b0 + b1 * 256) = [b0, b1] := by
  have e0 : (b0 + b1 * 256) % 256 = b0 := by omega
  have e1 : (b0 + b1 * 256) / 256 % 256 = b1 := by omega
  have n1 : ¬ (b0 ≤ 127) := by omega
  have n2 : ¬ (224 ≤ b0) := by omega
  have n3 : ¬ (240 ≤ b0) := by omega
  simp [appendCode, appendAux, filterAt, csrUTF8, Range.matchAt, List.filter, e0, e1, h0, h0', h1, h1', n1, n2, n3]

theorem a3 (b0 b1 b2 : Nat) (h0 : 0xE0 ≤ b0) (h0' : b0 ≤ 0xEF)
    (h1 : 0x80 ≤ b1) (h1' : b1 ≤ 0xBF) (h2 : 0x80 ≤ b2) (h2' : b2 ≤ 0xBF) :
    appendCode csrUTF8 (b0 + b1 * 256 + b2 * 65536) = [b0, b1, b2] := by
  have e0 : (b0 + b1 * 256 + b2 * 65536) % 256 = b0 := by omega
  have e1 : (b0 + b1 * 256 + b2 * 65536) / 256 % 256 = b1 := by omega
  have e2 : (b0 + b1 * 256 + b2 * 65536) / 256 / 256 % 256 = b2 := by omega
  have n1 : ¬ (b0 ≤ 127) := by omega
  have n2 : ¬ (b0 ≤ 223) := by omega
  have n3 : ¬ (240 ≤ b0) := by omega
  have p1 : 194 ≤ b0 := by omega
  simp [appendCode, appendAux, filterAt, csrUTF8, Range.matchAt, List.filter, e0, e1, e2,
    h0, h0', h1, h1', h2, h2', n1, n2, n3, p1]

theorem a4 (b0 b1 b2 b3 : Nat) (h0 : 0xF0 ≤ b0) (h0' : b0 ≤ 0xF4)
    (h1 : 0x80 ≤ b1) (h1' : b1 ≤ 0xBF) (h2 : 0x80 ≤ b2) (h2' : b2 ≤ 0xBF) (h3 : 0x80 ≤ b3) (h3' : b3 ≤ 0xBF) :
    appendCode csrUTF8 (b0 + b1 * 256 + b2 * 65536 + b3 * 16777216) = [b0, b1, b2, b3] := by
  have e0 : (b0 + b1 * 256 + b2 * 65536 + b3 * 16777216) % 256 = b0 := by omega
  have e1 : (b0 + b1 * 256 + b2 * 65536 + b3 * 16777216) / 256 % 256 = b1 := by omega
  have e2 : (b0 + b1 * 256 + b2 * 65536 + b3 * 16777216) / 256 / 256 % 256 = b2 := by omega
  have e3 : (b0 + b1 * 256 + b2 * 65536 + b3 * 16777216) / 256 / 256 / 256 % 256 = b3 := by omega
  have n1 : ¬ (b0 ≤ 127) := by omega
  have n2 : ¬ (b0 ≤ 223) := by omega
  have n3 : ¬ (b0 ≤ 239) := by omega
  have p1 : 194 ≤ b0 := by omega
  have p2 : 224 ≤ b0 := by omega
  simp [appendCode, appendAux, filterAt, csrUTF8, Range.matchAt, List.filter, e0, e1, e2, e3,
    h0, h0', h1, h1', h2, h2', h3, h3', n1, n2, n3, p1, p2]

/-- `AppendCode(runeToCode r)` appends exactly `string(r)` -/
theorem append_utf8 (r : Nat) : appendCode csrUTF8 (runeToCode r) = utf8Bytes r := by
  unfold runeToCode utf8Bytes
  split
  · rw [pack1]; exact a1 r (by omega)
  · split
    · rw [pack2]; exact a2 _ _ (by omega) (by omega) (by omega) (by omega)
    · split
      · rw [pack3]; exact a3 _ _ _ (by omega) (by omega) (by omega) (by omega) (by omega) (by omega)
      · split
        · rw [pack3]; exact a3 _ _ _ (by omega) (by omega) (by omega) (by omega) (by omega) (by omega)
        · split
          · rw [pack4]
            exact a4 _ _ _ _ (by omega) (by omega) (by omega) (by omega) (by omega) (by omega) (by omega) (by omega)
          · rw [pack3]; exact a3 _ _ _ (by omega) (by omega) (by omega) (by omega) (by omega) (by omega)

/-! ## the UTF-8 encoder -/

structure UInv (e : Utf8Enc) : Prop where
  fwd : ∀ k c, e.code.get k = some c → ∃ w, e.info.get c = some ⟨k.1, w, k.2⟩
  bwd : ∀ c i, e.info.get c = some i → e.code.get (i.cid, i.text) = some c
  valid : ∀ c i, e.info.get c = some i → ∃ r, c = runeToCode r

/-- all histories: `Encode` with any arguments and any NFC result, and the cursor moved anywhere -/
inductive UReach : Utf8Enc → Prop
  | init (w : Int) : UReach { cid0Width := w }
  | step (e : Utf8Enc) (cid : Nat) (text : Bytes) (width : Int) (single : Option Nat) :
      UReach e → UReach (e.encode cid text width single).1
  | jump (e : Utf8Enc) (n : Nat) : UReach e → UReach { e with nextPrivate := n }

theorem privLoop_ok (info : Map Nat CInfo) (fuel next c n : Nat)
    (h : privLoop info fuel next = (.ok c, n)) : info.get c = none ∧ ∃ r, c = runeToCode r := by
  induction fuel generalizing next with
  | zero => simp [privLoop] at h
  | succ f ih =>
    unfold privLoop at h
    simp only at h
    split at h
    · simp at h
    · split at h
      · exact ih _ h
      · rename_i hc
        simp at h
        obtain ⟨rfl, _⟩ := h
        refine ⟨?_, next, rfl⟩
        simp [Map.contains] at hc
        exact hc

/-- the code `makeCode` returns is unused and is the code of some rune -/
theorem makeCode_ok (e : Utf8Enc) (single : Option Nat) (c n : Nat)
    (h : e.makeCode single = (.ok c, n)) : e.info.get c = none ∧ ∃ r, c = runeToCode r := by
  unfold Utf8Enc.makeCode at h
  simp only at h
  split at h
  · rename_i c' hd
    simp at h
    obtain ⟨rfl, _⟩ := h
    split at hd
    · rename_i r
      split at hd
      · simp at hd
      · rename_i hc
        simp at hd
        subst hd
        refine ⟨?_, r, rfl⟩
        simp [Map.contains] at hc
        exact hc
    · simp at hd
  · exact privLoop_ok _ _ _ _ _ h

theorem uinv_encode (e : Utf8Enc) (cid : Nat) (text : Bytes) (width : Int) (single : Option Nat)
    (h : UInv e) : UInv (e.encode cid text width single).1 := by
  unfold Utf8Enc.encode
  split
  · exact h
  · rename_i hnd
    have hnone : e.code.get (cid, text) = none := by
      cases hg : e.code.get (cid, text) with
      | none => rfl
      | some v => simp [hg] at hnd
    split
    · rename_i c next hm
      obtain ⟨hfree, r, hr⟩ := makeCode_ok e single c next hm
      refine ⟨?_, ?_, ?_⟩
      · intro k c' hk
        simp only [Map.get_insert] at hk ⊢
        split at hk
        · rename_i hkeq
          cases hkeq
          simp at hk
          subst hk
          exact ⟨width, by simp⟩
        · obtain ⟨w, hw⟩ := h.fwd k c' hk
          have hne : c ≠ c' := by intro he; subst he; simp [hfree] at hw
          exact ⟨w, by simp [hne, hw]⟩
      · intro c' i hc
        simp only [Map.get_insert] at hc ⊢
        split at hc
        · rename_i hceq
          subst hceq
          simp at hc
          subst hc
          simp
        · have hb := h.bwd c' i hc
          have hne : (cid, text) ≠ (i.cid, i.text) := by
            intro he; rw [← he, hnone] at hb; simp at hb
          simp [hne, hb]
      · intro c' i hc
        simp only [Map.get_insert] at hc
        split at hc
        · rename_i hceq; subst hceq; exact ⟨r, hr⟩
        · exact h.valid c' i hc
    · exact ⟨h.fwd, h.bwd, h.valid⟩
    · exact ⟨h.fwd, h.bwd, h.valid⟩

theorem ureach_inv {e : Utf8Enc} (h : UReach e) : UInv e := by
  induction h with
  | init w => exact ⟨by simp, by simp, by simp⟩
  | step e cid text width single _ ih => exact uinv_encode e cid text width single ih
  | jump e n _ ih => exact ⟨ih.fwd, ih.bwd, ih.valid⟩

/-- **alloc_injective (UTF-8 encoder).**  After any history, two (CID, text) pairs with the same
code are the same pair. -/
theorem utf8_alloc_injective {e : Utf8Enc} (h : UReach e) (k1 k2 : Key) (c : Nat)
    (h1 : e.getCode k1.1 k1.2 = some c) (h2 : e.getCode k2.1 k2.2 = some c) : k1 = k2 := by
  have inv := ureach_inv h
  obtain ⟨w1, e1⟩ := inv.fwd k1 c h1
  obtain ⟨w2, e2⟩ := inv.fwd k2 c h2
  rw [e1] at e2
  simp at e2
  exact Prod.ext e2.1 e2.2.2

/-- a successful `Encode` records exactly its arguments under the returned code -/
theorem utf8_encode_records (e : Utf8Enc) (cid : Nat) (text : Bytes) (width : Int) (single : Option Nat)
    (c : Nat) (h : (e.encode cid text width single).2 = .ok c) :
    (e.encode cid text width single).1.info.get c = some ⟨cid, width, text⟩ ∧
    (e.encode cid text width single).1.getCode cid text = some c := by
  unfold Utf8Enc.encode at h ⊢
  by_cases hd : (e.code.get (cid, text)).isSome = true
  · simp [hd] at h
  · simp only [hd] at h ⊢
    cases hm : e.makeCode single with
    | mk res next =>
      cases res with
      | ok c' =>
        simp [hm] at h ⊢
        subst h
        simp [Utf8Enc.getCode]
      | overflow => simp [hm] at h
      | nofuel => simp [hm] at h

/-- entries are never overwritten by later `Encode` calls -/
theorem utf8_encode_stable (e : Utf8Enc) (cid : Nat) (text : Bytes) (width : Int) (single : Option Nat)
    (c : Nat) (i : CInfo) (hc : e.info.get c = some i) :
    (e.encode cid text width single).1.info.get c = some i := by
  unfold Utf8Enc.encode
  split
  · exact hc
  · split
    · rename_i c' next hm
      obtain ⟨hfree, _⟩ := makeCode_ok e single c' next hm
      have hne : c' ≠ c := by intro he; subst he; simp [hfree] at hc
      simp [Map.get_insert, hne, hc]
    · exact hc
    · exact hc

/-- what `Codes` yields for a mapped code -/
def utf8Out (e : Utf8Enc) (c : Nat) : CodeOut :=
  match e.info.get c with
  | some i => ⟨i.cid, i.width, i.text, (appendCode csrUTF8 c).length == 1 && c == K.spaceCode⟩
  | none => ⟨0, e.cid0Width, [], (appendCode csrUTF8 c).length == 1 && c == K.spaceCode⟩

theorem codeStep_utf8 (e : Utf8Enc) (r : Nat) (rest : Bytes) (i : CInfo)
    (hi : e.info.get (runeToCode r) = some i) :
    e.codeStep (utf8Bytes r ++ rest) =
      (⟨i.cid, i.width, i.text, (utf8Bytes r).length == 1 && runeToCode r == K.spaceCode⟩, (utf8Bytes r).length) := by
  simp [Utf8Enc.codeStep, decode_utf8, hi]

theorem utf8_codes_aux (e : Utf8Enc) (inv : UInv e) (cs : List Nat)
    (hcs : ∀ c ∈ cs, ∃ i, e.info.get c = some i) (fuel : Nat)
    (hf : fuel ≥ (cs.flatMap (appendCode csrUTF8)).length) :
    e.codesAux fuel (cs.flatMap (appendCode csrUTF8)) = cs.map (utf8Out e) := by
  induction cs generalizing fuel with
  | nil =>
    cases fuel <;> simp [Utf8Enc.codesAux]
  | cons c rest ih =>
    obtain ⟨i, hi⟩ := hcs c (List.mem_cons_self)
    obtain ⟨r, hr⟩ := inv.valid c i hi
    subst hr
    simp only [List.flatMap_cons, append_utf8, List.length_append] at hf ⊢
    have hpos := utf8Bytes_length_pos r
    cases fuel with
    | zero => omega
    | succ f =>
      cases hb : utf8Bytes r with
      | nil => exact absurd hb (utf8Bytes_ne_nil r)
      | cons b0 bs =>
        have hs := codeStep_utf8 e r (rest.flatMap (appendCode csrUTF8)) i hi
        rw [hb] at hs hf
        simp only [List.cons_append] at hs ⊢
        unfold Utf8Enc.codesAux
        simp only [hs]
        have hdrop : List.drop (b0 :: bs).length (b0 :: (bs ++ rest.flatMap (appendCode csrUTF8))) =
            rest.flatMap (appendCode csrUTF8) := by
          rw [← List.cons_append]; exact List.drop_left
        simp only [List.map_cons, hdrop]
        rw [ih (fun c hc => hcs c (List.mem_cons_of_mem _ hc)) f (by simp only [List.length_cons] at hf; omega)]
        simp [utf8Out, hi, append_utf8, hb]

/-- **codes_readback (UTF-8 encoder): unique segmentation.**  In any reachable state, the string
made by `AppendCode` from any sequence of allocated codes decodes into exactly one entry per
code, in order, each with the CID, width and text recorded for that code. -/
theorem utf8_codes_readback {e : Utf8Enc} (h : UReach e) (cs : List Nat)
    (hcs : ∀ c ∈ cs, ∃ i, e.info.get c = some i) :
    e.codes (cs.flatMap (appendCode csrUTF8)) = cs.map (utf8Out e) ∧
    (e.codes (cs.flatMap (appendCode csrUTF8))).length = cs.length := by
  have := utf8_codes_aux e (ureach_inv h) cs hcs _ (Nat.le_refl _)
  unfold Utf8Enc.codes
  rw [this]
  simp

-- non-vacuity: "A", a second glyph with the same text (private-use code), a two-rune text
private def exU : Utf8Enc :=
  ((((({ cid0Width := 500 } : Utf8Enc).encode 36 [65] 722 (some 65)).1.encode 37 [65] 700 (some 65)).1.encode
    9 [102, 105] 556 none).1.encode 5 [206, 169] 800 (some 0x3A9)).1
example : exU.getCode 36 [65] = some 65 ∧ exU.getCode 37 [65] = some (runeToCode 0xE000) ∧
    exU.getCode 9 [102, 105] = some (runeToCode 0xE001) ∧
    exU.codes ([65] ++ utf8Bytes 0xE000 ++ [0xCE, 0xA9] ++ utf8Bytes 0xE001) =
      [⟨36, 722, [65], false⟩, ⟨37, 700, [65], false⟩, ⟨5, 800, [206, 169], false⟩, ⟨9, 556, [102, 105], false⟩] := by
  decide +kernel

/-! ## identity / fixed CMaps -/

theorem setText_frame (f : FixedEnc) (code : Nat) (text : Bytes) :
    (f.setText code text).1.all = f.all ∧ (f.setText code text).1.rev = f.rev ∧
    (f.setText code text).1.csr = f.csr ∧ (f.setText code text).1.width = f.width := by
  unfold FixedEnc.setText
  split
  · split <;> simp
  · simp

theorem setText_ok (f : FixedEnc) (code : Nat) (text : Bytes) (c : Nat)
    (h : (f.setText code text).2 = .ok c) : c = code ∧ (f.setText code text).1.text.get c = some text := by
  unfold FixedEnc.setText at h ⊢
  split at h
  · rename_i t0 ht
    split at h
    · simp at h
    · rename_i htt
      simp at h htt; subst h
      simp [ht, htt]
  · rename_i ht
    simp at h; subst h
    simp [ht]

theorem setText_stable (f : FixedEnc) (code : Nat) (text : Bytes) (c : Nat) (t : Bytes)
    (hc : f.text.get c = some t) : (f.setText code text).1.text.get c = some t := by
  unfold FixedEnc.setText
  split
  · split <;> exact hc
  · rename_i ht
    have hne : code ≠ c := by intro he; subst he; simp [ht] at hc
    simp [Map.get_insert, hne, hc]

/-- a fixed encoder never changes its CMap -/
theorem fixed_encode_frame (f : FixedEnc) (cid : Nat) (text : Bytes) (width : Int) :
    (f.encode cid text width).1.all = f.all ∧ (f.encode cid text width).1.rev = f.rev ∧
    (f.encode cid text width).1.csr = f.csr := by
  unfold FixedEnc.encode
  split
  · simp
  · split
    · split
      · simp
      · obtain ⟨a, b, c, _⟩ := setText_frame f _ text; exact ⟨a, b, c⟩
    · obtain ⟨a, b, c, _⟩ := setText_frame { f with width := f.width.insert cid width } _ text
      exact ⟨a, b, c⟩

/-- what a successful `Encode` guarantees: the code is the CMap's code of the CID, and the
encoder now holds exactly this width for the CID and this text for the code -/
theorem fixed_encode_ok (f : FixedEnc) (cid : Nat) (text : Bytes) (width : Int) (c : Nat)
    (h : (f.encode cid text width).2 = .ok c) :
    f.all cid = some c ∧ (f.encode cid text width).1.width.get cid = some width ∧
    (f.encode cid text width).1.text.get c = some text := by
  unfold FixedEnc.encode at h ⊢
  split at h
  · simp at h
  · rename_i code hall
    split at h
    · rename_i w0 hw
      split at h
      · simp at h
      · rename_i hww
        simp at hww
        have hif : (w0 != width) = false := by simp [hww]
        simp only [hif, Bool.false_eq_true, ↓reduceIte]
        obtain ⟨hc, ht⟩ := setText_ok f code text c h
        subst hc
        refine ⟨hall, ?_, ht⟩
        rw [(setText_frame f c text).2.2.2, hw, hww]
    · rename_i hw
      obtain ⟨hc, ht⟩ := setText_ok _ code text c h
      subst hc
      refine ⟨hall, ?_, ht⟩
      rw [(setText_frame _ c text).2.2.2]
      simp

/-- width and text entries, once set, are never changed by `Encode` -/
theorem fixed_encode_stable (f : FixedEnc) (cid : Nat) (text : Bytes) (width : Int) :
    (∀ c t, f.text.get c = some t → (f.encode cid text width).1.text.get c = some t) ∧
    (∀ k w, f.width.get k = some w → (f.encode cid text width).1.width.get k = some w) := by
  unfold FixedEnc.encode
  split
  · exact ⟨fun _ _ h => h, fun _ _ h => h⟩
  · rename_i code hall
    split
    · rename_i w0 hw
      split
      · exact ⟨fun _ _ h => h, fun _ _ h => h⟩
      · refine ⟨fun c t h => setText_stable f code text c t h, ?_⟩
        intro k w hk
        rw [(setText_frame f code text).2.2.2]; exact hk
    · rename_i hw
      refine ⟨fun c t h => setText_stable _ code text c t h, ?_⟩
      intro k w hk
      rw [(setText_frame _ code text).2.2.2]
      have hne : cid ≠ k := by intro he; subst he; simp [hw] at hk
      simp [Map.get_insert, hne, hk]

/-- histories of a fixed encoder -/
inductive FLater : FixedEnc → FixedEnc → Prop
  | refl (f : FixedEnc) : FLater f f
  | step (f g : FixedEnc) (cid : Nat) (text : Bytes) (width : Int) :
      FLater f g → FLater f (g.encode cid text width).1

theorem flater_keeps {f g : FixedEnc} (h : FLater f g) :
    g.all = f.all ∧ (∀ c t, f.text.get c = some t → g.text.get c = some t) ∧
    (∀ k w, f.width.get k = some w → g.width.get k = some w) := by
  induction h with
  | refl => exact ⟨rfl, fun _ _ h => h, fun _ _ h => h⟩
  | step g cid text width _ ih =>
    obtain ⟨ha, ht, hw⟩ := ih
    obtain ⟨st, sw⟩ := fixed_encode_stable g cid text width
    exact ⟨by rw [(fixed_encode_frame g cid text width).1, ha], fun c t h => st c t (ht c t h),
      fun k w h => sw k w (hw k w h)⟩

/-- the CMap assigns different codes to different CIDs (true of every CMap: a code has one CID;
    stated for the model's `all`, which `NewFromCMap` derives from the code ↦ CID pairs) -/
def CMapInjective (f : FixedEnc) : Prop :=
  ∀ cid1 cid2 c, f.all cid1 = some c → f.all cid2 = some c → cid1 = cid2

theorem identityCode_injective (a b : Nat) (ha : a < 65536) (hb : b < 65536)
    (h : identityCode a = identityCode b) : a = b := by
  unfold identityCode at h; omega

theorem identity_cmap_injective (w : Int) : CMapInjective (FixedEnc.identity w) := by
  intro a b c ha hb
  simp only [FixedEnc.identity] at ha hb
  split at ha <;> split at hb <;> simp at ha hb
  rename_i h1 h2
  exact identityCode_injective a b h1 h2 (by omega)

/-- **alloc_injective for fixed CMaps, the part that holds (`_partial`).**  In one history, two
`Encode` calls that both succeed and return the same code were made for the same CID and the same
text: pairs *accepted by `Encode`* never share a code. -/
theorem fixed_encode_injective_partial (f : FixedEnc) (hinj : CMapInjective f)
    (cid1 : Nat) (t1 : Bytes) (w1 : Int) (c : Nat)
    (h1 : (f.encode cid1 t1 w1).2 = .ok c)
    (g : FixedEnc) (hl : FLater (f.encode cid1 t1 w1).1 g)
    (cid2 : Nat) (t2 : Bytes) (w2 : Int)
    (h2 : (g.encode cid2 t2 w2).2 = .ok c) : cid1 = cid2 ∧ t1 = t2 ∧ w1 = w2 := by
  obtain ⟨ha1, hw1, ht1⟩ := fixed_encode_ok f cid1 t1 w1 c h1
  obtain ⟨ha2, hw2, ht2⟩ := fixed_encode_ok g cid2 t2 w2 c h2
  obtain ⟨hall, hkt, hkw⟩ := flater_keeps hl
  have hall' : g.all = f.all := by rw [hall, (fixed_encode_frame f cid1 t1 w1).1]
  rw [hall'] at ha2
  have hc : cid1 = cid2 := hinj cid1 cid2 c ha1 ha2
  subst hc
  obtain ⟨st, sw⟩ := fixed_encode_stable g cid1 t2 w2
  have e1 := st c t1 (hkt c t1 ht1)
  have e2 := sw cid1 w1 (hkw cid1 w1 hw1)
  rw [ht2] at e1; rw [hw2] at e2
  simp at e1 e2
  exact ⟨rfl, e1.symm, e2.symm⟩

/-- the full-strength statement over what `GetCode` reports (this is what the composite
embedders consult first): two pairs for which `GetCode` returns the same code are equal -/
def fixed_getcode_injective_full : Prop :=
  ∀ (f : FixedEnc), FLater (FixedEnc.identity 500) f →
    ∀ (k1 k2 : Key) (c : Nat), f.getCode k1.1 k1.2 = some c → f.getCode k2.1 k2.2 = some c → k1 = k2

/-- **the full statement is false for the code as it is** (finding `fixed-code-shared-text`):
after `Encode(5, "fi", 600)`, `GetCode(5, "ﬁ")` returns the same code although the pair was
never encoded — `(*fixed).GetCode` does not look at the text. -/
theorem fixed_getcode_full_false : ¬ fixed_getcode_injective_full := by
  intro h
  have := h ((FixedEnc.identity 500).encode 5 [102, 105] 600).1
    (FLater.step _ _ 5 [102, 105] 600 (FLater.refl _)) (5, [102, 105]) (5, [239, 172, 129]) 1280
    (by decide +kernel) (by decide +kernel)
  simp at this

/-- fix 6288f11 (D28) and D-C14-7: the code `GetCode` reports is the code the CMap has for that
    CID, the CID is one the encoder holds a width for, and a text has been recorded for the code -/
theorem fixed_getcode_in_cmap (f : FixedEnc) (cid : Nat) (text : Bytes) (c : Nat)
    (h : f.getCode cid text = some c) :
    f.all cid = some c ∧ (∃ w, f.width.get cid = some w) ∧ ∃ t, f.text.get c = some t := by
  unfold FixedEnc.getCode at h
  split at h
  · simp at h
  · rename_i w hw
    split at h
    · simp at h
    · rename_i c' hc
      split at h
      · rename_i ht
        simp at h; subst h
        cases hg : f.text.get c' with
        | none => simp [hg] at ht
        | some t => exact ⟨hc, ⟨w, hw⟩, t, rfl⟩
      · simp at h

/-- a CID without a code in the CMap is never reported as encodable — whatever widths are stored -/
theorem fixed_getcode_unmapped (f : FixedEnc) (cid : Nat) (text : Bytes) (h : f.all cid = none) :
    f.getCode cid text = none := by
  unfold FixedEnc.getCode; split <;> simp [h]

/-- **`GetCode` for CID 0** (the case of D28): for a CMap in which no code maps to CID 0, the
encoder made by `NewFromCMap` — whose width table has CID 0 from the start — answers "no code" for
the notdef glyph, for every text; before the fix it answered code 0. -/
theorem fixed_getcode_notdef (csr : CSR) (pairs : List (Nat × Nat)) (w0 : Int) (text : Bytes)
    (h : ∀ p ∈ pairs, p.2 ≠ 0) : (FixedEnc.ofPairs csr pairs w0).getCode 0 text = none := by
  apply fixed_getcode_unmapped
  simp only [FixedEnc.ofPairs, Option.map_eq_none_iff, List.find?_eq_none]
  intro p hp
  have := h p (List.mem_reverse.mp hp)
  simpa using this

/-- **the text of glyph 0 is recorded** (D-C14-7, audit finding 7).  A fresh Identity encoder
does not claim that CID 0 is encoded although its width is preset, so the embedders' "GetCode,
else Encode" protocol reaches `Encode`; `Encode(0, text, cid0Width)` succeeds with code 0 and
records the text, and from then on `GetCode(0, ·)` answers code 0.  Before the fix `GetCode(0, ·)`
answered at once and the text of a missing character was never stored. -/
theorem identity_notdef_text_recorded (w : Int) (text other : Bytes) :
    (FixedEnc.identity w).getCode 0 text = none ∧
    ((FixedEnc.identity w).encode 0 text w).2 = .ok 0 ∧
    ((FixedEnc.identity w).encode 0 text w).1.text.get 0 = some text ∧
    ((FixedEnc.identity w).encode 0 text w).1.getCode 0 other = some 0 := by
  refine ⟨by simp [FixedEnc.getCode, FixedEnc.identity, Map.get_cons, identityCode], ?_⟩
  have henc : (FixedEnc.identity w).encode 0 text w =
      ({ (FixedEnc.identity w) with text := (FixedEnc.identity w).text.insert 0 text }, .ok 0) := by
    simp [FixedEnc.encode, FixedEnc.setText, FixedEnc.identity, Map.get_cons, identityCode]
  rw [henc]
  refine ⟨rfl, by simp, ?_⟩
  simp [FixedEnc.getCode, FixedEnc.identity, Map.get_cons, identityCode]

/-- in general: whenever `GetCode` answers, a text has been stored for the code by an `Encode` -/
theorem fixed_getcode_text_recorded (f : FixedEnc) (cid : Nat) (text : Bytes) (c : Nat)
    (h : f.getCode cid text = some c) : ∃ t, f.text.get c = some t :=
  (fixed_getcode_in_cmap f cid text c h).2.2

/-- **why the cache of an extracted composite font must not be keyed by the code value**
(D-C14-3, audit finding 3): the incomplete code `<01>` and the valid code `<0100>` of a two-byte
code space have the same packed value; only the number of bytes consumed and the validity tell
them apart. -/
theorem code_value_ambiguous :
    decode csrUCS2 [1] = (1, 1, false) ∧ decode csrUCS2 [1, 0] = (1, 2, true) := by decide +kernel

/-- what holds for `GetCode` in general: the code determines the CID (any injective CMap, any
    state of the width and text tables) -/
theorem fixed_getcode_cid_partial (f : FixedEnc) (hinj : CMapInjective f)
    (k1 k2 : Key) (c : Nat) (h1 : f.getCode k1.1 k1.2 = some c) (h2 : f.getCode k2.1 k2.2 = some c) :
    k1.1 = k2.1 :=
  hinj _ _ _ (fixed_getcode_in_cmap f _ _ c h1).1 (fixed_getcode_in_cmap f _ _ c h2).1

theorem flater_frame {f0 f : FixedEnc} (h : FLater f0 f) : f.all = f0.all ∧ f.rev = f0.rev := by
  induction h with
  | refl => exact ⟨rfl, rfl⟩
  | step g cid text width _ ih =>
    obtain ⟨ha, hr, _⟩ := fixed_encode_frame g cid text width
    exact ⟨by rw [ha]; exact ih.1, by rw [hr]; exact ih.2⟩

/-- Identity-H/V: the code `GetCode` reports decodes back to the CID it was asked for, after any
    history -/
theorem identity_getcode_roundtrip (w : Int) (f : FixedEnc) (h : FLater (FixedEnc.identity w) f)
    (cid : Nat) (text : Bytes) (c : Nat) (hg : f.getCode cid text = some c) : f.rev c = some cid := by
  have hframe := flater_frame h
  have ha := (fixed_getcode_in_cmap f cid text c hg).1
  rw [hframe.1] at ha
  rw [hframe.2]
  simp only [FixedEnc.identity] at ha ⊢
  split at ha
  · rename_i hlt
    simp at ha; subst ha
    have h1 : identityCode cid < 65536 := by unfold identityCode; omega
    have h2 : identityCode (identityCode cid) = cid := by unfold identityCode; omega
    simp [h1, h2]
  · simp at ha

/-! ### two-byte codes read back -/

theorem decode_ucs2 (b0 b1 : Nat) (rest : Bytes) (h0 : b0 ≤ 255) (h1 : b1 ≤ 255) :
    decode csrUCS2 (b0 :: b1 :: rest) = (b0 + b1 * 256, 2, true) := by
  simp [decode, decodeAux, filterAt, csrUCS2, Range.matchAt, List.filter, h0, h1]

theorem append_ucs2 (cid : Nat) (h : cid < 65536) :
    appendCode csrUCS2 (identityCode cid) = [cid / 256, cid % 256] := by
  unfold identityCode
  have e0 : (cid / 256 + 256 * (cid % 256)) % 256 = cid / 256 := by omega
  have e1 : (cid / 256 + 256 * (cid % 256)) / 256 % 256 = cid % 256 := by omega
  have h0 : cid / 256 ≤ 255 := by omega
  have h1 : cid % 256 ≤ 255 := by omega
  simp [appendCode, appendAux, filterAt, csrUCS2, Range.matchAt, List.filter, e0, e1, h0, h1]

/-- what `Codes` of the identity encoder yields for the code of a CID -/
def identityOut (f : FixedEnc) (cid : Nat) : CodeOut :=
  ⟨cid, match f.width.get cid with | some w => w | none => 0,
   match f.text.get (identityCode cid) with | some t => t | none => [], false⟩

theorem identity_codes_aux (f : FixedEnc) (w : Int) (hcsr : f.csr = csrUCS2)
    (hrev : f.rev = (FixedEnc.identity w).rev) (cids : List Nat) (hc : ∀ c ∈ cids, c < 65536)
    (fuel : Nat) (hf : fuel ≥ 2 * cids.length) :
    f.codesAux fuel (cids.flatMap fun c => [c / 256, c % 256]) = cids.map (identityOut f) := by
  induction cids generalizing fuel with
  | nil => cases fuel <;> simp [FixedEnc.codesAux]
  | cons c rest ih =>
    have hlt := hc c (List.mem_cons_self)
    cases fuel with
    | zero => simp at hf
    | succ k =>
      simp only [List.flatMap_cons, List.cons_append, List.nil_append]
      unfold FixedEnc.codesAux
      have hdec := decode_ucs2 (c / 256) (c % 256) (rest.flatMap fun c => [c / 256, c % 256]) (by omega) (by omega)
      have hcode : c / 256 + c % 256 * 256 = identityCode c := by unfold identityCode; omega
      have hrv : f.rev (identityCode c) = some c := by
        rw [hrev]
        have : identityCode c < 65536 := by unfold identityCode; omega
        have e : identityCode (identityCode c) = c := by unfold identityCode; omega
        simp [FixedEnc.identity, this, e]
      have hstep : f.codeStep (c / 256 :: c % 256 :: rest.flatMap fun c => [c / 256, c % 256]) =
          (identityOut f c, 2) := by
        simp [FixedEnc.codeStep, hcsr, hdec, hcode, hrv, identityOut]
        exact ⟨rfl, rfl⟩
      simp only [hstep, List.map_cons, List.drop_succ_cons, List.drop_zero]
      rw [ih (fun x hx => hc x (List.mem_cons_of_mem _ hx)) k (by simp at hf; omega)]

theorem flat2_length (cids : List Nat) :
    (cids.flatMap fun c => [c / 256, c % 256]).length = 2 * cids.length := by
  induction cids with
  | nil => simp
  | cons c rest ih =>
    simp only [List.flatMap_cons, List.length_append, List.length_cons, List.length_nil, ih]; omega

/-- **codes_readback (Identity-H/V).**  After any history of the identity encoder, the string of
the two-byte codes of any CIDs decodes into one entry per CID, carrying the CID, the width
recorded for it and the text recorded for its code. -/
theorem identity_codes_readback (w : Int) (f : FixedEnc) (h : FLater (FixedEnc.identity w) f)
    (cids : List Nat) (hc : ∀ c ∈ cids, c < 65536) :
    f.codes (cids.flatMap fun c => appendCode csrUCS2 (identityCode c)) = cids.map (identityOut f) := by
  have hframe : f.csr = csrUCS2 ∧ f.rev = (FixedEnc.identity w).rev := by
    induction h with
    | refl => exact ⟨rfl, rfl⟩
    | step g cid text width _ ih =>
      obtain ⟨_, hr, hc⟩ := fixed_encode_frame g cid text width
      exact ⟨by rw [hc]; exact ih.1, by rw [hr]; exact ih.2⟩
  have hbytes : (cids.flatMap fun c => appendCode csrUCS2 (identityCode c)) =
      cids.flatMap fun c => [c / 256, c % 256] := by
    induction cids with
    | nil => simp
    | cons c rest ih =>
      simp only [List.flatMap_cons]
      rw [append_ucs2 c (hc c (List.mem_cons_self)), ih (fun x hx => hc x (List.mem_cons_of_mem _ hx))]
  unfold FixedEnc.codes
  rw [hbytes]
  apply identity_codes_aux f w hframe.1 hframe.2 cids hc
  have := flat2_length cids
  omega

-- non-vacuity: two CIDs encoded, read back from the four bytes
example :
    let f := (((FixedEnc.identity 500).encode 36 [65] 722).1.encode 707 [102, 105] 556).1
    f.codes [0, 36, 2, 195] = [⟨36, 722, [65], false⟩, ⟨707, 556, [102, 105], false⟩] := by
  decide +kernel

end PdfVerif.C14fntb

import PdfVerif.Props.C05robobj
/-!
# C19 — the token readers of the scanner over a FAILING reader

`Props/C05robobj.lean` shows that on a fault-free reader the buffer-level parser
(`Model/ROBScanObj.lean`) computes the whole-input parser (`Model/Scan.lean`).  This file and
`Props/C19robobj.lean` redo the argument for a reader that may fail with the error `e0` at any
call, any number of times, with or without bytes delivered together with the error
(`FaultyOver d e0 src`).  The outcome of every function is then one of

* `RelA` — the fault-free outcome: the value (and unconsumed input) or the error of the whole-input
  model on the bytes not yet consumed;
* the reader's error `e0`

(before the fixes of findings ROB-6 and ROB-7 there was a third outcome, behind the two `PeekN`
calls whose error `scanner.go` dropped: `buf, _ = s.PeekN(6)` in `ReadObject`, `buf, _ := s.PeekN(3)` in
`tryHex`)

and in no case a (modelled) Go panic.  This file: the state invariant, the leaf operations, and
`ReadName`, `ReadNumber`, `ReadInteger`, `ReadString`, `ReadHexString`.
-/
namespace PdfVerif.C19robtok
open PdfVerif PdfVerif.ROB PdfVerif.C05robbuf PdfVerif.C05robobj

/-! ## a latched error stays latched -/

theorem refill_latch (src : Source) (s : SB) (x : Err) (h : s.err = some x) : refill src s = (s, some x) := by
  unfold refill
  rw [h]

theorem scanBytes_latch {σ : Type} (src : Source) (acc : σ → Nat → Option σ) (x : Err) :
    ∀ (fuel : Nat) (empty : Bool) (st : σ) (s : SB), s.err = some x →
      (scanBytes src acc fuel empty st s).1.err = some x := by
  intro fuel
  induction fuel with
  | zero => intro empty st s h; exact h
  | succ fuel ih =>
    intro empty st s h
    unfold scanBytes
    generalize scanInner acc st (s.buf.drop s.pos) = r
    obtain ⟨st1, n, stop⟩ := r
    simp only []
    have hr := refill_latch src { s with pos := s.pos + n } x h
    rw [hr]
    simp only []
    repeat' split
    all_goals first | exact h | (apply ih; exact h)

/-- `PeekN` when an error is latched: the state does not change, the window is what is buffered -/
theorem peekN_latched (src : Source) (n : Nat) (hn : n ≤ bufSize) (s : SB) (x : Err) (h : s.err = some x) :
    peekN src n s = if s.pos + n > s.buf.length then (s, s.buf.drop s.pos, some x)
      else (s, (s.buf.drop s.pos).take n, none) := by
  unfold peekN
  have hn' : ¬ (n > bufSize) := by omega
  simp only [hn', if_false]
  by_cases hA : s.pos + n > s.buf.length
  · simp only [hA, if_true, refill_latch src s x h]
  · simp only [hA, if_false]

theorem skipString_latched_srcOff (src : Source) (pat : Bytes) (hn : pat.length ≤ bufSize) (s : SB) (x : Err)
    (h : s.err = some x) : (skipString src pat s).1.srcOff = s.srcOff := by
  unfold skipString
  rw [peekN_latched src pat.length hn s x h]
  by_cases hA : s.pos + pat.length > s.buf.length
  · simp only [hA, if_true]
  · simp only [hA, if_false]
    split <;> rfl

theorem suffix_append_right {a' a b : Bytes} (h : a' <:+ a) : a' ++ b <:+ a ++ b := by
  obtain ⟨t, rfl⟩ := h
  exact ⟨t, by simp⟩

/-- `ScanBytes` only ever drops bytes from the front of the view -/
theorem scanBytes_viewsuf {σ : Type} {d : Bytes} {e0 : Err} {src : Source} (h : FaultyOver d e0 src)
    (acc : σ → Nat → Option σ) :
    ∀ (fuel : Nat) (empty : Bool) (st : σ) (s : SB), Coh d e0 s →
      view d (scanBytes src acc fuel empty st s).1 <:+ view d s := by
  intro fuel
  induction fuel with
  | zero => intro empty st s c; unfold scanBytes; exact List.suffix_refl _
  | succ fuel ih =>
    intro empty st s c
    unfold scanBytes
    have I := scanInner_spec acc (d.drop s.srcOff) (s.buf.drop s.pos) st
    generalize scanInner acc st (s.buf.drop s.pos) = r at I
    obtain ⟨st1, n, stop⟩ := r
    simp only [] at I
    obtain ⟨hn, _, _⟩ := I
    simp only [List.length_drop] at hn
    have hpl := c.pos_le
    have c1 : Coh d e0 { s with pos := s.pos + n } :=
      ⟨by simp; omega, c.len_le, c.off_le, c.nohang, c.errs⟩
    have e1 : view d ({ s with pos := s.pos + n } : SB) <:+ view d s := by
      simp only [view]
      apply suffix_append_right
      rw [← List.drop_drop]
      exact List.drop_suffix _ _
    simp only []
    have R := refill_spec h _ c1
    generalize refill src { s with pos := s.pos + n } = q at R
    obtain ⟨s2, err⟩ := q
    have e2 : view d s2 <:+ view d s := by rw [R.view_eq]; exact e1
    simp only []
    repeat' split
    all_goals first | exact e1 | exact e2 | exact (ih _ _ _ R.coh).trans e2

/-! ## states on a failing reader -/

/-- a state reached on a reader that fails with `e0`: coherent with the data (the latched error,
    if any, is `e0`), no panic branch taken, `CurrentPos` consistent with the view.  `lat = true`
    records that the reader HAS failed (`scanner.err = e0`). -/
structure GoodF (d : Bytes) (e0 : Err) (lat : Bool) (s : SB) : Prop where
  coh : Coh d e0 s
  nopanic : s.panicked = false
  posok : s.currentPos + (view d s).length = d.length
  /-- the unconsumed bytes are a suffix of the data (for a scanner started at offset 0) -/
  vsuf : view d s <:+ d
  lat : lat = true → s.err = some e0

theorem GoodF.vlen {d : Bytes} {e0 : Err} {lat : Bool} {s : SB} (gs : GoodF d e0 lat s) :
    (view d s).length ≤ d.length := by
  have := gs.posok; omega

theorem GoodF.toLat {d : Bytes} {e0 : Err} {lat : Bool} {s : SB} (gs : GoodF d e0 lat s) (h : s.err = some e0) :
    GoodF d e0 true s := ⟨gs.coh, gs.nopanic, gs.posok, gs.vsuf, fun _ => h⟩

theorem GoodF.unLat {d : Bytes} {e0 : Err} {lat : Bool} {s : SB} (gs : GoodF d e0 true s) :
    GoodF d e0 lat s := ⟨gs.coh, gs.nopanic, gs.posok, gs.vsuf, fun _ => gs.lat rfl⟩

theorem goodF_init (d : Bytes) (e0 : Err) : GoodF d e0 false (SB.init 0) :=
  ⟨coh_init d e0 0, rfl, by rw [view_init]; simp [SB.init, SB.currentPos], by rw [view_init]; exact List.suffix_refl d,
    fun h => by cases h⟩

section
variable {d : Bytes} {e0 : Err} {src : Source} (h : FaultyOver d e0 src) {lat : Bool}
include h

/-- the window never shrinks under `PeekN`, and an error comes with the whole (too short) window -/
theorem peekN_shape (n : Nat) (hn : n ≤ bufSize) (s : SB) (c : Coh d e0 s) :
    (s.buf.drop s.pos).length ≤ ((peekN src n s).1.buf.drop (peekN src n s).1.pos).length ∧
    ((peekN src n s).2.2 ≠ none →
      (peekN src n s).2.1 = (peekN src n s).1.buf.drop (peekN src n s).1.pos ∧ (peekN src n s).2.1.length < n) := by
  unfold peekN
  have hn' : ¬ (n > bufSize) := by omega
  simp only [hn', if_false]
  by_cases hA : s.pos + n > s.buf.length
  · simp only [hA, if_true]
    have R := refill_spec h s c
    generalize refill src s = q at R
    obtain ⟨s1, err⟩ := q
    simp only []
    have hw : (s.buf.drop s.pos).length ≤ (s1.buf.drop s1.pos).length := by
      cases hs : s.err with
      | none =>
        have a := R.keep hs
        have b := R.pos0 hs
        simp only [] at a b
        rw [b, List.drop_zero]
        exact prefix_len a
      | some x =>
        have := R.latched x hs
        simp only [Prod.mk.injEq] at this
        rw [this.1]
        exact Nat.le_refl _
    by_cases hB : s1.pos + n > s1.buf.length
    · simp only [hB, if_true]
      have hpl := R.coh.pos_le
      simp only [] at hpl
      exact ⟨hw, fun _ => ⟨trivial, by rw [List.length_drop]; omega⟩⟩
    · simp only [hB, if_false]
      exact ⟨hw, fun hne => (hne rfl).elim⟩
  · simp only [hA, if_false]
    exact ⟨Nat.le_refl _, fun hne => (hne rfl).elim⟩

/-- `PeekN(n)` on a failing reader -/
theorem peekF (n : Nat) (hn : n ≤ bufSize) (s : SB) (gs : GoodF d e0 lat s) :
    ∃ s1 buf err, peekN src n s = (s1, buf, err) ∧ GoodF d e0 lat s1 ∧ view d s1 = view d s ∧
      (s.buf.drop s.pos).length ≤ (s1.buf.drop s1.pos).length ∧ buf <+: s1.buf.drop s1.pos ∧
      ((err = none ∧ buf = (view d s).take n) ∨
       (err = some e0 ∧ GoodF d e0 true s1 ∧ buf.length < n ∧ buf = s1.buf.drop s1.pos)) := by
  have P := peekN_spec h n hn s gs.coh
  have S := peekN_shape h n hn s gs.coh
  have hp := peekN_panicked src n hn s
  generalize peekN src n s = r at P S hp
  obtain ⟨s1, buf, err⟩ := r
  simp only [] at S hp
  have g1 : GoodF d e0 lat s1 :=
    ⟨P.coh, by rw [hp]; exact gs.nopanic, by rw [P.view_eq, P.pos_eq]; exact gs.posok,
      by rw [P.view_eq]; exact gs.vsuf, fun hl => P.latch e0 (gs.lat hl)⟩
  refine ⟨s1, buf, err, rfl, g1, P.view_eq, S.1, P.window, ?_⟩
  rcases P.out with ⟨a, b⟩ | ⟨a, b⟩
  · exact Or.inl ⟨a, b⟩
  · simp only [] at a b
    have := S.2 (by rw [a]; simp)
    exact Or.inr ⟨a, g1.toLat b, this.2, this.1⟩

omit h in
/-- `s.pos += k` inside the window -/
theorem advF (k : Nat) (s : SB) (gs : GoodF d e0 lat s) (hk : k ≤ (s.buf.drop s.pos).length) :
    GoodF d e0 lat (adv k s) ∧ view d (adv k s) = (view d s).drop k ∧
    (s.buf.drop s.pos).length = ((adv k s).buf.drop (adv k s).pos).length + k := by
  simp only [List.length_drop] at hk
  have hpl := gs.coh.pos_le
  have hv : view d (adv k s) = (view d s).drop k := by
    simp only [view, adv]
    rw [List.drop_append]
    have : k - (s.buf.drop s.pos).length = 0 := by simp; omega
    rw [this]; simp [List.drop_drop, Nat.add_comm]
  have hvl : k ≤ (view d s).length := by simp [view]; omega
  have hcp : (adv k s).currentPos = s.currentPos + k := by simp [adv, SB.currentPos]; omega
  refine ⟨⟨⟨by simp [adv]; omega, gs.coh.len_le, gs.coh.off_le, gs.coh.nohang, gs.coh.errs⟩, gs.nopanic, ?_,
    by rw [hv]; exact (List.drop_suffix k _).trans gs.vsuf, gs.lat⟩, hv, ?_⟩
  · rw [hv, hcp]; have := gs.posok; simp; omega
  · simp [adv]; omega

/-- what a successful `PeekN` allows: advancing over the bytes seen -/
theorem peekAdvF (n : Nat) (hn : n ≤ bufSize) (s : SB) (gs : GoodF d e0 lat s) :
    ∃ s1 buf err, peekN src n s = (s1, buf, err) ∧ GoodF d e0 lat s1 ∧ view d s1 = view d s ∧
      (s.buf.drop s.pos).length ≤ (s1.buf.drop s1.pos).length ∧
      (∀ k, k ≤ buf.length → GoodF d e0 lat (adv k s1) ∧ view d (adv k s1) = (view d s).drop k) ∧
      ((err = none ∧ buf = (view d s).take n) ∨
       (err = some e0 ∧ GoodF d e0 true s1 ∧ buf.length < n ∧ buf = s1.buf.drop s1.pos)) := by
  obtain ⟨s1, buf, err, hp, g1, v1, hw, hwin, hout⟩ := peekF h n hn s gs
  refine ⟨s1, buf, err, hp, g1, v1, hw, fun k hk => ?_, hout⟩
  have := advF k s1 g1 (Nat.le_trans hk (prefix_len hwin))
  exact ⟨this.1, by rw [this.2.1, v1]⟩

/-- `ReadByte` on a failing reader -/
theorem byteF (s : SB) (gs : GoodF d e0 lat s) :
    ((view d s = [] → (readByte src s).2 = .error .eof ∧ GoodF d e0 lat (readByte src s).1) ∧
     (∀ b t, view d s = b :: t → (readByte src s).2 = .ok b ∧ GoodF d e0 lat (readByte src s).1 ∧
        view d (readByte src s).1 = t)) ∨
    ((readByte src s).2 = .error e0 ∧ GoodF d e0 true (readByte src s).1) := by
  obtain ⟨s1, buf, err, hp, g1, v1, _, hadv, hout⟩ := peekAdvF h 1 (by decide) s gs
  unfold readByte
  rw [hp]
  simp only []
  rcases hout with ⟨rfl, rfl⟩ | ⟨rfl, gl, _, _⟩
  · left
    simp only []
    constructor
    · intro hv; rw [hv]; exact ⟨rfl, g1⟩
    · intro b t hv
      have := hadv 1 (by rw [hv]; simp)
      rw [hv] at this ⊢
      simp only [List.take_succ_cons, List.take_zero, List.drop_succ_cons, List.drop_zero] at this ⊢
      exact ⟨trivial, this.1, this.2⟩
  · right
    have : (e0 = Err.eof) = False := by simp [h.e0_ne]
    simp only [this, if_false]
    exact ⟨trivial, gl⟩

/-- `SkipString(pat)` on a failing reader -/
theorem skipstrF (pat : Bytes) (hn : pat.length ≤ bufSize) (s : SB) (gs : GoodF d e0 lat s) :
    ((skipString src pat s).2 = none ∧ (view d s).take pat.length = pat ∧ GoodF d e0 lat (skipString src pat s).1 ∧
      view d (skipString src pat s).1 = (view d s).drop pat.length) ∨
    ((skipString src pat s).2 = some .malformed ∧ (view d s).take pat.length ≠ pat ∧
      GoodF d e0 lat (skipString src pat s).1 ∧ view d (skipString src pat s).1 = view d s) ∨
    ((skipString src pat s).2 = some e0 ∧ GoodF d e0 true (skipString src pat s).1) := by
  obtain ⟨s1, buf, err, hp, g1, v1, _, hadv, hout⟩ := peekAdvF h pat.length hn s gs
  unfold skipString
  rw [hp]
  simp only []
  rcases hout with ⟨rfl, rfl⟩ | ⟨rfl, gl, _, _⟩
  · simp only []
    by_cases hb : (view d s).take pat.length = pat
    · left
      have hb' : ((view d s).take pat.length == pat) = true := by simp [hb]
      simp only [hb', if_true]
      have := hadv pat.length (by rw [hb]; exact Nat.le_refl _)
      exact ⟨trivial, hb, this.1, this.2⟩
    · right; left
      have hb' : ((view d s).take pat.length == pat) = false := by simpa using hb
      simp only [hb', Bool.false_eq_true, if_false]
      exact ⟨trivial, hb, g1, v1⟩
  · right; right
    exact ⟨rfl, gl⟩

variable {sf : Nat} (hsf : d.length + 2 ≤ sf)
include hsf

/-- `ScanBytes` on a failing reader -/
theorem scanF {σ : Type} (acc : σ → Nat → Option σ) (empty : Bool) (st : σ) (s : SB) (gs : GoodF d e0 lat s) :
    GoodF d e0 lat (scanBytes src acc sf empty st s).1 ∧
    ((((scanBytes src acc sf empty st s).2.2 = none ∨ (scanBytes src acc sf empty st s).2.2 = some .eof) ∧
       scanSpec acc st (view d s) = ((scanBytes src acc sf empty st s).2.1, view d (scanBytes src acc sf empty st s).1,
         decide ((scanBytes src acc sf empty st s).2.2 = some .eof))) ∨
     ((scanBytes src acc sf empty st s).2.2 = some e0 ∧ GoodF d e0 true (scanBytes src acc sf empty st s).1)) := by
  obtain ⟨c1, hout⟩ := scanBytes_spec h acc sf empty st s gs.coh (by omega)
  have g1 : GoodF d e0 lat (scanBytes src acc sf empty st s).1 :=
    ⟨c1, by rw [scanBytes_panicked]; exact gs.nopanic,
      by rw [scanBytes_posinv h acc sf empty st s gs.coh]; exact gs.posok,
      (scanBytes_viewsuf h acc sf empty st s gs.coh).trans gs.vsuf,
      fun hl => scanBytes_latch src acc e0 sf empty st s (gs.lat hl)⟩
  refine ⟨g1, ?_⟩
  rcases hout with a | ⟨a, b⟩
  · exact Or.inl a
  · exact Or.inr ⟨a, g1.toLat b⟩

/-- `SkipWhiteSpace` on a failing reader -/
theorem wsF (s : SB) (gs : GoodF d e0 lat s) :
    GoodF d e0 lat (skipWhiteSpace src sf s).1 ∧
    ((((skipWhiteSpace src sf s).2 = none ∨ (skipWhiteSpace src sf s).2 = some .eof) ∧
       skipWS (view d s) = (view d (skipWhiteSpace src sf s).1, decide ((skipWhiteSpace src sf s).2 = some .eof))) ∨
     ((skipWhiteSpace src sf s).2 = some e0 ∧ GoodF d e0 true (skipWhiteSpace src sf s).1)) := by
  have S := scanF h hsf wsAcc true false s gs
  unfold skipWhiteSpace
  generalize scanBytes src wsAcc sf true false s = r at S
  obtain ⟨s', st', e⟩ := r
  simp only [] at S ⊢
  refine ⟨S.1, ?_⟩
  rcases S.2 with ⟨a, b⟩ | b
  · left
    exact ⟨a, by rw [← (scanSpec_wsAcc (view d s)).1, b]⟩
  · exact Or.inr b

end

/-! ## outcomes -/

/-- the fault-free outcome (`lat` is carried along: a latched error stays latched) -/
def RelA {α : Type} (d : Bytes) (e0 : Err) (lat : Bool) (E : SB → Prop) (r : SB × Except Err α)
    (m : Except Err (α × Bytes)) : Prop :=
  match m with
  | .ok (v, rest) => r.2 = .ok v ∧ GoodF d e0 lat r.1 ∧ view d r.1 = rest
  | .error e => r.2 = .error e ∧ GoodF d e0 lat r.1 ∧ E r.1

/-- the reader's error is returned (and latched) -/
def FltB {α : Type} (d : Bytes) (e0 : Err) (r : SB × Except Err α) : Prop :=
  r.2 = .error e0 ∧ GoodF d e0 true r.1

/-- the scanner stands on a byte that is not `>` -/
def NotGtF (d : Bytes) (s : SB) : Prop := ∃ c t, view d s = c :: t ∧ c ≠ 62

/-- fault-free outcome, or the reader's error -/
def RelF {α : Type} (d : Bytes) (e0 : Err) (lat : Bool) (E : SB → Prop) (r : SB × Except Err α)
    (m : Except Err (α × Bytes)) : Prop :=
  RelA d e0 lat E r m ∨ FltB d e0 r

theorem relA_ok {α : Type} {d : Bytes} {e0 : Err} {lat : Bool} {E : SB → Prop} (s : SB) (v : α) (rest : Bytes)
    (gs : GoodF d e0 lat s) (hv : view d s = rest) : RelA d e0 lat E (s, .ok v) (.ok (v, rest)) := ⟨rfl, gs, hv⟩

theorem relA_err {α : Type} {d : Bytes} {e0 : Err} {lat : Bool} {E : SB → Prop} (s : SB) (e : Err)
    (gs : GoodF d e0 lat s) (he : E s) : RelA (α := α) d e0 lat E (s, .error e) (.error e) := ⟨rfl, gs, he⟩

theorem relF_ok {α : Type} {d : Bytes} {e0 : Err} {lat : Bool} {E : SB → Prop} (s : SB) (v : α) (rest : Bytes)
    (gs : GoodF d e0 lat s) (hv : view d s = rest) : RelF d e0 lat E (s, .ok v) (.ok (v, rest)) :=
  Or.inl (relA_ok s v rest gs hv)

theorem relF_err {α : Type} {d : Bytes} {e0 : Err} {lat : Bool} {E : SB → Prop} (s : SB) (e : Err)
    (gs : GoodF d e0 lat s) (he : E s) : RelF (α := α) d e0 lat E (s, .error e) (.error e) :=
  Or.inl (relA_err s e gs he)

/-- the reader's error returned from the state `s` -/
theorem relF_flt {α : Type} {d : Bytes} {e0 : Err} {lat : Bool} {E : SB → Prop} (s : SB)
    (m : Except Err (α × Bytes)) (gl : GoodF d e0 true s) : RelF (α := α) d e0 lat E (s, .error e0) m :=
  Or.inr ⟨rfl, gl⟩

/-- once the error is latched, every outcome leaves it latched -/
theorem relF_goodT {α : Type} {d : Bytes} {e0 : Err} {E : SB → Prop} {r : SB × Except Err α}
    {m : Except Err (α × Bytes)} (hr : RelF d e0 true E r m) : GoodF d e0 true r.1 := by
  rcases hr with a | b
  · unfold RelA at a
    split at a
    · exact a.2.1
    · exact a.2.1
  · exact b.2

theorem relF_weaken {α : Type} {d : Bytes} {e0 : Err} {lat : Bool} {E E' : SB → Prop} {r : SB × Except Err α}
    {m : Except Err (α × Bytes)} (hE : ∀ s, GoodF d e0 lat s → E s → E' s) (hr : RelF d e0 lat E r m) :
    RelF d e0 lat E' r m := by
  rcases hr with a | b
  · left
    unfold RelA at *
    split at a
    · exact a
    · exact ⟨a.1, a.2.1, hE _ a.2.1 a.2.2⟩
  · exact Or.inr b

/-- a statement proved for a latched state holds for it under any `lat` -/
theorem relF_unLat {α : Type} {d : Bytes} {e0 : Err} {lat : Bool} {E : SB → Prop} {r : SB × Except Err α}
    {m : Except Err (α × Bytes)} (hr : RelF d e0 true E r m) : RelF d e0 lat E r m := by
  rcases hr with a | b
  · left
    unfold RelA at *
    split at a
    · exact ⟨a.1, a.2.1.unLat, a.2.2⟩
    · exact ⟨a.1, a.2.1.unLat, a.2.2⟩
  · exact Or.inr b

theorem relF_consB {d : Bytes} {e0 : Err} {lat : Bool} {E : SB → Prop} (x : Nat) {r : SB × Except Err Bytes}
    {m : Except Err (Bytes × Bytes)} (hr : RelF d e0 lat E r m) :
    RelF d e0 lat E (consB x r) (consRes x m) := by
  rcases hr with a | b
  · left
    unfold RelA at *
    cases m with
    | error e => simp only [consRes_error, consB] at a ⊢; rw [a.1]; exact ⟨rfl, a.2⟩
    | ok p =>
      obtain ⟨v, rest⟩ := p
      simp only [consRes_ok, consB] at a ⊢
      rw [a.1]; exact ⟨rfl, a.2⟩
  · right
    unfold FltB consB at *
    simp only []
    rw [b.1]; exact ⟨rfl, b.2⟩

theorem hardErr_ne (e : Err) (he : e ≠ .eof) : hardErr (some e) = some e := by
  cases e <;> first | rfl | exact (he rfl).elim

/-! ## `ReadName` -/

section
variable {d : Bytes} {e0 : Err} {src : Source} (h : FaultyOver d e0 src)
include h

/-- `tryHex` on a state standing on `#`: the fault-free decision, or the reader's error (which
    `tryHex` hands to `ReadName` since the fix of finding ROB-7) -/
theorem tryHexF {lat : Bool} (s : SB) (gs : GoodF d e0 lat s) (rest : Bytes) (hv : view d s = 35 :: rest) :
    (match tryHexSpec rest with
     | some (v, rest') => (tryHexBuf src s).2 = .ok (some v) ∧ GoodF d e0 lat (tryHexBuf src s).1 ∧
        view d (tryHexBuf src s).1 = rest'
     | none => (tryHexBuf src s).2 = .ok none ∧ GoodF d e0 lat (adv 1 (tryHexBuf src s).1) ∧
        view d (adv 1 (tryHexBuf src s).1) = rest) ∨
    ((tryHexBuf src s).2 = .error e0 ∧ GoodF d e0 true (tryHexBuf src s).1) := by
  obtain ⟨s1, buf, err, hp, g1, v1, hw1, hadv, hout⟩ := peekAdvF h 3 (by decide) s gs
  unfold tryHexBuf
  rw [hp]
  rcases hout with ⟨rfl, rfl⟩ | ⟨rfl, gl, hshort, hbuf⟩
  · left
    have h1 := hadv 1 (by rw [hv]; simp)
    rw [hv] at h1
    simp only [List.drop_succ_cons, List.drop_zero] at h1
    rw [hv]
    simp only []
    match rest, hadv with
    | [], _ => simp only [tryHexSpec, List.take_succ_cons, List.take_nil]; exact ⟨trivial, h1⟩
    | [_], _ => simp only [tryHexSpec, List.take_succ_cons, List.take_nil]; exact ⟨trivial, h1⟩
    | hh :: l :: rest', hadv =>
      simp only [tryHexSpec, List.take_succ_cons, List.take_zero]
      cases ha : hexVal hh with
      | none => simp only []; exact ⟨trivial, h1⟩
      | some a =>
        cases hb : hexVal l with
        | none => simp only []; exact ⟨trivial, h1⟩
        | some b =>
          simp only []
          have := hadv 3 (by rw [hv]; simp)
          rw [hv] at this
          exact ⟨trivial, this.1, by simpa using this.2⟩
  · right
    exact ⟨rfl, gl⟩

/-- the loop of `ReadName` on a failing reader (with the fuel `ReadName` gives it) -/
theorem readNameLoopF : ∀ (fuel len : Nat) (lat : Bool) (s : SB), GoodF d e0 lat s → (view d s).length < fuel →
    RelF d e0 lat (NotGtF d) (readNameLoopBuf src fuel len s) (readNameBody fuel len (view d s)) := by
  intro fuel
  induction fuel with
  | zero => intro len lat s gs hf; omega
  | succ fuel ih =>
    intro len lat s gs hf
    obtain ⟨s1, buf, err, hp, g1, v1, _, hwin, hout⟩ := peekF h 1 (by decide) s gs
    have hadvAll : ∀ k, k ≤ buf.length → GoodF d e0 lat (adv k s1) ∧ view d (adv k s1) = (view d s).drop k := by
      intro k hk
      have := advF k s1 g1 (Nat.le_trans hk (prefix_len hwin))
      exact ⟨this.1, by rw [this.2.1, v1]⟩
    unfold readNameLoopBuf
    rw [hp]
    rcases hout with ⟨rfl, rfl⟩ | ⟨rfl, gl, _, _⟩
    rotate_left
    · simp only [hardErr_ne e0 h.e0_ne]
      exact relF_flt s1 _ gl
    simp only [hardErr_none]
    cases hv : view d s with
    | nil =>
      unfold readNameBody
      simp only [List.take_nil]
      exact relF_ok s1 [] _ g1 (by rw [v1, hv])
    | cons c rest =>
      rw [hv] at hwin hadvAll hf
      simp only [List.take_succ_cons, List.take_zero, List.length_cons] at hwin hadvAll hf ⊢
      have hv1 : view d s1 = c :: rest := by rw [v1, hv]
      have hw1 : 1 ≤ (s1.buf.drop s1.pos).length := by have := prefix_len hwin; simpa using this
      have hadv1 := hadvAll 1 (by simp)
      simp only [List.drop_succ_cons, List.drop_zero] at hadv1
      by_cases h3 : c = 35
      · subst h3
        rw [readNameBody_hash]
        have h0 : (35 != 35 && !isRegular 35) = false := by decide +kernel
        simp only [h0, Bool.false_eq_true, if_false]
        by_cases h2 : len ≥ Gen.scanner_maxNameBytes
        · simp only [h2, if_true]
          exact relF_err s1 _ g1 ⟨35, rest, hv1, by decide⟩
        simp only [h2, if_false, beq_self_eq_true, if_true]
        have T := tryHexF h s1 g1 rest hv1
        generalize tryHexBuf src s1 = q at T
        obtain ⟨s2, ov⟩ := q
        rcases T with T | ⟨t1, t2⟩
        · cases hs : tryHexSpec rest with
          | none =>
            rw [hs] at T
            simp only [] at T ⊢
            obtain ⟨t1, t2, t3⟩ := T
            subst t1
            simp only []
            exact relF_consB 35 (by rw [← t3]; exact ih (len + 1) lat _ t2 (by rw [t3]; omega))
          | some p =>
            obtain ⟨v, rest'⟩ := p
            rw [hs] at T
            simp only [] at T ⊢
            obtain ⟨t1, t2, t3⟩ := T
            subst t1
            simp only []
            have hl := tryHexSpec_len rest v rest' hs
            exact relF_consB v (by rw [← t3]; exact ih (len + 1) lat _ t2 (by rw [t3]; omega))
        · simp only [] at t1 t2
          subst t1
          simp only []
          exact relF_flt s2 _ t2
      · unfold readNameBody
        have h3' : (c == 35) = false := by simpa using h3
        by_cases h1 : (c != 35 && !isRegular c) = true
        · simp only [h1, if_true]; exact relF_ok s1 [] _ g1 hv1
        simp only [h1, Bool.false_eq_true, if_false]
        by_cases h2 : len ≥ Gen.scanner_maxNameBytes
        · simp only [h2, if_true]
          exact relF_err s1 _ g1 ⟨c, rest, hv1, reg_ne_62 c h1⟩
        simp only [h2, if_false, h3', Bool.false_eq_true]
        exact relF_consB c (by rw [← hadv1.2]; exact ih (len + 1) lat (adv 1 s1) hadv1.1 (by rw [hadv1.2]; omega))

end

section
variable {d : Bytes} {e0 : Err} {src : Source} (h : FaultyOver d e0 src) {sf : Nat} (hsf : d.length + 2 ≤ sf)
include h hsf

/-- after a failed `ReadName` the scanner still stands where it stood, or on a byte that is not `>` -/
def NameErrF (d : Bytes) (inp : Bytes) (s : SB) : Prop :=
  view d s = inp ∨ ((∃ r, inp = 47 :: r) ∧ ∃ c t, view d s = c :: t ∧ c ≠ 62)

/-- **`ReadName` on a failing reader**: the fault-free outcome or the reader's error -/
theorem readName_fault {lat : Bool} (s : SB) (gs : GoodF d e0 lat s) :
    RelF d e0 lat (NameErrF d (view d s)) (readNameBuf src sf s) (readName (view d s)) := by
  have K := skipstrF h [47] (by decide) s gs
  unfold readNameBuf
  generalize hq : skipString src [47] s = q at K
  obtain ⟨s1, e⟩ := q
  simp only [] at K
  rcases K with ⟨k1, k2, k3, k4⟩ | ⟨k1, k2, k3, k4⟩ | ⟨k1, k2⟩
  · subst k1
    simp only []
    cases hv : view d s with
    | nil => rw [hv] at k2; simp at k2
    | cons c rest =>
      rw [hv] at k2 k4
      simp only [List.length_cons, List.length_nil, Nat.zero_add, List.take_succ_cons, List.take_zero,
        List.cons.injEq, and_true, List.drop_succ_cons, List.drop_zero] at k2 k4
      subst k2
      show RelF d e0 lat _ (readNameLoopBuf src sf 0 s1) (readNameBody (rest.length + 1) 0 rest)
      have hl : rest.length + 1 ≤ sf := by
        have := gs.vlen; rw [hv] at this; simp at this; omega
      rw [readNameBody_fuel (rest.length + 1) sf 0 rest (Nat.le_refl _) hl, ← k4]
      exact relF_weaken (fun s' _ hE => Or.inr ⟨⟨_, rfl⟩, hE⟩) (readNameLoopF h sf 0 lat s1 k3 (by rw [k4]; omega))
  · subst k1
    simp only []
    cases hv : view d s with
    | nil =>
      unfold readName
      exact relF_err s1 _ k3 (Or.inl (by rw [k4, hv]))
    | cons c rest =>
      have hc : c ≠ 47 := by
        intro hc; subst hc; rw [hv] at k2; simp at k2
      rw [readName_other c rest hc]
      exact relF_err s1 _ k3 (Or.inl (by rw [k4, hv]))
  · subst k1
    simp only []
    exact relF_flt s1 _ k2

end

/-! ## `ReadNumber`, `ReadInteger` -/

section
variable {d : Bytes} {e0 : Err} {src : Source} (h : FaultyOver d e0 src) {sf : Nat} (hsf : d.length + 2 ≤ sf)
include h hsf

/-- **`ReadNumber` on a failing reader**: the fault-free outcome or the reader's error -/
theorem readNumber_fault {lat : Bool} (s : SB) (gs : GoodF d e0 lat s) :
    RelF d e0 lat (fun _ => True) (readNumberBuf src sf s) (readNumber (view d s)) := by
  obtain ⟨g1, hout⟩ := scanF h hsf (numAcc true) true ⟨false, true, [], false⟩ s gs
  have N := numAcc_scan true (view d s) ⟨false, true, [], false⟩ (by simp)
  unfold NumScanOk at N
  unfold readNumberBuf readNumber
  generalize scanBytes src (numAcc true) sf true ⟨false, true, [], false⟩ s = r at hout g1
  obtain ⟨s1, st, e⟩ := r
  simp only [] at hout g1 ⊢
  rcases hout with ⟨h2, h1⟩ | ⟨a, gl⟩
  rotate_left
  · subst a
    simp only [hardErr_ne e0 h.e0_ne]
    exact relF_flt s1 _ gl
  rw [h1] at N
  simp only [] at N
  rw [hardErr_eofOrNone e h2]
  generalize scanNumTok true false true (view d s) = q at N
  obtain ⟨tok, rest⟩ := q
  simp only [List.reverse_nil, List.nil_append, Bool.false_or] at N ⊢
  obtain ⟨n1, n2, n3, n4⟩ := N
  by_cases hov : tok.length > Gen.scanner_maxNameBytes
  · have : st.overflow = true := by rw [n3]; simp [hov]
    simp only [this, hov, if_true]
    exact relF_err s1 _ g1 trivial
  · have : st.overflow = false := by rw [n3]; simp [hov]
    simp only [this, hov, Bool.false_eq_true, if_false]
    have ht : st.tok.reverse = tok := by rw [n2]; exact List.take_of_length_le (by omega)
    rw [ht, n4]
    cases hp : (if tok.contains 46 = true then none else parseInt64 tok) with
    | some i => simp only []; exact relF_ok s1 _ _ g1 n1
    | none =>
      simp only []
      split
      · exact relF_ok s1 _ _ g1 n1
      · exact relF_err s1 _ g1 trivial

/-- **`ReadInteger` on a failing reader** (input not ending in the leading white space, as in
    `readInteger_refines`): the fault-free outcome or the reader's error -/
theorem readInteger_fault {lat : Bool} (s : SB) (gs : GoodF d e0 lat s) (hws : (skipWS (view d s)).2 = false) :
    RelF d e0 lat (fun _ => True) (readIntegerBuf src sf s) (readInteger (view d s)) := by
  obtain ⟨gw, wout⟩ := wsF h hsf s gs
  unfold readIntegerBuf readInteger
  generalize skipWhiteSpace src sf s = r at wout gw
  obtain ⟨s1, e1⟩ := r
  simp only [] at wout gw ⊢
  rcases wout with ⟨w2, w1⟩ | ⟨a, gl⟩
  rotate_left
  · subst a
    simp only []
    exact relF_flt s1 _ gl
  rw [w1] at hws ⊢
  simp only [] at hws ⊢
  have he1 : e1 = none := by
    rcases w2 with h' | h'
    · exact h'
    · subst h'; simp at hws
  subst he1
  simp only []
  obtain ⟨g1, hout⟩ := scanF h hsf (numAcc false) true ⟨false, true, [], false⟩ s1 gw
  have N := numAcc_scan false (view d s1) ⟨false, true, [], false⟩ (by simp)
  unfold NumScanOk at N
  generalize scanBytes src (numAcc false) sf true ⟨false, true, [], false⟩ s1 = r at hout g1
  obtain ⟨s2, st, e⟩ := r
  simp only [] at hout g1 ⊢
  rcases hout with ⟨h2, h1⟩ | ⟨a, gl⟩
  rotate_left
  · subst a
    have hne := h.e0_ne
    cases e0 <;> first | exact (hne rfl).elim | (simp only []; exact relF_flt s2 _ gl)
  rw [h1] at N
  simp only [] at N
  generalize scanNumTok false false true (view d s1) = q at N
  obtain ⟨tok, rest⟩ := q
  simp only [List.reverse_nil, List.nil_append, Bool.false_or] at N ⊢
  obtain ⟨n1, n2, n3, n4⟩ := N
  rcases h2 with h' | h' <;> subst h' <;> simp only []
  all_goals
    by_cases hov : tok.length > Gen.scanner_maxNameBytes
    · have : st.overflow = true := by rw [n3]; simp [hov]
      simp only [this, hov, if_true]
      exact relF_err s2 _ g1 trivial
    · have : st.overflow = false := by rw [n3]; simp [hov]
      simp only [this, hov, Bool.false_eq_true, if_false]
      have ht : st.tok.reverse = tok := by rw [n2]; exact List.take_of_length_le (by omega)
      rw [ht]
      cases hp : parseInt64 tok with
      | some i => simp only []; exact relF_ok s2 _ _ g1 n1
      | none => simp only []; exact relF_err s2 _ g1 trivial

end

/-! ## `ReadString` -/

section
variable {d : Bytes} {e0 : Err} {src : Source} (h : FaultyOver d e0 src)
include h

/-- the octal escape loop on a failing reader -/
theorem readOctTailF : ∀ (k oct : Nat) (lat : Bool) (s : SB), GoodF d e0 lat s →
    ((readOctTailBuf src oct k s).2 = .ok (readOctTail oct k (view d s)).1 ∧
      GoodF d e0 lat (readOctTailBuf src oct k s).1 ∧
      view d (readOctTailBuf src oct k s).1 = (readOctTail oct k (view d s)).2) ∨
    ((readOctTailBuf src oct k s).2 = .error e0 ∧ GoodF d e0 true (readOctTailBuf src oct k s).1) := by
  intro k
  induction k with
  | zero => intro oct lat s gs; unfold readOctTailBuf readOctTail; exact Or.inl ⟨rfl, gs, rfl⟩
  | succ k ih =>
    intro oct lat s gs
    obtain ⟨s1, buf, err, hp, g1, v1, _, hadv, hout⟩ := peekAdvF h 1 (by decide) s gs
    unfold readOctTailBuf
    rw [hp]
    rcases hout with ⟨rfl, rfl⟩ | ⟨rfl, gl, _, _⟩
    rotate_left
    · simp only [hardErr_ne e0 h.e0_ne]
      exact Or.inr ⟨trivial, gl⟩
    simp only [hardErr_none]
    cases hv : view d s with
    | nil =>
      unfold readOctTail
      simp only [List.take_nil]
      exact Or.inl ⟨by trivial, g1, by rw [v1, hv]⟩
    | cons c cs =>
      unfold readOctTail
      simp only [List.take_succ_cons, List.take_zero]
      by_cases ho : isOct c = true
      · simp only [ho, if_true]
        have := hadv 1 (by rw [hv]; simp)
        rw [hv] at this
        simp only [List.drop_succ_cons, List.drop_zero] at this
        have I := ih ((oct * 8 + (c - 48)) % 256) lat (adv 1 s1) this.1
        rw [this.2] at I
        exact I
      · simp only [ho, Bool.false_eq_true, if_false]
        exact Or.inl ⟨by trivial, g1, by rw [v1, hv]⟩

/-- the loop of `ReadString` on a failing reader -/
theorem readStringLoopF : ∀ (fuel level : Nat) (ign : Bool) (len : Nat) (lat : Bool) (s : SB), GoodF d e0 lat s →
    RelF d e0 lat (fun _ => True) (readStringLoopBuf src fuel level ign len s)
      (readStringBody fuel level ign len (view d s)) := by
  intro fuel
  induction fuel with
  | zero =>
    intro level ign len lat s gs
    unfold readStringLoopBuf readStringBody
    exact relF_err s _ gs trivial
  | succ fuel ih =>
    intro level ign len lat s gs
    have B := byteF h s gs
    unfold readStringLoopBuf readStringBody
    by_cases hlen : len > Gen.scanner_maxStringBytes
    · simp only [hlen, if_true]; exact relF_err s _ gs trivial
    simp only [hlen, if_false]
    rcases B with ⟨hnil, hcons⟩ | ⟨b1, b2⟩
    rotate_left
    · generalize readByte src s = q at b1 b2
      obtain ⟨s1, r⟩ := q
      simp only [] at b1 b2
      subst b1
      exact relF_flt s1 _ b2
    cases hv : view d s with
    | nil =>
      obtain ⟨a1, a2⟩ := hnil hv
      generalize readByte src s = q at a1 a2
      obtain ⟨s1, r⟩ := q
      simp only [] at a1 a2
      subst a1
      simp only []
      exact relF_err s1 _ a2 trivial
    | cons b rest =>
      obtain ⟨hb, g1, v1⟩ := hcons b rest hv
      generalize readByte src s = q at hb g1 v1
      obtain ⟨s1, r⟩ := q
      simp only [] at hb g1 v1
      subst hb
      simp only []
      have rec1 : ∀ lvl ig ln, RelF d e0 lat (fun _ => True) (readStringLoopBuf src fuel lvl ig ln s1)
          (readStringBody fuel lvl ig ln rest) := by
        intro lvl ig ln; rw [← v1]; exact ih lvl ig ln lat s1 g1
      by_cases c1 : (ign && b == 10) = true
      · simp only [c1, if_true]; exact rec1 _ _ _
      simp only [c1, Bool.false_eq_true, if_false]
      by_cases c2 : (b == 40) = true
      · simp only [c2, if_true]; exact relF_consB b (rec1 _ _ _)
      simp only [c2, Bool.false_eq_true, if_false]
      by_cases c3 : (b == 41) = true
      · simp only [c3, if_true]
        by_cases c4 : (level == 1) = true
        · simp only [c4, if_true]; exact relF_ok s1 _ _ g1 v1
        · simp only [c4, Bool.false_eq_true, if_false]; exact relF_consB b (rec1 _ _ _)
      simp only [c3, Bool.false_eq_true, if_false]
      by_cases c5 : (b == 92) = true
      · simp only [c5, if_true]
        have B2 := byteF h s1 g1
        rcases B2 with ⟨hnil2, hcons2⟩ | ⟨b1, b2⟩
        rotate_left
        · generalize readByte src s1 = q at b1 b2
          obtain ⟨s2, r⟩ := q
          simp only [] at b1 b2
          subst b1
          exact relF_flt s2 _ b2
        rw [v1] at hnil2 hcons2
        cases rest with
        | nil =>
          obtain ⟨a1, a2⟩ := hnil2 rfl
          generalize readByte src s1 = q at a1 a2
          obtain ⟨s2, r⟩ := q
          simp only [] at a1 a2
          subst a1
          simp only []
          exact relF_err s2 _ a2 trivial
        | cons esc rest' =>
          obtain ⟨hb2, g2, v2⟩ := hcons2 esc rest' rfl
          generalize readByte src s1 = q at hb2 g2 v2
          obtain ⟨s2, r⟩ := q
          simp only [] at hb2 g2 v2
          subst hb2
          simp only []
          have rec2 : ∀ lvl ig ln, RelF d e0 lat (fun _ => True) (readStringLoopBuf src fuel lvl ig ln s2)
              (readStringBody fuel lvl ig ln rest') := by
            intro lvl ig ln; rw [← v2]; exact ih lvl ig ln lat s2 g2
          by_cases e1 : (esc == 110) = true
          · simp only [e1, if_true]; exact relF_consB _ (rec2 _ _ _)
          simp only [e1, Bool.false_eq_true, if_false]
          by_cases e2 : (esc == 114) = true
          · simp only [e2, if_true]; exact relF_consB _ (rec2 _ _ _)
          simp only [e2, Bool.false_eq_true, if_false]
          by_cases e3 : (esc == 116) = true
          · simp only [e3, if_true]; exact relF_consB _ (rec2 _ _ _)
          simp only [e3, Bool.false_eq_true, if_false]
          by_cases e4 : (esc == 98) = true
          · simp only [e4, if_true]; exact relF_consB _ (rec2 _ _ _)
          simp only [e4, Bool.false_eq_true, if_false]
          by_cases e5 : (esc == 102) = true
          · simp only [e5, if_true]; exact relF_consB _ (rec2 _ _ _)
          simp only [e5, Bool.false_eq_true, if_false]
          by_cases e6 : (esc == 10) = true
          · simp only [e6, if_true]; exact rec2 _ _ _
          simp only [e6, Bool.false_eq_true, if_false]
          by_cases e7 : (esc == 13) = true
          · simp only [e7, if_true]; exact rec2 _ _ _
          simp only [e7, Bool.false_eq_true, if_false]
          by_cases e8 : isOct esc = true
          · simp only [e8, if_true]
            have O := readOctTailF h 2 (esc - 48) lat s2 g2
            rw [v2] at O
            generalize readOctTailBuf src (esc - 48) 2 s2 = q at O
            obtain ⟨s3, r3⟩ := q
            simp only [] at O
            rcases O with ⟨o1, o2, o3⟩ | ⟨o1, o2⟩
            · subst o1
              generalize readOctTail (esc - 48) 2 rest' = p at o3 ⊢
              obtain ⟨v, r2⟩ := p
              simp only [] at o3 ⊢
              exact relF_consB v (by rw [← o3]; exact ih _ _ _ lat s3 o2)
            · subst o1
              simp only []
              exact relF_flt s3 _ o2
          · simp only [e8, Bool.false_eq_true, if_false]; exact relF_consB _ (rec2 _ _ _)
      simp only [c5, Bool.false_eq_true, if_false]
      by_cases c6 : (b == 13) = true
      · simp only [c6, if_true]; exact relF_consB _ (rec1 _ _ _)
      · simp only [c6, Bool.false_eq_true, if_false]; exact relF_consB _ (rec1 _ _ _)

end

section
variable {d : Bytes} {e0 : Err} {src : Source} (h : FaultyOver d e0 src) {sf : Nat} (hsf : d.length + 2 ≤ sf)
include h hsf

/-- **`ReadString` on a failing reader**: the fault-free outcome or the reader's error -/
theorem readString_fault {lat : Bool} (s : SB) (gs : GoodF d e0 lat s) :
    RelF d e0 lat (fun _ => True) (readStringBuf src sf s) (readString (view d s)) := by
  unfold readStringBuf readString
  have hl : (view d s).length + 1 ≤ sf := by have := gs.vlen; omega
  rw [readStringBody_fuel ((view d s).length + 1) sf 1 false 0 (view d s) (Nat.le_refl _) hl]
  exact readStringLoopF h sf 1 false 0 lat s gs

/-- **`ReadHexString` on a failing reader**: the fault-free outcome or the reader's error -/
theorem readHexString_fault {lat : Bool} (s : SB) (gs : GoodF d e0 lat s) :
    RelF d e0 lat (fun _ => True) (readHexStringBuf src sf s) (readHexString (view d s)) := by
  obtain ⟨g1, hout⟩ := scanF h hsf hexAcc true ⟨none, []⟩ s gs
  have H := hexAcc_scan (view d s) ⟨none, []⟩
  simp only [List.reverse_nil, List.length_nil, appRes_nil] at H
  unfold readHexStringBuf readHexString
  rw [H]
  generalize scanBytes src hexAcc sf true ⟨none, []⟩ s = r at hout g1
  obtain ⟨s1, st, e⟩ := r
  simp only [] at hout g1 ⊢
  rcases hout with ⟨h2, h1⟩ | ⟨a, gl⟩
  rotate_left
  · subst a
    simp only []
    exact relF_flt s1 _ gl
  rw [h1]
  simp only []
  rcases h2 with he | he <;> subst he
  · simp only [decide_false, Bool.false_eq_true, if_false]   -- `ScanBytes` stopped
    unfold hexFinish
    have tail : ∀ res : Bytes,
        RelF d e0 lat (fun _ => True) (match skipString src [62] s1 with
                | (s2, e2) => match e2 with
                  | some e => (s2, Except.error e)
                  | none => (s2, Except.ok res.reverse))
              (match view d s1 with
                | 62 :: cs => Except.ok (res.reverse, cs)
                | _ => Except.error Err.malformed) := by
      intro res
      have K := skipstrF h [62] (by decide) s1 g1
      generalize skipString src [62] s1 = q at K
      obtain ⟨s2, e2⟩ := q
      simp only [] at K
      rcases K with ⟨k1, k2, k3, k4⟩ | ⟨k1, k2, k3, k4⟩ | ⟨k1, k2⟩
      · subst k1
        cases hv : view d s1 with
        | nil => rw [hv] at k2; simp at k2
        | cons c cs =>
          rw [hv] at k2 k4
          simp only [List.length_cons, List.length_nil, Nat.zero_add, List.take_succ_cons, List.take_zero,
            List.cons.injEq, and_true, List.drop_succ_cons, List.drop_zero] at k2 k4
          subst k2
          exact relF_ok s2 _ _ k3 k4
      · subst k1
        simp only []
        split
        · rename_i cs heq
          rw [heq] at k2
          simp at k2
        · exact relF_err s2 _ k3 trivial
      · subst k1
        simp only []
        exact relF_flt s2 _ k2
    cases hp : st.pending with
    | none => simp only []; exact tail st.res
    | some hh =>
      simp only []
      by_cases hl : st.res.length ≥ Gen.scanner_maxStringBytes
      · simp only [hl, if_true]; exact relF_err s1 _ g1 trivial
      · simp only [hl, if_false]; exact tail (16 * hh :: st.res)
  · simp only [decide_true, if_true]
    exact relF_err s1 _ g1 trivial

end

end PdfVerif.C19robtok

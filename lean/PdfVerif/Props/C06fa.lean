import PdfVerif.Model.FAAsciiHex
import PdfVerif.Model.FAAscii85
import PdfVerif.Model.FARunLength
import PdfVerif.Model.FALZW
/-!
# C06 (part A) — decode(encode x) = x for the byte codecs
-/
namespace PdfVerif.C06fa
open PdfVerif PdfVerif.FA

/-! ## ASCIIHex -/
section AsciiHex
open AsciiHex

/-- per-byte fact over the generated alphabet, digit ranges, shift and mask: the two digits
    written for a byte are hex digits whose values recombine to the byte -/
theorem ahex_digits_val : ∀ b, b < 256 →
    hexVal (alpha (b / 2 ^ Gen.ahex_writer_Write_shift)) = some (b / 16) ∧
    hexVal (alpha (b % (Gen.ahex_writer_Write_mask + 1))) = some (b % 16) ∧
    (b / 16) * 2 ^ Gen.ahex_reader_Read_shift + b % 16 = b := by decide +kernel

/-- the reader, in any state without a pending nibble, turns the two digits of `b` into `b` -/
theorem ahex_dec_digits (b : Nat) (hb : b < 256) (rest : Bytes) :
    dec none (digits b ++ rest) = DecRes.pre [b] (dec none rest) := by
  obtain ⟨h1, h2, h3⟩ := ahex_digits_val b hb
  simp [digits, dec, h1, h2, h3]

theorem ahex_nl_ws : isWs Gen.ahex_writer_Write_nl = true ∧ isWs Gen.ahex_writer_Close_closeNl = true ∧
    hexVal Gen.ahex_writer_Write_nl = none ∧ hexVal Gen.ahex_writer_Close_closeNl = none ∧
    hexVal Gen.ahex_reader_Read_gt = none ∧ isWs Gen.ahex_reader_Read_gt = false ∧
    Gen.ahex_writer_Close_gt = Gen.ahex_reader_Read_gt := by decide +kernel

/-- line buffer invariant: `buf` holds complete digit pairs that decode to `ys` -/
def AhexBufOK (buf ys : Bytes) : Prop := ∀ rest, dec none (buf ++ rest) = DecRes.pre ys (dec none rest)

theorem ahex_run_rt (xs : Bytes) (hx : AllBytes xs) :
    ∀ buf ys, AhexBufOK buf ys → dec none (run buf xs) = (ys ++ xs, none) := by
  obtain ⟨w1, w2, w3, w4, w5, w6, w7⟩ := ahex_nl_ws
  induction xs with
  | nil =>
    intro buf ys h
    simp only [run, close]
    split
    · have := h [Gen.ahex_writer_Close_closeNl, Gen.ahex_writer_Close_gt]
      simp only [List.append_assoc, List.cons_append, List.nil_append] at this ⊢
      rw [this]; simp [dec, w2, w4, w5, w6, w7]
    · rw [h]; simp [dec, w5, w6, w7]
  | cons b bs ih =>
    intro buf ys h
    have hb : b < 256 := by simp at hx; exact hx.1
    have hbs : AllBytes bs := by simp at hx; exact hx.2
    have hd : AhexBufOK (digits b) [b] := fun rest => ahex_dec_digits b hb rest
    simp only [run, step]
    split
    · split
      · simp only [List.append_assoc, List.cons_append, List.nil_append]
        rw [h]
        simp only [dec, w1, w3, if_true]
        rw [ih hbs _ _ hd]; simp
      · simp only [List.nil_append]
        -- empty buffer: AhexBufOK [] ys forces nothing about ys, but buf = [] here
        have hbuf : buf = [] := by
          cases buf with
          | nil => rfl
          | cons _ _ => simp at *
        subst hbuf
        have h0 := h (run (digits b) bs)
        simp only [List.nil_append] at h0
        rw [ih hbs _ _ hd] at h0
        rw [ih hbs _ _ hd]
        simp [DecRes.pre] at h0
        simp [h0]
    · simp only [List.nil_append]
      have := ih hbs (buf ++ digits b) (ys ++ [b]) (by
        intro rest
        rw [List.append_assoc, h, hd]; simp)
      simpa using this

/-- **ASCIIHex round trip**: for every byte string, the reader applied to everything the
    writer hands to the underlying stream returns the input and a clean end of data. -/
theorem asciihex_rt (x : Bytes) (hx : AllBytes x) : decode (encode x) = (x, none) := by
  have := ahex_run_rt x hx [] [] (by intro rest; simp)
  simpa [decode, encode] using this

example : decode (encode [0, 1, 254, 255, 16, 32]) = ([0, 1, 254, 255, 16, 32], none) := by decide +kernel
-- a line break is really produced (41 bytes > one line of 39) and read over
example : (encode (List.replicate 41 171)).contains 10 = true ∧
    decode (encode (List.replicate 41 171)) = (List.replicate 41 171, none) := by decide +kernel

end AsciiHex

/-! ## ASCII85 -/
section Ascii85
open Ascii85

attribute [local simp] Gen.a85_ascii85Reader_Read_gt Gen.a85_ascii85Reader_Read_bang
  Gen.a85_ascii85Reader_Read_span Gen.a85_ascii85Reader_Read_base Gen.a85_ascii85Reader_Read_z
  Gen.a85_ascii85Reader_Read_group Gen.a85_ascii85Reader_Read_tilde Gen.a85_ascii85Reader_Read_pad
  Gen.a85_ascii85Writer_Close_tilde Gen.a85_ascii85Writer_Close_gt Gen.a85_ascii85Writer_Write_byteBits
  Gen.a85_ascii85Writer_Write_groupBytes Gen.a85_ascii85Writer_Write_reserve Gen.a85_ascii85Writer_Write_nl
  Gen.a85_ascii85Writer_Write_z Gen.a85_ascii85Writer_Write_base Gen.a85_ascii85Writer_Write_bang

/-- one digit that does not complete a group -/
theorem a85_dec_digit (v k d : Nat) (rest : Bytes) (hd : d < 85) (hk : k + 1 ≠ 5) :
    dec v k ((d + 33) :: rest) = dec ((v * 85 + d) % u32) (k + 1) rest := by
  have h1 : 33 ≤ d + 33 ∧ d + 33 < 33 + 85 := by omega
  have hk' : ¬ k = 4 := by omega
  simp [dec, h1, hk']

/-- the fifth digit of a group -/
theorem a85_dec_digit_last (v d : Nat) (rest : Bytes) (hd : d < 85) :
    dec v 4 ((d + 33) :: rest) = DecRes.pre (bytes4 ((v * 85 + d) % u32)) (dec 0 0 rest) := by
  have h1 : 33 ≤ d + 33 ∧ d + 33 < 33 + 85 := by omega
  simp [dec, h1]

/-- five digits written for `v < 2^32` are read back as the four bytes of `v` -/
theorem a85_dec_digits5 (v : Nat) (hv : v < 2 ^ 32) (rest : Bytes) :
    dec 0 0 (digits5 v ++ rest) = DecRes.pre (bytes4 v) (dec 0 0 rest) := by
  simp only [digits5, base, bang, Gen.a85_ascii85Writer_Write_base, Gen.a85_ascii85Writer_Write_bang,
    List.cons_append, List.nil_append]
  rw [a85_dec_digit _ _ _ _ (Nat.mod_lt _ (by decide)) (by decide),
    a85_dec_digit _ _ _ _ (Nat.mod_lt _ (by decide)) (by decide),
    a85_dec_digit _ _ _ _ (Nat.mod_lt _ (by decide)) (by decide),
    a85_dec_digit _ _ _ _ (Nat.mod_lt _ (by decide)) (by decide),
    a85_dec_digit_last _ _ _ (Nat.mod_lt _ (by decide))]
  have step : ∀ q, q < 2 ^ 32 → ((q / 85) * 85 + q % 85) % u32 = q := by
    intro q hq; simp only [u32]; omega
  have s0 : (0 * 85 + v / 85 / 85 / 85 / 85 % 85) % u32 = v / 85 / 85 / 85 / 85 := by
    simp only [u32]; omega
  rw [s0, step _ (by omega), step _ (by omega), step _ (by omega), step _ hv]

theorem a85_dec_z (rest : Bytes) : dec 0 0 (Gen.a85_ascii85Writer_Write_z :: rest) =
    DecRes.pre [0, 0, 0, 0] (dec 0 0 rest) := by
  simp [dec, bytes4]

theorem a85_dec_nl (v k : Nat) (rest : Bytes) : dec v k (Gen.a85_ascii85Writer_Write_nl :: rest) = dec v k rest := by
  have : isSpace 10 = true := by decide
  simp [dec, this]


/-- the end marker after a partial group of `k ≥ 2` digits -/
theorem a85_dec_tilde (v k : Nat) (hk : 2 ≤ k) (rest : Bytes) :
    dec v k (Gen.a85_ascii85Writer_Close_tilde :: Gen.a85_ascii85Writer_Close_gt :: rest) =
      ((bytes4 (padV (5 - k) v)).take (k - 1), none) := by
  have h1 : ¬ k = 0 := by omega
  have h2 : ¬ k = 1 := by omega
  have h3 : isSpace 126 = false := by decide
  simp [dec, decEnd, h1, h2, h3]

theorem a85_dec_tilde0 (rest : Bytes) :
    dec 0 0 (Gen.a85_ascii85Writer_Close_tilde :: Gen.a85_ascii85Writer_Close_gt :: rest) = ([], none) := by
  have h3 : isSpace 126 = false := by decide
  simp [dec, decEnd, h3]

/-- the bytes held in the accumulator: `k` bytes, most significant first -/
def a85AccBytes : Nat → Nat → Bytes
  | 0, _ => []
  | 1, v => [v]
  | 2, v => [v / 256, v % 256]
  | 3, v => [v / 65536, v / 256 % 256, v % 256]
  | _, _ => []

/-- arithmetic core of the partial-group case (`q` = value of the digits that were written):
    padding the missing digits with 84 stays below 2^32 and does not reach the bytes kept -/
theorem a85_pad3 (v q : Nat) (hv : v < 256) (h1 : q * 614125 ≤ v * 16777216) (h2 : v * 16777216 < q * 614125 + 614125) :
    (((q * 85 + 84) % u32 * 85 + 84) % u32 * 85 + 84) % u32 / 16777216 % 256 = v := by
  have hq : q ≤ 6966 := by omega
  have m1 : (q * 85 + 84) % u32 = q * 85 + 84 := Nat.mod_eq_of_lt (by simp only [u32]; omega)
  have m2 : ((q * 85 + 84) * 85 + 84) % u32 = (q * 85 + 84) * 85 + 84 := Nat.mod_eq_of_lt (by simp only [u32]; omega)
  have m3 : (((q * 85 + 84) * 85 + 84) * 85 + 84) % u32 = ((q * 85 + 84) * 85 + 84) * 85 + 84 :=
    Nat.mod_eq_of_lt (by simp only [u32]; omega)
  rw [m1, m2, m3]
  have hd : (((q * 85 + 84) * 85 + 84) * 85 + 84) / 16777216 = v := by omega
  rw [hd]; omega

theorem a85_pad2 (v q : Nat) (hv : v < 65536) (h1 : q * 7225 ≤ v * 65536) (h2 : v * 65536 < q * 7225 + 7225) :
    ((q * 85 + 84) % u32 * 85 + 84) % u32 / 16777216 % 256 = v / 256 ∧
    ((q * 85 + 84) % u32 * 85 + 84) % u32 / 65536 % 256 = v % 256 := by
  have hq : q ≤ 594451 := by omega
  have m1 : (q * 85 + 84) % u32 = q * 85 + 84 := Nat.mod_eq_of_lt (by simp only [u32]; omega)
  have m2 : ((q * 85 + 84) * 85 + 84) % u32 = (q * 85 + 84) * 85 + 84 := Nat.mod_eq_of_lt (by simp only [u32]; omega)
  rw [m1, m2]
  have hd : ((q * 85 + 84) * 85 + 84) / 65536 = v := by omega
  have hd' : ((q * 85 + 84) * 85 + 84) / 16777216 = v / 256 := by
    rw [show (16777216:Nat) = 65536 * 256 from rfl, ← Nat.div_div_eq_div_mul, hd]
  rw [hd, hd']; omega

theorem a85_pad1 (v q : Nat) (hv : v < 16777216) (h1 : q * 85 ≤ v * 256) (h2 : v * 256 < q * 85 + 85) :
    (q * 85 + 84) % u32 / 16777216 % 256 = v / 65536 ∧
    (q * 85 + 84) % u32 / 65536 % 256 = v / 256 % 256 ∧
    (q * 85 + 84) % u32 / 256 % 256 = v % 256 := by
  have hq : q ≤ 50529027 := by omega
  have m1 : (q * 85 + 84) % u32 = q * 85 + 84 := Nat.mod_eq_of_lt (by simp only [u32]; omega)
  rw [m1]
  have hd : (q * 85 + 84) / 256 = v := by omega
  have hd' : (q * 85 + 84) / 65536 = v / 256 := by
    rw [show (65536:Nat) = 256 * 256 from rfl, ← Nat.div_div_eq_div_mul, hd]
  have hd'' : (q * 85 + 84) / 16777216 = v / 65536 := by
    rw [show (16777216:Nat) = 256 * 65536 from rfl, ← Nat.div_div_eq_div_mul, hd]
  rw [hd, hd', hd'']; omega

theorem a85_step (q : Nat) (hq : q < 2 ^ 32) : ((q / 85) * 85 + q % 85) % u32 = q := by
  simp only [u32]; omega

theorem a85_step0 (q : Nat) (hq : q < 85) : (0 * 85 + q % 85) % u32 = q := by
  simp only [u32]; omega

/-- `Close` with one pending byte: two digits of `v·2^24`, then `~>` -/
theorem a85_dec_tail1 (v : Nat) (hv : v < 256) :
    dec 0 0 ((digits5 (v * 16777216)).take 2 ++ [126, 62]) = ([v], none) := by
  generalize hV : v * 16777216 = V
  have hVlt : V < 2 ^ 32 := by omega
  simp only [digits5, base, bang, Gen.a85_ascii85Writer_Write_base, Gen.a85_ascii85Writer_Write_bang,
    List.take, List.cons_append, List.nil_append]
  rw [a85_dec_digit _ _ _ _ (Nat.mod_lt _ (by decide)) (by decide),
    a85_dec_digit _ _ _ _ (Nat.mod_lt _ (by decide)) (by decide),
    a85_step0 _ (by omega), a85_step _ (by omega)]
  have := a85_dec_tilde (V / 85 / 85 / 85) 2 (by decide) []
  simp only [Gen.a85_ascii85Writer_Close_tilde, Gen.a85_ascii85Writer_Close_gt] at this
  rw [this]
  simp only [padV, bytes4, Gen.a85_ascii85Reader_Read_base, Gen.a85_ascii85Reader_Read_pad, List.take,
    Nat.reducePow, Nat.reduceSub]
  rw [a85_pad3 v (V / 85 / 85 / 85) hv (by omega) (by omega)]

/-- two pending bytes: three digits of `v·2^16`, then `~>` -/
theorem a85_dec_tail2 (v : Nat) (hv : v < 65536) :
    dec 0 0 ((digits5 (v * 65536)).take 3 ++ [126, 62]) = ([v / 256, v % 256], none) := by
  generalize hV : v * 65536 = V
  have hVlt : V < 2 ^ 32 := by omega
  simp only [digits5, base, bang, Gen.a85_ascii85Writer_Write_base, Gen.a85_ascii85Writer_Write_bang,
    List.take, List.cons_append, List.nil_append]
  rw [a85_dec_digit _ _ _ _ (Nat.mod_lt _ (by decide)) (by decide),
    a85_dec_digit _ _ _ _ (Nat.mod_lt _ (by decide)) (by decide),
    a85_dec_digit _ _ _ _ (Nat.mod_lt _ (by decide)) (by decide),
    a85_step0 _ (by omega), a85_step _ (by omega), a85_step _ (by omega)]
  have := a85_dec_tilde (V / 85 / 85) 3 (by decide) []
  simp only [Gen.a85_ascii85Writer_Close_tilde, Gen.a85_ascii85Writer_Close_gt] at this
  rw [this]
  simp only [padV, bytes4, Gen.a85_ascii85Reader_Read_base, Gen.a85_ascii85Reader_Read_pad, List.take,
    Nat.reducePow, Nat.reduceSub]
  obtain ⟨p1, p2⟩ := a85_pad2 v (V / 85 / 85) hv (by omega) (by omega)
  rw [p1, p2]

/-- three pending bytes: four digits of `v·2^8`, then `~>` -/
theorem a85_dec_tail3 (v : Nat) (hv : v < 16777216) :
    dec 0 0 ((digits5 (v * 256)).take 4 ++ [126, 62]) =
      ([v / 65536, v / 256 % 256, v % 256], none) := by
  generalize hV : v * 256 = V
  have hVlt : V < 2 ^ 32 := by omega
  simp only [digits5, base, bang, Gen.a85_ascii85Writer_Write_base, Gen.a85_ascii85Writer_Write_bang,
    List.take, List.cons_append, List.nil_append]
  rw [a85_dec_digit _ _ _ _ (Nat.mod_lt _ (by decide)) (by decide),
    a85_dec_digit _ _ _ _ (Nat.mod_lt _ (by decide)) (by decide),
    a85_dec_digit _ _ _ _ (Nat.mod_lt _ (by decide)) (by decide),
    a85_dec_digit _ _ _ _ (Nat.mod_lt _ (by decide)) (by decide),
    a85_step0 _ (by omega), a85_step _ (by omega), a85_step _ (by omega), a85_step _ (by omega)]
  have := a85_dec_tilde (V / 85) 4 (by decide) []
  simp only [Gen.a85_ascii85Writer_Close_tilde, Gen.a85_ascii85Writer_Close_gt] at this
  rw [this]
  simp only [padV, bytes4, Gen.a85_ascii85Reader_Read_base, Gen.a85_ascii85Reader_Read_pad, List.take,
    Nat.reducePow, Nat.reduceSub]
  obtain ⟨p1, p2, p3⟩ := a85_pad1 v (V / 85) hv (by omega) (by omega)
  rw [p1, p2, p3]

/-- writer invariant: `k ≤ 3` bytes are held in `v` -/
def A85WOK (w : W) : Prop :=
  (w.k = 0 ∧ w.v = 0) ∨ (w.k = 1 ∧ w.v < 256) ∨ (w.k = 2 ∧ w.v < 65536) ∨ (w.k = 3 ∧ w.v < 16777216)

/-- the line buffer holds complete groups that decode to `ys` -/
def A85BufOK (buf ys : Bytes) : Prop := ∀ rest, dec 0 0 (buf ++ rest) = DecRes.pre ys (dec 0 0 rest)

theorem a85_close_ok (w : W) (ys : Bytes) (hw : A85WOK w) (hb : A85BufOK w.buf ys) :
    dec 0 0 (close w) = (ys ++ a85AccBytes w.k w.v, none) := by
  unfold close
  simp only [List.append_assoc]
  rw [hb]
  rcases hw with ⟨hk, hv⟩ | ⟨hk, hv⟩ | ⟨hk, hv⟩ | ⟨hk, hv⟩
  · have t0 := a85_dec_tilde0 []
    simp only [Gen.a85_ascii85Writer_Close_tilde, Gen.a85_ascii85Writer_Close_gt] at t0
    simp [hk, a85AccBytes, t0]
  · have := a85_dec_tail1 w.v hv
    simp [hk, a85AccBytes] at this ⊢
    simp [this]
  · have := a85_dec_tail2 w.v hv
    simp [hk, a85AccBytes] at this ⊢
    simp [this]
  · have := a85_dec_tail3 w.v hv
    simp [hk, a85AccBytes] at this ⊢
    simp [this]

theorem a85_group_ok (v : Nat) (hv : v < 2 ^ 32) :
    A85BufOK (if v == 0 then [Gen.a85_ascii85Writer_Write_z] else digits5 v) (bytes4 v) := by
  intro rest
  split
  · rename_i h
    have : v = 0 := by simpa using h
    subst this
    rw [List.cons_append, List.nil_append, a85_dec_z]; rfl
  · exact a85_dec_digits5 v hv rest

theorem a85_run_rt (xs : Bytes) (hx : AllBytes xs) : ∀ w ys, A85WOK w → A85BufOK w.buf ys →
    dec 0 0 (run w xs) = (ys ++ a85AccBytes w.k w.v ++ xs, none) := by
  induction xs with
  | nil => intro w ys hw hb; simp [run, a85_close_ok w ys hw hb]
  | cons b bs ih =>
    intro w ys hw hb
    have hb256 : b < 256 := by simp at hx; exact hx.1
    have hbs : AllBytes bs := by simp at hx; exact hx.2
    simp only [run, step, Gen.a85_ascii85Writer_Write_byteBits, Gen.a85_ascii85Writer_Write_groupBytes,
      Nat.reducePow]
    rcases hw with ⟨hk, hv⟩ | ⟨hk, hv⟩ | ⟨hk, hv⟩ | ⟨hk, hv⟩
    · have := ih hbs ⟨w.v * 256 + b, w.k + 1, w.buf⟩ ys (Or.inr (Or.inl ⟨by simp [hk], by simp [hv]; omega⟩)) hb
      simp [hk, hv, a85AccBytes] at this ⊢
      exact this
    · have := ih hbs ⟨w.v * 256 + b, w.k + 1, w.buf⟩ ys (Or.inr (Or.inr (Or.inl ⟨by simp [hk], by simp; omega⟩))) hb
      simp [hk, a85AccBytes] at this ⊢
      rw [this]
      have e1 : (w.v * 256 + b) / 256 = w.v := by omega
      have e2 : (w.v * 256 + b) % 256 = b := by omega
      simp [e1]
      exact hb256
    · have := ih hbs ⟨w.v * 256 + b, w.k + 1, w.buf⟩ ys (Or.inr (Or.inr (Or.inr ⟨by simp [hk], by simp; omega⟩))) hb
      simp [hk, a85AccBytes] at this ⊢
      rw [this]
      have e1 : (w.v * 256 + b) / 65536 = w.v / 256 := by omega
      have e2 : (w.v * 256 + b) / 256 % 256 = w.v % 256 := by omega
      have e3 : (w.v * 256 + b) % 256 = b := by omega
      simp [e1, e2]
      exact hb256
    · have hv' : w.v * 256 + b < 2 ^ 32 := by omega
      have hg := a85_group_ok (w.v * 256 + b) hv'
      have e4 : bytes4 (w.v * 256 + b) = a85AccBytes 3 w.v ++ [b] := by
        simp only [bytes4, a85AccBytes, Nat.reducePow, List.cons_append, List.nil_append]
        have e0 : (w.v * 256 + b) / 16777216 % 256 = w.v / 65536 := by omega
        have e1 : (w.v * 256 + b) / 65536 % 256 = w.v / 256 % 256 := by omega
        have e2 : (w.v * 256 + b) / 256 % 256 = w.v % 256 := by omega
        have e3 : (w.v * 256 + b) % 256 = b := by omega
        rw [e0, e1, e2, e3]
      simp only [hk, Nat.reduceAdd, beq_self_eq_true, if_true]
      split
      · -- the line is full: newline, flush, the group starts the new line
        simp only [List.append_assoc, List.cons_append, List.nil_append]
        rw [hb, a85_dec_nl, ih hbs _ (bytes4 (w.v * 256 + b)) (Or.inl ⟨rfl, rfl⟩) hg, e4]
        simp [a85AccBytes]
      · simp only [List.nil_append]
        refine (ih hbs _ (ys ++ bytes4 (w.v * 256 + b)) (Or.inl ⟨rfl, rfl⟩) (by
            intro rest
            rw [List.append_assoc, hb]
            exact (hg rest).symm ▸ (by simp))).trans ?_
        rw [e4]
        simp [a85AccBytes]

/-- **ASCII85 round trip** for every byte string: `z` groups, line breaks every 75–79 characters,
    the partial final group and `~>` are all read back. -/
theorem ascii85_rt (x : Bytes) (hx : AllBytes x) : decode (encode x) = (x, none) := by
  have := a85_run_rt x hx W.init [] (Or.inl ⟨rfl, rfl⟩) (by intro rest; simp [W.init])
  simpa [decode, encode, a85AccBytes, W.init] using this

example : decode (encode [0, 0, 0, 0, 1, 2, 3, 4, 255, 255, 255, 255, 7]) =
    ([0, 0, 0, 0, 1, 2, 3, 4, 255, 255, 255, 255, 7], none) := by decide +kernel
-- `z`, a line break and a partial group really occur
example : (encode (List.replicate 4 0 ++ List.range 70)).contains 122 = true ∧
    (encode (List.replicate 4 0 ++ List.range 70)).contains 10 = true ∧
    decode (encode (List.replicate 4 0 ++ List.range 70)) = (List.replicate 4 0 ++ List.range 70, none) := by
  decide +kernel

end Ascii85

/-! ## RunLength -/
section RunLength
open RunLength

attribute [local simp] Gen.rl_rlWriter_Write_trigger Gen.rl_rlWriter_Write_startRepeat
  Gen.rl_rlWriter_Write_maxLiteral Gen.rl_rlWriter_Write_maxRepeat Gen.rl_rlWriter_flushLiteral_litBias
  Gen.rl_rlWriter_flushRepeat_repBase Gen.rl_rlWriter_Close_eod Gen.rl_rlReader_Read_eod
  Gen.rl_rlReader_Read_litBound Gen.rl_rlReader_Read_litBias Gen.rl_rlReader_Read_repBase

/-- a literal run of exactly the announced length is copied -/
theorem rl_dec_lit_run (lit : Bytes) (rest : Bytes) : ∀ fresh, lit ≠ [] →
    dec (.lit lit.length fresh) (lit ++ rest) = DecRes.pre lit (dec .len rest) := by
  induction lit with
  | nil => intro _ h; exact absurd rfl h
  | cons c cs ih =>
    intro fresh _
    cases cs with
    | nil => simp [dec]
    | cons d ds =>
      have := ih false (by simp)
      rw [show (c :: d :: ds) ++ rest = c :: ((d :: ds) ++ rest) from rfl,
        show (c :: d :: ds).length = (d :: ds).length + 1 from rfl, dec]
      have hn : ¬ ((d :: ds).length + 1 ≤ 1) := by simp
      rw [if_neg hn, Nat.add_sub_cancel, this]
      simp

theorem rl_dec_litPacket (lit rest : Bytes) (h1 : 1 ≤ lit.length) (h2 : lit.length ≤ 128) :
    dec .len (litPacket lit ++ rest) = DecRes.pre lit (dec .len rest) := by
  have hne : lit ≠ [] := by intro h; simp [h] at h1
  have e1 : ¬ (lit.length - 1 = 128) := by omega
  have e2 : lit.length - 1 < 128 := by omega
  have e3 : lit.length - 1 + 1 = lit.length := by omega
  simp [litPacket, dec, e1, e2, e3, rl_dec_lit_run lit rest true hne]

theorem rl_dec_repPacket (n v : Nat) (rest : Bytes) (h1 : 2 ≤ n) (h2 : n ≤ 128) :
    dec .len (repPacket n v ++ rest) = DecRes.pre (List.replicate n v) (dec .len rest) := by
  have e1 : ¬ (257 - n = 128) := by omega
  have e2 : ¬ (257 - n < 128) := by omega
  have e3 : 257 - (257 - n) = n := by omega
  simp [repPacket, dec, e1, e2, e3]

/-- writer invariant -/
def RlWOK (w : W) : Prop :=
  (w.repeatCount = 0 ∨ (2 ≤ w.repeatCount ∧ w.repeatCount ≤ 128 ∧ w.lit = [])) ∧ w.lit.length < 128

/-- the input bytes the writer has accepted but not yet written -/
def rlPending (w : W) : Bytes := List.replicate w.repeatCount w.repeatVal ++ w.lit

/-- `e` decodes to `F` in front of anything -/
def RlEmits (e F : Bytes) : Prop := ∀ rest, dec .len (e ++ rest) = DecRes.pre F (dec .len rest)

theorem rl_emits_nil : RlEmits [] [] := by intro rest; simp

theorem rl_emits_append {e1 F1 e2 F2 : Bytes} (h1 : RlEmits e1 F1) (h2 : RlEmits e2 F2) :
    RlEmits (e1 ++ e2) (F1 ++ F2) := by
  intro rest; rw [List.append_assoc, h1, h2]; simp

/-- what the writer-side analysis needs to know about a packet reader: a relation "`e` is read as
    `F`" that holds for the empty string, is closed under concatenation, and holds for the two
    packet kinds.  (Instantiated with the model reader here and with the reference reader in C07.) -/
structure PacketSem (E : Bytes → Bytes → Prop) : Prop where
  nil : E [] []
  append : ∀ {e1 F1 e2 F2 : Bytes}, E e1 F1 → E e2 F2 → E (e1 ++ e2) (F1 ++ F2)
  lit : ∀ lit : Bytes, 1 ≤ lit.length → lit.length ≤ 128 → E (litPacket lit) lit
  rep : ∀ n v : Nat, 2 ≤ n → n ≤ 128 → E (repPacket n v) (List.replicate n v)

theorem rl_model_sem : PacketSem RlEmits where
  nil := rl_emits_nil
  append := rl_emits_append
  lit := fun lit h1 h2 rest => rl_dec_litPacket lit rest h1 h2
  rep := fun n v h1 h2 rest => rl_dec_repPacket n v rest h1 h2

theorem list_len3 {α} (l : List α) (h : l.length = 3) : ∃ x y z, l = [x, y, z] := by
  match l, h with
  | [x, y, z], _ => exact ⟨x, y, z, rfl⟩

theorem rl_stepLit_ok {E : Bytes → Bytes → Prop} (sem : PacketSem E) (lit : Bytes) (b : Nat) (hl : lit.length < 128) :
    RlWOK (stepLit lit b).1 ∧ ∃ F, F ++ rlPending (stepLit lit b).1 = lit ++ [b] ∧ E (stepLit lit b).2 F := by
  unfold stepLit
  simp only []
  by_cases h3 : (lit ++ [b]).length ≥ Gen.rl_rlWriter_Write_trigger
  · rw [if_pos h3]
    have hlen : ((lit ++ [b]).drop ((lit ++ [b]).length - Gen.rl_rlWriter_Write_trigger)).length = 3 := by
      simp at h3 ⊢; omega
    obtain ⟨x, y, z, hd⟩ := list_len3 _ hlen
    rw [hd]
    simp only []
    by_cases heq : (x == y && y == z) = true
    · rw [if_pos heq]
      simp only [Bool.and_eq_true, beq_iff_eq] at heq
      obtain ⟨hxy, hyz⟩ := heq
      subst hxy; subst hyz
      refine ⟨by simp [RlWOK], (lit ++ [b]).take ((lit ++ [b]).length - Gen.rl_rlWriter_Write_trigger), ?_, ?_⟩
      · have : List.replicate 3 x = [x, x, x] := rfl
        simp only [rlPending, Gen.rl_rlWriter_Write_startRepeat, this, List.append_nil]
        rw [← hd]; exact List.take_append_drop _ _
      · split
        · rename_i hpos
          apply sem.lit
          · omega
          · simp at hpos ⊢; omega
        · rename_i hpos
          have : (lit ++ [b]).take ((lit ++ [b]).length - Gen.rl_rlWriter_Write_trigger) = [] := by
            apply List.eq_nil_of_length_eq_zero; omega
          rw [this]; exact sem.nil
    · rw [if_neg heq]
      by_cases h128 : ((lit ++ [b]).length == Gen.rl_rlWriter_Write_maxLiteral) = true
      · rw [if_pos h128]
        refine ⟨by simp [RlWOK], lit ++ [b], by simp [rlPending], ?_⟩
        apply sem.lit
        · simp
        · simp at h128 ⊢; omega
      · rw [if_neg h128]
        refine ⟨?_, [], by simp [rlPending], sem.nil⟩
        simp at h128
        simp [RlWOK]; omega
  · rw [if_neg h3]
    refine ⟨?_, [], by simp [rlPending], sem.nil⟩
    simp at h3
    simp [RlWOK]; omega

theorem rl_step_ok {E : Bytes → Bytes → Prop} (sem : PacketSem E) (w : W) (b : Nat) (hw : RlWOK w) :
    RlWOK (step w b).1 ∧ ∃ F, F ++ rlPending (step w b).1 = rlPending w ++ [b] ∧ E (step w b).2 F := by
  obtain ⟨hrc, hl⟩ := hw
  unfold step
  by_cases hpos : w.repeatCount > 0
  · rw [if_pos hpos]
    rcases hrc with h0 | ⟨h2, h128, hlit⟩
    · omega
    by_cases hsame : (b == w.repeatVal && decide (w.repeatCount < Gen.rl_rlWriter_Write_maxRepeat)) = true
    · rw [if_pos hsame]
      simp only [Bool.and_eq_true, beq_iff_eq, decide_eq_true_eq] at hsame
      obtain ⟨hb, hlt⟩ := hsame
      simp at hlt
      refine ⟨⟨Or.inr ⟨by simp; omega, by simp; omega, hlit⟩, hl⟩, [], ?_, sem.nil⟩
      simp [rlPending, hlit, hb, List.replicate_succ']
    · rw [if_neg hsame]
      obtain ⟨hok, F, hF, hE⟩ := rl_stepLit_ok sem w.lit b hl
      refine ⟨hok, List.replicate w.repeatCount w.repeatVal ++ F, ?_, ?_⟩
      · rw [List.append_assoc, hF]; simp [rlPending, hlit]
      · exact sem.append (sem.rep _ _ h2 h128) hE
  · rw [if_neg hpos]
    have h0 : w.repeatCount = 0 := by omega
    obtain ⟨hok, F, hF, hE⟩ := rl_stepLit_ok sem w.lit b hl
    exact ⟨hok, F, by rw [hF]; simp [rlPending, h0], hE⟩

/-- `Close` writes the pending bytes as packets, then the EOD byte -/
theorem rl_close_emits {E : Bytes → Bytes → Prop} (sem : PacketSem E) (w : W) (hw : RlWOK w) :
    ∃ e, close w = e ++ [Gen.rl_rlWriter_Close_eod] ∧ E e (rlPending w) := by
  obtain ⟨hrc, hl⟩ := hw
  unfold close
  have hE1 : E (if w.repeatCount > 0 then repPacket w.repeatCount w.repeatVal else [])
      (List.replicate w.repeatCount w.repeatVal) := by
    split
    · rcases hrc with h0 | ⟨h2, h128, _⟩
      · omega
      · exact sem.rep _ _ h2 h128
    · have : w.repeatCount = 0 := by omega
      rw [this]; exact sem.nil
  have hE2 : E (if w.lit.length > 0 then litPacket w.lit else []) w.lit := by
    split
    · exact sem.lit _ (by omega) (by omega)
    · have : w.lit = [] := List.eq_nil_of_length_eq_zero (by omega)
      rw [this]; exact sem.nil
  exact ⟨_, rfl, sem.append hE1 hE2⟩

theorem rl_close_ok (w : W) (hw : RlWOK w) : dec .len (close w) = (rlPending w, none) := by
  obtain ⟨e, he, hE⟩ := rl_close_emits rl_model_sem w hw
  rw [he, hE]
  simp [dec]

theorem rl_run_rt (xs : Bytes) : ∀ w, RlWOK w → dec .len (run w xs) = (rlPending w ++ xs, none) := by
  induction xs with
  | nil => intro w hw; simp [run, rl_close_ok w hw]
  | cons b bs ih =>
    intro w hw
    obtain ⟨hok, F, hF, hE⟩ := rl_step_ok rl_model_sem w b hw
    simp only [run]
    rw [hE, ih _ hok]
    simp only [DecRes.pre_mk]
    rw [← List.append_assoc, hF]; simp

/-- **RunLength round trip**, for every byte string (no side condition on the values is
    needed: the value byte of a repeat packet and literal bytes are copied verbatim). -/
theorem runlength_rt (x : Bytes) : decode (encode x) = (x, none) := by
  have := rl_run_rt x W.init (by simp [RlWOK, W.init])
  simpa [decode, encode, rlPending, W.init] using this

example : decode (encode [1, 2, 2, 3, 3, 3, 3, 4]) = ([1, 2, 2, 3, 3, 3, 3, 4], none) := by decide +kernel
-- both packet kinds and the 128 limits really occur: 130 equal bytes, then 130 distinct ones
example : encode (List.replicate 131 9 ++ List.range 130) =
    [129, 9, 254, 9, 127] ++ List.range 128 ++ [1, 128, 129, 128] := by decide +kernel

end RunLength

/-! ## chunking is irrelevant for the writers (model level)

`feed st xs` is one `Write(xs)` call: the state afterwards and the bytes handed to the
underlying writer.  Writing `xs` and then `ys` and closing gives the same output as writing
`xs ++ ys` at once — for every split, hence for every sequence of `Write` calls. -/

section Chunking
variable {σ ε : Type} (step : σ → Nat → σ × List ε) (close : σ → List ε)

/-- the generic writer loop of all four encoders -/
def runG : σ → Bytes → List ε
  | st, [] => close st
  | st, b :: bs => (step st b).2 ++ runG (step st b).1 bs

/-- one `Write` call -/
def feedG : σ → Bytes → σ × List ε
  | st, [] => (st, [])
  | st, b :: bs => let r := feedG (step st b).1 bs; (r.1, (step st b).2 ++ r.2)

theorem runG_append (xs ys : Bytes) : ∀ st,
    runG step close st (xs ++ ys) = (feedG step st xs).2 ++ runG step close (feedG step st xs).1 ys := by
  induction xs with
  | nil => intro st; simp [feedG]
  | cons b bs ih => intro st; simp [runG, feedG, ih]

end Chunking

theorem ahex_run_eq (buf : Bytes) (xs : Bytes) : AsciiHex.run buf xs = runG AsciiHex.step AsciiHex.close buf xs := by
  induction xs generalizing buf with
  | nil => rfl
  | cons b bs ih => simp [AsciiHex.run, runG, ih]

theorem a85_run_eq (w : Ascii85.W) (xs : Bytes) : Ascii85.run w xs = runG Ascii85.step Ascii85.close w xs := by
  induction xs generalizing w with
  | nil => rfl
  | cons b bs ih => simp [Ascii85.run, runG, ih]

theorem rl_run_eq (w : RunLength.W) (xs : Bytes) : RunLength.run w xs = runG RunLength.step RunLength.close w xs := by
  induction xs generalizing w with
  | nil => rfl
  | cons b bs ih => simp [RunLength.run, runG, ih]

theorem lzw_run_eq (w : LZW.W) (xs : Bytes) : LZW.run w xs = runG LZW.step LZW.close w xs := by
  induction xs generalizing w with
  | nil => rfl
  | cons b bs ih => simp [LZW.run, runG, ih]

/-- **Chunking is irrelevant** (ASCIIHex writer): `Write(xs); Write(ys); Close` = `Write(xs ++ ys); Close`. -/
theorem chunking_irrelevant_asciihex (buf xs ys : Bytes) :
    AsciiHex.run buf (xs ++ ys) =
      (feedG AsciiHex.step buf xs).2 ++ AsciiHex.run (feedG AsciiHex.step buf xs).1 ys := by
  rw [ahex_run_eq, ahex_run_eq, runG_append]

theorem chunking_irrelevant_ascii85 (w : Ascii85.W) (xs ys : Bytes) :
    Ascii85.run w (xs ++ ys) = (feedG Ascii85.step w xs).2 ++ Ascii85.run (feedG Ascii85.step w xs).1 ys := by
  rw [a85_run_eq, a85_run_eq, runG_append]

theorem chunking_irrelevant_runlength (w : RunLength.W) (xs ys : Bytes) :
    RunLength.run w (xs ++ ys) = (feedG RunLength.step w xs).2 ++ RunLength.run (feedG RunLength.step w xs).1 ys := by
  rw [rl_run_eq, rl_run_eq, runG_append]

theorem chunking_irrelevant_lzw (w : LZW.W) (xs ys : Bytes) :
    LZW.run w (xs ++ ys) = (feedG LZW.step w xs).2 ++ LZW.run (feedG LZW.step w xs).1 ys := by
  rw [lzw_run_eq, lzw_run_eq, runG_append]


end PdfVerif.C06fa

import PdfVerif.Props.C02fiof
/-!
# C02 (work package FIO) — `file_rt_table`: the whole-file round trip for classic xref tables

Writer side: `OpenInv` (the state of the open stream), `SDocAt`/`sdoc_invariant` (every completed
stream object stands in the file with its final `/Length` text and exactly the bytes written),
`doc_complete` (every in-use entry belongs to a recorded object).  Reader side: `get_stream_rt`,
`stream_dict_nrm`, `readDict_fmt`, `openTable_close` (table *and* trailer dictionary).
Composition: `file_rt_table`.
-/
namespace PdfVerif.C02fiog
open PdfVerif PdfVerif.FIO PdfVerif.C02fio PdfVerif.C02fiob PdfVerif.C02fioe PdfVerif.C02fiof
open PdfVerif.C01b PdfVerif.C01L PdfVerif.C01d

/-! ## stream objects in the writer model -/

/-- the text of the `/Length` value of a finished stream with `n` bytes: the number (possibly
    over the remains of the twelve reserved blanks), or a reference to a written integer `n` -/
def LenText (doc : List (Nat × Nat × Obj)) (value : Bytes) (n : Nat) : Prop :=
  (∃ j, value = decOf n ++ List.replicate j 32) ∨
  (∃ r, value = decOf r ++ [32, 48, 32, 82] ∧ r < Gen.fio_maxXRefSize ∧ (r, 0, Obj.int n) ∈ doc)

/-- the stream object `x = (num, gen, dict, body)` is in the file: its entry is in use, and at
    its offset stand the header, the dictionary with `/Length`, `stream`, the bytes written,
    `endstream endobj` -/
def SDocAt (s : WState) (x : Nat × Nat × List (Bytes × Obj) × Bytes) : Prop :=
  ∃ e dictBytes value off, s.xref.get x.1 = some e ∧ e.gen = x.2.1 ∧ e.inStream = 0 ∧ 0 ≤ e.pos ∧
    fmtDictLen s.opts.fmt s.opts.litStr x.2.2.1 value = some (dictBytes, off) ∧
    LenText s.doc value x.2.2.2.length ∧
    At s.out e.pos.toNat (objHeader x.1 x.2.1 ++ dictBytes ++ kStream ++ x.2.2.2 ++ kEndstream) ∧
    ∀ st p, s.stm = some st → st.patchPos = some p →
      e.pos.toNat + (objHeader x.1 x.2.1 ++ dictBytes ++ kStream ++ x.2.2.2 ++ kEndstream).length ≤ p

theorem SDocAt.grow {a b : WState} {x : Nat × Nat × List (Bytes × Obj) × Bytes} (hd : SDocAt a x) (hg : Grow a b) :
    SDocAt b x := by
  obtain ⟨e, db, value, off, h1, h2, h3, h4, h5, h6, h7, h8⟩ := hd
  refine ⟨e, db, value, off, hg.mono _ _ h1, h2, h3, h4, by rw [hg.opts]; exact h5, ?_, hg.keep _ _ h7 h8, ?_⟩
  · rcases h6 with h | ⟨r, hr1, hr2, hr3⟩
    · exact .inl h
    · exact .inr ⟨r, hr1, hr2, hg.docmono _ hr3⟩
  · intro st' p' hs hp
    rcases hg.patch st' p' hs hp with ⟨st, ha, hb⟩ | hle
    · exact h8 st p' ha hb
    · have := h7.end_le; omega

/-- new stream objects are in the file -/
def SGrow (s s' : WState) : Prop := ∀ x, x ∈ s'.sdoc → x ∈ s.sdoc ∨ SDocAt s' x

theorem SGrow.of_eq {s s' : WState} (h : s'.sdoc = s.sdoc) : SGrow s s' := fun x hx => .inl (by rw [← h]; exact hx)

theorem SGrow.trans {a b c : WState} (h1 : SGrow a b) (h2 : SGrow b c) (g2 : Grow b c) : SGrow a c := by
  intro x hx
  rcases h2 x hx with hb | hd
  · rcases h1 x hb with ha | hd
    · exact .inl ha
    · exact .inr (hd.grow g2)
  · exact .inr hd

/-- `fmtDictLen` puts the value between two texts that do not depend on it -/
theorem fmtDictLen_parts (opt : FmtOpt) (lit : Bool) (kv : List (Bytes × Obj)) (v : Bytes) (bytes : Bytes) (off : Nat)
    (h : fmtDictLen opt lit kv v = some (bytes, off)) :
    ∃ pre post, bytes = pre ++ v ++ post ∧ off = pre.length ∧
      ∀ v', fmtDictLen opt lit kv v' = some (pre ++ v' ++ post, pre.length) := by
  unfold fmtDictLen at h ⊢
  simp only at h ⊢
  split at h
  · rename_i b1 b2 h1 h2
    simp only [Option.some.injEq, Prod.mk.injEq] at h
    obtain ⟨hb, ho⟩ := h
    refine ⟨_, (if opt.pretty = true then [10] else []) ++ b2 ++ [62, 62], ?_, ho.symm, ?_⟩
    · rw [← hb]; simp only [List.append_assoc]
    · intro v'
      simp only [List.append_assoc]
  · simp at h

theorem patchAt_mid (A B v : Bytes) (hv : v.length ≤ 12) :
    patchAt (A ++ blanks12 ++ B) A.length v = A ++ (v ++ List.replicate (12 - v.length) 32) ++ B := by
  unfold patchAt
  have h1 : (A ++ blanks12 ++ B).take A.length = A := by
    rw [List.append_assoc, List.take_left']; rfl
  have h2 : (A ++ blanks12 ++ B).drop (A.length + v.length) = List.replicate (12 - v.length) 32 ++ B := by
    rw [List.append_assoc, ← List.drop_drop, List.drop_left, List.drop_append]
    have : v.length - blanks12.length = 0 := by simp [blanks12]; omega
    rw [this]
    simp only [blanks12, List.drop_replicate, List.drop_zero]
  rw [h1, h2]; simp

/-- the state of the open stream: before `startWriting` everything written is in the buffer and
    the entry points at the current position; afterwards the header, the dictionary (with the
    `/Length` value chosen) and `stream` stand at the entry's offset, followed by the bytes -/
structure OpenInv (s : WState) : Prop where
  unstarted : ∀ st, s.stm = some st → st.started = false →
    st.buf = s.sdata ∧ st.patchPos = none ∧ st.lenRef = none ∧
    ∃ e, s.xref.get st.num = some e ∧ e.gen = st.gen ∧ e.inStream = 0 ∧ e.pos = (s.pos : Int)
  started : ∀ st, s.stm = some st → st.started = true →
    ∃ e P pre post value, s.xref.get st.num = some e ∧ e.gen = st.gen ∧ e.inStream = 0 ∧ 0 ≤ e.pos ∧
      P.length = e.pos.toNat ∧
      (∀ v, fmtDictLen s.opts.fmt s.opts.litStr st.dict v = some (pre ++ v ++ post, pre.length)) ∧
      s.out = P ++ (objHeader st.num st.gen ++ (pre ++ value ++ post) ++ kStream ++ s.sdata) ∧
      st.startPos = P.length + (objHeader st.num st.gen ++ (pre ++ value ++ post) ++ kStream).length ∧
      ((∃ l, st.userLen = some l ∧ value = intDec l ∧ st.patchPos = none ∧ st.lenRef = none) ∨
       (st.userLen = none ∧ value = blanks12 ∧ st.lenRef = none ∧
          st.patchPos = some (P.length + (objHeader st.num st.gen).length + pre.length)) ∨
       (st.userLen = none ∧ st.patchPos = none ∧
          ∃ r, st.lenRef = some r ∧ value = decOf r ++ [32, 48, 32, 82] ∧ r < Gen.fio_maxXRefSize))

theorem OpenInv.of_none {s : WState} (h : s.stm = none) : OpenInv s :=
  ⟨fun st hs _ => (by rw [h] at hs; cases hs), fun st hs _ => (by rw [h] at hs; cases hs)⟩

theorem alloc_fields {s s' : WState} {r : Nat} (h : alloc s = some (s', r)) :
    s'.out = s.out ∧ s'.pos = s.pos ∧ s'.xref = s.xref ∧ s'.stm = s.stm ∧ s'.opts = s.opts ∧ s'.doc = s.doc ∧
      s'.sdata = s.sdata ∧ s'.sdoc = s.sdoc ∧ s'.after = s.after ∧ r < Gen.fio_maxXRefSize := by
  unfold alloc at h
  split at h
  · simp at h
  · rename_i hlt
    simp only [Option.some.injEq, Prod.mk.injEq] at h
    obtain ⟨rfl, rfl⟩ := h
    exact ⟨rfl, rfl, rfl, rfl, rfl, rfl, rfl, rfl, rfl, by omega⟩

/-- what `startWriting` writes and records -/
theorem startWriting_layout {s s3 : WState} {st st' : OpenStm} {known : Option Nat}
    (h : startWriting s st known = .ok (s3, st')) :
    ∃ value dictBytes off, fmtDictLen s.opts.fmt s.opts.litStr st.dict value = some (dictBytes, off) ∧
      s3.out = s.out ++ (objHeader st.num st.gen ++ dictBytes ++ kStream ++ st.buf) ∧
      s3.sdoc = s.sdoc ∧ s3.sdata = s.sdata ∧ s3.doc = s.doc ∧ s3.xref = s.xref ∧ s3.opts = s.opts ∧
      st'.num = st.num ∧ st'.gen = st.gen ∧ st'.dict = st.dict ∧ st'.userLen = st.userLen ∧
      st'.started = true ∧ st'.startPos = s.pos + (objHeader st.num st.gen ++ dictBytes ++ kStream).length ∧
      ((∃ l, st.userLen = some l ∧ value = intDec l ∧ st'.patchPos = none ∧ st'.lenRef = st.lenRef) ∨
       (st.userLen = none ∧ ∃ l, known = some l ∧ value = decOf l ∧ st'.patchPos = none ∧ st'.lenRef = st.lenRef) ∨
       (st.userLen = none ∧ known = none ∧ value = blanks12 ∧ st'.lenRef = st.lenRef ∧
          st'.patchPos = some (s.pos + (objHeader st.num st.gen).length + off)) ∨
       (st.userLen = none ∧ known = none ∧ st'.patchPos = none ∧
          ∃ r, st'.lenRef = some r ∧ value = decOf r ++ [32, 48, 32, 82] ∧ r < Gen.fio_maxXRefSize)) := by
  unfold startWriting at h
  simp only at h
  split at h
  · simp at h
  · rename_i s1 st1 value hsel
    have hsame : s1.out = s.out ∧ s1.pos = s.pos ∧ s1.xref = s.xref ∧ s1.opts = s.opts ∧ s1.doc = s.doc ∧
        s1.sdata = s.sdata ∧ s1.sdoc = s.sdoc ∧
        st1.num = st.num ∧ st1.gen = st.gen ∧ st1.dict = st.dict ∧ st1.userLen = st.userLen ∧ st1.buf = st.buf ∧
        ((∃ l, st.userLen = some l ∧ value = intDec l ∧ st1.lenRef = st.lenRef) ∨
         (st.userLen = none ∧ ∃ l, known = some l ∧ value = decOf l ∧ st1.lenRef = st.lenRef) ∨
         (st.userLen = none ∧ known = none ∧ s.opts.seekable = true ∧ value = blanks12 ∧ st1.lenRef = st.lenRef) ∨
         (st.userLen = none ∧ known = none ∧ s.opts.seekable = false ∧
            ∃ r, st1.lenRef = some r ∧ value = decOf r ++ [32, 48, 32, 82] ∧ r < Gen.fio_maxXRefSize)) := by
      split at hsel
      · rename_i l hl
        simp only [Option.some.injEq, Prod.mk.injEq] at hsel
        obtain ⟨rfl, rfl, rfl⟩ := hsel
        exact ⟨rfl, rfl, rfl, rfl, rfl, rfl, rfl, rfl, rfl, rfl, rfl, rfl, .inl ⟨l, hl, rfl, rfl⟩⟩
      · rename_i hul
        split at hsel
        · rename_i l
          simp only [Option.some.injEq, Prod.mk.injEq] at hsel
          obtain ⟨rfl, rfl, rfl⟩ := hsel
          exact ⟨rfl, rfl, rfl, rfl, rfl, rfl, rfl, rfl, rfl, rfl, rfl, rfl, .inr (.inl ⟨hul, l, rfl, rfl, rfl⟩)⟩
        · have hk : (none : Option Nat) = none := rfl
          split at hsel
          · rename_i hseek
            simp only [Option.some.injEq, Prod.mk.injEq] at hsel
            obtain ⟨rfl, rfl, rfl⟩ := hsel
            exact ⟨rfl, rfl, rfl, rfl, rfl, rfl, rfl, rfl, rfl, rfl, rfl, rfl, .inr (.inr (.inl ⟨hul, hk, hseek, rfl, rfl⟩))⟩
          · rename_i hseek
            split at hsel
            · simp at hsel
            · rename_i sa r ha
              simp only [Option.some.injEq, Prod.mk.injEq] at hsel
              obtain ⟨rfl, rfl, rfl⟩ := hsel
              obtain ⟨a1, a2, a3, _, a5, a6, a7, a8, _, a10⟩ := alloc_fields ha
              exact ⟨a1, a2, a3, a5, a6, a7, a8, rfl, rfl, rfl, rfl, rfl,
                .inr (.inr (.inr ⟨hul, hk, by simpa using hseek, r, rfl, rfl, a10⟩))⟩
    obtain ⟨ho, hp, hx, hop, hdoc, hsd, hsdoc, hnum, hgen, hdict, hul, hbuf, hkind⟩ := hsame
    split at h
    · simp at h
    · rename_i dictBytes off hfd
      simp only [Except.ok.injEq, Prod.mk.injEq] at h
      obtain ⟨h3, hst'⟩ := h
      subst h3; subst hst'
      rw [hdict] at hfd
      refine ⟨value, dictBytes, off, hfd, ?_, by simp [emit, hsdoc], by simp [emit, hsd], by simp [emit, hdoc],
        by simp [emit, hx], by simp [emit, hop], hnum, hgen, hdict, hul, rfl, ?_, ?_⟩
      · simp only [emit, ho, hbuf, List.append_assoc]
      · simp [emit, hp]
      · rcases hkind with ⟨l, h1, h2, h3⟩ | ⟨h0, l, h1, h2, h3⟩ | ⟨h0, h1, h2, h3, h4⟩ | ⟨h0, h1, h2, r, h3, h4, h5⟩
        · exact .inl ⟨l, h1, h2, by simp [h1], h3⟩
        · exact .inr (.inl ⟨h0, l, h1, h2, by simp [h1], h3⟩)
        · exact .inr (.inr (.inl ⟨h0, h1, h3, h4, by simp [h0, h1, h2, hp]⟩))
        · exact .inr (.inr (.inr ⟨h0, h1, by simp [h2], r, h3, h4, h5⟩))

theorem alloc_s {s s' : WState} {r : Nat} (ho : OpenInv s) (h : alloc s = some (s', r)) :
    SGrow s s' ∧ OpenInv s' := by
  unfold alloc at h
  split at h
  · simp at h
  · simp only [Option.some.injEq, Prod.mk.injEq] at h
    obtain ⟨rfl, _⟩ := h
    exact ⟨SGrow.of_eq rfl, ⟨ho.unstarted, ho.started⟩⟩

theorem putPlain_s {s s' : WState} {num gen : Nat} {o : Obj} (hi : Inv s) (hs : s.stm = none)
    (h : putPlain s num gen o = .ok s') : SGrow s s' ∧ OpenInv s' := by
  obtain ⟨_, hs', _⟩ := putPlain_inv hi hs h
  refine ⟨?_, OpenInv.of_none hs'⟩
  unfold putPlain at h
  split at h
  · simp at h
  · split at h
    · simp at h
    · simp only [Except.ok.injEq] at h
      subst h
      exact SGrow.of_eq (by simp [emit])

theorem openStream_s {s s' : WState} {num gen : Nat} {dict : List (Bytes × Obj)} {ul : Option Int}
    (h : openStream s num gen dict ul = .ok s') : SGrow s s' ∧ OpenInv s' := by
  unfold openStream at h
  split at h
  · simp at h
  · split at h
    · simp at h
    · rename_i x n hset
      obtain ⟨_, hx, _, _⟩ := setXRef_ok hset
      simp only [Except.ok.injEq] at h
      subst h
      refine ⟨SGrow.of_eq rfl, ⟨?_, ?_⟩⟩
      · intro st hs _
        simp only [Option.some.injEq] at hs
        subst hs
        exact ⟨rfl, rfl, rfl, ⟨{ inStream := 0, pos := s.pos, gen := gen }, by simp only; rw [hx, C02fiob.get_set]; simp, rfl, rfl, rfl⟩⟩
      · intro st hs hst
        simp only [Option.some.injEq] at hs
        subst hs
        simp at hst

theorem streamWrite_s {s s' : WState} {p : Bytes} (hi : Inv s) (ho : OpenInv s) (h : streamWrite s p = .ok s') :
    SGrow s s' ∧ OpenInv s' := by
  unfold streamWrite at h
  split at h
  · simp at h
  · rename_i st hs
    split at h
    · rename_i hst
      simp only [Except.ok.injEq] at h
      subst h
      refine ⟨SGrow.of_eq rfl, ⟨?_, ?_⟩⟩
      · intro st' hs' hst'
        simp only [emit, hs, Option.some.injEq] at hs'
        subst hs'
        simp [hst] at hst'
      · intro st' hs' _
        simp only [emit, hs, Option.some.injEq] at hs'
        subst hs'
        obtain ⟨e, P, pre, post, value, h1, h2, h3, h4, h5, h6, h7, h8, h9⟩ := ho.started st hs hst
        refine ⟨e, P, pre, post, value, h1, h2, h3, h4, h5, h6, ?_, h8, h9⟩
        simp only [emit]
        rw [h7]
        simp only [List.append_assoc]
    · rename_i hst
      have hst' : st.started = false := by simpa using hst
      obtain ⟨u1, u2, u3, e, u4, u5, u6, u7⟩ := ho.unstarted st hs hst'
      split at h
      · simp only [Except.ok.injEq] at h
        subst h
        refine ⟨SGrow.of_eq rfl, ⟨?_, ?_⟩⟩
        · intro st2 hs2 _
          simp only [Option.some.injEq] at hs2
          subst hs2
          exact ⟨by simp [u1], u2, u3, e, u4, u5, u6, u7⟩
        · intro st2 hs2 hst2
          simp only [Option.some.injEq] at hs2
          subst hs2
          simp [hst'] at hst2
      · split at h
        · simp at h
        · rename_i s1 st1 hsw
          simp only [Except.ok.injEq] at h
          subst h
          obtain ⟨value, dictBytes, off, hfd, hout, hsdoc, _, _, hx, hop, hnum, hgen, hdict, hul, hstarted, hsp, hkind⟩ :=
            startWriting_layout hsw
          obtain ⟨pre, post, hdb, hoff, hall⟩ := fmtDictLen_parts _ _ _ _ _ _ hfd
          refine ⟨SGrow.of_eq (by simp [emit, hsdoc]), ⟨?_, ?_⟩⟩
          · intro st2 hs2 hst2
            simp only [emit, Option.some.injEq] at hs2
            subst hs2
            simp [hstarted] at hst2
          · intro st2 hs2 _
            simp only [emit, Option.some.injEq] at hs2
            subst hs2
            have hpl : s.out.length = e.pos.toNat := by rw [u7, hi.pos_eq]; simp
            refine ⟨e, s.out, pre, post, value, by simp only [emit, hx, hnum]; exact u4, by rw [hgen]; exact u5, u6,
              by rw [u7]; omega, hpl, ?_, ?_, ?_, ?_⟩
            · intro v; simp only [emit, hop, hdict]; exact hall v
            · simp only [emit, hout, hnum, hgen, hdb, u1, List.append_assoc]
            · rw [hsp, hnum, hgen, hdb, hi.pos_eq]
            · rcases hkind with ⟨l, k1, k2, k3, k4⟩ | ⟨_, l, k1, _⟩ | ⟨k0, _, k2, k3, k4⟩ | ⟨k0, _, k2, r, k3, k4, k5⟩
              · exact .inl ⟨l, by rw [hul]; exact k1, k2, k3, by rw [k4]; exact u3⟩
              · cases k1
              · refine .inr (.inl ⟨by rw [hul]; exact k0, k2, by rw [k3]; exact u3, ?_⟩)
                rw [k4, hoff, hnum, hgen, hi.pos_eq]
              · exact .inr (.inr ⟨by rw [hul]; exact k0, k2, r, k3, k4, k5⟩)

theorem put_deferred_s {s : WState} {num gen : Nat} {o : PutObj} (ho : OpenInv s) :
    SGrow s { s with after := s.after ++ [(num, gen, o)] } ∧ OpenInv { s with after := s.after ++ [(num, gen, o)] } :=
  ⟨SGrow.of_eq rfl, ⟨ho.unstarted, ho.started⟩⟩

/-- the length bookkeeping at the close of a stream: the length is the number of bytes written,
    and the object stands in the output with its final `/Length` text -/
theorem closeLength_layout {s s1 : WState} {st st1 : OpenStm} {len : Nat} (hi : Inv s) (ho : OpenInv s)
    (hs : s.stm = some st) (hr : closeLength s st = .ok (s1, st1, len))
    (hmm : lengthMismatch st.userLen len = false) :
    len = s.sdata.length ∧ s1.sdoc = s.sdoc ∧ s1.opts = s.opts ∧
    ∃ e P dictBytes value off, s1.xref.get st.num = some e ∧ e.gen = st.gen ∧ e.inStream = 0 ∧ 0 ≤ e.pos ∧
      P.length = e.pos.toNat ∧
      fmtDictLen s.opts.fmt s.opts.litStr st.dict value = some (dictBytes, off) ∧
      s1.out = P ++ (objHeader st.num st.gen ++ dictBytes ++ kStream ++ s.sdata) ∧
      ((∃ j, value = decOf len ++ List.replicate j 32) ∨
       (∃ r, value = decOf r ++ [32, 48, 32, 82] ∧ r < Gen.fio_maxXRefSize ∧
          (r, 0, PutObj.plain (.int len)) ∈ s1.after)) := by
  have hdirect : ∀ l : Int, st.userLen = some l → intDec l = decOf len := by
    intro l hl
    rw [hl] at hmm
    simp [lengthMismatch] at hmm
    subst hmm
    rw [C02fiof.decOf_eq_natDec]; rfl
  unfold closeLength at hr
  split at hr
  · rename_i hstarted
    obtain ⟨e, P, pre, post, value, h1, h2, h3, h4, h5, h6, h7, h8, h9⟩ := ho.started st hs hstarted
    have hlen : s.pos - st.startPos = s.sdata.length := by
      rw [hi.pos_eq, h8, h7]; simp; omega
    simp only at hr
    split at hr
    · rename_i r hlr
      simp only [Except.ok.injEq, Prod.mk.injEq] at hr
      obtain ⟨rfl, rfl, rfl⟩ := hr
      refine ⟨hlen, rfl, rfl, e, P, pre ++ value ++ post, value, pre.length, h1, h2, h3, h4, h5, h6 value, h7, ?_⟩
      rcases h9 with ⟨l, _, _, _, k4⟩ | ⟨_, _, k3, _⟩ | ⟨_, _, r', k3, k4, k5⟩
      · rw [hlr] at k4; cases k4
      · rw [hlr] at k3; cases k3
      · rw [hlr] at k3; cases k3
        exact .inr ⟨r, k4, k5, by simp⟩
    · rename_i p hlr hpp
      split at hr
      · simp at hr
      · rename_i hvl
        simp only [Except.ok.injEq, Prod.mk.injEq] at hr
        obtain ⟨rfl, rfl, rfl⟩ := hr
        rcases h9 with ⟨l, _, _, k3, _⟩ | ⟨_, k2, _, k4⟩ | ⟨_, k2, _⟩
        · rw [hpp] at k3; cases k3
        · rw [hpp] at k4
          simp only [Option.some.injEq] at k4
          have hvl' : (decOf (s.pos - st.startPos)).length ≤ 12 := by omega
          refine ⟨hlen, rfl, rfl, e, P,
            pre ++ (decOf (s.pos - st.startPos) ++ List.replicate (12 - (decOf (s.pos - st.startPos)).length) 32) ++ post,
            _, pre.length, h1, h2, h3, h4, h5, h6 _, ?_, .inl ⟨_, rfl⟩⟩
          show patchAt s.out p (decOf (s.pos - st.startPos)) = _
          have hsplit : s.out = (P ++ objHeader st.num st.gen ++ pre) ++ blanks12 ++ (post ++ kStream ++ s.sdata) := by
            rw [h7, k2]; simp only [List.append_assoc]
          have hp : p = (P ++ objHeader st.num st.gen ++ pre).length := by rw [k4]; simp; omega
          rw [hsplit, hp, patchAt_mid _ _ _ hvl']
          simp only [List.append_assoc]
        · rw [hpp] at k2; cases k2
    · rename_i hlr hpp
      simp only [Except.ok.injEq, Prod.mk.injEq] at hr
      obtain ⟨rfl, rfl, rfl⟩ := hr
      rcases h9 with ⟨l, k1, k2, _, _⟩ | ⟨_, _, _, k4⟩ | ⟨_, _, r', k3, _⟩
      · refine ⟨hlen, rfl, rfl, e, P, pre ++ value ++ post, value, pre.length, h1, h2, h3, h4, h5, h6 value, h7,
          .inl ⟨0, ?_⟩⟩
        rw [k2, hdirect l k1]; simp
      · rw [hpp] at k4; cases k4
      · rw [hlr] at k3; cases k3
  · rename_i hstarted
    have hst' : st.started = false := by simpa using hstarted
    obtain ⟨u1, _, _, e, u4, u5, u6, u7⟩ := ho.unstarted st hs hst'
    simp only at hr
    split at hr
    · simp at hr
    · rename_i sx stx hsw
      simp only [Except.ok.injEq, Prod.mk.injEq] at hr
      obtain ⟨rfl, rfl, rfl⟩ := hr
      obtain ⟨value, dictBytes, off, hfd, hout, hsdoc, _, _, hx, hop, _, _, _, _, _, _, hkind⟩ :=
        startWriting_layout hsw
      have hpl : s.out.length = e.pos.toNat := by rw [u7, hi.pos_eq]; simp
      refine ⟨by rw [u1], hsdoc, hop, e, s.out, dictBytes, value, off, by rw [hx]; exact u4, u5, u6,
        by rw [u7]; omega, hpl, hfd, by rw [hout, u1], ?_⟩
      rcases hkind with ⟨l, k1, k2, _, _⟩ | ⟨_, l, k1, k2, _⟩ | ⟨_, k1, _⟩ | ⟨_, k1, _⟩
      · exact .inl ⟨0, by rw [k2, hdirect l k1]; simp⟩
      · simp only [Option.some.injEq] at k1
        exact .inl ⟨0, by rw [k2, ← k1]; simp⟩
      · cases k1
      · cases k1

theorem putPlain_doc {s s' : WState} {num gen : Nat} {o : Obj} (h : putPlain s num gen o = .ok s') :
    (num, gen, o) ∈ s'.doc := by
  unfold putPlain at h
  split at h
  · simp at h
  · split at h
    · simp at h
    · simp only [Except.ok.injEq] at h
      subst h
      simp [emit]

/-- every plain object of the replay list is in the document afterwards -/
theorem replayWith_doc {putS} (hput : PutSOk putS) (hg : PutSGrow putS) (l : List (Nat × Nat × PutObj)) :
    ∀ {s s' : WState}, Inv s → s.stm = none → replayWith putS s l = .ok s' →
      ∀ n g o, (n, g, PutObj.plain o) ∈ l → (n, g, o) ∈ s'.doc := by
  induction l with
  | nil => intro s s' _ _ _ n g o hm; cases hm
  | cons x rest ih =>
    intro s s' hi hs h n g o hm
    obtain ⟨num, gen, po⟩ := x
    cases po with
    | plain v =>
      simp only [replayWith] at h
      split at h
      · simp at h
      · rename_i s1 hp
        obtain ⟨hi1, hs1, _, _, _⟩ := putPlain_inv hi hs hp
        simp only [List.mem_cons, Prod.mk.injEq, PutObj.plain.injEq] at hm
        rcases hm with ⟨rfl, rfl, rfl⟩ | hm
        · exact (replayWith_grow hput hg rest hi1 hs1 h).docmono _ (putPlain_doc hp)
        · exact ih hi1 hs1 h n g o hm
    | stream d ul raw =>
      simp only [replayWith] at h
      split at h
      · simp at h
      · rename_i s1 hp
        obtain ⟨hi1, hs1, _⟩ := hput hi hs hp
        simp only [List.mem_cons, Prod.mk.injEq, reduceCtorEq, and_false, false_or] at hm
        exact ih hi1 hs1 h n g o hm

/-- what the replay loop needs from the way deferred stream objects are written -/
def PutSS (putS : WState → Nat → Nat → List (Bytes × Obj) → Option Int → Bytes → Except Err WState) : Prop :=
  ∀ {s s' : WState} {n g : Nat} {d : List (Bytes × Obj)} {ul : Option Int} {raw : Bytes},
    Inv s → s.stm = none → putS s n g d ul raw = .ok s' → SGrow s s'

theorem replayWith_s {putS} (hput : PutSOk putS) (hg : PutSGrow putS) (hss : PutSS putS)
    (l : List (Nat × Nat × PutObj)) :
    ∀ {s s' : WState}, Inv s → s.stm = none → replayWith putS s l = .ok s' → SGrow s s' := by
  induction l with
  | nil => intro s s' _ _ h; simp [replayWith] at h; subst h; exact SGrow.of_eq rfl
  | cons x rest ih =>
    intro s s' hi hs h
    obtain ⟨num, gen, po⟩ := x
    cases po with
    | plain o =>
      simp only [replayWith] at h
      split at h
      · simp at h
      · rename_i s1 hp
        obtain ⟨hi1, hs1, _, _, _⟩ := putPlain_inv hi hs hp
        exact (putPlain_s hi hs hp).1.trans (ih hi1 hs1 h) (replayWith_grow hput hg rest hi1 hs1 h)
    | stream d ul raw =>
      simp only [replayWith] at h
      split at h
      · simp at h
      · rename_i s1 hp
        obtain ⟨hi1, hs1, _⟩ := hput hi hs hp
        exact (hss hi hs hp).trans (ih hi1 hs1 h) (replayWith_grow hput hg rest hi1 hs1 h)

/-- **the close of a stream** puts the stream object into the file: header, dictionary with
the final `/Length`, `stream`, exactly the bytes written, `endstream endobj` -/
theorem streamCloseWith_s {putS} (hput : PutSOk putS) (hg : PutSGrow putS) (hss : PutSS putS)
    {s s' : WState} (hi : Inv s) (ho : OpenInv s) (h : streamCloseWith putS s = .ok s') : SGrow s s' := by
  unfold streamCloseWith at h
  split at h
  · simp at h
  · rename_i st hs
    split at h
    · simp at h
    · rename_i s1 st1 len hr
      obtain ⟨stx, hi1, hstx, hop1⟩ := closeLength_inv hi hs hr
      by_cases hc : lengthMismatch st.userLen len = true
      · simp [hc] at h
      · rw [if_neg hc] at h
        simp only at h
        have hmm : lengthMismatch st.userLen len = false := by simpa using hc
        obtain ⟨hlen, hsdoc1, _, e, P, dictBytes, value, off, x1, x2, x3, x4, x5, x6, x7, x8⟩ :=
          closeLength_layout hi ho hs hr hmm
        have hi2 : Inv (emit { s1 with stm := some stx } (kEndstream ++ prettyNL s.opts)) :=
          emit_inv hi1 _ (fun st0 h0 => by simp at h0; subst h0; exact hstx)
        have hi3 := dropStm_inv hi2 (fun st0 h0 => by simp [emit] at h0; subst h0; exact hstx)
        have hi4 : ∀ sd, Inv ({ emit s1 (kEndstream ++ prettyNL s.opts) with stm := none, after := [], sdoc := sd } : WState) :=
          fun sd => ⟨hi3.pos_eq, hi3.entries, fun st2 p2 h1 => by simp at h1, hi3.below, hi3.npos⟩
        have g3 := replayWith_grow hput hg _ (hi4 _) rfl h
        have s3 := replayWith_s hput hg hss _ (hi4 _) rfl h
        obtain ⟨_, hstm', hopts'⟩ := replayWith_inv hput _ (hi4 _) rfl h
        intro x hx
        rcases s3 x hx with hx3 | hd
        · simp only [emit, List.mem_append, List.mem_singleton] at hx3
          rcases hx3 with hx3 | rfl
          · exact .inl (by rw [← hsdoc1]; exact hx3)
          · right
            refine ⟨e, dictBytes, value, off, g3.mono _ _ (by simpa [emit] using x1), x2, x3, x4, ?_, ?_, ?_, ?_⟩
            · rw [hopts']; simpa [emit, hop1] using x6
            · simp only
              rw [← hlen]
              rcases x8 with hj | ⟨r, r1, r2, r3⟩
              · exact .inl hj
              · exact .inr ⟨r, r1, r2, replayWith_doc hput hg _ (hi4 _) rfl h r 0 (.int len) (by simpa [emit] using r3)⟩
            · refine g3.keep _ _ ?_ (fun st2 p2 h1 => by simp at h1)
              simp only [emit, x7, ← x5]
              exact ⟨P, prettyNL s.opts, by simp only [List.append_assoc], rfl⟩
            · intro st2 p2 h1; rw [hstm'] at h1; cases h1
        · exact .inr hd

theorem putStreamWith_s {close : WState → Except Err WState}
    (hcg : ∀ {s s' : WState}, Inv s → close s = .ok s' → Grow s s')
    (hcs : ∀ {s s' : WState}, Inv s → OpenInv s → close s = .ok s' → SGrow s s')
    {s s' : WState} {num gen : Nat} {d : List (Bytes × Obj)} {ul : Option Int} {raw : Bytes}
    (hi : Inv s) (h : putStreamWith close s num gen d ul raw = .ok s') : SGrow s s' := by
  unfold putStreamWith at h
  split at h
  · simp at h
  · rename_i s1 h1
    obtain ⟨i1, _, _, _, _, _⟩ := openStream_inv hi h1
    obtain ⟨sg1, o1⟩ := openStream_s h1
    split at h
    · simp at h
    · rename_i s2 h2
      obtain ⟨i2, _, _, _, _⟩ := streamWrite_inv i1 h2
      obtain ⟨sg2, o2⟩ := streamWrite_s i1 o1 h2
      have g2 := streamWrite_grow i1 h2
      have g3 := hcg i2 h
      exact (sg1.trans sg2 g2).trans (hcs i2 o2 h) g3

theorem noDeferredStream_ss : PutSS noDeferredStream := by
  intro s s' n g d ul raw _ _ h; simp [noDeferredStream] at h

theorem streamClose0_s {s s' : WState} (hi : Inv s) (ho : OpenInv s) (h : streamClose0 s = .ok s') : SGrow s s' :=
  streamCloseWith_s noDeferredStream_ok noDeferredStream_grow noDeferredStream_ss hi ho h

theorem putStream0_ss : PutSS putStream0 := by
  intro s s' n g d ul raw hi _ h
  exact putStreamWith_s (fun hi h => streamClose0_grow hi h)
    (fun hi ho h => streamClose0_s hi ho h) hi h

theorem streamClose_s {s s' : WState} (hi : Inv s) (ho : OpenInv s) (h : streamClose s = .ok s') : SGrow s s' :=
  streamCloseWith_s putStream0_ok putStream0_grow putStream0_ss hi ho h

theorem putStream_s {s s' : WState} {num gen : Nat} {d : List (Bytes × Obj)} {ul : Option Int} {raw : Bytes}
    (hi : Inv s) (h : putStream s num gen d ul raw = .ok s') : SGrow s s' :=
  putStreamWith_s (fun hi h => streamClose_grow hi h)
    (fun hi ho h => streamClose_s hi ho h) hi h

theorem put_s {s s' : WState} {num gen : Nat} {o : PutObj} (hi : Inv s) (ho : OpenInv s)
    (h : put s num gen o = .ok s') : SGrow s s' ∧ OpenInv s' := by
  unfold put at h
  split at h
  · simp only [Except.ok.injEq] at h
    subst h
    exact put_deferred_s ho
  · rename_i hs
    split at h
    · exact putPlain_s hi hs h
    · obtain ⟨_, hs', _⟩ := putStream_inv hi h
      exact ⟨putStream_s hi h, OpenInv.of_none hs'⟩

theorem putAll_s (l : List (Nat × Nat × Obj)) :
    ∀ {s s' : WState}, Inv s → s.stm = none → putAll s l = .ok s' → SGrow s s' := by
  induction l with
  | nil => intro s s' _ _ h; simp [putAll] at h; subst h; exact SGrow.of_eq rfl
  | cons x rest ih =>
    intro s s' hi hs h
    obtain ⟨num, gen, o⟩ := x
    simp only [putAll] at h
    split at h
    · simp at h
    · rename_i s1 hp
      obtain ⟨i1, _, n1⟩ := put_inv hi hp
      exact (put_s hi (OpenInv.of_none hs) hp).1.trans (ih i1 (n1 hs) h) (putAll_grow rest i1 (n1 hs) h)

theorem writeCompressed_s {s s' : WState} {items : List (Nat × Nat × Obj)} {raws : List Bytes}
    (hi : Inv s) (hobj : s.opts.objStm = false) (h : writeCompressed s items raws = .ok s') :
    SGrow s s' ∧ s'.stm = none := by
  unfold writeCompressed at h
  split at h
  · simp at h
  · rename_i hs
    have hs' : s.stm = none := by simpa using hs
    split at h
    · simp at h
    · split at h
      · simp only [Except.ok.injEq] at h; subst h; exact ⟨SGrow.of_eq rfl, hs'⟩
      · simp only [hobj, Bool.not_false, ↓reduceIte] at h
        exact ⟨putAll_s items hi hs' h, (putAll_inv items hi hs' h).2.2⟩

theorem optPut_s {s s' : WState} {o : Option Obj} {r : Option Nat} (hi : Inv s) (hs : s.stm = none)
    (h : optPut s o = .ok (s', r)) : SGrow s s' := by
  unfold optPut at h
  split at h
  · simp only [Except.ok.injEq, Prod.mk.injEq] at h
    obtain ⟨rfl, _⟩ := h
    exact SGrow.of_eq rfl
  · split at h
    · simp at h
    · rename_i s1 r1 ha
      obtain ⟨i1, _, _, hst, _⟩ := alloc_inv hi ha
      obtain ⟨sg1, o1⟩ := alloc_s (OpenInv.of_none hs) ha
      split at h
      · simp at h
      · rename_i s2 hp
        simp only [Except.ok.injEq, Prod.mk.injEq] at h
        obtain ⟨rfl, _⟩ := h
        exact sg1.trans (put_s i1 o1 hp).1 (put_grow i1 hp)

theorem close_s {s s' : WState} {cat : Obj} {info : Option Obj} {tr : List (Bytes × Obj)} {raw : Bytes}
    (hi : Inv s) (hobj : s.opts.objStm = false) (h : close s cat info tr raw = .ok s') :
    SGrow s s' ∧ s'.stm = none := by
  unfold close at h
  split at h
  · simp at h
  · rename_i hs
    have hs' : s.stm = none := by simpa using hs
    split at h
    · simp at h
    · rename_i s1 catRef h1
      obtain ⟨i1, n1, o1⟩ := optPut_inv hi hs' h1
      split at h
      · simp at h
      · rename_i s2 infoRef h2
        obtain ⟨i2, n2, o2⟩ := optPut_inv i1 n1 h2
        simp only [hobj, Bool.false_eq_true, ↓reduceIte] at h
        split at h
        · rename_i body td hb htd
          simp only [Except.ok.injEq] at h
          subst h
          have g3 : Grow s2 (emit (emit s2 (body ++ kTrailerNL ++ td ++ [10])) (kStartxref ++ decOf s2.pos ++ kEOF)) :=
            grow_append rfl (Mono.of_eq rfl) ((body ++ kTrailerNL ++ td ++ [10]) ++ (kStartxref ++ decOf s2.pos ++ kEOF))
              (by simp [emit]) (fun st' p' h1 => by simp [emit, n2] at h1) rfl
          have sg3 : SGrow s2 (emit (emit s2 (body ++ kTrailerNL ++ td ++ [10])) (kStartxref ++ decOf s2.pos ++ kEOF)) :=
            SGrow.of_eq (by simp [emit])
          exact ⟨((optPut_s hi hs' h1).trans (optPut_s i1 n1 h2) (optPut_grow i1 n1 h2)).trans sg3 g3, by simp [emit, n2]⟩
        · simp at h

theorem step_s {s s' : WState} {op : Op} (hi : Inv s) (ho : OpenInv s) (hobj : s.opts.objStm = false)
    (h : step s op = .ok s') : SGrow s s' ∧ OpenInv s' := by
  cases op with
  | alloc =>
    simp only [step] at h
    split at h
    · rename_i s1 r ha
      simp only [Except.ok.injEq] at h
      subst h
      exact alloc_s ho ha
    · simp at h
  | put num gen o => exact put_s hi ho h
  | openStream num gen dict ul => exact openStream_s h
  | write p => exact streamWrite_s hi ho h
  | closeStream => exact ⟨streamClose_s hi ho h, OpenInv.of_none (streamClose_inv hi h).2.1⟩
  | writeCompressed items raw =>
    obtain ⟨a, b⟩ := writeCompressed_s hi hobj h
    exact ⟨a, OpenInv.of_none b⟩
  | close cat info tr raw =>
    obtain ⟨a, b⟩ := close_s hi hobj h
    exact ⟨a, OpenInv.of_none b⟩
  | openStreamFail num gen =>
    obtain ⟨hs, _, n, _, _, rfl⟩ := openStreamFail_fields h
    exact ⟨SGrow.of_eq rfl, OpenInv.of_none hs⟩
  | rejected op => rw [rejected_fields h]; exact ⟨SGrow.of_eq rfl, ho⟩

theorem run_s (ops : List Op) : ∀ {s s' : WState} {i : Nat}, Inv s → OpenInv s → s.opts.objStm = false →
    run s ops i = .ok s' → SGrow s s' := by
  induction ops with
  | nil => intro s s' i _ _ _ h; simp [run] at h; subst h; exact SGrow.of_eq rfl
  | cons op rest ih =>
    intro s s' i hi ho hobj h
    simp only [run] at h
    split at h
    · simp at h
    · rename_i s1 h1
      obtain ⟨i1, o1⟩ := step_inv hi h1
      obtain ⟨sg1, oi1⟩ := step_s hi ho hobj h1
      have hobj1 : s1.opts.objStm = false := by rw [o1]; exact hobj
      exact sg1.trans (ih i1 oi1 hobj1 h) (run_grow rest i1 hobj1 h)

/-- **sdoc_invariant.**  For every program the writer model accepts in table mode, every stream
object that was completed (`OpenStream`/`Write`*/`Close`, `Put` of a stream, also from the queue of
another stream) stands in the file at its entry's offset: header, the dictionary with the final
`/Length` text (direct, patched over the reserved blanks, or `r 0 R` with the integer object `r`
in the document), `stream`, exactly the bytes handed to `Write`, `endstream endobj`. -/
theorem sdoc_invariant (o : WOpts) (s0 s : WState) (ops : List Op) (hobj : o.objStm = false)
    (h0 : initState o = some s0) (h : run s0 ops 0 = .ok s) :
    ∀ x, x ∈ s.sdoc → SDocAt s x := by
  obtain ⟨hopts0, _, hstm0, _⟩ := initState_facts o s0 h0
  have hsd0 : s0.sdoc = [] := by
    unfold initState at h0
    cases hh : header o with
    | none => simp [hh] at h0
    | some hd => simp only [hh, Option.map_some, Option.some.injEq] at h0; subst h0; rfl
  have hg := run_s ops (init_inv o s0 h0) (OpenInv.of_none hstm0) (by rw [hopts0]; exact hobj) h
  intro x hx
  rcases hg x hx with h | h
  · rw [hsd0] at h; cases h
  · exact h

theorem fmtDictLen_head {opt : FmtOpt} {lit : Bool} {kv : List (Bytes × Obj)} {v bytes : Bytes} {off : Nat}
    (h : fmtDictLen opt lit kv v = some (bytes, off)) : ∃ dt, bytes = 60 :: 60 :: dt := by
  unfold fmtDictLen at h
  simp only at h
  split at h
  · simp only [Option.some.injEq, Prod.mk.injEq] at h
    obtain ⟨h1, _⟩ := h
    subst h1
    simp only [List.append_assoc, List.cons_append, List.nil_append]
    exact ⟨_, rfl⟩
  · simp at h

theorem mem_takeWhile_prop {α : Type} (p : α → Bool) (l : List α) (x : α) (h : x ∈ l.takeWhile p) : p x = true := by
  induction l with
  | nil => simp at h
  | cons a as ih =>
    simp only [List.takeWhile] at h
    split at h
    · simp at h; rcases h with rfl | h
      · assumption
      · exact ih h
    · simp at h

theorem sdBefore_keys (d : List (Bytes × Obj)) : ∀ e ∈ rdKV (sdBefore d), e.1 ≠ kLength := by
  intro e he hk
  have h1 : e.1 ∈ keysOf (sdBefore d) := keysOf_rdKV_sub _ _ (List.mem_map.mpr ⟨e, he, rfl⟩)
  obtain ⟨e', he', hek⟩ := List.mem_map.mp h1
  have := mem_takeWhile_prop _ _ _ he'
  simp at this
  exact this (by rw [hek, hk])

theorem dictGet_len (b a : List (Bytes × Obj)) (lv : Obj) (hb : ∀ e ∈ b, e.1 ≠ kLength) (hlv : lv ≠ .null) :
    dictGet (b ++ (kLength, lv) :: a) kLen = some lv := by
  unfold dictGet
  have : (b ++ (kLength, lv) :: a).find? (fun e => e.1 == kLen) = some (kLength, lv) := by
    induction b with
    | nil => simp [kLength, kLen]
    | cons x xs ih =>
      have hx : (x.1 == kLen) = false := by
        have := hb x (by simp)
        simp [kLen]; simpa [kLength] using this
      simp only [List.cons_append, List.find?_cons, hx]
      exact ih (fun e he => hb e (by simp [he]))
  rw [this]
  cases lv <;> simp_all

theorem sdAfter_keys (d : List (Bytes × Obj)) (hg : good (.dict (sdKv0 d)) = true)
    (hd : depthOf (.dict (sdKv0 d)) ≤ Gen.scanner_maxScannerNestDepth) :
    ∀ e ∈ rdKV (sdAfter d), e.1 ≠ kLength := by
  obtain ⟨x, _, hxk, _, _, hnd, _⟩ := sd_facts d hg hd
  intro e he hk
  have h1 : e.1 ∈ keysOf (sdAfter d) := keysOf_rdKV_sub _ _ (List.mem_map.mpr ⟨e, he, rfl⟩)
  have hkeys : keysOf (sdBefore d ++ x :: sdAfter d) = keysOf (sdBefore d) ++ kLength :: keysOf (sdAfter d) := by
    simp [keysOf, hxk]
  rw [hkeys] at hnd
  have := (List.nodup_cons.mp (List.nodup_append.mp hnd).2.1).1
  exact this (hk ▸ h1)

theorem filter_len (b a : List (Bytes × Obj)) (lv : Obj) (hb : ∀ e ∈ b, e.1 ≠ kLength) (ha : ∀ e ∈ a, e.1 ≠ kLength) :
    (b ++ (kLength, lv) :: a).filter (fun e => e.1 != kLen) = b ++ a := by
  have hk : kLen = kLength := rfl
  rw [List.filter_append, List.filter_cons]
  have h1 : b.filter (fun e => e.1 != kLen) = b := by
    rw [List.filter_eq_self]; intro e he; simp [hk]; exact hb e he
  have h2 : a.filter (fun e => e.1 != kLen) = a := by
    rw [List.filter_eq_self]; intro e he; simp [hk]; exact ha e he
  have hlv : ((kLength, lv).1 != kLen) = false := by simp [hk]
  rw [h1, h2, hlv]
  simp

/-- **get_stream_rt.**  `Reader.get` on the entry of a stream object that stands in the file
returns a stream whose extent holds exactly the bytes written; its dictionary is the sorted
dictionary read back, without `/Length`. -/
theorem get_stream_rt (file : Bytes) (m : XMap) (opt : FmtOpt) (n g : Nat) (d : List (Bytes × Obj)) (body : Bytes)
    (pos : Int) (dictBytes value : Bytes) (off : Nat) (doc : List (Nat × Nat × Obj))
    (hm : m.get n = some { inStream := 0, pos := pos, gen := g }) (hpos : 0 ≤ pos)
    (hfmt : fmtDictLen opt false d value = some (dictBytes, off))
    (hlt : LenText doc value body.length)
    (hat : At file pos.toNat (objHeader n g ++ dictBytes ++ kStream ++ body ++ kEndstream))
    (hg : good (.dict (sdKv0 d)) = true) (hd : depthOf (.dict (sdKv0 d)) ≤ Gen.scanner_maxScannerNestDepth)
    (hnum : n < Gen.fio_maxXRefSize) (hgen : g ≤ Gen.fio_maxGeneration)
    (hsize : body.length ≤ 9223372036854775807) (hfs : file.length < 9223372036854775808)
    (inflate : Bytes → Option Bytes) (getInt : Obj → Except Err Int)
    (hgi : ∀ i, getInt (.int i) = .ok i)
    (hgr : ∀ r len, (r, 0, Obj.int len) ∈ doc → getInt (.ref r 0) = .ok len) :
    ∃ start, readerGet file m 0 inflate getInt n g
        = .ok (some (.stream (rdKV (sdBefore d) ++ rdKV (sdAfter d)) start body.length)) ∧
      (file.drop start).take body.length = body := by
  obtain ⟨rest, hdrop⟩ := At.drop hat
  obtain ⟨dt, hdt⟩ := fmtDictLen_head hfmt
  -- the value of /Length
  obtain ⟨lv, hlv, hlvn, hgetInt⟩ : ∃ lv, LenVal value lv ∧ lv ≠ .null ∧ getInt lv = .ok (body.length : Int) := by
    rcases hlt with ⟨j, hj⟩ | ⟨r, hr1, hr2, hr3⟩
    · refine ⟨.int body.length, ?_, by simp, hgi _⟩
      rw [hj, decOf_eq_natDec]
      exact lenVal_patched body.length j (by omega)
    · refine ⟨.ref r 0, ?_, by simp, hgr r _ hr3⟩
      rw [hr1, decOf_eq_natDec]
      exact lenVal_ref r (by simpa [Gen.fio_maxXRefSize, Gen.xref_maxXRefSize] using hr2)
  have hrd : ∀ rest' fuel, fuel ≥ 3 * (dictBytes ++ rest').length + 2 →
      readDict fuel 0 (dictBytes ++ rest') = .ok (rdKV (sdBefore d) ++ (kLength, lv) :: rdKV (sdAfter d), rest') :=
    fun rest' fuel hf => stream_dict_rt opt d value lv hlv hg hd dictBytes off hfmt rest' fuel hf
  have hread := stream_obj_rt n g hnum hgen dictBytes body rest _ lv dt hdt hrd pos.toNat getInt
    (dictGet_len _ _ lv (sdBefore_keys d) hlvn) hgetInt
    (by have := hat.end_le; simp at this ⊢; omega)
  rw [filter_len _ _ lv (sdBefore_keys d) (sdAfter_keys d hg hd)] at hread
  refine ⟨pos.toNat + (objHeader n g).length + dictBytes.length + 8, ?_, ?_⟩
  · unfold readerGet
    have hu : entryUsable (some { inStream := 0, pos := pos, gen := g }) g = true := by
      simp [entryUsable, isFree]; omega
    simp only [hm, hu, Bool.not_true, Bool.false_eq_true, ↓reduceIte, bne_self_eq_false, Nat.add_zero]
    rw [hdrop, hread]
    simp
  · obtain ⟨pre, post, h1, h2⟩ := hat
    subst h1
    have : pre ++ (objHeader n g ++ dictBytes ++ kStream ++ body ++ kEndstream) ++ post
        = (pre ++ objHeader n g ++ dictBytes ++ kStream) ++ (body ++ (kEndstream ++ post)) := by
      simp only [List.append_assoc]
    rw [this, List.drop_left' (by simp [kStream]; omega), List.take_left' rfl]

theorem rdKV_append : ∀ (a b : List (Bytes × Obj)), rdKV (a ++ b) = rdKV a ++ rdKV b := by
  intro a b
  induction a with
  | nil => simp [rdKV]
  | cons e es ih =>
    obtain ⟨k, v⟩ := e
    by_cases hv : v = .null
    · subst hv; simpa [rdKV] using ih
    · rw [List.cons_append, rdKV_cons_nonnull k v _ hv, rdKV_cons_nonnull k v _ hv, ih]; rfl

theorem canonKV_append : ∀ (a b : List (Bytes × Obj)), canonKV (a ++ b) = canonKV a ++ canonKV b := by
  intro a b
  induction a with
  | nil => simp [canonKV]
  | cons e es ih => obtain ⟨k, v⟩ := e; simp [canonKV, ih]

/-- **stream_dict_nrm.**  The dictionary of the stream read back is, in C01's comparison form, the
dictionary given to `OpenStream` without its `/Length` entry. -/
theorem stream_dict_nrm (d : List (Bytes × Obj)) (hg : good (.dict (sdKv0 d)) = true)
    (hd : depthOf (.dict (sdKv0 d)) ≤ Gen.scanner_maxScannerNestDepth) :
    nrm (.dict (rdKV (sdBefore d) ++ rdKV (sdAfter d))) = nrm (.dict (d.filter fun e => e.1 != kLength)) := by
  obtain ⟨x, hx, hxk, _, _, hnd, _⟩ := sd_facts d hg hd
  -- goodness and keys of the caller's entries
  have hg' := hg
  simp only [good, Bool.and_eq_true, decide_eq_true_eq] at hg'
  obtain ⟨⟨hgkv, hndk⟩, _⟩ := hg'
  have hgd : goodKV (d.filter fun e => e.1 != kLength) = true := by
    rw [goodKV_iff] at hgkv ⊢
    intro e he; exact hgkv e (by simp [sdKv0, he])
  -- the sorted list is a permutation of the canonical entries plus /Length
  have hp : (sdBefore d ++ x :: sdAfter d).Perm (canonKV (d.filter fun e => e.1 != kLength) ++ [(kLength, Obj.int 0)]) := by
    rw [← hx]
    have := sortedEntries_perm (canonKV (sdKv0 d))
    simpa [sdAll, sdKv0, canonKV_append, canonKV, Obj.canon] using this
  -- `x` is that entry
  have hxe : x = (kLength, Obj.int 0) := by
    have hm : x ∈ canonKV (d.filter fun e => e.1 != kLength) ++ [(kLength, Obj.int 0)] :=
      hp.mem_iff.mp (by simp)
    rcases List.mem_append.mp hm with h | h
    · exfalso
      have : x.1 ∈ keysOf (canonKV (d.filter fun e => e.1 != kLength)) := List.mem_map.mpr ⟨x, h, rfl⟩
      rw [canonKV_keys] at this
      obtain ⟨e, he, hek⟩ := List.mem_map.mp this
      have := (List.mem_filter.mp he).2
      simp at this
      exact this (by rw [hek, hxk])
    · simpa using h
  subst hxe
  have hp2 : (sdBefore d ++ sdAfter d).Perm (canonKV (d.filter fun e => e.1 != kLength)) := by
    have h1 : ((kLength, Obj.int 0) :: (sdBefore d ++ sdAfter d)).Perm
        ((kLength, Obj.int 0) :: canonKV (d.filter fun e => e.1 != kLength)) :=
      (List.perm_middle.symm.trans hp).trans (List.perm_append_singleton _ _)
    exact h1.cons_inv
  have hnd2 : (keysOf (sdBefore d ++ sdAfter d)).Nodup := by
    have : (keysOf (sdBefore d ++ sdAfter d)).Sublist (keysOf (sdBefore d ++ (kLength, Obj.int 0) :: sdAfter d)) := by
      simp only [keysOf, List.map_append, List.map_cons]
      exact List.Sublist.append (List.Sublist.refl _) (List.sublist_cons_self _ _)
    exact List.Nodup.sublist this hnd
  simp only [nrm]
  rw [← rdKV_append, ← nrmKV_rd_canon _ hgd, nrmKV_rdKV, nrmKV_rdKV]
  congr 1
  refine sortKV_perm_eq (hp2.filterMap hEntry) ?_
  exact List.Nodup.sublist (keysOf_filterMap_hEntry _) hnd2

/-! ## the trailer dictionary -/

/-- `ReadDict` on a formatted dictionary followed by anything -/
theorem readDict_fmt (opt : FmtOpt) (kv : List (Bytes × Obj)) (hg : good (.dict kv) = true)
    (hd : depthOk (.dict kv)) (td : Bytes) (hf : format opt [.dict kv] = some td)
    (rest : Bytes) (fuel : Nat) (hfuel : fuel ≥ 3 * (td ++ rest).length + 2) :
    readDict fuel 0 (td ++ rest) = .ok (rdKV (sortedEntries (canonKV kv)), rest) := by
  obtain ⟨ns', hfo⟩ := (format_single opt (.dict kv) td).mp hf
  have hgc := good_canon _ hg
  have hdc := depth_canon (.dict kv)
  simp only [Obj.canon] at hfo hgc hdc
  generalize sortedEntries (canonKV kv) = kv' at hfo hgc hdc ⊢
  obtain ⟨body, hbody, rfl, _⟩ := (fmtObj_dict_inv opt false kv' td ns').mp hfo
  simp [good] at hgc
  obtain ⟨⟨hgkv, hnd⟩, hlen⟩ := hgc
  unfold depthOk at hd
  simp only [depthOf] at hd hdc
  rw [lastIsGtOp_good kv' hgkv]
  have hB : fmtDictPlain opt kv' = some body ∨ fmtDictPretty opt kv' = some body := by
    cases hp : opt.pretty <;> simp [hp] at hbody
    · exact .inl hbody
    · exact .inr hbody
  obtain ⟨c, t, hct, hc⟩ := dictBody_head opt kv' rest body hB
  obtain ⟨f, rfl⟩ : ∃ f, fuel = f + 1 := ⟨fuel - 1, by omega⟩
  have hloop := dictReads_all opt kv' hgkv 1 (by omega) [] rest (by simp [keysOf]) hnd (by simpa using hlen)
    body hB f (by simp at hfuel ⊢; omega)
  have hsk : skipWS ((if opt.pretty = true then [10] else []) ++ (body ++ 62 :: 62 :: rest))
      = (body ++ 62 :: 62 :: rest, false) := by
    have h0 : skipWS (body ++ 62 :: 62 :: rest) = (body ++ 62 :: 62 :: rest, false) := by
      rw [hct]; exact skipWS_tok c t (close_tokStart hc).1
    cases hp : opt.pretty <;> simp [skipWS_lf, h0]
  have hshape : [60, 60] ++ (if opt.pretty = true then [10] else []) ++ body ++
      (if (!opt.pretty && false) = true then [32] else []) ++ [62, 62] ++ rest
      = 60 :: 60 :: ((if opt.pretty = true then [10] else []) ++ (body ++ 62 :: 62 :: rest)) := by simp
  rw [hshape, readDict]
  have hdd : ¬ (0 ≥ Gen.scanner_maxScannerNestDepth) := by decide
  simp only [hdd, if_false, hsk, hloop]
  rfl

def kPrevB : Bytes := [80, 114, 101, 118]
def kXRefStmB : Bytes := [88, 82, 101, 102, 83, 116, 109]

/-- what `readXRefTable` and `openTable` do behind the subsections: the `trailer` keyword, the
    trailer dictionary, and the refusal of `/Prev` and `/XRefStm` -/
def trailerPart (m : XMap) (r1 : Bytes) : Except Err (XMap × List (Bytes × Obj)) :=
  match skipWS r1 with
  | (_, true) => .error .eof
  | (r2, false) =>
    if !isPrefixOf kwTrailer r2 then .error .malformed else
    match skipWS (r2.drop 7) with
    | (_, true) => .error .eof
    | (r3, false) =>
      match readDict (scanFuel r3) 0 r3 with
      | .error e => .error e
      | .ok (d, _) =>
        if (d.any fun e => e.1 == kPrevB || e.1 == kXRefStmB) then .error .other else .ok (m, d)

theorem openTable_eq (file : Bytes) :
    openTable file = (match openTableXRef file with
      | .error e => .error e
      | .ok (m, r1) => trailerPart m r1) := by
  unfold openTable openTableXRef
  cases findHeaderOffset file with
  | none => rfl
  | some hdr =>
    simp only
    cases findXRef file hdr with
    | error e => rfl
    | ok start =>
      simp only
      by_cases hp : isPrefixOf kwXref (file.drop start) = true
      · simp only [hp, Bool.not_true, Bool.false_eq_true, ↓reduceIte]
        unfold readXRefTable
        simp only [hp, Bool.not_true, Bool.false_eq_true, ↓reduceIte]
        cases hsk : skipWS ((file.drop start).drop 4) with
        | mk r0 b =>
          cases b with
          | true => rfl
          | false =>
            simp only
            cases readXRefSubsections (r0.length + 1) [] r0 with
            | error e => rfl
            | ok p =>
              obtain ⟨m, r1⟩ := p
              simp only [trailerPart]
              cases skipWS r1 with
              | mk r2 b2 =>
                cases b2 with
                | true => rfl
                | false =>
                  simp only
                  by_cases ht : isPrefixOf kwTrailer r2 = true
                  · simp only [ht, Bool.not_true, Bool.false_eq_true, ↓reduceIte]
                    cases skipWS (r2.drop 7) with
                    | mk r3 b3 =>
                      cases b3 with
                      | true => rfl
                      | false =>
                        simp only
                        cases readDict (scanFuel r3) 0 r3 with
                        | error e => rfl
                        | ok q => obtain ⟨d, r4⟩ := q; rfl
                  · simp [ht]
      · simp [hp]


theorem mem_closeTrailer {tr : List (Bytes × Obj)} {cr ir : Option Nat} {size : Nat} {e : Bytes × Obj}
    (he : e ∈ closeTrailer tr cr ir size) :
    (e ∈ tr ∧ e.1 ≠ kRoot ∧ e.1 ≠ kInfo ∧ e.1 ≠ kSize) ∨ (∃ n, cr = some n ∧ e = (kRoot, .ref n 0)) ∨
      (∃ n, ir = some n ∧ e = (kInfo, .ref n 0)) ∨ e = (kSize, .int size) := by
  simp only [closeTrailer, List.mem_append, List.mem_singleton] at he
  rcases he with ((he | he) | he) | he
  · have := List.mem_filter.mp he
    simp at this
    exact .inl ⟨this.1, this.2.1.1, this.2.1.2, this.2.2⟩
  · cases cr with
    | none => simp [refOfO] at he
    | some n => simp [refOfO] at he; exact .inr (.inl ⟨n, rfl, he⟩)
  · cases ir with
    | none => simp [refOfO] at he
    | some n => simp [refOfO] at he; exact .inr (.inr (.inl ⟨n, rfl, he⟩))
  · exact .inr (.inr (.inr he))

/-- the trailer dictionary `Close` assembles is within C01's limits when the entries fixed at
    `NewWriter` are -/
theorem closeTrailer_good (tr : List (Bytes × Obj)) (cr ir : Option Nat) (size : Nat)
    (htg : goodKV tr = true) (htn : (keysOf tr).Nodup) (htl : tr.length + 3 ≤ Gen.scanner_maxDictLen)
    (htd : depthKV tr + 1 ≤ Gen.scanner_maxScannerNestDepth)
    (hcr : ∀ n, cr = some n → n < Gen.fio_maxXRefSize) (hir : ∀ n, ir = some n → n < Gen.fio_maxXRefSize)
    (hsz : size ≤ Gen.fio_maxXRefSize) :
    good (.dict (closeTrailer tr cr ir size)) = true ∧ depthOk (.dict (closeTrailer tr cr ir size)) := by
  have hfit : Gen.fio_maxXRefSize = Gen.xref_maxXRefSize := rfl
  refine ⟨?_, ?_⟩
  · simp only [good, Bool.and_eq_true, decide_eq_true_eq]
    refine ⟨⟨?_, ?_⟩, ?_⟩
    · rw [goodKV_iff] at htg ⊢
      intro e he
      rcases mem_closeTrailer he with ⟨h, _⟩ | ⟨n, h1, rfl⟩ | ⟨n, h1, rfl⟩ | rfl
      · exact htg e h
      · have := hcr n h1
        exact ⟨by show goodName kRoot = true; decide, by simp [good, ← hfit, this]⟩
      · have := hir n h1
        exact ⟨by show goodName kInfo = true; decide, by simp [good, ← hfit, this]⟩
      · refine ⟨by show goodName kSize = true; decide, ?_⟩
        simp [good, Gen.fio_maxXRefSize] at hsz ⊢; omega
    · -- keys
      have hsub : (keysOf (closeTrailer tr cr ir size)).Sublist
          (keysOf (tr.filter fun e => e.1 != kRoot && e.1 != kInfo && e.1 != kSize) ++ [kRoot, kInfo, kSize]) := by
        simp only [closeTrailer, keysOf, List.map_append, List.append_assoc]
        refine List.Sublist.append (List.Sublist.refl _) ?_
        have h1 : (List.map (·.1) (refOfO cr kRoot)).Sublist [kRoot] := by
          cases cr <;> simp [refOfO]
        have h2 : (List.map (·.1) (refOfO ir kInfo)).Sublist [kInfo] := by
          cases ir <;> simp [refOfO]
        have := List.Sublist.append h1 (List.Sublist.append h2 (List.Sublist.refl [kSize]))
        simpa using this
      refine List.Nodup.sublist hsub ?_
      rw [List.nodup_append]
      refine ⟨?_, by decide, ?_⟩
      · exact List.Nodup.sublist (List.Sublist.map _ (List.filter_sublist)) htn
      · intro a ha b hb hab
        subst hab
        obtain ⟨e, he, rfl⟩ := List.mem_map.mp ha
        have := (List.mem_filter.mp he).2
        simp at this
        simp at hb
        rcases hb with h | h | h
        · exact this.1.1 h
        · exact this.1.2 h
        · exact this.2 h
    · have h1 : (tr.filter fun e => e.1 != kRoot && e.1 != kInfo && e.1 != kSize).length ≤ tr.length :=
        List.length_filter_le _ _
      have h2 : (refOfO cr kRoot).length ≤ 1 := by cases cr <;> simp [refOfO]
      have h3 : (refOfO ir kInfo).length ≤ 1 := by cases ir <;> simp [refOfO]
      simp only [closeTrailer, List.length_append, List.length_cons, List.length_nil]
      omega
  · unfold depthOk
    simp only [depthOf]
    have : depthKV (closeTrailer tr cr ir size) ≤ depthKV tr := by
      rw [depthKV_le]
      intro e he
      rcases mem_closeTrailer he with ⟨h, _⟩ | ⟨n, _, rfl⟩ | ⟨n, _, rfl⟩ | rfl
      · exact (depthKV_le tr _).mp (Nat.le_refl _) e h
      · simp [depthOf]
      · simp [depthOf]
      · simp [depthOf]
    omega

theorem format_dict_head (opt : FmtOpt) (kv : List (Bytes × Obj)) (td : Bytes)
    (hf : format opt [.dict kv] = some td) : ∃ t, td = 60 :: 60 :: t := by
  obtain ⟨ns', hfo⟩ := (format_single opt (.dict kv) td).mp hf
  simp only [Obj.canon] at hfo
  obtain ⟨body, _, rfl, _⟩ := (fmtObj_dict_inv opt false _ td ns').mp hfo
  simp only [List.append_assoc, List.cons_append, List.nil_append]
  exact ⟨_, rfl⟩

/-- the hypotheses on the trailer entries fixed at `NewWriter` (`ID`, …): within C01's limits and
    without `/Prev` and `/XRefStm` -/
structure TrailerOk (tr : List (Bytes × Obj)) : Prop where
  good : goodKV tr = true
  nodup : (keysOf tr).Nodup
  len : tr.length + 3 ≤ Gen.scanner_maxDictLen
  depth : depthKV tr + 1 ≤ Gen.scanner_maxScannerNestDepth
  noPrev : ∀ e ∈ tr, e.1 ≠ kPrevB ∧ e.1 ≠ kXRefStmB

/-- **openTable_close.**  On the file a table-mode `Close` leaves behind, the reader's
`openTable` succeeds: it returns exactly the writer's map and a trailer dictionary equal (in C01's
comparison form) to the one `Close` assembled — the fixed entries, `Root` pointing at the catalog
object, `Info` (if any) at the Info object, `Size`. -/
theorem openTable_close {s s' : WState} {cat : Obj} {info : Option Obj} {tr : List (Bytes × Obj)} {raw : Bytes}
    (hi : Inv s) (hobj : s.opts.objStm = false) (h : close s cat info tr raw = .ok s')
    (hhdr : ∃ rest, s.out = kPdf ++ rest)
    (hsize : s'.out.length < 10000000000)
    (hgen : ∀ n e, s'.xref.get n = some e → e.gen ≤ 65535)
    (hnr : s'.nextRef ≤ Gen.fio_maxXRefSize) (htr : TrailerOk tr) :
    ∃ m trd cr ir, openTable s'.out = .ok (m, trd) ∧
      (∀ j, j < s'.nextRef → m.get j = some (normTab (s'.xref.get j))) ∧
      (∀ j, s'.nextRef ≤ j → m.get j = none) ∧
      nrm (.dict trd) = nrm (.dict (closeTrailer tr cr ir s'.nextRef)) ∧
      (∃ n, cr = some n ∧ (n, 0, cat) ∈ s'.doc) ∧
      (info = none → ir = none) ∧
      (∀ i, info = some i → ∃ n, ir = some n ∧ (n, 0, i) ∈ s'.doc) := by
  obtain ⟨m, td, tail, cr, ir, hopen, hm1, hm2, htd, ⟨nc, hc1, hc2, hc3⟩, hi0, hi1⟩ :=
    openTableXRef_close hi hobj h hhdr hsize hgen hnr
  obtain ⟨hgood, hdep⟩ := closeTrailer_good tr cr ir s'.nextRef htr.good htr.nodup htr.len htr.depth
    (fun n hn => by rw [hc1] at hn; cases hn; exact hc2)
    (fun n hn => by
      cases hinfo : info with
      | none => rw [hi0 hinfo] at hn; cases hn
      | some i =>
        obtain ⟨n', h1, h2, _⟩ := hi1 i hinfo
        rw [h1] at hn; cases hn; exact h2) hnr
  refine ⟨m, rdKV (sortedEntries (canonKV (closeTrailer tr cr ir s'.nextRef))), cr, ir, ?_, hm1, hm2, ?_,
    ⟨nc, hc1, hc3⟩, hi0, fun i hi' => by obtain ⟨n, a, _, b⟩ := hi1 i hi'; exact ⟨n, a, b⟩⟩
  · rw [openTable_eq, hopen]
    simp only [trailerPart]
    have h116 : isSpace 116 = false := by decide +kernel
    have hsk1 : skipWS (kwTrailer ++ (10 :: (td ++ tail))) = (kwTrailer ++ (10 :: (td ++ tail)), false) :=
      skipWS_nonspace 116 _ h116 (by omega)
    obtain ⟨t, ht⟩ := format_dict_head _ _ _ htd
    have hsk2 : skipWS ((kwTrailer ++ (10 :: (td ++ tail))).drop 7) = (td ++ tail, false) := by
      rw [List.drop_left' (by simp [kwTrailer]), skipWS_lf, ht]
      exact skipWS_tok 60 _ (by decide)
    have hrd := readDict_fmt s.opts.fmtPlain _ hgood hdep td htd tail (scanFuel (td ++ tail)) (by simp [scanFuel])
    simp only [hsk1, isPrefixOf_self, Bool.not_true, Bool.false_eq_true, ↓reduceIte, hsk2, hrd]
    have hany : (rdKV (sortedEntries (canonKV (closeTrailer tr cr ir s'.nextRef)))).any
        (fun e => e.1 == kPrevB || e.1 == kXRefStmB) = false := by
      rw [List.any_eq_false]
      intro e he
      have h1 : e.1 ∈ keysOf (sortedEntries (canonKV (closeTrailer tr cr ir s'.nextRef))) :=
        keysOf_rdKV_sub _ _ (List.mem_map.mpr ⟨e, he, rfl⟩)
      have h2 : e.1 ∈ keysOf (closeTrailer tr cr ir s'.nextRef) := by
        have := (keysOf_perm (sortedEntries_perm (canonKV (closeTrailer tr cr ir s'.nextRef)))).mem_iff.mp h1
        rwa [canonKV_keys] at this
      obtain ⟨e', he', hek⟩ := List.mem_map.mp h2
      have hne : e'.1 ≠ kPrevB ∧ e'.1 ≠ kXRefStmB := by
        rcases mem_closeTrailer he' with ⟨hm, _⟩ | ⟨n, _, rfl⟩ | ⟨n, _, rfl⟩ | rfl
        · exact htr.noPrev e' hm
        · exact ⟨by show kRoot ≠ kPrevB; decide, by show kRoot ≠ kXRefStmB; decide⟩
        · exact ⟨by show kInfo ≠ kPrevB; decide, by show kInfo ≠ kXRefStmB; decide⟩
        · exact ⟨by show kSize ≠ kPrevB; decide, by show kSize ≠ kXRefStmB; decide⟩
      rw [hek] at hne
      simp [hne.1, hne.2]
    simp only [hany, Bool.false_eq_true, ↓reduceIte]
  · have := nrm_rd_canon (.dict (closeTrailer tr cr ir s'.nextRef)) hgood
    simpa [Obj.canon, rd] using this

/-- **file_rt_table.**  The whole-file round trip for classic cross-reference tables.

For every option set without object streams and without encryption, and every program the writer
model accepts that ends in `Close` — any mix of `Alloc`, `Put` of plain objects and of stream
objects, `OpenStream`/`Write`*/`Close` with a direct, a patched (seekable sink) or an indirect
(non-seekable sink) `/Length`, `Put` while a stream is open, `WriteCompressed` (which falls back to
`Put`s here), references that are never written — if the file is shorter than 10^10 bytes,
generations are ≤ 65535, object numbers stay below the reader's limit and the trailer entries fixed
at `NewWriter` are within C01's limits, then the reader model, applied to nothing but the bytes of
the file:

* `openTable` succeeds: `%PDF-` at offset 0, the last `startxref`, the table, the trailer
  dictionary.  The trailer equals (in C01's comparison form) the one `Close` assembled: fixed
  entries, `Root` → the catalog object, `Info` → the Info object (if any), `Size`.
* `Reader.get` returns every plain object that reached the file (`WState.doc`: direct and deferred
  `Put`s, indirect `/Length` integers, catalog, Info) and is within C01's limits, up to C01's
  comparison form;
* `Reader.get` returns for every completed stream object (`WState.sdoc`) a stream whose extent in
  the file holds exactly the bytes handed to `Write`, with the dictionary given to `OpenStream`
  (without `/Length`) in comparison form; `getInt` stands for the reader's resolution of `/Length`
  (an integer, or a reference to an integer object of the document);
* `Reader.get` returns `null` for every reference whose number was never written, is free, or was
  written with another generation. -/
theorem file_rt_table (o : WOpts) (s0 s : WState) (ops : List Op)
    (cat : Obj) (info : Option Obj) (tr : List (Bytes × Obj)) (raw : Bytes)
    (hobj : o.objStm = false) (henc : o.encrypted = false)
    (h0 : initState o = some s0)
    (h : run s0 (ops ++ [.close cat info tr raw]) 0 = .ok s)
    (hsize : s.out.length < 10000000000)
    (hgen : ∀ n e, s.xref.get n = some e → e.gen ≤ 65535)
    (hnr : s.nextRef ≤ Gen.fio_maxXRefSize) (htr : TrailerOk tr)
    (inflate : Bytes → Option Bytes) (getInt : Obj → Except Err Int)
    (hgi : ∀ i, getInt (.int i) = .ok i)
    (hgr : ∀ r len, (r, 0, Obj.int len) ∈ s.doc → getInt (.ref r 0) = .ok len) :
    ∃ m trd cr ir, openTable s.out = .ok (m, trd) ∧
      nrm (.dict trd) = nrm (.dict (closeTrailer tr cr ir s.nextRef)) ∧
      (∃ n, cr = some n ∧ (n, 0, cat) ∈ s.doc) ∧
      (info = none → ir = none) ∧
      (∀ i, info = some i → ∃ n, ir = some n ∧ (n, 0, i) ∈ s.doc) ∧
      (∀ n g ob, (n, g, ob) ∈ s.doc → good ob = true → depthOk ob → isRefObj ob = false →
        ∃ r, readerGet s.out m 0 inflate getInt n g = .ok (some (.plain r)) ∧ nrm r = nrm ob) ∧
      (∀ n g d body, (n, g, d, body) ∈ s.sdoc → good (.dict (sdKv0 d)) = true → depthOk (.dict (sdKv0 d)) →
        ∃ rdict start, readerGet s.out m 0 inflate getInt n g = .ok (some (.stream rdict start body.length)) ∧
          (s.out.drop start).take body.length = body ∧
          nrm (.dict rdict) = nrm (.dict (d.filter fun e => e.1 != kLength))) ∧
      (∀ n g, (∀ e, s.xref.get n = some e → e.pos < 0 ∨ e.gen ≠ g) →
        readerGet s.out m 0 inflate getInt n g = .ok none) := by
  obtain ⟨hopts0, hdoc0, hstm0, rest0, hout0⟩ := initState_facts o s0 h0
  have hsd0 : s0.sdoc = [] := by
    unfold initState at h0
    cases hh : header o with
    | none => simp [hh] at h0
    | some hd => simp only [hh, Option.map_some, Option.some.injEq] at h0; subst h0; rfl
  have hi0 := init_inv o s0 h0
  obtain ⟨s1, hrun, hstep⟩ := run_append ops _ h
  have hclose : close s1 cat info tr raw = .ok s := hstep
  have hi1 := run_inv ops hi0 hrun
  have hopts1 : s1.opts = o := by rw [run_opts ops hi0 hrun, hopts0]
  have hobj0 : s0.opts.objStm = false := by rw [hopts0]; exact hobj
  have hobj1 : s1.opts.objStm = false := by rw [hopts1]; exact hobj
  have g01 := run_grow ops hi0 hobj0 hrun
  have g1s := close_grow hi1 hobj1 hclose
  have sg01 := run_s ops hi0 (OpenInv.of_none hstm0) hobj0 hrun
  have sg1s := (close_s hi1 hobj1 hclose).1
  obtain ⟨his, hoptss⟩ := close_inv hi1 hclose
  have hlit : s.opts.litStr = false := by rw [hoptss, hopts1]; simp [WOpts.litStr, henc]
  have hhdr1 : ∃ rest, s1.out = kPdf ++ rest := by
    obtain ⟨pre, rest, h1, h2⟩ := g01.keep 0 kPdf ⟨[], rest0, by simpa using hout0, rfl⟩
      (fun st p hs => by rw [hstm0] at hs; cases hs)
    have : pre = [] := by simpa using h2
    subst this
    exact ⟨rest, by simpa using h1⟩
  obtain ⟨m, trd, cr, ir, hopen, hm1, hm2, htrd, hcr, hir0, hir1⟩ :=
    openTable_close hi1 hobj1 hclose hhdr1 hsize hgen hnr htr
  have hentry : ∀ n (e : XEntry), s.xref.get n = some e → 0 ≤ e.pos →
      m.get n = some { inStream := 0, pos := e.pos, gen := e.gen } ∧ n < Gen.fio_maxXRefSize ∧
      e.gen ≤ Gen.fio_maxGeneration := by
    intro n e hxe hpos
    have hlt : n < s.nextRef := his.below n e hxe
    refine ⟨?_, by omega, by have := hgen n e hxe; simpa [Gen.fio_maxGeneration] using this⟩
    rw [hm1 n hlt, hxe]
    simp [normTab, hpos]
  refine ⟨m, trd, cr, ir, hopen, htrd, hcr, hir0, hir1, ?_, ?_, ?_⟩
  · intro n g ob hmem hgood hdep hnref
    have hdocat : DocAt s (n, g, ob) := by
      rcases (g01.trans g1s).doc _ hmem with hh | hh
      · rw [hdoc0] at hh; cases hh
      · exact hh
    obtain ⟨e, body, hxe, heg, hins, hpos, hwf, hat, _⟩ := hdocat
    simp only at hxe heg hwf hat
    obtain ⟨hmn, hn, hg65⟩ := hentry n e hxe hpos
    rw [heg] at hmn hg65
    have hfmt : format o.fmt [ob] = some body := by
      rw [hoptss, hopts1] at hwf
      simpa [wformat, WOpts.litStr, henc] using hwf
    exact get_plain_rt s.out m o.fmt n g ob e.pos body hmn hpos hfmt hat hgood hdep hnref hn hg65 inflate getInt
  · intro n g d body hmem hgood hdep
    have hsd : SDocAt s (n, g, d, body) := by
      rcases (sg01.trans sg1s g1s) _ hmem with hh | hh
      · rw [hsd0] at hh; cases hh
      · exact hh
    obtain ⟨e, dictBytes, value, off, hxe, heg, hins, hpos, hfd, hlt, hat, _⟩ := hsd
    simp only at hxe heg hfd hlt hat
    obtain ⟨hmn, hn, hg65⟩ := hentry n e hxe hpos
    rw [heg] at hmn hg65
    rw [hlit] at hfd
    have hbl : body.length ≤ 9223372036854775807 := by
      have := hat.end_le
      simp at this
      omega
    obtain ⟨start, hget, hbody⟩ := get_stream_rt s.out m s.opts.fmt n g d body e.pos dictBytes value off s.doc
      hmn hpos hfd hlt hat hgood hdep hn hg65 hbl (by omega) inflate getInt hgi hgr
    exact ⟨_, start, hget, hbody, stream_dict_nrm d hgood hdep⟩
  · intro n g hfree
    by_cases hlt : n < s.nextRef
    · have hmn := hm1 n hlt
      cases hxe : s.xref.get n with
      | none =>
        rw [hxe] at hmn
        exact get_free s.out m n g _ (.inr ⟨hmn, by simp [normTab]⟩) inflate getInt
      | some e =>
        rw [hxe] at hmn
        by_cases hp : e.pos < 0
        · exact get_free s.out m n g _ (.inr ⟨hmn, by simp [normTab]; split <;> simp <;> omega⟩) inflate getInt
        · rcases hfree e hxe with hh | hh
          · omega
          · refine get_wrong_gen s.out m n g _ hmn ?_ inflate getInt
            simp [normTab]; split
            · exact hh
            · omega
    · exact get_free s.out m n g default (.inl (hm2 n (by omega))) inflate getInt

/-! ## completeness of the ghost document: every in-use entry belongs to a recorded object -/

/-- reference `(n, g)` is a recorded plain object, a recorded stream object, or the open stream -/
def Cov (s : WState) (n g : Nat) : Prop :=
  (∃ o, (n, g, o) ∈ s.doc) ∨ (∃ d b, (n, g, d, b) ∈ s.sdoc) ∨ (∃ st, s.stm = some st ∧ st.num = n ∧ st.gen = g)

def Cover (s : WState) : Prop :=
  ∀ n e, s.xref.get n = some e → e.inStream = 0 → 0 ≤ e.pos → Cov s n e.gen

theorem cover_of {s s' : WState} (hc : Cover s)
    (hx : ∀ n e, s'.xref.get n = some e → s.xref.get n = some e ∨ Cov s' n e.gen)
    (hm : ∀ n g, Cov s n g → Cov s' n g) : Cover s' := by
  intro n e hg h0 hp
  rcases hx n e hg with h | h
  · exact hm _ _ (hc n e h h0 hp)
  · exact h

theorem alloc_cover {s s' : WState} {r : Nat} (hc : Cover s) (h : alloc s = some (s', r)) : Cover s' := by
  unfold alloc at h
  split at h
  · simp at h
  · simp only [Option.some.injEq, Prod.mk.injEq] at h
    obtain ⟨rfl, _⟩ := h
    exact hc

theorem putPlain_cover {s s' : WState} {num gen : Nat} {o : Obj} (hc : Cover s) (hs : s.stm = none)
    (h : putPlain s num gen o = .ok s') : Cover s' := by
  unfold putPlain at h
  split at h
  · simp at h
  · rename_i x n hset
    obtain ⟨_, hx, _, _⟩ := setXRef_ok hset
    split at h
    · simp at h
    · simp only [Except.ok.injEq] at h
      subst h
      refine cover_of hc ?_ ?_
      · intro n' e hg
        simp only [emit] at hg
        rw [hx, C02fiob.get_set] at hg
        split at hg
        · rename_i heq
          simp only [Option.some.injEq] at hg
          subst hg; subst heq
          exact .inr (.inl ⟨o, by simp [emit]⟩)
        · exact .inl hg
      · intro n' g' hcov
        rcases hcov with ⟨o', ho'⟩ | ⟨d, b, hdb⟩ | ⟨st, hst, _⟩
        · exact .inl ⟨o', by simp [emit, ho']⟩
        · exact .inr (.inl ⟨d, b, by simpa [emit] using hdb⟩)
        · rw [hs] at hst; cases hst

theorem openStream_cover {s s' : WState} {num gen : Nat} {dict : List (Bytes × Obj)} {ul : Option Int}
    (hc : Cover s) (h : openStream s num gen dict ul = .ok s') : Cover s' := by
  unfold openStream at h
  split at h
  · simp at h
  · rename_i hs
    split at h
    · simp at h
    · rename_i x n hset
      obtain ⟨_, hx, _, _⟩ := setXRef_ok hset
      simp only [Except.ok.injEq] at h
      subst h
      refine cover_of hc ?_ ?_
      · intro n' e hg
        simp only at hg
        rw [hx, C02fiob.get_set] at hg
        split at hg
        · rename_i heq
          simp only [Option.some.injEq] at hg
          subst hg; subst heq
          exact .inr (.inr (.inr ⟨_, rfl, rfl, rfl⟩))
        · exact .inl hg
      · intro n' g' hcov
        rcases hcov with ⟨o', ho'⟩ | ⟨d, b, hdb⟩ | ⟨st, hst, _⟩
        · exact .inl ⟨o', ho'⟩
        · exact .inr (.inl ⟨d, b, hdb⟩)
        · rw [hs] at hst; cases hst

theorem streamWrite_cover {s s' : WState} {p : Bytes} (hc : Cover s) (h : streamWrite s p = .ok s') : Cover s' := by
  unfold streamWrite at h
  split at h
  · simp at h
  · rename_i st hs
    split at h
    · simp only [Except.ok.injEq] at h
      subst h
      exact cover_of hc (fun n e hg => .inl hg) (fun n g hcov => by
        rcases hcov with h | h | ⟨st', hst', a, b⟩
        · exact .inl h
        · exact .inr (.inl h)
        · exact .inr (.inr ⟨st', by simpa [emit] using hst', a, b⟩))
    · split at h
      · simp only [Except.ok.injEq] at h
        subst h
        exact cover_of hc (fun n e hg => .inl hg) (fun n g hcov => by
          rcases hcov with h | h | ⟨st', hst', a, b⟩
          · exact .inl h
          · exact .inr (.inl h)
          · rw [hs] at hst'; cases hst'
            exact .inr (.inr ⟨_, rfl, a, b⟩))
      · split at h
        · simp at h
        · rename_i s1 st1 hsw
          simp only [Except.ok.injEq] at h
          subst h
          obtain ⟨_, _, _, _, _, hsdoc, _, hdoc, hx, _, hnum, hgen, _⟩ := startWriting_layout hsw
          exact cover_of hc (fun n e hg => .inl (by simpa [emit, hx] using hg)) (fun n g hcov => by
            rcases hcov with ⟨o, ho⟩ | ⟨d, b, hdb⟩ | ⟨st', hst', a, b⟩
            · exact .inl ⟨o, by simpa [emit, hdoc] using ho⟩
            · exact .inr (.inl ⟨d, b, by simpa [emit, hsdoc] using hdb⟩)
            · rw [hs] at hst'; cases hst'
              exact .inr (.inr ⟨st1, by simp [emit], by rw [hnum, a], by rw [hgen, b]⟩))

theorem closeLength_fields {s s1 : WState} {st st1 : OpenStm} {len : Nat}
    (h : closeLength s st = .ok (s1, st1, len)) : s1.xref = s.xref ∧ s1.doc = s.doc ∧ s1.sdoc = s.sdoc := by
  refine ⟨closeLength_xref h, ?_⟩
  unfold closeLength at h
  split at h
  · simp only at h
    split at h
    · simp only [Except.ok.injEq, Prod.mk.injEq] at h; obtain ⟨rfl, _, _⟩ := h; exact ⟨rfl, rfl⟩
    · split at h
      · simp at h
      · simp only [Except.ok.injEq, Prod.mk.injEq] at h; obtain ⟨rfl, _, _⟩ := h; exact ⟨rfl, rfl⟩
    · simp only [Except.ok.injEq, Prod.mk.injEq] at h; obtain ⟨rfl, _, _⟩ := h; exact ⟨rfl, rfl⟩
  · simp only at h
    split at h
    · simp at h
    · rename_i sx stx hsw
      simp only [Except.ok.injEq, Prod.mk.injEq] at h
      obtain ⟨rfl, _, _⟩ := h
      obtain ⟨_, _, _, _, _, hsdoc, _, hdoc, _⟩ := startWriting_layout hsw
      exact ⟨hdoc, hsdoc⟩

def PutSC (putS : WState → Nat → Nat → List (Bytes × Obj) → Option Int → Bytes → Except Err WState) : Prop :=
  ∀ {s s' : WState} {n g : Nat} {d : List (Bytes × Obj)} {ul : Option Int} {raw : Bytes},
    Inv s → Cover s → s.stm = none → putS s n g d ul raw = .ok s' → Cover s'

theorem replayWith_cover {putS} (hput : PutSOk putS) (hpc : PutSC putS) (l : List (Nat × Nat × PutObj)) :
    ∀ {s s' : WState}, Inv s → Cover s → s.stm = none → replayWith putS s l = .ok s' → Cover s' := by
  induction l with
  | nil => intro s s' _ hc _ h; simp [replayWith] at h; subst h; exact hc
  | cons x rest ih =>
    intro s s' hi hc hs h
    obtain ⟨num, gen, po⟩ := x
    cases po with
    | plain o =>
      simp only [replayWith] at h
      split at h
      · simp at h
      · rename_i s1 hp
        obtain ⟨hi1, hs1, _, _, _⟩ := putPlain_inv hi hs hp
        exact ih hi1 (putPlain_cover hc hs hp) hs1 h
    | stream d ul raw =>
      simp only [replayWith] at h
      split at h
      · simp at h
      · rename_i s1 hp
        obtain ⟨hi1, hs1, _⟩ := hput hi hs hp
        exact ih hi1 (hpc hi hc hs hp) hs1 h

theorem streamCloseWith_cover {putS} (hput : PutSOk putS) (hpc : PutSC putS) {s s' : WState} (hi : Inv s)
    (hc : Cover s) (h : streamCloseWith putS s = .ok s') : Cover s' := by
  unfold streamCloseWith at h
  split at h
  · simp at h
  · rename_i st hs
    split at h
    · simp at h
    · rename_i s1 st1 len hr
      obtain ⟨stx, hi1, hstx, hop1⟩ := closeLength_inv hi hs hr
      obtain ⟨hx, hdoc, hsdoc⟩ := closeLength_fields hr
      by_cases hcm : lengthMismatch st.userLen len = true
      · simp [hcm] at h
      · rw [if_neg hcm] at h
        simp only at h
        have hi2 : Inv (emit { s1 with stm := some stx } (kEndstream ++ prettyNL s.opts)) :=
          emit_inv hi1 _ (fun st0 h0 => by simp at h0; subst h0; exact hstx)
        have hi3 := dropStm_inv hi2 (fun st0 h0 => by simp [emit] at h0; subst h0; exact hstx)
        have hi4 : ∀ sd, Inv ({ emit s1 (kEndstream ++ prettyNL s.opts) with stm := none, after := [], sdoc := sd } : WState) :=
          fun sd => ⟨hi3.pos_eq, hi3.entries, fun st2 p2 h1 => by simp at h1, hi3.below, hi3.npos⟩
        refine replayWith_cover hput hpc _ (hi4 _) ?_ rfl h
        refine cover_of hc (fun n e hg => .inl (by simpa [emit, hx] using hg)) ?_
        intro n g hcov
        rcases hcov with ⟨o, ho⟩ | ⟨d, b, hdb⟩ | ⟨st', hst', a, b⟩
        · exact .inl ⟨o, by simpa [emit, hdoc] using ho⟩
        · exact .inr (.inl ⟨d, b, by simp [emit, hsdoc, hdb]⟩)
        · rw [hs] at hst'; cases hst'
          exact .inr (.inl ⟨st.dict, s.sdata, by simp [emit, a, b]⟩)

theorem putStreamWith_cover {close : WState → Except Err WState}
    (hcc : ∀ {s s' : WState}, Inv s → Cover s → close s = .ok s' → Cover s')
    {s s' : WState} {num gen : Nat} {d : List (Bytes × Obj)} {ul : Option Int} {raw : Bytes}
    (hi : Inv s) (hc : Cover s) (h : putStreamWith close s num gen d ul raw = .ok s') : Cover s' := by
  unfold putStreamWith at h
  split at h
  · simp at h
  · rename_i s1 h1
    obtain ⟨i1, _, _, _, _, _⟩ := openStream_inv hi h1
    split at h
    · simp at h
    · rename_i s2 h2
      obtain ⟨i2, _, _, _, _⟩ := streamWrite_inv i1 h2
      exact hcc i2 (streamWrite_cover (openStream_cover hc h1) h2) h

theorem noDeferredStream_c : PutSC noDeferredStream := by
  intro s s' n g d ul raw _ _ _ h; simp [noDeferredStream] at h

theorem streamClose0_cover {s s' : WState} (hi : Inv s) (hc : Cover s) (h : streamClose0 s = .ok s') : Cover s' :=
  streamCloseWith_cover noDeferredStream_ok noDeferredStream_c hi hc h

theorem putStream0_c : PutSC putStream0 := by
  intro s s' n g d ul raw hi hc _ h
  exact putStreamWith_cover (fun hi hc h => streamClose0_cover hi hc h) hi hc h

theorem streamClose_cover {s s' : WState} (hi : Inv s) (hc : Cover s) (h : streamClose s = .ok s') : Cover s' :=
  streamCloseWith_cover putStream0_ok putStream0_c hi hc h

theorem putStream_cover {s s' : WState} {num gen : Nat} {d : List (Bytes × Obj)} {ul : Option Int} {raw : Bytes}
    (hi : Inv s) (hc : Cover s) (h : putStream s num gen d ul raw = .ok s') : Cover s' :=
  putStreamWith_cover (fun hi hc h => streamClose_cover hi hc h) hi hc h

theorem put_cover {s s' : WState} {num gen : Nat} {o : PutObj} (hi : Inv s) (hc : Cover s)
    (h : put s num gen o = .ok s') : Cover s' := by
  unfold put at h
  split at h
  · simp only [Except.ok.injEq] at h
    subst h
    exact hc
  · rename_i hs
    split at h
    · exact putPlain_cover hc hs h
    · exact putStream_cover hi hc h

theorem putAll_cover (l : List (Nat × Nat × Obj)) :
    ∀ {s s' : WState}, Inv s → Cover s → putAll s l = .ok s' → Cover s' := by
  induction l with
  | nil => intro s s' _ hc h; simp [putAll] at h; subst h; exact hc
  | cons x rest ih =>
    intro s s' hi hc h
    obtain ⟨num, gen, o⟩ := x
    simp only [putAll] at h
    split at h
    · simp at h
    · rename_i s1 hp
      exact ih (put_inv hi hp).1 (put_cover hi hc hp) h

theorem writeCompressed_cover {s s' : WState} {items : List (Nat × Nat × Obj)} {raws : List Bytes}
    (hi : Inv s) (hc : Cover s) (hobj : s.opts.objStm = false) (h : writeCompressed s items raws = .ok s') :
    Cover s' := by
  unfold writeCompressed at h
  split at h
  · simp at h
  · split at h
    · simp at h
    · split at h
      · simp only [Except.ok.injEq] at h; subst h; exact hc
      · simp only [hobj, Bool.not_false, ↓reduceIte] at h
        exact putAll_cover items hi hc h

theorem optPut_cover {s s' : WState} {o : Option Obj} {r : Option Nat} (hi : Inv s) (hc : Cover s)
    (h : optPut s o = .ok (s', r)) : Cover s' := by
  unfold optPut at h
  split at h
  · simp only [Except.ok.injEq, Prod.mk.injEq] at h
    obtain ⟨rfl, _⟩ := h
    exact hc
  · split at h
    · simp at h
    · rename_i s1 r1 ha
      split at h
      · simp at h
      · rename_i s2 hp
        simp only [Except.ok.injEq, Prod.mk.injEq] at h
        obtain ⟨rfl, _⟩ := h
        exact put_cover (alloc_inv hi ha).1 (alloc_cover hc ha) hp

theorem close_cover {s s' : WState} {cat : Obj} {info : Option Obj} {tr : List (Bytes × Obj)} {raw : Bytes}
    (hi : Inv s) (hc : Cover s) (hobj : s.opts.objStm = false) (h : close s cat info tr raw = .ok s') : Cover s' := by
  unfold close at h
  split at h
  · simp at h
  · rename_i hs
    have hs' : s.stm = none := by simpa using hs
    split at h
    · simp at h
    · rename_i s1 catRef h1
      obtain ⟨i1, n1, _⟩ := optPut_inv hi hs' h1
      split at h
      · simp at h
      · rename_i s2 infoRef h2
        have c2 := optPut_cover i1 (optPut_cover hi hc h1) h2
        simp only [hobj, Bool.false_eq_true, ↓reduceIte] at h
        split at h
        · simp only [Except.ok.injEq] at h
          subst h
          exact c2
        · simp at h

theorem step_cover {s s' : WState} {op : Op} (hi : Inv s) (hc : Cover s) (hobj : s.opts.objStm = false)
    (h : step s op = .ok s') : Cover s' := by
  cases op with
  | alloc =>
    simp only [step] at h
    split at h
    · rename_i s1 r ha
      simp only [Except.ok.injEq] at h
      subst h
      exact alloc_cover hc ha
    · simp at h
  | put num gen o => exact put_cover hi hc h
  | openStream num gen dict ul => exact openStream_cover hc h
  | write p => exact streamWrite_cover hc h
  | closeStream => exact streamClose_cover hi hc h
  | writeCompressed items raw => exact writeCompressed_cover hi hc hobj h
  | close cat info tr raw => exact close_cover hi hc hobj h
  | openStreamFail num gen =>
    obtain ⟨_, _, n, _, _, rfl⟩ := openStreamFail_fields h
    exact hc
  | rejected op => rw [rejected_fields h]; exact hc

theorem run_cover (ops : List Op) : ∀ {s s' : WState} {i : Nat}, Inv s → Cover s → s.opts.objStm = false →
    run s ops i = .ok s' → Cover s' := by
  induction ops with
  | nil => intro s s' i _ hc _ h; simp [run] at h; subst h; exact hc
  | cons op rest ih =>
    intro s s' i hi hc hobj h
    simp only [run] at h
    split at h
    · simp at h
    · rename_i s1 h1
      obtain ⟨i1, o1⟩ := step_inv hi h1
      exact ih i1 (step_cover hi hc hobj h1) (by rw [o1]; exact hobj) h

/-- **doc_complete.**  The ghost document is complete: in every state the writer model reaches in
table mode, every in-use cross-reference entry belongs to a recorded plain object, to a recorded
stream object, or to the stream that is still open — so after `Close` the three clauses of
`file_rt_table` (plain objects, stream objects, `null`) cover every reference. -/
theorem doc_complete (o : WOpts) (s0 s : WState) (ops : List Op) (hobj : o.objStm = false)
    (h0 : initState o = some s0) (h : run s0 ops 0 = .ok s) : Cover s := by
  obtain ⟨hopts0, _, _, _⟩ := initState_facts o s0 h0
  refine run_cover ops (init_inv o s0 h0) ?_ (by rw [hopts0]; exact hobj) h
  intro n e hg _ hp
  unfold initState at h0
  cases hh : header o with
  | none => simp [hh] at h0
  | some hd =>
    simp only [hh, Option.map_some, Option.some.injEq] at h0
    subst h0
    simp only [XMap.get, List.lookup_cons, List.lookup_nil] at hg
    split at hg
    · simp at hg; subst hg; simp at hp
    · simp at hg


/-- after `Close` every reference falls under one of the three clauses of `file_rt_table` -/
theorem refs_total (o : WOpts) (s0 s : WState) (ops : List Op)
    (cat : Obj) (info : Option Obj) (tr : List (Bytes × Obj)) (raw : Bytes)
    (hobj : o.objStm = false) (h0 : initState o = some s0)
    (h : run s0 (ops ++ [.close cat info tr raw]) 0 = .ok s) (n g : Nat) :
    (∃ ob, (n, g, ob) ∈ s.doc) ∨ (∃ d body, (n, g, d, body) ∈ s.sdoc) ∨
      (∀ e, s.xref.get n = some e → e.pos < 0 ∨ e.gen ≠ g) := by
  obtain ⟨hopts0, _, _, _⟩ := initState_facts o s0 h0
  have hi0 := init_inv o s0 h0
  obtain ⟨s1, hrun, hstep⟩ := run_append ops _ h
  have hclose : close s1 cat info tr raw = .ok s := hstep
  have hi1 := run_inv ops hi0 hrun
  have hobj1 : s1.opts.objStm = false := by rw [run_opts ops hi0 hrun, hopts0]; exact hobj
  obtain ⟨s2, _, _, i2, _, _, hnoStm, _, hx, hn, _⟩ := close_table_layout2 hi1 hobj1 hclose
  have hstm : s.stm = none := (close_s hi1 hobj1 hclose).2
  have hcov := doc_complete o s0 s _ hobj h0 h
  cases hxe : s.xref.get n with
  | none => exact .inr (.inr (fun e he => by cases he))
  | some e =>
    by_cases hp : e.pos < 0
    · exact .inr (.inr (fun e' he' => by cases he'; exact .inl hp))
    · by_cases hg : e.gen = g
      · have hins : e.inStream = 0 := by
          have hlt := i2.below n e (by rw [← hx]; exact hxe)
          unfold hasInStream at hnoStm
          have := List.any_eq_false.1 hnoStm n (by simp; exact hlt)
          rw [← hx] at this
          simp [hxe] at this
          exact this
        rcases hcov n e hxe hins (by omega) with h1 | h1 | ⟨st, hst, _⟩
        · exact .inl (hg ▸ h1)
        · exact .inr (.inl (hg ▸ h1))
        · rw [hstm] at hst; cases hst
      · exact .inr (.inr (fun e' he' => by cases he'; exact .inr hg))

-- non-vacuity of `file_rt_table`: a table-form program (PDF 1.3): a 1030-byte stream whose
-- `/Length` is patched over the reserved blanks (seekable sink), resp. is the indirect object 4
-- (non-seekable sink), a `Put` deferred while the stream is open; `openTable` succeeds and
-- `Reader.get` returns the stream with exactly its 1030 bytes, and the plain objects
example : (match initState { C02fiob.exOpts with version := 4 } with
    | some s0 => (match run s0 C02fiob.exProg 0 with
      | .ok s => (match openTable s.out with
          | .ok (m, trd) =>
            s.sdoc.length == 1 && s.doc.length == 3 &&
            (match dictGet trd kSize with | some (.int 5) => true | _ => false) &&
            (match readerGet s.out m 0 (fun _ => none) (fun o => match o with | .int i => .ok i | _ => .error .malformed) 2 0 with
             | .ok (some (.stream [] start 1030)) => (s.out.drop start).take 1030 == List.replicate 1030 65
             | _ => false) &&
            (match readerGet s.out m 0 (fun _ => none) (fun _ => .error .malformed) 3 0 with
             | .ok (some (.plain (.name [65]))) => true | _ => false)
          | _ => false)
      | _ => false)
    | none => false) = true := by decide +kernel

example : (match initState { C02fiob.exOpts with version := 4, seekable := false } with
    | some s0 => (match run s0 C02fiob.exProg 0 with
      | .ok s => (match openTable s.out with
          | .ok (m, _) =>
            s.sdoc.length == 1 && s.doc.length == 4 &&
            (match readerGet s.out m 0 (fun _ => none)
                (fun o => match o with | .int i => .ok i | .ref 4 0 => .ok 1030 | _ => .error .malformed) 2 0 with
             | .ok (some (.stream [] start 1030)) => (s.out.drop start).take 1030 == List.replicate 1030 65
             | _ => false) &&
            (match readerGet s.out m 0 (fun _ => none) (fun _ => .error .malformed) 4 0 with
             | .ok (some (.plain (.int 1030))) => true | _ => false)
          | _ => false)
      | _ => false)
    | none => false) = true := by decide +kernel

end PdfVerif.C02fiog

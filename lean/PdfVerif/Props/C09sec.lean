import PdfVerif.Lemmas.SECBasic
/-!
# C09 — correct passwords recover everything, wrong ones nothing: property theorems

All statements are about `Model/SECSecurity.lean` (the model of `crypto.go`), which the C09
correspondence run ties to the code.  The primitives are a parameter `P : Prims`; what is assumed
about them is stated as hypotheses of each theorem (never as axioms).
-/
namespace PdfVerif.C09sec
open PdfVerif PdfVerif.SEC

/-! ## permission algebra (finite: all 128 permission sets) -/

/-- the documented implications: Print ⇒ PrintDegraded, Annotate ⇒ Forms, Modify ⇒ Assemble -/
def closure (p : Nat) : Nat :=
  p ||| (if p &&& Gen.sec_PermPrint != 0 then Gen.sec_PermPrintDegraded else 0)
    ||| (if p &&& Gen.sec_PermAnnotate != 0 then Gen.sec_PermForms else 0)
    ||| (if p &&& Gen.sec_PermModify != 0 then Gen.sec_PermAssemble else 0)

/-- **perm_algebra (R ≥ 3).**  For every permission set and every revision 3, 4, 5, 6, reading
back the `/P` word the writer stores gives the requested permissions closed under the
documented implications. -/
theorem perm_algebra : ∀ p, p < 128 → ∀ R, R ∈ [3, 4, 5, 6] →
    stdSecPToPerm R (stdSecPermToP p) = closure p := by decide +kernel

/-- **perm_algebra (R = 2)** for the permission sets revision 2 can express (`canR2`); these are
the only ones for which `createStdSecHandler` chooses R = 2. -/
theorem perm_algebra_R2 : ∀ p, p < 128 → canR2 p = true →
    stdSecPToPerm 2 (stdSecPermToP p) = closure p := by decide +kernel

/-- R = 2 cannot express every other set (degraded printing only): this is why `chooseR` tests `canR2` -/
example : canR2 Gen.sec_PermPrintDegraded = false ∧
    stdSecPToPerm 2 (stdSecPermToP Gen.sec_PermPrintDegraded) ≠ closure Gen.sec_PermPrintDegraded := by
  decide +kernel

example : stdSecPToPerm 3 (stdSecPermToP 0b1010100) = 0b1111110 := by decide +kernel



theorem pkcs7Pad_eq (x : Bytes) (p : Nat) (hp : p = 16 - x.length % 16) :
    pkcs7Pad x = x ++ List.replicate p p := by simp [pkcs7Pad, hp]

theorem unpad_pad_aux (x : Bytes) (p : Nat) (hp1 : 1 ≤ p) (hp16 : p ≤ 16) (hm : (x.length + p) % 16 = 0) :
    unpadPKCS7 (x ++ List.replicate p p) = .ok x := by
  have hlast : (x ++ List.replicate p p).getLast? = some p := by
    simp [List.getLast?_append, List.getLast?_replicate]; omega
  have hgood : padGood (x ++ List.replicate p p) p = true := by
    simp only [padGood, Bool.and_eq_true, decide_eq_true_eq, List.all_eq_true, List.mem_range,
      Bool.or_eq_true, Bool.not_eq_true', decide_eq_false_iff_not, beq_iff_eq]
    refine ⟨⟨hp16, by simp; omega⟩, ?_⟩
    intro i _
    by_cases hi : i + 1 ≤ p
    · right
      rw [List.reverse_append, List.getElem?_append_left (by simp; omega)]
      simp [List.getElem?_replicate]; omega
    · left; exact hi
  unfold unpadPKCS7
  simp only [hlast, hgood]
  simp
  omega

/-- **pkcs7_rt**: for every byte string, removing the padding that was added gives it back -/
theorem pkcs7_rt (x : Bytes) : unpadPKCS7 (pkcs7Pad x) = .ok x := by
  rw [pkcs7Pad_eq x _ rfl]
  exact unpad_pad_aux x _ (by omega) (by omega) (by omega)




theorem pkcs7Pad_length (x : Bytes) : (pkcs7Pad x).length = 16 * (x.length / 16 + 1) := by
  simp [pkcs7Pad]; omega

/-- the two `CryptBlocks` calls of `EncryptBytes` are CBC over the padded string -/
theorem encryptAES_eq (P : Prims) (key iv buf : Bytes) :
    encryptAES P key iv buf = iv ++ cbcEncrypt P key iv (pkcs7Pad buf) := by
  have hm : (buf.length + (16 - buf.length % 16) - 16) = 16 * (buf.length / 16) := by omega
  have hsplit : pkcs7Pad buf = buf.take (16 * (buf.length / 16)) ++
      (buf.drop (16 * (buf.length / 16)) ++ List.replicate (16 - buf.length % 16) (16 - buf.length % 16)) := by
    rw [← List.append_assoc, List.take_append_drop]; rfl
  have e1 : 16 * (buf.length / 16) / 16 = buf.length / 16 := by omega
  have e2 : 16 * (buf.length / 16 + 1) / 16 = buf.length / 16 + 1 := by omega
  unfold encryptAES cbcEncrypt
  simp only [hm, pkcs7Pad_length, e1, e2]
  rw [hsplit, cbcEncBlocks_append key (buf.length / 16) 1 iv _ _ (by simp; omega)]
  simp

theorem decrypt_encrypt_AES {P : Prims} (ok : PrimsOK P) (key iv buf : Bytes) (hiv : iv.length = 16) :
    decryptAES P key (encryptAES P key iv buf) = .ok buf := by
  rw [encryptAES_eq]
  have hl : (cbcEncrypt P key iv (pkcs7Pad buf)).length = 16 * (buf.length / 16 + 1) := by
    simp [cbcEncrypt, cbcEncBlocks_length ok, pkcs7Pad_length]
  unfold decryptAES
  have h1 : ¬ ((iv ++ cbcEncrypt P key iv (pkcs7Pad buf)).length < 32) := by simp [hl, hiv]; omega
  have h2 : (iv ++ cbcEncrypt P key iv (pkcs7Pad buf)).length % 16 = 0 := by simp [hl, hiv]
  simp only [h1, h2, decide_false, Bool.false_or, bne_self_eq_false, Bool.false_eq_true, ↓reduceIte]
  rw [List.take_left' hiv, List.drop_left' hiv]
  unfold cbcDecrypt
  rw [hl]
  simp only [cbcEncrypt, pkcs7Pad_length]
  have e : 16 * (buf.length / 16 + 1) / 16 = buf.length / 16 + 1 := by omega
  rw [e, cbc_dec_enc ok key _ iv _ hiv (pkcs7Pad_length buf)]
  exact pkcs7_rt buf




/-! ## the stream writer as a byte machine -/

/-- what an `encryptWriter` in state `w` will have written once `data` and `Close` have followed -/
def flush (P : Prims) (w : EncW) (data : Bytes) : Bytes :=
  cbcEncrypt P w.key w.iv (pkcs7Pad (w.pend ++ data))

theorem pkcs7Pad_block (blk y : Bytes) (h : blk.length = 16) : pkcs7Pad (blk ++ y) = blk ++ pkcs7Pad y := by
  have : (blk ++ y).length % 16 = y.length % 16 := by simp [h]
  unfold pkcs7Pad
  rw [this, List.append_assoc]

theorem cbcEncrypt_block (P : Prims) (k iv blk y : Bytes) (h : blk.length = 16) :
    cbcEncrypt P k iv (blk ++ y) =
      P.aesEnc k (xorBytes blk iv) ++ cbcEncrypt P k (P.aesEnc k (xorBytes blk iv)) y := by
  unfold cbcEncrypt
  have : (blk ++ y).length / 16 = y.length / 16 + 1 := by simp [h]
  rw [this]
  simp only [cbcEncBlocks]
  rw [List.take_left' h, List.drop_left' h]

theorem writeByte_flush (P : Prims) (w : EncW) (b : Nat) (rest : Bytes) (hp : w.pend.length < 16) :
    (w.writeByte P b).2 ++ flush P (w.writeByte P b).1 rest = flush P w (b :: rest) ∧
    (w.writeByte P b).1.pend.length < 16 := by
  unfold EncW.writeByte
  by_cases hfull : (w.pend ++ [b]).length ≥ 16
  · have h16 : (w.pend ++ [b]).length = 16 := by simp at hfull ⊢; omega
    simp only [hfull, ↓reduceIte, flush, List.nil_append, List.length_nil]
    refine ⟨?_, by omega⟩
    have e : w.pend ++ b :: rest = (w.pend ++ [b]) ++ rest := by simp
    rw [e, pkcs7Pad_block _ _ h16, cbcEncrypt_block P _ _ _ _ h16]
  · simp only [hfull, ↓reduceIte, flush, List.nil_append]
    refine ⟨by simp, by simp at hfull ⊢; omega⟩

theorem write_flush (P : Prims) : ∀ (bs : Bytes) (w : EncW) (rest : Bytes), w.pend.length < 16 →
    (w.write P bs).2 ++ flush P (w.write P bs).1 rest = flush P w (bs ++ rest) ∧
    (w.write P bs).1.pend.length < 16 := by
  intro bs
  induction bs with
  | nil => intro w rest hp; simp [EncW.write, hp]
  | cons b bs ih =>
    intro w rest hp
    obtain ⟨h1, h2⟩ := writeByte_flush P w b (bs ++ rest) hp
    obtain ⟨h3, h4⟩ := ih (w.writeByte P b).1 rest h2
    simp only [EncW.write, List.append_assoc, List.cons_append]
    exact ⟨by rw [h3, h1], h4⟩

theorem close_flush (P : Prims) (w : EncW) (hp : w.pend.length < 16) : w.close P = flush P w [] := by
  unfold EncW.close flush cbcEncrypt
  have hm : w.pend.length % 16 = w.pend.length := Nat.mod_eq_of_lt hp
  have hl : (pkcs7Pad (w.pend ++ [])).length / 16 = 1 := by
    rw [pkcs7Pad_length]; simp; omega
  rw [hl]
  simp only [cbcEncBlocks, List.append_nil]
  have : pkcs7Pad w.pend = w.pend ++ List.replicate (16 - w.pend.length) (16 - w.pend.length) := by
    simp [pkcs7Pad, hm]
  rw [this, List.take_of_length_le (by simp; omega)]

/-- any sequence of `Write` calls followed by `Close` writes CBC of the padded concatenation -/
theorem run_flush (P : Prims) : ∀ (cs : List Bytes) (w : EncW), w.pend.length < 16 →
    EncW.run P w cs = flush P w cs.flatten := by
  intro cs
  induction cs with
  | nil => intro w hp; simp [EncW.run, close_flush P w hp]
  | cons c cs ih =>
    intro w hp
    obtain ⟨h1, h2⟩ := write_flush P c w cs.flatten hp
    simp only [EncW.run, List.flatten_cons]
    rw [ih _ h2, h1]

/-- **encrypt_stream_chunking.**  What `EncryptStream` hands to the underlying writer depends
only on the concatenation of the chunks written, and it is byte for byte what `EncryptBytes`
produces for that concatenation (same key, same IV): IV ‖ CBC(PKCS#7-padded data). -/
theorem encrypt_stream_chunking (P : Prims) (key iv : Bytes) (cs : List Bytes) :
    iv ++ EncW.run P { key := key, iv := iv, pend := [] } cs = encryptAES P key iv cs.flatten := by
  rw [run_flush P cs _ (by simp), encryptAES_eq]
  simp [flush]




/-! ## Algorithms 3–7: the owner and the user password open what was created with them -/

theorem range20 : List.range 20 = 0 :: up19 := by decide

theorem computeO_length {P : Prims} (ok : PrimsOK P) (sec : Sec) (pu po : Bytes) :
    (computeO P sec pu po).length = pu.length := by
  unfold computeO
  split <;> simp [rc4Chain_length ok, rc4_length ok]

/-- Algorithm 7 undoes Algorithm 3: the RC4 chain with keys `k ⊕ i` (i = 19 … 0) inverts the
chain i = 0 … 19 because every pass is an involution -/
theorem owner_chain_inverts {P : Prims} (ok : PrimsOK P) (sec : Sec) (pu po : Bytes)
    (hR : sec.R = 2 ∨ sec.R = 3 ∨ sec.R = 4) (hpu : pu.length = 32) :
    (let k := ownerRC4Key P sec po
     let buf := copy32 (computeO P sec pu po)
     if sec.R = 2 then rc4 P k buf
     else if sec.R = 3 ∨ sec.R = 4 then rc4Chain P k down19 buf else buf) = pu := by
  have hl : (computeO P sec pu po).length = 32 := by rw [computeO_length ok, hpu]
  have hc : copy32 (computeO P sec pu po) = computeO P sec pu po := by
    unfold copy32
    rw [List.take_append_of_le_length (by omega), List.take_of_length_le (by omega)]
  simp only [hc]
  rcases hR with h | h | h
  · simp [h, computeO, rc4_involutive ok]
  · have : computeO P sec pu po = rc4Chain P (ownerRC4Key P sec po) (List.range 20) pu := by
      simp [computeO, h, range20, rc4Chain]
    simp only [h, this, down19]
    simp [rc4Chain_reverse ok]
  · have : computeO P sec pu po = rc4Chain P (ownerRC4Key P sec po) (List.range 20) pu := by
      simp [computeO, h, range20, rc4Chain]
    simp only [h, this, down19]
    simp [rc4Chain_reverse ok]

/-- what `createStdSecHandler` establishes for R ≤ 4 -/
structure Created234 (P : Prims) (sec : Sec) (pu po : Bytes) : Prop where
  hR : sec.R = 2 ∨ sec.R = 3 ∨ sec.R = 4
  hpu : pu.length = 32
  hO : sec.O = computeO P sec pu po
  hU : computeU P sec (computeFileKey P sec pu) = .ok sec.U

/-- Algorithm 6 accepts the user password the handler was created with and derives the same key -/
theorem authenticateUser_created {P : Prims} (sec : Sec) (pu po : Bytes) (c : Created234 P sec pu po) :
    authenticateUser P sec pu = .ok { sec with key := some (computeFileKey P sec pu) } := by
  unfold authenticateUser
  simp only [c.hU]
  split <;> simp

/-- **owner_pw_opens (R 2–4), Algorithm 7** -/
theorem authenticateOwner_created {P : Prims} (ok : PrimsOK P) (sec : Sec) (pu po : Bytes)
    (c : Created234 P sec pu po) :
    authenticateOwner P sec po = .ok { sec with key := some (computeFileKey P sec pu) } := by
  have h := owner_chain_inverts ok sec pu po c.hR c.hpu
  have h' : (if sec.R = 2 then rc4 P (ownerRC4Key P sec po) (copy32 sec.O)
      else if sec.R = 3 ∨ sec.R = 4 then rc4Chain P (ownerRC4Key P sec po) down19 (copy32 sec.O)
      else copy32 sec.O) = pu := by
    rw [c.hO]; exact h
  unfold authenticateOwner
  simp only [h']
  exact authenticateUser_created sec pu po c




theorem padPasswd_length (e : Option Bytes) (x : Bytes) (h : padPasswd e = .ok x) : x.length = 32 := by
  cases e with
  | none => simp [padPasswd] at h
  | some b =>
    simp only [padPasswd, Except.ok.injEq] at h
    subst h
    have : Gen.sec_passwdPad.length = 32 := by decide
    simp [List.length_take, this]; omega

/-- **owner_pw_opens (R 2–4).**  A handler opened from the stored `/O`, `/U`, `/P` (no key)
authenticates the owner password with owner access and obtains exactly the creation key. -/
theorem owner_pw_opens_R234 {P : Prims} (ok : PrimsOK P) (sec : Sec) (pu po : Bytes) (pw : Passwd)
    (c : Created234 P sec pu po) (hpw : padPasswd pw.pdfDoc = .ok po) :
    authenticate P sec pw = (.ok Gen.sec_PermAll, { sec with key := some (computeFileKey P sec pu) }) := by
  have hR : sec.R < 5 := by rcases c.hR with h | h | h <;> omega
  unfold authenticate
  simp only [hR, ↓reduceIte, hpw, authenticateOwner_created ok sec pu po c]

/-- **user_pw_opens (R 2–4).**  The user password always authenticates.  Because `authenticate`
tries Algorithm 7 first, the access is owner access if the user password also passes as owner
password (certainly when both are equal); otherwise it is user access with the stored
permissions and exactly the creation key. -/
theorem user_pw_opens_R234 {P : Prims} (sec : Sec) (pu po : Bytes) (pw : Passwd)
    (c : Created234 P sec pu po) (hpw : padPasswd pw.pdfDoc = .ok pu) :
    (∃ s', authenticateOwner P sec pu = .ok s' ∧ authenticate P sec pw = (.ok Gen.sec_PermAll, s')) ∨
    ((∃ e, authenticateOwner P sec pu = .error e) ∧
      authenticate P sec pw =
        (.ok (stdSecPToPerm sec.R sec.P), { sec with key := some (computeFileKey P sec pu) })) := by
  have hR : sec.R < 5 := by rcases c.hR with h | h | h <;> omega
  unfold authenticate
  simp only [hR, ↓reduceIte, hpw]
  cases h : authenticateOwner P sec pu with
  | ok s' => left; exact ⟨s', rfl, rfl⟩
  | error e => right; exact ⟨⟨e, rfl⟩, by simp [authenticateUser_created sec pu po c]⟩

/-- whatever way authentication succeeds for R ≤ 4, the key obtained reproduces the stored `/U`
(Algorithm 6's test): a key is never accepted unchecked -/
theorem authenticateUser_ok {P : Prims} (sec s' : Sec) (x : Bytes) (h : authenticateUser P sec x = .ok s') :
    s' = { sec with key := some (computeFileKey P sec x) } ∧
    ∃ u, computeU P sec (computeFileKey P sec x) = .ok u ∧
      (if sec.R = 2 then u = sec.U else u.take 16 = sec.U.take 16) := by
  unfold authenticateUser at h
  cases hu : computeU P sec (computeFileKey P sec x) with
  | error e => simp [hu] at h
  | ok u =>
    simp only [hu] at h
    by_cases h2 : sec.R = 2
    · simp only [h2, ↓reduceIte] at h ⊢
      by_cases he : (u == sec.U) = true
      · simp only [he, ↓reduceIte, Except.ok.injEq] at h
        exact ⟨h.symm, u, rfl, by simpa using he⟩
      · simp [he] at h
    · simp only [h2, ↓reduceIte] at h ⊢
      by_cases he : (u.take 16 == sec.U.take 16) = true
      · simp only [he, ↓reduceIte, Except.ok.injEq] at h
        exact ⟨h.symm, u, rfl, by simpa using he⟩
      · simp [he] at h




theorem chooseR_cases (V perm R : Nat) (h : chooseR V perm = .ok R) : R = 2 ∨ R = 3 ∨ R = 4 ∨ R = 6 := by
  unfold chooseR at h
  split at h
  · simp at h; omega
  · split at h
    · simp at h; omega
    · split at h
      · simp at h; omega
      · split at h
        · simp at h; omega
        · simp at h

/-- `createStdSecHandler` for R ≤ 4 establishes `Created234` (for the handler as a reader will
see it: the same fields, no key) and keeps the file key -/
theorem createStdSec_R234 {P : Prims} (id : Bytes) (user owner : Passwd) (oe : Bool) (perm length V : Nat)
    (um : Bool) (rng rng' : Bytes) (s : Sec)
    (h : createStdSec P id user owner oe perm length V um rng = .ok (s, rng')) (hR : s.R ≤ 4) :
    ∃ pu po, padPasswd user.pdfDoc = .ok pu ∧ padPasswd (if oe then user else owner).pdfDoc = .ok po ∧
      Created234 P { s with key := none } pu po ∧
      s.key = some (computeFileKey P { s with key := none } pu) ∧ rng' = rng := by
  unfold createStdSec at h
  cases hc : chooseR V perm with
  | error e => simp [hc] at h
  | ok R =>
    simp only [hc] at h
    by_cases h234 : R = 2 ∨ R = 3 ∨ R = 4
    · simp only [h234, ↓reduceIte] at h
      cases hpu : padPasswd user.pdfDoc with
      | error e => simp [hpu] at h
      | ok pu =>
        simp only [hpu] at h
        cases hpo : padPasswd (if oe = true then user else owner).pdfDoc with
        | error e => simp [hpo] at h
        | ok po =>
          simp only [hpo] at h
          split at h
          · simp at h
          · rename_i u hu
            simp only [Except.ok.injEq, Prod.mk.injEq] at h
            obtain ⟨hs, hr⟩ := h
            subst hs
            refine ⟨pu, po, rfl, ?_, ?_, ?_, hr.symm⟩
            · simpa using hpo
            · exact ⟨h234, padPasswd_length _ _ hpu, rfl, hu⟩
            · rfl
    · have h6 : R = 6 := by
        rcases chooseR_cases V perm R hc with h | h | h | h <;> first | exact h | (exfalso; apply h234; omega)
      simp only [h234, ↓reduceIte] at h
      exfalso
      cases hpu : utf8Passwd user.sasl with
      | error e => simp [hpu] at h
      | ok pu =>
        simp only [hpu] at h
        cases hpo : utf8Passwd (if oe = true then user else owner).sasl with
        | error e => simp [hpo] at h
        | ok po =>
          simp only [hpo] at h
          split at h
          · simp at h
          · simp only [Except.ok.injEq, Prod.mk.injEq] at h
            obtain ⟨hs, _⟩ := h
            subst hs
            simp [h6] at hR




/-! ## Revision 6 -/

theorem slowHashRound_length {P : Prims} (ok : PrimsOK P) (pw u K : Bytes) :
    32 ≤ (slowHashRound P pw u K).1.length := by
  unfold slowHashRound
  simp only
  split
  · simp [ok.sha256_len]
  · split <;> simp [ok.sha384_len, ok.sha512_len]

theorem slowHashLoop_length {P : Prims} (ok : PrimsOK P) (pw u : Bytes) :
    ∀ (fuel i : Nat) (K : Bytes) (last : Nat), 32 ≤ K.length →
      32 ≤ (slowHashLoop P pw u fuel i K last).length := by
  intro fuel
  induction fuel with
  | zero => intro i K last h; simpa [slowHashLoop] using h
  | succ f ih =>
    intro i K last h
    unfold slowHashLoop
    split
    · exact ih _ _ _ (slowHashRound_length ok pw u K)
    · exact h

theorem slowHash_length {P : Prims} (ok : PrimsOK P) (pw salt u : Bytes) :
    (slowHash P pw salt u).length = 32 := by
  unfold slowHash
  have := slowHashLoop_length ok pw u 288 0 (P.sha256 (pw ++ salt ++ u)) 0 (by simp [ok.sha256_len])
  rw [List.length_take]; omega

theorem zero16_length : Gen.sec_zero16.length = 16 := by decide

theorem cbc_key_roundtrip {P : Prims} (ok : PrimsOK P) (k fileKey : Bytes) (h : fileKey.length = 32) :
    cbcDecrypt P k Gen.sec_zero16 (cbcEncrypt P k Gen.sec_zero16 fileKey) = fileKey := by
  unfold cbcDecrypt cbcEncrypt
  rw [cbcEncBlocks_length ok, h]
  exact cbc_dec_enc ok k 2 _ _ zero16_length h

/-- what `createStdSecHandler` establishes for R = 6 -/
structure Created6 (P : Prims) (sec : Sec) (pu po fileKey b1 b2 rnd : Bytes) : Prop where
  hR : sec.R = 6
  hkey : fileKey.length = 32
  hb1 : b1.length = 16
  hb2 : b2.length = 16
  hrnd : rnd.length = 4
  hU : sec.U = (computeUAndUE P fileKey pu b1).1
  hUE : sec.UE = (computeUAndUE P fileKey pu b1).2
  hO : sec.O = (computeOAndOE P fileKey po sec.U b2).1
  hOE : sec.OE = (computeOAndOE P fileKey po sec.U b2).2
  hPerms : sec.Perms = computePerms P sec fileKey rnd

theorem permsHead_length (p : Nat) (um : Bool) : (permsHead p um).length = 12 := by
  simp [permsHead, le32]

theorem checkPerms_created {P : Prims} (ok : PrimsOK P) (sec : Sec) (fileKey rnd : Bytes)
    (hrnd : rnd.length = 4) (hP : sec.Perms = computePerms P sec fileKey rnd) :
    checkPerms P sec fileKey = true := by
  unfold checkPerms
  rw [hP, computePerms, ok.aes_dec_enc _ _ (by simp [permsHead_length, hrnd])]
  simp [List.take_left' (permsHead_length _ _)]

theorem salt_split (out b : Bytes) (ho : out.length = 32) (hb : b.length = 16) :
    (out ++ b).take 32 = out ∧ ((out ++ b).drop 32).take 8 = b.take 8 ∧
    ((out ++ b).drop 40).take 8 = b.drop 8 := by
  refine ⟨List.take_left' ho, ?_, ?_⟩
  · rw [List.drop_left' ho]
  · have : (out ++ b).drop 40 = b.drop 8 := by
      rw [List.drop_append, List.drop_of_length_le (by omega)]; simp [ho]
    rw [this, List.take_of_length_le (by simp; omega)]

/-- Algorithm 11 accepts the creation user password and decrypts `/UE` to the file key -/
theorem authenticateUser6_created {P : Prims} (ok : PrimsOK P) (sec : Sec) (pu po fileKey b1 b2 rnd : Bytes)
    (c : Created6 P sec pu po fileKey b1 b2 rnd) :
    authenticateUser6 P sec pu = .ok { sec with key := some fileKey } := by
  obtain ⟨h1, h2, h3⟩ := salt_split (slowHash P pu (b1.take 8) []) b1 (slowHash_length ok _ _ _) c.hb1
  have hU : sec.U = slowHash P pu (b1.take 8) [] ++ b1 := by rw [c.hU]; rfl
  have hUE : sec.UE = cbcEncrypt P (slowHash P pu (b1.drop 8) []) Gen.sec_zero16 fileKey := by rw [c.hUE]; rfl
  unfold authenticateUser6
  simp only [hashRev, c.hR, hU, h1, h2, h3, hUE]
  simp [cbc_key_roundtrip ok _ _ c.hkey, checkPerms_created ok sec fileKey rnd c.hrnd c.hPerms]

/-- Algorithm 12 accepts the creation owner password and decrypts `/OE` to the file key -/
theorem authenticateOwner6_created {P : Prims} (ok : PrimsOK P) (sec : Sec) (pu po fileKey b1 b2 rnd : Bytes)
    (c : Created6 P sec pu po fileKey b1 b2 rnd) :
    authenticateOwner6 P sec po = .ok { sec with key := some fileKey } := by
  obtain ⟨h1, h2, h3⟩ := salt_split (slowHash P po (b2.take 8) sec.U) b2 (slowHash_length ok _ _ _) c.hb2
  have hO : sec.O = slowHash P po (b2.take 8) sec.U ++ b2 := by rw [c.hO]; rfl
  have hOE : sec.OE = cbcEncrypt P (slowHash P po (b2.drop 8) sec.U) Gen.sec_zero16 fileKey := by rw [c.hOE]; rfl
  unfold authenticateOwner6
  simp only [hashRev, c.hR, hO, h1, h2, h3, hOE]
  simp [cbc_key_roundtrip ok _ _ c.hkey, checkPerms_created ok sec fileKey rnd c.hrnd c.hPerms]




/-- `createStdSecHandler` for R = 6: the file key is the first 32 random bytes, the salts the next
16 + 16, the `/Perms` filler the next 4; 68 bytes are consumed -/
theorem createStdSec_R6 {P : Prims} (id : Bytes) (user owner : Passwd) (oe : Bool) (perm length V : Nat)
    (um : Bool) (rng rng' : Bytes) (s : Sec)
    (h : createStdSec P id user owner oe perm length V um rng = .ok (s, rng')) (hR : ¬ s.R ≤ 4) :
    ∃ pu po, utf8Passwd user.sasl = .ok pu ∧ utf8Passwd (if oe then user else owner).sasl = .ok po ∧
      68 ≤ rng.length ∧ rng' = rng.drop 68 ∧
      Created6 P { s with key := none } pu po (rng.take 32) ((rng.drop 32).take 16)
        ((rng.drop 48).take 16) ((rng.drop 64).take 4) ∧
      s.key = some (rng.take 32) := by
  unfold createStdSec at h
  cases hc : chooseR V perm with
  | error e => simp [hc] at h
  | ok R =>
    simp only [hc] at h
    by_cases h234 : R = 2 ∨ R = 3 ∨ R = 4
    · exfalso
      simp only [h234, ↓reduceIte] at h
      cases hpu : padPasswd user.pdfDoc with
      | error e => simp [hpu] at h
      | ok pu =>
        simp only [hpu] at h
        cases hpo : padPasswd (if oe = true then user else owner).pdfDoc with
        | error e => simp [hpo] at h
        | ok po =>
          simp only [hpo] at h
          split at h
          · simp at h
          · simp only [Except.ok.injEq, Prod.mk.injEq] at h
            obtain ⟨hs, _⟩ := h
            subst hs
            apply hR
            simp only
            omega
    · have h6 : R = 6 := by
        rcases chooseR_cases V perm R hc with h | h | h | h <;> first | exact h | (exfalso; apply h234; omega)
      simp only [h234, ↓reduceIte] at h
      cases hpu : utf8Passwd user.sasl with
      | error e => simp [hpu] at h
      | ok pu =>
        simp only [hpu] at h
        cases hpo : utf8Passwd (if oe = true then user else owner).sasl with
        | error e => simp [hpo] at h
        | ok po =>
          simp only [hpo] at h
          by_cases hl : rng.length < 32 + 16 + 16 + 4
          · simp [hl] at h
          · simp only [hl, ↓reduceIte, Except.ok.injEq, Prod.mk.injEq] at h
            obtain ⟨hs, hr⟩ := h
            subst hs
            refine ⟨pu, po, rfl, ?_, by omega, ?_, ?_, ?_⟩
            · simpa using hpo
            · rw [← hr]; simp [List.drop_drop]
            · refine ⟨h6, ?_, ?_, ?_, ?_, ?_, ?_, ?_, ?_, ?_⟩
              · simp; omega
              · simp; omega
              · simp [List.drop_drop]; omega
              · simp [List.drop_drop]; omega
              · rfl
              · rfl
              · simp [List.drop_drop]
              · simp [List.drop_drop]
              · simp [List.drop_drop, computePerms]
            · rfl




/-! ## key_only_after_auth -/

/-- a failed `authenticate` leaves the handler as it was -/
theorem authenticate_error_state (P : Prims) (s : Sec) (pw : Passwd) (e : Err)
    (h : (authenticate P s pw).1 = .error e) : (authenticate P s pw).2 = s := by
  unfold authenticate at h ⊢
  by_cases hR : s.R < 5
  · simp only [hR, ↓reduceIte] at h ⊢
    cases hp : padPasswd pw.pdfDoc with
    | error e' => simp
    | ok padded =>
      simp only [hp] at h ⊢
      cases ho : authenticateOwner P s padded with
      | ok s' => simp [ho] at h
      | error _ =>
        simp only [ho] at h ⊢
        cases hu : authenticateUser P s padded with
        | ok s' => simp [hu] at h
        | error _ => simp
  · simp only [hR, ↓reduceIte] at h ⊢
    cases hp : utf8Passwd pw.sasl with
    | error e' => simp
    | ok prepared =>
      simp only [hp] at h ⊢
      cases ho : authenticateOwner6 P s prepared with
      | ok s' => simp [ho] at h
      | error _ =>
        simp only [ho] at h ⊢
        cases hu : authenticateUser6 P s prepared with
        | ok s' => simp [hu] at h
        | error _ => simp

theorem authenticateUser_key (P : Prims) (s s' : Sec) (x : Bytes) (h : authenticateUser P s x = .ok s') :
    s'.key = some (computeFileKey P s x) := by
  unfold authenticateUser at h
  simp only at h
  cases hu : computeU P s (computeFileKey P s x) with
  | error e => simp [hu] at h
  | ok u =>
    simp only [hu] at h
    by_cases h2 : s.R = 2
    · simp only [h2, ↓reduceIte] at h
      by_cases he : (u == s.U) = true
      · simp only [he, ↓reduceIte, Except.ok.injEq] at h; subst h; rfl
      · simp [he] at h
    · simp only [h2, ↓reduceIte] at h
      by_cases he : (u.take 16 == s.U.take 16) = true
      · simp only [he, ↓reduceIte, Except.ok.injEq] at h; subst h; rfl
      · simp [he] at h

theorem authenticateUser6_key (P : Prims) (s s' : Sec) (x : Bytes) (h : authenticateUser6 P s x = .ok s') :
    s'.key.isSome = true := by
  unfold authenticateUser6 at h
  simp only at h
  by_cases h1 : (hashRev P s.R x ((s.U.drop 32).take 8) [] != s.U.take 32) = true
  · simp [h1] at h
  · simp only [h1, Bool.false_eq_true, ↓reduceIte] at h
    by_cases h2 : checkPerms P s (cbcDecrypt P (hashRev P s.R x ((s.U.drop 40).take 8) []) Gen.sec_zero16 s.UE) = true
    · simp only [h2, ↓reduceIte, Except.ok.injEq] at h; subst h; rfl
    · simp [h2] at h

theorem authenticateOwner6_key (P : Prims) (s s' : Sec) (x : Bytes) (h : authenticateOwner6 P s x = .ok s') :
    s'.key.isSome = true := by
  unfold authenticateOwner6 at h
  simp only at h
  by_cases h1 : (hashRev P s.R x ((s.O.drop 32).take 8) s.U != s.O.take 32) = true
  · simp [h1] at h
  · simp only [h1, Bool.false_eq_true, ↓reduceIte] at h
    by_cases h2 : checkPerms P s (cbcDecrypt P (hashRev P s.R x ((s.O.drop 40).take 8) s.U) Gen.sec_zero16 s.OE) = true
    · simp only [h2, ↓reduceIte, Except.ok.injEq] at h; subst h; rfl
    · simp [h2] at h

/-- a successful `authenticate` has set the key -/
theorem authenticate_ok_key (P : Prims) (s : Sec) (pw : Passwd) (perm : Nat)
    (h : (authenticate P s pw).1 = .ok perm) : (authenticate P s pw).2.key.isSome = true := by
  unfold authenticate at h ⊢
  by_cases hR : s.R < 5
  · simp only [hR, ↓reduceIte] at h ⊢
    cases hp : padPasswd pw.pdfDoc with
    | error e' => simp [hp] at h
    | ok padded =>
      simp only [hp] at h ⊢
      cases ho : authenticateOwner P s padded with
      | ok s' =>
        simp only
        unfold authenticateOwner at ho
        simp [authenticateUser_key P s s' _ ho]
      | error _ =>
        simp only [ho] at h ⊢
        cases hu : authenticateUser P s padded with
        | ok s' => simp [authenticateUser_key P s s' _ hu]
        | error _ => simp [hu] at h
  · simp only [hR, ↓reduceIte] at h ⊢
    cases hp : utf8Passwd pw.sasl with
    | error e' => simp [hp] at h
    | ok prepared =>
      simp only [hp] at h ⊢
      cases ho : authenticateOwner6 P s prepared with
      | ok s' => simp [authenticateOwner6_key P s s' _ ho]
      | error _ =>
        simp only [ho] at h ⊢
        cases hu : authenticateUser6 P s prepared with
        | ok s' => simp [authenticateUser6_key P s s' _ hu]
        | error _ => simp [hu] at h

/-- the handler states reachable from `s0` through authentication attempts that all failed -/
inductive ReachFailed (P : Prims) (s0 : Sec) : Sec → Prop
  | init : ReachFailed P s0 s0
  | step (s : Sec) (pw : Passwd) (e : Err) : ReachFailed P s0 s →
      (authenticate P s pw).1 = .error e → ReachFailed P s0 (authenticate P s pw).2

/-- **key_only_after_auth.**  In every state reachable from a freshly opened handler (no key)
without a successful `authenticate` there is no key … -/
theorem key_only_after_auth (P : Prims) (s0 s : Sec) (h0 : s0.key = none) (h : ReachFailed P s0 s) :
    s.key = none := by
  induction h with
  | init => exact h0
  | step s pw e _ herr ih => rw [authenticate_error_state P s pw e herr]; exact ih

/-- … and then every per-object operation fails with an authentication error: no string and no
stream is decrypted (or encrypted) -/
theorem no_key_no_content (P : Prims) (enc : EncInfo) (h : enc.sec.key = none) (num gen : Nat) :
    (∀ cf, keyForRef P enc.sec cf num gen = .error .auth) ∧
    (∀ buf, enc.strF.isSome → decryptBytes P enc num gen buf = .error .auth) ∧
    (∀ src wants, enc.stmF.isSome → decryptStream P enc num gen src wants = .error .auth) := by
  have hk : ∀ cf, keyForRef P enc.sec cf num gen = .error .auth := by
    intro cf; simp [keyForRef, h]
  refine ⟨hk, ?_, ?_⟩
  · intro buf hs
    cases hf : enc.strF with
    | none => simp [hf] at hs
    | some cf => simp [decryptBytes, hf, hk]
  · intro src wants hs
    cases hf : enc.stmF with
    | none => simp [hf] at hs
    | some cf => simp [decryptStream, hf, hk]

/-- a handler read from an Encrypt dictionary has no key -/
theorem openStdSec_no_key (enc : List (Bytes × Obj)) (V : Int) (kb : Nat) (ID : Bytes) (s : Sec)
    (h : openStdSec enc V kb ID = .ok s) : s.key = none := by
  unfold openStdSec at h
  repeat' split at h
  all_goals (try simp at h)
  all_goals (try (repeat' split at h))
  all_goals (try simp at h)
  all_goals (try (subst h; rfl))
  all_goals (try (obtain ⟨_, h⟩ := h; subst h; rfl))




/-- **encrypt_decrypt_bytes.**  Whatever `EncryptBytes` returns for an object — RC4, AES-CBC with
a fresh IV from the random stream, or no string filter — `DecryptBytes` for the same object turns
back into the plaintext; for every object number and generation, every key and every string. -/
theorem encrypt_decrypt_bytes {P : Prims} (ok : PrimsOK P) (enc : EncInfo) (num gen : Nat)
    (buf rng out rng' : Bytes) (h : encryptBytes P enc num gen buf rng = .ok (out, rng')) :
    decryptBytes P enc num gen out = .ok buf := by
  unfold encryptBytes at h
  unfold decryptBytes
  cases hf : enc.strF with
  | none => simp [hf] at h ⊢; exact h.1.symm
  | some cf =>
    simp only [hf] at h ⊢
    cases hk : keyForRef P enc.sec cf num gen with
    | error e => simp [hk] at h
    | ok key =>
      simp only [hk] at h ⊢
      cases hc : cf.cipher with
      | rc4 =>
        simp only [hc, Except.ok.injEq, Prod.mk.injEq] at h ⊢
        rw [← h.1, rc4_involutive ok]
      | aes =>
        simp only [hc] at h ⊢
        by_cases hl : rng.length < 16
        · simp [hl] at h
        · by_cases hko : aesKeyOk key = true
          · simp only [hl, ↓reduceIte, hko, Bool.not_true, Bool.false_eq_true, Except.ok.injEq,
              Prod.mk.injEq] at h
            have hiv : (rng.take 16).length = 16 := by simp; omega
            have hd := decrypt_encrypt_AES ok key (rng.take 16) buf hiv
            rw [← h.1]
            have hlen : (encryptAES P key (rng.take 16) buf).length = 16 + 16 * (buf.length / 16 + 1) := by
              rw [encryptAES_eq]
              simp [cbcEncrypt, cbcEncBlocks_length ok, pkcs7Pad_length, hiv]
            have h1 : ¬ ((encryptAES P key (rng.take 16) buf).length < 32) := by omega
            have h2 : (encryptAES P key (rng.take 16) buf).length % 16 = 0 := by omega
            simp [h1, h2, hko, hd]
          · simp [hl, hko] at h

/-- the IV of an AES string is the next 16 bytes of the random stream, which are then used up -/
theorem encryptBytes_iv {P : Prims} (enc : EncInfo) (cf : CryptFilter) (num gen : Nat)
    (buf rng out rng' : Bytes) (hf : enc.strF = some cf) (hc : cf.cipher = .aes)
    (h : encryptBytes P enc num gen buf rng = .ok (out, rng')) :
    out.take 16 = rng.take 16 ∧ rng' = rng.drop 16 ∧ 16 ≤ rng.length := by
  unfold encryptBytes at h
  simp only [hf] at h
  cases hk : keyForRef P enc.sec cf num gen with
  | error e => simp [hk] at h
  | ok key =>
    simp only [hk, hc] at h
    by_cases hl : rng.length < 16
    · simp [hl] at h
    · by_cases hko : aesKeyOk key = true
      · simp only [hl, ↓reduceIte, hko, Bool.not_true, Bool.false_eq_true, Except.ok.injEq,
          Prod.mk.injEq] at h
        refine ⟨?_, h.2.symm, by omega⟩
        rw [← h.1, encryptAES_eq]
        exact List.take_left' (by simp; omega)
      · simp [hl, hko] at h

/-! ## prep_equivalence -/

/-- passwords with the same prepared form (32-byte PDFDoc padding for R ≤ 4, the 127-byte UTF-8
form for R ≥ 5) are indistinguishable to `authenticate` — this is why C09 speaks of passwords
"differing after preparation" -/
theorem prep_equivalence (P : Prims) (sec : Sec) (a b : Passwd)
    (h4 : sec.R < 5 → padPasswd a.pdfDoc = padPasswd b.pdfDoc)
    (h6 : ¬ sec.R < 5 → utf8Passwd a.sasl = utf8Passwd b.sasl) :
    authenticate P sec a = authenticate P sec b := by
  unfold authenticate
  by_cases hR : sec.R < 5
  · simp only [hR, ↓reduceIte, h4 hR]
  · simp only [hR, ↓reduceIte, h6 hR]

/-- only the first 32 bytes of the PDFDoc form count -/
theorem padPasswd_truncates (b c : Bytes) (h : 32 ≤ b.length) :
    padPasswd (some (b ++ c)) = padPasswd (some b) := by
  simp only [padPasswd]
  have h1 : min (b ++ c).length 32 = 32 := by simp; omega
  have h2 : min b.length 32 = 32 := by omega
  rw [h1, h2, List.take_append_of_le_length h]

/-- only the first 127 bytes of the SASLprep form count -/
theorem utf8Passwd_truncates (b c : Bytes) (h : 127 ≤ b.length) :
    utf8Passwd (some (b ++ c)) = utf8Passwd (some (b.take 127)) := by
  have hr : utf8Passwd (some (b.take 127)) = .ok (b.take 127) := by
    simp only [utf8Passwd]
    have : ¬ (b.take 127).length > 127 := by simp; omega
    simp only [this, ↓reduceIte]
  rw [hr]
  simp only [utf8Passwd]
  by_cases hl : (b ++ c).length > 127
  · simp only [hl, ↓reduceIte, List.take_append_of_le_length h]
  · have hc : c = [] := by
      cases c with
      | nil => rfl
      | cons x xs => simp at hl; omega
    subst hc
    have hb : b.length = 127 := by simp at hl; omega
    simp [hb, List.take_of_length_le (Nat.le_of_eq hb)]

/-! ## the empty password is tried first -/

/-- **empty_user_needs_none.**  If the empty password authenticates (in particular when the user
password is empty), `parseEncryptDict` succeeds with its result whatever password was supplied -/
theorem empty_user_needs_none (P : Prims) (sec : Sec) (empty pw : Passwd) (b : Bool) (perm : Nat)
    (h : (authenticate P sec empty).1 = .ok perm) :
    eagerAuth P sec empty b pw = authenticate P sec empty := by
  unfold eagerAuth
  cases hr : authenticate P sec empty with
  | mk r s' =>
    rw [hr] at h
    simp only at h
    subst h
    rfl

/-- when neither the empty nor the supplied password authenticates, the result is an
authentication error and the handler still has no key -/
theorem wrong_pw_fails (P : Prims) (sec : Sec) (empty pw : Passwd) (b : Bool) (e1 e2 : Err)
    (h0 : sec.key = none)
    (h1 : (authenticate P sec empty).1 = .error e1) (h2 : (authenticate P sec pw).1 = .error e2) :
    ∃ e, (eagerAuth P sec empty b pw).1 = .error e ∧ (eagerAuth P sec empty b pw).2.key = none := by
  have hs1 := authenticate_error_state P sec empty e1 h1
  have hs2 := authenticate_error_state P sec pw e2 h2
  unfold eagerAuth
  cases hr : authenticate P sec empty with
  | mk r s' =>
    rw [hr] at h1 hs1
    simp only at h1 hs1
    subst h1 hs1
    cases b with
    | false => exact ⟨e1, rfl, h0⟩
    | true =>
      simp only [↓reduceIte]
      cases hr2 : authenticate P s' pw with
      | mk r2 s2 =>
        rw [hr2] at h2 hs2
        simp only at h2 hs2
        subst h2 hs2
        exact ⟨e2, rfl, h0⟩




/-! ## Algorithm 2.B terminates within the model's fuel -/

theorem cbcEncBlocks_bytes {P : Prims} (hb : ∀ k b x, x ∈ P.aesEnc k b → x < 256) (k : Bytes) :
    ∀ (n : Nat) (iv d : Bytes) (x : Nat), x ∈ (cbcEncBlocks P k n iv d).1 → x < 256 := by
  intro n
  induction n with
  | zero => intro iv d x hx; simp [cbcEncBlocks] at hx
  | succ n ih =>
    intro iv d x hx
    simp only [cbcEncBlocks, List.mem_append] at hx
    rcases hx with h | h
    · exact hb _ _ _ h
    · exact ih _ _ _ h

theorem slowHashRound_last {P : Prims} (hb : ∀ k b x, x ∈ P.aesEnc k b → x < 256) (pw u K : Bytes) :
    (slowHashRound P pw u K).2 < 256 := by
  unfold slowHashRound
  simp only
  split
  · rename_i b hl
    exact cbcEncBlocks_bytes hb _ _ _ _ b (List.mem_of_getLast? hl)
  · omega

/-- **slowHash_fuel.**  The loop `for i := 0; i < 64 || K1[last] > i-32; i++` stops at the latest
at `i = 287` because a byte is at most 255; so the model's fuel of 288 rounds is never the reason
for stopping: more fuel gives the same result. -/
theorem slowHashLoop_fuel {P : Prims} (hb : ∀ k b x, x ∈ P.aesEnc k b → x < 256) (pw u : Bytes) :
    ∀ (fuel extra i : Nat) (K : Bytes) (last : Nat), last < 256 → 288 ≤ fuel + i →
      slowHashLoop P pw u (fuel + extra) i K last = slowHashLoop P pw u fuel i K last := by
  intro fuel
  induction fuel with
  | zero =>
    intro extra i K last hl hi
    have hc : ¬ (i < 64 ∨ last + 32 > i) := by omega
    cases extra with
    | zero => rfl
    | succ e => simp [slowHashLoop, hc]
  | succ f ih =>
    intro extra i K last hl hi
    have e : f + 1 + extra = (f + extra) + 1 := by omega
    rw [e]
    simp only [slowHashLoop]
    split
    · exact ih extra (i + 1) _ _ (slowHashRound_last hb pw u K) (by omega)
    · rfl

theorem slowHash_fuel {P : Prims} (hb : ∀ k b x, x ∈ P.aesEnc k b → x < 256) (pw salt u : Bytes) (extra : Nat) :
    (slowHashLoop P pw u (288 + extra) 0 (P.sha256 (pw ++ salt ++ u)) 0).take 32 = slowHash P pw salt u := by
  unfold slowHash
  rw [slowHashLoop_fuel hb pw u 288 extra 0 _ 0 (by omega) (by omega)]




/-! ## the headline statements: a handler made by `createStdSecHandler`, stored, and opened again -/

/-- **owner_pw_opens (R 6).** -/
theorem owner_pw_opens_R6 {P : Prims} (ok : PrimsOK P) (sec : Sec) (pu po fileKey b1 b2 rnd : Bytes)
    (pw : Passwd) (c : Created6 P sec pu po fileKey b1 b2 rnd) (hpw : utf8Passwd pw.sasl = .ok po) :
    authenticate P sec pw = (.ok Gen.sec_PermAll, { sec with key := some fileKey }) := by
  have hR : ¬ sec.R < 5 := by rw [c.hR]; omega
  unfold authenticate
  simp only [hR, ↓reduceIte, hpw, authenticateOwner6_created ok sec pu po fileKey b1 b2 rnd c]

/-- **user_pw_opens (R 6).**  As for R ≤ 4: owner access if the user password also passes
Algorithm 12, otherwise user access with the stored permissions; the key is the creation key in
the second case. -/
theorem user_pw_opens_R6 {P : Prims} (ok : PrimsOK P) (sec : Sec) (pu po fileKey b1 b2 rnd : Bytes)
    (pw : Passwd) (c : Created6 P sec pu po fileKey b1 b2 rnd) (hpw : utf8Passwd pw.sasl = .ok pu) :
    (∃ s', authenticateOwner6 P sec pu = .ok s' ∧ authenticate P sec pw = (.ok Gen.sec_PermAll, s')) ∨
    ((∃ e, authenticateOwner6 P sec pu = .error e) ∧
      authenticate P sec pw = (.ok (stdSecPToPerm sec.R sec.P), { sec with key := some fileKey })) := by
  have hR : ¬ sec.R < 5 := by rw [c.hR]; omega
  unfold authenticate
  simp only [hR, ↓reduceIte, hpw]
  cases h : authenticateOwner6 P sec pu with
  | ok s' => left; exact ⟨s', rfl, rfl⟩
  | error e =>
    right
    exact ⟨⟨e, rfl⟩, by simp [authenticateUser6_created ok sec pu po fileKey b1 b2 rnd c]⟩

theorem restore_key (s : Sec) (k : Bytes) (h : s.key = some k) :
    ({ ({ s with key := none } : Sec) with key := some k } : Sec) = s := by
  cases s; simp at h; simp [h]

/-- the handler a reader builds from the stored fields: everything but the key -/
def reopened (s : Sec) : Sec := { s with key := none }

/-- **owner_pw_opens.**  For every handler `createStdSecHandler` makes — any version/revision,
any passwords, permissions, ID, random bytes — authenticating the reopened handler with the owner
password (the user password if no owner password was given) yields owner access (all
permissions) and restores exactly the handler that encrypted the file, key included. -/
theorem owner_pw_opens {P : Prims} (ok : PrimsOK P) (id : Bytes) (user owner : Passwd) (oe : Bool)
    (perm length V : Nat) (um : Bool) (rng rng' : Bytes) (s : Sec)
    (h : createStdSec P id user owner oe perm length V um rng = .ok (s, rng')) :
    authenticate P (reopened s) (if oe then user else owner) = (.ok Gen.sec_PermAll, s) := by
  by_cases hR : s.R ≤ 4
  · obtain ⟨pu, po, _, hpo, c, hk, _⟩ := createStdSec_R234 id user owner oe perm length V um rng rng' s h hR
    have := owner_pw_opens_R234 ok (reopened s) pu po (if oe then user else owner) c hpo
    rw [this]
    congr 1
    exact restore_key s _ hk
  · obtain ⟨pu, po, _, hpo, _, _, c, hk⟩ := createStdSec_R6 id user owner oe perm length V um rng rng' s h hR
    have := owner_pw_opens_R6 ok (reopened s) pu po _ _ _ _ (if oe then user else owner) c hpo
    rw [this]
    congr 1
    exact restore_key s _ hk

/-- **user_pw_opens.**  For every handler `createStdSecHandler` makes, the user password
authenticates the reopened handler.  The access is user access with
`stdSecPToPerm R (stdSecPermToP perm)` (= the closure of the requested permissions by
`perm_algebra`) and the handler is restored exactly — unless the user password also passes as
owner password (always when both are equal, otherwise only by a hash collision), in which case
`authenticate`, which tries the owner algorithm first, reports owner access. -/
theorem user_pw_opens {P : Prims} (ok : PrimsOK P) (id : Bytes) (user owner : Passwd) (oe : Bool)
    (perm length V : Nat) (um : Bool) (rng rng' : Bytes) (s : Sec)
    (h : createStdSec P id user owner oe perm length V um rng = .ok (s, rng')) :
    (∃ s', (authenticate P (reopened s) user) = (.ok Gen.sec_PermAll, s') ∧ s'.key.isSome = true) ∨
    authenticate P (reopened s) user = (.ok (stdSecPToPerm s.R s.P), s) := by
  by_cases hR : s.R ≤ 4
  · obtain ⟨pu, po, hpu, _, c, hk, _⟩ := createStdSec_R234 id user owner oe perm length V um rng rng' s h hR
    rcases user_pw_opens_R234 (reopened s) pu po user c hpu with ⟨s', h1, h2⟩ | ⟨_, h2⟩
    · left
      refine ⟨s', h2, ?_⟩
      unfold authenticateOwner at h1
      simp [authenticateUser_key P _ _ _ h1]
    · right
      rw [h2]
      congr 1
      exact restore_key s _ hk
  · obtain ⟨pu, po, hpu, _, _, _, c, hk⟩ := createStdSec_R6 id user owner oe perm length V um rng rng' s h hR
    rcases user_pw_opens_R6 ok (reopened s) pu po _ _ _ _ user c hpu with ⟨s', h1, h2⟩ | ⟨_, h2⟩
    · left; exact ⟨s', h2, authenticateOwner6_key P _ _ _ h1⟩
    · right
      rw [h2]
      congr 1
      exact restore_key s _ hk

theorem createStdSec_fields {P : Prims} (id : Bytes) (user owner : Passwd) (oe : Bool)
    (perm length V : Nat) (um : Bool) (rng rng' : Bytes) (s : Sec)
    (h : createStdSec P id user owner oe perm length V um rng = .ok (s, rng')) :
    chooseR V perm = .ok s.R ∧ s.P = stdSecPermToP perm ∧ s.ID = id ∧ s.keyBytes = length / 8 ∧
    s.unencMeta = um := by
  unfold createStdSec at h
  cases hc : chooseR V perm with
  | error e => simp [hc] at h
  | ok R =>
    simp only [hc] at h
    by_cases h234 : R = 2 ∨ R = 3 ∨ R = 4
    · simp only [h234, ↓reduceIte] at h
      cases hpu : padPasswd user.pdfDoc with
      | error e => simp [hpu] at h
      | ok pu =>
        simp only [hpu] at h
        cases hpo : padPasswd (if oe = true then user else owner).pdfDoc with
        | error e => simp [hpo] at h
        | ok po =>
          simp only [hpo] at h
          split at h
          · simp at h
          · simp only [Except.ok.injEq, Prod.mk.injEq] at h
            obtain ⟨hs, _⟩ := h
            subst hs
            exact ⟨rfl, rfl, rfl, rfl, rfl⟩
    · simp only [h234, ↓reduceIte] at h
      cases hpu : utf8Passwd user.sasl with
      | error e => simp [hpu] at h
      | ok pu =>
        simp only [hpu] at h
        cases hpo : utf8Passwd (if oe = true then user else owner).sasl with
        | error e => simp [hpo] at h
        | ok po =>
          simp only [hpo] at h
          split at h
          · simp at h
          · simp only [Except.ok.injEq, Prod.mk.injEq] at h
            obtain ⟨hs, _⟩ := h
            subst hs
            exact ⟨rfl, rfl, rfl, rfl, rfl⟩

theorem chooseR_two (V perm : Nat) (h : chooseR V perm = .ok 2) : canR2 perm = true := by
  unfold chooseR at h
  by_cases h1 : (decide (V < 2) && canR2 perm) = true
  · simp at h1; exact h1.2
  · simp only [h1, Bool.false_eq_true, ↓reduceIte] at h
    repeat' split at h
    all_goals simp at h

/-- **created_permissions.**  The `/P` word a created handler stores reads back as the requested
permissions closed under the documented implications, for the revision `createStdSecHandler`
itself chooses (R = 2 only when revision 2 can express the set) — all 128 sets. -/
theorem created_permissions {P : Prims} (id : Bytes) (user owner : Passwd) (oe : Bool)
    (perm length V : Nat) (um : Bool) (rng rng' : Bytes) (s : Sec) (hp : perm < 128)
    (h : createStdSec P id user owner oe perm length V um rng = .ok (s, rng')) :
    stdSecPToPerm s.R s.P = closure perm := by
  obtain ⟨hc, hP, _⟩ := createStdSec_fields id user owner oe perm length V um rng rng' s h
  rw [hP]
  rcases chooseR_cases V perm s.R hc with h2 | h3 | h4 | h6
  · rw [h2] at hc ⊢
    exact perm_algebra_R2 perm hp (chooseR_two V perm hc)
  · rw [h3]; exact perm_algebra perm hp 3 (by decide)
  · rw [h4]; exact perm_algebra perm hp 4 (by decide)
  · rw [h6]; exact perm_algebra perm hp 6 (by decide)


/-! ## the ID at `Close`, the Crypt-first rule in `OpenStream` -/

/-- if `Writer.Close` goes on in an encrypted file, the first ID it writes to the trailer is the
one the key was derived from (so that `owner_pw_opens`/`user_pw_opens` apply to the reader's
handler, whose `ID` is that trailer entry) -/
theorem closeCheckID_ok (enc : EncInfo) (ids : List Bytes) (h : closeCheckID (some enc) ids = .ok ()) :
    ∃ b, ids = [enc.sec.ID, b] := by
  unfold closeCheckID at h
  match ids, h with
  | [a, b], h =>
    by_cases he : (a == enc.sec.ID) = true
    · exact ⟨b, by simp at he; rw [he]⟩
    · simp [he] at h

theorem any_isCrypt_of_head (a : List FilterKind) (h1 : cryptBehindFirst a = false)
    (h2 : a.head? ≠ some .cryptOther) (h3 : a.head? ≠ some .cryptIdentity) : a.any (·.isCrypt) = false := by
  cases a with
  | nil => rfl
  | cons x xs =>
    simp only [cryptBehindFirst] at h1
    cases x with
    | cryptIdentity => simp at h3
    | cryptOther => simp at h2
    | other => simpa [FilterKind.isCrypt] using h1

/-- **crypt_first.**  Whenever `OpenStream` accepts a combination of a dictionary chain and a
filters argument, the chain written to the file has no Crypt filter behind the first position,
no Crypt filter other than Identity, the default encryption is skipped exactly when the chain
starts with `/Crypt /Identity`, and never in a file that is encrypted without crypt filters
(/V 1 or 2, where a reader decrypts every stream). -/
theorem crypt_first (d a ch : List FilterKind) (skip : Bool) (encrypted : Option Bool)
    (h : openStreamChain d a encrypted = .ok (ch, skip)) :
    ch = d ++ a ∧ cryptBehindFirst ch = false ∧ ch.head? ≠ some .cryptOther ∧
    (skip = true ↔ ch.head? = some .cryptIdentity) ∧
    (skip = true → encrypted ≠ some false) := by
  unfold openStreamChain at h
  by_cases c1 : cryptBehindFirst a = true
  · simp [c1] at h
  by_cases c2 : (a.head? == some FilterKind.cryptOther) = true
  · simp [c1, c2] at h
  by_cases c3 : cryptBehindFirst d = true
  · simp [c1, c2, c3] at h
  by_cases c4 : (d.head? == some FilterKind.cryptOther) = true
  · simp [c1, c2, c3, c4] at h
  by_cases c5 : (a.head? == some FilterKind.cryptIdentity && !d.isEmpty) = true
  · simp [c1, c2, c3, c4, c5] at h
  by_cases c6 : ((a.head? == some FilterKind.cryptIdentity || d.head? == some FilterKind.cryptIdentity) &&
      encrypted == some false) = true
  · simp [c1, c2, c3, c4, c5, c6] at h
  simp only [c1, c2, c3, c4, c5, c6, Bool.false_eq_true, ↓reduceIte, Except.ok.injEq, Prod.mk.injEq] at h
  obtain ⟨hch, hskip⟩ := h
  subst hch hskip
  have hav : (a.head? == some FilterKind.cryptIdentity || d.head? == some FilterKind.cryptIdentity) = true →
      encrypted ≠ some false := by
    intro hs he
    apply c6
    simp [hs, he]
  have c1' : cryptBehindFirst a = false := by simpa using c1
  have c3' : cryptBehindFirst d = false := by simpa using c3
  have c2' : a.head? ≠ some .cryptOther := by simpa using c2
  have c4' : d.head? ≠ some .cryptOther := by simpa using c4
  cases d with
  | nil =>
    refine ⟨rfl, by simpa using c1', by simpa using c2', by simp, hav⟩
  | cons x xs =>
    have c5' : a.head? ≠ some .cryptIdentity := by
      intro h5; simp [h5] at c5
    have ha := any_isCrypt_of_head a c1' c2' c5'
    simp only [cryptBehindFirst] at c3'
    refine ⟨rfl, ?_, ?_, ?_, hav⟩
    · simp only [List.cons_append, cryptBehindFirst, List.any_append, c3', ha, Bool.or_self]
    · simpa using c4'
    · simp only [List.cons_append, List.head?_cons]
      constructor
      · intro h
        simp only [Bool.or_eq_true, beq_iff_eq] at h
        rcases h with h | h
        · exact absurd h c5'
        · simpa using h
      · intro h; simp [h]

example : openStreamChain [.other] [.cryptIdentity] = .error .other := rfl
example : openStreamChain [.cryptOther] [] = .error .other := rfl
example : openStreamChain [.cryptIdentity, .other] [.other] = .ok ([.cryptIdentity, .other, .other], true) := rfl
example : openStreamChain [] [.cryptIdentity] (some false) = .error .other := rfl
example : openStreamChain [] [.cryptIdentity] (some true) = .ok ([.cryptIdentity], true) := rfl


/-! ## non-vacuity: the hypotheses can be met

`toyOK : PrimsOK toyPrims` (Lemmas/SECBasic.lean) is an instance of the hypotheses on the
primitives; with it `createStdSecHandler` succeeds for R 3 and R 6, so `owner_pw_opens`,
`user_pw_opens` and `created_permissions` speak about existing handlers. -/

example : ∃ s r, createStdSec toyPrims [1, 2, 3] ⟨some [117], none⟩ ⟨some [111], none⟩ false 20 128 2 false []
    = .ok (s, r) := ⟨_, _, rfl⟩
example : ∃ s r, createStdSec toyPrims [1, 2, 3] ⟨none, some [117]⟩ ⟨none, some [111]⟩ false 20 256 5 true
    (List.range 70) = .ok (s, r) := ⟨_, _, rfl⟩
def toySec : Sec :=
  match createStdSec toyPrims [1, 2, 3] ⟨some [117], none⟩ ⟨some [111], none⟩ false 20 128 2 false [] with
  | .ok (s, _) => s
  | .error _ => default

def resultIs (r : Except Err Nat) (want : Option Nat) : Bool :=
  match r, want with
  | .ok p, some q => p == q
  | .error .auth, none => true
  | _, _ => false

-- the owner password "o" gives owner access, the user password "u" user access with the
-- closure of 20 = Annotate|Print, a wrong password an authentication error
example : resultIs (authenticate toyPrims (reopened toySec) ⟨some [111], none⟩).1 (some 127) = true := by
  decide +kernel
example : resultIs (authenticate toyPrims (reopened toySec) ⟨some [117], none⟩).1 (some (closure 20)) = true := by
  decide +kernel
example : resultIs (authenticate toyPrims (reopened toySec) ⟨some [120], none⟩).1 none = true := by
  decide +kernel
example : unpadPKCS7 (pkcs7Pad [1, 2, 3]) = .ok [1, 2, 3] := rfl
example : unpadPKCS7 ([1, 2, 3, 9] ++ List.replicate 12 13) = .error .other := rfl

def toyEnc : EncInfo :=
  { sec := { R := 4, ID := [], O := [], U := [], P := 0, keyBytes := 16, key := some (List.replicate 16 9) },
    strF := some ⟨.aes, 128⟩, stmF := some ⟨.aes, 128⟩ }

example : ∃ out r, encryptBytes toyPrims toyEnc 7 0 [104, 105] (List.range 20) = .ok (out, r) := ⟨_, _, rfl⟩

end PdfVerif.C09sec

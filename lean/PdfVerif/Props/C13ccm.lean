import PdfVerif.Props.C13ccl
import PdfVerif.Props.C12ccf
/-!
# C13 (part 13) — the code space of a parent chain is the union of its levels

`File.Codec()` builds its codec from the concatenation of the code space ranges of the file and
all its ancestors (`chainCodeSpace`).  A byte string is a code of the chain's code space iff it is
a code of the code space of some level, and the chain's codec decodes exactly as ISO 32000-2
9.7.6.3 prescribes for that union — whatever code space each level declares.
-/
namespace PdfVerif.C13ccm
open PdfVerif PdfVerif.CC PdfVerif.C12cc PdfVerif.C12ccf

theorem chainCodeSpace_cons (f : CMapFile) (parents : Chain) :
    chainCodeSpace (f :: parents) = f.csr ++ chainCodeSpace parents := by
  simp [chainCodeSpace]

/-- **the code space of a chain is the union of the code spaces of its levels** -/
theorem isCodeOf_chain (chain : Chain) (bs : Bytes) :
    IsCodeOf (chainCodeSpace chain) bs ↔ ∃ g ∈ chain, IsCodeOf g.csr bs := by
  simp only [IsCodeOf, chainCodeSpace, List.mem_flatMap]
  constructor
  · rintro ⟨r, ⟨g, hg, hr⟩, hc⟩; exact ⟨g, hg, r, hr, hc⟩
  · rintro ⟨g, hg, r, hr, hc⟩; exact ⟨r, ⟨g, hg, hr⟩, hc⟩

/-- `File.Codec()` decodes like the reference semantics of the union of all levels -/
theorem chainCodec_decode_spec (chain : Chain) (c : Codec) (hC : chainCodec chain = .ok c)
    (s : Bytes) (hs : AllBytes s) :
    c.decode s = .ok (Spec.CodeSpace.codeValue (s.take (Spec.CodeSpace.decode (toSpec (chainCodeSpace chain)) s).1),
      (Spec.CodeSpace.decode (toSpec (chainCodeSpace chain)) s).1,
      (Spec.CodeSpace.decode (toSpec (chainCodeSpace chain)) s).2) :=
  C12ccc.newCodec_decode_spec (chainCodeSpace chain) c hC s hs

/-- `File.Codec()` succeeds only if no code of any level is a proper prefix of a code of any
level (in particular: levels with conflicting code spaces are rejected as a whole) -/
theorem chainCodec_prefixFree (chain : Chain) (c : Codec) (hC : chainCodec chain = .ok c)
    (hbytes : ∀ g ∈ chain, ∀ r ∈ g.csr, AllBytes r.high) :
    Spec.CodeSpace.PrefixFree (toSpec (chainCodeSpace chain)) := by
  refine (C12cce.newCodec_prefixFree (chainCodeSpace chain) c hC ?_).2
  intro r hr
  simp only [chainCodeSpace, List.mem_flatMap] at hr
  obtain ⟨g, hg, hr⟩ := hr
  exact hbytes g hg r hr

end PdfVerif.C13ccm

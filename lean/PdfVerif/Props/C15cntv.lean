import PdfVerif.Model.CNTBuilder
import PdfVerif.Props.C15cntb
/-!
# C15 — streams produced by the Builder are accepted and balance

`Model/CNTBuilder.lean` models `Builder.emit`/`Harvest`/`Reset`/`Close` and the ways the typed
methods use them.  For **every** sequence of Builder actions (any operators and operands, any
version table, any number of `Harvest` points and `Reset`s, methods that refuse their arguments,
methods that update graphics parameters directly):

* `builder_accepts` — as long as `Err` is nil, everything emitted in the current session
  (`done ++ Stream`: the harvested segments followed by the current stream) is accepted operator
  by operator by `State.ApplyOperator` from the initial state (`Accepts`), and leads to the
  Builder's own `State`; the structural invariant `Inv` holds for it;
* `builder_run` — for programs without direct parameter updates this is literally
  `run (NewState) (done ++ Stream) = ok State`, so `closing_balances` applies to the whole stream;
* `builder_closing` — from the Builder's state the operators of `ClosingOperators` are accepted
  one after the other and leave no open pair (`CanClose` unless a Type 3 glyph still waits for
  `d0`/`d1`);
* `builder_close` — when `Close()` reports no error, nothing is open and `ClosingOperators` is
  empty: the stream is balanced as it stands;
* `builder_nested` — with `Version > 0` the session is a **properly nested** sequence of pairs
  (an ordinary stack discipline, stated without reference to `State`), and with the
  `ClosingOperators` appended nothing is open (D-C15-5: `popNesting` is strict for the Builder).

`Builder.Close` itself appends nothing (it is `State.CanClose`); "the stream followed by
`ClosingOperators`" is what consumers such as `reader.ProcessIter` build, and what the harness
checks on the implementation.
-/
namespace PdfVerif.C15cntv
open PdfVerif PdfVerif.CNT PdfVerif.C15cntb

/-- `ops` is accepted from `s`, operator by operator, with updates of graphics parameters
(`AdjustOK`) allowed between the operators, and leads to `s'` -/
inductive Accepts : St → List (Bytes × List Obj) → St → Prop
  | nil (s : St) : Accepts s [] s
  | adj {s s1 s' : St} {ops : List (Bytes × List Obj)} (h : AdjustOK s s1) (h2 : Accepts s1 ops s') : Accepts s ops s'
  | step {s s1 s' : St} {n : Bytes} {a : List Obj} {ops : List (Bytes × List Obj)}
      (h : applyOperator s n a = .ok s1) (h2 : Accepts s1 ops s') : Accepts s ((n, a) :: ops) s'

theorem inv_adjust (s s1 : St) (h : Inv s) (ha : AdjustOK s s1) : Inv s1 := by
  obtain ⟨a1, a2, a3, a4, _⟩ := ha
  constructor
  · intro ho; rw [a2]; exact h.text_in (a1 ▸ ho)
  · intro ho; rw [a2]; exact h.text_out (a1 ▸ ho)
  · rw [a2, a3]; exact h.stack_len
  · intro hs ho; rw [a2]; exact h.strict_q (a4 ▸ hs) (a1 ▸ ho)
  · intro ho; rw [a2]; exact h.t3 (a1 ▸ ho)
  · rw [a2]; exact h.kinds
  · rw [a1]; exact h.objs

theorem accepts_inv {s s' : St} {ops : List (Bytes × List Obj)} (h : Accepts s ops s') : Inv s → Inv s' := by
  induction h with
  | nil s => exact id
  | adj ha _ ih => intro hi; exact ih (inv_adjust _ _ hi ha)
  | step hstep _ ih => intro hi; exact ih (step_inv _ _ _ _ hi hstep)

theorem accepts_snoc {s s1 s2 : St} {ops : List (Bytes × List Obj)} {n : Bytes} {a : List Obj}
    (h : Accepts s ops s1) (hstep : applyOperator s1 n a = .ok s2) : Accepts s (ops ++ [(n, a)]) s2 := by
  induction h with
  | nil s => exact .step hstep (.nil _)
  | adj ha _ ih => exact .adj ha (ih hstep)
  | step hs _ ih => exact .step hs (ih hstep)

theorem accepts_adj_end {s s1 s2 : St} {ops : List (Bytes × List Obj)}
    (h : Accepts s ops s1) (ha : AdjustOK s1 s2) : Accepts s ops s2 := by
  induction h with
  | nil s => exact .adj ha (.nil _)
  | adj ha' _ ih => exact .adj ha' (ih ha)
  | step hs _ ih => exact .step hs (ih ha)

theorem accepts_of_run (ops : List (Bytes × List Obj)) : ∀ (s s' : St), run s ops = .ok s' → Accepts s ops s' := by
  induction ops with
  | nil => intro s s' h; simp [run] at h; subst h; exact .nil _
  | cons op rest ih =>
    intro s s' h
    obtain ⟨n, a⟩ := op
    simp only [run] at h
    cases hstep : applyOperator s n a with
    | error e => simp [hstep] at h
    | ok s1 =>
      simp only [hstep] at h
      exact .step hstep (ih s1 s' h)

/-- all `adjust` actions of a program respect `AdjustOK` -/
def ActsOK (acts : List BAct) : Prop :=
  ∀ act ∈ acts, ∀ f, act = .adjust f → ∀ s, AdjustOK s (f s)

/-- the invariant of the Builder -/
def BInv (b : Bld) : Prop :=
  ∃ ct strict ver, Inv b.st ∧ (b.err = false → Accepts (initSt ct strict ver) (b.done ++ b.stream) b.st)

theorem binv_new (ct : Nat) (strict ver : Bool) : BInv (Bld.new ct strict ver) :=
  ⟨ct, strict, ver, init_inv ct strict ver, fun _ => .nil _⟩

theorem binv_act (verOK : Bytes → List Obj → Bool) (b : Bld) (act : BAct) (h : BInv b)
    (hact : ∀ f, act = .adjust f → ∀ s, AdjustOK s (f s)) : BInv (b.act verOK act) := by
  obtain ⟨ct, strict, ver, hinv, hacc⟩ := h
  cases act with
  | emit n a =>
    simp only [Bld.act, Bld.emit]
    cases he : b.err with
    | true => simp only [if_true]; exact ⟨ct, strict, ver, hinv, fun h => by rw [he] at h; simp at h⟩
    | false =>
      simp only [Bool.false_eq_true, if_false]
      cases hv : verOK n a with
      | false => simp only [Bool.not_false, if_true]; exact ⟨ct, strict, ver, hinv, fun h => by simp at h⟩
      | true =>
        simp only [Bool.not_true, Bool.false_eq_true, if_false]
        cases hstep : applyOperator b.st n a with
        | error e => simp only []; exact ⟨ct, strict, ver, hinv, fun h => by simp at h⟩
        | ok st' =>
          simp only []
          refine ⟨ct, strict, ver, step_inv _ _ _ _ hinv hstep, fun _ => ?_⟩
          rw [← List.append_assoc]
          exact accepts_snoc (hacc he) hstep
  | fail => exact ⟨ct, strict, ver, hinv, fun h => by simp [Bld.act] at h⟩
  | adjust f =>
    simp only [Bld.act]
    cases he : b.err with
    | true => simp only [if_true]; exact ⟨ct, strict, ver, hinv, fun h => by rw [he] at h; simp at h⟩
    | false =>
      simp only [Bool.false_eq_true, if_false]
      have ha := hact f rfl b.st
      exact ⟨ct, strict, ver, inv_adjust _ _ hinv ha, fun _ => accepts_adj_end (hacc he) ha⟩
  | harvest =>
    simp only [Bld.act]
    cases he : b.err with
    | true => simp only [if_true]; exact ⟨ct, strict, ver, hinv, fun h => by rw [he] at h; simp at h⟩
    | false =>
      simp only [Bool.false_eq_true, if_false]
      exact ⟨ct, strict, ver, hinv, fun _ => by simpa using hacc he⟩
  | reset ct' strict' ver' => exact binv_new ct' strict' ver'

theorem binv_run (verOK : Bytes → List Obj → Bool) (acts : List BAct) : ∀ (b : Bld), BInv b → ActsOK acts →
    BInv (b.runActs verOK acts) := by
  induction acts with
  | nil => intro b h _; exact h
  | cons act rest ih =>
    intro b h hok
    simp only [Bld.runActs]
    exact ih _ (binv_act verOK b act h (fun f hf s => hok act (by simp) f hf s))
      (fun a ha f hf s => hok a (by simp [ha]) f hf s)

/-- **Every stream an error-free Builder has emitted is accepted by the state machine.**  For
every content type, version, version table and action sequence: if `Err` is nil at the end, the
operators of the current session — the harvested segments in order, then the current stream — are
accepted one by one by `State.ApplyOperator`, starting from a fresh state and ending in the
Builder's state, which satisfies the structural invariant. -/
theorem builder_accepts (verOK : Bytes → List Obj → Bool) (ct : Nat) (strict ver : Bool) (acts : List BAct) (hok : ActsOK acts) :
    let b := (Bld.new ct strict ver).runActs verOK acts
    Inv b.st ∧ (b.err = false → ∃ ct' strict' ver', Accepts (initSt ct' strict' ver') (b.done ++ b.stream) b.st) := by
  obtain ⟨ct', strict', ver', h1, h2⟩ := binv_run verOK acts _ (binv_new ct strict ver) hok
  exact ⟨h1, fun he => ⟨ct', strict', ver', h2 he⟩⟩

/-! ## programs without direct parameter updates: plain `run` -/

def NoAdjust (acts : List BAct) : Prop := ∀ act ∈ acts, ∀ f, act ≠ .adjust f

def PInv (b : Bld) : Prop :=
  ∃ ct strict ver, b.err = false → run (initSt ct strict ver) (b.done ++ b.stream) = .ok b.st

theorem run_snoc (ops : List (Bytes × List Obj)) (s s1 s2 : St) (n : Bytes) (a : List Obj)
    (h : run s ops = .ok s1) (hstep : applyOperator s1 n a = .ok s2) : run s (ops ++ [(n, a)]) = .ok s2 := by
  rw [run_append ops _ s s1 h]
  simp [run, hstep]

theorem pinv_act (verOK : Bytes → List Obj → Bool) (b : Bld) (act : BAct) (h : PInv b) (hna : ∀ f, act ≠ .adjust f) :
    PInv (b.act verOK act) := by
  obtain ⟨ct, strict, ver, hrun⟩ := h
  cases act with
  | emit n a =>
    simp only [Bld.act, Bld.emit]
    cases he : b.err with
    | true => simp only [if_true]; exact ⟨ct, strict, ver, fun h => by rw [he] at h; simp at h⟩
    | false =>
      simp only [Bool.false_eq_true, if_false]
      cases hv : verOK n a with
      | false => simp only [Bool.not_false, if_true]; exact ⟨ct, strict, ver, fun h => by simp at h⟩
      | true =>
        simp only [Bool.not_true, Bool.false_eq_true, if_false]
        cases hstep : applyOperator b.st n a with
        | error e => simp only []; exact ⟨ct, strict, ver, fun h => by simp at h⟩
        | ok st' =>
          simp only []
          refine ⟨ct, strict, ver, fun _ => ?_⟩
          rw [← List.append_assoc]
          exact run_snoc _ _ _ _ _ _ (hrun he) hstep
  | fail => exact ⟨ct, strict, ver, fun h => by simp [Bld.act] at h⟩
  | adjust f => exact absurd rfl (hna f)
  | harvest =>
    simp only [Bld.act]
    cases he : b.err with
    | true => simp only [if_true]; exact ⟨ct, strict, ver, fun h => by rw [he] at h; simp at h⟩
    | false =>
      simp only [Bool.false_eq_true, if_false]
      exact ⟨ct, strict, ver, fun _ => by simpa using hrun he⟩
  | reset ct' strict' ver' => exact ⟨ct', strict', ver', fun _ => rfl⟩

/-- **Builder programs without direct parameter updates**: the emitted session is literally
accepted by `run` from a fresh state. -/
theorem builder_run (verOK : Bytes → List Obj → Bool) (acts : List BAct) : ∀ (b : Bld), PInv b → NoAdjust acts →
    PInv (b.runActs verOK acts) := by
  induction acts with
  | nil => intro b h _; exact h
  | cons act rest ih =>
    intro b h hna
    simp only [Bld.runActs]
    exact ih _ (pinv_act verOK b act h (fun f => hna act (by simp) f)) (fun a ha f => hna a (by simp [ha]) f)

theorem pinv_new (ct : Nat) (strict ver : Bool) : PInv (Bld.new ct strict ver) :=
  ⟨ct, strict, ver, fun _ => rfl⟩

/-! ## closing -/

/-- **The Builder's stream closes.**  Whatever an error-free Builder has emitted, the operators
returned by `State.ClosingOperators` for its state are accepted one after the other, leave no
paired operator open, and `CanClose` then succeeds (unless a Type 3 glyph procedure has not yet
seen `d0`/`d1`). -/
theorem builder_closing (verOK : Bytes → List Obj → Bool) (ct : Nat) (strict ver : Bool) (acts : List BAct) (hok : ActsOK acts) :
    let b := (Bld.new ct strict ver).runActs verOK acts
    ∃ s', run b.st ((closingOperators b.st).map fun c => (c, [])) = .ok s' ∧ s'.nesting = [] ∧
      closingOperators s' = [] ∧ (b.st.obj ≠ 16 → canClose s' = true) := by
  have hinv := (builder_accepts verOK ct strict ver acts hok).1
  intro b
  have := closing_balances b.st b.st [] hinv rfl
  simpa using this

/-- for programs without direct parameter updates `closing_balances` applies to the whole
session: the emitted operators followed by the closing operators are accepted from a fresh state
and balance -/
theorem builder_session_closes (verOK : Bytes → List Obj → Bool) (ct : Nat) (strict ver : Bool) (acts : List BAct)
    (hna : NoAdjust acts) :
    let b := (Bld.new ct strict ver).runActs verOK acts
    b.err = false → ∃ ct' strict' ver' s',
      run (initSt ct' strict' ver') (b.done ++ b.stream ++ (closingOperators b.st).map fun c => (c, [])) = .ok s' ∧
      s'.nesting = [] ∧ closingOperators s' = [] := by
  intro b he
  obtain ⟨ct', strict', ver', hrun⟩ := builder_run verOK acts _ (pinv_new ct strict ver) hna
  obtain ⟨s', h1, h2, h3, _⟩ := closing_balances _ _ _ (init_inv ct' strict' ver') (hrun he)
  exact ⟨ct', strict', ver', s', h1, h2, h3⟩

/-- **`Close() == nil` means balanced as it stands**: no paired operator is open, the state is
the page state, and `ClosingOperators` is empty. -/
theorem builder_close (b : Bld) (h : b.close = true) :
    b.err = false ∧ b.st.nesting = [] ∧ closingOperators b.st = [] := by
  simp only [Bld.close, Bool.and_eq_true, Bool.not_eq_true', canClose, List.isEmpty_iff, beq_iff_eq] at h
  obtain ⟨he, hn, ho⟩ := h
  refine ⟨he, hn, ?_⟩
  simp [closingOperators, hn, ho, Gen.content_ObjPage, Gen.content_ObjPath, Gen.content_ObjClippingPath]

/-! ## nesting discipline (D-C15-5) -/

theorem accepts_nested {s s' : St} {ops : List (Bytes × List Obj)} (h : Accepts s ops s') :
    s.ver = true → nested s.nesting ops = some s'.nesting ∧ s'.ver = true := by
  induction h with
  | nil s => intro hv; exact ⟨rfl, hv⟩
  | adj ha _ ih =>
    intro hv
    obtain ⟨_, a2, _, _, a5⟩ := ha
    have := ih (by rw [a5]; exact hv)
    rw [a2] at this
    exact this
  | step hstep _ ih =>
    intro hv
    obtain ⟨n1, n2⟩ := step_nested _ _ _ _ hv hstep
    obtain ⟨i1, i2⟩ := ih n2
    exact ⟨by simp only [nested, n1]; exact i1, i2⟩

theorem nested_append (a b : List (Bytes × List Obj)) : ∀ (stk stk1 : List Nat), nested stk a = some stk1 →
    nested stk (a ++ b) = nested stk1 b := by
  induction a with
  | nil => intro stk stk1 h; simp [nested] at h; simp [h]
  | cons op rest ih =>
    intro stk stk1 h
    obtain ⟨n, x⟩ := op
    simp only [nested, List.cons_append] at h ⊢
    cases hs : nestStep stk n with
    | none => simp [hs] at h
    | some stk' =>
      simp only [hs] at h ⊢
      exact ih stk' stk1 h

/-- `Reset` keeps the Builder's version: every `reset` action of the program has `Version > 0` -/
def VerActs (acts : List BAct) : Prop := ∀ act ∈ acts, ∀ ct strict ver, act = .reset ct strict ver → ver = true

/-- the Builder's state: a session begun with `Version > 0` -/
def VInv (b : Bld) : Prop :=
  ∃ ct strict, Inv b.st ∧ (b.err = false → Accepts (initSt ct strict true) (b.done ++ b.stream) b.st)

theorem vinv_act (verOK : Bytes → List Obj → Bool) (b : Bld) (act : BAct) (h : VInv b)
    (hact : ∀ f, act = .adjust f → ∀ s, AdjustOK s (f s))
    (hver : ∀ ct strict ver, act = .reset ct strict ver → ver = true) : VInv (b.act verOK act) := by
  obtain ⟨ct, strict, hinv, hacc⟩ := h
  cases act with
  | emit n a =>
    simp only [Bld.act, Bld.emit]
    cases he : b.err with
    | true => simp only [if_true]; exact ⟨ct, strict, hinv, fun h => by rw [he] at h; simp at h⟩
    | false =>
      simp only [Bool.false_eq_true, if_false]
      cases hv : verOK n a with
      | false => simp only [Bool.not_false, if_true]; exact ⟨ct, strict, hinv, fun h => by simp at h⟩
      | true =>
        simp only [Bool.not_true, Bool.false_eq_true, if_false]
        cases hstep : applyOperator b.st n a with
        | error e => simp only []; exact ⟨ct, strict, hinv, fun h => by simp at h⟩
        | ok st' =>
          simp only []
          refine ⟨ct, strict, step_inv _ _ _ _ hinv hstep, fun _ => ?_⟩
          rw [← List.append_assoc]
          exact accepts_snoc (hacc he) hstep
  | fail => exact ⟨ct, strict, hinv, fun h => by simp [Bld.act] at h⟩
  | adjust f =>
    simp only [Bld.act]
    cases he : b.err with
    | true => simp only [if_true]; exact ⟨ct, strict, hinv, fun h => by rw [he] at h; simp at h⟩
    | false =>
      simp only [Bool.false_eq_true, if_false]
      have ha := hact f rfl b.st
      exact ⟨ct, strict, inv_adjust _ _ hinv ha, fun _ => accepts_adj_end (hacc he) ha⟩
  | harvest =>
    simp only [Bld.act]
    cases he : b.err with
    | true => simp only [if_true]; exact ⟨ct, strict, hinv, fun h => by rw [he] at h; simp at h⟩
    | false =>
      simp only [Bool.false_eq_true, if_false]
      exact ⟨ct, strict, hinv, fun _ => by simpa using hacc he⟩
  | reset ct' strict' ver' =>
    have := hver ct' strict' ver' rfl
    subst this
    exact ⟨ct', strict', init_inv ct' strict' true, fun _ => .nil _⟩

theorem vinv_run (verOK : Bytes → List Obj → Bool) (acts : List BAct) : ∀ (b : Bld), VInv b → ActsOK acts → VerActs acts →
    VInv (b.runActs verOK acts) := by
  induction acts with
  | nil => intro b h _ _; exact h
  | cons act rest ih =>
    intro b h hok hver
    simp only [Bld.runActs]
    exact ih _ (vinv_act verOK b act h (fun f hf s => hok act (by simp) f hf s)
        (fun c st v hr => hver act (by simp) c st v hr))
      (fun a ha f hf s => hok a (by simp [ha]) f hf s)
      (fun a ha c st v hr => hver a (by simp [ha]) c st v hr)

/-- **Builder streams are properly nested.**  For a Builder with `Version > 0` — every content
type, every version table, every action sequence with any `Harvest`/`Reset` points, refused
calls and direct parameter updates —, as long as `Err` is nil: the operators of the session
(`done ++ Stream`) are a properly nested sequence of `q…Q`, `BT…ET`, `BMC/BDC…EMC`, `BX…EX` pairs
(every closer finds its own opener on top of an ordinary stack); the open pairs are the nesting
stack of the Builder's state; and with the state's `ClosingOperators` appended nothing is open. -/
theorem builder_nested (verOK : Bytes → List Obj → Bool) (ct : Nat) (strict : Bool) (acts : List BAct)
    (hok : ActsOK acts) (hver : VerActs acts) :
    let b := (Bld.new ct strict true).runActs verOK acts
    b.err = false →
      nested [] (b.done ++ b.stream) = some b.st.nesting ∧
      nested [] (b.done ++ b.stream ++ (closingOperators b.st).map fun c => (c, [])) = some [] := by
  intro b he
  have h0 : VInv (Bld.new ct strict true) := ⟨ct, strict, init_inv ct strict true, fun _ => .nil _⟩
  obtain ⟨ct', strict', hinv, hacc⟩ := vinv_run verOK acts _ h0 hok hver
  obtain ⟨h1, h2⟩ := accepts_nested (hacc he) (by simp [initSt])
  have h1' : nested [] (b.done ++ b.stream) = some b.st.nesting := by simpa [initSt] using h1
  refine ⟨h1', ?_⟩
  obtain ⟨s', hr, hn, _, _⟩ := closing_balances b.st b.st [] hinv rfl
  have h3 := (ver_run_nested _ _ _ h2 hr).1
  rw [hn] at h3
  rw [nested_append _ _ _ _ h1']
  simpa using h3

/-- cross-nested pairs do not pass a Builder with `Version > 0`: `BT BMC ET EMC` stops at `ET` -/
example : ((Bld.runActs (fun _ _ => true) (Bld.new 0 false true)
    [.emit [66, 84] [], .emit [66, 77, 67] [.name [120]], .emit [69, 84] [], .emit [69, 77, 67] []]).err) = true := by
  decide +kernel

/-! ## non-vacuity -/

/-- `q`, `BT`, Harvest, `ET`, a refused method, … : a concrete program with a Harvest point;
the session `q BT | ET` is accepted, `Close` fails (q open), and the closers are `Q` -/
def sampleProg : List BAct := [.emit [113] [], .emit [66, 84] [], .harvest, .emit [69, 84] []]

def sampleBld : Bld := Bld.runActs (fun _ _ => true) (Bld.new 0 true true) sampleProg

example : (sampleBld.err == false && sampleBld.done.length == 2 && sampleBld.stream.length == 1 &&
    sampleBld.close == false && closingOperators sampleBld.st == [[81]]) = true := by decide +kernel

end PdfVerif.C15cntv

import PdfVerif.Model.CNTBuilder
import PdfVerif.Props.C15cntb
/-!
# C15 — streams produced by the Builder are accepted and balance

`Model/CNTBuilder.lean` models `Builder.emit`/`Harvest`/`Reset`/`Close` and the ways the typed
methods use them.  For **every** sequence of Builder actions (any operators and operands, any
version table, any number of `Harvest` points and `Reset`s, methods that refuse their arguments,
methods that update graphics parameters directly):

* `builder_accepts` — as long as `Err` is nil, everything emitted in the current session
  (`done ++ Stream`: the harvested segments followed by the current stream) is accepted operator
  by operator by `State.ApplyOperator` from the initial state (`Accepts`), and leads to the
  Builder's own `State`; the structural invariant `Inv` holds for it;
* `builder_run` — for programs without direct parameter updates this is literally
  `run (NewState) (done ++ Stream) = ok State`, so `closing_balances` applies to the whole stream;
* `builder_closing` — from the Builder's state the operators of `ClosingOperators` are accepted
  one after the other and leave no open pair (`CanClose` unless a Type 3 glyph still waits for
  `d0`/`d1`);
* `builder_close` — when `Close()` reports no error, nothing is open and `ClosingOperators` is
  empty: the stream is balanced as it stands.

`Builder.Close` itself appends nothing (it is `State.CanClose`); "the stream followed by
`ClosingOperators`" is what consumers such as `reader.ProcessIter` build, and what the harness
checks on the implementation.
-/
namespace PdfVerif.C15cntv
open PdfVerif PdfVerif.CNT PdfVerif.C15cntb

/-- `ops` is accepted from `s`, operator by operator, with updates of graphics parameters
(`AdjustOK`) allowed between the operators, and leads to `s'` -/
inductive Accepts : St → List (Bytes × List Obj) → St → Prop
  | nil (s : St) : Accepts s [] s
  | adj {s s1 s' : St} {ops : List (Bytes × List Obj)} (h : AdjustOK s s1) (h2 : Accepts s1 ops s') : Accepts s ops s'
  | step {s s1 s' : St} {n : Bytes} {a : List Obj} {ops : List (Bytes × List Obj)}
      (h : applyOperator s n a = .ok s1) (h2 : Accepts s1 ops s') : Accepts s ((n, a) :: ops) s'

theorem inv_adjust (s s1 : St) (h : Inv s) (ha : AdjustOK s s1) : Inv s1 := by
  obtain ⟨a1, a2, a3, a4⟩ := ha
  constructor
  · intro ho; rw [a2]; exact h.text_in (a1 ▸ ho)
  · intro ho; rw [a2]; exact h.text_out (a1 ▸ ho)
  · rw [a2, a3]; exact h.stack_len
  · intro hs ho; rw [a2]; exact h.strict_q (a4 ▸ hs) (a1 ▸ ho)
  · intro ho; rw [a2]; exact h.t3 (a1 ▸ ho)
  · rw [a2]; exact h.kinds
  · rw [a1]; exact h.objs

theorem accepts_inv {s s' : St} {ops : List (Bytes × List Obj)} (h : Accepts s ops s') : Inv s → Inv s' := by
  induction h with
  | nil s => exact id
  | adj ha _ ih => intro hi; exact ih (inv_adjust _ _ hi ha)
  | step hstep _ ih => intro hi; exact ih (step_inv _ _ _ _ hi hstep)

theorem accepts_snoc {s s1 s2 : St} {ops : List (Bytes × List Obj)} {n : Bytes} {a : List Obj}
    (h : Accepts s ops s1) (hstep : applyOperator s1 n a = .ok s2) : Accepts s (ops ++ [(n, a)]) s2 := by
  induction h with
  | nil s => exact .step hstep (.nil _)
  | adj ha _ ih => exact .adj ha (ih hstep)
  | step hs _ ih => exact .step hs (ih hstep)

theorem accepts_adj_end {s s1 s2 : St} {ops : List (Bytes × List Obj)}
    (h : Accepts s ops s1) (ha : AdjustOK s1 s2) : Accepts s ops s2 := by
  induction h with
  | nil s => exact .adj ha (.nil _)
  | adj ha' _ ih => exact .adj ha' (ih ha)
  | step hs _ ih => exact .step hs (ih ha)

theorem accepts_of_run (ops : List (Bytes × List Obj)) : ∀ (s s' : St), run s ops = .ok s' → Accepts s ops s' := by
  induction ops with
  | nil => intro s s' h; simp [run] at h; subst h; exact .nil _
  | cons op rest ih =>
    intro s s' h
    obtain ⟨n, a⟩ := op
    simp only [run] at h
    cases hstep : applyOperator s n a with
    | error e => simp [hstep] at h
    | ok s1 =>
      simp only [hstep] at h
      exact .step hstep (ih s1 s' h)

/-- all `adjust` actions of a program respect `AdjustOK` -/
def ActsOK (acts : List BAct) : Prop :=
  ∀ act ∈ acts, ∀ f, act = .adjust f → ∀ s, AdjustOK s (f s)

/-- the invariant of the Builder -/
def BInv (b : Bld) : Prop :=
  ∃ ct strict, Inv b.st ∧ (b.err = false → Accepts (initSt ct strict) (b.done ++ b.stream) b.st)

theorem binv_new (ct : Nat) (strict : Bool) : BInv (Bld.new ct strict) :=
  ⟨ct, strict, init_inv ct strict, fun _ => .nil _⟩

theorem binv_act (verOK : Bytes → Bool) (b : Bld) (act : BAct) (h : BInv b)
    (hact : ∀ f, act = .adjust f → ∀ s, AdjustOK s (f s)) : BInv (b.act verOK act) := by
  obtain ⟨ct, strict, hinv, hacc⟩ := h
  cases act with
  | emit n a =>
    simp only [Bld.act, Bld.emit]
    cases he : b.err with
    | true => simp only [if_true]; exact ⟨ct, strict, hinv, fun h => by rw [he] at h; simp at h⟩
    | false =>
      simp only [Bool.false_eq_true, if_false]
      cases hv : verOK n with
      | false => simp only [Bool.not_false, if_true]; exact ⟨ct, strict, hinv, fun h => by simp at h⟩
      | true =>
        simp only [Bool.not_true, Bool.false_eq_true, if_false]
        cases hstep : applyOperator b.st n a with
        | error e => simp only []; exact ⟨ct, strict, hinv, fun h => by simp at h⟩
        | ok st' =>
          simp only []
          refine ⟨ct, strict, step_inv _ _ _ _ hinv hstep, fun _ => ?_⟩
          rw [← List.append_assoc]
          exact accepts_snoc (hacc he) hstep
  | fail => exact ⟨ct, strict, hinv, fun h => by simp [Bld.act] at h⟩
  | adjust f =>
    simp only [Bld.act]
    cases he : b.err with
    | true => simp only [if_true]; exact ⟨ct, strict, hinv, fun h => by rw [he] at h; simp at h⟩
    | false =>
      simp only [Bool.false_eq_true, if_false]
      have ha := hact f rfl b.st
      exact ⟨ct, strict, inv_adjust _ _ hinv ha, fun _ => accepts_adj_end (hacc he) ha⟩
  | harvest =>
    simp only [Bld.act]
    cases he : b.err with
    | true => simp only [if_true]; exact ⟨ct, strict, hinv, fun h => by rw [he] at h; simp at h⟩
    | false =>
      simp only [Bool.false_eq_true, if_false]
      exact ⟨ct, strict, hinv, fun _ => by simpa using hacc he⟩
  | reset ct' strict' => exact binv_new ct' strict'

theorem binv_run (verOK : Bytes → Bool) (acts : List BAct) : ∀ (b : Bld), BInv b → ActsOK acts →
    BInv (b.runActs verOK acts) := by
  induction acts with
  | nil => intro b h _; exact h
  | cons act rest ih =>
    intro b h hok
    simp only [Bld.runActs]
    exact ih _ (binv_act verOK b act h (fun f hf s => hok act (by simp) f hf s))
      (fun a ha f hf s => hok a (by simp [ha]) f hf s)

/-- **Every stream an error-free Builder has emitted is accepted by the state machine.**  For
every content type, version, version table and action sequence: if `Err` is nil at the end, the
operators of the current session — the harvested segments in order, then the current stream — are
accepted one by one by `State.ApplyOperator`, starting from a fresh state and ending in the
Builder's state, which satisfies the structural invariant. -/
theorem builder_accepts (verOK : Bytes → Bool) (ct : Nat) (strict : Bool) (acts : List BAct) (hok : ActsOK acts) :
    let b := (Bld.new ct strict).runActs verOK acts
    Inv b.st ∧ (b.err = false → ∃ ct' strict', Accepts (initSt ct' strict') (b.done ++ b.stream) b.st) := by
  obtain ⟨ct', strict', h1, h2⟩ := binv_run verOK acts _ (binv_new ct strict) hok
  exact ⟨h1, fun he => ⟨ct', strict', h2 he⟩⟩

/-! ## programs without direct parameter updates: plain `run` -/

def NoAdjust (acts : List BAct) : Prop := ∀ act ∈ acts, ∀ f, act ≠ .adjust f

def PInv (b : Bld) : Prop :=
  ∃ ct strict, b.err = false → run (initSt ct strict) (b.done ++ b.stream) = .ok b.st

theorem run_snoc (ops : List (Bytes × List Obj)) (s s1 s2 : St) (n : Bytes) (a : List Obj)
    (h : run s ops = .ok s1) (hstep : applyOperator s1 n a = .ok s2) : run s (ops ++ [(n, a)]) = .ok s2 := by
  rw [run_append ops _ s s1 h]
  simp [run, hstep]

theorem pinv_act (verOK : Bytes → Bool) (b : Bld) (act : BAct) (h : PInv b) (hna : ∀ f, act ≠ .adjust f) :
    PInv (b.act verOK act) := by
  obtain ⟨ct, strict, hrun⟩ := h
  cases act with
  | emit n a =>
    simp only [Bld.act, Bld.emit]
    cases he : b.err with
    | true => simp only [if_true]; exact ⟨ct, strict, fun h => by rw [he] at h; simp at h⟩
    | false =>
      simp only [Bool.false_eq_true, if_false]
      cases hv : verOK n with
      | false => simp only [Bool.not_false, if_true]; exact ⟨ct, strict, fun h => by simp at h⟩
      | true =>
        simp only [Bool.not_true, Bool.false_eq_true, if_false]
        cases hstep : applyOperator b.st n a with
        | error e => simp only []; exact ⟨ct, strict, fun h => by simp at h⟩
        | ok st' =>
          simp only []
          refine ⟨ct, strict, fun _ => ?_⟩
          rw [← List.append_assoc]
          exact run_snoc _ _ _ _ _ _ (hrun he) hstep
  | fail => exact ⟨ct, strict, fun h => by simp [Bld.act] at h⟩
  | adjust f => exact absurd rfl (hna f)
  | harvest =>
    simp only [Bld.act]
    cases he : b.err with
    | true => simp only [if_true]; exact ⟨ct, strict, fun h => by rw [he] at h; simp at h⟩
    | false =>
      simp only [Bool.false_eq_true, if_false]
      exact ⟨ct, strict, fun _ => by simpa using hrun he⟩
  | reset ct' strict' => exact ⟨ct', strict', fun _ => rfl⟩

/-- **Builder programs without direct parameter updates**: the emitted session is literally
accepted by `run` from a fresh state. -/
theorem builder_run (verOK : Bytes → Bool) (acts : List BAct) : ∀ (b : Bld), PInv b → NoAdjust acts →
    PInv (b.runActs verOK acts) := by
  induction acts with
  | nil => intro b h _; exact h
  | cons act rest ih =>
    intro b h hna
    simp only [Bld.runActs]
    exact ih _ (pinv_act verOK b act h (fun f => hna act (by simp) f)) (fun a ha f => hna a (by simp [ha]) f)

theorem pinv_new (ct : Nat) (strict : Bool) : PInv (Bld.new ct strict) :=
  ⟨ct, strict, fun _ => rfl⟩

/-! ## closing -/

/-- **The Builder's stream closes.**  Whatever an error-free Builder has emitted, the operators
returned by `State.ClosingOperators` for its state are accepted one after the other, leave no
paired operator open, and `CanClose` then succeeds (unless a Type 3 glyph procedure has not yet
seen `d0`/`d1`). -/
theorem builder_closing (verOK : Bytes → Bool) (ct : Nat) (strict : Bool) (acts : List BAct) (hok : ActsOK acts) :
    let b := (Bld.new ct strict).runActs verOK acts
    ∃ s', run b.st ((closingOperators b.st).map fun c => (c, [])) = .ok s' ∧ s'.nesting = [] ∧
      closingOperators s' = [] ∧ (b.st.obj ≠ 16 → canClose s' = true) := by
  have hinv := (builder_accepts verOK ct strict acts hok).1
  intro b
  have := closing_balances b.st b.st [] hinv rfl
  simpa using this

/-- for programs without direct parameter updates `closing_balances` applies to the whole
session: the emitted operators followed by the closing operators are accepted from a fresh state
and balance -/
theorem builder_session_closes (verOK : Bytes → Bool) (ct : Nat) (strict : Bool) (acts : List BAct)
    (hna : NoAdjust acts) :
    let b := (Bld.new ct strict).runActs verOK acts
    b.err = false → ∃ ct' strict' s',
      run (initSt ct' strict') (b.done ++ b.stream ++ (closingOperators b.st).map fun c => (c, [])) = .ok s' ∧
      s'.nesting = [] ∧ closingOperators s' = [] := by
  intro b he
  obtain ⟨ct', strict', hrun⟩ := builder_run verOK acts _ (pinv_new ct strict) hna
  obtain ⟨s', h1, h2, h3, _⟩ := closing_balances _ _ _ (init_inv ct' strict') (hrun he)
  exact ⟨ct', strict', s', h1, h2, h3⟩

/-- **`Close() == nil` means balanced as it stands**: no paired operator is open, the state is
the page state, and `ClosingOperators` is empty. -/
theorem builder_close (b : Bld) (h : b.close = true) :
    b.err = false ∧ b.st.nesting = [] ∧ closingOperators b.st = [] := by
  simp only [Bld.close, Bool.and_eq_true, Bool.not_eq_true', canClose, List.isEmpty_iff, beq_iff_eq] at h
  obtain ⟨he, hn, ho⟩ := h
  refine ⟨he, hn, ?_⟩
  simp [closingOperators, hn, ho, Gen.content_ObjPage, Gen.content_ObjPath, Gen.content_ObjClippingPath]

/-! ## non-vacuity -/

/-- `q`, `BT`, Harvest, `ET`, a refused method, … : a concrete program with a Harvest point;
the session `q BT | ET` is accepted, `Close` fails (q open), and the closers are `Q` -/
def sampleProg : List BAct := [.emit [113] [], .emit [66, 84] [], .harvest, .emit [69, 84] []]

def sampleBld : Bld := Bld.runActs (fun _ => true) (Bld.new 0 true) sampleProg

example : (sampleBld.err == false && sampleBld.done.length == 2 && sampleBld.stream.length == 1 &&
    sampleBld.close == false && closingOperators sampleBld.st == [[81]]) = true := by decide +kernel

end PdfVerif.C15cntv

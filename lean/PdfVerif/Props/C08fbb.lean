import PdfVerif.Props.C06fb
/-!
C08 (work package FB), second module: output bound of the predictor reader on arbitrary bytes
(uses the length lemmas of `Props/C06fb.lean`).
-/
namespace PdfVerif.C08fbb
open PdfVerif PdfVerif.FB

theorem pngUnfilterRow_length (alg bpp : Nat) (prev enc : Bytes) : (pngUnfilterRow alg bpp prev enc).length = enc.length :=
  C08fb.pngUnfilterGo_length alg bpp enc [] [] prev

/-- **predict_out ≤ |in|**: on arbitrary bytes the predictor reader never produces more bytes
than it consumes (for every geometry, valid or not) -/
theorem decRows_out_le (g : Geo) : ∀ (fuel : Nat) (prev data : Bytes), (decRows g fuel prev data).1.length ≤ data.length := by
  intro fuel
  induction fuel with
  | zero => intro prev data; simp [decRows]
  | succ f ih =>
    intro prev data
    unfold decRows
    simp only []
    generalize hneed : (if g.predictor = 2 then g.rowBytes else g.rowBytes + 1) = need
    by_cases he : data.isEmpty = true
    · rw [if_pos he]; exact Nat.zero_le _
    · rw [if_neg he]
      by_cases hl : data.length < need
      · rw [if_pos hl]; exact Nat.zero_le _
      · rw [if_neg hl]
        simp only [List.length_append]
        have hn : need ≤ data.length := by omega
        have htk : (data.take need).length = need := by simp [List.length_take]; omega
        have hdl : (data.drop need).length = data.length - need := by simp
        by_cases h2 : g.predictor = 2
        · simp only [h2, if_true]
          have := ih (tiffRow true g.bpc g.colors g.columns (List.replicate g.colors 0) (List.take need data)) (data.drop need)
          rw [C06fb.tiffRow_length, htk]
          omega
        · simp only [h2, if_false]
          cases hE : List.take need data with
          | nil =>
            have := ih [] (data.drop need)
            simp only [List.length_nil, Nat.zero_add]
            omega
          | cons tag body =>
            simp only []
            have hb : body.length + 1 = need := by rw [← htk, hE]; simp
            have := ih (pngUnfilterRow tag g.bpp prev body) (data.drop need)
            rw [pngUnfilterRow_length]
            omega

theorem decodeStream_out_le (g : Geo) (data : Bytes) : (decodeStream g data).1.length ≤ data.length := by
  unfold decodeStream; split
  · simp
  · exact decRows_out_le g _ _ _


example : (decodeStream (⟨3, 8, 2, 12⟩ : PParams).geo [9, 1, 2, 3, 4, 5, 6, 77, 1]).1.length = 6 := by decide

end PdfVerif.C08fbb

import PdfVerif.Props.C17trs
import PdfVerif.Lemmas.TRSDepth
/-!
# C17 (second part) — the writer always returns: depth invariant of `tail`, termination of
`collapse`

`C17trs` proves what a written tree looks like under the hypothesis "the writer returned".
Here: the `tail` of the `treeWriter` has weakly decreasing depths with fewer than `maxChildren`
nodes per depth between entries (`TailInv`), `mergeTail` and `collapse` never leave the slice
bounds and terminate within the loop bounds the model gives them, hence `Write` returns a tree
for every strictly ascending key sequence (`write_total`).
-/
namespace PdfVerif.C17trsb
open PdfVerif PdfVerif.TRSN PdfVerif.TRSDepth PdfVerif.C17trs
set_option linter.unusedSectionVars false

section
variable {K V : Type} [KeyOrd K]

abbrev M : Nat := Gen.pdftree_maxChildren

theorem M_ge_two : 2 ≤ M := by decide

/-- the depth sequence of the writer's `tail` -/
def dsI (t : List (Info K V)) : List Nat := t.map (·.depth)

theorem dsI_length (t : List (Info K V)) : (dsI t).length = t.length := by simp [dsI]

theorem dsI_get (t : List (Info K V)) {i : Nat} (h : i < t.length) : (dsI t)[i]? = some t[i].depth := by
  simp [dsI, h]

/-- `mergeNodes` on a non-empty range inside the tail never panics; the new node is one level
    above the first node of the range -/
theorem mergeNodes_depths (tail : List (Info K V)) {start stop : Nat} (h1 : start < stop)
    (h2 : stop ≤ tail.length) :
    ∃ t' x, mergeNodes tail start stop = .ok t' ∧ (dsI tail)[start]? = some x ∧
      dsI t' = mergeAt (dsI tail) start (stop - start) x := by
  unfold mergeNodes
  have c1 : ¬ start ≥ stop := by omega
  have c2 : ¬ stop > tail.length := by omega
  simp only [c1, c2, if_false]
  have hs : start < tail.length := by omega
  have hsplit : (tail.drop start).take (stop - start) = tail[start] :: ((tail.drop (start + 1)).take (stop - start - 1)) := by
    rw [List.drop_eq_getElem_cons hs]
    have : stop - start = (stop - start - 1) + 1 := by omega
    rw [this, List.take_succ_cons]
    simp
  rw [hsplit]
  cases hgl : (tail[start] :: ((tail.drop (start + 1)).take (stop - start - 1))).getLast? with
  | none => simp at hgl
  | some cl =>
    simp only
    refine ⟨_, tail[start].depth, rfl, dsI_get tail hs, ?_⟩
    simp only [dsI, mergeAt, List.map_append, List.map_cons, List.map_take, List.map_drop, mkMerged]
    rw [show start + (stop - start) = stop by omega]

theorem mergeAt_suffix (l : List Nat) (s v : Nat) (hs : s ≤ l.length) :
    mergeAt l s (l.length - s) v = l.take s ++ [v + 1] := by
  unfold mergeAt
  rw [show s + (l.length - s) = l.length by omega]
  simp

/-- loop invariant: depths weakly decrease; `maxChildren` equal depths in a row occur at most at
    the very end -/
def Inv1 (t : List (Info K V)) : Prop := Desc (dsI t) ∧ WinIn M (dsI t)

/-- invariant of `tail` between entries: depths weakly decrease, fewer than `maxChildren` nodes
    of each depth -/
def TailInv (t : List (Info K V)) : Prop := Desc (dsI t) ∧ WinAll M (dsI t)

theorem TailInv.inv1 {t : List (Info K V)} (h : TailInv t) : Inv1 t := ⟨h.1, h.2.winIn⟩

theorem tailInv_nil : TailInv ([] : List (Info K V)) := by
  refine ⟨by simpa [dsI] using desc_nil, ?_⟩
  intro i x y hi hx; simp [dsI] at hx

/-- **mergeTail never leaves the slice bounds, terminates, and restores the invariant** -/
theorem mergeTail_inv : ∀ (fuel : Nat) (t : List (Info K V)), Inv1 t → fuel ≥ t.length + 1 →
    ∃ t', mergeTail fuel t = .ok t' ∧ TailInv t'
  | 0, t, _, hf => by omega
  | fuel + 1, t, hinv, hf => by
    have hD := M_ge_two
    obtain ⟨hd, hw⟩ := hinv
    unfold mergeTail
    dsimp only
    by_cases hn : t.length < M
    · simp only [hn, if_true]
      refine ⟨t, rfl, hd, ?_⟩
      intro i x y hi; rw [dsI_length] at hi; omega
    · simp only [hn, if_false]
      have h1 : t.length - 1 < t.length := by omega
      have h2 : t.length - M < t.length := by omega
      rw [List.getElem?_eq_getElem h1, List.getElem?_eq_getElem h2]
      simp only
      by_cases heq : t[t.length - 1].depth = t[t.length - M].depth
      · have : (t[t.length - 1].depth != t[t.length - M].depth) = false := by simp [heq]
        simp only [this, Bool.false_eq_true, if_false]
        obtain ⟨t1, x, hm, hx, hds⟩ := mergeNodes_depths t (start := t.length - M) (stop := t.length)
          (by omega) (Nat.le_refl _)
        rw [hm]
        simp only
        rw [dsI_get t h2] at hx
        cases hx
        have hds' : dsI t1 = (dsI t).take (t.length - M) ++ [t[t.length - M].depth + 1] := by
          rw [hds]
          have := mergeAt_suffix (dsI t) (t.length - M) t[t.length - M].depth (by rw [dsI_length]; omega)
          rw [dsI_length] at this
          exact this
        have hlen1 : t1.length = t.length - M + 1 := by
          have := congrArg List.length hds'
          simp [dsI_length] at this; omega
        apply mergeTail_inv fuel t1 ?_ (by omega)
        unfold Inv1
        rw [hds']
        refine ⟨desc_take_snoc hd _ _ (by rw [dsI_length]; omega) ?_,
          winIn_take_snoc (by omega) hw _ _ (by rw [dsI_length]; omega)⟩
        intro y h1' hy
        rw [dsI_get t (show t.length - M - 1 < t.length by omega)] at hy
        cases hy
        have hwin := hw (t.length - M - 1) _ _ (by rw [dsI_length]; omega)
          (dsI_get t (show t.length - M - 1 < t.length by omega))
          (by rw [show t.length - M - 1 + M - 1 = t.length - 2 by omega]
              exact dsI_get t (show t.length - 2 < t.length by omega))
        have hle := hd (t.length - 2) (t.length - 1) _ _ (by omega)
          (dsI_get t (show t.length - 2 < t.length by omega)) (dsI_get t h1)
        omega
      · have : (t[t.length - 1].depth != t[t.length - M].depth) = true := by simp [heq]
        simp only [this, if_true]
        refine ⟨t, rfl, hd, ?_⟩
        intro i x y hi hx hy
        rw [dsI_length] at hi
        by_cases hend : i + M = t.length
        · have hi' : i = t.length - M := by omega
          subst hi'
          rw [dsI_get t h2] at hx
          rw [show t.length - M + M - 1 = t.length - 1 by omega, dsI_get t h1] at hy
          cases hx; cases hy
          have := hd (t.length - M) (t.length - 1) _ _ (by omega) (dsI_get t h2) (dsI_get t h1)
          omega
        · exact hw i x y (by rw [dsI_length]; omega) hx hy

theorem inv1_snoc_leaf {t : List (Info K V)} (h : TailInv t) (n : Info K V) (hn : n.depth = 0) :
    Inv1 (t ++ [n]) := by
  obtain ⟨hd, hw⟩ := h
  have hD := M_ge_two
  unfold Inv1
  have e : dsI (t ++ [n]) = dsI t ++ [0] := by simp [dsI, hn]
  rw [e]
  refine ⟨Desc.snoc hd 0 (fun _ _ => Nat.zero_le _), ?_⟩
  intro i x y hi hx hy
  simp only [List.length_append, List.length_cons, List.length_nil] at hi
  rw [getElem?_snoc_lt (by omega)] at hx hy
  exact hw i x y (by omega) hx hy

theorem completePendingLeaf_tailInv {w w' : TW K V} (h : completePendingLeaf w = .ok w')
    (hinv : TailInv w.tail) : TailInv w'.tail := by
  unfold completePendingLeaf at h
  split at h
  · rename_i e0 rest el hp hgl
    obtain ⟨t', hm, hinv'⟩ := mergeTail_inv (w.tail.length + 2) (w.tail ++ [leafInfo w.pending e0 el])
      (inv1_snoc_leaf hinv _ rfl) (by simp)
    rw [hm] at h
    cases h
    exact hinv'
  · cases h; exact hinv

theorem addEntry_tailInv {w w' : TW K V} {k : K} {v : V} (h : addEntry w k v = .ok w')
    (hinv : TailInv w.tail) : TailInv w'.tail := by
  unfold addEntry at h
  split at h
  · cases h
  · dsimp only at h
    split at h
    · exact completePendingLeaf_tailInv h hinv
    · cases h; exact hinv

theorem addAll_tailInv : ∀ (es : List (K × V)) (w w' : TW K V), addAll w es = .ok w' →
    TailInv w.tail → TailInv w'.tail
  | [], w, w', h, hinv => by simp only [addAll] at h; cases h; exact hinv
  | (k, v) :: rest, w, w', h, hinv => by
    simp only [addAll] at h
    split at h
    · cases h
    · rename_i w1 h1
      exact addAll_tailInv rest w1 w' h (addEntry_tailInv h1 hinv)

/-- `trailingRunStart`: walk back over the nodes of depth `d` -/
theorem trailingRunStart_spec (a : List (Info K V)) (d : Nat) : ∀ (start : Nat), start ≤ a.length →
    trailingRunStart a d start ≤ start ∧
    (∀ m, trailingRunStart a d start ≤ m → m < start → (dsI a)[m]? = some d) ∧
    (trailingRunStart a d start = 0 ∨ (dsI a)[trailingRunStart a d start - 1]? ≠ some d)
  | 0, _ => by simp [trailingRunStart]
  | start + 1, hs => by
    unfold trailingRunStart
    have h1 : start < a.length := by omega
    rw [List.getElem?_eq_getElem h1]
    simp only
    by_cases heq : a[start].depth = d
    · simp only [heq, beq_self_eq_true, if_true]
      obtain ⟨i1, i2, i3⟩ := trailingRunStart_spec a d start (by omega)
      refine ⟨by omega, ?_, i3⟩
      intro m hm1 hm2
      by_cases hms : m = start
      · subst hms; rw [dsI_get a h1, heq]
      · exact i2 m hm1 (by omega)
    · have : (a[start].depth == d) = false := by simpa using heq
      simp only [this, Bool.false_eq_true, if_false]
      refine ⟨Nat.le_refl _, fun m h1' h2' => by omega, .inr ?_⟩
      simp only [Nat.add_sub_cancel]
      rw [dsI_get a h1]
      simpa using heq

/-- **collapse terminates within its loop bound and never leaves the slice bounds**: every
    step replaces the trailing run of equal depth by one node of the next depth, so the depth
    of the last node grows by one per step and cannot pass the depth of the first node -/
theorem collapse_total : ∀ (fuel : Nat) (t : List (Info K V)), Inv1 t →
    (2 ≤ t.length → ∀ d0 dl, (dsI t)[0]? = some d0 → (dsI t)[t.length - 1]? = some dl →
      fuel + dl ≥ d0 + 2) →
    fuel ≥ 1 →
    ∃ t', collapse fuel t = .ok t'
  | 0, _, _, _, h1 => by omega
  | fuel + 1, t, hinv, hf, _ => by
    have hD := M_ge_two
    obtain ⟨hd, hw⟩ := hinv
    unfold collapse
    by_cases hl : t.length ≤ 1
    · simp only [hl, if_true]; exact ⟨t, rfl⟩
    · simp only [hl, if_false]
      have hlast : t.length - 1 < t.length := by omega
      rw [List.getElem?_eq_getElem hlast]
      dsimp only
      have hS := trailingRunStart_spec t t[t.length - 1].depth (t.length - 1) (by omega)
      generalize hs0 : trailingRunStart t t[t.length - 1].depth (t.length - 1) = s0 at hS
      obtain ⟨hS1, hS2, hS3⟩ := hS
      -- the run [s0, len) has depth d and at most maxChildren nodes
      have hrun : ∀ m, s0 ≤ m → m < t.length → (dsI t)[m]? = some t[t.length - 1].depth := by
        intro m h1 h2
        by_cases hm : m = t.length - 1
        · subst hm; exact dsI_get t hlast
        · exact hS2 m h1 (by omega)
      have hcap : ¬ t.length - s0 > M := by
        intro hcon
        have := hw (t.length - M - 1) _ _ (by rw [dsI_length]; omega)
          (hrun (t.length - M - 1) (by omega) (by omega))
          (by rw [show t.length - M - 1 + M - 1 = t.length - 2 by omega]
              exact hrun (t.length - 2) (by omega) (by omega))
        omega
      simp only [hcap, if_false]
      obtain ⟨t1, x, hm, hx, hds⟩ := mergeNodes_depths t (start := s0) (stop := t.length) (by omega)
        (Nat.le_refl _)
      rw [hm]
      simp only
      rw [hrun s0 (Nat.le_refl _) (by omega)] at hx
      cases hx
      have hds' : dsI t1 = (dsI t).take s0 ++ [t[t.length - 1].depth + 1] := by
        rw [hds]
        have := mergeAt_suffix (dsI t) s0 t[t.length - 1].depth (by rw [dsI_length]; omega)
        rw [dsI_length] at this
        exact this
      have hlen1 : t1.length = s0 + 1 := by
        have := congrArg List.length hds'
        simp [dsI_length] at this; omega
      have hprev : ∀ y, 1 ≤ s0 → (dsI t)[s0 - 1]? = some y → t[t.length - 1].depth + 1 ≤ y := by
        intro y h1 hy
        rcases hS3 with h0 | hne
        · omega
        · have := hd (s0 - 1) s0 y _ (by omega) hy (hrun s0 (Nat.le_refl _) (by omega))
          have : y ≠ t[t.length - 1].depth := by intro h; apply hne; rw [hy, h]
          omega
      apply collapse_total fuel t1
      · unfold Inv1
        rw [hds']
        exact ⟨desc_take_snoc hd _ _ (by rw [dsI_length]; omega) hprev,
          winIn_take_snoc (by omega) hw _ _ (by rw [dsI_length]; omega)⟩
      · intro hlen2 d0 dl h0 hl'
        rw [hlen1, hds'] at hl'
        rw [hds'] at h0
        simp only [Nat.add_sub_cancel] at hl'
        rw [List.getElem?_append_right (by simp; omega)] at hl'
        simp only [List.length_take, dsI_length, Nat.min_eq_left (show s0 ≤ t.length by omega),
          Nat.sub_self, List.getElem?_cons_zero, Option.some.injEq] at hl'
        subst hl'
        by_cases hs00 : s0 = 0
        · omega
        · rw [List.getElem?_append_left (by simp [dsI_length]; omega), List.getElem?_take] at h0
          simp only [show 0 < s0 by omega, if_true] at h0
          have := hf (by omega) d0 _ h0 (dsI_get t hlast)
          omega
      · -- fuel left: by the same estimate
        have h0lt : 0 < t.length := by omega
        have := hf (by omega) _ _ (dsI_get t h0lt) (dsI_get t hlast)
        have hle := hd 0 (t.length - 1) _ _ (by omega) (dsI_get t h0lt) (dsI_get t hlast)
        omega


theorem foldl_max_ge (t : List (Info K V)) : ∀ (init : Nat),
    init ≤ t.foldl (fun m i => max m i.depth) init ∧
    ∀ i ∈ t, i.depth ≤ t.foldl (fun m i => max m i.depth) init := by
  induction t with
  | nil => intro init; simp
  | cons x xs ih =>
    intro init
    simp only [List.foldl_cons]
    obtain ⟨h1, h2⟩ := ih (max init x.depth)
    refine ⟨by omega, ?_⟩
    intro i hi
    simp only [List.mem_cons] at hi
    rcases hi with rfl | hi
    · omega
    · exact h2 i hi

theorem collapseFuel_enough (t : List (Info K V)) (d0 dl : Nat) (h0 : (dsI t)[0]? = some d0) :
    collapseFuel t + dl ≥ d0 + 2 := by
  unfold collapseFuel
  cases t with
  | nil => simp [dsI] at h0
  | cons x xs =>
    simp [dsI] at h0
    subst h0
    have := (foldl_max_ge (x :: xs) 0).2 x (by simp)
    have hmul : List.foldl (fun m i => max m i.depth) 0 (x :: xs) ≤
        List.foldl (fun m i => max m i.depth) 0 (x :: xs) * ((x :: xs).length + 1) :=
      Nat.le_mul_of_pos_right _ (by omega)
    omega

end

section
variable {K V : Type} [KeyOrd K] [LawfulKeyOrd K] [DecidableEq K]

/-- the last part of `finish` always produces a root -/
theorem finishTail_total (t : List (Info K V)) (hok : ∀ i ∈ t, InfoOK i) (hinv : TailInv t) :
    ∃ r, finishTail t = .ok r := by
  unfold finishTail
  split
  · exact ⟨_, rfl⟩
  · split
    · exact ⟨_, rfl⟩
    · split <;> exact ⟨_, rfl⟩
  · rename_i hne1 hne2
    obtain ⟨t', hc⟩ := collapse_total (collapseFuel t) t hinv.inv1
      (fun _ d0 dl h0 _ => collapseFuel_enough t d0 dl h0) (by unfold collapseFuel; omega)
    rw [hc]
    obtain ⟨_, _, hlen, hne, _⟩ := collapse_spec _ t hok t' hc
    have htne : t ≠ [] := by intro h; exact hne1 h
    have := hne htne
    cases t' with
    | nil => exact absurd rfl this
    | cons root rest =>
      cases rest with
      | nil =>
        simp only
        split <;> exact ⟨_, rfl⟩
      | cons a b => simp at hlen

/-- **`Write` succeeds on every strictly ascending sequence** (with `unsorted_rejected`:
    exactly on those): no step leaves a slice bound and every loop ends within the bound the
    model gives it -/
theorem write_total (es : List (K × V)) (hasc : Asc es) : ∃ r, write es = .ok r := by
  unfold write
  obtain ⟨w, e, hinv⟩ := addAll_ok es TW.init [] inv_init (by simpa using hasc)
  rw [e]
  simp only
  have htail : TailInv w.tail := addAll_tailInv es TW.init w e (by simpa [TW.init] using (tailInv_nil (K := K) (V := V)))
  unfold finish
  by_cases hp : w.pending.length > 0
  · simp only [hp, if_true]
    by_cases ht : (w.tail.length == 0) = true
    · simp only [ht, if_true]; exact ⟨_, rfl⟩
    · simp only [ht, Bool.false_eq_true, if_false]
      obtain ⟨w', e', hok', _, _, _⟩ := completePendingLeaf_spec w (by simpa using hinv.tailOK)
        (by intro h0; simp [h0] at hp) (by have := hinv.pend; omega)
      rw [e']
      simp only
      exact finishTail_total w'.tail hok' (completePendingLeaf_tailInv e' htail)
  · simp only [hp, if_false]
    exact finishTail_total w.tail (by simpa using hinv.tailOK) htail

/-- the theorems of `C17trs` without the hypothesis "the writer returned" -/
theorem lookup_write (maxDepth : Nat) (es : List (K × V)) (hasc : Asc es) :
    ∃ r, write es = .ok r ∧
      (rootHeight r ≤ maxDepth →
        (∀ k v, (k, v) ∈ es → lookup maxDepth r k = .found v) ∧
        (∀ k, (∀ e ∈ es, e.1 ≠ k) → lookup maxDepth r k = .notFound) ∧
        all maxDepth r = es) := by
  obtain ⟨r, hw⟩ := write_total es hasc
  refine ⟨r, hw, fun hh => ⟨?_, ?_, ?_⟩⟩
  · intro k v hm; exact lookup_write_present maxDepth es hasc r hw hh k v hm
  · intro k ha; exact lookup_write_absent maxDepth es hasc r hw hh k ha
  · exact all_sorted_complete maxDepth es hasc r hw hh

end

section
variable {K V : Type} [KeyOrd K]

/-! ## the height of the written tree -/

/-- `mergeNodes` on a non-empty range inside the tail: the result, explicitly -/
theorem mergeNodes_shape (tail : List (Info K V)) {start stop : Nat} (h1 : start < stop)
    (h2 : stop ≤ tail.length) :
    ∃ c0 cl, tail[start]? = some c0 ∧
      mergeNodes tail start stop = .ok (tail.take start ++
        mkMerged ((tail.drop start).take (stop - start)) c0 cl :: tail.drop stop) := by
  unfold mergeNodes
  have c1 : ¬ start ≥ stop := by omega
  have c2 : ¬ stop > tail.length := by omega
  simp only [c1, c2, if_false]
  have hs : start < tail.length := by omega
  have hsplit : (tail.drop start).take (stop - start) = tail[start] :: ((tail.drop (start + 1)).take (stop - start - 1)) := by
    rw [List.drop_eq_getElem_cons hs]
    have : stop - start = (stop - start - 1) + 1 := by omega
    rw [this, List.take_succ_cons]
    simp
  cases hgl : ((tail.drop start).take (stop - start)).getLast? with
  | none => rw [hsplit] at hgl; simp at hgl
  | some cl =>
    refine ⟨tail[start], cl, List.getElem?_eq_getElem hs, ?_⟩
    rw [hsplit] at hgl ⊢

/-- height and depth agree (for the nodes of `tail`) -/
def HI (i : Info K V) : Prop := height i.node = i.depth + 1

/-- a node of depth `d` holds at least `maxChildren ^ d` entries -/
def GI (i : Info K V) : Prop := M ^ i.depth ≤ (entries i.node).length

theorem heightList_const (h : Nat) : ∀ (ks : List (NTree K V)), ks ≠ [] → (∀ k ∈ ks, height k = h) →
    heightList ks = h
  | [], hne, _ => absurd rfl hne
  | [k], _, hall => by simp [heightList, hall k (by simp)]
  | k :: k' :: ks, _, hall => by
    have ih := heightList_const h (k' :: ks) (by simp) (fun x hx => hall x (by simp [hx]))
    simp only [heightList] at ih ⊢
    rw [ih, hall k (by simp)]
    omega

theorem merged_HI (children : List (Info K V)) (c0 cl : Info K V) (hne : children ≠ [])
    (hall : ∀ c ∈ children, HI c ∧ c.depth = c0.depth) : HI (mkMerged children c0 cl) := by
  unfold HI mkMerged
  simp only [height]
  rw [heightList_const (c0.depth + 1) (children.map (·.node)) (by simpa using hne)]
  · omega
  · intro k hk
    simp only [List.mem_map] at hk
    obtain ⟨c, hc, rfl⟩ := hk
    have := hall c hc
    rw [this.1, this.2]

theorem entriesList_length_ge (n : Nat) : ∀ (cs : List (Info K V)),
    (∀ c ∈ cs, n ≤ (entries c.node).length) → cs.length * n ≤ (entriesList (cs.map (·.node))).length
  | [], _ => by simp [entriesList]
  | c :: cs, h => by
    simp only [List.map_cons, entriesList, List.length_append, List.length_cons]
    have h1 := h c (by simp)
    have h2 := entriesList_length_ge n cs (fun x hx => h x (by simp [hx]))
    rw [Nat.add_mul]
    omega

theorem merged_GI (children : List (Info K V)) (c0 cl : Info K V) (hlen : children.length = M)
    (hall : ∀ c ∈ children, GI c ∧ c.depth = c0.depth) : GI (mkMerged children c0 cl) := by
  unfold GI mkMerged
  simp only [entries]
  have := entriesList_length_ge (M ^ c0.depth) children (fun c hc => by
    have := hall c hc
    unfold GI at this
    rw [this.2] at this
    exact this.1)
  rw [hlen] at this
  rw [Nat.pow_succ, Nat.mul_comm]
  exact this

def HG (i : Info K V) : Prop := HI i ∧ GI i

theorem mem_range {t : List (Info K V)} {start n : Nat} {c : Info K V}
    (hc : c ∈ (t.drop start).take n) : ∃ j, start ≤ j ∧ j < start + n ∧ t[j]? = some c := by
  obtain ⟨i, hi⟩ := List.mem_iff_getElem?.mp hc
  rw [List.getElem?_take] at hi
  split at hi
  · rw [List.getElem?_drop] at hi
    exact ⟨start + i, by omega, by omega, hi⟩
  · cases hi

/-- `mergeTail` keeps "height = depth + 1" and "at least maxChildren^depth entries" -/
theorem mergeTail_HG : ∀ (fuel : Nat) (t : List (Info K V)), Inv1 t → (∀ i ∈ t, HG i) → fuel ≥ t.length + 1 →
    ∃ t', mergeTail fuel t = .ok t' ∧ TailInv t' ∧ ∀ i ∈ t', HG i
  | 0, t, _, _, hf => by omega
  | fuel + 1, t, hinv, hhg, hf => by
    have hD := M_ge_two
    obtain ⟨hd, hw⟩ := hinv
    unfold mergeTail
    dsimp only
    by_cases hn : t.length < M
    · simp only [hn, if_true]
      refine ⟨t, rfl, ⟨hd, ?_⟩, hhg⟩
      intro i x y hi; rw [dsI_length] at hi; omega
    · simp only [hn, if_false]
      have h1 : t.length - 1 < t.length := by omega
      have h2 : t.length - M < t.length := by omega
      rw [List.getElem?_eq_getElem h1, List.getElem?_eq_getElem h2]
      simp only
      by_cases heq : t[t.length - 1].depth = t[t.length - M].depth
      · have : (t[t.length - 1].depth != t[t.length - M].depth) = false := by simp [heq]
        simp only [this, Bool.false_eq_true, if_false]
        obtain ⟨c0, cl, hc0, hm⟩ := mergeNodes_shape t (start := t.length - M) (stop := t.length)
          (by omega) (Nat.le_refl _)
        obtain ⟨t1', x, hm', hx, hds⟩ := mergeNodes_depths t (start := t.length - M) (stop := t.length)
          (by omega) (Nat.le_refl _)
        rw [hm] at hm'
        cases hm'
        rw [hm]
        simp only
        rw [List.getElem?_eq_getElem h2] at hc0
        cases hc0
        rw [dsI_get t h2] at hx
        cases hx
        generalize hch : (t.drop (t.length - M)).take (t.length - (t.length - M)) = children at hm hds ⊢
        -- all merged nodes have the depth of the first
        have hchall : ∀ c ∈ children, HG c ∧ c.depth = t[t.length - M].depth := by
          intro c hc
          rw [← hch] at hc
          obtain ⟨j, hj1, hj2, hj3⟩ := mem_range hc
          have hjl : j < t.length := by omega
          rw [List.getElem?_eq_getElem hjl] at hj3
          cases hj3
          refine ⟨hhg _ (List.getElem_mem hjl), ?_⟩
          have a1 := hd (t.length - M) j _ _ hj1 (dsI_get t h2) (dsI_get t hjl)
          have a2 := hd j (t.length - 1) _ _ (by omega) (dsI_get t hjl) (dsI_get t h1)
          omega
        have hchlen : children.length = M := by
          rw [← hch, List.length_take, List.length_drop]; omega
        have hds' : dsI (t.take (t.length - M) ++ mkMerged children t[t.length - M] cl :: t.drop t.length)
            = (dsI t).take (t.length - M) ++ [t[t.length - M].depth + 1] := by
          rw [hds]
          have := mergeAt_suffix (dsI t) (t.length - M) t[t.length - M].depth (by rw [dsI_length]; omega)
          rw [dsI_length] at this
          exact this
        have hlen1 : (t.take (t.length - M) ++ mkMerged children t[t.length - M] cl :: t.drop t.length).length
            = t.length - M + 1 := by
          have := congrArg List.length hds'
          simp [dsI_length] at this ⊢
          try omega
        apply mergeTail_HG fuel _ ?_ ?_ (by omega)
        · unfold Inv1
          rw [hds']
          refine ⟨desc_take_snoc hd _ _ (by rw [dsI_length]; omega) ?_,
            winIn_take_snoc (by omega) hw _ _ (by rw [dsI_length]; omega)⟩
          intro y h1' hy
          rw [dsI_get t (show t.length - M - 1 < t.length by omega)] at hy
          cases hy
          have hwin := hw (t.length - M - 1) _ _ (by rw [dsI_length]; omega)
            (dsI_get t (show t.length - M - 1 < t.length by omega))
            (by rw [show t.length - M - 1 + M - 1 = t.length - 2 by omega]
                exact dsI_get t (show t.length - 2 < t.length by omega))
          have hle := hd (t.length - 2) (t.length - 1) _ _ (by omega)
            (dsI_get t (show t.length - 2 < t.length by omega)) (dsI_get t h1)
          omega
        · intro i hi
          simp only [List.mem_append, List.mem_cons] at hi
          rcases hi with hi | rfl | hi
          · exact hhg i (List.mem_of_mem_take hi)
          · exact ⟨merged_HI children _ cl (by intro h0; rw [h0] at hchlen; simp at hchlen; omega)
              (fun c hc => ⟨(hchall c hc).1.1, (hchall c hc).2⟩),
              merged_GI children _ cl hchlen (fun c hc => ⟨(hchall c hc).1.2, (hchall c hc).2⟩)⟩
          · simp at hi
      · have : (t[t.length - 1].depth != t[t.length - M].depth) = true := by simp [heq]
        simp only [this, if_true]
        refine ⟨t, rfl, ⟨hd, ?_⟩, hhg⟩
        intro i x y hi hx hy
        rw [dsI_length] at hi
        by_cases hend : i + M = t.length
        · have hi' : i = t.length - M := by omega
          subst hi'
          rw [dsI_get t h2] at hx
          rw [show t.length - M + M - 1 = t.length - 1 by omega, dsI_get t h1] at hy
          cases hx; cases hy
          have := hd (t.length - M) (t.length - 1) _ _ (by omega) (dsI_get t h2) (dsI_get t h1)
          omega
        · exact hw i x y (by rw [dsI_length]; omega) hx hy

theorem leafInfo_HG (pending : List (K × V)) (e0 el : K × V) (hne : pending ≠ []) :
    HG (leafInfo pending e0 el) := by
  refine ⟨by simp [HI, leafInfo, height], ?_⟩
  simp only [GI, leafInfo, entries, Nat.pow_zero]
  cases pending with
  | nil => exact absurd rfl hne
  | cons a b => simp

theorem completePendingLeaf_HG {w w' : TW K V} (h : completePendingLeaf w = .ok w')
    (hinv : TailInv w.tail) (hhg : ∀ i ∈ w.tail, HG i) : TailInv w'.tail ∧ ∀ i ∈ w'.tail, HG i := by
  unfold completePendingLeaf at h
  split at h
  · rename_i e0 rest el hp hgl
    obtain ⟨t', hm, hinv', hhg'⟩ := mergeTail_HG (w.tail.length + 2) (w.tail ++ [leafInfo w.pending e0 el])
      (inv1_snoc_leaf hinv _ rfl)
      (by
        intro i hi
        simp only [List.mem_append, List.mem_singleton] at hi
        rcases hi with hi | rfl
        · exact hhg i hi
        · exact leafInfo_HG _ _ _ (by rw [hp]; simp))
      (by simp)
    rw [hm] at h
    cases h
    exact ⟨hinv', hhg'⟩
  · cases h; exact ⟨hinv, hhg⟩

theorem addEntry_HG {w w' : TW K V} {k : K} {v : V} (h : addEntry w k v = .ok w')
    (hinv : TailInv w.tail) (hhg : ∀ i ∈ w.tail, HG i) : TailInv w'.tail ∧ ∀ i ∈ w'.tail, HG i := by
  unfold addEntry at h
  split at h
  · cases h
  · dsimp only at h
    split at h
    · exact completePendingLeaf_HG h hinv hhg
    · cases h; exact ⟨hinv, hhg⟩

theorem addAll_HG : ∀ (es : List (K × V)) (w w' : TW K V), addAll w es = .ok w' →
    TailInv w.tail → (∀ i ∈ w.tail, HG i) → TailInv w'.tail ∧ ∀ i ∈ w'.tail, HG i
  | [], w, w', h, hinv, hhg => by simp only [addAll] at h; cases h; exact ⟨hinv, hhg⟩
  | (k, v) :: rest, w, w', h, hinv, hhg => by
    simp only [addAll] at h
    split at h
    · cases h
    · rename_i w1 h1
      obtain ⟨a, b⟩ := addEntry_HG h1 hinv hhg
      exact addAll_HG rest w1 w' h a b

/-- `collapse` keeps "height = depth + 1"; the node that is left is at most one level above the
    first node of the tail -/
theorem collapse_HI : ∀ (fuel : Nat) (t t' : List (Info K V)), Inv1 t → (∀ i ∈ t, HI i) →
    collapse fuel t = .ok t' →
    (∀ i ∈ t', HI i) ∧ ∀ d0 r, (dsI t)[0]? = some d0 → t' = [r] → r.depth ≤ d0 + 1
  | 0, _, _, _, _, h => by simp [collapse] at h
  | fuel + 1, t, t', hinv, hhi, h => by
    have hD := M_ge_two
    obtain ⟨hd, hw⟩ := hinv
    unfold collapse at h
    by_cases hl : t.length ≤ 1
    · simp only [hl, if_true] at h
      cases h
      refine ⟨hhi, ?_⟩
      intro d0 r h0 hr
      subst hr
      simp [dsI] at h0
      omega
    · simp only [hl, if_false] at h
      have hlast : t.length - 1 < t.length := by omega
      rw [List.getElem?_eq_getElem hlast] at h
      dsimp only at h
      have hS := trailingRunStart_spec t t[t.length - 1].depth (t.length - 1) (by omega)
      generalize hs0 : trailingRunStart t t[t.length - 1].depth (t.length - 1) = s0 at hS h
      obtain ⟨hS1, hS2, hS3⟩ := hS
      have hrun : ∀ m, s0 ≤ m → m < t.length → (dsI t)[m]? = some t[t.length - 1].depth := by
        intro m h1 h2
        by_cases hm : m = t.length - 1
        · subst hm; exact dsI_get t hlast
        · exact hS2 m h1 (by omega)
      have hcap : ¬ t.length - s0 > M := by
        intro hcon
        have := hw (t.length - M - 1) _ _ (by rw [dsI_length]; omega)
          (hrun (t.length - M - 1) (by omega) (by omega))
          (by rw [show t.length - M - 1 + M - 1 = t.length - 2 by omega]
              exact hrun (t.length - 2) (by omega) (by omega))
        omega
      simp only [hcap, if_false] at h
      obtain ⟨c0, cl, hc0, hm⟩ := mergeNodes_shape t (start := s0) (stop := t.length) (by omega)
        (Nat.le_refl _)
      obtain ⟨t1', x, hm', hx, hds⟩ := mergeNodes_depths t (start := s0) (stop := t.length) (by omega)
        (Nat.le_refl _)
      rw [hm] at hm'
      cases hm'
      rw [hm] at h
      simp only at h
      have hs0l : s0 < t.length := by omega
      rw [List.getElem?_eq_getElem hs0l] at hc0
      cases hc0
      rw [hrun s0 (Nat.le_refl _) hs0l] at hx
      cases hx
      have hc0d : t[s0].depth = t[t.length - 1].depth := by
        have := hrun s0 (Nat.le_refl _) hs0l
        rw [dsI_get t hs0l] at this
        simpa using this
      generalize hch : (t.drop s0).take (t.length - s0) = children at hm hds h
      have hchall : ∀ c ∈ children, HI c ∧ c.depth = t[s0].depth := by
        intro c hc
        rw [← hch] at hc
        obtain ⟨j, hj1, hj2, hj3⟩ := mem_range hc
        have hjl : j < t.length := by omega
        rw [List.getElem?_eq_getElem hjl] at hj3
        cases hj3
        refine ⟨hhi _ (List.getElem_mem hjl), ?_⟩
        have := hrun j hj1 hjl
        rw [dsI_get t hjl] at this
        simp only [Option.some.injEq] at this
        omega
      have hchne : children ≠ [] := by
        intro h0
        have : children.length = t.length - s0 := by
          rw [← hch, List.length_take, List.length_drop]; omega
        rw [h0] at this; simp at this; omega
      have hds' : dsI (t.take s0 ++ mkMerged children t[s0] cl :: t.drop t.length)
          = (dsI t).take s0 ++ [t[t.length - 1].depth + 1] := by
        rw [hds]
        have := mergeAt_suffix (dsI t) s0 t[t.length - 1].depth (by rw [dsI_length]; omega)
        rw [dsI_length] at this
        exact this
      have hprev : ∀ y, 1 ≤ s0 → (dsI t)[s0 - 1]? = some y → t[t.length - 1].depth + 1 ≤ y := by
        intro y h1 hy
        rcases hS3 with h0 | hne
        · omega
        · have := hd (s0 - 1) s0 y _ (by omega) hy (hrun s0 (Nat.le_refl _) (by omega))
          have : y ≠ t[t.length - 1].depth := by intro h; apply hne; rw [hy, h]
          omega
      have hinv1 : Inv1 (t.take s0 ++ mkMerged children t[s0] cl :: t.drop t.length) := by
        unfold Inv1
        rw [hds']
        exact ⟨desc_take_snoc hd _ _ (by rw [dsI_length]; omega) hprev,
          winIn_take_snoc (by omega) hw _ _ (by rw [dsI_length]; omega)⟩
      have hhi1 : ∀ i ∈ t.take s0 ++ mkMerged children t[s0] cl :: t.drop t.length, HI i := by
        intro i hi
        simp only [List.mem_append, List.mem_cons] at hi
        rcases hi with hi | rfl | hi
        · exact hhi i (List.mem_of_mem_take hi)
        · exact merged_HI children _ cl hchne hchall
        · simp at hi
      obtain ⟨r1, r2⟩ := collapse_HI fuel _ t' hinv1 hhi1 h
      refine ⟨r1, ?_⟩
      intro d0 r h0 hr
      have h0lt : 0 < t.length := by omega
      rw [dsI_get t h0lt] at h0
      cases h0
      by_cases hs00 : s0 = 0
      · -- everything was merged into one node
        subst hs00
        have := r2 (t[t.length - 1].depth + 1) r (by rw [hds']; simp) hr
        -- first node has the run's depth
        have hfd := hrun 0 (Nat.le_refl _) h0lt
        rw [dsI_get t h0lt] at hfd
        simp only [Option.some.injEq] at hfd
        -- the remaining tail is the single merged node: collapse returns it
        have hsingle : (t.take 0 ++ mkMerged children t[0] cl :: t.drop t.length).length ≤ 1 := by simp
        have hret : t' = t.take 0 ++ mkMerged children t[0] cl :: t.drop t.length := by
          cases fuel with
          | zero => simp [collapse] at h
          | succ f =>
            unfold collapse at h
            simp only [hsingle, if_true] at h
            cases h; rfl
        rw [hr] at hret
        simp at hret
        rw [hret]
        simp [mkMerged]
      · have := r2 t[0].depth r (by
          rw [hds', List.getElem?_append_left (by simp [dsI_length]; omega), List.getElem?_take]
          simp only [show 0 < s0 by omega, if_true]
          exact dsI_get t h0lt) hr
        exact this


end

section
variable {K V : Type} [KeyOrd K] [LawfulKeyOrd K] [DecidableEq K]

theorem pow_lt_of {a b n : Nat} (h1 : M ^ a ≤ n) (h2 : n < M ^ b) : a < b := by
  apply Classical.byContradiction
  intro hcon
  have : M ^ b ≤ M ^ a := Nat.pow_le_pow_right (by decide) (by omega)
  omega

theorem finishTail_height (t : List (Info K V)) (hok : ∀ i ∈ t, InfoOK i) (hinv : TailInv t)
    (hhg : ∀ i ∈ t, HG i) (r : Option (NTree K V)) (h : finishTail t = .ok r)
    (n maxDepth : Nat) (hn : (tailEntries t).length ≤ n) (hsmall : n < M ^ (maxDepth - 3))
    (hmd : 3 ≤ maxDepth) : rootHeight r ≤ maxDepth := by
  -- the first node of the tail bounds everything
  have hfirst : ∀ x xs, t = x :: xs → x.depth + 3 < maxDepth := by
    intro x xs ht
    have hx := (hhg x (by rw [ht]; simp)).2
    unfold GI at hx
    have hle : (entries x.node).length ≤ n := by
      have : (tailEntries t).length = (entries x.node).length + (tailEntries xs).length := by
        rw [ht]; simp [tailEntries, entriesList]
      omega
    have := pow_lt_of (Nat.le_trans hx hle) hsmall
    omega
  unfold finishTail at h
  split at h
  · cases h; simp [rootHeight]
  · rename_i i
    have hi := (hhg i (by simp)).1
    unfold HI at hi
    have hb := hfirst i [] rfl
    split at h
    · cases h; simp [rootHeight, height, heightList, hi]; omega
    · split at h
      · cases h; simp [rootHeight, height, heightList, hi]; omega
      · cases h; simp [rootHeight, hi]; omega
  · rename_i hne1 hne2
    split at h
    · cases h
    · rename_i root hc
      cases t with
      | nil => exact absurd rfl hne1
      | cons x xs =>
        have hb := hfirst x xs rfl
        obtain ⟨hhi', hdep⟩ := collapse_HI _ (x :: xs) [root] hinv.inv1 (fun i hi => (hhg i hi).1) hc
        have hr := hhi' root (by simp)
        unfold HI at hr
        have hd := hdep x.depth root (by simp [dsI]) rfl
        split at h
        · cases h; simp [rootHeight, height, heightList, hr]; omega
        · cases h; simp [rootHeight, hr]; omega
    · cases h

/-- **the height of a written tree is logarithmic**: a tree for fewer than
    `maxChildren ^ (maxDepth - 3)` entries has at most `maxDepth` levels, so the readers' depth
    cap (256) is never reached by a tree the writer can produce in practice (64^253 entries) -/
theorem height_bound (es : List (K × V)) (hasc : Asc es) (r : Option (NTree K V)) (hw : write es = .ok r)
    (maxDepth : Nat) (hmd : 3 ≤ maxDepth) (hsmall : es.length < M ^ (maxDepth - 3)) :
    rootHeight r ≤ maxDepth := by
  unfold write at hw
  obtain ⟨w, e, hinv⟩ := addAll_ok es TW.init [] inv_init (by simpa using hasc)
  rw [e] at hw
  simp only at hw
  have hinv' : Inv w es := by simpa using hinv
  obtain ⟨htail, hhg⟩ := addAll_HG es TW.init w e
    (by simpa [TW.init] using (tailInv_nil (K := K) (V := V))) (by simp [TW.init])
  unfold finish at hw
  by_cases hp : w.pending.length > 0
  · simp only [hp, if_true] at hw
    by_cases ht : (w.tail.length == 0) = true
    · simp only [ht, if_true] at hw
      cases hw
      simp [rootHeight, height]; omega
    · simp only [ht, Bool.false_eq_true, if_false] at hw
      obtain ⟨w', e', hok', hent, _, _⟩ := completePendingLeaf_spec w hinv'.tailOK
        (by intro h0; simp [h0] at hp) (by have := hinv'.pend; omega)
      rw [e'] at hw
      simp only at hw
      obtain ⟨a, b⟩ := completePendingLeaf_HG e' htail hhg
      exact finishTail_height w'.tail hok' a b r hw es.length maxDepth
        (by rw [hent, hinv'.ents]; exact Nat.le_refl _) hsmall hmd
  · simp only [hp, if_false] at hw
    have hpe : w.pending = [] := by
      cases hpp : w.pending with
      | nil => rfl
      | cons a b => simp [hpp] at hp
    exact finishTail_height w.tail hinv'.tailOK htail hhg r hw es.length maxDepth
      (by have := hinv'.ents; rw [hpe] at this; simp at this; rw [this]; exact Nat.le_refl _) hsmall hmd

/-- **C17 in one statement**: for every strictly ascending entry list of fewer than
    `maxChildren ^ (maxDepth - 3)` entries, `Write` returns a tree on which `Lookup` finds exactly
    the stored value for every key and nothing for every other key, and `All` enumerates exactly
    the entries in ascending order -/
theorem lookup_write_full (maxDepth : Nat) (hmd : 3 ≤ maxDepth) (es : List (K × V)) (hasc : Asc es)
    (hsmall : es.length < M ^ (maxDepth - 3)) :
    ∃ r, write es = .ok r ∧
      (∀ k v, (k, v) ∈ es → lookup maxDepth r k = .found v) ∧
      (∀ k, (∀ e ∈ es, e.1 ≠ k) → lookup maxDepth r k = .notFound) ∧
      all maxDepth r = es := by
  obtain ⟨r, hw, h⟩ := lookup_write maxDepth es hasc
  exact ⟨r, hw, h (height_bound es hasc r hw maxDepth hmd hsmall)⟩


/-- name trees as the Go code instantiates them: byte-string keys, depth cap `MaxNameTreeDepth` -/
theorem nametree_faithful (es : List (Bytes × V)) (hasc : Asc es)
    (hsmall : es.length < M ^ (Gen.limits_MaxNameTreeDepth - 3)) :
    ∃ r, write es = .ok r ∧
      (∀ k v, (k, v) ∈ es → lookup Gen.limits_MaxNameTreeDepth r k = .found v) ∧
      (∀ k, (∀ e ∈ es, e.1 ≠ k) → lookup Gen.limits_MaxNameTreeDepth r k = .notFound) ∧
      all Gen.limits_MaxNameTreeDepth r = es :=
  lookup_write_full _ (by decide) es hasc hsmall

/-- number trees: integer keys, depth cap `MaxNumberTreeDepth` -/
theorem numtree_faithful (es : List (Int × V)) (hasc : Asc es)
    (hsmall : es.length < M ^ (Gen.limits_MaxNumberTreeDepth - 3)) :
    ∃ r, write es = .ok r ∧
      (∀ k v, (k, v) ∈ es → lookup Gen.limits_MaxNumberTreeDepth r k = .found v) ∧
      (∀ k, (∀ e ∈ es, e.1 ≠ k) → lookup Gen.limits_MaxNumberTreeDepth r k = .notFound) ∧
      all Gen.limits_MaxNumberTreeDepth r = es :=
  lookup_write_full _ (by decide) es hasc hsmall

/-- **present with a null value is not absent.**  `Lookup` answers with a pair: found-or-not,
    and the value.  Take values that may be null (`Option W`, `none` = the PDF null object) and a
    key stored with the null value: both readers answer `found none` — the same answer — and
    that is not the answer `notFound` an absent key gets. -/
theorem null_value_present {W : Type} (maxDepth : Nat) (es : List (K × Option W)) (hasc : Asc es)
    (r : Option (NTree K (Option W))) (hw : write es = .ok r) (hh : rootHeight r ≤ maxDepth)
    (k : K) (hmem : (k, none) ∈ es) :
    lookup maxDepth r k = .found none ∧
    memLookup (extractInMemory maxDepth r) k = .found none ∧
    lookup maxDepth r k ≠ .notFound ∧ memLookup (extractInMemory maxDepth r) k ≠ .notFound := by
  have h1 := lookup_write_present maxDepth es hasc r hw hh k none hmem
  have h2 := (readers_agree maxDepth es hasc r hw hh).2.2 k
  rw [h1] at h2
  refine ⟨h1, h2, ?_, ?_⟩
  · rw [h1]; intro h; cases h
  · rw [h2]; intro h; cases h

end
section
variable {K V : Type} [KeyOrd K] [LawfulKeyOrd K] [DecidableEq K]

/-! ## the in-memory tree value: every answer is a function of the current map -/

/-- the association list holds every key once (a Go map) -/
def KeysNodup (m : List (K × V)) : Prop := m.Pairwise fun a b => a.1 ≠ b.1

theorem mapGet_mapSet (k k' : K) (v : V) : ∀ m : List (K × V),
    mapGet k' (mapSet k v m) = if k' = k then some v else mapGet k' m
  | [] => by
    by_cases h : k' = k
    · simp [mapSet, mapGet, h]
    · have : ¬ k = k' := fun e => h e.symm
      simp [mapSet, mapGet, h, this]
  | (a, x) :: rest => by
    by_cases ha : a = k
    · subst ha
      by_cases h : k' = a
      · simp [mapSet, mapGet, h]
      · have : ¬ a = k' := fun e => h e.symm
        simp [mapSet, mapGet, h, this]
    · simp only [mapSet, ha, if_false, mapGet]
      by_cases h2 : a = k'
      · subst h2
        simp [ha]
      · simp only [h2, if_false]
        exact mapGet_mapSet k k' v rest

theorem key_mem_mapSet {k : K} {v : V} : ∀ {m : List (K × V)} {e : K × V}, e ∈ mapSet k v m →
    e.1 = k ∨ ∃ e' ∈ m, e'.1 = e.1
  | [], e, h => by simp [mapSet] at h; subst h; exact .inl rfl
  | (a, x) :: rest, e, h => by
    by_cases ha : a = k
    · simp only [mapSet, ha, if_true, List.mem_cons] at h
      rcases h with h | h
      · subst h; exact .inl rfl
      · exact .inr ⟨e, by simp [h], rfl⟩
    · simp only [mapSet, ha, if_false, List.mem_cons] at h
      rcases h with h | h
      · subst h; exact .inr ⟨(a, x), by simp, rfl⟩
      · rcases key_mem_mapSet h with h1 | ⟨e', he', h2⟩
        · exact .inl h1
        · exact .inr ⟨e', by simp [he'], h2⟩

/-- `Data[k] = v` keeps a map a map -/
theorem keysNodup_mapSet (k : K) (v : V) : ∀ m : List (K × V), KeysNodup m → KeysNodup (mapSet k v m)
  | [], _ => by simp [mapSet, KeysNodup]
  | (a, x) :: rest, h => by
    simp only [KeysNodup, List.pairwise_cons] at h
    by_cases ha : a = k
    · subst ha
      simp only [mapSet, if_true, KeysNodup, List.pairwise_cons]
      exact h
    · simp only [mapSet, ha, if_false, KeysNodup, List.pairwise_cons]
      refine ⟨?_, keysNodup_mapSet k v rest h.2⟩
      intro e he
      rcases key_mem_mapSet he with h1 | ⟨e', he', h2⟩
      · simpa [h1] using ha
      · rw [← h2]; exact h.1 e' he'

theorem mapDel_sublist (k : K) : ∀ m : List (K × V), (mapDel k m).Sublist m
  | [] => by simp [mapDel]
  | (a, x) :: rest => by
    by_cases ha : a = k
    · simp [mapDel, ha]
    · simp only [mapDel, ha, if_false]
      exact (mapDel_sublist k rest).cons_cons _

/-- `delete(Data, k)` keeps a map a map -/
theorem keysNodup_mapDel (k : K) (m : List (K × V)) (h : KeysNodup m) : KeysNodup (mapDel k m) :=
  List.Pairwise.sublist (mapDel_sublist k m) h

theorem mapGet_none_of_notKey {k : K} : ∀ {m : List (K × V)}, (∀ e ∈ m, e.1 ≠ k) → mapGet k m = none
  | [], _ => rfl
  | (a, x) :: rest, h => by
    have ha : a ≠ k := h (a, x) (by simp)
    simp only [mapGet, ha, if_false]
    exact mapGet_none_of_notKey (fun e he => h e (by simp [he]))

theorem mapGet_mapDel (k k' : K) : ∀ m : List (K × V), KeysNodup m →
    mapGet k' (mapDel k m) = if k' = k then none else mapGet k' m
  | [], _ => by simp [mapDel, mapGet]
  | (a, x) :: rest, h => by
    simp only [KeysNodup, List.pairwise_cons] at h
    by_cases ha : a = k
    · subst ha
      simp only [mapDel, if_true, mapGet]
      by_cases h2 : k' = a
      · subst h2
        simp only [if_true]
        exact mapGet_none_of_notKey (fun e he => (h.1 e he).symm)
      · have : ¬ a = k' := fun e => h2 e.symm
        simp [h2, this]
    · simp only [mapDel, ha, if_false, mapGet]
      by_cases h2 : a = k'
      · subst h2; simp [ha]
      · simp only [h2, if_false]
        exact mapGet_mapDel k k' rest h.2

/-- in a map, the entries are exactly what `Lookup` finds -/
theorem mem_iff_mapGet : ∀ {m : List (K × V)}, KeysNodup m → ∀ k v, (k, v) ∈ m ↔ mapGet k m = some v
  | [], _, k, v => by simp [mapGet]
  | (a, x) :: rest, h, k, v => by
    simp only [KeysNodup, List.pairwise_cons] at h
    simp only [List.mem_cons, Prod.mk.injEq, mapGet]
    by_cases ha : a = k
    · subst ha
      simp only [if_true, Option.some.injEq]
      constructor
      · rintro (⟨_, rfl⟩ | hm)
        · rfl
        · exact absurd rfl (h.1 (a, v) hm)
      · intro e; exact .inl (by simp [e])
    · simp only [ha, if_false]
      rw [← mem_iff_mapGet h.2 k v]
      constructor
      · rintro (⟨e, _⟩ | hm)
        · exact absurd e.symm ha
        · exact hm
      · exact fun hm => .inr hm

/-! ### the enumeration -/

theorem insertSorted_perm (e : K × V) : ∀ l : List (K × V), (insertSorted e l).Perm (e :: l)
  | [] => by simp [insertSorted]
  | x :: rest => by
    simp only [insertSorted]
    split
    · exact ((insertSorted_perm e rest).cons x).trans (List.Perm.swap e x rest)
    · exact List.Perm.refl _

theorem sortByKey_perm : ∀ m : List (K × V), (sortByKey m).Perm m
  | [] => by simp [sortByKey]
  | e :: rest => by
    simp only [sortByKey, List.foldr_cons]
    exact (insertSorted_perm e _).trans ((sortByKey_perm rest).cons e)

theorem insertSorted_asc (e : K × V) : ∀ l : List (K × V), Asc l → (∀ x ∈ l, x.1 ≠ e.1) →
    Asc (insertSorted e l)
  | [], _, _ => by simp [insertSorted, Asc]
  | x :: rest, hasc, hne => by
    simp only [Asc, List.pairwise_cons] at hasc
    simp only [insertSorted]
    by_cases hlt : KeyOrd.lt x.1 e.1 = true
    · simp only [hlt, if_true, Asc, List.pairwise_cons]
      refine ⟨?_, insertSorted_asc e rest hasc.2 (fun y hy => hne y (by simp [hy]))⟩
      intro y hy
      have := (insertSorted_perm e rest).subset hy
      simp only [List.mem_cons] at this
      rcases this with rfl | h
      · exact hlt
      · exact hasc.1 y h
    · simp only [hlt, Bool.false_eq_true, if_false, Asc, List.pairwise_cons]
      have hex : KeyOrd.lt e.1 x.1 = true := by
        rcases LawfulKeyOrd.total e.1 x.1 with h | h | h
        · exact h
        · exact absurd h.symm (hne x (by simp))
        · exact absurd h hlt
      refine ⟨?_, hasc.1, hasc.2⟩
      intro y hy
      simp only [List.mem_cons] at hy
      rcases hy with rfl | h
      · exact hex
      · exact LawfulKeyOrd.trans hex (hasc.1 y h)

/-- `All()` of the in-memory value is ascending … -/
theorem memAll_asc : ∀ m : List (K × V), KeysNodup m → Asc (memAll m)
  | [], _ => by simp [memAll, sortByKey, Asc]
  | e :: rest, h => by
    simp only [KeysNodup, List.pairwise_cons] at h
    simp only [memAll, sortByKey, List.foldr_cons]
    apply insertSorted_asc e _ (memAll_asc rest h.2)
    intro x hx
    have := (sortByKey_perm rest).subset hx
    exact (h.1 x this).symm

/-- … and holds exactly the entries of the map -/
theorem memAll_perm (m : List (K × V)) : (memAll m).Perm m := sortByKey_perm m

/-- two ascending lists with the same elements are equal -/
theorem asc_ext : ∀ (a b : List (K × V)), Asc a → Asc b → (∀ e, e ∈ a ↔ e ∈ b) → a = b
  | [], [], _, _, _ => rfl
  | [], y :: ys, _, _, h => by have := (h y).mpr (by simp); simp at this
  | x :: xs, [], _, _, h => by have := (h x).mp (by simp); simp at this
  | x :: xs, y :: ys, ha, hb, h => by
    simp only [Asc, List.pairwise_cons] at ha hb
    have hxy : x = y := by
      have hx := (h x).mp (by simp)
      have hy := (h y).mpr (by simp)
      simp only [List.mem_cons] at hx hy
      rcases hx with hx | hx
      · exact hx
      · rcases hy with hy | hy
        · exact hy.symm
        · have h1 := hb.1 x hx
          have h2 := ha.1 y hy
          have := lt_asymm h1
          rw [h2] at this; cases this
    subst hxy
    congr 1
    apply asc_ext xs ys ha.2 hb.2
    intro e
    constructor
    · intro he
      have := (h e).mp (by simp [he])
      simp only [List.mem_cons] at this
      rcases this with rfl | h'
      · have := ha.1 e he; simp [lt_irrefl_k] at this
      · exact h'
    · intro he
      have := (h e).mpr (by simp [he])
      simp only [List.mem_cons] at this
      rcases this with rfl | h'
      · have := hb.1 e he; simp [lt_irrefl_k] at this
      · exact h'

/-- **no hidden state**: what `All()` yields is determined by the current content of the map
    (by what `Lookup` answers for every key), whatever sequence of insertions, replacements,
    deletions and clears produced it -/
theorem memAll_ext (m1 m2 : List (K × V)) (h1 : KeysNodup m1) (h2 : KeysNodup m2)
    (h : ∀ k, mapGet k m1 = mapGet k m2) : memAll m1 = memAll m2 := by
  apply asc_ext _ _ (memAll_asc m1 h1) (memAll_asc m2 h2)
  intro e
  obtain ⟨k, v⟩ := e
  rw [(memAll_perm m1).mem_iff, (memAll_perm m2).mem_iff, mem_iff_mapGet h1, mem_iff_mapGet h2, h k]

/-- the states of an in-memory value: reachable from the empty map by assignments and deletions -/
inductive Reach : List (K × V) → Prop
  | empty : Reach []
  | set (k : K) (v : V) {m : List (K × V)} : Reach m → Reach (mapSet k v m)
  | del (k : K) {m : List (K × V)} : Reach m → Reach (mapDel k m)

theorem Reach.keysNodup {m : List (K × V)} (h : Reach m) : KeysNodup m := by
  induction h with
  | empty => simp [KeysNodup]
  | set k v _ ih => exact keysNodup_mapSet k v _ ih
  | del k _ ih => exact keysNodup_mapDel k _ ih

/-- **histories**: two histories on an in-memory value that lead to the same map content give the
    same enumeration (ascending, each entry once) and the same lookups -/
theorem history_independent (m1 m2 : List (K × V)) (h1 : Reach m1) (h2 : Reach m2)
    (h : ∀ k, mapGet k m1 = mapGet k m2) :
    memAll m1 = memAll m2 ∧ Asc (memAll m1) ∧ (memAll m1).Perm m1 ∧
      ∀ k, memLookup m1 k = memLookup m2 k :=
  ⟨memAll_ext m1 m2 h1.keysNodup h2.keysNodup h, memAll_asc m1 h1.keysNodup, memAll_perm m1,
    fun k => by simp [memLookup, h k]⟩

end

end PdfVerif.C17trsb

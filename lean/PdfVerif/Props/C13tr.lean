import PdfVerif.Lemmas.TRGo
import PdfVerif.Generated.FnCmap
/-!
# C13 (translator part): cmap range validity and range index on the GENERATED code (font/cmap)

`Gen.cmap_rangeIsValid` and `Gen.cmap_rangeIndex` are re-created from font/cmap/{range,file}.go on
every run.  `rangeIndex` numbers the codes of a range `[first, last]` (a box, byte by byte) in
mixed radix; `LookupCID` adds the index to the first CID of the range and `codesInRange`
enumerates the codes in the same order.
-/
namespace PdfVerif.C13tr
open PdfVerif PdfVerif.Gen PdfVerif.Go

/-- specification of `rangeIsValid`: equal non-zero lengths and `first ≤ last` bytewise -/
def CmapRangeValid (first last : List UInt8) : Prop :=
  first.length = last.length ∧ 1 ≤ first.length ∧ ∀ k, k < first.length → first.getD k 0 ≤ last.getD k 0

instance (first last : List UInt8) : Decidable (CmapRangeValid first last) := by
  unfold CmapRangeValid; infer_instance

/-- `rangeIsValid` never panics and decides exactly `CmapRangeValid` -/
theorem rangeIsValid_spec (first last : List UInt8) :
    cmap_rangeIsValid first last = some (decide (CmapRangeValid first last)) := by
  unfold cmap_rangeIsValid
  simp only [pure, bind]
  by_cases h : first.length = last.length ∧ 1 ≤ first.length
  · have c : (len first != len last || len first == 0) = false := by
      unfold len
      generalize first.length = n at h ⊢
      generalize last.length = m at h ⊢
      simp only [Bool.or_eq_false_iff, bne_eq_false_iff_eq, beq_eq_false_iff_ne, ne_eq]
      omega
    simp only [c, Bool.false_eq_true, if_false]
    rw [forIn_option_search (List.range first.length) (fun k => k < first.length) _
      (fun k => decide (first.getD k 0 > last.getD k 0)) (none, ()) (some false, ()) ?_
      (fun k hk => List.mem_range.mp hk)]
    · by_cases hall : ∀ k, k < first.length → first.getD k 0 ≤ last.getD k 0
      · have : ((List.range first.length).any fun k => decide (first.getD k 0 > last.getD k 0)) = false := by
          rw [List.any_eq_false]
          intro k hk
          have := hall k (List.mem_range.mp hk)
          simp only [decide_eq_true_eq, gt_iff_lt]
          exact UInt8.not_lt.mpr this
        have hv : CmapRangeValid first last := ⟨h.1, h.2, hall⟩
        simp only [this]
        simp [hv]
      · have : ((List.range first.length).any fun k => decide (first.getD k 0 > last.getD k 0)) = true := by
          rw [List.any_eq_true]
          have ⟨k, hk⟩ := Classical.not_forall.mp hall
          have ⟨hk1, hk2⟩ := Classical.not_imp.mp hk
          exact ⟨k, List.mem_range.mpr hk1, by simpa using UInt8.not_le.mp hk2⟩
        have hv : ¬ CmapRangeValid first last := fun hv => hall hv.2.2
        simp only [this]
        simp [hv]
    · intro k hk
      rw [getD_idx _ _ hk, getD_idx _ _ (by omega)]
      simp only [Option.bind_some]
  · have c : (len first != len last || len first == 0) = true := by
      unfold len
      generalize first.length = n at h ⊢
      generalize last.length = m at h ⊢
      simp only [Bool.or_eq_true, bne_iff_ne, ne_eq, beq_iff_eq]
      omega
    have hv : ¬ CmapRangeValid first last := fun hv => h ⟨hv.1, hv.2.1⟩
    simp [c, hv]

example : cmap_rangeIsValid [0, 0x20] [0, 0x7f] = some true ∧ cmap_rangeIsValid [1] [0] = some false := by
  decide +kernel

/-! ## rangeIndex -/

/-- one digit of the mixed-radix index: `none` = the byte is outside `[first k, last k]` or the
index would exceed `MaxInt32` -/
def idxStep (f l : List UInt8) (b : UInt8) (k : Nat) (acc : Int) : Option Int :=
  if b < f.getD k 0 ∨ b > l.getD k 0 then none
  else
    let acc' := acc * (((l.getD k 0).toNat : Int) - (f.getD k 0).toNat + 1) + ((b.toNat : Int) - (f.getD k 0).toNat)
    if acc' > 2147483647 then none else some acc'

/-- the loop of `rangeIndex` over (byte, position) pairs, in exact integer arithmetic -/
def idxScan (f l : List UInt8) : List (UInt8 × Nat) → Int → Option Int
  | [], acc => some acc
  | (b, k) :: rest, acc => (idxStep f l b k acc).bind (idxScan f l rest)

/-- value of the Go variable `acc` when the loop is left (needed to state the loop lemma as an equation) -/
def idxExit (f l : List UInt8) : List (UInt8 × Nat) → Int → Int
  | [], acc => acc
  | (b, k) :: rest, acc =>
    if b < f.getD k 0 ∨ b > l.getD k 0 then acc
    else
      let acc' := acc * (((l.getD k 0).toNat : Int) - (f.getD k 0).toNat + 1) + ((b.toNat : Int) - (f.getD k 0).toNat)
      if acc' > 2147483647 then acc' else idxExit f l rest acc'

theorem idxStep_bounds {f l : List UInt8} {b : UInt8} {k : Nat} {acc a : Int}
    (h : idxStep f l b k acc = some a) (h0 : 0 ≤ acc) : 0 ≤ a ∧ a ≤ 2147483647 := by
  unfold idxStep at h
  split at h
  · simp at h
  · rename_i hbox
    simp only at h
    split at h
    · simp at h
    · rename_i hle
      have ha : a = _ := (Option.some.inj h).symm
      have hb1 : ¬ (b < f.getD k 0) := fun x => hbox (Or.inl x)
      have hb2 : ¬ (b > l.getD k 0) := fun x => hbox (Or.inr x)
      have h1 := UInt8.not_lt.mp hb1
      have h2 := UInt8.not_lt.mp hb2
      rw [UInt8.le_iff_toNat_le] at h1 h2
      have hspan : (0 : Int) ≤ ((l.getD k 0).toNat : Int) - (f.getD k 0).toNat + 1 := by omega
      have := Int.mul_nonneg h0 hspan
      omega

theorem rangeIndex_loop (f l : List UInt8) (L : Nat)
    (body : UInt8 × Nat → Option (Int × Bool) × Int → Option (ForInStep (Option (Int × Bool) × Int)))
    (hbody : ∀ (p : UInt8 × Nat) (st : Option (Int × Bool) × Int), p.2 < L → 0 ≤ st.snd → st.snd ≤ 2147483647 →
      body p st = match idxStep f l p.1 p.2 st.snd with
        | none => some (ForInStep.done (some (0, false), idxExit f l [p] st.snd))
        | some a => some (ForInStep.yield (none, a)))
    (ps : List (UInt8 × Nat)) (hk : ∀ p ∈ ps, p.2 < L) (acc : Int) (h0 : 0 ≤ acc) (h1 : acc ≤ 2147483647) :
    forIn ps ((none : Option (Int × Bool)), acc) body =
      some ((match idxScan f l ps acc with | none => some (0, false) | some _ => none), idxExit f l ps acc) := by
  induction ps generalizing acc with
  | nil => simp [idxScan, idxExit]
  | cons p ps ih =>
    obtain ⟨b, k⟩ := p
    have hkL : k < L := hk (b, k) (by simp)
    have hks : ∀ p ∈ ps, p.2 < L := fun p hp => hk p (by simp [hp])
    simp only [List.forIn_cons]
    rw [hbody (b, k) (none, acc) hkL h0 h1]
    simp only []
    cases hs : idxStep f l b k acc with
    | none =>
      have e1 : idxScan f l ((b, k) :: ps) acc = none := by simp [idxScan, hs]
      have e2 : idxExit f l ((b, k) :: ps) acc = idxExit f l [(b, k)] acc := by
        unfold idxStep at hs
        unfold idxExit
        split
        · rfl
        · rename_i hbox
          simp only [hbox, if_false] at hs
          split at hs
          · rename_i hgt; simp only [hgt, if_true]
          · simp at hs
      simp [e1, e2, bind]
    | some a =>
      have hb := idxStep_bounds hs h0
      have e1 : idxScan f l ((b, k) :: ps) acc = idxScan f l ps a := by simp [idxScan, hs]
      have e2 : idxExit f l ((b, k) :: ps) acc = idxExit f l ps a := by
        unfold idxStep at hs
        conv => lhs; unfold idxExit
        split at hs
        · simp at hs
        · rename_i hbox
          simp only [hbox, if_false]
          simp only at hs
          split at hs
          · simp at hs
          · rename_i hgt
            simp only [hgt, if_false]
            rw [Option.some.inj hs]
      simp only [bind, Option.bind_some]
      rw [ih hks a hb.1 hb.2, e1, e2]

theorem idxScan_some_exit (f l : List UInt8) (ps : List (UInt8 × Nat)) (acc v : Int)
    (h : idxScan f l ps acc = some v) : idxExit f l ps acc = v := by
  induction ps generalizing acc with
  | nil => simpa [idxScan, idxExit] using h
  | cons p ps ih =>
    obtain ⟨b, k⟩ := p
    unfold idxScan at h
    cases hs : idxStep f l b k acc with
    | none => simp [hs] at h
    | some a =>
      rw [hs] at h
      simp only [Option.bind_some] at h
      unfold idxStep at hs
      unfold idxExit
      split at hs
      · simp at hs
      · rename_i hbox
        simp only [hbox, if_false]
        simp only at hs
        split at hs
        · simp at hs
        · rename_i hgt
          simp only [hgt, if_false]
          rw [Option.some.inj hs]
          exact ih a h

/-- **rangeIndex = mixed-radix scan**: for every three byte strings the generated `rangeIndex`
does not panic; with matching lengths it returns `(v, true)` iff the exact-arithmetic scan
`idxScan` yields `v` (all the `int64` operations are exact because `acc ≤ MaxInt32` is an
invariant of the loop), and `(0, false)` otherwise -/
theorem rangeIndex_eq (f l c : List UInt8) :
    cmap_rangeIndex f l c = some (
      if f.length = c.length ∧ l.length = c.length then
        match idxScan f l c.zipIdx 0 with
        | none => (0, false)
        | some v => (v, true)
      else (0, false)) := by
  unfold cmap_rangeIndex
  simp only [pure, bind]
  by_cases hlen : f.length = c.length ∧ l.length = c.length
  · have c0 : (len f != len c || len l != len c) = false := by simp [len, hlen.1, hlen.2]
    simp only [c0, Bool.false_eq_true, if_false, hlen, and_self, if_true]
    rw [rangeIndex_loop f l c.length _ ?_ c.zipIdx ?_ 0 (by omega) (by omega)]
    · cases hs : idxScan f l c.zipIdx 0 with
      | none => simp
      | some v => simp [idxScan_some_exit f l _ _ _ hs]
    · intro p st hk h0 h1
      obtain ⟨b, k⟩ := p
      simp only at hk ⊢
      rw [getD_idx _ _ (by omega), getD_idx _ _ (by omega)]
      unfold idxStep idxExit idxExit
      generalize f.getD k 0 = lo
      generalize l.getD k 0 = hi
      simp only [obind]
      have e1 : (b < lo) ↔ ((b.toNat : Int) < (lo.toNat : Int)) := by rw [UInt8.lt_iff_toNat_lt]; omega
      have e2 : (b > hi) ↔ ((b.toNat : Int) > (hi.toNat : Int)) := by rw [gt_iff_lt, UInt8.lt_iff_toNat_lt]; omega
      have hA := u8_cast_bounds hi
      have hB := u8_cast_bounds lo
      have hC := u8_cast_bounds b
      generalize (hi.toNat : Int) = A at e2 hA ⊢
      generalize (lo.toNat : Int) = B at e1 hB ⊢
      generalize (b.toNat : Int) = C at e1 e2 hC ⊢
      generalize st.snd = n at h0 h1 ⊢
      as_aux_lemma =>
        by_cases p1 : b < lo
        · simp [p1]
        · by_cases p2 : b > hi
          · simp [p1, p2]
          · have q1 : ¬ (C < B) := fun h => p1 (e1.mpr h)
            have q2 : ¬ (C > A) := fun h => p2 (e2.mpr h)
            have hspan : 1 ≤ A - B + 1 ∧ A - B + 1 ≤ 256 := by omega
            have hm1 : 0 ≤ n * (A - B + 1) := Int.mul_nonneg h0 (by omega)
            have hm2 : n * (A - B + 1) ≤ 2147483647 * 256 := Int.mul_le_mul h1 hspan.2 (by omega) (by omega)
            rw [i64_of_bounds (x := A - B) (by omega) (by omega)]
            rw [i64_of_bounds (x := A - B + 1) (by omega) (by omega)]
            rw [i64_of_bounds (x := C - B) (by omega) (by omega)]
            generalize n * (A - B + 1) = M at hm1 hm2 ⊢
            rw [i64_of_bounds (x := M) (by omega) (by omega)]
            rw [i64_of_bounds (x := M + (C - B)) (by omega) (by omega)]
            simp only [p1, p2, decide_false, Bool.not_false, if_true, or_self, if_false, decide_eq_true_eq]
            by_cases hgt : M + (C - B) > 2147483647 <;> simp [hgt]
    · intro p hp
      obtain ⟨b, k⟩ := p
      have := List.mem_zipIdx hp
      simp only at this ⊢
      omega
  · have c0 : (len f != len c || len l != len c) = true := by
      simp only [Bool.or_eq_true, bne_iff_ne, ne_eq, len]
      omega
    simp [c0, hlen]

theorem idxScan_append (f l : List UInt8) (ps qs : List (UInt8 × Nat)) (acc : Int) :
    idxScan f l (ps ++ qs) acc = (idxScan f l ps acc).bind (idxScan f l qs) := by
  induction ps generalizing acc with
  | nil => simp [idxScan]
  | cons p ps ih =>
    obtain ⟨b, k⟩ := p
    simp only [List.cons_append, idxScan]
    cases idxStep f l b k acc with
    | none => simp
    | some a => simp [ih]

theorem idxScan_nonneg (f l : List UInt8) (ps : List (UInt8 × Nat)) (acc v : Int) (h0 : 0 ≤ acc)
    (h : idxScan f l ps acc = some v) : 0 ≤ v := by
  induction ps generalizing acc with
  | nil => simp [idxScan] at h; omega
  | cons p ps ih =>
    obtain ⟨b, k⟩ := p
    unfold idxScan at h
    cases hs : idxStep f l b k acc with
    | none => simp [hs] at h
    | some a =>
      rw [hs] at h
      exact ih a (idxStep_bounds hs h0).1 h

/-- the digit decomposition of one step -/
theorem idxStep_some {f l : List UInt8} {b : UInt8} {k : Nat} {acc a : Int} (h : idxStep f l b k acc = some a) :
    (f.getD k 0).toNat ≤ b.toNat ∧ b.toNat ≤ (l.getD k 0).toNat ∧
    a = acc * (((l.getD k 0).toNat : Int) - (f.getD k 0).toNat + 1) + ((b.toNat : Int) - (f.getD k 0).toNat) := by
  unfold idxStep at h
  split at h
  · simp at h
  · rename_i hbox
    simp only at h
    split at h
    · simp at h
    · have hb1 : ¬ (b < f.getD k 0) := fun x => hbox (Or.inl x)
      have hb2 : ¬ (b > l.getD k 0) := fun x => hbox (Or.inr x)
      have h1 := UInt8.le_iff_toNat_le.mp (UInt8.not_lt.mp hb1)
      have h2 := UInt8.le_iff_toNat_le.mp (UInt8.not_lt.mp hb2)
      exact ⟨h1, h2, (Option.some.inj h).symm⟩

/-- **the index is injective**: two codes of the same length with the same index in the same range
are equal (so `rangeIndex` is a bijection from the codes of the range onto an initial segment of the
indices, the mixed-radix numbering `codesInRange` enumerates) -/
theorem idxScan_injective (f l : List UInt8) (c c' : List UInt8) (hlen : c.length = c'.length) (v : Int)
    (h : idxScan f l c.zipIdx 0 = some v) (h' : idxScan f l c'.zipIdx 0 = some v) : c = c' := by
  induction hn : c.length generalizing c c' v with
  | zero =>
    have : c = [] := List.length_eq_zero_iff.mp hn
    subst this
    cases c' with
    | nil => rfl
    | cons _ _ => simp at hlen
  | succ n ih =>
    rcases List.eq_nil_or_concat c with rfl | ⟨cs, b, rfl⟩
    · simp at hn
    rcases List.eq_nil_or_concat c' with rfl | ⟨cs', b', rfl⟩
    · simp at hlen
    · simp only [List.concat_eq_append] at h h' hlen hn ⊢
      simp only [List.length_append, List.length_singleton] at hlen hn
      have hl : cs.length = cs'.length := by omega
      rw [List.zipIdx_append, idxScan_append] at h h'
      simp only [List.zipIdx_cons, List.zipIdx_nil, Nat.zero_add] at h h'
      cases ha : idxScan f l cs.zipIdx 0 with
      | none => simp [ha] at h
      | some a =>
        cases ha' : idxScan f l cs'.zipIdx 0 with
        | none => simp [ha'] at h'
        | some a' =>
          simp only [ha, ha', Option.bind_some, idxScan] at h h'
          cases hs : idxStep f l b cs.length a with
          | none => simp [hs] at h
          | some w =>
            cases hs' : idxStep f l b' cs'.length a' with
            | none => simp [hs'] at h'
            | some w' =>
              simp only [hs, hs', Option.bind_some, Option.some.injEq] at h h'
              subst h h'
              obtain ⟨d1, d2, d3⟩ := idxStep_some hs
              obtain ⟨d1', d2', d3'⟩ := idxStep_some hs'
              rw [← hl] at d1' d2' d3'
              have hn := idxScan_nonneg f l _ 0 a (by omega) ha
              have hn' := idxScan_nonneg f l _ 0 a' (by omega) ha'
              have hA := (l.getD cs.length 0).toNat_lt
              have hdig : (b.toNat : Int) - (f.getD cs.length 0).toNat
                  < ((l.getD cs.length 0).toNat : Int) - (f.getD cs.length 0).toNat + 1 := by omega
              have hdig' : (b'.toNat : Int) - (f.getD cs.length 0).toNat
                  < ((l.getD cs.length 0).toNat : Int) - (f.getD cs.length 0).toNat + 1 := by omega
              have hspan : 0 < ((l.getD cs.length 0).toNat : Int) - (f.getD cs.length 0).toNat + 1 := by omega
              generalize ((l.getD cs.length 0).toNat : Int) - (f.getD cs.length 0).toNat + 1 = span at *
              -- Euclid: a*span + d = a'*span + d' with 0 ≤ d, d' < span
              have key : a = a' ∧ (b.toNat : Int) = b'.toNat := by
                have e : a * span + ((b.toNat : Int) - (f.getD cs.length 0).toNat)
                    = a' * span + ((b'.toNat : Int) - (f.getD cs.length 0).toNat) := by omega
                have hd : a = a' := by
                  rcases Int.lt_trichotomy a a' with hlt | heq | hgt
                  · have : (a + 1) * span ≤ a' * span := Int.mul_le_mul_of_nonneg_right (by omega) (by omega)
                    rw [Int.add_mul] at this; omega
                  · exact heq
                  · have : (a' + 1) * span ≤ a * span := Int.mul_le_mul_of_nonneg_right (by omega) (by omega)
                    rw [Int.add_mul] at this; omega
                subst hd
                exact ⟨rfl, by omega⟩
              have hb : b = b' := UInt8.toNat_inj.mp (by omega)
              rw [ih cs cs' hl a ha (by rw [key.1]; exact ha') (by omega), hb]

/-- a larger accumulator stays larger: the digits appended afterwards cannot make up for it -/
theorem idxScan_mono_acc (f l : List UInt8) (ps ps' : List (UInt8 × Nat))
    (hpos : ps.map Prod.snd = ps'.map Prod.snd) (a a' v v' : Int) (h0 : 0 ≤ a) (hlt : a < a')
    (h : idxScan f l ps a = some v) (h' : idxScan f l ps' a' = some v') : v < v' := by
  induction ps generalizing ps' a a' with
  | nil =>
    cases ps' with
    | nil => simp [idxScan] at h h'; omega
    | cons _ _ => simp at hpos
  | cons p ps ih =>
    cases ps' with
    | nil => simp at hpos
    | cons p' ps' =>
      obtain ⟨b, k⟩ := p
      obtain ⟨b', k'⟩ := p'
      simp only [List.map_cons, List.cons.injEq] at hpos
      obtain ⟨hk, hrest⟩ := hpos
      subst hk
      unfold idxScan at h h'
      cases hs : idxStep f l b k a with
      | none => simp [hs] at h
      | some w =>
        cases hs' : idxStep f l b' k a' with
        | none => simp [hs'] at h'
        | some w' =>
          rw [hs] at h; rw [hs'] at h'
          simp only [Option.bind_some] at h h'
          obtain ⟨d1, d2, d3⟩ := idxStep_some hs
          obtain ⟨d1', d2', d3'⟩ := idxStep_some hs'
          have hw0 := (idxStep_bounds hs h0).1
          have hdig : (b.toNat : Int) - (f.getD k 0).toNat < ((l.getD k 0).toNat : Int) - (f.getD k 0).toNat + 1 := by omega
          have hdig' : (0 : Int) ≤ (b'.toNat : Int) - (f.getD k 0).toNat := by omega
          have hspan : (0 : Int) < ((l.getD k 0).toNat : Int) - (f.getD k 0).toNat + 1 := by omega
          generalize ((l.getD k 0).toNat : Int) - (f.getD k 0).toNat + 1 = span at *
          have hmul : (a + 1) * span ≤ a' * span := Int.mul_le_mul_of_nonneg_right (by omega) (by omega)
          rw [Int.add_mul] at hmul
          exact ih ps' hrest w w' hw0 (by omega) h h'

/-- **lexicographic order = index order**: if two codes of a range agree on a prefix and then
`x < y`, the index of the first is smaller (whatever follows).  With `rangeIndex_injective` and
`idxScan_first` this makes `rangeIndex` the position of a code in the lexicographic enumeration of
the range's codes. -/
theorem idxScan_lex (f l p t t' : List UInt8) (x y : UInt8) (hxy : x < y) (ht : t.length = t'.length) (v v' : Int)
    (h : idxScan f l (p ++ x :: t).zipIdx 0 = some v) (h' : idxScan f l (p ++ y :: t').zipIdx 0 = some v') :
    v < v' := by
  rw [List.zipIdx_append, idxScan_append] at h h'
  cases hp : idxScan f l p.zipIdx 0 with
  | none => simp [hp] at h
  | some A =>
    simp only [hp, Option.bind_some, List.zipIdx_cons, Nat.zero_add] at h h'
    unfold idxScan at h h'
    have hA := idxScan_nonneg f l _ 0 A (by omega) hp
    cases hs : idxStep f l x p.length A with
    | none => simp [hs] at h
    | some w =>
      cases hs' : idxStep f l y p.length A with
      | none => simp [hs'] at h'
      | some w' =>
        rw [hs] at h; rw [hs'] at h'
        simp only [Option.bind_some] at h h'
        obtain ⟨d1, d2, d3⟩ := idxStep_some hs
        obtain ⟨d1', d2', d3'⟩ := idxStep_some hs'
        have hxy' : x.toNat < y.toNat := UInt8.lt_iff_toNat_lt.mp hxy
        have hw0 := (idxStep_bounds hs hA).1
        refine idxScan_mono_acc f l _ _ ?_ w w' v v' hw0 (by omega) h h'
        -- the positions of the two tails coincide
        have : ∀ (n : Nat) (u u' : List UInt8), u.length = u'.length →
            (u.zipIdx n).map Prod.snd = (u'.zipIdx n).map Prod.snd := by
          intro n u
          induction u generalizing n with
          | nil => intro u' hu; cases u' with | nil => rfl | cons _ _ => simp at hu
          | cons a as ih =>
            intro u' hu
            cases u' with
            | nil => simp at hu
            | cons a' as' =>
              simp only [List.zipIdx_cons, List.map_cons, List.cons.injEq, true_and]
              exact ih (n + 1) as' (by simpa using hu)
        exact this _ t t' ht

/-- the first code of a valid range has index 0 -/
theorem idxScan_first (f l : List UInt8) (hv : CmapRangeValid f l) :
    idxScan f l f.zipIdx 0 = some 0 := by
  have key : ∀ (n : Nat) (u : List UInt8), (∀ k, k < u.length → f.getD (n + k) 0 = u.getD k 0) →
      n + u.length ≤ f.length → idxScan f l (u.zipIdx n) 0 = some 0 := by
    intro n u
    induction u generalizing n with
    | nil => intro _ _; rfl
    | cons a as ih =>
      intro hu hlen
      simp only [List.zipIdx_cons, idxScan]
      have ha : f.getD n 0 = a := by simpa using hu 0 (by simp)
      have hle := hv.2.2 n (by simp at hlen; omega)
      have hstep : idxStep f l a n 0 = some 0 := by
        unfold idxStep
        rw [ha] at hle ⊢
        have h1 : ¬ (a < a) := UInt8.lt_irrefl a
        have h2 : ¬ (a > l.getD n 0) := UInt8.not_lt.mpr hle
        generalize l.getD n 0 = hi at *
        have h3 : ¬ (a < a ∨ a > hi) := fun h => h.elim h1 h2
        simp only [h3, if_false]
        have : ¬ ((0 : Int) * (↑hi.toNat - ↑a.toNat + 1) + (↑a.toNat - ↑a.toNat) > 2147483647) := by omega
        simp only [this, if_false]
        congr 1
        omega
      rw [hstep]
      simp only [Option.bind_some]
      apply ih (n + 1)
      · intro k hk
        have := hu (k + 1) (by simp; omega)
        simpa [Nat.add_assoc, Nat.add_comm 1 k] using this
      · simp at hlen; omega
  have := key 0 f (by intro k _; simp) (by omega)
  simpa using this

/-- injectivity at the level of the generated function -/
theorem rangeIndex_injective (f l c c' : List UInt8) (v : Int)
    (h : cmap_rangeIndex f l c = some (v, true)) (h' : cmap_rangeIndex f l c' = some (v, true)) : c = c' := by
  rw [rangeIndex_eq] at h h'
  have ex : ∀ x : List UInt8, some (if f.length = x.length ∧ l.length = x.length then
        match idxScan f l x.zipIdx 0 with | none => ((0 : Int), false) | some v => (v, true)
      else (0, false)) = some (v, true) → f.length = x.length ∧ idxScan f l x.zipIdx 0 = some v := by
    intro x hx
    by_cases hlen : f.length = x.length ∧ l.length = x.length
    · simp only [hlen, and_self, if_true, Option.some.injEq] at hx
      cases hs : idxScan f l x.zipIdx 0 with
      | none => simp [hs] at hx
      | some w => simp [hs] at hx; exact ⟨hlen.1, by rw [hx]⟩
    · simp [hlen] at hx
  obtain ⟨l1, s1⟩ := ex c h
  obtain ⟨l2, s2⟩ := ex c' h'
  exact idxScan_injective f l c c' (by omega) v s1 s2

example : cmap_rangeIndex [0, 0] [0xff, 0xff] [1, 2] = some (258, true) := by decide +kernel
example : cmap_rangeIndex [0x20, 0x30] [0x7f, 0x39] [0x21, 0x35] = some (15, true) := by decide +kernel
example : cmap_rangeIndex [0x20] [0x7f] [0x80] = some (0, false) := by decide +kernel
/-- a four-byte range wider than 2³¹ codes: the index guard answers "not in range" -/
example : cmap_rangeIndex [0, 0, 0, 0] [0xff, 0xff, 0xff, 0xff] [0x80, 0, 0, 0] = some (0, false) := by decide +kernel

end PdfVerif.C13tr

import PdfVerif.Props.C09sec
/-!
# C09 (continued) — the stream reader `decryptReader` as a byte machine

`Model/SECSecurity.lean: DecR` mirrors `decryptReader.Read` (32-byte buffer, `reserved`, `ready`,
the refill loop, the block held back until the end of the source is seen, PKCS#7 removal on the
last batch); `Src` is an adversarial model of the underlying `io.Reader` (per-call limits incl.
zero-length reads; `io.EOF` with or after the last bytes).  Proved here: for *every* such reader
and every sequence of caller buffer sizes, reading to the end returns the plaintext
(`decrypt_stream_chunking`, `encrypt_decrypt_stream`), and the model's fuel bounds are never hit.
Hypotheses: `PrimsOK` and that an AES block decryption yields 16 bytes.
-/
namespace PdfVerif.C09secb
open PdfVerif PdfVerif.SEC C09sec

/-! ## the underlying reader -/

theorem src_read_spec (s : Src) (room : Nat) :
    ∃ n, n ≤ room ∧ n ≤ s.rest.length ∧
      (s.read room).1 = s.rest.take n ∧ (s.read room).2.2.rest = s.rest.drop n ∧
      (s.read room).2.2.sizes = s.sizes.drop 1 ∧
      ((s.read room).2.1 = true → n = s.rest.length) ∧
      (s.sizes = [] → 0 < room → s.rest ≠ [] → 0 < n) ∧
      (s.sizes = [] → s.rest = [] → (s.read room).2.1 = true) := by
  unfold Src.read
  cases hs : s.sizes with
  | nil =>
    refine ⟨min room s.rest.length, by omega, by omega, rfl, rfl, by simp, ?_, ?_, ?_⟩
    · simp only
      intro h
      split at h
      · rename_i he
        simp only [List.isEmpty_iff, List.drop_eq_nil_iff] at he
        omega
      · simp at h
    · intro _ hr hne
      have : 0 < s.rest.length := List.length_pos_iff.mpr hne
      omega
    · intro _ hr
      simp [hr]
  | cons z zs =>
    refine ⟨min (min z room) s.rest.length, by omega, by omega, rfl, rfl, by simp, ?_, ?_, ?_⟩
    · simp only
      intro h
      split at h
      · rename_i he
        simp only [List.isEmpty_iff, List.drop_eq_nil_iff] at he
        omega
      · simp at h
    · intro h; simp at h
    · intro h; simp at h

/-! ## the fill loop -/

theorem fill_none (fuel : Nat) (buf : Bytes) : DecR.fill fuel buf none = .ok (buf, none) := by
  cases fuel <;> simp [DecR.fill]

/-- the fill loop reads on until it has more than 16 bytes or the source has ended; with a source
whose remaining length makes the total a multiple of 16 it cannot fail, and the model's fuel is
enough -/
theorem fill_spec : ∀ (fuel : Nat) (buf : Bytes) (s : Src), 1 ≤ fuel →
    (buf.length ≤ 16 → s.sizes.length + 18 ≤ fuel + buf.length) → buf.length ≤ 32 →
    (buf.length + s.rest.length) % 16 = 0 →
    ∃ t, t ≤ s.rest.length ∧ buf.length + t ≤ 32 ∧
      ((DecR.fill fuel buf (some s) = .ok (buf ++ s.rest.take t, none) ∧ t = s.rest.length) ∨
       (∃ s', DecR.fill fuel buf (some s) = .ok (buf ++ s.rest.take t, some s') ∧
          s'.rest = s.rest.drop t ∧ 16 < buf.length + t)) := by
  intro fuel
  induction fuel with
  | zero => intro buf s h; omega
  | succ f ih =>
    intro buf s _ hfuel h32 hmod
    by_cases hle : buf.length ≤ 16
    · obtain ⟨n, hn1, hn2, hd, hr, hsz, heof, hprog, hend⟩ := src_read_spec s (32 - buf.length)
      simp only [DecR.fill, hle, ↓reduceIte]
      by_cases he : (s.read (32 - buf.length)).2.1 = true
      · -- end of the source: everything has been read
        have hn : n = s.rest.length := heof he
        have hl : ¬ ((buf ++ (s.read (32 - buf.length)).1).length % 16 != 0) = true := by
          rw [hd, hn]; simp; omega
        simp only [he, ↓reduceIte, hl, Bool.false_eq_true, fill_none]
        refine ⟨n, hn2, by omega, Or.inl ⟨by rw [hd], hn⟩⟩
      · simp only [he, Bool.false_eq_true, ↓reduceIte]
        have hf1 : 1 ≤ f := by have := hfuel hle; omega
        have hpre : (buf ++ (s.read (32 - buf.length)).1).length ≤ 16 →
            (s.read (32 - buf.length)).2.2.sizes.length + 18 ≤ f + (buf ++ (s.read (32 - buf.length)).1).length := by
          intro _
          have := hfuel hle
          rw [hsz, hd]
          simp only [List.length_drop, List.length_append, List.length_take]
          by_cases hs : s.sizes = []
          · have hne : s.rest ≠ [] := by
              intro hr0
              exact he (hend hs hr0)
            have := hprog hs (by omega) hne
            simp [hs] at *
            omega
          · have : 0 < s.sizes.length := List.length_pos_iff.mpr hs
            omega
        obtain ⟨t, ht1, ht2, hcase⟩ := ih (buf ++ (s.read (32 - buf.length)).1) (s.read (32 - buf.length)).2.2
          hf1 hpre (by rw [hd]; simp; omega) (by rw [hd, hr]; simp; omega)
        rw [hr] at ht1 hcase
        rw [hd] at ht2 hcase
        simp only [List.length_drop, List.length_append, List.length_take] at ht1 ht2 hcase
        have hn' : min n s.rest.length = n := by omega
        rw [hn'] at ht2 hcase
        have hcat : buf ++ s.rest.take n ++ (s.rest.drop n).take t = buf ++ s.rest.take (n + t) := by
          rw [List.append_assoc, ← List.take_add]
        refine ⟨n + t, by omega, by omega, ?_⟩
        rcases hcase with ⟨h1, h2⟩ | ⟨s', h1, h2, h3⟩
        · left
          rw [hd, h1, hcat]
          exact ⟨rfl, by omega⟩
        · right
          refine ⟨s', ?_, ?_, by omega⟩
          · rw [hd, h1, hcat]
          · rw [h2, List.drop_drop]
    · refine ⟨0, by omega, by omega, Or.inr ⟨s, ?_, by simp, by omega⟩⟩
      simp [DecR.fill, hle]



theorem cbcDecBlocks_append {P : Prims} (k : Bytes) :
    ∀ (m n : Nat) (iv a b : Bytes), a.length = 16 * m →
      cbcDecBlocks P k (m + n) iv (a ++ b) =
        ((cbcDecBlocks P k m iv a).1 ++ (cbcDecBlocks P k n (cbcDecBlocks P k m iv a).2 b).1,
         (cbcDecBlocks P k n (cbcDecBlocks P k m iv a).2 b).2) := by
  intro m
  induction m with
  | zero => intro n iv a b ha; simp at ha; simp [ha, cbcDecBlocks]
  | succ m ih =>
    intro n iv a b ha
    have h16 : 16 ≤ a.length := by omega
    have e : m + 1 + n = (m + n) + 1 := by omega
    rw [e]
    simp only [cbcDecBlocks]
    rw [List.take_append_of_le_length h16, List.drop_append_of_le_length h16,
      ih n _ (a.drop 16) b (by simp; omega)]
    simp

theorem cbcDecBlocks_length {P : Prims} (hdec : ∀ k b, (P.aesDec k b).length = 16) (k : Bytes) :
    ∀ (n : Nat) (iv d : Bytes), iv.length = 16 → 16 * n ≤ d.length →
      (cbcDecBlocks P k n iv d).1.length = 16 * n ∧ (n = 0 ∨ (cbcDecBlocks P k n iv d).2.length = 16) := by
  intro n
  induction n with
  | zero => intro iv d _ _; simp [cbcDecBlocks]
  | succ n ih =>
    intro iv d hiv hd
    have ht : (d.take 16).length = 16 := by simp; omega
    obtain ⟨h1, h2⟩ := ih (d.take 16) (d.drop 16) ht (by simp; omega)
    simp only [cbcDecBlocks, List.length_append, xorBytes_length, hdec, hiv, h1]
    refine ⟨by omega, Or.inr ?_⟩
    rcases h2 with h | h
    · subst h; simpa [cbcDecBlocks] using ht
    · exact h

/-- the padding is looked for in the last block only -/
theorem unpad_append (a b : Bytes) (ha : a.length % 16 = 0) (hb : 16 ≤ b.length) (hb' : b.length % 16 = 0) :
    unpadPKCS7 (a ++ b) = match unpadPKCS7 b with | .ok u => .ok (a ++ u) | .error e => .error e := by
  have hne : b ≠ [] := by intro h; simp [h] at hb
  have hlast : (a ++ b).getLast? = b.getLast? := by
    rw [List.getLast?_append]
    cases h : b.getLast? with
    | none => simp [List.getLast?_eq_none_iff] at h; exact absurd h hne
    | some x => simp
  have hgood : ∀ p, padGood (a ++ b) p = padGood b p := by
    intro p
    unfold padGood
    congr 1
    rw [List.all_eq, List.all_eq]
    congr 1
    apply propext
    constructor
    · intro h i hi
      have := h i hi
      simp only [List.mem_range] at hi
      rwa [List.reverse_append, List.getElem?_append_left (by simp; omega)] at this
    · intro h i hi
      have := h i hi
      simp only [List.mem_range] at hi
      rwa [List.reverse_append, List.getElem?_append_left (by simp; omega)]
  unfold unpadPKCS7
  have h1 : ¬ ((a ++ b).length < 16) := by simp; omega
  have h2 : (a ++ b).length % 16 = 0 := by simp; omega
  have h3 : ¬ (b.length < 16) := by omega
  simp only [h1, h2, h3, hb', decide_false, Bool.false_or, bne_self_eq_false, Bool.false_eq_true, ↓reduceIte, hlast]
  cases hl : b.getLast? with
  | none => rfl
  | some p =>
    simp only [hgood]
    by_cases hg : padGood b p = true
    · simp only [hg, ↓reduceIte, Except.ok.injEq]
      have hp : p ≤ 16 := by
        unfold padGood at hg
        simp only [Bool.and_eq_true, decide_eq_true_eq] at hg
        exact hg.1.1
      rw [List.length_append, List.take_append]
      have : a.length + b.length - p - a.length = b.length - p := by omega
      rw [this, List.take_of_length_le (by omega)]
    · simp [hg]



/-! ## one `Read` of the `decryptReader` -/

/-- the cipher text the reader has not decrypted yet -/
def remaining (r : DecR) : Bytes :=
  match r.src with
  | none => r.reserved
  | some s => r.reserved ++ s.rest

/-- invariant of the reader between `Read` calls -/
def Valid (r : DecR) : Prop :=
  r.iv.length = 16 ∧
  match r.src with
  | none => r.reserved = []
  | some s => (r.reserved.length + s.rest.length) % 16 = 0 ∧ r.reserved.length ≤ 16 ∧
      16 ≤ r.reserved.length + s.rest.length

/-- what the reader is still going to deliver: the decrypted bytes it holds and the unpadded CBC
decryption of everything it has not decrypted yet -/
def denote (P : Prims) (r : DecR) : Except Err Bytes :=
  match r.src with
  | none => .ok r.ready
  | some s =>
    match unpadPKCS7 (cbcDecBlocks P r.key ((r.reserved ++ s.rest).length / 16) r.iv (r.reserved ++ s.rest)).1 with
    | .ok un => .ok (r.ready ++ un)
    | .error e => .error e

def measure (r : DecR) (x : Bytes) : Nat := x.length + (if r.src.isSome then 1 else 0)

theorem read_step {P : Prims} (hdec : ∀ k b, (P.aesDec k b).length = 16) (r : DecR) (x : Bytes)
    (want : Nat) (hv : Valid r) (hd : denote P r = .ok x) (hw : 0 < want) :
    ∃ out eof r', r.read P want = .ok (out, eof, r') ∧
      (eof = true → x = [] ∧ out = []) ∧
      (eof = false → Valid r' ∧ ∃ x', denote P r' = .ok x' ∧ x = out ++ x' ∧ measure r' x' < measure r x) ∧
      (eof = false → out ≠ []) := by
  obtain ⟨hiv, hv⟩ := hv
  by_cases hready : r.ready.isEmpty = true
  · have hr0 : r.ready = [] := by simpa using hready
    cases hsrc : r.src with
    | none =>
      -- everything was delivered
      simp only [hsrc] at hv
      simp only [denote, hsrc, hr0, Except.ok.injEq] at hd
      refine ⟨[], true, { r with reserved := [], src := none }, ?_, fun _ => ⟨hd.symm, rfl⟩, by simp, by simp⟩
      unfold DecR.read
      simp [hready, hsrc, hv, fill_none]
    | some s =>
      simp only [hsrc] at hv
      obtain ⟨hmod, hres, h16⟩ := hv
      obtain ⟨t, ht1, ht2, hcase⟩ := fill_spec (s.sizes.length + 40) r.reserved s (by omega) (by omega) (by omega) hmod
      rcases hcase with ⟨hfill, htall⟩ | ⟨s', hfill, hrest', hgt⟩
      · -- the source ended: all that is left is decrypted and unpadded
        subst htall
        have htake : s.rest.take s.rest.length = s.rest := List.take_length
        rw [htake] at hfill
        simp only [denote, hsrc, hr0, List.nil_append, List.length_append] at hd
        cases hun : unpadPKCS7 (cbcDecBlocks P r.key ((r.reserved.length + s.rest.length) / 16) r.iv (r.reserved ++ s.rest)).1 with
        | error e => simp [hun] at hd
        | ok un =>
          simp only [hun, Except.ok.injEq] at hd
          subst hd
          have hk : r.reserved.length + s.rest.length - (r.reserved.length + s.rest.length) % 16 =
              r.reserved.length + s.rest.length := by omega
          have hlt : ¬ (r.reserved.length + s.rest.length < 16) := by omega
          have htk : (r.reserved ++ s.rest).take (r.reserved.length + s.rest.length) = r.reserved ++ s.rest :=
            List.take_of_length_le (by simp)
          have hdr : (r.reserved ++ s.rest).drop (r.reserved.length + s.rest.length) = [] :=
            List.drop_of_length_le (by simp)
          by_cases hempty : un.isEmpty = true
          · -- only padding was left: end of data at once, not a read of nothing
            have hun0 : un = [] := by simpa using hempty
            refine ⟨[], true,
              { r with iv := (cbcDecBlocks P r.key ((r.reserved.length + s.rest.length) / 16) r.iv (r.reserved ++ s.rest)).2,
                       reserved := [], ready := [], src := none }, ?_, fun _ => ⟨hun0, rfl⟩, by simp, by simp⟩
            unfold DecR.read
            simp only [hready, ↓reduceIte, hsrc, hfill, List.length_append, hlt, Option.isSome_none,
              Bool.false_eq_true, Option.isNone_none, hk, htk, hdr, hun, hempty]
          refine ⟨un.take want, false,
            { r with iv := (cbcDecBlocks P r.key ((r.reserved.length + s.rest.length) / 16) r.iv (r.reserved ++ s.rest)).2,
                     reserved := [], ready := un.drop want, src := none }, ?_, by simp, fun _ => ?_, fun _ => ?_⟩
          · unfold DecR.read
            simp only [hready, ↓reduceIte, hsrc, hfill, List.length_append, hlt, Option.isSome_none,
              Bool.false_eq_true, Option.isNone_none, hk, htk, hdr, hun, hempty]
          · have hl := cbcDecBlocks_length hdec r.key ((r.reserved.length + s.rest.length) / 16) r.iv
              (r.reserved ++ s.rest) hiv (by simp; omega)
            refine ⟨⟨?_, rfl⟩, un.drop want, rfl, (List.take_append_drop want un).symm, ?_⟩
            · rcases hl.2 with h0 | h
              · omega
              · exact h
            · simp only [measure, hsrc, Option.isSome_some, ↓reduceIte, Option.isSome_none, Bool.false_eq_true,
                List.length_drop]
              omega
          · intro h0
            have hne : un ≠ [] := by simpa using hempty
            have := congrArg List.length h0
            have hpos : 0 < un.length := List.length_pos_iff.mpr hne
            rw [List.length_take, List.length_nil] at this
            omega
      · -- the source goes on: one block is decrypted, the rest stays reserved
        obtain ⟨buf, hbuf⟩ : ∃ b, b = r.reserved ++ s.rest.take t := ⟨_, rfl⟩
        rw [← hbuf] at hfill
        have hbl : buf.length = r.reserved.length + t := by simp [hbuf]; omega
        have hR : r.reserved ++ s.rest = buf.take 16 ++ (buf.drop 16 ++ s.rest.drop t) := by
          rw [← List.append_assoc, List.take_append_drop]
          simp [hbuf]
        obtain ⟨B, hB⟩ : ∃ b, b = buf.drop 16 ++ s.rest.drop t := ⟨_, rfl⟩
        rw [← hB] at hR
        have hBl : B.length = r.reserved.length + s.rest.length - 16 := by simp [hB, hbl]; omega
        have hA : (buf.take 16).length = 16 := by simp [hbl]; omega
        obtain ⟨d, hdd⟩ : ∃ d, d = cbcDecBlocks P r.key 1 r.iv (buf.take 16) := ⟨_, rfl⟩
        have hd1 := cbcDecBlocks_length hdec r.key 1 r.iv (buf.take 16) hiv (by omega)
        rw [← hdd] at hd1
        have hdl : d.1.length = 16 := by simpa using hd1.1
        have hdiv : d.2.length = 16 := by rcases hd1.2 with h | h; omega; exact h
        have hn : (r.reserved.length + s.rest.length) / 16 = 1 + B.length / 16 := by omega
        simp only [denote, hsrc, hr0, List.nil_append, List.length_append] at hd
        rw [hn, hR, cbcDecBlocks_append r.key 1 (B.length / 16) r.iv _ _ (by omega), ← hdd] at hd
        have ho2 := cbcDecBlocks_length hdec r.key (B.length / 16) d.2 B hdiv (by omega)
        rw [unpad_append _ _ (by rw [hdl]) (by rw [ho2.1]; omega) (by rw [ho2.1]; omega)] at hd
        cases hun : unpadPKCS7 (cbcDecBlocks P r.key (B.length / 16) d.2 B).1 with
        | error e => simp [hun] at hd
        | ok un' =>
          simp only [hun, Except.ok.injEq] at hd
          subst hd
          refine ⟨d.1.take want, false,
            { r with iv := d.2, reserved := buf.drop 16, ready := d.1.drop want, src := some s' }, ?_, by simp,
            fun _ => ?_, fun _ h0 => by
              have := congrArg List.length h0
              rw [List.length_take, List.length_nil, hdl] at this
              omega⟩
          · unfold DecR.read
            have hlt : ¬ (buf.length < 16) := by omega
            have hl16 : buf.length - 1 - (buf.length - 1) % 16 = 16 := by omega
            simp only [hready, ↓reduceIte, hsrc, hfill, hlt, Option.isSome_some, Option.isNone_some,
              Bool.false_eq_true, hl16, ← hdd]
          · refine ⟨⟨hdiv, ?_⟩, d.1.drop want ++ un', ?_, ?_, ?_⟩
            · simp only [hrest']
              have : (buf.drop 16).length = r.reserved.length + t - 16 := by simp [hbl]
              refine ⟨by rw [this, List.length_drop]; omega, by omega, by rw [this, List.length_drop]; omega⟩
            · simp only [denote, hrest', ← hB, hun]
            · rw [← List.append_assoc, List.take_append_drop]
            · simp only [measure, hsrc, Option.isSome_some, ↓reduceIte, List.length_append, List.length_drop, hdl]
              omega
  · -- bytes from the last refill are still there
    have hne : r.ready ≠ [] := by simpa using hready
    have hpos : 0 < r.ready.length := List.length_pos_iff.mpr hne
    refine ⟨r.ready.take want, false, { r with ready := r.ready.drop want }, ?_, by simp, fun _ => ?_,
      fun _ h0 => by
        have := congrArg List.length h0
        rw [List.length_take, List.length_nil] at this
        omega⟩
    · unfold DecR.read
      simp [hready]
    · refine ⟨⟨hiv, hv⟩, ?_⟩
      unfold denote at hd ⊢
      cases hsrc : r.src with
      | none =>
        simp only [hsrc, Except.ok.injEq] at hd ⊢
        subst hd
        refine ⟨r.ready.drop want, rfl, (List.take_append_drop want r.ready).symm, ?_⟩
        simp only [measure, hsrc, Option.isSome_none, Bool.false_eq_true, ↓reduceIte, List.length_drop]
        omega
      | some s =>
        simp only [hsrc, List.length_append] at hd ⊢
        cases hun : unpadPKCS7 (cbcDecBlocks P r.key ((r.reserved.length + s.rest.length) / 16) r.iv (r.reserved ++ s.rest)).1 with
        | error e => simp [hun] at hd
        | ok un =>
          simp only [hun, Except.ok.injEq] at hd ⊢
          subst hd
          refine ⟨r.ready.drop want ++ un, rfl, by rw [← List.append_assoc, List.take_append_drop], ?_⟩
          simp only [measure, hsrc, Option.isSome_some, ↓reduceIte, List.length_append, List.length_drop]
          omega



/-- **read_progress.**  A `Read` of the `decryptReader` with a non-empty buffer never returns
"0 bytes, no error": it delivers at least one byte or reports the end of the data (the
`io.Reader` contract consumers such as the XMP parser insist on; a plaintext whose length is a
multiple of 16 ends with a block of padding only, which is where an empty read used to occur). -/
theorem read_progress {P : Prims} (hdec : ∀ k b, (P.aesDec k b).length = 16) (r : DecR) (x : Bytes)
    (want : Nat) (hv : Valid r) (hd : denote P r = .ok x) (hw : 0 < want)
    (out : Bytes) (r' : DecR) (h : r.read P want = .ok (out, false, r')) : out ≠ [] := by
  obtain ⟨out', eof', r'', hread, _, _, hp⟩ := read_step hdec r x want hv hd hw
  rw [h] at hread
  simp only [Except.ok.injEq, Prod.mk.injEq] at hread
  obtain ⟨h1, h2, _⟩ := hread
  subst h1 h2
  exact hp rfl

/-! ## reading to the end -/

theorem readAll_unfold (P : Prims) (f : Nat) (r : DecR) (wants : List Nat) (dflt : Nat) :
    DecR.readAll P (f + 1) r wants dflt =
      match r.read P (wants.headD dflt) with
      | .error e => .error e
      | .ok (out, eof, r') =>
        if eof then .ok out
        else match DecR.readAll P f r' (wants.drop 1) dflt with
          | .error e => .error e
          | .ok more => .ok (out ++ more) := by
  cases wants <;> rfl

theorem readAll_spec {P : Prims} (hdec : ∀ k b, (P.aesDec k b).length = 16) :
    ∀ (fuel : Nat) (r : DecR) (wants : List Nat) (dflt : Nat) (x : Bytes),
      Valid r → denote P r = .ok x → (∀ w ∈ wants, 0 < w) → 0 < dflt → measure r x < fuel →
      DecR.readAll P fuel r wants dflt = .ok x := by
  intro fuel
  induction fuel with
  | zero => intro r wants dflt x _ _ _ _ h; omega
  | succ f ih =>
    intro r wants dflt x hv hd hw hdf hm
    have hwant : 0 < wants.headD dflt := by
      cases wants with
      | nil => exact hdf
      | cons w ws => exact hw w (by simp)
    obtain ⟨out, eof, r', hread, heof, hgo, _⟩ := read_step hdec r x _ hv hd hwant
    rw [readAll_unfold, hread]
    cases eof with
    | true =>
      obtain ⟨hx, ho⟩ := heof rfl
      simp only [↓reduceIte, hx, ho]
    | false =>
      obtain ⟨hv', x', hd', hx, hm'⟩ := hgo rfl
      have := ih r' (wants.drop 1) dflt x' hv' hd'
        (by intro w hw'; exact hw w (List.mem_of_mem_drop hw')) hdf (by omega)
      simp only [Bool.false_eq_true, ↓reduceIte, this, hx]

/-- `io.ReadFull` for the IV: with at least 16 bytes in the source it returns the first 16 -/
theorem readFull_spec : ∀ (fuel : Nat) (acc : Bytes) (s : Src),
    acc.length ≤ 16 → 16 ≤ acc.length + s.rest.length → s.sizes.length + (17 - acc.length) < fuel →
    ∃ s', Src.readFull fuel acc 16 s = .ok (acc ++ s.rest.take (16 - acc.length), s') ∧
      s'.rest = s.rest.drop (16 - acc.length) := by
  intro fuel
  induction fuel with
  | zero => intro acc s _ _ h; omega
  | succ f ih =>
    intro acc s hacc htot hf
    by_cases hfull : acc.length ≥ 16
    · have : acc.length = 16 := by omega
      refine ⟨s, ?_, by simp [this]⟩
      simp [Src.readFull, hfull, this]
    · obtain ⟨n, hn1, hn2, hd, hr, hsz, heof, hprog, hend⟩ := src_read_spec s (16 - acc.length)
      simp only [Src.readFull, hfull, ↓reduceIte]
      by_cases hdone : (acc ++ (s.read (16 - acc.length)).1).length ≥ 16
      · simp only [hdone, ↓reduceIte]
        have hn : n = 16 - acc.length := by rw [hd] at hdone; simp at hdone; omega
        refine ⟨_, by rw [hd, hn], by rw [hr, hn]⟩
      · simp only [hdone, ↓reduceIte]
        have hnlt : acc.length + n < 16 := by rw [hd] at hdone; simp at hdone; omega
        have hne : ¬ (s.read (16 - acc.length)).2.1 = true := by
          intro he
          have := heof he
          omega
        simp only [hne, Bool.false_eq_true, ↓reduceIte]
        have hmin : min n s.rest.length = n := by omega
        obtain ⟨s', h1, h2⟩ := ih (acc ++ (s.read (16 - acc.length)).1) (s.read (16 - acc.length)).2.2
          (by rw [hd]; simp; omega) (by rw [hd, hr]; simp; omega)
          (by
            rw [hsz, hd]
            simp only [List.length_drop, List.length_append, List.length_take, hmin]
            by_cases hs : s.sizes = []
            · have hne' : s.rest ≠ [] := by
                intro h0; simp [h0] at htot; omega
              have := hprog hs (by omega) hne'
              simp [hs] at hf ⊢
              omega
            · have : 0 < s.sizes.length := List.length_pos_iff.mpr hs
              omega)
        refine ⟨s', ?_, ?_⟩
        · rw [h1, hd, hr]
          simp only [List.length_append, List.length_take, hmin, List.append_assoc]
          congr 1
          have e : 16 - acc.length = n + (16 - (acc.length + n)) := by omega
          rw [e, List.take_add]
        · rw [h2, hd, hr, List.drop_drop]
          simp only [List.length_append, List.length_take, hmin]
          congr 1
          omega



/-! ## the headline -/

/-- **decrypt_stream_chunking (AES).**  Whatever pieces the underlying reader delivers the stored
bytes in (any sequence of per-call limits, zero-length reads included, end-of-file reported with
or after the last bytes) and whatever buffer sizes the caller reads with, `DecryptStream` read to
the end returns exactly the plaintext whose `EncryptBytes`/`EncryptStream` form was stored. -/
theorem decrypt_stream_chunking {P : Prims} (ok : PrimsOK P) (hdec : ∀ k b, (P.aesDec k b).length = 16)
    (enc : EncInfo) (l num gen : Nat) (key iv data : Bytes) (src : Src) (wants : List Nat)
    (hf : enc.stmF = some ⟨.aes, l⟩) (hk : keyForRef P enc.sec ⟨.aes, l⟩ num gen = .ok key)
    (hko : aesKeyOk key = true) (hiv : iv.length = 16)
    (hsrc : src.rest = encryptAES P key iv data) (hw : ∀ w ∈ wants, 0 < w) :
    decryptStream P enc num gen src wants = .ok data := by
  have hC : (cbcEncrypt P key iv (pkcs7Pad data)).length = 16 * (data.length / 16 + 1) := by
    simp [cbcEncrypt, cbcEncBlocks_length ok, pkcs7Pad_length]
  rw [encryptAES_eq] at hsrc
  have hlen : src.rest.length = 16 + 16 * (data.length / 16 + 1) := by rw [hsrc]; simp [hiv, hC]
  obtain ⟨s', hrf, hrest⟩ := readFull_spec (src.sizes.length + 20) [] src (by simp) (by simp; omega) (by simp)
  have h1 : src.rest.take 16 = iv := by rw [hsrc]; exact List.take_left' hiv
  have h2 : src.rest.drop 16 = cbcEncrypt P key iv (pkcs7Pad data) := by rw [hsrc]; exact List.drop_left' hiv
  simp only [List.length_nil, Nat.sub_zero, List.nil_append, h1] at hrf
  simp only [List.length_nil, Nat.sub_zero, h2] at hrest
  unfold decryptStream
  simp only [hf, hk, hrf, hko, Bool.not_true, Bool.false_eq_true, ↓reduceIte]
  apply readAll_spec hdec
  · refine ⟨hiv, ?_⟩
    simp only [hrest, List.length_nil, hC]
    omega
  · simp only [denote, hrest, List.nil_append, hC]
    have e : 16 * (data.length / 16 + 1) / 16 = data.length / 16 + 1 := by omega
    rw [e]
    have := cbc_dec_enc ok key (data.length / 16 + 1) iv (pkcs7Pad data) hiv (pkcs7Pad_length data)
    unfold cbcEncrypt
    rw [pkcs7Pad_length, e, this, pkcs7_rt]
  · exact hw
  · omega
  · simp only [measure, Option.isSome_some, ↓reduceIte, hlen]
    omega

/-- **encrypt_decrypt_stream.**  For every crypt filter (none, RC4, AES), every object, every way
of cutting the data into `Write` calls, every way the stored bytes come back from the underlying
reader and every sequence of caller buffer sizes: what `DecryptStream` returns is what was
written to `EncryptStream`. -/
theorem encrypt_decrypt_stream {P : Prims} (ok : PrimsOK P) (hdec : ∀ k b, (P.aesDec k b).length = 16)
    (enc : EncInfo) (num gen : Nat) (chunks : List Bytes) (rng out rng' : Bytes)
    (sizes : List Nat) (eofWithData : Bool) (wants : List Nat) (hw : ∀ w ∈ wants, 0 < w)
    (h : encryptStream P enc num gen chunks rng = .ok (out, rng')) :
    decryptStream P enc num gen { rest := out, sizes := sizes, eofWithData := eofWithData } wants =
      .ok chunks.flatten := by
  unfold encryptStream at h
  cases hf : enc.stmF with
  | none =>
    simp only [hf, Except.ok.injEq, Prod.mk.injEq] at h
    simp [decryptStream, hf, h.1]
  | some cf =>
    simp only [hf] at h
    cases hk : keyForRef P enc.sec cf num gen with
    | error e => simp [hk] at h
    | ok key =>
      simp only [hk] at h
      obtain ⟨c, l⟩ := cf
      cases c with
      | rc4 =>
        simp only [Except.ok.injEq, Prod.mk.injEq] at h
        simp [decryptStream, hf, hk, ← h.1, rc4_involutive ok]
      | aes =>
        simp only at h
        by_cases hko : aesKeyOk key = true
        · by_cases hl : rng.length < 16
          · simp [hko, hl] at h
          · simp only [hko, Bool.not_true, Bool.false_eq_true, ↓reduceIte, hl, Except.ok.injEq,
              Prod.mk.injEq] at h
            apply decrypt_stream_chunking ok hdec enc l num gen key (rng.take 16) chunks.flatten _ wants hf hk hko
              (by simp; omega) _ hw
            simp only
            rw [← h.1, encrypt_stream_chunking]
        · simp [hko] at h


/-! ## which crypt filter a stream is read with; the /Encrypt entry at `Close` -/

/-- **eff_selection.**  An embedded file stream is decrypted with the `/EFF` crypt filter, every
other stream with `/StmF`; what was encrypted under the filter selected for its kind reads back,
whatever the two filters are (Identity, RC4, AES; equal or different). -/
theorem eff_selection {P : Prims} (ok : PrimsOK P) (hdec : ∀ k b, (P.aesDec k b).length = 16)
    (enc : EncInfo) (embeddedFile : Bool) (num gen : Nat) (chunks : List Bytes) (rng out rng' : Bytes)
    (sizes : List Nat) (eofWithData : Bool) (wants : List Nat) (hw : ∀ w ∈ wants, 0 < w)
    (h : encryptStream P { enc with stmF := if embeddedFile then enc.efF else enc.stmF } num gen chunks rng
          = .ok (out, rng')) :
    decryptStreamFor P enc embeddedFile num gen { rest := out, sizes := sizes, eofWithData := eofWithData } wants =
      .ok chunks.flatten :=
  encrypt_decrypt_stream ok hdec _ num gen chunks rng out rng' sizes eofWithData wants hw h

/-- `Close` writes an `/Encrypt` entry exactly when the file is encrypted, and then the one made
together with the key -/
theorem closeEncryptEntry_spec (d : Option Obj) (tr : List (Bytes × Obj)) :
    ((closeEncryptEntry d tr).filter fun e => e.1 == key "Encrypt").map (·.2) = d.toList := by
  have hrest : ((tr.filter fun e => e.1 != key "Encrypt").filter fun e => e.1 == key "Encrypt") = [] := by
    rw [List.filter_filter]
    apply List.filter_eq_nil_iff.mpr
    intro e _
    simp
  cases d with
  | none => simp [closeEncryptEntry, hrest]
  | some x => simp [closeEncryptEntry, hrest]


/-! ## non-vacuity: a reader that delivers 1, 0, 7, 16, … bytes at a time, EOF after the data -/

example : decryptStream toyPrims toyEnc 7 0
    { rest := (match encryptStream toyPrims toyEnc 7 0 [[1, 2, 3], [], List.range 40] (List.range 16) with
               | .ok (o, _) => o | .error _ => []),
      sizes := [1, 0, 7, 16, 0, 3, 40], eofWithData := false } [5, 1, 17] = .ok ([1, 2, 3] ++ List.range 40) := by
  have : (∀ w ∈ [5, 1, 17], 0 < w) := by decide
  exact encrypt_decrypt_stream toyOK (by intro k b; simp [toyPrims]) toyEnc 7 0 _ (List.range 16) _ _ _ _ _ this
    (by rfl)

end PdfVerif.C09secb

import PdfVerif.Props.C16trsd
/-!
# C16 (sixth part) — the writer's heap operations keep the futureInt invariant

Towards `PageNumbersStatement` for nested ranges: besides `Update` (`cascade`, C16trsd) the
writers touch the heap of futureInts in three ways — a user callback is handed to a futureInt
(`WhenAvailable`), a range is closed and its page count is delivered (`numPagesCb`), and a new
futureInt is derived from an existing one (`Inc`, `NewRange`).  This file proves that the first
two keep `HeapInv` and log exactly the promised value.
-/
namespace PdfVerif.C16trsf
open PdfVerif PdfVerif.TRSP PdfVerif.C16trs PdfVerif.C16trsc PdfVerif.C16trsd
set_option linter.unusedSectionVars false
set_option linter.unusedSimpArgs false

variable {ρ : Rho}

theorem lt_of_getElem? {α : Type} {l : List α} {i : Nat} {a : α} (h : l[i]? = some a) : i < l.length := by
  rcases Nat.lt_or_ge i l.length with h' | h'
  · exact h'
  · rw [List.getElem?_eq_none h'] at h; cases h

theorem set_self {α : Type} {l : List α} {i : Nat} {a : α} (h : l[i]? = some a) : l.set i a = l := by
  apply List.ext_getElem?
  intro j
  by_cases hj : j = i
  · subst hj
    rw [List.getElem?_set_self (lt_of_getElem? h)]; exact h.symm
  · rw [List.getElem?_set_ne (Ne.symm hj)]

/-- replacing a futureInt by one with the same `numMissing` does not change what is known -/
theorem resolved_set_same {futs : List Fut} {g : Nat} {f f' : Fut} (hf : futs[g]? = some f)
    (hnm : f'.numMissing = f.numMissing) (p : Nat) : resolved (futs.set g f') p = resolved futs p := by
  by_cases hp : p = g
  · subst hp
    rw [resolved_set_self (lt_of_getElem? hf)]
    simp [resolved, hf, hnm]
  · exact resolved_set_ne hp

theorem predPend_congr {futs futs' : List Fut} (h : ∀ p, resolved futs' p = resolved futs p)
    (W : Work) (g : Nat) (γ : GFut) : predPend futs' W g γ = predPend futs W g γ := by
  unfold predPend
  cases γ.pred with
  | none => rfl
  | some p => simp [h p]

/-- a user callback is added to the waiters of a futureInt that is not yet known -/
theorem heapInv_add_user {futs : List Fut} {gh : List GFut} {W : Work} {fired : List (Nat × Int)} {ρ : Rho}
    (hinv : HeapInv futs gh W fired ρ) {g : Nat} {f : Fut} (hf : futs[g]? = some f)
    (hnm : f.numMissing ≠ 0) (k : Nat) :
    HeapInv (futs.set g { f with cb := f.cb ++ [.user k] }) gh W fired ρ := by
  have hglt := lt_of_getElem? hf
  have hres : ∀ p, resolved (futs.set g { f with cb := f.cb ++ [.user k] }) p = resolved futs p :=
    resolved_set_same hf rfl
  -- every futureInt of the new heap has a counterpart with at least the same update waiters
  have hget : ∀ (x : Nat) (fx : Fut), (futs.set g { f with cb := f.cb ++ [.user k] })[x]? = some fx →
      ∃ fo : Fut, futs[x]? = some fo ∧ fx.val = fo.val ∧ fx.numMissing = fo.numMissing ∧
        (fx.cb = fo.cb ∨ (x = g ∧ fo = f ∧ fx.cb = fo.cb ++ [.user k])) := by
    intro x fx hx
    by_cases hxg : x = g
    · subst hxg
      rw [List.getElem?_set_self hglt] at hx
      cases hx
      exact ⟨f, hf, rfl, rfl, Or.inr ⟨rfl, rfl, rfl⟩⟩
    · rw [List.getElem?_set_ne (Ne.symm hxg)] at hx
      exact ⟨fx, hx, rfl, rfl, Or.inl rfl⟩
  have hback : ∀ (p : Nat) (fo : Fut), futs[p]? = some fo → ∃ fx : Fut, (futs.set g { f with cb := f.cb ++ [.user k] })[p]? = some fx ∧
      ∀ c, c ∈ fo.cb → c ∈ fx.cb := by
    intro p fo hp
    by_cases hpg : p = g
    · subst hpg
      rw [hf] at hp; cases hp
      exact ⟨_, List.getElem?_set_self hglt, fun c hc => List.mem_append_left _ hc⟩
    · exact ⟨fo, by rw [List.getElem?_set_ne (Ne.symm hpg)]; exact hp, fun c hc => hc⟩
  refine ⟨by simpa using hinv.len, ?_, ?_, hinv.wlr, hinv.wnodup⟩
  · intro x fx γx hx hγx
    obtain ⟨fo, hfo, hv, hn, hcb⟩ := hget x fx hx
    have ok := hinv.ok x fo γx hfo hγx
    have hcbmem : ∀ g', FCb.update g' ∈ fx.cb → FCb.update g' ∈ fo.cb := by
      intro g' hm
      rcases hcb with h | ⟨_, _, h⟩
      · rw [h] at hm; exact hm
      · rw [h] at hm
        rcases List.mem_append.mp hm with h' | h'
        · exact h'
        · simp at h'
    refine ⟨?_, ?_, by rw [hv]; exact ok.nonneg, ?_, ?_, ?_, ?_⟩
    · rw [predPend_congr hres, hv]; exact ok.eq
    · rw [predPend_congr hres, hn]; exact ok.cnt
    · intro h0
      rcases hcb with h | ⟨rfl, rfl, _⟩
      · rw [h]; exact ok.res (by rw [← hn]; exact h0)
      · rw [hn] at h0; exact absurd h0 hnm
    · intro p hp
      obtain ⟨h1, h2⟩ := ok.pred p hp
      refine ⟨h1, fun hr => ?_⟩
      rw [hres] at hr
      obtain ⟨fp, hfp, hm⟩ := h2 hr
      obtain ⟨fx', hfx', hsub⟩ := hback p fp hfp
      exact ⟨fx', hfx', hsub _ hm⟩
    · intro g' hm
      exact ok.cbs g' (hcbmem g' hm)
    · rcases hcb with h | ⟨_, _, h⟩
      · rw [h]; exact ok.nodup
      · rw [h, List.filter_append]
        simpa using ok.nodup
  · intro x p hm
    obtain ⟨h1, h2⟩ := hinv.wlp x p hm
    exact ⟨by rw [hres]; exact h1, h2⟩

/-! ## `WhenAvailable` with a user callback -/

theorem gfut_val {futs : List Fut} {gh : List GFut} {W : Work} {fired : List (Nat × Int)} {ρ : Rho}
    (hinv : HeapInv futs gh W fired ρ) {f : Nat} {x : Fut} {γ : GFut}
    (hf : futs[f]? = some x) (hγ : gh[f]? = some γ) (h0 : x.numMissing = 0) : γ.m ρ = x.val := by
  have := resolved_val hinv hf (by simp [resolved, hf, h0])
  simpa [predVal, hγ] using this

/-- a user callback handed to futureInt `f`: if `f` is known, the callback is called at once
    with the value the invariant promises for `f`; otherwise it waits at `f` -/
theorem whenAvailable_user {futs : List Fut} {gh : List GFut} {W : Work} {fired : List (Nat × Int)} {ρ : Rho}
    (hinv : HeapInv futs gh W fired ρ) {f : Nat} {x : Fut} {γ : GFut}
    (hf : futs[f]? = some x) (hγ : gh[f]? = some γ) (k : Nat) (log : List (Nat × Int)) :
    (x.numMissing = 0 ∧
      whenAvailable f (.user k) { futs := futs, log := log } = .ok { futs := futs, log := log ++ [(k, γ.m ρ)] }) ∨
    (x.numMissing ≠ 0 ∧
      whenAvailable f (.user k) { futs := futs, log := log } =
        .ok { futs := futs.set f { x with cb := x.cb ++ [.user k] }, log := log } ∧
      HeapInv (futs.set f { x with cb := x.cb ++ [.user k] }) gh W fired ρ) := by
  by_cases h0 : x.numMissing = 0
  · left
    refine ⟨h0, ?_⟩
    simp only [whenAvailable, hf, h0, if_true, callCb]
    rw [gfut_val hinv hf hγ h0]
  · right
    refine ⟨h0, ?_, heapInv_add_user hinv hf h0 k⟩
    simp only [whenAvailable, hf, h0, if_false]

/-- the pending callbacks of a writer handed to its futureInt (`AppendPage*`): all are called at
    once with the promised value, or all wait at the futureInt, in order -/
theorem whenAvailableAll_users {gh : List GFut} {W : Work} {fired : List (Nat × Int)} {ρ : Rho} {f : Nat} {γ : GFut}
    (hγ : gh[f]? = some γ) : ∀ (ks : List Nat) (futs : List Fut) (x : Fut) (log : List (Nat × Int)),
    HeapInv futs gh W fired ρ → futs[f]? = some x →
    ∃ futs' L, whenAvailableAll f (ks.map FCb.user) { futs := futs, log := log } = .ok { futs := futs', log := log ++ L } ∧
      HeapInv futs' gh W fired ρ ∧
      ((x.numMissing = 0 ∧ futs' = futs ∧ L = ks.map fun k => (k, γ.m ρ)) ∨
       (x.numMissing ≠ 0 ∧ L = [] ∧ futs' = futs.set f { x with cb := x.cb ++ ks.map FCb.user }))
  | [], futs, x, log, hinv, hf => by
    refine ⟨futs, [], by simp [whenAvailableAll], hinv, ?_⟩
    by_cases h0 : x.numMissing = 0
    · exact Or.inl ⟨h0, rfl, rfl⟩
    · refine Or.inr ⟨h0, rfl, ?_⟩
      simp only [List.map_nil, List.append_nil]
      exact (set_self hf).symm
  | k :: ks, futs, x, log, hinv, hf => by
    rcases whenAvailable_user hinv hf hγ k log with ⟨h0, hw⟩ | ⟨h0, hw, hinv'⟩
    · obtain ⟨futs', L, hr, hi, hcase⟩ := whenAvailableAll_users hγ ks futs x (log ++ [(k, γ.m ρ)]) hinv hf
      refine ⟨futs', (k, γ.m ρ) :: L, ?_, hi, ?_⟩
      · simp only [List.map_cons, whenAvailableAll, hw, hr]
        simp
      · rcases hcase with ⟨_, h2, h3⟩ | ⟨h1, _, _⟩
        · exact Or.inl ⟨h0, h2, by simp [h3]⟩
        · exact absurd h0 h1
    · have hf' : (futs.set f { x with cb := x.cb ++ [.user k] })[f]? = some { x with cb := x.cb ++ [.user k] } :=
        List.getElem?_set_self (lt_of_getElem? hf)
      obtain ⟨futs', L, hr, hi, hcase⟩ := whenAvailableAll_users hγ ks _ _ log hinv' hf'
      refine ⟨futs', L, ?_, hi, ?_⟩
      · simp only [List.map_cons, whenAvailableAll, hw, hr]
      · rcases hcase with ⟨h1, _, _⟩ | ⟨_, h2, h3⟩
        · exact absurd h1 h0
        · refine Or.inr ⟨h0, h2, ?_⟩
          rw [h3]
          simp [List.set_set, List.append_assoc]

/-! ## a range is closed: its page count is delivered -/

/-- the moment `Close` of a range calls `numPagesCb`: the range is recorded as closed with `n`
    pages, the delivery to its futureInt is the only work to do -/
theorem heapInv_fire {futs : List Fut} {gh : List GFut} {fired : List (Nat × Int)} {ρ : Rho}
    (hinv : HeapInv futs gh [] fired ρ) {g : Nat} {γ : GFut} (hγ : gh[g]? = some γ)
    (hr : γ.isRange = true) (hnf : (fired.map (·.1)).contains g = false) (n : Int) :
    HeapInv futs gh [(g, none)] ((g, n) :: fired) ρ := by
  have hpp : ∀ x γx, predPend futs [(g, none)] x γx = predPend futs [] x γx := by
    intro x γx
    unfold predPend
    cases γx.pred with
    | none => rfl
    | some p => simp
  have hrp : ∀ x γx, gh[x]? = some γx → rangePend ((g, n) :: fired) [(g, none)] x γx = rangePend fired [] x γx := by
    intro x γx hx
    unfold rangePend
    by_cases hxg : x = g
    · subst hxg
      have a : [(x, (none : Option Nat))].contains (x, none) = true := by simp
      rw [a, hnf]
      simp
    · have hb : (x == g) = false := by simp [hxg]
      have : ((x, (none : Option Nat)) == (g, none)) = false := by simp [hxg]
      simp [List.contains_cons, hxg, this, hb]
  refine ⟨hinv.len, ?_, ?_, ?_, by simp⟩
  · intro x fx γx hx hγx
    have ok := hinv.ok x fx γx hx hγx
    refine ⟨?_, ?_, ok.nonneg, ok.res, ok.pred, ok.cbs, ok.nodup⟩
    · rw [hpp, hrp x γx hγx]; exact ok.eq
    · rw [hpp, hrp x γx hγx]; exact ok.cnt
  · intro x p hm
    simp at hm
  · intro x hm
    simp only [List.mem_singleton, Prod.mk.injEq, and_true] at hm
    subst hm
    exact ⟨by simp, γ, hγ, hr⟩

/-- **`Close` of a range tells its futureInt the page count** (`numPagesCb = [Update]`): the
    delivery and all deliveries it causes run to completion within the model's bound, the
    invariant holds afterwards with the range recorded as closed, and every user callback that
    fires is logged with the value promised for the futureInt it waited at -/
theorem fire_range {futs : List Fut} {gh : List GFut} {fired : List (Nat × Int)} {ρ : Rho}
    (hinv : HeapInv futs gh [] fired ρ) {g : Nat} {f : Fut} {γ : GFut} (hf : futs[g]? = some f)
    (hγ : gh[g]? = some γ) (hr : γ.isRange = true) (hnf : (fired.map (·.1)).contains g = false)
    (n : Int) (hn : 0 ≤ n) (hc : Cons ((g, n) :: fired) ρ) (log : List (Nat × Int)) :
    ∃ futs' L, callAll [.update g] n { futs := futs, log := log } = .ok { futs := futs', log := log ++ L } ∧
      HeapInv futs' gh [] ((g, n) :: fired) ρ ∧ Delivered gh ρ futs futs' g [] 0 L := by
  have hinv' := heapInv_fire hinv hγ hr hnf n
  have hsrc : SrcVal futs ((g, n) :: fired) g none n := by
    intro e he hg
    simp only [List.mem_cons] at he
    rcases he with rfl | he
    · rfl
    · exfalso
      have : (fired.map (·.1)).contains g = true := by
        simp only [List.contains_iff_mem, List.mem_map]
        exact ⟨e, he, hg⟩
      rw [hnf] at this; cases this
  obtain ⟨futs', L, hu, hi, hd⟩ := cascade gh ((g, n) :: fired) ρ (futs.length + 1) g none [] futs log f γ n
    hinv' hc hf hγ hsrc hn (by omega)
  refine ⟨futs', L, ?_, hi, hd⟩
  simp only [callAll, callCb]
  rw [hu]

/-! ## a new futureInt is derived from an existing one (`Inc`, `NewRange`) -/

/-- ghost data of the futureInt derived from `f`: it will hold `v0` plus the value of `f`, plus
    the page count of its own range if it waits for one -/
def derivedG (γf : GFut) (f res : Nat) (v0 : Int) (b : Bool) : GFut :=
  { m := fun ρ => v0 + γf.m ρ + (if b then ρ res else 0), pred := some f, isRange := b }

def derivedF (v0 : Int) (b : Bool) : Fut := { val := v0, numMissing := 1 + b2i b, cb := [] }

/-- the heap after a futureInt `res` derived from `f` was allocated: `futsE` is the old heap
    with the new futureInt at the end and, possibly, `Update res` among the waiters of `f`;
    the work list `W'` is empty or holds the one delivery `f → res` -/
theorem heapInv_extend {futs futsE : List Fut} {gh : List GFut} {fired : List (Nat × Int)} {ρ : Rho}
    (hinv : HeapInv futs gh [] fired ρ) {f : Nat} {γf : GFut} (hγ : gh[f]? = some γf)
    (hflt : f < futs.length) (v0 : Int) (hv0 : 0 ≤ v0) (b : Bool)
    (hb : b = true → (fired.map (·.1)).contains futs.length = false) (W' : Work)
    (e1 : futsE.length = futs.length + 1)
    (e2 : ∀ (p : Nat) (fe : Fut), p < futs.length → futsE[p]? = some fe →
      ∃ fo : Fut, futs[p]? = some fo ∧ fe.val = fo.val ∧ fe.numMissing = fo.numMissing ∧
        (fe.cb = fo.cb ∨ (p = f ∧ fo.numMissing ≠ 0 ∧ fe.cb = fo.cb ++ [.update futs.length])))
    (e3 : futsE[futs.length]? = some (derivedF v0 b))
    (hW : ∀ y s, (y, s) ∈ W' → y = futs.length ∧ s = some f ∧ resolved futsE f = true)
    (hWnd : W'.Nodup)
    (e5 : resolved futsE f = false → ∃ fp : Fut, futsE[f]? = some fp ∧ FCb.update futs.length ∈ fp.cb)
    (e7 : resolved futsE f = false ∨ (futs.length, some f) ∈ W') :
    HeapInv futsE (gh ++ [derivedG γf f futs.length v0 b]) W' fired ρ := by
  have hlen := hinv.len
  -- what is known is unchanged for the old futureInts
  have hres : ∀ p, p < futs.length → resolved futsE p = resolved futs p := by
    intro p hp
    have hpe : p < futsE.length := by omega
    obtain ⟨fo, hfo, _, hn, _⟩ := e2 p _ hp (List.getElem?_eq_getElem hpe)
    simp [resolved, List.getElem?_eq_getElem hpe, hfo, hn]
  have hback : ∀ (p : Nat) (fo : Fut), futs[p]? = some fo → ∃ fe : Fut, futsE[p]? = some fe ∧ ∀ c, c ∈ fo.cb → c ∈ fe.cb := by
    intro p fo hp
    have hpl := lt_of_getElem? hp
    have hpe : p < futsE.length := by omega
    obtain ⟨fo', hfo', _, _, hcb⟩ := e2 p _ hpl (List.getElem?_eq_getElem hpe)
    rw [hp] at hfo'; cases hfo'
    refine ⟨_, List.getElem?_eq_getElem hpe, fun c hc => ?_⟩
    rcases hcb with h | ⟨_, _, h⟩
    · rw [h]; exact hc
    · rw [h]; exact List.mem_append_left _ hc
  have hghold : ∀ p, p < futs.length → (gh ++ [derivedG γf f futs.length v0 b])[p]? = gh[p]? := by
    intro p hp
    exact List.getElem?_append_left (by omega)
  have hghnew : (gh ++ [derivedG γf f futs.length v0 b])[futs.length]? = some (derivedG γf f futs.length v0 b) := by
    rw [← hlen]; simp
  refine ⟨by simp [e1, hlen], ?_, ?_, ?_, hWnd⟩
  · intro x fx γx hx hγx
    have hxe : x < futs.length + 1 := by rw [← e1]; exact lt_of_getElem? hx
    by_cases hxn : x = futs.length
    · -- the new futureInt
      subst hxn
      rw [e3] at hx; cases hx
      rw [hghnew] at hγx; cases hγx
      have hpp : predPend futsE W' futs.length (derivedG γf f futs.length v0 b) = true := by
        rw [predPend_iff]
        exact ⟨f, rfl, e7⟩
      have hrp : rangePend fired W' futs.length (derivedG γf f futs.length v0 b) = b := by
        unfold rangePend
        cases b with
        | false => simp [derivedG]
        | true =>
          show (true && (!(fired.map (·.1)).contains futs.length || W'.contains (futs.length, none))) = true
          rw [hb rfl]; simp
      have hpv : predVal (gh ++ [derivedG γf f futs.length v0 b]) ρ (some f) = γf.m ρ := by
        simp only [predVal, hghold f hflt, hγ]
      refine ⟨?_, ?_, hv0, fun _ => rfl, ?_, ?_, by simp [derivedF]⟩
      · rw [hpp, hrp]
        show v0 + γf.m ρ + (if b = true then ρ futs.length else 0) =
          v0 + (if true = true then predVal (gh ++ [derivedG γf f futs.length v0 b]) ρ (some f) else 0) +
            (if b = true then ρ futs.length else 0)
        rw [hpv]; simp
      · rw [hpp, hrp]; simp [derivedF, b2i]
      · intro p hp
        simp only [derivedG, Option.some.injEq] at hp
        subst hp
        exact ⟨hflt, e5⟩
      · intro g' hm
        simp [derivedF] at hm
    · -- an old futureInt
      have hxl : x < futs.length := by omega
      obtain ⟨fo, hfo, hv, hn, hcb⟩ := e2 x fx hxl hx
      rw [hghold x hxl] at hγx
      have ok := hinv.ok x fo γx hfo hγx
      have hpp : predPend futsE W' x γx = predPend futs [] x γx := by
        unfold predPend
        cases hp : γx.pred with
        | none => rfl
        | some p =>
          have hpx := (ok.pred p hp).1
          have hnc : W'.contains (x, some p) = false := by
            rw [Bool.eq_false_iff]
            intro hc
            rw [List.contains_iff_mem] at hc
            exact hxn (hW _ _ hc).1
          simp only [hnc, hres p (by omega)]
          simp
      have hrp : rangePend fired W' x γx = rangePend fired [] x γx := by
        unfold rangePend
        have hnc : W'.contains (x, none) = false := by
          rw [Bool.eq_false_iff]
          intro hc
          rw [List.contains_iff_mem] at hc
          exact hxn (hW _ _ hc).1
        simp only [hnc]
        simp
      have hpv : predVal (gh ++ [derivedG γf f futs.length v0 b]) ρ γx.pred = predVal gh ρ γx.pred := by
        cases hp : γx.pred with
        | none => rfl
        | some p =>
          have hpx := (ok.pred p hp).1
          simp only [predVal, hghold p (by omega)]
      refine ⟨?_, ?_, by rw [hv]; exact ok.nonneg, ?_, ?_, ?_, ?_⟩
      · rw [hpp, hrp, hpv, hv]; exact ok.eq
      · rw [hpp, hrp, hn]; exact ok.cnt
      · intro h0
        rcases hcb with h | ⟨_, h1, _⟩
        · rw [h]; exact ok.res (by rw [← hn]; exact h0)
        · rw [hn] at h0; exact absurd h0 h1
      · intro p hp
        obtain ⟨h1, h2⟩ := ok.pred p hp
        refine ⟨h1, fun hr => ?_⟩
        rw [hres p (by omega)] at hr
        obtain ⟨fp, hfp, hm⟩ := h2 hr
        obtain ⟨fe, hfe, hsub⟩ := hback p fp hfp
        exact ⟨fe, hfe, hsub _ hm⟩
      · intro g' hm
        have hold : FCb.update g' ∈ fo.cb → x < g' ∧ ∃ γ', (gh ++ [derivedG γf f futs.length v0 b])[g']? = some γ' ∧ γ'.pred = some x := by
          intro hm'
          obtain ⟨h1, γ', h2, h3⟩ := ok.cbs g' hm'
          have hg'l : g' < gh.length := lt_of_getElem? h2
          exact ⟨h1, γ', by rw [hghold g' (by omega)]; exact h2, h3⟩
        rcases hcb with h | ⟨hxf, _, h⟩
        · rw [h] at hm; exact hold hm
        · rw [h] at hm
          rcases List.mem_append.mp hm with hm' | hm'
          · exact hold hm'
          · simp only [List.mem_singleton, FCb.update.injEq] at hm'
            subst hm'
            exact ⟨hxl, _, hghnew, by rw [hxf]; rfl⟩
      · rcases hcb with h | ⟨_, _, h⟩
        · rw [h]; exact ok.nodup
        · rw [h, List.filter_append]
          have hnot : FCb.update futs.length ∉ fo.cb := by
            intro hm
            obtain ⟨_, γ', h2, _⟩ := ok.cbs _ hm
            have := lt_of_getElem? h2
            omega
          simp only [List.filter_cons, List.filter_nil, if_true]
          rw [List.nodup_append]
          refine ⟨ok.nodup, by simp, ?_⟩
          intro a ha c hc
          simp only [List.mem_singleton] at hc
          subst hc
          intro hac
          subst hac
          exact hnot (List.mem_filter.mp ha).1
  · intro y p hm
    obtain ⟨h1, h2, h3⟩ := hW y (some p) hm
    simp only [Option.some.injEq] at h2
    subst h1; subst h2
    exact ⟨h3, _, hghnew, rfl⟩
  · intro y hm
    have := (hW y none hm).2.1
    cases this

/-- **deriving a futureInt** — the heap part of `Inc` (when somebody waits for the old one:
    `v0 = 1`, no range) and of `NewRange` (`v0 = 0`, waits for the new range's page count):
    the new futureInt is allocated and registered with `WhenAvailable(res.Update)`.  If `f` is
    already known, the delivery runs at once (`cascade`).  Either way the invariant holds for
    the extended heap, the new futureInt being promised `v0 + (value of f) [+ size of its range]`. -/
theorem derive_spec {futs : List Fut} {gh : List GFut} {fired : List (Nat × Int)} {ρ : Rho}
    (hinv : HeapInv futs gh [] fired ρ) (hc : Cons fired ρ) {f : Nat} {x : Fut} {γf : GFut}
    (hf : futs[f]? = some x) (hγ : gh[f]? = some γf) (v0 : Int) (hv0 : 0 ≤ v0) (b : Bool)
    (hb : b = true → (fired.map (·.1)).contains futs.length = false) (log : List (Nat × Int)) :
    ∃ futs' L, whenAvailable f (.update futs.length) { futs := futs ++ [derivedF v0 b], log := log } =
        .ok { futs := futs', log := log ++ L } ∧
      HeapInv futs' (gh ++ [derivedG γf f futs.length v0 b]) [] fired ρ ∧
      futs'.length = futs.length + 1 ∧
      (x.numMissing ≠ 0 → L = [] ∧
        futs' = (futs ++ [derivedF v0 b]).set f { x with cb := x.cb ++ [.update futs.length] }) ∧
      (x.numMissing = 0 →
        Delivered (gh ++ [derivedG γf f futs.length v0 b]) ρ (futs ++ [derivedF v0 b]) futs' futs.length [] 0 L) := by
  have hflt := lt_of_getElem? hf
  have hfE : (futs ++ [derivedF v0 b])[f]? = some x := by
    rw [List.getElem?_append_left hflt]; exact hf
  have hnewE : (futs ++ [derivedF v0 b])[futs.length]? = some (derivedF v0 b) := by simp
  by_cases h0 : x.numMissing = 0
  · -- `f` is known: the value is delivered at once
    have hresf : resolved (futs ++ [derivedF v0 b]) f = true := by simp [resolved, hfE, h0]
    have hinvE : HeapInv (futs ++ [derivedF v0 b]) (gh ++ [derivedG γf f futs.length v0 b])
        [(futs.length, some f)] fired ρ := by
      refine heapInv_extend hinv hγ hflt v0 hv0 b hb _ (by simp) ?_ hnewE ?_ (by simp) ?_ (Or.inr (by simp))
      · intro p fe hp hfe
        rw [List.getElem?_append_left hp] at hfe
        exact ⟨fe, hfe, rfl, rfl, Or.inl rfl⟩
      · intro y s hm
        simp only [List.mem_singleton, Prod.mk.injEq] at hm
        exact ⟨hm.1, hm.2, hresf⟩
      · intro hr; rw [hresf] at hr; cases hr
    have hγE : (gh ++ [derivedG γf f futs.length v0 b])[futs.length]? = some (derivedG γf f futs.length v0 b) := by
      rw [← hinv.len]; simp
    have hnn : 0 ≤ x.val := (hinv.ok f x γf hf hγ).nonneg
    obtain ⟨futs', L, hu, hi, hd⟩ := cascade (gh ++ [derivedG γf f futs.length v0 b]) fired ρ
      ((futs ++ [derivedF v0 b]).length + 1) futs.length (some f) [] _ log _ _ x.val
      hinvE hc hnewE hγE ⟨x, hfE, rfl⟩ hnn (by simp)
    refine ⟨futs', L, ?_, hi, by rw [hd.len]; simp, fun h => absurd h0 h, fun _ => hd⟩
    simp only [whenAvailable, hfE, h0, if_true, callCb]
    exact hu
  · -- `f` is not yet known: the new futureInt waits at `f`
    have hfE' : ((futs ++ [derivedF v0 b]).set f { x with cb := x.cb ++ [.update futs.length] })[f]? =
        some { x with cb := x.cb ++ [.update futs.length] } :=
      List.getElem?_set_self (by simp; omega)
    have hresf : resolved ((futs ++ [derivedF v0 b]).set f { x with cb := x.cb ++ [.update futs.length] }) f = false := by
      simp only [resolved, hfE']
      simpa using h0
    have hinvE : HeapInv ((futs ++ [derivedF v0 b]).set f { x with cb := x.cb ++ [.update futs.length] })
        (gh ++ [derivedG γf f futs.length v0 b]) [] fired ρ := by
      refine heapInv_extend hinv hγ hflt v0 hv0 b hb [] (by simp) ?_ ?_ (by simp) (by simp) ?_ (Or.inl hresf)
      · intro p fe hp hfe
        by_cases hpf : p = f
        · subst hpf
          rw [hfE'] at hfe; cases hfe
          exact ⟨x, hf, rfl, rfl, Or.inr ⟨rfl, h0, rfl⟩⟩
        · rw [List.getElem?_set_ne (Ne.symm hpf), List.getElem?_append_left hp] at hfe
          exact ⟨fe, hfe, rfl, rfl, Or.inl rfl⟩
      · rw [List.getElem?_set_ne (by omega)]; exact hnewE
      · intro _
        exact ⟨_, hfE', by simp⟩
    refine ⟨_, [], ?_, hinvE, by simp, fun _ => ⟨rfl, rfl⟩, fun h => absurd h h0⟩
    simp only [whenAvailable, hfE, h0, if_false, List.append_nil]

/-! ## `Inc` -/

theorem predPend_pred_eq {futs : List Fut} {W : Work} {g : Nat} {γ γ' : GFut} (h : γ'.pred = γ.pred) :
    predPend futs W g γ' = predPend futs W g γ := by
  unfold predPend; rw [h]

theorem rangePend_isRange_eq {fired : List (Nat × Int)} {W : Work} {g : Nat} {γ γ' : GFut}
    (h : γ'.isRange = γ.isRange) : rangePend fired W g γ' = rangePend fired W g γ := by
  unfold rangePend; rw [h]

/-- `Inc` in place (nobody waits for the futureInt): the futureInt and its promised value both
    grow by one -/
theorem heapInv_inc_inplace {futs : List Fut} {gh : List GFut} {fired : List (Nat × Int)} {ρ : Rho}
    (hinv : HeapInv futs gh [] fired ρ) {f : Nat} {x : Fut} {γf : GFut}
    (hf : futs[f]? = some x) (hγ : gh[f]? = some γf) (hemp : x.cb = []) :
    HeapInv (futs.set f { x with val := x.val + 1 })
      (gh.set f { γf with m := fun ρ => γf.m ρ + 1 }) [] fired ρ := by
  have hflt := lt_of_getElem? hf
  have hglt : f < gh.length := lt_of_getElem? hγ
  have hres : ∀ p, resolved (futs.set f { x with val := x.val + 1 }) p = resolved futs p :=
    resolved_set_same hf rfl
  have okf := hinv.ok f x γf hf hγ
  have hghne : ∀ p, p ≠ f → (gh.set f { γf with m := fun ρ => γf.m ρ + 1 })[p]? = gh[p]? :=
    fun p hp => List.getElem?_set_ne (Ne.symm hp)
  have hfune : ∀ p, p ≠ f → (futs.set f { x with val := x.val + 1 })[p]? = futs[p]? :=
    fun p hp => List.getElem?_set_ne (Ne.symm hp)
  have hback : ∀ (p : Nat) (fo : Fut), futs[p]? = some fo →
      ∃ fe : Fut, (futs.set f { x with val := x.val + 1 })[p]? = some fe ∧ fe.cb = fo.cb := by
    intro p fo hp
    by_cases hpf : p = f
    · subst hpf
      rw [hf] at hp; cases hp
      exact ⟨_, List.getElem?_set_self hflt, rfl⟩
    · exact ⟨fo, by rw [hfune p hpf]; exact hp, rfl⟩
  have hpv : ∀ p, p ≠ f → predVal (gh.set f { γf with m := fun ρ => γf.m ρ + 1 }) ρ (some p) = predVal gh ρ (some p) := by
    intro p hp
    simp only [predVal, hghne p hp]
  refine ⟨by simpa using hinv.len, ?_, ?_, ?_, hinv.wnodup⟩
  · intro y fy γy hy hγy
    by_cases hyf : y = f
    · subst hyf
      rw [List.getElem?_set_self hflt] at hy; cases hy
      rw [List.getElem?_set_self hglt] at hγy; cases hγy
      have hpp : predPend (futs.set y { x with val := x.val + 1 }) [] y { γf with m := fun ρ => γf.m ρ + 1 } =
          predPend futs [] y γf :=
        (predPend_pred_eq (γ := γf) rfl).trans (predPend_congr hres _ _ _)
      have hrp : rangePend fired [] y { γf with m := fun ρ => γf.m ρ + 1 } = rangePend fired [] y γf :=
        rangePend_isRange_eq rfl
      have hpvq : ∀ q, γf.pred = q →
          predVal (gh.set y { γf with m := fun ρ => γf.m ρ + 1 }) ρ q = predVal gh ρ q := by
        intro q hq
        cases q with
        | none => rfl
        | some p =>
          have := (okf.pred p hq).1
          exact hpv p (by omega)
      have hpvf := hpvq _ rfl
      refine ⟨?_, ?_, ?_, okf.res, ?_, ?_, okf.nodup⟩
      · rw [hpp, hrp]
        show γf.m ρ + 1 = x.val + 1 + (if predPend futs [] y γf = true then
          predVal (gh.set y { γf with m := fun ρ => γf.m ρ + 1 }) ρ γf.pred else 0) +
          (if rangePend fired [] y γf = true then ρ y else 0)
        rw [hpvf]
        have := okf.eq
        omega
      · rw [hpp, hrp]; exact okf.cnt
      · have := okf.nonneg
        show 0 ≤ x.val + 1
        omega
      · intro p hp
        obtain ⟨h1, h2⟩ := okf.pred p hp
        refine ⟨h1, fun hr => ?_⟩
        rw [hres] at hr
        obtain ⟨fp, hfp, hm⟩ := h2 hr
        obtain ⟨fe, hfe, hcb⟩ := hback p fp hfp
        exact ⟨fe, hfe, by rw [hcb]; exact hm⟩
      · intro g' hm
        rw [hemp] at hm; cases hm
    · rw [hfune y hyf] at hy
      rw [hghne y hyf] at hγy
      have ok := hinv.ok y fy γy hy hγy
      have hpp : predPend (futs.set f { x with val := x.val + 1 }) [] y γy = predPend futs [] y γy :=
        predPend_congr hres _ _ _
      -- a futureInt derived from `f` no longer waits for it (nobody waits at `f`)
      have hterm : (if predPend futs [] y γy = true then
            predVal (gh.set f { γf with m := fun ρ => γf.m ρ + 1 }) ρ γy.pred else 0) =
          (if predPend futs [] y γy = true then predVal gh ρ γy.pred else 0) := by
        by_cases hpt : predPend futs [] y γy = true
        · obtain ⟨p, hp, hor⟩ := predPend_iff.mp hpt
          rcases hor with hr | hw
          · obtain ⟨_, h2⟩ := ok.pred p hp
            obtain ⟨fp, hfp, hm⟩ := h2 hr
            have hpf : p ≠ f := by
              intro h; subst h
              rw [hf] at hfp; cases hfp
              rw [hemp] at hm; cases hm
            simp only [hpt, if_true, hp]
            exact hpv p hpf
          · cases hw
        · simp [hpt]
      refine ⟨?_, ?_, ok.nonneg, ok.res, ?_, ?_, ok.nodup⟩
      · rw [hpp, hterm]; exact ok.eq
      · rw [hpp]; exact ok.cnt
      · intro p hp
        obtain ⟨h1, h2⟩ := ok.pred p hp
        refine ⟨h1, fun hr => ?_⟩
        rw [hres] at hr
        obtain ⟨fp, hfp, hm⟩ := h2 hr
        obtain ⟨fe, hfe, hcb⟩ := hback p fp hfp
        exact ⟨fe, hfe, by rw [hcb]; exact hm⟩
      · intro g' hm
        obtain ⟨h1, γ', h2, h3⟩ := ok.cbs g' hm
        by_cases hg'f : g' = f
        · subst hg'f
          rw [hγ] at h2; cases h2
          exact ⟨h1, _, List.getElem?_set_self hglt, h3⟩
        · exact ⟨h1, γ', by rw [hghne g' hg'f]; exact h2, h3⟩
  · intro y p hm; cases hm
  · intro y hm; cases hm

/-- **`Inc`**: whichever branch it takes, the invariant holds afterwards and the futureInt it
    returns is promised the old promise plus one -/
theorem incFut_spec {futs : List Fut} {gh : List GFut} {fired : List (Nat × Int)} {ρ : Rho}
    (hinv : HeapInv futs gh [] fired ρ) (hc : Cons fired ρ) {f : Nat} {x : Fut} {γf : GFut}
    (hf : futs[f]? = some x) (hγ : gh[f]? = some γf) (log : List (Nat × Int)) :
    ∃ f' futs' gh' L γ', incFut f { futs := futs, log := log } = .ok (f', { futs := futs', log := log ++ L }) ∧
      HeapInv futs' gh' [] fired ρ ∧ gh'[f']? = some γ' ∧ γ'.m ρ = γf.m ρ + 1 := by
  by_cases hemp : x.cb = []
  · refine ⟨f, _, _, [], _, ?_, heapInv_inc_inplace hinv hf hγ hemp, List.getElem?_set_self (lt_of_getElem? hγ), rfl⟩
    simp [incFut, hf, hemp]
  · have hne : x.cb.isEmpty = false := by
      cases hcb : x.cb with
      | nil => exact absurd hcb hemp
      | cons _ _ => rfl
    obtain ⟨futs', L, hw, hi, _, _, _⟩ := derive_spec hinv hc hf hγ 1 (by decide) false (by simp) log
    have hd : derivedF 1 false = { val := 1, numMissing := 1, cb := [] } := by simp [derivedF, b2i]
    rw [hd] at hw
    refine ⟨futs.length, futs', gh ++ [derivedG γf f futs.length 1 false], L, derivedG γf f futs.length 1 false,
      ?_, hi, by rw [← hinv.len]; simp, ?_⟩
    · simp only [incFut, hf, hne, Bool.false_eq_true, if_false, hw]
    · simp [derivedG]; omega

/-! ## `NewRange` -/

/-- **`NewRange`, heap part**: the futureInt `gid` of the position AFTER the new range is
    promised the position before it plus the range's final page count `ρ gid` — the prefix sum
    over the ranges preceding a writer in document order is built from exactly these links -/
theorem newRange_heap_spec {futs : List Fut} {gh : List GFut} {fired : List (Nat × Int)} {ρ : Rho}
    (hinv : HeapInv futs gh [] fired ρ) (hc : Cons fired ρ) {f : Nat} {x : Fut} {γf : GFut}
    (hf : futs[f]? = some x) (hγ : gh[f]? = some γf)
    (hnf : (fired.map (·.1)).contains futs.length = false) (log : List (Nat × Int)) :
    ∃ futs' L γ', whenAvailable f (.update futs.length)
        { futs := futs ++ [{ val := 0, numMissing := 2, cb := [] }], log := log } =
        .ok { futs := futs', log := log ++ L } ∧
      HeapInv futs' (gh ++ [γ']) [] fired ρ ∧ γ'.isRange = true ∧ γ'.pred = some f ∧
      γ'.m ρ = γf.m ρ + ρ futs.length := by
  obtain ⟨futs', L, hw, hi, _, _, _⟩ := derive_spec hinv hc hf hγ 0 (by decide) true (fun _ => hnf) log
  have hd : derivedF 0 true = { val := 0, numMissing := 2, cb := [] } := by simp [derivedF, b2i]
  rw [hd] at hw
  exact ⟨futs', L, _, hw, hi, rfl, rfl, by simp [derivedG]⟩

/-! ## where this leaves the page-number clause

`page_numbers_heap_partial` collects the heap side for nested ranges: from any heap satisfying
`HeapInv` (the initial heap does, `heapInv_init`), each of the five ways in which the writers
touch the futureInts — handing pending user callbacks to a futureInt, `Inc`, the allocation in
`NewRange`, the page count delivered by `Close`, and (inside those) `Update` — succeeds within
the model's loop bounds, re-establishes `HeapInv`, and logs a user callback only with the value
`m ρ` promised for the futureInt it was handed to.

**Missing for `PageNumbersStatement`** (stated, not proved): the tree-side invariant — for every
open writer `w` of the range tree, the promise of its futureInt, `m_{w.npn} ρ`, equals the
number of pages that precede `w`'s next page in document order when every open range `r` is given
its final size `ρ r` (the prefix sum over the ranges before `w`, whose links are those of
`newRange_heap_spec`/`incFut_spec`); its preservation by `step` (induction over the operation
list, using the lemmas below at each heap access); and the evaluation at the final `ρ`, which
turns `m ρ` into the index in `flatten doc` (`expectedLog`).  The oracle evaluates the full
statement on the implementation for every generated program (keys `callback`,
`callback-reentrant`). -/

theorem heapInv_init : HeapInv [{ val := 0, numMissing := 0, cb := [] }]
    [{ m := fun _ => 0, pred := none, isRange := false }] [] [] ρ := by
  refine ⟨rfl, ?_, by simp, by simp, by simp⟩
  intro g f γ hf hγ
  cases g with
  | zero =>
    simp at hf hγ
    subst hf; subst hγ
    refine ⟨by simp [predPend, rangePend], by simp [predPend, rangePend, b2i], by simp, fun _ => rfl,
      by simp, by simp, by simp⟩
  | succ n => simp at hf

/-- the heap side of the page-number clause for nested ranges (see the section comment for the
    part that is missing) -/
theorem page_numbers_heap_partial {futs : List Fut} {gh : List GFut} {fired : List (Nat × Int)} {ρ : Rho}
    (hinv : HeapInv futs gh [] fired ρ) (hc : Cons fired ρ) {f : Nat} {x : Fut} {γf : GFut}
    (hf : futs[f]? = some x) (hγ : gh[f]? = some γf) (log : List (Nat × Int)) :
    -- AppendPage*: the pending callbacks `ks` of the writer whose next page has futureInt `f`
    (∀ ks : List Nat, ∃ futs' L,
      whenAvailableAll f (ks.map FCb.user) { futs := futs, log := log } = .ok { futs := futs', log := log ++ L } ∧
      HeapInv futs' gh [] fired ρ ∧
      ((x.numMissing = 0 ∧ futs' = futs ∧ L = ks.map fun k => (k, γf.m ρ)) ∨
       (x.numMissing ≠ 0 ∧ L = [] ∧ futs' = futs.set f { x with cb := x.cb ++ ks.map FCb.user }))) ∧
    -- … followed by Inc
    (∃ f' futs' gh' L γ', incFut f { futs := futs, log := log } = .ok (f', { futs := futs', log := log ++ L }) ∧
      HeapInv futs' gh' [] fired ρ ∧ gh'[f']? = some γ' ∧ γ'.m ρ = γf.m ρ + 1) ∧
    -- NewRange
    ((fired.map (·.1)).contains futs.length = false →
      ∃ futs' L γ', whenAvailable f (.update futs.length)
          { futs := futs ++ [{ val := 0, numMissing := 2, cb := [] }], log := log } =
          .ok { futs := futs', log := log ++ L } ∧
        HeapInv futs' (gh ++ [γ']) [] fired ρ ∧ γ'.isRange = true ∧ γ'.pred = some f ∧
        γ'.m ρ = γf.m ρ + ρ futs.length) ∧
    -- Close of the range that `f` waits for, with `n` pages
    (γf.isRange = true → (fired.map (·.1)).contains f = false → ∀ n : Int, 0 ≤ n → Cons ((f, n) :: fired) ρ →
      ∃ futs' L, callAll [.update f] n { futs := futs, log := log } = .ok { futs := futs', log := log ++ L } ∧
        HeapInv futs' gh [] ((f, n) :: fired) ρ ∧ Delivered gh ρ futs futs' f [] 0 L) :=
  ⟨fun ks => whenAvailableAll_users hγ ks futs x log hinv hf,
   incFut_spec hinv hc hf hγ log,
   fun hnf => newRange_heap_spec hinv hc hf hγ hnf log,
   fun hr hnf n hn hc' => fire_range hinv hf hγ hr hnf n hn hc' log⟩

/-! ## non-vacuity of the full statement on a nested program

A range inside a range; callback 0 registered on the root before any range exists; callback 2
registered on the root while a range that lies EARLIER in the document is opened and filled
later (pages 13 shift the page the callback waits for); an empty range; a callback that gets −1.
Document: 11 12 13 10 14.  The model's log is a permutation of `expectedLog`. -/

def exNested : List POp :=
  [.nextPageNumber [] 0, .newRange [], .newRange [0], .append [] 10 {}, .nextPageNumber [0, 0] 1,
   .append [0, 0] 11 {}, .append [0] 12 {}, .nextPageNumber [] 2, .newRange [0], .append [0, 1] 13 {},
   .newRange [0], .nextPageNumber [0, 2] 3, .append [] 14 {}, .nextPageNumber [0] 4]

example : (match run (PState.init false []) exNested with
    | .ok (s, outs) =>
      s.result.isNone &&
      (match step s (.close []), specRun (exNested.zip outs) [] with
        | .ok (s', .ok), some doc =>
          let final := (Spec.TRSDoc.flatten doc).map (·.1)
          (final == [11, 12, 13, 10, 14]) &&
          (s'.g.heap.log.isPerm
            (expectedLog final ((exNested ++ [POp.close []]).zip (outs ++ [Outcome.ok])))) &&
          (s'.g.heap.log.isPerm [(0, 3), (1, 0), (2, 4), (3, -1), (4, -1)])
        | _, _ => false)
    | _ => false) = true := by decide +kernel

end PdfVerif.C16trsf

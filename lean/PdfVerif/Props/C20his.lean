import PdfVerif.Model.HISSeq
/-!
# C20 — a truncated or xref-damaged file still gives up every complete object: property theorems
-/
namespace PdfVerif.C20his
open PdfVerif PdfVerif.HIS

/-! ## the regular expressions of `sequential.go` are the ones the hand-written matchers implement

The strings are regenerated from the Go source on every run; if a pattern changes, these
equalities fail and the matchers `matchStart`/`matchMarker` have to be revisited. -/

theorem startRegexp_pinned :
    Gen.seq_startRegexp = "%PDF-([12]\\.[0-9])[^0-9]".toList.map (·.toNat) := by decide +kernel

theorem markerRegexp_pinned :
    Gen.seq_markerRegexp =
      "(?:\\r\\n|\\r|\\n|^)(([0-9]+)[\\000\\011\\014 ]+([0-9]+)[\\000\\011\\014 ]+obj|xref|trailer|startxref|%%EOF)\\b".toList.map (·.toNat) := by
  decide +kernel

theorem endstreamPat_pinned :
    Gen.his_scanner_endstreamPat = "[\\r\\n]endstream".toList.map (·.toNat) := by decide +kernel

end PdfVerif.C20his

import PdfVerif.Model.FBPredict
import PdfVerif.Spec.FBCodecs
import PdfVerif.Props.C06fb
/-!
C07 (work package FB): the library's predictor codec against the reference codec written from
the PNG and TIFF specifications (`Spec/FBCodecs.lean`, shares nothing with the model).

Proved for all inputs:
* `spec_paeth_eq_model`, `spec_predictor_eq_model`: the specification's predictor function
  (None/Sub/Up/Average/Paeth incl. the tie-breaking order, and 0 for unknown filter types) is the
  model's, on all byte values — a mirrored Paeth tie-break or a rounded-up Average would falsify it;
* `spec_filter_byte_inverse`: `Recon(x) = Filt(x) + pred` undoes `Filt(x) = Orig(x) − pred` for
  every byte and every predictor value, in the specification's integer arithmetic, and equals the
  model's byte arithmetic (`model_filter_byte_eq_spec`, `model_unfilter_byte_eq_spec`);
* `spec_geometry_eq_model`: row length and bytes-per-pixel of the specification equal the sizes
  derived by `Params` for every validated parameter set.

Validated on every run (not proved): whole-row and whole-stream agreement — the compiled
Spec codecs decode the implementation's output and re-encode to identical bytes (`FB spdec`,
`FB spenc` lines), an independent Go reference codec and `golang.org/x/image/ccitt` do the same
for the predictors and for CCITTFax Group 4 / Group 3 1-D.
-/
namespace PdfVerif.C07fb
open PdfVerif PdfVerif.FB

theorem spec_paeth_eq_model (a b c : Nat) : Spec.FB.paethPredictor a b c = (paeth a b c : Int) := by
  unfold Spec.FB.paethPredictor paeth
  simp only []
  by_cases h1 : ((a : Int) + b - c - a).natAbs ≤ ((a : Int) + b - c - b).natAbs ∧ ((a : Int) + b - c - a).natAbs ≤ ((a : Int) + b - c - c).natAbs
  · rw [if_pos h1]
    simp [h1.1, h1.2]
  · rw [if_neg h1]
    have : ¬ ((decide (((a : Int) + b - c - a).natAbs ≤ ((a : Int) + b - c - b).natAbs) && decide (((a : Int) + b - c - a).natAbs ≤ ((a : Int) + b - c - c).natAbs)) = true) := by
      simpa using h1
    rw [if_neg this]
    by_cases h2 : ((a : Int) + b - c - b).natAbs ≤ ((a : Int) + b - c - c).natAbs
    · rw [if_pos h2]; simp [h2]
    · rw [if_neg h2]; simp [h2]

/-- the predictor of every filter type, on all neighbour values -/
theorem spec_predictor_eq_model (ft a b c : Nat) :
    Spec.FB.predictor ft a b c = (pngPredict ft a b c : Int) := by
  unfold Spec.FB.predictor pngPredict
  match ft with
  | 0 => simp
  | 1 => simp
  | 2 => simp
  | 3 => simp
  | 4 => simp; exact spec_paeth_eq_model a b c
  | n + 5 => simp

/-- the model's filter byte is the specification's `Filt(x) = Orig(x) − predictor mod 256` -/
theorem model_filter_byte_eq_spec (orig p : Nat) (ho : orig < 256) (hp : p < 256) :
    (((orig : Int) - p).emod 256).toNat = (orig + 256 - p) % 256 := by
  show (((orig : Int) - p) % 256).toNat = (orig + 256 - p) % 256
  omega

/-- the model's reconstruction byte is the specification's `Recon(x) = Filt(x) + predictor mod 256` -/
theorem model_unfilter_byte_eq_spec (filt p : Nat) :
    (((filt : Int) + p).emod 256).toNat = (filt + p) % 256 := by
  show (((filt : Int) + p) % 256).toNat = (filt + p) % 256
  omega

/-- in the specification's arithmetic reconstruction undoes filtering, byte by byte -/
theorem spec_filter_byte_inverse (orig p : Nat) (ho : orig < 256) (hp : p < 256) :
    ((((((orig : Int) - p).emod 256).toNat : Int) + p).emod 256).toNat = orig := by
  show ((((((orig : Int) - p) % 256).toNat : Int) + p) % 256).toNat = orig
  omega

/-- the specification's row length and bytes per pixel are the sizes `Params` derives -/
theorem spec_geometry_eq_model (p : PParams) (hv : p.validate = true) (h1 : p.predictor ≠ 1) :
    Spec.FB.rowBytes p.geo.colors p.geo.bpc p.geo.columns = p.geo.rowBytes ∧
    Spec.FB.bytesPerPixel p.geo.colors p.geo.bpc = p.geo.bpp := by
  obtain ⟨hr, _, _⟩ := C08fb.validate_reached p hv h1
  obtain ⟨b1, b2, b3, b4⟩ := C08fb.product_bounds p hr
  have e1 : p.bitsPerPixel = p.colors * p.bpc := C08fb.wrap64_id _ (by omega) (by omega)
  have e2 : p.bitsPerRow = p.colors * p.bpc * p.columns := by
    unfold PParams.bitsPerRow; rw [e1]; exact C08fb.wrap64_id _ (by omega) (by omega)
  obtain ⟨⟨c1, c2⟩, hb, ⟨k1, k2⟩⟩ := hr
  have hb0 : 0 ≤ p.bpc := by omega
  obtain ⟨c, hc⟩ := Int.eq_ofNat_of_zero_le (show 0 ≤ p.colors by omega)
  obtain ⟨b, hbb⟩ := Int.eq_ofNat_of_zero_le hb0
  obtain ⟨k, hk⟩ := Int.eq_ofNat_of_zero_le (show 0 ≤ p.columns by omega)
  unfold Spec.FB.rowBytes Spec.FB.bytesPerPixel
  simp only [PParams.geo, PParams.bytesPerRow, PParams.bytesPerPixel, e1, e2, hc, hbb, hk, Int.toNat_natCast]
  rw [hc, hbb] at b1
  rw [hc, hbb, hk] at b3
  have n1 : 1 ≤ c * b := by exact_mod_cast b1
  have n3 : 1 ≤ c * b * k := by exact_mod_cast b3
  have t1 : ((c : Int) * b * k + 7).tdiv 8 = ((c * b * k + 7) / 8 : Nat) := by
    rw [Int.tdiv_eq_ediv_of_nonneg (by exact_mod_cast Nat.zero_le _)]; push_cast; rfl
  have t2 : ((c : Int) * b + 7).tdiv 8 = ((c * b + 7) / 8 : Nat) := by
    rw [Int.tdiv_eq_ediv_of_nonneg (by exact_mod_cast Nat.zero_le _)]; push_cast; rfl
  rw [t1, t2, Int.toNat_natCast, Int.toNat_natCast]
  exact ⟨rfl, Nat.max_eq_right (by omega)⟩

example : Spec.FB.predDecode 3 8 2 14 (encodeStream (⟨3, 8, 2, 14⟩ : PParams).geo [] [1, 2, 3, 250, 5, 6, 9, 8, 7, 6, 5, 4])
    = [1, 2, 3, 250, 5, 6, 9, 8, 7, 6, 5, 4] := by decide +kernel
example : (decodeStream (⟨2, 4, 3, 2⟩ : PParams).geo (Spec.FB.predEncode 2 4 3 2 [] [0x12, 0x34, 0x56, 0xf1, 0x0e, 0x77])).1
    = [0x12, 0x34, 0x56, 0xf1, 0x0e, 0x77] := by decide +kernel

end PdfVerif.C07fb

import PdfVerif.Props.C16trsc
/-!
# C16 (fourth part) — the futureInt heap: every futureInt eventually holds what its role says

Groundwork for the page-number theorem with nested ranges.  Every futureInt `g` gets ghost data
(`GFut`): its eventual value `m ρ` as a function of the final page counts `ρ` of the ranges that
are still open, the futureInt it was derived from, whether it also waits for a range.
`HeapInv` ties the heap to the ghost data for every `ρ` that is consistent with the ranges closed
so far (`Cons`); `cascade` shows that `Update` — the delivery of one value and all deliveries
it triggers — keeps it, logs every user callback of a futureInt that becomes known with exactly
`m ρ`, loses none, and stays within the model's loop bound.
-/
namespace PdfVerif.C16trsd
open PdfVerif PdfVerif.TRSP PdfVerif.C16trs PdfVerif.C16trsc
set_option linter.unusedSectionVars false
set_option linter.unusedSimpArgs false

/-! ## the futureInt heap: what every futureInt will eventually be -/

/-- the (not yet known) final page count of every range, by the futureInt that waits for it -/
abbrev Rho := Nat → Int

/-- ghost data of a futureInt: its eventual value as a function of the ranges' final sizes, the
    futureInt it was derived from (and whose value it is given once), whether it also waits for
    the page count of a range -/
structure GFut where
  m : Rho → Int
  pred : Option Nat
  isRange : Bool

def resolved (futs : List Fut) (p : Nat) : Bool :=
  match futs[p]? with
  | some f => f.numMissing == 0
  | none => false

/-- deliveries in progress: `(g, some p)`: futureInt `p` is known, its waiter `g` has not been
    told yet; `(g, none)`: the range of `g` is closed, `g` has not been told its page count yet -/
abbrev Work := List (Nat × Option Nat)

/-- `g` still waits for the value of the futureInt it was derived from -/
def predPend (futs : List Fut) (W : Work) (g : Nat) (γ : GFut) : Bool :=
  match γ.pred with
  | none => false
  | some p => !resolved futs p || W.contains (g, some p)

/-- `g` still waits for the page count of its range; `fired` lists the ranges that are closed,
    with their page counts -/
def rangePend (fired : List (Nat × Int)) (W : Work) (g : Nat) (γ : GFut) : Bool :=
  γ.isRange && (!(fired.map (·.1)).contains g || W.contains (g, none))

def predVal (gh : List GFut) (ρ : Rho) : Option Nat → Int
  | none => 0
  | some p => match gh[p]? with
    | some γ => γ.m ρ
    | none => 0

def b2i (b : Bool) : Int := if b then 1 else 0

structure FutOK (futs : List Fut) (gh : List GFut) (W : Work) (fired : List (Nat × Int))
    (ρ : Rho) (g : Nat) (f : Fut) (γ : GFut) : Prop where
  eq : γ.m ρ = f.val + (if predPend futs W g γ then predVal gh ρ γ.pred else 0) +
        (if rangePend fired W g γ then ρ g else 0)
  cnt : f.numMissing = b2i (predPend futs W g γ) + b2i (rangePend fired W g γ)
  nonneg : 0 ≤ f.val
  res : f.numMissing = 0 → f.cb = []
  pred : ∀ p, γ.pred = some p → p < g ∧ (resolved futs p = false → ∃ fp, futs[p]? = some fp ∧ FCb.update g ∈ fp.cb)
  cbs : ∀ g', FCb.update g' ∈ f.cb → g < g' ∧ ∃ γ', gh[g']? = some γ' ∧ γ'.pred = some g
  nodup : (f.cb.filter fun c => match c with | .update _ => true | .user _ => false).Nodup

/-- consistency of `ρ` with the ranges closed so far -/
def Cons (fired : List (Nat × Int)) (ρ : Rho) : Prop := ∀ e ∈ fired, ρ e.1 = e.2

structure HeapInv (futs : List Fut) (gh : List GFut) (W : Work) (fired : List (Nat × Int))
    (ρ : Rho) : Prop where
  len : gh.length = futs.length
  ok : ∀ g f γ, futs[g]? = some f → gh[g]? = some γ → FutOK futs gh W fired ρ g f γ
  wlp : ∀ g p, (g, some p) ∈ W → resolved futs p = true ∧ ∃ γ, gh[g]? = some γ ∧ γ.pred = some p
  wlr : ∀ g, (g, none) ∈ W → (fired.map (·.1)).contains g = true ∧ ∃ γ, gh[g]? = some γ ∧ γ.isRange = true
  wnodup : W.Nodup

/-- the inner loop of `Update`: tell the waiters -/
def deliver (fuel : Nat) (v : Int) : List FCb → Heap → Except PErr Heap
  | [], h => .ok h
  | .user k :: rest, h => deliver fuel v rest { h with log := h.log ++ [(k, v)] }
  | .update g :: rest, h =>
    match updateFut fuel g v h with
    | .error e => .error e
    | .ok h' => deliver fuel v rest h'

theorem foldl_deliver (fuel : Nat) (v : Int) : ∀ (cbs : List FCb) (h : Heap),
    cbs.foldl (fun acc cb =>
      match acc with
      | .error e => .error e
      | .ok h' =>
        match cb with
        | .user k => .ok { h' with log := h'.log ++ [(k, v)] }
        | .update g' => updateFut fuel g' v h') (.ok h) = deliver fuel v cbs h
  | [], h => rfl
  | .user k :: rest, h => by
    simp only [List.foldl_cons, deliver]
    exact foldl_deliver fuel v rest _
  | .update g :: rest, h => by
    simp only [List.foldl_cons, deliver]
    cases hu : updateFut fuel g v h with
    | error e =>
      simp only
      clear hu
      induction rest with
      | nil => rfl
      | cons x xs ih => simp only [List.foldl_cons]; exact ih
    | ok h' => exact foldl_deliver fuel v rest h'

theorem predPend_iff {futs : List Fut} {W : Work} {g : Nat} {γ : GFut} :
    predPend futs W g γ = true ↔ ∃ p, γ.pred = some p ∧ (resolved futs p = false ∨ (g, some p) ∈ W) := by
  unfold predPend
  cases hp : γ.pred with
  | none => simp
  | some p =>
    simp only [Bool.or_eq_true, Bool.not_eq_true', List.contains_iff_mem, Option.some.injEq, exists_eq_left']

theorem rangePend_iff {fired : List (Nat × Int)} {W : Work} {g : Nat} {γ : GFut} :
    rangePend fired W g γ = true ↔
      γ.isRange = true ∧ ((fired.map (·.1)).contains g = false ∨ (g, none) ∈ W) := by
  unfold rangePend
  simp only [Bool.and_eq_true, Bool.or_eq_true, Bool.not_eq_true', List.contains_iff_mem]

/-- the deliveries that start when futureInt `g` becomes known: one per waiter -/
def pairs (cbs : List FCb) (g : Nat) : Work :=
  cbs.filterMap fun c => match c with
    | .update g' => some (g', some g)
    | .user _ => none

theorem mem_pairs {cbs : List FCb} {g x : Nat} {src : Option Nat} :
    (x, src) ∈ pairs cbs g ↔ FCb.update x ∈ cbs ∧ src = some g := by
  unfold pairs
  simp only [List.mem_filterMap]
  constructor
  · rintro ⟨c, hc, h⟩
    cases c with
    | user k => simp at h
    | update g' => simp at h; obtain ⟨rfl, rfl⟩ := h; exact ⟨hc, rfl⟩
  · rintro ⟨hc, rfl⟩
    exact ⟨.update x, hc, rfl⟩

theorem resolved_set_ne {futs : List Fut} {g p : Nat} {f : Fut} (h : p ≠ g) :
    resolved (futs.set g f) p = resolved futs p := by
  unfold resolved
  rw [List.getElem?_set_ne (Ne.symm h)]

theorem resolved_set_self {futs : List Fut} {g : Nat} {f : Fut} (h : g < futs.length) :
    resolved (futs.set g f) g = (f.numMissing == 0) := by
  unfold resolved
  rw [List.getElem?_set_self h]

theorem b2i_nonneg (b : Bool) : 0 ≤ b2i b := by cases b <;> simp [b2i]

theorem b2i_eq_zero {b : Bool} : b2i b = 0 ↔ b = false := by cases b <;> simp [b2i]

/-- a known futureInt has its value -/
theorem resolved_val {futs : List Fut} {gh : List GFut} {W : Work} {fired : List (Nat × Int)} {ρ : Rho}
    (hinv : HeapInv futs gh W fired ρ) {p : Nat} {fp : Fut} (hp : futs[p]? = some fp)
    (hres : resolved futs p = true) : predVal gh ρ (some p) = fp.val := by
  have hpl : p < futs.length := by
    rcases Nat.lt_or_ge p futs.length with h | h
    · exact h
    · rw [List.getElem?_eq_none h] at hp; cases hp
  have hpg : p < gh.length := by rw [hinv.len]; exact hpl
  have hγ := List.getElem?_eq_getElem hpg
  have ok := hinv.ok p fp _ hp hγ
  have hnm : fp.numMissing = 0 := by
    simp only [resolved, hp, beq_iff_eq] at hres; exact hres
  have hc := ok.cnt
  rw [hnm] at hc
  have h1 := b2i_nonneg (predPend futs W p gh[p])
  have h2 := b2i_nonneg (rangePend fired W p gh[p])
  have e1 : predPend futs W p gh[p] = false := b2i_eq_zero.mp (by omega)
  have e2 : rangePend fired W p gh[p] = false := b2i_eq_zero.mp (by omega)
  have := ok.eq
  simp only [e1, e2, Bool.false_eq_true, if_false] at this
  simp only [predVal, hγ]
  omega

/-- the value that is delivered: the value of the known futureInt, or the page count with
    which the range was closed -/
def SrcVal (futs : List Fut) (fired : List (Nat × Int)) (g : Nat) (src : Option Nat) (n : Int) : Prop :=
  match src with
  | some p => ∃ fp, futs[p]? = some fp ∧ n = fp.val
  | none => ∀ e ∈ fired, e.1 = g → n = e.2

/-- what is known about the futureInt at the head of the work list -/
theorem head_facts {futs : List Fut} {gh : List GFut} {W : Work} {fired : List (Nat × Int)} {ρ : Rho}
    {g : Nat} {src : Option Nat} (hinv : HeapInv futs gh ((g, src) :: W) fired ρ) (hc : Cons fired ρ)
    {f : Fut} {γ : GFut} (hf : futs[g]? = some f) (hγ : gh[g]? = some γ) {n : Int}
    (hn : SrcVal futs fired g src n) :
    γ.m ρ = f.val + n + ((if predPend futs W g γ then predVal gh ρ γ.pred else 0) +
      (if rangePend fired W g γ then ρ g else 0)) ∧
    f.numMissing = 1 + (b2i (predPend futs W g γ) + b2i (rangePend fired W g γ)) := by
  have ok := hinv.ok g f γ hf hγ
  have hnd := List.nodup_cons.mp hinv.wnodup
  cases src with
  | some p =>
    obtain ⟨hres, γ', hγ', hpred⟩ := hinv.wlp g p (by simp)
    rw [hγ] at hγ'; cases hγ'
    simp only [SrcVal] at hn
    obtain ⟨fp, hfp, rfl⟩ := hn
    have hP0 : predPend futs ((g, some p) :: W) g γ = true := predPend_iff.mpr ⟨p, hpred, .inr (by simp)⟩
    have hP1 : predPend futs W g γ = false := by
      cases h : predPend futs W g γ with
      | false => rfl
      | true =>
        obtain ⟨p', hp', hor⟩ := predPend_iff.mp h
        rw [hpred] at hp'; cases hp'
        rcases hor with h1 | h1
        · rw [hres] at h1; cases h1
        · exact absurd h1 hnd.1
    have hR : rangePend fired ((g, some p) :: W) g γ = rangePend fired W g γ := by
      rw [Bool.eq_iff_iff, rangePend_iff, rangePend_iff]
      simp
    have hv := resolved_val hinv hfp hres
    have e := ok.eq
    have c := ok.cnt
    rw [hP0, hR] at e c
    simp only [if_true, hpred] at e
    rw [hv] at e
    simp only [hP1, Bool.false_eq_true, if_false, b2i] at e c ⊢
    cases hR1 : rangePend fired W g γ <;> simp only [hR1, Bool.false_eq_true, if_false, if_true] at e c ⊢ <;>
      (constructor <;> omega)
  | none =>
    obtain ⟨hfi, γ', hγ', hisr⟩ := hinv.wlr g (by simp)
    rw [hγ] at hγ'; cases hγ'
    have hR0 : rangePend fired ((g, none) :: W) g γ = true := rangePend_iff.mpr ⟨hisr, .inr (by simp)⟩
    have hR1 : rangePend fired W g γ = false := by
      cases h : rangePend fired W g γ with
      | false => rfl
      | true =>
        obtain ⟨_, hor⟩ := rangePend_iff.mp h
        rcases hor with h1 | h1
        · rw [hfi] at h1; cases h1
        · exact absurd h1 hnd.1
    have hP : predPend futs ((g, none) :: W) g γ = predPend futs W g γ := by
      rw [Bool.eq_iff_iff, predPend_iff, predPend_iff]
      simp
    simp only [SrcVal] at hn
    have hρ : ρ g = n := by
      rw [List.contains_iff_mem] at hfi
      simp only [List.mem_map] at hfi
      obtain ⟨e, he, heg⟩ := hfi
      rw [hn e he heg, ← heg]
      exact hc e he
    have e := ok.eq
    have c := ok.cnt
    rw [hR0, hP] at e c
    simp only [if_true, hρ] at e
    simp only [hR1, Bool.false_eq_true, if_false, b2i] at e c ⊢
    cases hP1 : predPend futs W g γ <;> simp only [hP1, Bool.false_eq_true, if_false, if_true] at e c ⊢ <;>
      (constructor <;> omega)

theorem pairs_nodup (g : Nat) : ∀ (cbs : List FCb),
    (cbs.filter fun c => match c with | .update _ => true | .user _ => false).Nodup → (pairs cbs g).Nodup
  | [], _ => by simp [pairs]
  | .user k :: rest, h => by
    simp only [List.filter_cons] at h
    simpa [pairs] using pairs_nodup g rest (by simpa using h)
  | .update x :: rest, h => by
    simp only [List.filter_cons, if_true] at h
    have h' := List.nodup_cons.mp h
    have ih := pairs_nodup g rest h'.2
    have : pairs (.update x :: rest) g = (x, some g) :: pairs rest g := by simp [pairs]
    rw [this, List.nodup_cons]
    refine ⟨?_, ih⟩
    intro hm
    rw [mem_pairs] at hm
    apply h'.1
    simp [List.mem_filter, hm.1]

/-- the heap after the head delivery has been written into futureInt `g` -/
theorem after_set {futs : List Fut} {gh : List GFut} {W : Work} {fired : List (Nat × Int)} {ρ : Rho}
    {g : Nat} {src : Option Nat} (hinv : HeapInv futs gh ((g, src) :: W) fired ρ)
    {f : Fut} {γ : GFut} (hf : futs[g]? = some f) (hγ : gh[g]? = some γ) (f1 : Fut) (W1 : Work)
    (hcase : (f1.numMissing = 0 ∧ f1.cb = [] ∧ W1 = pairs f.cb g ++ W) ∨
             (f1.numMissing ≠ 0 ∧ f1.cb = f.cb ∧ W1 = W))
    (hval : 0 ≤ f1.val)
    (heq : γ.m ρ = f1.val + ((if predPend futs W g γ then predVal gh ρ γ.pred else 0) +
      (if rangePend fired W g γ then ρ g else 0)))
    (hcnt : f1.numMissing = b2i (predPend futs W g γ) + b2i (rangePend fired W g γ))
    (hold : f.numMissing ≠ 0) :
    HeapInv (futs.set g f1) gh W1 fired ρ := by
  have hglt : g < futs.length := by
    rcases Nat.lt_or_ge g futs.length with h | h
    · exact h
    · rw [List.getElem?_eq_none h] at hf; cases hf
  have hnd := List.nodup_cons.mp hinv.wnodup
  have okg := hinv.ok g f γ hf hγ
  have hresg : resolved futs g = false := by
    simp only [resolved, hf]; simpa using hold
  have hres1 : resolved (futs.set g f1) g = (f1.numMissing == 0) := resolved_set_self hglt
  -- membership in the new work list
  have hW1mem : ∀ x s, (x, s) ∈ W1 ↔ ((f1.numMissing = 0 ∧ FCb.update x ∈ f.cb ∧ s = some g) ∨ (x, s) ∈ W) := by
    intro x s
    rcases hcase with ⟨h0, _, rfl⟩ | ⟨h0, _, rfl⟩
    · simp [List.mem_append, mem_pairs, h0]
    · simp [h0]
  -- the waiters of g are younger than g
  have hyoung : ∀ x, FCb.update x ∈ f.cb → g < x := fun x hx => (okg.cbs x hx).1
  -- flags of the other futureInts are unchanged
  have hP : ∀ x γx, x ≠ g → gh[x]? = some γx → ∀ fx, futs[x]? = some fx →
      predPend (futs.set g f1) W1 x γx = predPend futs ((g, src) :: W) x γx := by
    intro x γx hxg hγx fx hfx
    have okx := hinv.ok x fx γx hfx hγx
    rw [Bool.eq_iff_iff, predPend_iff, predPend_iff]
    constructor
    · rintro ⟨p, hp, hor⟩
      refine ⟨p, hp, ?_⟩
      rcases hor with h | h
      · by_cases hpg : p = g
        · subst hpg; exact .inl hresg
        · rw [resolved_set_ne hpg] at h; exact .inl h
      · rw [hW1mem] at h
        rcases h with ⟨_, _, hs⟩ | h
        · cases hs; exact .inl hresg
        · exact .inr (by simp [h])
    · rintro ⟨p, hp, hor⟩
      refine ⟨p, hp, ?_⟩
      rcases hor with h | h
      · by_cases hpg : p = g
        · subst hpg
          obtain ⟨_, hw⟩ := okx.pred p hp
          obtain ⟨fp, hfp, hmem⟩ := hw hresg
          rw [hf] at hfp; cases hfp
          by_cases h0 : f1.numMissing = 0
          · exact .inr ((hW1mem x (some p)).mpr (.inl ⟨h0, hmem, rfl⟩))
          · left; rw [hres1]; simpa using h0
        · rw [resolved_set_ne hpg]; exact .inl h
      · simp only [List.mem_cons, Prod.mk.injEq] at h
        rcases h with ⟨hx, _⟩ | h
        · exact absurd hx hxg
        · exact .inr ((hW1mem x (some p)).mpr (.inr h))
  have hR : ∀ x γx, x ≠ g → rangePend fired W1 x γx = rangePend fired ((g, src) :: W) x γx := by
    intro x γx hxg
    rw [Bool.eq_iff_iff, rangePend_iff, rangePend_iff]
    have : (x, (none : Option Nat)) ∈ W1 ↔ (x, none) ∈ (g, src) :: W := by
      rw [hW1mem]
      simp only [List.mem_cons, Prod.mk.injEq]
      constructor
      · rintro (⟨_, _, h⟩ | h)
        · cases h
        · exact .inr h
      · rintro (⟨h, _⟩ | h)
        · exact absurd h hxg
        · exact .inr h
    rw [this]
  -- flags of g itself
  have hPg : predPend (futs.set g f1) W1 g γ = predPend futs W g γ := by
    rw [Bool.eq_iff_iff, predPend_iff, predPend_iff]
    constructor
    · rintro ⟨p, hp, hor⟩
      have hpl := (okg.pred p hp).1
      refine ⟨p, hp, ?_⟩
      rcases hor with h | h
      · rw [resolved_set_ne (by omega)] at h; exact .inl h
      · rw [hW1mem] at h
        rcases h with ⟨_, hm, _⟩ | h
        · have := hyoung g hm; omega
        · exact .inr h
    · rintro ⟨p, hp, hor⟩
      have hpl := (okg.pred p hp).1
      refine ⟨p, hp, ?_⟩
      rcases hor with h | h
      · rw [resolved_set_ne (by omega)]; exact .inl h
      · exact .inr ((hW1mem g (some p)).mpr (.inr h))
  have hRg : rangePend fired W1 g γ = rangePend fired W g γ := by
    rw [Bool.eq_iff_iff, rangePend_iff, rangePend_iff]
    have : (g, (none : Option Nat)) ∈ W1 ↔ (g, none) ∈ W := by
      rw [hW1mem]
      constructor
      · rintro (⟨_, _, h⟩ | h)
        · cases h
        · exact h
      · exact fun h => .inr h
    rw [this]
  refine ⟨by rw [List.length_set]; exact hinv.len, ?_, ?_, ?_, ?_⟩
  · -- every futureInt
    intro x fx γx hfx hγx
    by_cases hxg : x = g
    · subst hxg
      rw [List.getElem?_set_self hglt] at hfx
      cases hfx
      rw [hγ] at hγx; cases hγx
      refine ⟨?_, ?_, hval, ?_, ?_, ?_, ?_⟩
      · rw [hPg, hRg]; omega
      · rw [hPg, hRg]; exact hcnt
      · intro h0
        rcases hcase with ⟨_, h, _⟩ | ⟨h, _, _⟩
        · exact h
        · exact absurd h0 h
      · intro p hp
        obtain ⟨hpl, hw⟩ := okg.pred p hp
        refine ⟨hpl, ?_⟩
        rw [resolved_set_ne (by omega)]
        intro hr
        obtain ⟨fp, hfp, hmem⟩ := hw hr
        exact ⟨fp, by rw [List.getElem?_set_ne (by omega)]; exact hfp, hmem⟩
      · intro g' hg'
        rcases hcase with ⟨_, h, _⟩ | ⟨_, h, _⟩
        · rw [h] at hg'; simp at hg'
        · rw [h] at hg'; exact okg.cbs g' hg'
      · rcases hcase with ⟨_, h, _⟩ | ⟨_, h, _⟩
        · rw [h]; simp
        · rw [h]; exact okg.nodup
    · rw [List.getElem?_set_ne (Ne.symm hxg)] at hfx
      have okx := hinv.ok x fx γx hfx hγx
      refine ⟨?_, ?_, okx.nonneg, okx.res, ?_, okx.cbs, okx.nodup⟩
      · rw [hP x γx hxg hγx fx hfx, hR x γx hxg]; exact okx.eq
      · rw [hP x γx hxg hγx fx hfx, hR x γx hxg]; exact okx.cnt
      · intro p hp
        obtain ⟨hpl, hw⟩ := okx.pred p hp
        refine ⟨hpl, ?_⟩
        by_cases hpg : p = g
        · subst hpg
          intro hr
          rw [hres1] at hr
          obtain ⟨fp, hfp, hmem⟩ := hw hresg
          rw [hf] at hfp; cases hfp
          refine ⟨f1, List.getElem?_set_self hglt, ?_⟩
          rcases hcase with ⟨h0, _, _⟩ | ⟨_, h, _⟩
          · simp [h0] at hr
          · rw [h]; exact hmem
        · rw [resolved_set_ne hpg, List.getElem?_set_ne (Ne.symm hpg)]
          exact hw
  · -- deliveries of futureInt values in progress
    intro x p hm
    rw [hW1mem] at hm
    rcases hm with ⟨h0, hmem, hs⟩ | hm
    · cases hs
      refine ⟨by rw [hres1]; simpa using h0, ?_⟩
      exact (okg.cbs x hmem).2
    · obtain ⟨hr, hγx⟩ := hinv.wlp x p (by simp [hm])
      refine ⟨?_, hγx⟩
      have : p ≠ g := by intro e; subst e; rw [hresg] at hr; cases hr
      rw [resolved_set_ne this]; exact hr
  · -- deliveries of page counts in progress
    intro x hm
    rw [hW1mem] at hm
    rcases hm with ⟨_, _, hs⟩ | hm
    · cases hs
    · exact hinv.wlr x (by simp [hm])
  · -- no delivery twice
    rcases hcase with ⟨_, _, rfl⟩ | ⟨_, _, rfl⟩
    · rw [List.nodup_append]
      refine ⟨pairs_nodup g f.cb okg.nodup, hnd.2, ?_⟩
      intro a ha b hb hab
      subst hab
      obtain ⟨x, s⟩ := a
      rw [mem_pairs] at ha
      obtain ⟨_, rfl⟩ := ha
      have := (hinv.wlp x g (by simp [hb])).1
      rw [hresg] at this; cases this
    · exact hnd.2

/-- the user callbacks in a callback list -/
def usersOf (cbs : List FCb) : List Nat :=
  cbs.filterMap fun c => match c with
    | .user k => some k
    | .update _ => none

/-- all user callbacks waiting in the heap -/
def heapUsers (futs : List Fut) : List Nat := futs.flatMap fun f => usersOf f.cb

theorem mem_usersOf {cbs : List FCb} {k : Nat} : k ∈ usersOf cbs ↔ FCb.user k ∈ cbs := by
  unfold usersOf
  simp only [List.mem_filterMap]
  constructor
  · rintro ⟨c, hc, h⟩
    cases c with
    | user k' => simp at h; subst h; exact hc
    | update g => simp at h
  · intro h; exact ⟨.user k, h, rfl⟩

theorem heapUsers_set {futs : List Fut} {g : Nat} {f f1 : Fut} (hf : futs[g]? = some f) :
    List.Perm (heapUsers futs) (usersOf f.cb ++ heapUsers (futs.set g { f1 with cb := [] })) := by
  have hglt : g < futs.length := by
    rcases Nat.lt_or_ge g futs.length with h | h
    · exact h
    · rw [List.getElem?_eq_none h] at hf; cases hf
  have hfe : futs[g] = f := by
    rw [List.getElem?_eq_getElem hglt] at hf; simpa using hf
  have e1 : futs = futs.take g ++ f :: futs.drop (g + 1) := by
    rw [← hfe]; simp
  have e2 : futs.set g { f1 with cb := [] } = futs.take g ++ { f1 with cb := [] } :: futs.drop (g + 1) := by
    rw [List.set_eq_take_append_cons_drop]; simp [hglt]
  rw [e2]
  conv => lhs; rw [e1]
  simp only [heapUsers, List.flatMap_append, List.flatMap_cons, usersOf, List.filterMap_nil, List.nil_append]
  exact (List.perm_append_comm_assoc _ _ _)

theorem heapUsers_set_same {futs : List Fut} {g : Nat} {f f1 : Fut} (hf : futs[g]? = some f) (hcb : f1.cb = f.cb) :
    heapUsers (futs.set g f1) = heapUsers futs := by
  have hglt : g < futs.length := by
    rcases Nat.lt_or_ge g futs.length with h | h
    · exact h
    · rw [List.getElem?_eq_none h] at hf; cases hf
  have hfe : futs[g] = f := by
    rw [List.getElem?_eq_getElem hglt] at hf; simpa using hf
  have e1 : futs = futs.take g ++ f :: futs.drop (g + 1) := by
    rw [← hfe]; simp
  have e2 : futs.set g f1 = futs.take g ++ f1 :: futs.drop (g + 1) := by
    rw [List.set_eq_take_append_cons_drop]; simp [hglt]
  rw [e2]
  conv => rhs; rw [e1]
  simp only [heapUsers, List.flatMap_append, List.flatMap_cons, hcb]

section
variable (gh : List GFut) (fired : List (Nat × Int)) (ρ : Rho)

/-- what a delivery (and the deliveries it causes) does to the heap and the log `L` -/
structure Delivered (futs futs' : List Fut) (lo : Nat) (own : List FCb) (v : Int) (L : List (Nat × Int)) : Prop where
  len : futs'.length = futs.length
  frame : ∀ x : Nat, x < lo → futs'[x]? = futs[x]?
  users : ∀ (x : Nat) (f' : Fut), futs'[x]? = some f' → ∀ k, FCb.user k ∈ f'.cb →
    ∃ fx : Fut, futs[x]? = some fx ∧ FCb.user k ∈ fx.cb
  logged : ∀ e ∈ L, (FCb.user e.1 ∈ own ∧ e.2 = v) ∨
    ∃ (x : Nat) (fx : Fut) (γx : GFut), futs[x]? = some fx ∧ gh[x]? = some γx ∧ FCb.user e.1 ∈ fx.cb ∧ e.2 = γx.m ρ
  conserve : List.Perm (usersOf own ++ heapUsers futs) (heapUsers futs' ++ L.map (·.1))

def UStmt (fuel : Nat) : Prop :=
  ∀ (g : Nat) (src : Option Nat) (W : Work) (futs : List Fut) (log : List (Nat × Int)) (f : Fut) (γ : GFut) (n : Int),
    HeapInv futs gh ((g, src) :: W) fired ρ → Cons fired ρ → futs[g]? = some f → gh[g]? = some γ →
    SrcVal futs fired g src n → 0 ≤ n →
    fuel + g ≥ futs.length + 1 →
    ∃ futs' L, updateFut fuel g n { futs := futs, log := log } = .ok { futs := futs', log := log ++ L } ∧
      HeapInv futs' gh W fired ρ ∧ Delivered gh ρ futs futs' g [] 0 L

def DStmt (fuel : Nat) : Prop :=
  ∀ (cbs : List FCb) (p : Nat) (v : Int) (W : Work) (futs : List Fut) (log : List (Nat × Int)) (fp : Fut),
    HeapInv futs gh (pairs cbs p ++ W) fired ρ → Cons fired ρ → futs[p]? = some fp → fp.numMissing = 0 →
    fp.val = v → 0 ≤ v → (∀ x, FCb.update x ∈ cbs → p < x) → fuel + (p + 1) ≥ futs.length + 1 →
    ∃ futs' L, deliver fuel v cbs { futs := futs, log := log } = .ok { futs := futs', log := log ++ L } ∧
      HeapInv futs' gh W fired ρ ∧ Delivered gh ρ futs futs' (p + 1) cbs v L

theorem D_of_U (fuel : Nat) (hU : UStmt gh fired ρ fuel) : DStmt gh fired ρ fuel := by
  intro cbs
  induction cbs with
  | nil =>
    intro p v W futs log fp hinv _ _ _ _ _ _ _
    refine ⟨futs, [], by simp [deliver], by simpa [pairs] using hinv, rfl, fun _ _ => rfl,
      fun x f' h k hk => ⟨f', h, hk⟩, by simp, by simp [usersOf]⟩
  | cons c rest ih =>
    intro p v W futs log fp hinv hc hfp hnm hval hv0 hyoung hfuel
    cases c with
    | user k =>
      have hp : pairs (.user k :: rest) p = pairs rest p := by simp [pairs]
      rw [hp] at hinv
      obtain ⟨futs', L, hd, hinv', dl⟩ := ih p v W futs (log ++ [(k, v)]) fp hinv hc hfp hnm hval hv0
        (fun x hx => hyoung x (by simp [hx])) hfuel
      refine ⟨futs', (k, v) :: L, by simp only [deliver, hd]; simp, hinv', dl.len, dl.frame, dl.users, ?_, ?_⟩
      · intro e he
        simp only [List.mem_cons] at he
        rcases he with rfl | he
        · exact .inl ⟨by simp, rfl⟩
        · rcases dl.logged e he with ⟨h1, h2⟩ | h
          · exact .inl ⟨by simp [h1], h2⟩
          · exact .inr h
      · have : usersOf (.user k :: rest) = k :: usersOf rest := by simp [usersOf]
        rw [this]
        simp only [List.map_cons, List.cons_append]
        refine (List.Perm.cons k dl.conserve).trans ?_
        exact (List.perm_middle).symm
    | update g' =>
      have hp : pairs (.update g' :: rest) p = (g', some p) :: pairs rest p := by simp [pairs]
      rw [hp, List.cons_append] at hinv
      obtain ⟨_, γ', hγ', _⟩ := hinv.wlp g' p (by simp)
      have hg'l : g' < futs.length := by
        rw [← hinv.len]
        rcases Nat.lt_or_ge g' gh.length with h | h
        · exact h
        · rw [List.getElem?_eq_none h] at hγ'; cases hγ'
      have hpg : p < g' := hyoung g' (by simp)
      obtain ⟨futs1, L1, hu, hinv1, d1⟩ := hU g' (some p) (pairs rest p ++ W) futs log futs[g'] γ' v hinv hc
        (List.getElem?_eq_getElem hg'l) hγ' (show SrcVal futs fired g' (some p) v from ⟨fp, hfp, hval.symm⟩) hv0 (by omega)
      have hfp1 : futs1[p]? = some fp := by rw [d1.frame p hpg]; exact hfp
      obtain ⟨futs', L2, hd, hinv', d2⟩ := ih p v W futs1 (log ++ L1) fp hinv1 hc hfp1 hnm hval hv0
        (fun x hx => hyoung x (by simp [hx])) (by rw [d1.len]; exact hfuel)
      refine ⟨futs', L1 ++ L2, by simp only [deliver, hu, hd]; simp, hinv', by rw [d2.len, d1.len], ?_, ?_, ?_, ?_⟩
      · intro x hx
        rw [d2.frame x hx, d1.frame x (by omega)]
      · intro x f' hf' k hk
        obtain ⟨f1, hf1, hk1⟩ := d2.users x f' hf' k hk
        exact d1.users x f1 hf1 k hk1
      · intro e he
        simp only [List.mem_append] at he
        rcases he with he | he
        · rcases d1.logged e he with ⟨h1, _⟩ | h
          · simp at h1
          · exact .inr h
        · rcases d2.logged e he with ⟨h1, h2⟩ | ⟨x, fx, γx, hfx, hγx, hk, hv⟩
          · exact .inl ⟨by simp [h1], h2⟩
          · obtain ⟨f0, hf0, hk0⟩ := d1.users x fx hfx e.1 hk
            exact .inr ⟨x, f0, γx, hf0, hγx, hk0, hv⟩
      · have : usersOf (.update g' :: rest) = usersOf rest := by simp [usersOf]
        rw [this]
        have c1 := d1.conserve
        simp only [usersOf, List.filterMap_nil, List.nil_append] at c1
        have c2 := d2.conserve
        simp only [List.map_append]
        -- usersOf rest ++ HU futs ~ usersOf rest ++ (HU futs1 ++ L1) ~ (HU futs' ++ L2) ++ L1
        refine ((List.Perm.append_left _ c1).trans ?_)
        rw [← List.append_assoc]
        refine ((List.Perm.append_right _ c2).trans ?_)
        rw [List.append_assoc]
        exact List.Perm.append_left _ List.perm_append_comm


theorem U_succ (fuel : Nat) (hD : DStmt gh fired ρ fuel) : UStmt gh fired ρ (fuel + 1) := by
  intro g src W futs log f γ n hinv hc hf hγ hn hn0 hfuel
  have hglt : g < futs.length := by
    rcases Nat.lt_or_ge g futs.length with h | h
    · exact h
    · rw [List.getElem?_eq_none h] at hf; cases hf
  obtain ⟨heq0, hcnt0⟩ := head_facts hinv hc hf hγ hn
  have okg := hinv.ok g f γ hf hγ
  have hfv := okg.nonneg
  have hval : (if n < 0 ∨ f.val < 0 then (-1 : Int) else f.val + n) = f.val + n := by
    have : ¬ (n < 0 ∨ f.val < 0) := by omega
    simp [this]
  have hold : f.numMissing ≠ 0 := by
    have h1 := b2i_nonneg (predPend futs W g γ)
    have h2 := b2i_nonneg (rangePend fired W g γ)
    omega
  unfold updateFut
  simp only [hf, hval]
  by_cases hnm : f.numMissing - 1 = 0
  · -- g is known now: tell the waiters
    have hcond : (f.numMissing - 1 = 0 ∨ f.val + n < 0) := .inl hnm
    simp only [hcond, if_true]
    have hfd := foldl_deliver fuel (f.val + n) f.cb
      { futs := futs.set g { val := f.val + n, numMissing := f.numMissing - 1, cb := [] }, log := log }
    have hP1 : predPend futs W g γ = false := by
      have h1 := b2i_nonneg (predPend futs W g γ)
      have h2 := b2i_nonneg (rangePend fired W g γ)
      exact b2i_eq_zero.mp (by omega)
    have hR1 : rangePend fired W g γ = false := by
      have h1 := b2i_nonneg (predPend futs W g γ)
      have h2 := b2i_nonneg (rangePend fired W g γ)
      exact b2i_eq_zero.mp (by omega)
    have hm : γ.m ρ = f.val + n := by
      simp only [hP1, hR1, Bool.false_eq_true, if_false] at heq0; omega
    have hinv1 := after_set hinv hf hγ { val := f.val + n, numMissing := f.numMissing - 1, cb := [] }
      (pairs f.cb g ++ W) (.inl ⟨hnm, rfl, rfl⟩) (by simp; omega)
      (by simp only [hP1, hR1, Bool.false_eq_true, if_false]; omega)
      (by simp only [hP1, hR1, b2i, Bool.false_eq_true, if_false]; omega) hold
    obtain ⟨futs', L, hd, hinv', dl⟩ := hD f.cb g (f.val + n) W _ log
      { val := f.val + n, numMissing := f.numMissing - 1, cb := [] } hinv1 hc
      (List.getElem?_set_self hglt) hnm rfl (by omega) (fun x hx => (okg.cbs x hx).1)
      (by rw [List.length_set]; omega)
    refine ⟨futs', L, hfd.trans hd, hinv', ?_⟩
    refine ⟨by rw [dl.len, List.length_set], ?_, ?_, ?_, ?_⟩
    · intro x hx
      rw [dl.frame x (by omega), List.getElem?_set_ne (by omega)]
    · intro x f' hf' k hk
      obtain ⟨f1, hf1, hk1⟩ := dl.users x f' hf' k hk
      by_cases hxg : x = g
      · subst hxg
        rw [List.getElem?_set_self hglt] at hf1
        cases hf1; simp at hk1
      · rw [List.getElem?_set_ne (Ne.symm hxg)] at hf1
        exact ⟨f1, hf1, hk1⟩
    · intro e he
      right
      rcases dl.logged e he with ⟨h1, h2⟩ | ⟨x, fx, γx, hfx, hγx, hk, hv⟩
      · exact ⟨g, f, γ, hf, hγ, h1, by rw [h2, hm]⟩
      · by_cases hxg : x = g
        · subst hxg
          rw [List.getElem?_set_self hglt] at hfx
          cases hfx; simp at hk
        · rw [List.getElem?_set_ne (Ne.symm hxg)] at hfx
          exact ⟨x, fx, γx, hfx, hγx, hk, hv⟩
    · simp only [usersOf, List.filterMap_nil, List.nil_append]
      have c := dl.conserve
      exact (heapUsers_set (f1 := { val := f.val + n, numMissing := f.numMissing - 1, cb := [] }) hf).trans c
  · -- g still waits for something else
    have hcond : ¬ (f.numMissing - 1 = 0 ∨ f.val + n < 0) := by omega
    simp only [hcond, if_false]
    have hinv1 := after_set hinv hf hγ { f with val := f.val + n, numMissing := f.numMissing - 1 } W
      (.inr ⟨hnm, rfl, rfl⟩) (by simp; omega) (by simp; omega) (by simp; omega) hold
    refine ⟨_, [], by simp, hinv1, ?_⟩
    refine ⟨by rw [List.length_set], ?_, ?_, by simp, ?_⟩
    · intro x hx; rw [List.getElem?_set_ne (by omega)]
    · intro x f' hf' k hk
      by_cases hxg : x = g
      · subst hxg
        rw [List.getElem?_set_self hglt] at hf'
        cases hf'
        exact ⟨f, hf, hk⟩
      · rw [List.getElem?_set_ne (Ne.symm hxg)] at hf'
        exact ⟨f', hf', hk⟩
    · simp only [usersOf, List.filterMap_nil, List.nil_append, List.map_nil, List.append_nil]
      rw [heapUsers_set_same (f1 := { val := f.val + n, numMissing := f.numMissing - 1, cb := f.cb }) hf rfl]

/-- **`Update` and the deliveries it causes**: the head of the work list is delivered, every
    futureInt that becomes known tells its waiters, user callbacks are logged with the value
    the invariant promises, nothing else changes -/
theorem cascade : ∀ fuel : Nat, UStmt gh fired ρ fuel
  | 0 => by
    intro g src W futs log f γ n _ _ hf _ _ _ hfuel
    have hglt : g < futs.length := by
      rcases Nat.lt_or_ge g futs.length with h | h
      · exact h
      · rw [List.getElem?_eq_none h] at hf; cases hf
    omega
  | fuel + 1 => U_succ gh fired ρ fuel (D_of_U gh fired ρ fuel (cascade fuel))

end
end PdfVerif.C16trsd

import PdfVerif.Props.C13cch
/-!
# C13 (part 9) — `File.All` yields no code twice
-/
namespace PdfVerif.C13cci
open PdfVerif PdfVerif.CC PdfVerif.C13cc PdfVerif.C13ccb PdfVerif.C13ccc PdfVerif.C13ccd PdfVerif.C13ccf PdfVerif.C13cch

/-! ## pigeonhole -/

theorem length_le_of_nodup_subset {α : Type} [DecidableEq α] : ∀ (m k : List α), m.Nodup → (∀ x ∈ m, x ∈ k) →
    m.length ≤ k.length := by
  intro m
  induction m with
  | nil => intro k _ _; simp
  | cons a m ih =>
    intro k hnd hsub
    have hnd' := List.nodup_cons.mp hnd
    have ha : a ∈ k := hsub a (by simp)
    have := ih (k.erase a) hnd'.2 (by
      intro x hx
      have hxa : x ≠ a := fun h => hnd'.1 (h ▸ hx)
      exact (List.mem_erase_of_ne hxa).mpr (hsub x (by simp [hx])))
    rw [List.length_erase_of_mem ha] at this
    have hpos : 0 < k.length := List.length_pos_of_mem ha
    simp only [List.length_cons]; omega

theorem nodup_of_cover {α : Type} [DecidableEq α] : ∀ (m l : List α), m.Nodup → (∀ x ∈ m, x ∈ l) →
    l.length ≤ m.length → l.Nodup := by
  intro m
  induction m with
  | nil =>
    intro l _ _ hlen
    have : l = [] := List.length_eq_zero_iff.mp (by simpa using hlen)
    subst this; simp
  | cons a m ih =>
    intro l hnd hsub hlen
    have hnd' := List.nodup_cons.mp hnd
    have ha : a ∈ l := hsub a (by simp)
    have hsub' : ∀ x ∈ m, x ∈ l.erase a := by
      intro x hx
      have hxa : x ≠ a := fun h => hnd'.1 (h ▸ hx)
      exact (List.mem_erase_of_ne hxa).mpr (hsub x (by simp [hx]))
    have hlen' : (l.erase a).length ≤ m.length := by
      rw [List.length_erase_of_mem ha]; simp only [List.length_cons] at hlen; omega
    have ih' := ih (l.erase a) hnd'.2 hsub' hlen'
    have hnot : a ∉ l.erase a := by
      intro hmem
      -- then m ⊆ (l.erase a).erase a, which is too short
      have h2 := length_le_of_nodup_subset m ((l.erase a).erase a) hnd'.2 (by
        intro x hx
        have hxa : x ≠ a := fun h => hnd'.1 (h ▸ hx)
        exact (List.mem_erase_of_ne hxa).mpr (hsub' x hx))
      rw [List.length_erase_of_mem hmem] at h2
      have := List.length_pos_of_mem hmem
      omega
    exact (List.perm_cons_erase ha).nodup_iff.mpr (List.nodup_cons.mpr ⟨hnot, ih'⟩)

/-! ## `All` yields no code twice -/

theorem allItemsRanges_length : ∀ (ranges : List CRange) (budget : Nat), rangesDemand ranges ≤ budget →
    (allItemsRanges ranges budget).1.length = rangesDemand ranges := by
  intro ranges
  induction ranges with
  | nil => intro _ _; simp [allItemsRanges, rangesDemand]
  | cons r rest ih =>
    intro budget hb
    simp only [rangesDemand] at hb ⊢
    simp only [allItemsRanges, List.length_append, List.length_map]
    rw [codesInRange_len_count r.first r.last budget (by omega), ih _ (by omega)]

theorem allItemsSingles_length : ∀ (singles : List Single) (budget : Nat), singles.length ≤ budget →
    (allItemsSingles singles budget).1.length = singles.length := by
  intro singles
  induction singles with
  | nil => intro _ _; simp [allItemsSingles]
  | cons s rest ih =>
    intro budget hb
    simp only [List.length_cons] at hb
    cases budget with
    | zero => omega
    | succ budget => simp [allItemsSingles, ih budget (by omega)]

theorem allItemsFiles_length (f : CMapFile) (budget : Nat) (hb : rangesDemand f.ranges + f.singles.length ≤ budget)
    (hb2 : budget ≤ maxInt32) :
    (allItemsFiles [f] budget).length = rangesDemand f.ranges + f.singles.length := by
  simp only [allItemsFiles, List.append_nil, List.length_append]
  rw [allItemsRanges_length f.ranges budget (by omega)]
  rw [(allItemsRanges_spec f.ranges budget (by omega) hb2).1]
  rw [allItemsSingles_length f.singles _ (by omega)]

/-- **`All` yields no byte string twice** (before the `Decode` filter): for a map whose codes
have pairwise different byte strings (canonical codes) and at most 2^20 entries, every item of the
enumeration of the file built by `SetMapping` has a different code. -/
theorem all_setMapping_nodup_bytes (csr : CSR) (f f' : CMapFile) (codec : Codec) (data : List (Nat × Nat))
    (hc : newCodec csr = .ok codec)
    (h : setMapping f [] codec data = .ok f')
    (hcid : ∀ p ∈ data, p.2 < 4294967296)
    (hinj : (data.map fun p => codec.appendCode p.1).Nodup)
    (hlen : data.length ≤ Gen.limits_MaxCMapMappings) :
    ((allItemsFiles [f'] Gen.limits_MaxCMapMappings).map Prod.fst).Nodup := by
  have hbytes : ∀ p ∈ data, ∀ bs, codec.appendCode p.1 = .ok bs → AllBytes bs := by
    intro p _ bs hbs
    obtain ⟨bs', _, h2, _, _, h3, _⟩ := C12ccd.append_then_decode csr codec hc p.1
    rw [hbs] at h2; injection h2 with h2; subst h2; exact h3
  have hB2 : Gen.limits_MaxCMapMappings ≤ maxInt32 := by simp [Gen.limits_MaxCMapMappings, maxInt32]
  -- the demand of the built file
  have hdemand : rangesDemand f'.ranges + f'.singles.length = data.length := by
    have h' := h
    unfold setMapping at h'
    split at h'
    · cases h'
    · split at h'
      · cases h'
      · rename_i es hes
        injection h' with h'
        have hs : f'.singles = lefts (outOf es) := by rw [← h']; rfl
        have hr : f'.ranges = rights (outOf es) := by rw [← h']; rfl
        obtain ⟨i1, _⟩ := cidEntries_spec codec data es hes
        have hok : EntriesOK es := by
          intro e he
          obtain ⟨p, hp, h1, h2⟩ := i1 e he
          exact ⟨hbytes p hp _ h1 e.x (by simp), by rw [h2]; exact hcid p hp⟩
        rw [hs, hr, outOf_demand es hok, cidEntries_length codec data es hes]
  have hmem := all_setMapping_bytes f f' codec data h hcid hbytes Gen.limits_MaxCMapMappings (by omega) hB2
  have hlenI := allItemsFiles_length f' Gen.limits_MaxCMapMappings (by omega) hB2
  -- the byte strings of the map, wrapped in `Except.ok`, are pairwise different and all enumerated
  haveI : DecidableEq (Except CErr Bytes) := fun a b => Classical.propDecidable (a = b)
  have hnd : ((allItemsFiles [f'] Gen.limits_MaxCMapMappings).map fun it => (Except.ok it.1 : Except CErr Bytes)).Nodup := by
    apply nodup_of_cover (data.map fun p => codec.appendCode p.1) _ hinj
    · intro x hx
      simp only [List.mem_map] at hx ⊢
      obtain ⟨p, hp, rfl⟩ := hx
      obtain ⟨bs, _, h2, _⟩ := C12ccd.append_then_decode csr codec hc p.1
      exact ⟨(bs, p.2), (hmem bs p.2).mpr ⟨p, hp, h2, rfl⟩, h2.symm⟩
    · simp only [List.length_map]; omega
  unfold List.Nodup at hnd ⊢
  rw [List.pairwise_map] at hnd ⊢
  exact hnd.imp (fun {a b} hab heq => hab (by rw [heq]))


theorem decodeItems_nodup {α : Type} (codec : Codec) : ∀ (items : List (Bytes × α)) (out : List (Nat × α)),
    decodeItems codec items = .ok out → (items.map Prod.fst).Nodup →
    (∀ bs bs' code, bs ∈ items.map Prod.fst → bs' ∈ items.map Prod.fst →
      codec.decode bs = .ok (code, bs.length, true) → codec.decode bs' = .ok (code, bs'.length, true) → bs = bs') →
    (out.map Prod.fst).Nodup := by
  intro items
  induction items with
  | nil => intro out h _ _; simp [decodeItems] at h; subst h; simp
  | cons it items ih =>
    intro out h hnd hinj
    obtain ⟨bs, w⟩ := it
    simp only [List.map_cons, List.nodup_cons] at hnd
    simp only [decodeItems] at h
    split at h
    · cases h
    · rename_i code0 k0 valid0 hr
      split at h
      · cases h
      · rename_i out' ho
        have ih' := ih out' ho hnd.2 (fun a b c ha hb => hinj a b c (by simp [ha]) (by simp [hb]))
        split at h
        · injection h with h; subst h; exact ih'
        · rename_i hkeep
          injection h with h; subst h
          simp only [Bool.or_eq_true, Bool.not_eq_true', bne_iff_ne, ne_eq, not_or, Bool.not_eq_false,
            Decidable.not_not] at hkeep
          simp only [List.map_cons, List.nodup_cons]
          refine ⟨?_, ih'⟩
          intro hmem
          simp only [List.mem_map] at hmem
          obtain ⟨⟨c', v'⟩, hin, hc'⟩ := hmem
          simp only at hc'; subst hc'
          -- that item of `out'` comes from some bytes of the rest
          have hdec : ∀ it ∈ items, ∃ r, codec.decode it.1 = .ok r := by
            intro it hit
            -- decodeItems succeeded on the rest, so every decode succeeded
            have hgen : ∀ (l : List (Bytes × α)) (o : List (Nat × α)), decodeItems codec l = .ok o →
                ∀ it ∈ l, ∃ r, codec.decode it.1 = .ok r := by
              intro l
              induction l with
              | nil => intro _ _ it hit; simp at hit
              | cons x l ihl =>
                intro o ho it hit
                obtain ⟨xb, xw⟩ := x
                simp only [decodeItems] at ho
                split at ho
                · cases ho
                · rename_i c k v hx
                  split at ho
                  · cases ho
                  · rename_i o' ho'
                    rcases List.mem_cons.mp hit with rfl | hit
                    · exact ⟨_, hx⟩
                    · exact ihl o' ho' it hit
            exact hgen items out' ho it hit
          obtain ⟨out2, ho2, hm2⟩ := decodeItems_spec codec items hdec
          rw [ho] at ho2; injection ho2 with ho2; subst ho2
          obtain ⟨bs', hbs', hd'⟩ := (hm2 c' v').mp hin
          have hbs'mem : bs' ∈ items.map Prod.fst := List.mem_map.mpr ⟨(bs', v'), hbs', rfl⟩
          have := hinj bs bs' c' (by simp) (by simp [hbs'mem]) (by rw [hr, hkeep.1, hkeep.2]) hd'
          exact hnd.1 (this ▸ hbs'mem)

/-- **`File.All` yields no code twice**: for a map with canonical codes (pairwise different byte
strings) and at most 2^20 entries, the codes yielded by `All` on the file built by `SetMapping`
are pairwise different (together with `all_setMapping_total`: `All` enumerates exactly the valid
codes of the map, each exactly once). -/
theorem all_setMapping_nodup (csr : CSR) (f f' : CMapFile) (codec : Codec) (data : List (Nat × Nat))
    (hc : newCodec csr = .ok codec)
    (h : setMapping f [] codec data = .ok f')
    (hcid : ∀ p ∈ data, p.2 < 4294967296)
    (hinj : (data.map fun p => codec.appendCode p.1).Nodup)
    (hlen : data.length ≤ Gen.limits_MaxCMapMappings)
    (out : List (Nat × Nat)) (ho : cmapAll [f'] codec = .ok out) :
    (out.map Prod.fst).Nodup := by
  have hbytes : ∀ p ∈ data, ∀ bs, codec.appendCode p.1 = .ok bs → AllBytes bs := by
    intro p _ bs hbs
    obtain ⟨bs', _, h2, _, _, h3, _⟩ := C12ccd.append_then_decode csr codec hc p.1
    rw [hbs] at h2; injection h2 with h2; subst h2; exact h3
  have hnd := all_setMapping_nodup_bytes csr f f' codec data hc h hcid hinj hlen
  unfold cmapAll at ho
  simp only [List.reverse_cons, List.reverse_nil, List.nil_append] at ho
  apply decodeItems_nodup codec _ out ho hnd
  intro bs bs' code hb hb' hd hd'
  -- both byte strings are byte strings of map entries, hence made of bytes
  have hab : ∀ b, b ∈ (allItemsFiles [f'] Gen.limits_MaxCMapMappings).map Prod.fst → AllBytes b := by
    intro b hbm
    simp only [List.mem_map] at hbm
    obtain ⟨⟨b1, v1⟩, hin, rfl⟩ := hbm
    -- demand bound as in `all_setMapping_total`
    have hdem : rangesDemand f'.ranges + f'.singles.length ≤ Gen.limits_MaxCMapMappings := by
      have h' := h
      unfold setMapping at h'
      split at h'
      · cases h'
      · split at h'
        · cases h'
        · rename_i es hes
          injection h' with h'
          have hs : f'.singles = lefts (outOf es) := by rw [← h']; rfl
          have hr : f'.ranges = rights (outOf es) := by rw [← h']; rfl
          obtain ⟨i1, _⟩ := cidEntries_spec codec data es hes
          have hok : EntriesOK es := by
            intro e he
            obtain ⟨p, hp, h1, h2⟩ := i1 e he
            exact ⟨hbytes p hp _ h1 e.x (by simp), by rw [h2]; exact hcid p hp⟩
          rw [hs, hr, outOf_demand es hok, cidEntries_length codec data es hes]; exact hlen
    obtain ⟨p, hp, h1, _⟩ := (all_setMapping_bytes f f' codec data h hcid hbytes Gen.limits_MaxCMapMappings hdem
      (by simp [Gen.limits_MaxCMapMappings, maxInt32]) b1 v1).mp hin
    exact hbytes p hp _ h1
  have e1 := C12ccd.decode_then_append csr codec hc bs (hab bs hb) code bs.length hd
  have e2 := C12ccd.decode_then_append csr codec hc bs' (hab bs' hb') code bs'.length hd'
  simp only [List.take_length] at e1 e2
  rw [e1] at e2; injection e2

end PdfVerif.C13cci

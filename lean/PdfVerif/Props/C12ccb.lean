import PdfVerif.Props.C12cc
/-!
# C12 (part 2) — `Codec.Decode` on the linearised tree

`Decode` (Model/CCCodec.lean `decodeLoop`, mirroring `font/charcode/codec.go`) run on a node
array that represents the tree of `newTree` (`reprOK`) returns exactly what the reference
semantics of ISO 32000-2 9.7.6.3 prescribes; consumption bounds; the code is the little-endian
value of the consumed bytes.  That `linearize` always produces such an array is
`Props/C12ccc.lean`.
-/
namespace PdfVerif.C12ccb
open PdfVerif PdfVerif.CC PdfVerif.Spec.CodeSpace PdfVerif.C12cc

/-! ## the decoder loop on a linearised tree that represents `tree` -/

/-- the `switch next` of `Codec.Decode` -/
def cont (nodes : List LNode) (next : Nat) (s : Bytes) (code consumed : Nat) : Except CErr (Nat × Nat × Bool) :=
  if next == Gen.cc_validLeaf then .ok (code, consumed, true)
  else if next == Gen.cc_invalidConsume3 then
    let r := takeInvalid 3 s code consumed; .ok (r.1, r.2, false)
  else if next == Gen.cc_invalidConsume2 then
    let r := takeInvalid 2 s code consumed; .ok (r.1, r.2, false)
  else if next == Gen.cc_invalidConsume1 then
    let r := takeInvalid 1 s code consumed; .ok (r.1, r.2, false)
  else if next == Gen.cc_invalidConsume0 then .ok (code, consumed, false)
  else decodeLoop nodes s next code consumed

theorem decodeLoop_cons (nodes : List LNode) (b : Nat) (s : Bytes) (cur code consumed : Nat) :
    decodeLoop nodes (b :: s) cur code consumed =
      match scan nodes nodes.length cur b with
      | none => .error .panic
      | some (_, node) => cont nodes node.child s (orByte code b consumed) (consumed + 1) := by
  rw [decodeLoop]
  cases scan nodes nodes.length cur b with
  | none => rfl
  | some p => obtain ⟨i, node⟩ := p; rfl

/-- the code value accumulated from further bytes -/
def accum : Bytes → (code consumed : Nat) → Nat
  | [], code, _ => code
  | b :: bs, code, consumed => accum bs (orByte code b consumed) (consumed + 1)

theorem takeInvalid_eq : ∀ (k : Nat) (s : Bytes) (code consumed : Nat),
    takeInvalid k s code consumed = (accum (s.take (min k s.length)) code consumed, consumed + min k s.length) := by
  intro k
  induction k with
  | zero => intro s code consumed; simp [takeInvalid, accum]
  | succ k ih =>
    intro s code consumed
    cases s with
    | nil => simp [takeInvalid, accum]
    | cons b s =>
      simp only [takeInvalid, ih, List.length_cons]
      have : min (k + 1) (s.length + 1) = min k s.length + 1 := by omega
      rw [this]
      simp [accum]; omega

theorem scan_fuel (nodes : List LNode) : ∀ (f1 f2 cur b : Nat), nodes.length ≤ cur + f1 → nodes.length ≤ cur + f2 →
    scan nodes f1 cur b = scan nodes f2 cur b := by
  intro f1
  induction f1 with
  | zero =>
    intro f2 cur b h1 h2
    have : nodes[cur]? = none := by simp; omega
    cases f2 <;> simp [scan, this]
  | succ f1 ih =>
    intro f2 cur b h1 h2
    cases f2 with
    | zero =>
      have : nodes[cur]? = none := by simp; omega
      simp [scan, this]
    | succ f2 =>
      simp only [scan]
      cases h : nodes[cur]? with
      | none => rfl
      | some n =>
        simp only
        split
        · rfl
        · exact ih f2 (cur + 1) b (by omega) (by omega)

theorem scan_hit (nodes : List LNode) (cur b : Nat) (ln : LNode) (h : nodes[cur]? = some ln) (hb : b ≤ ln.bound) :
    scan nodes nodes.length cur b = some (cur, ln) := by
  have hl : cur < nodes.length := by
    have := List.getElem?_eq_some_iff.mp h; exact this.1
  cases hn : nodes.length with
  | zero => omega
  | succ n => simp [scan, h, hb]

theorem scan_miss (nodes : List LNode) (cur b : Nat) (ln : LNode) (h : nodes[cur]? = some ln) (hb : ¬ b ≤ ln.bound) :
    scan nodes nodes.length cur b = scan nodes nodes.length (cur + 1) b := by
  have hl : cur < nodes.length := by
    have := List.getElem?_eq_some_iff.mp h; exact this.1
  cases hn : nodes.length with
  | zero => omega
  | succ n =>
    simp only [scan, h, hb, if_false]
    exact scan_fuel nodes n (n + 1) (cur + 1) b (by omega) (by omega)

theorem decodeLoop_miss (nodes : List LNode) (cur b : Nat) (s : Bytes) (code consumed : Nat) (ln : LNode)
    (h : nodes[cur]? = some ln) (hb : ¬ b ≤ ln.bound) :
    decodeLoop nodes (b :: s) cur code consumed = decodeLoop nodes (b :: s) (cur + 1) code consumed := by
  rw [decodeLoop_cons, decodeLoop_cons, scan_miss nodes cur b ln h hb]

mutual
theorem node_dec (nodes : List LNode) (n : Node) (c : Nat) (hr : childOK nodes n c = true) (hc : n.covers = true)
    (s : Bytes) (hs : AllBytes s) (code consumed : Nat) :
    cont nodes c s code consumed =
      .ok (accum (s.take (n.dec s).1) code consumed, consumed + (n.dec s).1, (n.dec s).2) := by
  match n with
  | .valid =>
    simp only [childOK, beq_iff_eq] at hr
    simp [cont, hr, Node.dec, accum]
  | .invalid k =>
    simp only [childOK, Bool.and_eq_true, decide_eq_true_eq, beq_iff_eq] at hr
    obtain ⟨hk, hc⟩ := hr
    have : k = 0 ∨ k = 1 ∨ k = 2 ∨ k = 3 := by omega
    rcases this with rfl | rfl | rfl | rfl <;>
      simp [cont, hc, Node.dec, takeInvalid_eq, Gen.cc_invalidConsume0, Gen.cc_invalidConsume1,
        Gen.cc_invalidConsume2, Gen.cc_invalidConsume3, Gen.cc_validLeaf, accum]
  | .sub cs =>
    simp only [childOK, Bool.and_eq_true, bne_iff_ne, ne_eq, decide_eq_true_eq] at hr
    obtain ⟨⟨h0, hlt⟩, hrep⟩ := hr
    have e : cont nodes c s code consumed = decodeLoop nodes s c code consumed := by
      simp only [cont, Gen.cc_validLeaf, Gen.cc_invalidConsume0, Gen.cc_invalidConsume1,
        Gen.cc_invalidConsume2, Gen.cc_invalidConsume3, Gen.cc_maxNodes] at *
      have h1 : (c == 0) = false := by simpa using h0
      have h2 : (c == 65532) = false := by simp; omega
      have h3 : (c == 65533) = false := by simp; omega
      have h4 : (c == 65534) = false := by simp; omega
      have h5 : (c == 65535) = false := by simp; omega
      simp [h1, h2, h3, h4, h5]
    rw [e]
    simp only [Node.dec]
    simp only [Node.covers] at hc
    exact kids_dec nodes cs c hrep hc s hs code consumed
theorem kids_dec (nodes : List LNode) (cs : List (Nat × Node)) (idx : Nat) (hr : reprOK nodes cs idx = true)
    (hc : kidsCover cs = true) (s : Bytes) (hs : AllBytes s) (code consumed : Nat) :
    decodeLoop nodes s idx code consumed =
      .ok (accum (s.take (kidsDec cs s).1) code consumed, consumed + (kidsDec cs s).1, (kidsDec cs s).2) := by
  match cs, s with
  | cs, [] => simp [decodeLoop, kidsDec_nil, accum]
  | [], _ :: _ => simp [kidsCover] at hc
  | (hi, n) :: rest, b :: s =>
    have hb : b < 256 := by simp [AllBytes] at hs; exact hs.1
    have hs' : AllBytes s := by simp [AllBytes] at hs ⊢; exact hs.2
    simp only [reprOK] at hr
    split at hr
    · cases hr
    · rename_i ln hln
      simp only [Bool.and_eq_true, beq_iff_eq] at hr
      obtain ⟨⟨hbound, hchild⟩, hrest⟩ := hr
      by_cases hsel : b ≤ hi
      · have hcov : n.covers = true := by
          cases rest with
          | nil => simp [kidsCover] at hc; exact hc.2
          | cons _ _ => simp [kidsCover] at hc; exact hc.1
        rw [decodeLoop_cons, scan_hit nodes idx b ln hln (by omega)]
        simp only
        rw [node_dec nodes n ln.child hchild hcov s hs']
        simp only [kidsDec, hsel, if_true, List.take_succ_cons, accum]
        simp only [Except.ok.injEq, Prod.mk.injEq, and_true, true_and]
        omega
      · cases rest with
        | nil =>
          simp [kidsCover] at hc
          omega
        | cons kid rest' =>
          have hcov : kidsCover (kid :: rest') = true := by simp [kidsCover] at hc; exact hc.2
          rw [decodeLoop_miss nodes idx b s code consumed ln hln (by omega)]
          rw [kids_dec nodes (kid :: rest') (idx + 1) hrest hcov (b :: s) hs code consumed]
          simp only [kidsDec, hsel, if_false]
end


/-! ## every child list built by `newTree` ends with the bound 255 -/

theorem kidsCover_cons (kid : Nat × Node) (kids : List (Nat × Node)) (h1 : kid.2.covers = true)
    (h2 : kidsCover kids = true) : kidsCover (kid :: kids) = true := by
  obtain ⟨hi, n⟩ := kid
  cases kids with
  | nil => simp [kidsCover] at h2
  | cons k ks => simp [kidsCover, h1, h2]

theorem scan_cover (f : Nat × Nat → Except CErr (Nat × Node)) (p : Nat → Bool) (h256 : p 256 = true)
    (hf : ∀ iv kid, f iv = .ok kid → kid.1 = iv.2 ∧ kid.2.covers = true) :
    ∀ n x lo, x + n = 257 → lo < x → x ≤ 256 →
    ∀ kids, mapE f (intervals (lo :: (List.range' x n).filter p)) = .ok kids → kidsCover kids = true := by
  intro n
  induction n with
  | zero => intro x lo hx hlo hx2; omega
  | succ n ihn =>
    intro x lo hx hlo hx2 kids hk
    rw [List.range'_succ, List.filter_cons] at hk
    by_cases hp : p x = true
    · simp only [hp, if_true, intervals, mapE] at hk
      split at hk
      · cases hk
      · rename_i kid hkid
        split at hk
        · cases hk
        · rename_i kids' hkids'
          injection hk with hk; subst hk
          obtain ⟨e1, e2⟩ := hf _ _ hkid
          by_cases h6 : x = 256
          · subst h6
            have hn : n = 0 := by omega
            subst hn
            simp [intervals, mapE] at hkids'
            subst hkids'
            obtain ⟨k1, k2⟩ := kid
            simp only at e1 e2
            simp [kidsCover, e1, e2]
          · exact kidsCover_cons kid kids' e2 (ihn (x + 1) x (by omega) (by omega) (by omega) kids' hkids')
    · have hp' : p x = false := by simpa using hp
      have : x ≠ 256 := by intro h; subst h; simp [h256] at hp'
      simp only [hp', Bool.false_eq_true, if_false] at hk
      exact ihn (x + 1) lo (by omega) (by omega) (by omega) kids hk

theorem newTree_covers : ∀ (fuel : Nat) (S : CSR) (d : Nat) (cs : List (Nat × Node)),
    newTree fuel S d = .ok cs → kidsCover cs = true := by
  intro fuel
  induction fuel with
  | zero => intro S d cs h; simp [newTree] at h
  | succ fuel ih =>
    intro S d cs h
    simp only [newTree] at h
    split at h
    · cases h
    · have e : breaks S d = 0 :: (List.range' 1 256).filter (isBreak S d) := by
        have : isBreak S d 0 = true := by simp [isBreak]
        simp only [breaks, List.range_eq_range']
        rw [show (257 : Nat) = 256 + 1 from rfl, List.range'_succ, List.filter_cons]
        simp [this]
      rw [e] at h
      refine scan_cover _ (isBreak S d) (by simp [isBreak]) ?_ 256 1 0 rfl (by omega) (by omega) cs h
      intro iv kid hkid
      simp only [nodeFor] at hkid
      split at hkid
      · injection hkid with hkid; subst hkid; simp [Node.covers]
      · split at hkid
        · injection hkid with hkid; subst hkid; simp [Node.covers]
        · split at hkid
          · split at hkid
            · rename_i cs' hcs'
              injection hkid with hkid; subst hkid
              simp [Node.covers, ih _ _ _ hcs']
            · cases hkid
          · cases hkid

/-! ## the accumulated code is the little-endian value of the consumed bytes -/

theorem orByte_eq (code b consumed : Nat) (hc : code < 256 ^ consumed) (hb : b < 256) (h4 : consumed < 4) :
    orByte code b consumed = code + 256 ^ consumed * b := by
  unfold orByte
  have h2 : (256 : Nat) ^ consumed = 2 ^ (8 * consumed) := by
    rw [show (256 : Nat) = 2 ^ 8 from rfl, ← Nat.pow_mul]
  have hlt : code < 2 ^ (8 * consumed) := by rw [← h2]; exact hc
  rw [Nat.or_comm, ← Nat.shiftLeft_add_eq_or_of_lt hlt, Nat.shiftLeft_eq, ← h2]
  have : b * 256 ^ consumed + code < 4294967296 := by
    have : consumed = 0 ∨ consumed = 1 ∨ consumed = 2 ∨ consumed = 3 := by omega
    rcases this with rfl | rfl | rfl | rfl <;> simp at hc ⊢ <;> omega
  rw [Nat.mod_eq_of_lt this, Nat.mul_comm]; omega

theorem accum_eq : ∀ (bs : Bytes) (code consumed : Nat), AllBytes bs → code < 256 ^ consumed →
    consumed + bs.length ≤ 4 → accum bs code consumed = code + 256 ^ consumed * codeValue bs := by
  intro bs
  induction bs with
  | nil => intro code consumed _ _ _; simp [accum, codeValue]
  | cons b bs ih =>
    intro code consumed hbs hc hl
    have hb : b < 256 := by simp [AllBytes] at hbs; exact hbs.1
    have hbs' : AllBytes bs := by simp [AllBytes] at hbs ⊢; exact hbs.2
    simp only [List.length_cons] at hl
    simp only [accum, codeValue]
    rw [orByte_eq code b consumed hc hb (by omega)]
    rw [ih _ _ hbs' (by
      rw [Nat.pow_succ]
      have : 256 ^ consumed * b ≤ 256 ^ consumed * 255 := Nat.mul_le_mul_left _ (by omega)
      omega) (by omega)]
    rw [Nat.pow_succ, Nat.mul_add, Nat.mul_assoc]
    omega


/-! ## bounds of the reference semantics -/

theorem foldl_min_bounds (l : List Nat) (a m : Nat) (hm : m ≤ a) (hl : ∀ x ∈ l, m ≤ x) :
    m ≤ l.foldl Nat.min a ∧ l.foldl Nat.min a ≤ a := by
  induction l generalizing a with
  | nil => simp; exact hm
  | cons x l ih =>
    simp only [List.foldl_cons]
    have hx := hl x (by simp)
    have := ih (Nat.min a x) (by simp [Nat.min_def]; split <;> omega) (fun y hy => hl y (by simp [hy]))
    refine ⟨this.1, Nat.le_trans this.2 (Nat.min_le_left a x)⟩

theorem shortest_bounds (l : List Nat) (h : ∀ x ∈ l, 1 ≤ x ∧ x ≤ 4) : 1 ≤ shortest l ∧ shortest l ≤ 4 := by
  cases l with
  | nil => simp [shortest]
  | cons a l =>
    simp only [shortest]
    have ha := h a (by simp)
    have := foldl_min_bounds l a 1 ha.1 (fun x hx => (h x (by simp [hx])).1)
    omega

theorem spec_bounds (csr : List CodeRange) (hwf : ∀ r ∈ csr, 1 ≤ r.len ∧ r.len ≤ 4) (s : List Nat) (hs : s ≠ []) :
    1 ≤ (decode csr s).1 ∧ (decode csr s).1 ≤ s.length ∧ (decode csr s).1 ≤ 4 := by
  unfold decode
  have hlen : 1 ≤ s.length := by cases s; exact absurd rfl hs; simp
  have : s.isEmpty = false := by cases s <;> simp_all
  simp only [this, Bool.false_eq_true, if_false]
  split
  · rename_i r hr
    have h1 := List.mem_of_find?_eq_some hr
    have h2 := List.find?_some hr
    have h3 := (withinFirst_len _ _ _ _ h2).2.2
    have := hwf r h1
    simp only [CodeRange.len] at *
    omega
  · simp only
    have := shortest_bounds ((csr.filter fun r => r.matchesUpTo s (longestPartial csr s)).map CodeRange.len) (by
      intro x hx
      simp only [List.mem_map, List.mem_filter] at hx
      obtain ⟨r, ⟨hr, _⟩, rfl⟩ := hx
      exact hwf r hr)
    simp only [Nat.min_def]
    split <;> omega

theorem isValid_len (r : Range) (h : r.isValid = true) : 1 ≤ r.low.length ∧ r.low.length ≤ 4 := by
  unfold Range.isValid at h
  split at h
  · cases h
  · rename_i hc
    simp at hc
    have : r.low.length ≠ 0 := by intro h0; exact hc.1.2 (List.length_eq_zero_iff.mp h0)
    omega

/-- **`decode_spec` (relative to the representation certificate).**  If the node array of the
codec represents the tree that `newTree` built from `csr`, then `Codec.Decode` returns, for every
byte string, exactly what ISO 32000-2 9.7.6.3 prescribes: the number of bytes consumed, the
validity, and as code the little-endian value of the consumed bytes; it never panics. -/
theorem decode_spec (csr : CSR) (tree : List (Nat × Node)) (c : Codec)
    (hv : ∀ r ∈ csr, r.isValid = true) (hT : newTree 4 csr 0 = .ok tree)
    (hR : reprOK c.nodes tree 0 = true) (s : Bytes) (hs : AllBytes s) :
    c.decode s = .ok (codeValue (s.take (decode (toSpec csr) s).1), (decode (toSpec csr) s).1,
                      (decode (toSpec csr) s).2) := by
  unfold Codec.decode
  rw [kids_dec c.nodes tree 0 hR (newTree_covers 4 csr 0 tree hT) s hs 0 0]
  rw [tree_sem csr tree hT s hs]
  have hwf : ∀ r ∈ toSpec csr, 1 ≤ r.len ∧ r.len ≤ 4 := by
    intro r hr
    simp only [toSpec, List.mem_map] at hr
    obtain ⟨r', hr', rfl⟩ := hr
    exact isValid_len r' (hv r' hr')
  have hle : (decode (toSpec csr) s).1 ≤ 4 := by
    by_cases h : s = []
    · subst h; simp [decode]
    · exact (spec_bounds _ hwf s h).2.2
  rw [accum_eq _ 0 0 (by intro b hb; exact hs b (List.mem_of_mem_take hb)) (by simp)
    (by simp only [List.length_take, Nat.zero_add]; omega)]
  simp

/-- **Consumption bounds.**  `Decode` consumes at least one byte of a non-empty input, never more
than the input holds, and at most four. -/
theorem decode_consumed (csr : CSR) (tree : List (Nat × Node)) (c : Codec)
    (hv : ∀ r ∈ csr, r.isValid = true) (hT : newTree 4 csr 0 = .ok tree)
    (hR : reprOK c.nodes tree 0 = true) (s : Bytes) (hs : AllBytes s) :
    ∃ code n v, c.decode s = .ok (code, n, v) ∧ n ≤ s.length ∧ n ≤ 4 ∧ (s ≠ [] → 1 ≤ n) ∧
      (s = [] → code = 0 ∧ v = false) := by
  refine ⟨_, _, _, decode_spec csr tree c hv hT hR s hs, ?_⟩
  have hwf : ∀ r ∈ toSpec csr, 1 ≤ r.len ∧ r.len ≤ 4 := by
    intro r hr
    simp only [toSpec, List.mem_map] at hr
    obtain ⟨r', hr', rfl⟩ := hr
    exact isValid_len r' (hv r' hr')
  by_cases h : s = []
  · subst h; simp [decode, codeValue]
  · have := spec_bounds _ hwf s h
    exact ⟨this.2.1, this.2.2, fun _ => this.1, fun h' => absurd h' h⟩

end PdfVerif.C12ccb

import PdfVerif.Props.C15cnto
import PdfVerif.Props.C15cntd
/-!
# C15 — composite operands of nesting depth one

`ops_rt`/`split_rt` for operators whose operands are flat operands, **arrays of flat operands**
(`TJ`, `d`, `SCN` …) and **dictionaries with flat values** (`BDC`/`DP` property lists) — the
explicit composite stack of `Scan` (`[`/`]`/`<<`/`>>` frames), the `needSep` threading of
`pdf.Format` inside composites, and the dictionary built at `>>`.  Arbitrary nesting is proved in
`Props/C15cntm.lean` (which reuses the lemmas of this file).
-/
namespace PdfVerif.C15cntn
open PdfVerif PdfVerif.CNT PdfVerif.C15cnt PdfVerif.C15cnto PdfVerif.C15cntd


/-- atoms inside composites: written with the `needSep` threading of `Format` -/
theorem atom_seq (x : Obj) (h : FlatOk x) (ns : Bool) (bs : Bytes) (ns' : Bool)
    (hb : fmtObj copt ns x = some (bs, ns')) (rest : Bytes) (hend : ns' = true → TokEnd rest) :
    scanToken (bs ++ rest) = .ok (normA x) rest := by
  have sepSkip : ∀ (w : Bytes), scanToken (sep ns ++ w ++ rest) = scanToken (w ++ rest) := by
    intro w
    cases ns with
    | false => simp [sep]
    | true => simp [sep]; exact scanToken_space 32 _ cSpace_32
  cases x with
  | null =>
    simp [fmtObj] at hb
    obtain ⟨h1, h2⟩ := hb
    subst h1 h2
    rw [sepSkip]
    exact regTok_scan _ _ regTok_null _ (hend rfl)
  | nilArr =>
    simp [fmtObj] at hb
    obtain ⟨h1, h2⟩ := hb
    subst h1 h2
    rw [sepSkip]
    exact regTok_scan _ _ regTok_null _ (hend rfl)
  | bool b =>
    cases b with
    | true =>
      simp [fmtObj] at hb
      obtain ⟨h1, h2⟩ := hb
      subst h1 h2
      rw [sepSkip]
      exact regTok_scan _ _ regTok_true _ (hend rfl)
    | false =>
      simp [fmtObj] at hb
      obtain ⟨h1, h2⟩ := hb
      subst h1 h2
      rw [sepSkip]
      exact regTok_scan _ _ regTok_false _ (hend rfl)
  | int i =>
    simp [fmtObj] at hb
    obtain ⟨h1, h2⟩ := hb
    subst h1 h2
    rw [sepSkip]
    exact regTok_scan _ _ h _ (hend rfl)
  | real t =>
    simp [fmtObj] at hb
    obtain ⟨h1, h2⟩ := hb
    subst h1 h2
    rw [sepSkip]
    exact regTok_scan _ _ h _ (hend rfl)
  | name n =>
    simp [fmtObj] at hb
    obtain ⟨h1, h2⟩ := hb
    subst h1 h2
    exact name_rt n h.1 h.2 _ (hend rfl)
  | str s =>
    simp [fmtObj, fmtString, copt] at hb
    obtain ⟨h1, h2⟩ := hb
    subst h1 h2
    exact string_rt s h _
  | op o => exact absurd h (by simp [FlatOk])
  | ref a b => exact absurd h (by simp [FlatOk])
  | arr xs => exact absurd h (by simp [FlatOk])
  | dict kv => exact absurd h (by simp [FlatOk])

/-- with `needSep` set, the written form of an atom starts with a non-regular byte -/
theorem atom_head (x : Obj) (h : FlatOk x) (bs : Bytes) (ns' : Bool)
    (hb : fmtObj copt true x = some (bs, ns')) : ∃ c tl, bs = c :: tl ∧ cReg c = false := by
  have h47 : cReg 47 = false := by decide +kernel
  have h40 : cReg 40 = false := by decide +kernel
  cases x with
  | null => simp [fmtObj, sep] at hb; exact ⟨32, _, hb.1.symm, cReg_32⟩
  | nilArr => simp [fmtObj, sep] at hb; exact ⟨32, _, hb.1.symm, cReg_32⟩
  | bool b => cases b <;> (simp [fmtObj, sep] at hb; exact ⟨32, _, hb.1.symm, cReg_32⟩)
  | int i => simp [fmtObj, sep] at hb; exact ⟨32, _, hb.1.symm, cReg_32⟩
  | real t => simp [fmtObj, sep] at hb; exact ⟨32, _, hb.1.symm, cReg_32⟩
  | name n => simp [fmtObj, fmtName] at hb; exact ⟨47, _, hb.1.symm, h47⟩
  | str s => simp [fmtObj, fmtString, copt, fmtStrLiteral] at hb; exact ⟨40, _, hb.1.symm, h40⟩
  | op o => exact absurd h (by simp [FlatOk])
  | ref a b => exact absurd h (by simp [FlatOk])
  | arr xs => exact absurd h (by simp [FlatOk])
  | dict kv => exact absurd h (by simp [FlatOk])

theorem tokEnd_of_head (bs rest : Bytes) (h : ∃ c tl, bs = c :: tl ∧ cReg c = false) : TokEnd (bs ++ rest) := by
  obtain ⟨c, tl, e, hc⟩ := h
  subst e
  exact hc

/-- inside an open composite an operand (or anything that is not a structural token) is
appended to the innermost frame -/
theorem step_in_frame (top : Frame) (below : List Frame) (args : List Obj) (o : Obj) (hno : ∀ n, o ≠ .op n)
    (hcap : top.data.length < (if top.isDict then 2 * Gen.content_maxDictLen else Gen.content_maxArrayLen)) :
    step (top :: below) args o = .cont ({ top with data := top.data ++ [o] } :: below) args := by
  have : ¬ ((if top.isDict then 2 * Gen.content_maxDictLen else Gen.content_maxArrayLen) ≤ top.data.length) := by omega
  cases o <;> simp_all [step, deliver]

/-- **The elements of an array of flat operands** are appended to the open array frame one by
one; the loop then stands before the closing bracket. -/
theorem arr_elems (xs : List Obj) : ∀ (ns : Bool) (d : List Obj) (below : List Frame) (args : List Obj)
    (body rest : Bytes) (fuel : Nat),
    (∀ x ∈ xs, FlatOk x) → fmtSeq copt ns xs = some body →
    d.length + xs.length ≤ Gen.content_maxArrayLen → fuel ≥ xs.length →
    scanLoop fuel ({ isDict := false, data := d } :: below) args (body ++ 93 :: rest) =
      scanLoop (fuel - xs.length) ({ isDict := false, data := d ++ xs.map normA } :: below) args (93 :: rest) := by
  have h93 : cReg 93 = false := by decide +kernel
  induction xs with
  | nil =>
    intro ns d below args body rest fuel _ hb _ _
    simp [fmtSeq] at hb
    subst hb
    simp
  | cons x xs ih =>
    intro ns d below args body rest fuel hflat hb hcap hfuel
    simp only [fmtSeq] at hb
    cases hx : fmtObj copt ns x with
    | none => simp [hx] at hb
    | some p =>
      obtain ⟨a, ns1⟩ := p
      cases hy : fmtSeq copt ns1 xs with
      | none => simp [hx, hy] at hb
      | some b =>
        simp [hx, hy] at hb
        subst hb
        have hfx := hflat x (by simp)
        -- what follows the element ends its token
        have hend : ns1 = true → TokEnd (b ++ 93 :: rest) := by
          intro hns
          subst hns
          match xs, hy with
          | [], hy => simp [fmtSeq] at hy; subst hy; exact h93
          | y :: ys, hy =>
            simp only [fmtSeq] at hy
            cases hy1 : fmtObj copt true y with
            | none => simp [hy1] at hy
            | some q =>
              obtain ⟨c, ns2⟩ := q
              cases hy2 : fmtSeq copt ns2 ys with
              | none => simp [hy1, hy2] at hy
              | some c2 =>
                simp [hy1, hy2] at hy
                subst hy
                have := atom_head y (hflat y (by simp)) c ns2 hy1
                simpa using tokEnd_of_head c (c2 ++ 93 :: rest) this
        have ht := atom_seq x hfx ns a ns1 hx (b ++ 93 :: rest) hend
        match fuel, hfuel with
        | f+1, hf =>
          have hstep := step_in_frame { isDict := false, data := d } below args (normA x) (normA_not_op x hfx)
            (by simp at hcap ⊢; omega)
          have ih' := ih ns1 (d ++ [normA x]) below args b rest f (fun y hy => hflat y (by simp [hy])) hy
            (by simp at hcap ⊢; omega) (by simp at hf; omega)
          have e : (a ++ b) ++ 93 :: rest = a ++ (b ++ 93 :: rest) := by simp
          rw [e, scanLoop, ht]
          simp only [hstep]
          rw [ih']
          simp

theorem canon_flat (x : Obj) (h : FlatOk x) : x.canon = x := by
  cases x <;> first | rfl | exact absurd h (by simp [FlatOk])

theorem canonList_flat (xs : List Obj) (h : ∀ x ∈ xs, FlatOk x) : canonList xs = xs := by
  induction xs with
  | nil => rfl
  | cons x xs ih =>
    simp [canonList, canon_flat x (h x (by simp)), ih (fun y hy => h y (by simp [hy]))]

theorem tok_open_arr (r : Bytes) : scanToken (91 :: r) = .ok (.op [91]) r := by
  have h1 : cSpace 91 = false := by decide +kernel
  have h2 : cReg 91 = false := by decide +kernel
  simp [scanToken, skipWS_nonspace 91 r h1 (by decide), h2]
  rfl

theorem tok_close_arr (r : Bytes) : scanToken (93 :: r) = .ok (.op [93]) r := by
  have h1 : cSpace 93 = false := by decide +kernel
  have h2 : cReg 93 = false := by decide +kernel
  simp [scanToken, skipWS_nonspace 93 r h1 (by decide), h2]
  rfl

theorem tok_open_dict (r : Bytes) : scanToken (60 :: 60 :: r) = .ok (.op [60, 60]) r := by
  have h1 : cSpace 60 = false := by decide +kernel
  simp [scanToken, skipWS_nonspace 60 _ h1 (by decide)]

theorem tok_close_dict (r : Bytes) : scanToken (62 :: 62 :: r) = .ok (.op [62, 62]) r := by
  have h1 : cSpace 62 = false := by decide +kernel
  simp [scanToken, skipWS_nonspace 62 _ h1 (by decide)]

/-- **An array of flat operands as an operand of an operator.** -/
theorem arr_operand (xs : List Obj) (acc : List Obj) (bs rest : Bytes) (fuel : Nat)
    (hflat : ∀ x ∈ xs, FlatOk x) (hb : fmtArg (.arr xs) = some bs) (hlen : xs.length ≤ Gen.content_maxArrayLen)
    (hacc : acc.length < Gen.content_maxOperatorArgs) (hfuel : fuel ≥ xs.length + 2) :
    scanLoop fuel [] acc (bs ++ 32 :: rest) =
      scanLoop (fuel - (xs.length + 2)) [] (acc ++ [.arr (xs.map normA)]) (32 :: rest) := by
  simp only [fmtArg, format, copt, Bool.false_eq_true, if_false, canonList, Obj.canon, canonList_flat xs hflat,
    fmtSeq, fmtObj] at hb
  cases hbody : fmtSeq { pretty := false, content := true } false xs with
  | none => simp [hbody] at hb
  | some body =>
    simp [hbody] at hb
    subst hb
    match fuel, hfuel with
    | f+2, hf =>
      have hopen : step [] acc (.op [91]) = .cont [{ isDict := false, data := [] }] acc := by
        simp [step, Gen.content_maxContentNestDepth]
      have helems := arr_elems xs false [] [] acc body (32 :: rest) (f + 1) hflat hbody (by simpa using hlen)
        (by simp at hf; omega)
      have hclose : step [{ isDict := false, data := [] ++ xs.map normA }] acc (.op [93]) =
          .cont [] (acc ++ [.arr (xs.map normA)]) := by
        have : ¬ (Gen.content_maxOperatorArgs ≤ acc.length) := by omega
        simp [step, deliver, this]
      have e : (91 :: (body ++ [93])) ++ 32 :: rest = 91 :: (body ++ 93 :: 32 :: rest) := by simp
      rw [e, scanLoop, tok_open_arr]
      simp only [hopen]
      rw [helems]
      have hf2 : f + 1 - xs.length = (f - xs.length) + 1 := by simp at hf; omega
      rw [hf2, scanLoop, tok_close_arr]
      simp only [hclose]
      congr 1
      omega


/-- the tokens a dictionary body contributes to its frame -/
def entryData : List (Bytes × Obj) → List Obj
  | [] => []
  | (k, v) :: rest =>
    match v with
    | .null => entryData rest
    | v => .name k :: normA v :: entryData rest

def entryCount : List (Bytes × Obj) → Nat
  | [] => 0
  | (_, v) :: rest =>
    match v with
    | .null => entryCount rest
    | _ => entryCount rest + 1

theorem entryData_length (kv : List (Bytes × Obj)) : (entryData kv).length = 2 * entryCount kv := by
  induction kv with
  | nil => rfl
  | cons e rest ih =>
    obtain ⟨k, v⟩ := e
    cases v <;> simp [entryData, entryCount, ih] <;> omega

/-- entries of a dictionary operand covered here: keys any bytes below the name cap, values flat -/
def EntriesOk (kv : List (Bytes × Obj)) : Prop :=
  ∀ e ∈ kv, AllBytes e.1 ∧ e.1.length ≤ Gen.content_maxNameBytes ∧ FlatOk e.2


theorem fmtDictPlain_cons_null (opt : FmtOpt) (k : Bytes) (kv : List (Bytes × Obj)) :
    fmtDictPlain opt ((k, .null) :: kv) = fmtDictPlain opt kv := by
  simp only [fmtDictPlain]
  cases fmtDictPlain opt kv <;> rfl

theorem fmtDictPlain_cons (opt : FmtOpt) (k : Bytes) (v : Obj) (kv : List (Bytes × Obj)) (hv : v ≠ .null) :
    fmtDictPlain opt ((k, v) :: kv) =
      (match fmtDictPlain opt kv, fmtObj opt true v with
       | some b, some (a, _) => some (fmtName k ++ a ++ b)
       | _, _ => none) := by
  cases v with
  | null => exact absurd rfl hv
  | _ =>
    simp only [fmtDictPlain]
    cases fmtDictPlain opt kv with
    | none => rfl
    | some b =>
      simp only [Option.bind_eq_bind, Option.bind_some]
      split <;> simp_all


theorem dictBody_head (kv : List (Bytes × Obj)) : ∀ b, fmtDictPlain copt kv = some b →
    b = [] ∨ ∃ tl, b = 47 :: tl := by
  induction kv with
  | nil => intro b hb; simp [fmtDictPlain] at hb; exact .inl hb
  | cons e kv ih =>
    intro b hb
    obtain ⟨k, v⟩ := e
    by_cases hv : v = .null
    · subst hv
      rw [fmtDictPlain_cons_null] at hb
      exact ih b hb
    · rw [fmtDictPlain_cons copt k v kv hv] at hb
      split at hb
      · rename_i b0 a0 _ _ _
        simp at hb
        exact .inr ⟨fmtNameBody k ++ (a0 ++ b0), by rw [← hb]; simp only [fmtName, List.cons_append]⟩
      · simp at hb

/-- **The entries of a dictionary of flat values** are appended to the open dictionary frame,
key and value alternating; the loop then stands before `>>`. -/
theorem dict_entries (kv : List (Bytes × Obj)) : ∀ (d : List Obj) (below : List Frame) (args : List Obj)
    (body rest : Bytes) (fuel : Nat),
    EntriesOk kv → fmtDictPlain copt kv = some body →
    d.length + 2 * entryCount kv ≤ 2 * Gen.content_maxDictLen → fuel ≥ 2 * entryCount kv →
    scanLoop fuel ({ isDict := true, data := d } :: below) args (body ++ 62 :: 62 :: rest) =
      scanLoop (fuel - 2 * entryCount kv) ({ isDict := true, data := d ++ entryData kv } :: below) args (62 :: 62 :: rest) := by
  have h62 : cReg 62 = false := by decide +kernel
  have h47 : cReg 47 = false := by decide +kernel
  induction kv with
  | nil =>
    intro d below args body rest fuel _ hb _ _
    simp [fmtDictPlain] at hb
    subst hb
    simp [entryData, entryCount]
  | cons e kv ih =>
    intro d below args body rest fuel hok hb hcap hfuel
    obtain ⟨k, v⟩ := e
    have hok' : EntriesOk kv := fun e he => hok e (by simp [he])
    by_cases hnull : v = .null
    · subst hnull
      rw [fmtDictPlain_cons_null] at hb
      simpa [entryData, entryCount] using ih d below args body rest fuel hok' hb (by simpa [entryCount] using hcap)
        (by simpa [entryCount] using hfuel)
    · obtain ⟨hk1, hk2, hfv⟩ := hok (k, v) (by simp)
      have hcnt : entryCount ((k, v) :: kv) = entryCount kv + 1 := by
        cases v <;> first | rfl | exact absurd rfl hnull
      have hdat : entryData ((k, v) :: kv) = .name k :: normA v :: entryData kv := by
        cases v <;> first | rfl | exact absurd rfl hnull
      rw [fmtDictPlain_cons copt k v kv hnull] at hb
      cases hy : fmtDictPlain copt kv with
      | none => simp [hy] at hb
      | some b =>
        cases hx : fmtObj copt true v with
        | none => simp [hy, hx] at hb
        | some p =>
          obtain ⟨a, ns1⟩ := p
          simp [hy, hx] at hb
          subst hb
          -- what follows the value ends its token: the next key or `>>`
          have hend : TokEnd (b ++ 62 :: 62 :: rest) := by
            rcases dictBody_head kv b hy with hb0 | ⟨tl, hb1⟩
            · subst hb0; exact h62
            · subst hb1; exact h47
          -- the value starts with a non-regular byte, which ends the key token
          have hkeyend : TokEnd (a ++ (b ++ 62 :: 62 :: rest)) :=
            tokEnd_of_head a _ (atom_head v hfv a ns1 hx)
          have htk := name_rt k hk1 hk2 (a ++ (b ++ 62 :: 62 :: rest)) hkeyend
          have htv := atom_seq v hfv true a ns1 hx (b ++ 62 :: 62 :: rest) (fun _ => hend)
          rw [hcnt] at hcap hfuel ⊢
          match fuel, hfuel with
          | f+2, hf =>
            have hs1 := step_in_frame { isDict := true, data := d } below args (.name k) (by intro n; simp)
              (by simp at hcap ⊢; omega)
            have hs2 := step_in_frame { isDict := true, data := d ++ [.name k] } below args (normA v)
              (normA_not_op v hfv) (by simp at hcap ⊢; omega)
            have ih' := ih (d ++ [.name k] ++ [normA v]) below args b rest f hok' hy
              (by simp at hcap ⊢; omega) (by omega)
            have e : (fmtName k ++ (a ++ b)) ++ 62 :: 62 :: rest = fmtName k ++ (a ++ (b ++ 62 :: 62 :: rest)) := by simp
            rw [e, scanLoop, htk]
            simp only [hs1]
            rw [scanLoop, htv]
            simp only [hs2]
            rw [ih', hdat]
            have e2 : f + 2 - 2 * (entryCount kv + 1) = f - 2 * entryCount kv := by omega
            rw [e2]
            simp

theorem lastIsGtOp_flat (kv : List (Bytes × Obj)) (h : EntriesOk kv) : lastIsGtOp kv = false := by
  unfold lastIsGtOp
  split
  · rename_i k heq
    have hmem := List.mem_of_getLast? heq
    simp only [List.mem_filter] at hmem
    have := (h _ hmem.1).2.2
    simp [FlatOk] at this
  · rfl

/-- **A dictionary of flat values as an operand of an operator** (`kv` in `SortedKeys` order). -/
theorem dict_operand (kv : List (Bytes × Obj)) (acc : List Obj) (bs rest : Bytes) (fuel : Nat)
    (hok : EntriesOk kv) (hb : fmtObj copt false (.dict kv) = some (bs, false))
    (hlen : entryCount kv ≤ Gen.content_maxDictLen)
    (hacc : acc.length < Gen.content_maxOperatorArgs) (hfuel : fuel ≥ 2 * entryCount kv + 2) :
    scanLoop fuel [] acc (bs ++ 32 :: rest) =
      scanLoop (fuel - (2 * entryCount kv + 2)) [] (acc ++ [.dict (mkDict (entryData kv) [])]) (32 :: rest) := by
  simp only [fmtObj, copt, Bool.false_eq_true, if_false] at hb
  cases hbody : fmtDictPlain { pretty := false, content := true } kv with
  | none => simp [hbody] at hb
  | some body =>
    simp [hbody, lastIsGtOp_flat kv hok] at hb
    subst hb
    match fuel, hfuel with
    | f+2, hf =>
      have hopen : step [] acc (.op [60, 60]) = .cont [{ isDict := true, data := [] }] acc := by
        simp [step, Gen.content_maxContentNestDepth]
      have hent := dict_entries kv [] [] acc body (32 :: rest) (f + 1) hok hbody (by simp; omega)
        (by simp at hf; omega)
      have heven : (entryData kv).length % 2 = 0 := by rw [entryData_length]; omega
      have hclose : step [{ isDict := true, data := [] ++ entryData kv }] acc (.op [62, 62]) =
          .cont [] (acc ++ [.dict (mkDict (entryData kv) [])]) := by
        have : ¬ (Gen.content_maxOperatorArgs ≤ acc.length) := by omega
        simp [step, deliver, this, heven]
      have e : (60 :: 60 :: (body ++ [62, 62])) ++ 32 :: rest = 60 :: 60 :: (body ++ 62 :: 62 :: 32 :: rest) := by simp
      rw [e, scanLoop, tok_open_dict]
      simp only [hopen]
      rw [hent]
      have hf2 : f + 1 - 2 * entryCount kv = (f - 2 * entryCount kv) + 1 := by simp at hf; omega
      rw [hf2, scanLoop, tok_close_dict]
      simp only [hclose]
      congr 1
      omega

/-! ## operands of nesting depth ≤ 1 -/

theorem mem_insertKey (k e : Bytes × Obj) (l : List (Bytes × Obj)) (h : e ∈ insertKey k l) : e = k ∨ e ∈ l := by
  induction l with
  | nil => simp [insertKey] at h; exact .inl h
  | cons x xs ih =>
    simp only [insertKey] at h
    split at h
    · simp at h; rcases h with h | h | h
      · exact .inl h
      · exact .inr (by simp [h])
      · exact .inr (by simp [h])
    · simp at h; rcases h with h | h
      · exact .inr (by simp [h])
      · rcases ih h with h' | h'
        · exact .inl h'
        · exact .inr (by simp [h'])

theorem mem_sortKV (e : Bytes × Obj) (l : List (Bytes × Obj)) (h : e ∈ sortKV l) : e ∈ l := by
  induction l with
  | nil => simp [sortKV] at h
  | cons x xs ih =>
    simp only [sortKV] at h
    rcases mem_insertKey x e _ h with h' | h'
    · simp [h']
    · simp [ih h']

theorem mem_sortedEntries (e : Bytes × Obj) (kv : List (Bytes × Obj)) (h : e ∈ sortedEntries kv) : e ∈ kv := by
  simp only [sortedEntries, List.mem_append, List.mem_filter] at h
  rcases h with (h | h) | h
  · exact h.1
  · exact h.1
  · exact (List.mem_filter.mp (mem_sortKV e _ h)).1

theorem canonKV_flat (kv : List (Bytes × Obj)) (h : EntriesOk kv) : canonKV kv = kv := by
  induction kv with
  | nil => rfl
  | cons e rest ih =>
    obtain ⟨k, v⟩ := e
    simp [canonKV, canon_flat v (h (k, v) (by simp)).2.2, ih (fun e he => h e (by simp [he]))]

/-- operands covered: flat operands, arrays of flat operands, dictionaries with flat values -/
inductive Arg1 : Obj → Prop
  | flat (a : Obj) (h : FlatOk a) : Arg1 a
  | arr (xs : List Obj) (h : ∀ x ∈ xs, FlatOk x) (hlen : xs.length ≤ Gen.content_maxArrayLen) : Arg1 (.arr xs)
  | dict (kv : List (Bytes × Obj)) (h : EntriesOk kv)
      (hlen : entryCount (sortedEntries kv) ≤ Gen.content_maxDictLen) : Arg1 (.dict kv)

/-- number of tokens of the written operand -/
def cost1 : Obj → Nat
  | .arr xs => xs.length + 2
  | .dict kv => 2 * entryCount (sortedEntries kv) + 2
  | _ => 1

/-- the operand as the scanner returns it: arrays element-wise, dictionaries in written
(`SortedKeys`) order without their null entries -/
def norm1 : Obj → Obj
  | .arr xs => .arr (xs.map normA)
  | .dict kv => .dict (mkDict (entryData (sortedEntries kv)) [])
  | o => normA o

theorem arg1_step (a : Obj) (h : Arg1 a) (acc : List Obj) (bs rest : Bytes) (fuel : Nat)
    (hb : fmtArg a = some bs) (hacc : acc.length < Gen.content_maxOperatorArgs) (hfuel : fuel ≥ cost1 a) :
    scanLoop fuel [] acc (bs ++ 32 :: rest) = scanLoop (fuel - cost1 a) [] (acc ++ [norm1 a]) (32 :: rest) := by
  cases h with
  | flat a hf =>
    have hc : cost1 a = 1 := by cases a <;> first | rfl | exact absurd hf (by simp [FlatOk])
    have hn : norm1 a = normA a := by cases a <;> first | rfl | exact absurd hf (by simp [FlatOk])
    rw [hc] at hfuel ⊢
    rw [hn]
    match fuel, hfuel with
    | f+1, _ =>
      rw [scanLoop, flat_token a hf bs hb _ (tokEnd_32 rest)]
      simp only [step_operand acc (normA a) (normA_not_op a hf) hacc]
      simp
  | arr xs hx hlen =>
    exact arr_operand xs acc bs rest fuel hx hb hlen hacc hfuel
  | dict kv hk hlen =>
    have hok' : EntriesOk (sortedEntries kv) := fun e he => hk e (mem_sortedEntries e kv he)
    have hb' : fmtObj copt false (.dict (sortedEntries kv)) = some (bs, false) := by
      simp only [fmtArg, format, copt, Bool.false_eq_true, if_false, canonList, Obj.canon, canonKV_flat kv hk,
        fmtSeq] at hb
      cases hx : fmtObj { pretty := false, content := true } false (.dict (sortedEntries kv)) with
      | none => simp [hx] at hb
      | some p =>
        obtain ⟨x, ns⟩ := p
        simp [hx] at hb
        subst hb
        have : ns = false := by
          simp only [fmtObj] at hx
          cases hbody : fmtDictPlain { pretty := false, content := true } (sortedEntries kv) with
          | none => simp [hbody] at hx
          | some body => simp [hbody] at hx; exact hx.2
        subst this
        exact hx
    exact dict_operand (sortedEntries kv) acc bs rest fuel hok' hb' hlen hacc hfuel


/-! ## the token loop on operand lists of depth ≤ 1 -/

theorem scanLoop_args1 (args : List Obj) : ∀ (acc : List Obj) (ab : Bytes) (name rest : Bytes) (fuel : Nat),
    (∀ a ∈ args, Arg1 a) → fmtArgs args = some ab → OpNameOk name →
    acc.length + args.length < Gen.content_maxOperatorArgs → fuel ≥ (args.map cost1).sum + 1 →
    scanLoop fuel [] acc (ab ++ name ++ 10 :: rest) = .ok (name, acc ++ args.map norm1) (10 :: rest) := by
  induction args with
  | nil =>
    intro acc ab name rest fuel _ hab hname hlen hfuel
    exact scanLoop_flat [] acc ab name rest fuel (by simp) hab hname hlen (by simpa using hfuel)
  | cons a as ih =>
    intro acc ab name rest fuel hall hab hname hlen hfuel
    simp only [fmtArgs] at hab
    cases hx : fmtArg a with
    | none => simp [hx] at hab
    | some x =>
      cases hy : fmtArgs as with
      | none => simp [hx, hy] at hab
      | some y =>
        simp [hx, hy] at hab
        subst hab
        have ha := hall a (by simp)
        simp only [List.map_cons, List.sum_cons] at hfuel
        have hstep := arg1_step a ha acc x (y ++ name ++ 10 :: rest) fuel hx (by simp at hlen; omega) (by omega)
        have ih' := ih (acc ++ [norm1 a]) y name rest (fuel - cost1 a) (fun b hb => hall b (by simp [hb])) hy hname
          (by simp at hlen ⊢; omega) (by omega)
        have e1 : (x ++ 32 :: y) ++ name ++ 10 :: rest = x ++ 32 :: (y ++ name ++ 10 :: rest) := by simp
        rw [e1, hstep]
        -- the separating space is skipped by the next ScanToken
        have hpos : fuel - cost1 a ≥ 1 := by omega
        match hf : fuel - cost1 a, hpos with
        | g+1, _ =>
          rw [hf] at ih'
          rw [scanLoop] at ih' ⊢
          rw [scanToken_space 32 _ cSpace_32]
          simpa using ih'

/-! ## token counts are bounded by byte counts -/

theorem atom_bytes_pos (x : Obj) (h : FlatOk x) (ns : Bool) (bs : Bytes) (ns' : Bool)
    (hb : fmtObj copt ns x = some (bs, ns')) : 1 ≤ bs.length := by
  cases x with
  | null => simp [fmtObj] at hb; rw [← hb.1]; simp
  | nilArr => simp [fmtObj] at hb; rw [← hb.1]; simp
  | bool b => cases b <;> (simp [fmtObj] at hb; rw [← hb.1]; simp)
  | int i =>
    simp [fmtObj] at hb; rw [← hb.1]
    have := h.ne
    cases hd : intDec i with
    | nil => exact absurd hd this
    | cons c tl => simp; omega
  | real t =>
    simp [fmtObj] at hb; rw [← hb.1]
    have := h.ne
    cases hd : realToken t with
    | nil => exact absurd hd this
    | cons c tl => simp; omega
  | name n => simp [fmtObj, fmtName] at hb; rw [← hb.1]; simp
  | str s => simp [fmtObj, fmtString, copt, fmtStrLiteral] at hb; rw [← hb.1]; simp
  | op o => exact absurd h (by simp [FlatOk])
  | ref a b => exact absurd h (by simp [FlatOk])
  | arr xs => exact absurd h (by simp [FlatOk])
  | dict kv => exact absurd h (by simp [FlatOk])

theorem fmtSeq_length (xs : List Obj) : ∀ (ns : Bool) (body : Bytes), (∀ x ∈ xs, FlatOk x) →
    fmtSeq copt ns xs = some body → xs.length ≤ body.length := by
  induction xs with
  | nil => intro ns body _ _; simp
  | cons x xs ih =>
    intro ns body hflat hb
    simp only [fmtSeq] at hb
    cases hx : fmtObj copt ns x with
    | none => simp [hx] at hb
    | some p =>
      obtain ⟨a, ns1⟩ := p
      cases hy : fmtSeq copt ns1 xs with
      | none => simp [hx, hy] at hb
      | some b =>
        simp [hx, hy] at hb
        subst hb
        have h1 := atom_bytes_pos x (hflat x (by simp)) ns a ns1 hx
        have h2 := ih ns1 b (fun y hy => hflat y (by simp [hy])) hy
        simp
        omega

theorem dictBody_length (kv : List (Bytes × Obj)) : ∀ (body : Bytes), EntriesOk kv →
    fmtDictPlain copt kv = some body → 2 * entryCount kv ≤ body.length := by
  induction kv with
  | nil => intro body _ _; simp [entryCount]
  | cons e kv ih =>
    intro body hok hb
    obtain ⟨k, v⟩ := e
    have hok' : EntriesOk kv := fun e he => hok e (by simp [he])
    by_cases hnull : v = .null
    · subst hnull
      rw [fmtDictPlain_cons_null] at hb
      simpa [entryCount] using ih body hok' hb
    · have hcnt : entryCount ((k, v) :: kv) = entryCount kv + 1 := by
        cases v <;> first | rfl | exact absurd rfl hnull
      rw [fmtDictPlain_cons copt k v kv hnull] at hb
      cases hy : fmtDictPlain copt kv with
      | none => simp [hy] at hb
      | some b =>
        cases hx : fmtObj copt true v with
        | none => simp [hy, hx] at hb
        | some p =>
          obtain ⟨a, ns1⟩ := p
          simp [hy, hx] at hb
          subst hb
          have h1 := atom_bytes_pos v (hok (k, v) (by simp)).2.2 true a ns1 hx
          have h2 := ih b hok' hy
          rw [hcnt]
          simp [fmtName]
          omega

/-- the written operand has at least `cost1 − 1` bytes, and starts with a byte that is neither
white space nor `%` -/
theorem arg1_bytes (a : Obj) (h : Arg1 a) (bs : Bytes) (hb : fmtArg a = some bs) :
    cost1 a ≤ bs.length + 1 ∧ ∃ c tl, bs = c :: tl ∧ cSpace c = false ∧ (c == 37) = false := by
  cases h with
  | flat a hf =>
    have hc : cost1 a = 1 := by cases a <;> first | rfl | exact absurd hf (by simp [FlatOk])
    exact ⟨by rw [hc]; omega, flat_first a hf bs hb⟩
  | arr xs hx hlen =>
    simp only [fmtArg, format, copt, Bool.false_eq_true, if_false, canonList, Obj.canon, canonList_flat xs hx,
      fmtSeq, fmtObj] at hb
    cases hbody : fmtSeq { pretty := false, content := true } false xs with
    | none => simp [hbody] at hb
    | some body =>
      simp [hbody] at hb
      subst hb
      have := fmtSeq_length xs false body hx hbody
      refine ⟨by simp [cost1]; omega, 91, _, rfl, by decide +kernel, by decide⟩
  | dict kv hk hlen =>
    have hok' : EntriesOk (sortedEntries kv) := fun e he => hk e (mem_sortedEntries e kv he)
    simp only [fmtArg, format, copt, Bool.false_eq_true, if_false, canonList, Obj.canon, canonKV_flat kv hk,
      fmtSeq, fmtObj] at hb
    cases hbody : fmtDictPlain { pretty := false, content := true } (sortedEntries kv) with
    | none => simp [hbody] at hb
    | some body =>
      simp [hbody] at hb
      subst hb
      have := dictBody_length (sortedEntries kv) body hok' hbody
      refine ⟨by simp [cost1]; omega, 60, _, rfl, by decide +kernel, by decide⟩

theorem fmtArgs_cost (args : List Obj) : ∀ ab, (∀ a ∈ args, Arg1 a) → fmtArgs args = some ab →
    (args.map cost1).sum ≤ ab.length := by
  induction args with
  | nil => intro ab _ _; simp
  | cons a as ih =>
    intro ab hall hab
    simp only [fmtArgs] at hab
    cases hx : fmtArg a with
    | none => simp [hx] at hab
    | some x =>
      cases hy : fmtArgs as with
      | none => simp [hx, hy] at hab
      | some y =>
        simp [hx, hy] at hab
        subst hab
        have h1 := (arg1_bytes a (hall a (by simp)) x hx).1
        have h2 := ih y (fun b hb => hall b (by simp [hb])) hy
        simp
        omega

/-! ## `ops_rt` and `split_rt` with composite operands of depth one -/

/-- operators with operands of nesting depth ≤ 1 -/
structure Op1 (op : Bytes × List Obj) : Prop where
  name : OpNameOk op.1
  args : ∀ a ∈ op.2, Arg1 a
  count : op.2.length < Gen.content_maxOperatorArgs

theorem op1_step (op : Bytes × List Obj) (h : Op1 op) (b : Bytes) (hb : fmtOp op.1 op.2 = some b) :
    OpStep b (op.1, op.2.map norm1) := by
  obtain ⟨name, args⟩ := op
  obtain ⟨p1, p2⟩ := opName_not_pseudo name h.name
  simp only [fmtOp, p1, p2, Bool.false_eq_true, if_false] at hb
  cases hab : fmtArgs args with
  | none => simp [hab] at hb
  | some ab =>
    simp [hab] at hb
    subst hb
    refine ⟨ab ++ name, by simp, ?_⟩
    intro rest
    have hfirst : ∃ c tl, ab ++ name = c :: tl ∧ cSpace c = false ∧ (c == 37) = false := by
      match args, hab, h.args with
      | [], hab, _ =>
        simp [fmtArgs] at hab
        subst hab
        match name, h.name.ne, h.name.reg with
        | c :: tl, _, hreg =>
          obtain ⟨k1, k2, _⟩ := reg_byte_any c (hreg c (by simp))
          exact ⟨c, tl, rfl, k1, k2⟩
      | a :: as, hab, hargs =>
        simp only [fmtArgs] at hab
        cases hx : fmtArg a with
        | none => simp [hx] at hab
        | some x =>
          cases hy : fmtArgs as with
          | none => simp [hx, hy] at hab
          | some y =>
            simp [hx, hy] at hab
            subst hab
            obtain ⟨c, tl, e, k1, k2⟩ := (arg1_bytes a (hargs a (by simp)) x hx).2
            subst e
            exact ⟨c, tl ++ 32 :: y ++ name, by simp, k1, k2⟩
    obtain ⟨c, tl, e, k1, k2⟩ := hfirst
    have hcost := fmtArgs_cost args ab h.args hab
    have hloop := scanLoop_args1 args [] ab name rest ((ab ++ name ++ 10 :: rest).length + 1)
      h.args hab h.name (by simpa using h.count) (by simp; omega)
    have e2 : ab ++ name ++ 10 :: rest = c :: (tl ++ 10 :: rest) := by rw [e]; simp
    rw [e2] at hloop
    simp only [List.append_assoc] at e2 ⊢
    rw [e2]
    simp only [scanOne, skipSp, k1, k2, Bool.false_eq_true, if_false]
    simpa using hloop

/-- operators covered here: operands of depth ≤ 1, and comments -/
def OpOkN (op : Bytes × List Obj) : Prop := Op1 op ∨ OpOk op

open Classical in
/-- the operator as the scanner returns it -/
noncomputable def normOpN (op : Bytes × List Obj) : Bytes × List Obj :=
  if Op1 op then (op.1, op.2.map norm1) else normOp op

theorem opOkN_step (op : Bytes × List Obj) (h : OpOkN op) (b : Bytes) (hb : fmtOp op.1 op.2 = some b) :
    OpStep b (normOpN op) := by
  by_cases h1 : Op1 op
  · simpa [normOpN, h1] using op1_step op h1 b hb
  · rcases h with h | h
    · exact absurd h h1
    · simpa [normOpN, h1] using opOk_step op h b hb

/-- **`ops_rt`** — sequences of operators with admissible names whose operands are flat operands,
arrays of flat operands or dictionaries of flat values, and of comments: the scanner reads back
what the content writer wrote (subsumed by `C15cnti.ops_rt_deep`). -/
theorem ops_rt (ops : List (Bytes × List Obj)) (hall : ∀ op ∈ ops, OpOkN op) (bs : Bytes)
    (hb : fmtOps ops = some bs) : scan bs = some (ops.map normOpN) :=
  scan_ops OpOkN normOpN opOkN_step ops bs hall hb

/-- **`split_rt`** — the same sequence split at operator boundaries into any number of content
streams (joined by newlines as `page.SegmentsReader` does) reads as the unsplit stream. -/
theorem split_rt (segs : List (List (Bytes × List Obj))) (hall : ∀ seg ∈ segs, ∀ op ∈ seg, OpOkN op)
    (bss : List Bytes) (hb : segs.mapM fmtOps = some bss) (whole : Bytes) (hw : fmtOps segs.flatten = some whole) :
    scan (joinSegments bss) = scan whole ∧ scan whole = some (segs.flatten.map normOpN) := by
  have h2 := ops_rt segs.flatten (by
    intro op hop
    simp at hop
    obtain ⟨seg, hs, ho⟩ := hop
    exact hall seg hs op ho) whole hw
  exact ⟨by rw [h2]; exact scan_join OpOkN normOpN opOkN_step segs bss hall hb, h2⟩

end PdfVerif.C15cntn

import PdfVerif.Model.CNTScan
import PdfVerif.Model.CNTState
import PdfVerif.Generated.FnContent
import PdfVerif.Generated.FnPdf
/-!
# C15 (translator bridge): small helpers of graphics/content = code GENERATED from the Go sources

`graphics/content/{stream,state}.go` contain a second copy of `hexDigit` and three `switch` tables
(`isASCIIFilter`, `needsClose`, `isStrokeOp`).  The CNT hand models use the extracted case lists
(`Gen.content_cases_*`); here they are proved equal to the functions translated from the source.
-/
namespace PdfVerif.C15trb
open PdfVerif PdfVerif.Gen

def nat (bs : List UInt8) : Bytes := bs.map (·.toNat)

/-- the content-stream scanner's `hexDigit` is the same function as the file scanner's -/
theorem content_hexDigit_eq_pdf : ∀ c : Nat, c < 256 →
    content_hexDigit (UInt8.ofNat c) = pdf_hexDigit (UInt8.ofNat c) := by decide +kernel

theorem nat_inj (a b : List UInt8) (h : nat a = nat b) : a = b := by
  induction a generalizing b with
  | nil => cases b with
    | nil => rfl
    | cons _ _ => simp [nat] at h
  | cons x xs ih =>
    cases b with
    | nil => simp [nat] at h
    | cons y ys =>
      simp only [nat, List.map_cons, List.cons.injEq] at h
      rw [UInt8.toNat_inj.mp h.1, ih ys h.2]

theorem nat_eq_iff (a : List UInt8) (b : List UInt8) : (nat a == nat b) = (a == b) := by
  rw [Bool.eq_iff_iff]
  simp only [beq_iff_eq]
  exact ⟨nat_inj a b, fun h => by rw [h]⟩

/-- the hand model's `hexVal` (Model/Scan.lean, used by `CNT.Scan`) is the generated content-stream
`hexDigit` (`none` ↦ 255), on every byte -/
theorem content_hexDigit_eq_hexVal : ∀ c : Nat, c < 256 →
    (content_hexDigit (UInt8.ofNat c)).toNat = (hexVal c).getD 255 := by decide +kernel

theorem contains_nat (n : List UInt8) (cs : List (List UInt8)) :
    (cs.map nat).contains (nat n) = cs.any (fun c => n == c) := by
  induction cs with
  | nil => rfl
  | cons c cs ih =>
    simp only [List.map_cons, List.contains_cons, List.any_cons, ih]
    congr 1
    exact nat_eq_iff n c

/-- **bridge**: `CNT.isASCIIFilter` (case list extracted from the source) = generated `isASCIIFilter` -/
theorem isASCIIFilter_bridge (n : List UInt8) : CNT.isASCIIFilter (nat n) = content_isASCIIFilter n := by
  have e : content_cases_isASCIIFilter = ([[65, 83, 67, 73, 73, 72, 101, 120, 68, 101, 99, 111, 100, 101], [65, 72, 120],
      [65, 83, 67, 73, 73, 56, 53, 68, 101, 99, 111, 100, 101], [65, 56, 53]] : List (List UInt8)).map nat := by decide
  unfold CNT.isASCIIFilter content_isASCIIFilter
  rw [e, contains_nat]
  simp only [Id.run, pure, List.any_cons, List.any_nil, Bool.or_false]
  cases h : (n == [65, 83, 67, 73, 73, 72, 101, 120, 68, 101, 99, 111, 100, 101] || (n == [65, 72, 120] ||
      (n == [65, 83, 67, 73, 73, 56, 53, 68, 101, 99, 111, 100, 101] || n == [65, 56, 53]))) <;>
    simp_all [Bool.or_assoc]

/-- **bridge**: `CNT.needsClose` = generated `needsClose` -/
theorem needsClose_bridge (n : List UInt8) : CNT.needsClose (nat n) = content_needsClose n := by
  have e : content_cases_needsClose = ([[115], [98], [98, 42]] : List (List UInt8)).map nat := by decide
  unfold CNT.needsClose content_needsClose
  rw [e, contains_nat]
  simp only [Id.run, pure, List.any_cons, List.any_nil, Bool.or_false]
  cases h : (n == [115] || (n == [98] || n == [98, 42])) <;> simp_all [Bool.or_assoc]

/-- **bridge**: `CNT.isStrokeOp` = generated `isStrokeOp` -/
theorem isStrokeOp_bridge (n : List UInt8) : CNT.isStrokeOp (nat n) = content_isStrokeOp n := by
  have e : content_cases_isStrokeOp = ([[83], [115], [66], [66, 42], [98], [98, 42]] : List (List UInt8)).map nat := by decide
  unfold CNT.isStrokeOp content_isStrokeOp
  rw [e, contains_nat]
  simp only [Id.run, pure, List.any_cons, List.any_nil, Bool.or_false]
  cases h : (n == [83] || (n == [115] || (n == [66] || (n == [66, 42] || (n == [98] || n == [98, 42]))))) <;>
    simp_all [Bool.or_assoc]

end PdfVerif.C15trb

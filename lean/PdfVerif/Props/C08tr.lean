import PdfVerif.Lemmas.TRGo
import PdfVerif.Spec.TRPng
import PdfVerif.Generated.FnPredict
import PdfVerif.Generated.FnLimits
import PdfVerif.Generated.FnPdf
import PdfVerif.Generated.FnJbig2
/-!
# C08 (translator part): bounds and exactness facts about GENERATED code

`Gen.pred_*` (internal/filter/predict), `Gen.lim_*` (internal/limits) and the `validate`
functions of filter.go are re-created from the Go sources on every run.  All theorems quantify
over every argument value (`Go.IsI64 x` = "x is a Go int").
-/
namespace PdfVerif.C08tr
open PdfVerif PdfVerif.Gen PdfVerif.Go

/-! ## Paeth predictor -/

theorem abs_small {x : Int} (h : -1024 < x ∧ x < 1024) : pred_abs x = (x.natAbs : Int) := by
  unfold pred_abs
  simp only [Id.run, pure, decide_eq_true_eq]
  split
  · rw [i64_of_bounds (by omega) (by omega)]; omega
  · omega

/-- the generated `paethPredictor` returns one of its three arguments -/
theorem paeth_picks (a b c : UInt8) :
    pred_paethPredictor a b c = a ∨ pred_paethPredictor a b c = b ∨ pred_paethPredictor a b c = c := by
  unfold pred_paethPredictor
  generalize (a.toNat : Int) = A
  generalize (b.toNat : Int) = B
  generalize (c.toNat : Int) = C
  as_aux_lemma =>
    simp only [Id.run, pure]
    split
    · simp
    · split <;> simp

/-- the generated `paethPredictor` is the PNG specification's predictor for all 2²⁴ inputs: the
`int` arithmetic of the Go code never wraps and selects the same neighbour, ties included -/
theorem paeth_spec (a b c : UInt8) :
    pred_paethPredictor a b c =
      match Spec.Png.paethSel a.toNat b.toNat c.toNat with
      | 0 => a | 1 => b | 2 => c := by
  unfold pred_paethPredictor Spec.Png.paethSel
  have ha := u8_cast_bounds a
  have hb := u8_cast_bounds b
  have hc := u8_cast_bounds c
  generalize (a.toNat : Int) = A at ha ⊢
  generalize (b.toNat : Int) = B at hb ⊢
  generalize (c.toNat : Int) = C at hc ⊢
  as_aux_lemma =>
    have e1 : i64 (A + B) = A + B := i64_of_bounds (by omega) (by omega)
    have e2 : i64 (A + B - C) = A + B - C := i64_of_bounds (by omega) (by omega)
    have e3 : i64 (A + B - C - A) = A + B - C - A := i64_of_bounds (by omega) (by omega)
    have e4 : i64 (A + B - C - B) = A + B - C - B := i64_of_bounds (by omega) (by omega)
    have e5 : i64 (A + B - C - C) = A + B - C - C := i64_of_bounds (by omega) (by omega)
    simp only [Id.run, pure, e1, e2, e3, e4, e5]
    rw [abs_small (x := A + B - C - A) (by omega), abs_small (x := A + B - C - B) (by omega),
      abs_small (x := A + B - C - C) (by omega)]
    simp only [Bool.and_eq_true, decide_eq_true_eq, Int.ofNat_le]
    split
    · simp [*]
    · split <;> simp [*]

example : pred_paethPredictor 10 20 15 = 15 ∧ Spec.Png.paethSel 10 20 15 = 2 := by decide +kernel

/-! ## predict.Params: validated parameters give exact, bounded buffer sizes -/

theorem prod_bounds {colors bpc cols : Int} (h1 : 1 ≤ colors) (h2 : colors ≤ 256)
    (hb : bpc = 1 ∨ bpc = 2 ∨ bpc = 4 ∨ bpc = 8 ∨ bpc = 16) (h3 : 1 ≤ cols) (h4 : cols ≤ 65536) :
    1 ≤ colors * bpc ∧ colors * bpc ≤ 4096 ∧ 1 ≤ colors * bpc * cols ∧ colors * bpc * cols ≤ 268435456 := by
  have a : 1 ≤ colors * bpc ∧ colors * bpc ≤ 4096 := by
    rcases hb with h | h | h | h | h <;> subst h <;> omega
  refine ⟨a.1, a.2, ?_, ?_⟩
  · have := Int.mul_le_mul a.1 h3 (by omega) (by omega)
    omega
  · have := Int.mul_le_mul a.2 h4 (by omega) (by omega)
    omega

theorem row_bytes {colors bpc cols : Int} (h1 : 1 ≤ colors) (h2 : colors ≤ 256)
    (hb : bpc = 1 ∨ bpc = 2 ∨ bpc = 4 ∨ bpc = 8 ∨ bpc = 16) (h3 : 1 ≤ cols) (h4 : cols ≤ 65536) :
    quoK (i64 (i64 (i64 (colors * bpc) * cols) + 7)) 8 = (colors * bpc * cols + 7) / 8 := by
  obtain ⟨a1, a2, a3, a4⟩ := prod_bounds h1 h2 hb h3 h4
  rw [i64_of_bounds (x := colors * bpc) (by omega) (by omega)]
  rw [i64_of_bounds (x := colors * bpc * cols) (by omega) (by omega)]
  rw [i64_of_bounds (x := colors * bpc * cols + 7) (by omega) (by omega)]
  exact quoK_pos (by omega) (by omega) (by omega)

theorem validate_ok_iff (p : pred_Params) (hp : p.Predictor ≠ 1) :
    pred_Params_Validate p = none ↔
      (p.Predictor = 2 ∧ 1 ≤ p.Colors ∧ p.Colors ≤ 60 ∨ (10 ≤ p.Predictor ∧ p.Predictor ≤ 15) ∧ 1 ≤ p.Colors ∧ p.Colors ≤ 256) ∧
      (p.BitsPerComponent = 1 ∨ p.BitsPerComponent = 2 ∨ p.BitsPerComponent = 4 ∨ p.BitsPerComponent = 8 ∨ p.BitsPerComponent = 16) ∧
      1 ≤ p.Columns ∧ p.Columns ≤ lim_MaxImageWidth ∧
      (p.Colors * p.BitsPerComponent * p.Columns + 7) / 8 ≤ lim_MaxImageWidth * lim_MaxImageChannels * 16 / 8 := by
  obtain ⟨colors, bpc, cols, pred⟩ := p
  simp only at hp ⊢
  unfold pred_Params_Validate lim_MaxImageWidth lim_MaxImageChannels
  simp only [Id.run, pure, beq_iff_eq, Bool.or_eq_true, decide_eq_true_eq, hp, if_false]
  by_cases hall : (1 ≤ colors ∧ colors ≤ 256) ∧ (bpc = 1 ∨ bpc = 2 ∨ bpc = 4 ∨ bpc = 8 ∨ bpc = 16) ∧ 1 ≤ cols ∧ cols ≤ 65536
  · obtain ⟨hc, hb, hk1, hk2⟩ := hall
    rw [row_bytes hc.1 hc.2 hb hk1 hk2]
    have hb' : (((bpc = 1 ∨ bpc = 2) ∨ bpc = 4) ∨ bpc = 8) ∨ bpc = 16 := by omega
    simp only [hb', if_true]
    split <;> split <;> (try split) <;> (try split) <;> simp <;> omega
  · generalize quoK (i64 (i64 (i64 (colors * bpc) * cols) + 7)) 8 = q
    split <;> split <;> (try split) <;> (try split) <;> (try split) <;> simp <;> omega

/-- **parse_clamps / bounded buffers**: once `Validate` accepts parameters of a real predictor,
none of the derived sizes can overflow `int`, and the row buffer is at most
`MaxImageWidth·MaxImageChannels·16/8` = 4 MiB -/
theorem validated_sizes (p : pred_Params) (hp : p.Predictor ≠ 1) (hv : pred_Params_Validate p = none) :
    pred_Params_bitsPerPixel p = p.Colors * p.BitsPerComponent ∧
    pred_Params_bitsPerRow p = p.Colors * p.BitsPerComponent * p.Columns ∧
    pred_Params_bytesPerRow p = (p.Colors * p.BitsPerComponent * p.Columns + 7) / 8 ∧
    1 ≤ pred_Params_bytesPerRow p ∧ pred_Params_bytesPerRow p ≤ 4194304 ∧
    pred_Params_bytesPerPixel p = (p.Colors * p.BitsPerComponent + 7) / 8 ∧
    1 ≤ pred_Params_bytesPerPixel p ∧ pred_Params_bytesPerPixel p ≤ 512 := by
  obtain ⟨hc, hb, hk1, hk2, hrow⟩ := (validate_ok_iff p hp).mp hv
  have hc' : 1 ≤ p.Colors ∧ p.Colors ≤ 256 := by omega
  unfold lim_MaxImageWidth at hk2
  unfold lim_MaxImageWidth lim_MaxImageChannels at hrow
  obtain ⟨a1, a2, a3, a4⟩ := prod_bounds hc'.1 hc'.2 hb hk1 hk2
  unfold pred_Params_bytesPerRow pred_Params_bytesPerPixel pred_Params_bitsPerRow pred_Params_bitsPerPixel
  simp only [Id.run, pure]
  rw [i64_of_bounds (x := p.Colors * p.BitsPerComponent) (by omega) (by omega)]
  rw [i64_of_bounds (x := p.Colors * p.BitsPerComponent * p.Columns) (by omega) (by omega)]
  rw [i64_of_bounds (x := p.Colors * p.BitsPerComponent * p.Columns + 7) (by omega) (by omega)]
  rw [i64_of_bounds (x := p.Colors * p.BitsPerComponent + 7) (by omega) (by omega)]
  rw [quoK_pos (by omega) (by omega) (by omega), quoK_pos (by omega) (by omega) (by omega)]
  omega

example : pred_Params_Validate ⟨3, 8, 100, 12⟩ = none ∧ pred_Params_bytesPerRow ⟨3, 8, 100, 12⟩ = 300 := by
  decide +kernel

/-! ## internal/limits: budgets -/

/-- `StreamBudget` on every `int64`: base plus `min(multiplier·max(rawLen,0), hard cap)`; the
multiplication cannot overflow because of the guard `rawLen > HardCap/Multiplier` -/
theorem streamBudget_spec (n : Int) (h : IsI64 n) :
    lim_StreamBudget n = lim_StreamBudgetBase +
      min (lim_StreamBudgetMultiplier * max n 0) lim_StreamBudgetHardCap := by
  unfold lim_StreamBudget lim_StreamBudgetBase lim_StreamBudgetMultiplier lim_StreamBudgetHardCap
  unfold IsI64 at h
  simp only [Id.run, pure, decide_eq_true_eq]
  unfold i64
  split <;> split <;> omega

/-- the decoded-size budget of a stream is bounded for every input length -/
theorem streamBudget_bounded (n : Int) (h : IsI64 n) :
    (lim_StreamBudgetBase : Int) ≤ lim_StreamBudget n ∧
    lim_StreamBudget n ≤ lim_StreamBudgetBase + lim_StreamBudgetHardCap := by
  rw [streamBudget_spec n h]
  unfold lim_StreamBudgetBase lim_StreamBudgetMultiplier lim_StreamBudgetHardCap
  omega

theorem streamBudget_mono (m n : Int) (hm : IsI64 m) (hn : IsI64 n) (h : m ≤ n) :
    lim_StreamBudget m ≤ lim_StreamBudget n := by
  rw [streamBudget_spec m hm, streamBudget_spec n hn]
  unfold lim_StreamBudgetBase lim_StreamBudgetMultiplier lim_StreamBudgetHardCap
  omega

/-- full-strength statement for `MaxXRefEntries`: exact for every `int64` length -/
def MaxXRefEntriesExact : Prop := ∀ n : Int, IsI64 n →
  lim_MaxXRefEntries n = lim_XRefEntriesBase + lim_XRefEntriesPerByte * max n 0

/-- … which is false: the product `32·rawLen` is not guarded and wraps for rawLen ≥ 2⁵⁸ (then the
cap is negative and every xref stream is rejected: fails safe; such lengths cannot occur) -/
theorem maxXRefEntries_exact_false : ¬ MaxXRefEntriesExact := by
  intro h
  have := h 288230376151711744 (by decide)
  revert this
  decide +kernel

/-- what is proved: exact below 2⁵⁷ bytes of input (128 PiB) -/
theorem maxXRefEntries_spec_partial (n : Int) (h : IsI64 n) (hn : n < 144115188075855872) :
    lim_MaxXRefEntries n = lim_XRefEntriesBase + lim_XRefEntriesPerByte * max n 0 := by
  unfold lim_MaxXRefEntries lim_XRefEntriesBase lim_XRefEntriesPerByte
  unfold IsI64 at h
  simp only [Id.run, pure, decide_eq_true_eq]
  unfold i64
  split <;> omega

theorem shadingBudget_spec_partial (n : Int) (h : IsI64 n) (hn : n < 144115188075855872) :
    lim_ShadingBudget n = lim_StreamBudgetBase + lim_MaxShadingExpansion * max n 0 := by
  unfold lim_ShadingBudget lim_StreamBudgetBase lim_MaxShadingExpansion
  unfold IsI64 at h
  simp only [Id.run, pure, decide_eq_true_eq]
  unfold i64
  split <;> omega

/-! ## internal/limits: image size limits -/

/-- exact (mathematical) encoded size of an image in bytes -/
def imageBytes (w h ch bpc : Int) : Int := (w * ch * bpc + 7) / 8 * h

/-- on the domain the callers establish (dimensions ≤ 2²⁰, channels and bits ≤ 1024; the real
caps are 2¹⁶, 32 and 16) the `int64` computation of the image size never wraps -/
theorem imageDecodedBytes_exact {w h ch bpc : Int}
    (hw : 0 < w ∧ w ≤ 1048576) (hh : 0 < h ∧ h ≤ 1048576) (hc : 0 < ch ∧ ch ≤ 1024) (hb : 0 < bpc ∧ bpc ≤ 1024) :
    lim_imageDecodedBytes w h ch bpc = imageBytes w h ch bpc := by
  have m1 : 0 < w * ch ∧ w * ch ≤ 1048576 * 1024 :=
    ⟨Int.mul_pos hw.1 hc.1, Int.mul_le_mul hw.2 hc.2 (by omega) (by omega)⟩
  have m2 : 0 < w * ch * bpc ∧ w * ch * bpc ≤ 1048576 * 1024 * 1024 :=
    ⟨Int.mul_pos m1.1 hb.1, Int.mul_le_mul m1.2 hb.2 (by omega) (by omega)⟩
  have m3 : 0 ≤ (w * ch * bpc + 7) / 8 ∧ (w * ch * bpc + 7) / 8 ≤ 1048576 * 1024 * 128 + 1 := by omega
  have m4 : 0 ≤ (w * ch * bpc + 7) / 8 * h ∧ (w * ch * bpc + 7) / 8 * h ≤ (1048576 * 1024 * 128 + 1) * 1048576 :=
    ⟨Int.mul_nonneg m3.1 (by omega), Int.mul_le_mul m3.2 hh.2 (by omega) (by omega)⟩
  unfold lim_imageDecodedBytes imageBytes
  simp only [Id.run, pure]
  rw [i64_of_bounds (x := w * ch) (by omega) (by omega)]
  rw [i64_of_bounds (x := w * ch * bpc) (by omega) (by omega)]
  rw [i64_of_bounds (x := w * ch * bpc + 7) (by omega) (by omega)]
  rw [quoK_pos (by omega) (by omega) (by omega)]
  exact i64_of_bounds (by omega) (by omega)

/-- … so `ImageBytesExceedLimit` decides exactly "more than MaxImageBytes" there -/
theorem imageBytesExceed_exact_partial {w h ch bpc : Int}
    (hw : 0 < w ∧ w ≤ 1048576) (hh : 0 < h ∧ h ≤ 1048576) (hc : 0 < ch ∧ ch ≤ 1024) (hb : 0 < bpc ∧ bpc ≤ 1024) :
    lim_ImageBytesExceedLimit w h ch bpc = decide (imageBytes w h ch bpc > lim_MaxImageBytes) := by
  unfold lim_ImageBytesExceedLimit
  simp only [Id.run, pure]
  rw [imageDecodedBytes_exact hw hh hc hb]
  have : 0 ≤ imageBytes w h ch bpc := by
    unfold imageBytes
    have : 0 < w * ch * bpc := Int.mul_pos (Int.mul_pos hw.1 hc.1) hb.1
    exact Int.mul_nonneg (by omega) (by omega)
  unfold lim_MaxImageBytes
  have e : ¬ (w ≤ 0) ∧ ¬ (h ≤ 0) ∧ ¬ (ch ≤ 0) ∧ ¬ (bpc ≤ 0) := by omega
  simp [e]
  omega

/-- full-strength statement: `ImageBytesExceedLimit` is exact for all positive `int` arguments -/
def ImageBytesExceedExact : Prop := ∀ w h ch bpc : Int, IsI64 w → IsI64 h → IsI64 ch → IsI64 bpc →
  0 < w → 0 < h → 0 < ch → 0 < bpc →
  lim_ImageBytesExceedLimit w h ch bpc = decide (imageBytes w h ch bpc > lim_MaxImageBytes)

/-- … it is false: `int64(width)*int64(channels)*int64(bpc)` can wrap to a small non-negative value
(2³²·2³²·1 ≡ 0), which the `size < 0` test does not see.  The callers bound width and height by
`MaxImageWidth/Height` and the bit depth by 16 first, so this needs ≥ 2²⁷ channels. -/
theorem imageBytesExceed_exact_false : ¬ ImageBytesExceedExact := by
  intro h
  have := h 4294967296 1 4294967296 1 (by decide) (by decide) (by decide) (by decide) (by decide) (by decide) (by decide) (by decide)
  revert this
  decide +kernel

/-- `ImageDataLimit` lies in `[0, MaxImageBytes]` for **all** arguments, wrapped products included
(the `size < 0` test catches the negative wrap, the cap the rest) -/
theorem imageDataLimit_bounded (w h ch bpc : Int) :
    0 ≤ lim_ImageDataLimit w h ch bpc ∧ lim_ImageDataLimit w h ch bpc ≤ lim_MaxImageBytes := by
  unfold lim_ImageDataLimit lim_MaxImageBytes
  simp only [Id.run, pure, Bool.or_eq_true, decide_eq_true_eq]
  generalize lim_imageDecodedBytes w h ch bpc = s
  split
  · omega
  · split <;> omega

/-- `ImagePixelsExceedLimit` is exact for dimensions up to 2³¹ -/
theorem imagePixelsExceed_sound {w h : Int} (hw : 0 < w ∧ w ≤ 2147483648) (hh : 0 < h ∧ h ≤ 2147483648) :
    lim_ImagePixelsExceedLimit w h = decide (w * h > lim_MaxImagePixels) := by
  have m : 0 < w * h ∧ w * h ≤ 2147483648 * 2147483648 :=
    ⟨Int.mul_pos hw.1 hh.1, Int.mul_le_mul hw.2 hh.2 (by omega) (by omega)⟩
  unfold lim_ImagePixelsExceedLimit lim_MaxImagePixels
  simp only [Id.run, pure]
  rw [i64_of_bounds (x := w * h) (by omega) (by omega)]
  have e : ¬ (w ≤ 0) ∧ ¬ (h ≤ 0) := by omega
  simp [e]

/-! ## filter.go: what `validate` admits -/

/-- `FlatePredictor.isValid`: exactly the values of PDF table 10 and the unset zero value -/
theorem predictor_isValid_iff (p : Int) :
    pdf_FlatePredictor_isValid p = true ↔ p = 0 ∨ p = 1 ∨ p = 2 ∨ (10 ≤ p ∧ p ≤ 15) := by
  unfold pdf_FlatePredictor_isValid
  simp only [Id.run, pure, beq_iff_eq, Bool.or_eq_true]
  split <;> simp <;> omega

/-- `ccittMaxRows` never panics and is `max(1, min(MaxImageHeight, MaxImagePixels / max(columns, 1)))` -/
theorem ccittMaxRows_eq (c : Int) :
    pdf_ccittMaxRows c = some (max 1 (min 65536 (134217728 / max c 1))) := by
  have h1 : max c 1 ≠ 0 := by omega
  have hq0 : 0 ≤ (134217728 : Int) / max c 1 := Int.ediv_nonneg (by omega) (by omega)
  have hq1 : (134217728 : Int) / max c 1 ≤ 134217728 := Int.ediv_le_self _ (by omega)
  unfold pdf_ccittMaxRows quo64
  simp only [h1, if_false]
  rw [Int.tdiv_eq_ediv_of_nonneg (by omega), i64_of_bounds (by omega) (by omega)]
  rfl

/-- `FilterCCITTFax.validate` accepts exactly `Columns` and `DamagedRowsBeforeError` in
`[0, 2²⁰]` and `Rows` in `[0, ccittMaxRows(Columns)]` (`Columns` 0 stands for 1728); it never
panics -/
theorem ccitt_validate_iff (f : pdf_FilterCCITTFax) (v : Int) :
    pdf_FilterCCITTFax_validate f v = some none ↔
      (0 ≤ f.Columns ∧ f.Columns ≤ 1048576) ∧
      (0 ≤ f.Rows ∧ f.Rows ≤ max 1 (min 65536 (134217728 / max (if f.Columns = 0 then 1728 else f.Columns) 1))) ∧
      (0 ≤ f.DamagedRowsBeforeError ∧ f.DamagedRowsBeforeError ≤ 1048576) := by
  unfold pdf_FilterCCITTFax_validate
  simp only [ccittMaxRows_eq]
  by_cases hc : f.Columns < 0 ∨ f.Columns > 1048576
  · have : (decide (f.Columns < 0) || decide (f.Columns > 1048576)) = true := by simpa using hc
    simp [this]; omega
  · have hcf : (decide (f.Columns < 0) || decide (f.Columns > 1048576)) = false := by simpa using hc
    have fin : ∀ (M : Int),
        (((if 0 ≤ f.Rows then some (decide (M < f.Rows)) else some true).bind fun __do_lift =>
          if __do_lift = true then some (some "invalid number of rows %d")
          else if f.DamagedRowsBeforeError < 0 ∨ 1048576 < f.DamagedRowsBeforeError then
            some (some "invalid number of damaged rows %d")
          else some none) = some (none : Option String) ↔
        (0 ≤ f.Rows ∧ f.Rows ≤ M) ∧ 0 ≤ f.DamagedRowsBeforeError ∧ f.DamagedRowsBeforeError ≤ 1048576) := by
      intro M
      by_cases hr : 0 ≤ f.Rows
      · by_cases hm : M < f.Rows
        · simp [hr, hm]; omega
        · by_cases hd : f.DamagedRowsBeforeError < 0 ∨ 1048576 < f.DamagedRowsBeforeError
          · simp [hr, hm, hd]; omega
          · simp [hr, hm, hd]; omega
      · simp [hr]
    have hcols : 0 ≤ f.Columns ∧ f.Columns ≤ 1048576 := by omega
    by_cases h0 : f.Columns = 0
    · simp [h0]
      exact fin _
    · have hc' : ¬ (f.Columns < 0 ∨ 1048576 < f.Columns) := by omega
      simp [h0]
      rw [if_neg hc', fin _]
      constructor
      · intro h; exact ⟨hcols, h⟩
      · intro h; exact h.2

/-- what `validateFlateLZW` guarantees about accepted parameters (every Flate/LZW encoder is
created only after it): a listed predictor; no stray parameters without a predictor; bounded
columns; bits per component one of 1,2,4,8,16 (16 only from PDF 1.5) -/
theorem validateFlateLZW_bounds (v p colors bpc columns : Int)
    (h : pdf_validateFlateLZW v p colors bpc columns = none) :
    (p = 0 ∨ p = 1 ∨ p = 2 ∨ (10 ≤ p ∧ p ≤ 15)) ∧
    ((p = 0 ∨ p = 1) → colors = 0 ∧ bpc = 0 ∧ columns = 0) ∧
    (0 ≤ colors) ∧ (v < 4 → colors ≤ 4) ∧
    (bpc = 0 ∨ bpc = 1 ∨ bpc = 2 ∨ bpc = 4 ∨ bpc = 8 ∨ (bpc = 16 ∧ 6 ≤ v)) ∧
    (0 ≤ columns ∧ columns ≤ 1048576) := by
  have hv := predictor_isValid_iff p
  unfold pdf_validateFlateLZW pdf_checkVersionV at h
  simp only [Id.run, pure] at h
  revert h
  cases hp : pdf_FlatePredictor_isValid p
  · simp
  · have hv' := hv.mp hp
    simp only [Bool.not_true, Bool.false_eq_true, if_false, bne_iff_ne, beq_iff_eq, Bool.and_eq_true, Bool.or_eq_true,
      Bool.not_eq_true', decide_eq_true_eq, ne_eq]
    intro h
    refine ⟨hv', ?_⟩
    by_cases hu : p = 0 ∨ p = 1
    · have e : (p != 0 && p != 1) = false := by rcases hu with h0 | h0 <;> subst h0 <;> decide
      have e2 : ¬ (¬p = 0 ∧ ¬p = 1) := by omega
      simp only [e, true_and, e2, if_false] at h
      by_cases c1 : colors = 0 <;> by_cases c2 : bpc = 0 <;> by_cases c3 : columns = 0 <;> simp_all
    · have e : (p != 0 && p != 1) = true := by simp; omega
      have e2 : (¬p = 0 ∧ ¬p = 1) := by omega
      simp only [e, Bool.true_eq_false, false_and, if_false, e2] at h
      refine ⟨fun hh => absurd hh hu, ?_⟩
      by_cases hv6 : v ≥ 6 <;> simp only [hv6, if_true, if_false, Option.isSome_none, Option.isSome_some, Bool.false_eq_true] at h
      all_goals (repeat' split at h)
      all_goals first | (exfalso; simp at h; done) | omega | (exfalso; simp_all; done)

/-- `predictParams` in closed form: zero values are replaced by the defaults 1, 8, 1 and predictor 1 -/
theorem predictParams_eq (p colors bpc columns : Int) :
    pdf_predictParams p colors bpc columns =
      ⟨if colors = 0 then 1 else colors, if bpc = 0 then 8 else bpc, if columns = 0 then 1 else columns,
       if p = 0 then 1 else p⟩ := by
  unfold pdf_predictParams
  by_cases h1 : colors = 0 <;> by_cases h2 : bpc = 0 <;> by_cases h3 : columns = 0 <;> by_cases h4 : p = 0 <;>
    simp [Id.run, pure, h1, h2, h3, h4]

/-- without a predictor (`p` is 0 or `FlatePredictorNone`) `predictParams` selects predictor 1, which
`Params.Validate` accepts outright -/
theorem validate_predictParams_noPredictor (p colors bpc columns : Int) (hu : p = 0 ∨ p = 1) :
    pred_Params_Validate (pdf_predictParams p colors bpc columns) = none := by
  rw [predictParams_eq]
  unfold pred_Params_Validate
  rcases hu with h0 | h0 <;> subst h0 <;> simp [Id.run, pure]

/-- **validate_ok_encode_ok** on the generated code (library fix 879cf71, former finding D22): for ALL
arguments, parameters accepted by `validateFlateLZW` are accepted by `predict.Params.Validate` on
`predictParams(…)`, so `predict.NewWriter` / `NewReader` do not fail on the parameters -/
theorem validate_ok_encode_ok (v p colors bpc columns : Int)
    (h : pdf_validateFlateLZW v p colors bpc columns = none) :
    pred_Params_Validate (pdf_predictParams p colors bpc columns) = none := by
  by_cases hu : p = 0 ∨ p = 1
  · exact validate_predictParams_noPredictor p colors bpc columns hu
  · cases hE : pred_Params_Validate (pdf_predictParams p colors bpc columns) with
    | none => rfl
    | some e =>
      exfalso
      unfold pdf_validateFlateLZW pdf_checkVersionV at h
      simp only [Id.run, pure, hE] at h
      have e1 : (p != 0 && p != 1) = true := by simp; omega
      simp only [e1, Bool.not_true, Bool.false_and, Bool.false_eq_true, if_false, if_true, Option.isSome_some] at h
      revert h
      repeat' split
      all_goals first | (simp; done) | (simp_all; done)

/-! ## internal/filter/jbig2: overflow guards -/

/-- JBIG2 work budget: base + per-byte·max(rawLen,0), capped; bounded for every input length -/
theorem jbig2_workLimit_spec (n : Int) (h : IsI64 n) :
    jbig2_workLimit n = min (jbig2_workBudgetBase + jbig2_workBudgetPerByte * max n 0) jbig2_workBudgetHardCap := by
  unfold jbig2_workLimit jbig2_workBudgetBase jbig2_workBudgetPerByte jbig2_workBudgetHardCap
  unfold IsI64 at h
  simp only [Id.run, pure, decide_eq_true_eq]
  unfold i64
  split <;> split <;> omega

/-- `checkedMul` for all `int` operands: it never panics (the division is guarded by `a == 0`),
and it returns the exact product without error exactly when both operands are non-negative and the
product fits into `int`; otherwise it returns 0 and an error -/
theorem checkedMul_spec (a b : Int) (ha : IsI64 a) (hb : IsI64 b) :
    ∃ v err, jbig2_checkedMul a b = some (v, err) ∧
      (err = none ↔ 0 ≤ a ∧ 0 ≤ b ∧ a * b < 9223372036854775808) ∧
      (err = none → v = a * b) ∧ (err ≠ none → v = 0) := by
  unfold jbig2_checkedMul
  unfold IsI64 at ha hb
  simp only [pure, bind]
  by_cases hneg : a < 0 ∨ b < 0
  · have c1 : (decide (a < 0) || decide (b < 0)) = true := by simp; exact hneg
    simp only [c1, if_true]
    refine ⟨0, _, rfl, ?_, ?_, ?_⟩ <;> simp <;> omega
  · have c1 : (decide (a < 0) || decide (b < 0)) = false := by
      cases h : (decide (a < 0) || decide (b < 0))
      · rfl
      · simp at h; omega
    simp only [c1, Bool.false_eq_true, if_false]
    by_cases hz : a = 0 ∨ b = 0
    · have c2 : (a == 0 || b == 0) = true := by simp; exact hz
      simp only [c2, if_true]
      have : a * b = 0 := by rcases hz with h | h <;> simp [h]
      refine ⟨0, none, rfl, ?_, ?_, ?_⟩ <;> simp [this] <;> omega
    · have c2 : (a == 0 || b == 0) = false := by
        cases h : (a == 0 || b == 0)
        · rfl
        · simp at h; omega
      simp only [c2, Bool.false_eq_true, if_false]
      have ha1 : 1 ≤ a := by omega
      have hb1 : 1 ≤ b := by omega
      have hP : 1 ≤ a * b := Int.mul_pos ha1 hb1 |> fun h => by omega
      have hq : quo64 (i64 (a * b)) a = some (i64 (Int.tdiv (i64 (a * b)) a)) := by
        unfold quo64; simp; omega
      rw [hq]
      simp only [Option.bind_some]
      by_cases hfit : a * b < 9223372036854775808
      · have e1 : i64 (a * b) = a * b := i64_of_bounds (by omega) hfit
        have e2 : Int.tdiv (a * b) a = b := by
          rw [Int.tdiv_eq_ediv_of_nonneg (by omega)]
          exact Int.mul_ediv_cancel_left b (by omega)
        rw [e1, e2, i64_of_bounds (by omega) (by omega)]
        have c3 : (b != b) = false := by simp
        have c4 : decide (a * b < 0) = false := by simp; omega
        simp only [c3, c4, Bool.false_eq_true, if_false]
        refine ⟨a * b, none, rfl, ?_, ?_, ?_⟩ <;> simp <;> omega
      · -- overflow: either the quotient differs or the wrapped product is negative
        generalize hc : i64 (a * b) = c
        have hcr := i64_isI64 (a * b)
        rw [hc] at hcr
        unfold IsI64 at hcr
        by_cases hcneg : c < 0
        · have c4 : decide (c < 0) = true := by simp [hcneg]
          by_cases hq2 : (i64 (c.tdiv a) != b) = true
          · simp only [hq2, if_true]
            refine ⟨0, _, rfl, ?_, ?_, ?_⟩ <;> simp <;> omega
          · have hq3 : (i64 (c.tdiv a) != b) = false := by
              cases h : (i64 (c.tdiv a) != b)
              · rfl
              · exact absurd h hq2
            simp only [hq3, Bool.false_eq_true, if_false, c4, if_true]
            refine ⟨0, _, rfl, ?_, ?_, ?_⟩ <;> simp <;> omega
        · have hc0 : 0 ≤ c := by omega
          have hdiv : c.tdiv a = c / a := Int.tdiv_eq_ediv_of_nonneg hc0
          have hle : a * (c / a) ≤ c := Int.mul_ediv_self_le (by omega)
          have hnn : 0 ≤ c / a := Int.ediv_nonneg hc0 (by omega)
          have hle2 : c / a ≤ c := Int.ediv_le_self a hc0
          have hne : i64 (c.tdiv a) ≠ b := by
            rw [hdiv, i64_of_bounds (by omega) (by omega)]
            intro heq
            rw [heq] at hle
            omega
          have hq2 : (i64 (c.tdiv a) != b) = true := by simp [hne]
          simp only [hq2, if_true]
          refine ⟨0, _, rfl, ?_, ?_, ?_⟩ <;> simp <;> omega

/-- `checkBitmapSize` accepts exactly the dimensions with 0 ≤ w, h ≤ maxPixels that are empty or
need at most `maxPixels` pixels and `maxBitmapBytes` bytes; because both factors are bounded first,
neither product can wrap -/
theorem checkBitmapSize_iff (w h : Int) (hw : IsI64 w) (hh : IsI64 h) :
    jbig2_checkBitmapSize w h = none ↔
      0 ≤ w ∧ 0 ≤ h ∧ w ≤ jbig2_maxPixels ∧ h ≤ jbig2_maxPixels ∧
      (w = 0 ∨ h = 0 ∨ (w * h ≤ jbig2_maxPixels ∧ (w + 7) / 8 * h ≤ jbig2_maxBitmapBytes)) := by
  unfold jbig2_checkBitmapSize jbig2_maxPixels jbig2_maxBitmapBytes
  unfold IsI64 at hw hh
  simp only [Id.run, pure, Bool.or_eq_true, decide_eq_true_eq, beq_iff_eq]
  by_cases hr : 0 ≤ w ∧ 0 ≤ h ∧ w ≤ 16777216 ∧ h ≤ 16777216
  · obtain ⟨h1, h2, h3, h4⟩ := hr
    have m1 : 0 ≤ w * h ∧ w * h ≤ 16777216 * 16777216 :=
      ⟨Int.mul_nonneg h1 h2, Int.mul_le_mul h3 h4 h2 (by omega)⟩
    have q0 : 0 ≤ (w + 7) / 8 ∧ (w + 7) / 8 ≤ 2097152 := by omega
    have m2 : 0 ≤ (w + 7) / 8 * h ∧ (w + 7) / 8 * h ≤ 2097152 * 16777216 :=
      ⟨Int.mul_nonneg q0.1 h2, Int.mul_le_mul q0.2 h4 h2 (by omega)⟩
    rw [i64_of_bounds (x := w * h) (by omega) (by omega)]
    rw [i64_of_bounds (x := w + 7) (by omega) (by omega)]
    rw [quoK_pos (by omega) (by omega) (by omega)]
    rw [i64_of_bounds (x := (w + 7) / 8 * h) (by omega) (by omega)]
    generalize w * h = P at *
    generalize (w + 7) / 8 * h = Q at *
    split
    · simp; omega
    · split
      · simp; omega
      · split
        · simp; omega
        · split
          · simp; omega
          · split <;> simp <;> omega
  · generalize i64 (w * h) = P
    generalize i64 (quoK (i64 (w + 7)) 8 * h) = Q
    split
    · simp; omega
    · split
      · simp; omega
      · exfalso; omega

example : jbig2_checkedMul 3037000500 3037000500 = some (0, some "jbig2: multiplication overflow: %d * %d") ∧
    jbig2_checkedMul 3037000499 3037000499 = some (9223372030926249001, none) := by decide +kernel

example : lim_StreamBudget 1000 = lim_StreamBudgetBase + 1024000 ∧ lim_StreamBudget (-5) = lim_StreamBudgetBase ∧
    lim_StreamBudget 9223372036854775807 = lim_StreamBudgetBase + 268435456 := by decide +kernel

end PdfVerif.C08tr

import PdfVerif.Props.C12cch
/-!
# C12 (part 9) — `matchLen` cannot distinguish the reported range set from the original
-/
namespace PdfVerif.C12cci
open PdfVerif PdfVerif.CC PdfVerif.C12cc PdfVerif.C12ccb PdfVerif.C12ccc PdfVerif.C12ccd PdfVerif.C12cce PdfVerif.C12ccf
open PdfVerif.C12cch PdfVerif.Spec.CodeSpace

/-! ## `matchLen` of the reported range set -/

theorem rangeMatches_eq (lo hi s : Bytes) (h : lo.length = hi.length) :
    rangeMatches lo hi s = withinFirst lo hi s lo.length := by
  induction lo generalizing hi s with
  | nil => simp [rangeMatches, withinFirst]
  | cons l lo ih =>
    cases hi with
    | nil => simp at h
    | cons hh hi =>
      cases s with
      | nil => simp [rangeMatches, withinFirst]
      | cons b s =>
        simp only [rangeMatches, List.length_cons, withinFirst]
        rw [ih hi s (by simpa using h)]
        by_cases c1 : l ≤ b <;> by_cases c2 : b ≤ hh <;> simp [c1, c2] <;> omega

/-- `s` starts with a code of the model range `r` -/
def Starts (r : Range) (s : Bytes) : Prop := withinFirst r.low r.high s r.low.length = true

theorem matchLen_none (L : CSR) (hsh : ∀ r ∈ L, Shape r) (s : Bytes) (h : ∀ r ∈ L, ¬ Starts r s) :
    matchLen L s = 0 := by
  induction L with
  | nil => rfl
  | cons r L ih =>
    simp only [matchLen]
    have hr := h r (by simp)
    have := ih (fun r' hr' => hsh r' (by simp [hr'])) (fun r' hr' => h r' (by simp [hr']))
    split
    · exact this
    · rw [rangeMatches_eq _ _ _ (hsh r (by simp)).1]
      simp only [Starts] at hr
      simp [hr, this]

theorem matchLen_some (L : CSR) (hsh : ∀ r ∈ L, Shape r) (s : Bytes) (r0 : Range) (hr0 : r0 ∈ L) (hs0 : Starts r0 s)
    (huniq : ∀ r ∈ L, Starts r s → r.low.length = r0.low.length) :
    matchLen L s = r0.low.length := by
  induction L with
  | nil => simp at hr0
  | cons r L ih =>
    simp only [matchLen]
    by_cases hst : Starts r s
    · have hl := (withinFirst_len _ _ _ _ hst).2.2
      have : ¬ (s.length < r.low.length) := by omega
      simp only [this, if_false]
      rw [rangeMatches_eq _ _ _ (hsh r (by simp)).1]
      simp only [Starts] at hst
      simp only [hst, if_true]
      exact huniq r (by simp) hst
    · have hmem : r0 ∈ L := by
        rcases List.mem_cons.mp hr0 with rfl | h
        · exact absurd hs0 hst
        · exact h
      have := ih (fun r' hr' => hsh r' (by simp [hr'])) hmem (fun r' hr' => huniq r' (by simp [hr']))
      split
      · exact this
      · rw [rangeMatches_eq _ _ _ (hsh r (by simp)).1]
        simp only [Starts] at hst
        simp [hst, this]

theorem starts_iff_isCode_take (r : Range) (s : Bytes) :
    Starts r s ↔ (r.low.length ≤ s.length ∧ (toSpecR r).isCode (s.take r.low.length) = true) := by
  simp only [Starts, CodeRange.isCode, CodeRange.startsCode, CodeRange.matchesUpTo, CodeRange.len, toSpecR,
    Bool.and_eq_true, decide_eq_true_eq]
  constructor
  · intro h
    have hl := (withinFirst_len _ _ _ _ h).2.2
    refine ⟨hl, by simp; omega, ?_⟩
    rw [← withinFirst_prefix r.low r.high r.low.length (s.take r.low.length) s (List.take_prefix _ _) (by simp; omega)]
    exact h
  · rintro ⟨hl, _, h⟩
    rw [withinFirst_prefix r.low r.high r.low.length (s.take r.low.length) s (List.take_prefix _ _) (by simp; omega)]
    exact h

/-- `matchLen` depends only on the set of codes, for prefix-free sets of well-shaped ranges -/
theorem matchLen_congr (A B : CSR) (hA : ∀ r ∈ A, Shape r) (hB : ∀ r ∈ B, Shape r)
    (hpf : PrefixFree (toSpec A)) (hsame : ∀ bs, IsCodeOf B bs ↔ IsCodeOf A bs) (s : Bytes) :
    matchLen B s = matchLen A s := by
  have hpfB : PrefixFree (toSpec B) := by
    intro r1 h1 r2 h2 c1 c2 hc1 hc2 hp
    simp only [toSpec, List.mem_map] at h1 h2
    obtain ⟨r1', h1', rfl⟩ := h1
    obtain ⟨r2', h2', rfl⟩ := h2
    obtain ⟨a1, ha1, hca1⟩ := (hsame c1).mp ⟨r1', h1', hc1⟩
    obtain ⟨a2, ha2, hca2⟩ := (hsame c2).mp ⟨r2', h2', hc2⟩
    exact hpf (toSpecR a1) (by simp [toSpec]; exact ⟨a1, ha1, rfl⟩) (toSpecR a2)
      (by simp [toSpec]; exact ⟨a2, ha2, rfl⟩) c1 c2 hca1 hca2 hp
  -- all ranges of a prefix-free set that `s` starts with have the same length
  have huniq : ∀ (L : CSR), PrefixFree (toSpec L) → ∀ r1 ∈ L, ∀ r2 ∈ L, Starts r1 s → Starts r2 s →
      r1.low.length = r2.low.length := by
    intro L hL r1 h1 r2 h2 s1 s2
    obtain ⟨l1, c1⟩ := (starts_iff_isCode_take r1 s).mp s1
    obtain ⟨l2, c2⟩ := (starts_iff_isCode_take r2 s).mp s2
    have m1 : toSpecR r1 ∈ toSpec L := by simp [toSpec]; exact ⟨r1, h1, rfl⟩
    have m2 : toSpecR r2 ∈ toSpec L := by simp [toSpec]; exact ⟨r2, h2, rfl⟩
    rcases Nat.le_total r1.low.length r2.low.length with hle | hle
    · have := hL _ m1 _ m2 _ _ c1 c2 (by
        rw [List.prefix_iff_eq_take]; simp [List.take_take, Nat.min_eq_left hle, Nat.min_eq_left l1])
      simp at this; omega
    · have := hL _ m2 _ m1 _ _ c2 c1 (by
        rw [List.prefix_iff_eq_take]; simp [List.take_take, Nat.min_eq_left hle, Nat.min_eq_left l2])
      simp at this; omega
  by_cases hex : ∃ r ∈ A, Starts r s
  · obtain ⟨ra, hra, hsa⟩ := hex
    rw [matchLen_some A hA s ra hra hsa (fun r hr hs => huniq A hpf r hr ra hra hs hsa)]
    obtain ⟨la, ca⟩ := (starts_iff_isCode_take ra s).mp hsa
    obtain ⟨rb, hrb, hcb⟩ := (hsame _).mpr ⟨ra, hra, ca⟩
    have hlb : rb.low.length = ra.low.length := by
      have := (isCode_parts rb _ hcb).1
      simp at this; omega
    have hsb : Starts rb s := (starts_iff_isCode_take rb s).mpr ⟨by omega, by rw [hlb]; exact hcb⟩
    rw [matchLen_some B hB s rb hrb hsb (fun r hr hs => huniq B hpfB r hr rb hrb hs hsb), hlb]
  · have hnA : ∀ r ∈ A, ¬ Starts r s := fun r hr hs => hex ⟨r, hr, hs⟩
    have hnB : ∀ r ∈ B, ¬ Starts r s := by
      intro rb hrb hsb
      obtain ⟨lb, cb⟩ := (starts_iff_isCode_take rb s).mp hsb
      obtain ⟨ra, hra, hca⟩ := (hsame _).mp ⟨rb, hrb, cb⟩
      have hla : ra.low.length = rb.low.length := by
        have := (isCode_parts ra _ hca).1
        simp at this; omega
      exact hnA ra hra ((starts_iff_isCode_take ra s).mpr ⟨by omega, by rw [hla]; exact hca⟩)
    rw [matchLen_none A hA s hnA, matchLen_none B hB s hnB]

/-- **`csr_equiv` in the form of DESIGN.md:** `matchLen (c.CodeSpaceRange()) s = matchLen csr s`
for every byte string `s` — `CodeSpaceRange.Equivalent` can never tell the two apart. -/
theorem csr_matchLen (csr : CSR) (c : Codec) (hC : newCodec csr = .ok c) (hbytes : ∀ r ∈ csr, AllBytes r.high) :
    ∃ out, c.codeSpaceRange = .ok out ∧ ∀ s, matchLen out s = matchLen csr s := by
  obtain ⟨out, h1, h2, h3⟩ := codeSpaceRange_total csr c hC hbytes
  obtain ⟨hv, hpf⟩ := newCodec_prefixFree csr c hC hbytes
  refine ⟨out, h1, fun s => matchLen_congr csr out ?_ h2 hpf h3 s⟩
  intro r hr
  have := isValid_parts r (hv r hr)
  exact ⟨this.1, this.2.2.2⟩

end PdfVerif.C12cci

import PdfVerif.Props.C13ccd
import PdfVerif.Props.C12ccf
/-!
# C13 (part 5) — `SetMapping` on a file with a parent chain
-/
namespace PdfVerif.C13cce
open PdfVerif PdfVerif.CC PdfVerif.C13cc PdfVerif.C13ccb

/-! ## `SetMapping` on a file with parents -/

/-- the entries kept by the first loop of `SetMapping` when there are parents -/
theorem cidEntries_spec_parents (codec : Codec) (parents : Chain) : ∀ (data : List (Nat × Nat)) (es : List (Entry Nat)),
    cidEntries codec parents data = .ok es →
    (∀ e ∈ es, ∃ p ∈ data, codec.appendCode p.1 = .ok (e.key ++ [e.x]) ∧ e.val = p.2) ∧
    (∀ p ∈ data, ∃ bs, codec.appendCode p.1 = .ok bs ∧
        ((parents ≠ [] ∧ lookupMapped parents bs = some p.2) ∨ ∃ e ∈ es, bs = e.key ++ [e.x] ∧ e.val = p.2)) := by
  intro data
  induction data with
  | nil => intro es h; simp [cidEntries] at h; subst h; simp
  | cons p data ih =>
    intro es h
    obtain ⟨code, cid⟩ := p
    simp only [cidEntries] at h
    split at h
    · cases h
    · rename_i buf hbuf
      split at h
      · cases h
      · rename_i es' hes'
        obtain ⟨i1, i2⟩ := ih es' hes'
        split at h
        · rename_i hskip
          injection h with h; subst h
          simp only [Bool.and_eq_true, Bool.not_eq_true', List.isEmpty_eq_false_iff, beq_iff_eq] at hskip
          constructor
          · intro e he
            obtain ⟨p, hp, h'⟩ := i1 e he; exact ⟨p, by simp [hp], h'⟩
          · intro p hp
            rcases List.mem_cons.mp hp with rfl | hp
            · exact ⟨buf, hbuf, .inl ⟨hskip.1, hskip.2⟩⟩
            · exact i2 p hp
        · split at h
          · cases h
          · rename_i key x hsplit
            injection h with h; subst h
            have hb := splitLast_eq buf key x hsplit
            constructor
            · intro e he
              rcases List.mem_cons.mp he with rfl | he
              · exact ⟨(code, cid), by simp, by simp [hbuf, hb], rfl⟩
              · obtain ⟨p, hp, h'⟩ := i1 e he; exact ⟨p, by simp [hp], h'⟩
            · intro p hp
              rcases List.mem_cons.mp hp with rfl | hp
              · exact ⟨buf, hbuf, .inr ⟨⟨key, x, cid⟩, by simp, hb, rfl⟩⟩
              · obtain ⟨bs, h1, h2⟩ := i2 p hp
                refine ⟨bs, h1, ?_⟩
                rcases h2 with h2 | ⟨e, he, h3⟩
                · exact .inl h2
                · exact .inr ⟨e, by simp [he], h3⟩

/-- **`lookup_setMapping` with parents** (full statement, no side condition; true since the fixes
5f29395 and e336336).  `SetMapping` leaves out exactly the entries for which a parent has a
*mapping* with the same CID; `LookupCID` on the chain returns the mapped CID for every mapped code,
and for every other byte string the chain's answer without this file's mappings. -/
theorem lookup_setMapping_parents (f f' : CMapFile) (parents : Chain) (codec : Codec) (data : List (Nat × Nat))
    (h : setMapping f parents codec data = .ok f')
    (hcid : ∀ p ∈ data, p.2 < 4294967296)
    (hbytes : ∀ p ∈ data, ∀ bs, codec.appendCode p.1 = .ok bs → AllBytes bs)
    (hfun : ∀ p ∈ data, ∀ q ∈ data, codec.appendCode p.1 = codec.appendCode q.1 → p.2 = q.2) :
    (∀ p ∈ data, ∃ bs, codec.appendCode p.1 = .ok bs ∧ lookupCID (f' :: parents) bs = p.2) ∧
    (∀ bs, (∀ p ∈ data, codec.appendCode p.1 ≠ .ok bs) →
      lookupCID (f' :: parents) bs = lookupCID ({ f' with singles := [], ranges := [] } :: parents) bs) := by
  unfold setMapping at h
  split at h
  · cases h
  · split at h
    · cases h
    · rename_i es hes
      injection h with h
      obtain ⟨i1, i2⟩ := cidEntries_spec_parents codec parents data es hes
      have hok : EntriesOK es := by
        intro e he
        obtain ⟨p, hp, h1, h2⟩ := i1 e he
        have := hbytes p hp _ h1
        exact ⟨this e.x (by simp), by rw [h2]; exact hcid p hp⟩
      have hfun' : ∀ e ∈ es, ∀ e' ∈ es, e.key ++ [e.x] = e'.key ++ [e'.x] → e.val = e'.val := by
        intro e he e' he' heq
        obtain ⟨p, hp, h1, h2⟩ := i1 e he
        obtain ⟨q, hq, h3, h4⟩ := i1 e' he'
        rw [h2, h4]
        exact hfun p hp q hq (by rw [h1, h3, heq])
      obtain ⟨l1, l2⟩ := own_of_entries f' es hok hfun' (by rw [← h]; rfl) (by rw [← h]; rfl)
      constructor
      · intro p hp
        obtain ⟨bs, h1, h2⟩ := i2 p hp
        refine ⟨bs, h1, ?_⟩
        rw [lookupCID_cons]
        rcases h2 with ⟨_, hpar⟩ | ⟨e, he, h3, h4⟩
        · cases hown : ownLookup f' bs with
          | some v =>
            simp only
            by_cases hex : ∃ e ∈ es, bs = e.key ++ [e.x]
            · obtain ⟨e, he, hbe⟩ := hex
              rw [hbe, l1 e he] at hown
              injection hown with hown
              obtain ⟨q, hq, q1, q2⟩ := i1 e he
              rw [← hown, q2]
              exact hfun q hq p hp (by rw [q1, h1, hbe])
            · have := l2 bs (fun e he heq => hex ⟨e, he, heq⟩)
              rw [this] at hown; cases hown
          | none => simp only [hpar]
        · rw [h3, l1 e he]; exact h4
      · intro bs hno
        rw [lookupCID_cons, lookupCID_cons]
        have : ownLookup f' bs = none := by
          apply l2
          intro e he heq
          obtain ⟨p, hp, h1, _⟩ := i1 e he
          exact hno p hp (by rw [h1, heq])
        rw [this]
        simp only [ownLookup, findSingle, findRange, lookupNotdef]

/-! The former witness of D30b (parent notdef `<00>-<FF> → 2`, child notdef `<16> → 7`, data
`{0x16 ↦ 2}`; before e336336 nothing was stored and `LookupCID(<16>)` was 7): the entry is now kept
and the lookup returns 2.  Replayed against the real code on every run (`cmFixed`). -/

def witnessParent : CMapFile := ⟨[], [], [], [], [⟨[0], [255], 2⟩]⟩
def witnessChild : CMapFile := ⟨[], [], [], [⟨[0x16], 7⟩], []⟩
def witnessCodec : Codec := ⟨[⟨255, 0⟩]⟩

theorem witnessCodec_csr : witnessCodec.codeSpaceRange = .ok [⟨[0], [255]⟩] := by
  have : walk [⟨255, 0⟩] 5 1 [] 0 [] [] 0 = .ok [⟨[0], [255]⟩] := by
    rw [C12ccf.walk_succ]
    simp [C12ccf.walkChild, Gen.cc_validLeaf]
  simp only [Codec.codeSpaceRange, witnessCodec, List.length_cons, List.length_nil, this]
  rfl

theorem witness_setMapping :
    ∃ f', setMapping witnessChild [witnessParent] witnessCodec [(0x16, 2)] = .ok f' ∧
      f'.singles = [⟨[0x16], 2⟩] ∧ lookupCID (f' :: [witnessParent]) [0x16] = 2 := by
  have he : cidEntries witnessCodec [witnessParent] [(0x16, 2)] = .ok [⟨[], 0x16, 2⟩] := by rfl
  simp only [setMapping, witnessCodec_csr, he]
  exact ⟨_, rfl, by decide +kernel, by decide +kernel⟩

end PdfVerif.C13cce

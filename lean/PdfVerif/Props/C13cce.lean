import PdfVerif.Props.C13ccd
/-!
# C13 (part 5) — `SetMapping` on a file with a parent chain
-/
namespace PdfVerif.C13cce
open PdfVerif PdfVerif.CC PdfVerif.C13cc PdfVerif.C13ccb

/-! ## `SetMapping` on a file with parents -/

/-- what the file itself (without parents and notdef entries) answers -/
def ownLookup (f : CMapFile) (bytes : Bytes) : Option Nat :=
  match findSingle bytes f.singles with
  | some v => some v
  | none => findRange bytes f.ranges

theorem lookupCID_cons (f : CMapFile) (parents : Chain) (bytes : Bytes) :
    lookupCID (f :: parents) bytes =
      match ownLookup f bytes with
      | some v => v
      | none => match parents with
        | _ :: _ => lookupCID parents bytes
        | [] => lookupNotdef [f] bytes := by
  simp only [lookupCID, ownLookup]
  cases findSingle bytes f.singles with
  | some v => rfl
  | none =>
    simp only
    cases findRange bytes f.ranges with
    | some v => rfl
    | none => cases parents <;> rfl

theorem own_of_entries (f : CMapFile) (es : List (Entry Nat)) (hes : EntriesOK es)
    (hfun : ∀ e ∈ es, ∀ e' ∈ es, e.key ++ [e.x] = e'.key ++ [e'.x] → e.val = e'.val)
    (hs : f.singles = lefts (outOf es)) (hr : f.ranges = rights (outOf es)) :
    (∀ e ∈ es, ownLookup f (e.key ++ [e.x]) = some e.val) ∧
    (∀ bytes, (∀ e ∈ es, bytes ≠ e.key ++ [e.x]) → ownLookup f bytes = none) := by
  have hsingle : ∀ bytes v, findSingle bytes f.singles = some v → ∃ e ∈ es, bytes = e.key ++ [e.x] ∧ v = e.val := by
    intro bytes v h
    obtain ⟨s, hs', h1, h2⟩ := findSingle_some bytes _ v h
    rw [hs, mem_lefts] at hs'
    exact out_sound es hes _ hs' bytes v ⟨h1, h2⟩
  have hrange : ∀ bytes v, findRange bytes f.ranges = some v → ∃ e ∈ es, bytes = e.key ++ [e.x] ∧ v = e.val := by
    intro bytes v h
    obtain ⟨r, hr', i, h1, h2⟩ := findRange_some bytes _ v h
    rw [hr, mem_rights] at hr'
    exact out_sound es hes _ hr' bytes v ⟨i, h1, h2⟩
  constructor
  · intro e he
    simp only [ownLookup]
    cases h1 : findSingle (e.key ++ [e.x]) f.singles with
    | some v =>
      obtain ⟨e', he', h2, h3⟩ := hsingle _ v h1
      simp only; rw [h3, hfun e he e' he' h2]
    | none =>
      simp only
      cases h2 : findRange (e.key ++ [e.x]) f.ranges with
      | some v =>
        obtain ⟨e', he', h3, h4⟩ := hrange _ v h2
        rw [h4, hfun e he e' he' h3]
      | none =>
        exfalso
        obtain ⟨item, hi, hc⟩ := out_complete es hes e he
        cases item with
        | inl s =>
          have := findSingle_none _ _ h1 s (by rw [hs, mem_lefts]; exact hi)
          exact this hc.1
        | inr r =>
          obtain ⟨i, hi', _⟩ := hc
          have := findRange_none _ _ h2 r (by rw [hr, mem_rights]; exact hi)
          rw [this] at hi'; cases hi'
  · intro bytes hno
    simp only [ownLookup]
    cases h1 : findSingle bytes f.singles with
    | some v => obtain ⟨e, he, h2, _⟩ := hsingle _ v h1; exact absurd h2 (hno e he)
    | none =>
      simp only
      cases h2 : findRange bytes f.ranges with
      | some v => obtain ⟨e, he, h3, _⟩ := hrange _ v h2; exact absurd h3 (hno e he)
      | none => rfl

/-- the entries kept by the first loop of `SetMapping` when there are parents -/
theorem cidEntries_spec_parents (codec : Codec) (parents : Chain) : ∀ (data : List (Nat × Nat)) (es : List (Entry Nat)),
    cidEntries codec parents data = .ok es →
    (∀ e ∈ es, ∃ p ∈ data, codec.appendCode p.1 = .ok (e.key ++ [e.x]) ∧ e.val = p.2) ∧
    (∀ p ∈ data, ∃ bs, codec.appendCode p.1 = .ok bs ∧
        ((parents ≠ [] ∧ lookupCID parents bs = p.2) ∨ ∃ e ∈ es, bs = e.key ++ [e.x] ∧ e.val = p.2)) := by
  intro data
  induction data with
  | nil => intro es h; simp [cidEntries] at h; subst h; simp
  | cons p data ih =>
    intro es h
    obtain ⟨code, cid⟩ := p
    simp only [cidEntries] at h
    split at h
    · cases h
    · rename_i buf hbuf
      split at h
      · cases h
      · rename_i es' hes'
        obtain ⟨i1, i2⟩ := ih es' hes'
        split at h
        · rename_i hskip
          injection h with h; subst h
          simp only [Bool.and_eq_true, Bool.not_eq_true', List.isEmpty_eq_false_iff, beq_iff_eq] at hskip
          constructor
          · intro e he
            obtain ⟨p, hp, h'⟩ := i1 e he; exact ⟨p, by simp [hp], h'⟩
          · intro p hp
            rcases List.mem_cons.mp hp with rfl | hp
            · exact ⟨buf, hbuf, .inl ⟨hskip.1, hskip.2⟩⟩
            · exact i2 p hp
        · split at h
          · cases h
          · rename_i key x hsplit
            injection h with h; subst h
            have hb := splitLast_eq buf key x hsplit
            constructor
            · intro e he
              rcases List.mem_cons.mp he with rfl | he
              · exact ⟨(code, cid), by simp, by simp [hbuf, hb], rfl⟩
              · obtain ⟨p, hp, h'⟩ := i1 e he; exact ⟨p, by simp [hp], h'⟩
            · intro p hp
              rcases List.mem_cons.mp hp with rfl | hp
              · exact ⟨buf, hbuf, .inr ⟨⟨key, x, cid⟩, by simp, hb, rfl⟩⟩
              · obtain ⟨bs, h1, h2⟩ := i2 p hp
                refine ⟨bs, h1, ?_⟩
                rcases h2 with h2 | ⟨e, he, h3⟩
                · exact .inl h2
                · exact .inr ⟨e, by simp [he], h3⟩

/-- **`lookup_setMapping` with parents.**  For a file with a parent chain, `SetMapping` leaves out
the entries the parents already answer; `LookupCID` on the chain still returns the mapped CID
for every mapped code, and the parents' answer for every other byte string. -/
theorem lookup_setMapping_parents (f f' : CMapFile) (parents : Chain) (codec : Codec) (data : List (Nat × Nat))
    (h : setMapping f parents codec data = .ok f')
    (hcid : ∀ p ∈ data, p.2 < 4294967296)
    (hbytes : ∀ p ∈ data, ∀ bs, codec.appendCode p.1 = .ok bs → AllBytes bs)
    (hfun : ∀ p ∈ data, ∀ q ∈ data, codec.appendCode p.1 = codec.appendCode q.1 → p.2 = q.2) :
    (∀ p ∈ data, ∃ bs, codec.appendCode p.1 = .ok bs ∧ lookupCID (f' :: parents) bs = p.2) ∧
    (∀ bs, (∀ p ∈ data, codec.appendCode p.1 ≠ .ok bs) →
      lookupCID (f' :: parents) bs = lookupCID ({ f' with singles := [], ranges := [] } :: parents) bs) := by
  unfold setMapping at h
  split at h
  · cases h
  · split at h
    · cases h
    · rename_i es hes
      injection h with h
      obtain ⟨i1, i2⟩ := cidEntries_spec_parents codec parents data es hes
      have hok : EntriesOK es := by
        intro e he
        obtain ⟨p, hp, h1, h2⟩ := i1 e he
        have := hbytes p hp _ h1
        exact ⟨this e.x (by simp), by rw [h2]; exact hcid p hp⟩
      have hfun' : ∀ e ∈ es, ∀ e' ∈ es, e.key ++ [e.x] = e'.key ++ [e'.x] → e.val = e'.val := by
        intro e he e' he' heq
        obtain ⟨p, hp, h1, h2⟩ := i1 e he
        obtain ⟨q, hq, h3, h4⟩ := i1 e' he'
        rw [h2, h4]
        exact hfun p hp q hq (by rw [h1, h3, heq])
      obtain ⟨l1, l2⟩ := own_of_entries f' es hok hfun' (by rw [← h]; rfl) (by rw [← h]; rfl)
      have hnotdef : ∀ bs, lookupNotdef [f'] bs = lookupNotdef [{ f' with singles := [], ranges := [] }] bs := by
        intro bs; simp [lookupNotdef]
      constructor
      · intro p hp
        obtain ⟨bs, h1, h2⟩ := i2 p hp
        refine ⟨bs, h1, ?_⟩
        rw [lookupCID_cons]
        rcases h2 with ⟨hne, hpar⟩ | ⟨e, he, h3, h4⟩
        · -- left out: either another entry with the same bytes (same CID) or the parents answer
          cases hown : ownLookup f' bs with
          | some v =>
            simp only
            -- some kept entry has these bytes
            by_cases hex : ∃ e ∈ es, bs = e.key ++ [e.x]
            · obtain ⟨e, he, hbe⟩ := hex
              rw [hbe, l1 e he] at hown
              injection hown with hown
              obtain ⟨q, hq, q1, q2⟩ := i1 e he
              rw [← hown, q2]
              exact hfun q hq p hp (by rw [q1, h1, hbe])
            · have := l2 bs (fun e he heq => hex ⟨e, he, heq⟩)
              rw [this] at hown; cases hown
          | none =>
            simp only
            cases parents with
            | nil => exact absurd rfl hne
            | cons g gs => exact hpar
        · rw [h3, l1 e he]; exact h4
      · intro bs hno
        rw [lookupCID_cons, lookupCID_cons]
        have : ownLookup f' bs = none := by
          apply l2
          intro e he heq
          obtain ⟨p, hp, h1, _⟩ := i1 e he
          exact hno p hp (by rw [h1, heq])
        rw [this]
        simp only [ownLookup, findSingle, findRange]
        cases parents with
        | nil => exact hnotdef bs
        | cons g gs => rfl

end PdfVerif.C13cce

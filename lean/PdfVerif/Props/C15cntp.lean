import PdfVerif.Props.C15cnti
/-!
# C15 — closing the partial items of `ops_rt_deep`

* `mkDict_dataKV`, `normD_dict_nodup`, `imgDict_nodup` — for distinct keys (every Go map) the
  dictionary the scanner builds at `>>` (and the inline image dictionary) is the list of written
  entries, without nil/null entries;
* `canonO_good`, `argD_of_good`, `valD_of_good` — sorting every dictionary into `SortedKeys`
  order preserves goodness and does not increase the depth, so the hypotheses of
  `ops_rt_deep`/`inline_image_rt` can be checked on the operands as given.
-/
namespace PdfVerif.C15cntp
open PdfVerif PdfVerif.CNT PdfVerif.C15cnt PdfVerif.C15cnto PdfVerif.C15cntd PdfVerif.C15cntn PdfVerif.C15cntm PdfVerif.C15cnti

theorem dictInsert_new (k : Bytes) (v : Obj) (acc : List (Bytes × Obj)) (h : ∀ e ∈ acc, e.1 ≠ k) :
    dictInsert k v acc = acc ++ [(k, v)] := by
  induction acc with
  | nil => simp [dictInsert]
  | cons e rest ih =>
    obtain ⟨k', v'⟩ := e
    have h1 : (k' == k) = false := by simpa using h (k', v') (by simp)
    have := ih (fun e he => h e (by simp [he]))
    simp [dictInsert, h1, this]

/-- prepend an entry unless its (scanned) value is null -/
def consEntry (k : Bytes) (w : Obj) (rest : List (Bytes × Obj)) : List (Bytes × Obj) :=
  match w with
  | .null => rest
  | w => (k, w) :: rest

/-- the entries of a dictionary as the scanner returns them: nil entries and entries whose value
is written as `null` are absent, values in scanned form -/
def entriesD : List (Bytes × Obj) → List (Bytes × Obj)
  | [] => []
  | (k, v) :: r =>
    match v with
    | .null => entriesD r
    | v => consEntry k (normD v) (entriesD r)

/-- **For distinct keys the dictionary built at `>>` is the list of written entries.** -/
theorem mkDict_dataKV (kv : List (Bytes × Obj)) : ∀ (acc : List (Bytes × Obj)),
    ((acc ++ entriesD kv).map (·.1)).Nodup → mkDict (dataKV kv) acc = acc ++ entriesD kv := by
  induction kv with
  | nil => intro acc _; simp [dataKV, mkDict, entriesD]
  | cons e r ih =>
    intro acc hnd
    obtain ⟨k, v⟩ := e
    by_cases hnull : v = .null
    · subst hnull
      simpa [dataKV, entriesD] using ih acc (by simpa [entriesD] using hnd)
    · have hdat : dataKV ((k, v) :: r) = .name k :: normD v :: dataKV r := by
        cases v <;> first | rfl | exact absurd rfl hnull
      have hent : entriesD ((k, v) :: r) = consEntry k (normD v) (entriesD r) := by
        cases v <;> first | rfl | exact absurd rfl hnull
      rw [hent] at hnd
      rw [hdat, mkDict_cons, hent]
      cases hnv : normD v with
      | null =>
        simp only [hnv, consEntry] at hnd ⊢
        exact ih acc hnd
      | _ =>
        simp only [hnv, consEntry] at hnd ⊢
        rw [← hnv] at hnd ⊢
        have hnew : ∀ e ∈ acc, e.1 ≠ k := by
          intro e he heq
          simp [List.nodup_append] at hnd
          exact (hnd.2.2 e.1 e.2 (by simpa using he)).1 heq
        rw [dictInsert_new k (normD v) acc hnew, ih (acc ++ [(k, normD v)]) (by simpa using hnd)]
        simp


theorem normD_dict_nodup (kv : List (Bytes × Obj)) (h : ((entriesD kv).map (·.1)).Nodup) :
    normD (.dict kv) = .dict (entriesD kv) := by
  simp [normD, mkDict_dataKV kv [] (by simpa using h)]

theorem dataI_eq (kv : List (Bytes × Obj)) : dataI kv = dataKV (canonKV kv) := by
  induction kv with
  | nil => rfl
  | cons e r ih =>
    obtain ⟨k, v⟩ := e
    cases v <;> simp [dataI, canonKV, dataKV, Obj.canon, ih]

/-- for distinct keys the dictionary of an inline image comes back as its written entries -/
theorem imgDict_nodup (kv : List (Bytes × Obj)) (h : ((entriesD (canonKV (sortKV kv))).map (·.1)).Nodup) :
    imgDict kv = entriesD (canonKV (sortKV kv)) := by
  simp [imgDict, dataI_eq, mkDict_dataKV _ [] (by simpa using h)]

/-! ## canonical forms: `GoodO a → GoodO a.canon` -/

def KVOk (e : Bytes × Obj) : Prop := AllBytes e.1 ∧ e.1.length ≤ Gen.content_maxNameBytes ∧ GoodO e.2

theorem goodKV_iff (kv : List (Bytes × Obj)) : GoodKV kv ↔ ∀ e ∈ kv, KVOk e := by
  induction kv with
  | nil => simp [GoodKV]
  | cons x r ih =>
    obtain ⟨k, v⟩ := x
    simp only [GoodKV, List.mem_cons, forall_eq_or_imp, KVOk, ih]
    constructor
    · intro ⟨a, b, c, d⟩; exact ⟨⟨a, b, c⟩, d⟩
    · intro ⟨⟨a, b, c⟩, d⟩; exact ⟨a, b, c, d⟩

theorem goodL_iff (xs : List Obj) : GoodL xs ↔ ∀ x ∈ xs, GoodO x := by
  induction xs with
  | nil => simp [GoodL]
  | cons x r ih => simp [GoodL, ih]

theorem depthKV_le (kv : List (Bytes × Obj)) (n : Nat) : depthKV kv ≤ n ↔ ∀ e ∈ kv, depthO e.2 ≤ n := by
  induction kv with
  | nil => simp [depthKV]
  | cons x r ih =>
    obtain ⟨k, v⟩ := x
    simp [depthKV, Nat.max_le, ih]

theorem depthL_le (xs : List Obj) (n : Nat) : depthL xs ≤ n ↔ ∀ x ∈ xs, depthO x ≤ n := by
  induction xs with
  | nil => simp [depthL]
  | cons x r ih => simp [depthL, Nat.max_le, ih]

def nonNull (e : Bytes × Obj) : Bool :=
  match e.2 with
  | .null => false
  | _ => true

theorem dataKV_length (kv : List (Bytes × Obj)) : (dataKV kv).length = 2 * kv.countP nonNull := by
  induction kv with
  | nil => simp [dataKV]
  | cons x r ih =>
    obtain ⟨k, v⟩ := x
    cases v <;> simp [dataKV, nonNull, List.countP_cons, ih] <;> omega

theorem perm_insertKey (k : Bytes × Obj) (l : List (Bytes × Obj)) : (insertKey k l).Perm (k :: l) := by
  induction l with
  | nil => simp [insertKey]
  | cons x xs ih =>
    simp only [insertKey]
    split
    · exact List.Perm.refl _
    · exact (List.Perm.cons x ih).trans (List.Perm.swap k x xs)

theorem perm_sortKV (l : List (Bytes × Obj)) : (sortKV l).Perm l := by
  induction l with
  | nil => simp [sortKV]
  | cons x xs ih =>
    simp only [sortKV]
    exact (perm_insertKey x (sortKV xs)).trans (List.Perm.cons x ih)

theorem perm_sortedEntries (kv : List (Bytes × Obj)) : (sortedEntries kv).Perm kv := by
  have hTS : keyType ≠ keySubtype := by decide
  unfold sortedEntries
  have h1 : (kv.filter fun e => e.1 == keyType) ++ (kv.filter fun e => !(e.1 == keyType)) |>.Perm kv :=
    List.filter_append_perm _ kv
  have h2 : ((kv.filter fun e => !(e.1 == keyType)).filter fun e => e.1 == keySubtype) ++
      ((kv.filter fun e => !(e.1 == keyType)).filter fun e => !(e.1 == keySubtype)) |>.Perm
      (kv.filter fun e => !(e.1 == keyType)) := List.filter_append_perm _ _
  have e1 : ((kv.filter fun e => !(e.1 == keyType)).filter fun e => e.1 == keySubtype) =
      kv.filter fun e => e.1 == keySubtype := by
    rw [List.filter_filter]
    congr 1
    funext e
    by_cases h : e.1 = keySubtype
    · simp [h, hTS.symm]
    · simp [h]
  have e2 : ((kv.filter fun e => !(e.1 == keyType)).filter fun e => !(e.1 == keySubtype)) =
      kv.filter fun e => e.1 != keyType && e.1 != keySubtype := by
    rw [List.filter_filter]
    congr 1
    funext e
    simp [bne, Bool.and_comm]
  rw [e1, e2] at h2
  refine List.Perm.trans ?_ h1
  rw [List.append_assoc]
  exact List.Perm.append_left _ ((List.Perm.append_left _ (perm_sortKV _)).trans h2)

theorem canon_null_iff (v : Obj) : v.canon = .null ↔ v = .null := by
  cases v <;> simp [Obj.canon]

theorem countP_canonKV (kv : List (Bytes × Obj)) : (canonKV kv).countP nonNull = kv.countP nonNull := by
  induction kv with
  | nil => rfl
  | cons x r ih =>
    obtain ⟨k, v⟩ := x
    cases v <;> simp [canonKV, List.countP_cons, nonNull, Obj.canon, ih]

theorem mem_canonKV (kv : List (Bytes × Obj)) (e : Bytes × Obj) (h : e ∈ canonKV kv) :
    ∃ e' ∈ kv, e = (e'.1, e'.2.canon) := by
  induction kv with
  | nil => simp [canonKV] at h
  | cons x r ih =>
    obtain ⟨k, v⟩ := x
    simp only [canonKV, List.mem_cons] at h
    rcases h with h | h
    · exact ⟨(k, v), by simp, h⟩
    · obtain ⟨e', he', heq⟩ := ih h
      exact ⟨e', by simp [he'], heq⟩

theorem mem_canonList (xs : List Obj) (y : Obj) (h : y ∈ canonList xs) : ∃ x ∈ xs, y = x.canon := by
  induction xs with
  | nil => simp [canonList] at h
  | cons x r ih =>
    simp only [canonList, List.mem_cons] at h
    rcases h with h | h
    · exact ⟨x, by simp, h⟩
    · obtain ⟨x', hx', heq⟩ := ih h
      exact ⟨x', by simp [hx'], heq⟩

theorem length_canonList (xs : List Obj) : (canonList xs).length = xs.length := by
  induction xs with
  | nil => rfl
  | cons x r ih => simp [canonList, ih]

mutual
/-- **Canonicalisation (sorting every dictionary into `SortedKeys` order) preserves goodness and
does not increase the depth**: the hypotheses of `ops_rt_deep` can be checked on the operand as
given. -/
theorem canonO_good : ∀ (c : Obj), GoodO c → GoodO c.canon ∧ depthO c.canon ≤ depthO c
  | .arr xs, hg => by
    unfold GoodO at hg
    have hl := canonL_good xs hg.1
    simp only [Obj.canon]
    unfold GoodO
    refine ⟨⟨(goodL_iff _).mpr ?_, by rw [length_canonList]; exact hg.2⟩, ?_⟩
    · intro y hy
      obtain ⟨x, hx, rfl⟩ := mem_canonList xs y hy
      exact (hl x hx).1
    · simp only [depthO]
      have : depthL (canonList xs) ≤ depthL xs := by
        rw [depthL_le]
        intro y hy
        obtain ⟨x, hx, rfl⟩ := mem_canonList xs y hy
        exact Nat.le_trans (hl x hx).2 ((depthL_le xs _).mp (Nat.le_refl _) x hx)
      omega
  | .dict kv, hg => by
    unfold GoodO at hg
    have hk := canonKV_good kv hg.1
    simp only [Obj.canon]
    unfold GoodO
    have hperm := perm_sortedEntries (canonKV kv)
    refine ⟨⟨(goodKV_iff _).mpr ?_, ?_⟩, ?_⟩
    · intro e he
      obtain ⟨e', he', rfl⟩ := mem_canonKV kv e (hperm.mem_iff.mp he)
      have := (goodKV_iff kv).mp hg.1 e' he'
      exact ⟨this.1, this.2.1, (hk e' he').1⟩
    · rw [dataKV_length, hperm.countP_eq, countP_canonKV, ← dataKV_length]
      exact hg.2
    · simp only [depthO]
      have : depthKV (sortedEntries (canonKV kv)) ≤ depthKV kv := by
        rw [depthKV_le]
        intro e he
        obtain ⟨e', he', rfl⟩ := mem_canonKV kv e (hperm.mem_iff.mp he)
        exact Nat.le_trans (hk e' he').2 ((depthKV_le kv _).mp (Nat.le_refl _) e' he')
      omega
  | .null, hg => ⟨hg, Nat.le_refl _⟩
  | .nilArr, hg => ⟨hg, Nat.le_refl _⟩
  | .bool _, hg => ⟨hg, Nat.le_refl _⟩
  | .int _, hg => ⟨hg, Nat.le_refl _⟩
  | .real _, hg => ⟨hg, Nat.le_refl _⟩
  | .name _, hg => ⟨hg, Nat.le_refl _⟩
  | .str _, hg => ⟨hg, Nat.le_refl _⟩
  | .op _, hg => ⟨hg, Nat.le_refl _⟩
  | .ref _ _, hg => ⟨hg, Nat.le_refl _⟩
theorem canonL_good : ∀ (xs : List Obj), GoodL xs → ∀ x ∈ xs, GoodO x.canon ∧ depthO x.canon ≤ depthO x
  | [], _ => by intro x hx; simp at hx
  | y :: ys, hg => by
    simp only [GoodL] at hg
    intro x hx
    simp at hx
    rcases hx with rfl | hx
    · exact canonO_good x hg.1
    · exact canonL_good ys hg.2 x hx
theorem canonKV_good : ∀ (kv : List (Bytes × Obj)), GoodKV kv → ∀ e ∈ kv, GoodO e.2.canon ∧ depthO e.2.canon ≤ depthO e.2
  | [], _ => by intro e he; simp at he
  | (k, v) :: r, hg => by
    simp only [GoodKV] at hg
    intro e he
    simp at he
    rcases he with rfl | he
    · exact canonO_good v hg.2.2.1
    · exact canonKV_good r hg.2.2.2 e he
end

/-- operands of `ops_rt_deep`, checked on the operand as given -/
theorem argD_of_good (a : Obj) (h : GoodO a) (hd : depthO a ≤ Gen.content_maxContentNestDepth) : ArgD a :=
  ⟨(canonO_good a h).1, Nat.le_trans (canonO_good a h).2 hd⟩

theorem valD_of_good (v : Obj) (h : GoodO v) (hd : depthO v ≤ Gen.content_maxValueDepth) : ValD v :=
  .inr ⟨(canonO_good v h).1, Nat.le_trans (canonO_good v h).2 hd⟩

end PdfVerif.C15cntp

import PdfVerif.Lemmas.CONCExclStep
/-!
# C18 — cache protocol of `pdf.Extractor`: `cache_monotone` and `agreement`

All statements are about the transition system `Model/CONCCache.lean` (resource.go, cursor.go),
over **all** label sequences: any number of threads, any programs of `Decode` /
`DecodeExclusive` / `StoreOrLoadPair` over reference chains and cycles, arbitrary decode
functions (which may themselves decode, fail or panic), transient `Get` errors.
The correspondence run ties the model to the code by executing every schedule of many small
programs on both.
-/
namespace PdfVerif.C18conc
open PdfVerif PdfVerif.CONC

/-! ## cache_monotone -/

/-- `cache_monotone`, one transition: an entry once published never changes (code after
commit 231d3ca; for any thread, any action, any state). -/
theorem cache_monotone_step (cfg : Cfg) (hf : cfg.fixed = true) (s s' : State) (t : Tid) (a : Act)
    (h : step cfg s t a = some s') (k : Key) (v : Val) (hk : s.cache k = some v) :
    s'.cache k = some v :=
  step_le cfg hf s s' t a h k v hk

/-- `cache_monotone`: along every trace, an entry once published never changes. -/
theorem cache_monotone (cfg : Cfg) (hf : cfg.fixed = true) (s s' : State) (ls : List Label)
    (h : run cfg s ls = some s') (k : Key) (v : Val) (hk : s.cache k = some v) :
    s'.cache k = some v :=
  run_le cfg hf ls s s' h k v hk

/-! ## agreement -/

/-- the successful results an event reports, as (key, value) -/
def results : Event → List (Key × Val)
  | .dec _ (.ref r) tp (.ok v) => [((r, tp), v)]
  | .exc _ (.ref r) tp (.ok v) _ => [((r, tp), v)]
  | .pair _ r A B _ _ (some (a', b')) => [((r, A), a'), ((r, B), b')]
  | _ => []

/-- the invariant holds in every reachable state (labels: `StoreOrLoadPair` only on references
whose object is not a reference) -/
theorem inv_reachable (cfg : Cfg) (hf : cfg.fixed = true) (ls : List Label) (s : State)
    (hl : ∀ l ∈ ls, PairOnDirect cfg l) (h : run cfg State.init ls = some s) : Inv cfg s :=
  (run_inv cfg (PairOnDirect cfg) (fun s => XInv s ∧ Inv cfg s)
    (fun _ _ _ _ hg hi hs => ⟨hi.1.step hs, hi.2.step hf hg hi.1.doneOut hs⟩) ls
    State.init s hl ⟨XInv.init, Inv.init cfg⟩ h).2

/-- every reported result is the value cached for a reference further down the chain -/
theorem result_justified {cfg : Cfg} {c : Key → Option Val} {e : Event} (he : EvOK cfg c e)
    {k : Key} {v : Val} (hr : (k, v) ∈ results e) : ∃ r', Reach cfg k.1 r' ∧ c (r', k.2) = some v := by
  cases e with
  | dec t o tp res =>
    cases o with
    | direct => simp [results] at hr
    | ref r =>
      cases res with
      | ok w => simp [results] at hr; obtain ⟨rfl, rfl⟩ := hr; exact he
      | err _ => simp [results] at hr
      | panic => simp [results] at hr
  | exc t o tp res p =>
    cases o with
    | direct => simp [results] at hr
    | ref r =>
      cases res with
      | ok w => simp [results] at hr; obtain ⟨rfl, rfl⟩ := hr; exact he
      | err _ => simp [results] at hr
      | panic => simp [results] at hr
  | pair t r A B a b res =>
    cases res with
    | none => simp [results] at hr
    | some ab =>
      obtain ⟨a', b'⟩ := ab
      simp [results] at hr
      rcases hr with ⟨rfl, rfl⟩ | ⟨rfl, rfl⟩
      · exact ⟨r, .refl r, he.1⟩
      · exact ⟨r, .refl r, he.2⟩
  | run _ _ _ _ _ => simp [results] at hr
  | fnPanic _ => simp [results] at hr

/-- `agreement`: in every reachable state, all results ever returned for one (reference, type)
— by `Decode`, by `DecodeExclusive` (owner or waiter) or as a half of `StoreOrLoadPair`, by
any thread, top level or nested — are the same value. -/
theorem agreement (cfg : Cfg) (hf : cfg.fixed = true) (ls : List Label) (s : State)
    (hl : ∀ l ∈ ls, PairOnDirect cfg l) (h : run cfg State.init ls = some s)
    (e e' : Event) (he : e ∈ s.hist) (he' : e' ∈ s.hist) (k : Key) (v v' : Val)
    (hr : (k, v) ∈ results e) (hr' : (k, v') ∈ results e') : v = v' := by
  have hi := inv_reachable cfg hf ls s hl h
  obtain ⟨r1, h1, c1⟩ := result_justified (hi.hist e he) hr
  obtain ⟨r2, h2, c2⟩ := result_justified (hi.hist e' he') hr'
  rcases h1.linear h2 with h12 | h21
  · have := hi.chain.reach h12 k.2 v c1
    rw [c2] at this; cases this; rfl
  · have := hi.chain.reach h21 k.2 v' c2
    rw [c1] at this; cases this; rfl

/-- chain invariant: if `r` is cached and the object of `r` is the reference `r'`, then `r'`
is cached with the same value. -/
theorem chain_invariant (cfg : Cfg) (hf : cfg.fixed = true) (ls : List Label) (s : State)
    (hl : ∀ l ∈ ls, PairOnDirect cfg l) (h : run cfg State.init ls = some s)
    (r r' : Ref) (tp : Ty) (v : Val) (hc : s.cache (r, tp) = some v) (hg : cfg.get r = .ref r') :
    s.cache (r', tp) = some v :=
  (inv_reachable cfg hf ls s hl h).chain r r' tp v hc hg

/-- a result returned for a key is the value the cache holds for that key, now and (by
`cache_monotone`) for ever, as soon as it holds one -/
theorem result_is_cached (cfg : Cfg) (hf : cfg.fixed = true) (ls : List Label) (s : State)
    (hl : ∀ l ∈ ls, PairOnDirect cfg l) (h : run cfg State.init ls = some s)
    (e : Event) (he : e ∈ s.hist) (k : Key) (v w : Val) (hr : (k, v) ∈ results e)
    (hc : s.cache k = some w) : v = w := by
  have hi := inv_reachable cfg hf ls s hl h
  obtain ⟨r1, h1, c1⟩ := result_justified (hi.hist e he) hr
  have := hi.chain.reach h1 k.2 w hc
  rw [c1] at this; cases this; rfl

/-- non-vacuity: the D12 race (thread 0 follows r1 → r2 and is overtaken by thread 1 decoding
r2) is a trace of the repaired system which satisfies the hypotheses, and it reports three
results for keys on the chain -/
example :
    let cfg : Cfg := ⟨fun r => if r = 1 then .ref 2 else .direct, true⟩
    let ls : List Label :=
      [(0, .callDecode (.ref 1) 0 []), (0, .go), (1, .callDecode (.ref 2) 0 []), (1, .go),
       (1, .fnRet (.ok 5)), (0, .go), (0, .fnRet (.ok 7)), (1, .callDecode (.ref 2) 0 [])]
    (run cfg State.init ls).map (fun s => s.hist.flatMap results)
      = some [((2, 0), 5), ((1, 0), 5), ((2, 0), 5)] := by
  decide

end PdfVerif.C18conc

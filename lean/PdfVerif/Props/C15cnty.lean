import PdfVerif.Model.CNTBufScan
import PdfVerif.Props.C15cntu
import PdfVerif.Props.C15cntt
/-!
# C15 — the buffered content scanner refines the whole-input scanner

`Model/CNTBufScan.lean` writes the whole reader of `graphics/content/stream.go` as programs over
the window operations and interprets them on the 512-byte window (`runB`) and on the whole
remaining input (`runL`).

* `runB_refines` — for **every** program, **every** chunking of the reader and every coherent
  buffer state (`Inv`): `runB` never hangs, returns the value of `runL` on `view s`, and leaves
  `view` = the remaining input of `runL` (induction over the program; the cases are the leaf
  refinements of `Props/C15cntu.lean`).
* `…P_eq` — each program on the whole input is the corresponding function of
  `Model/CNTScan.lean` (`tokP_eq : scanToken`, `value_eq : readValue/readArr/readDictBody`,
  `imageP_eq : readInlineImage`, `scanOneP_eq : scanOne`, `scanP_eq : scan`), with identical fuel.
* **`scanBuf_refines`** — `scanBuf ch data = some (scan data)` for every chunking and every input.
* per call, from any coherent state: `scanOneBuf_refines`, `scanTokenBuf_refines`.
* examples at the end: a name with a `#xx` escape straddling offset 512, evaluated by the kernel
  under 1-byte reads, window-filling reads and irregular short reads.
-/
namespace PdfVerif.C15cnty
open PdfVerif PdfVerif.CNT PdfVerif.CNTB PdfVerif.C15cntu

theorem hdRes_eq (l : Bytes) : hdRes l = headRes l := by cases l <;> rfl

theorem iiB_eq (r : IIRes) : iiB r = resB r := by cases r <;> rfl

theorem restOK_iiRest (r : IIRes) (v : Bytes) (h : restOK r v) : v = iiRest r := by
  cases r <;> simpa [restOK, iiRest] using h

/-! ## every program computes on the window what it computes on the whole input -/

/-- **Generic refinement.**  For every program over the window operations, every chunking of the
reader and every coherent buffer state: the run on the 512-byte window never hangs, returns the
value of the run on the whole remaining input `view s`, and leaves exactly the remaining input
of that run. -/
theorem runB_refines {α : Type} (ch : Chunking) (p : Prog α) : ∀ (s : BS), Inv s →
    (runB ch p s).2 = some (runL p (view s)).1 ∧ Inv (runB ch p s).1 ∧
    view (runB ch p s).1 = (runL p (view s)).2 := by
  induction p with
  | ret a => intro s h; exact ⟨rfl, h, rfl⟩
  | rd k ih =>
    intro s h
    obtain ⟨r1, r2, r3⟩ := readByte_spec ch s h
    simp only [runB, runL]
    rw [r2, ← hdRes_eq]
    cases hv : view s with
    | nil =>
      rw [hv] at r3
      have := ih .eof _ r1
      rw [r3] at this
      simpa [hdRes] using this
    | cons c t =>
      rw [hv] at r3
      have := ih (.byte c) _ r1
      rw [r3] at this
      simpa [hdRes] using this
  | pk k ih =>
    intro s h
    obtain ⟨r1, r2, r3, _⟩ := peek_spec ch 2 s h (Nat.le_refl _)
    simp only [runB, runL]
    rw [r3, ← hdRes_eq]
    cases hv : view s with
    | nil =>
      rw [hv] at r2
      have := ih .eof _ r1
      rw [r2] at this
      simpa [hdRes] using this
    | cons c t =>
      rw [hv] at r2
      have := ih (.byte c) _ r1
      rw [r2] at this
      simpa [hdRes] using this
  | pkN n k ih =>
    intro s h
    obtain ⟨r1, r2, r3⟩ := peekN_spec ch n.val (by have := n.isLt; simp [bufSize]; omega) 4 s h (by decide)
      (by have := n.isLt; omega)
    simp only [runB, runL]
    rw [r3]
    have := ih ((view s).take n.val) _ r1
    rw [r2] at this
    simpa using this
  | ws k ih =>
    intro s h
    obtain ⟨r1, r2, r3⟩ := skipWhiteSpace_spec ch ((view s).length + 2) s h (Nat.le_refl _)
    simp only [runB, runL]
    rw [r1]
    have := ih (CNT.skipWS (view s)).isEmpty _ r2
    rw [r3] at this
    simpa using this
  | hx k ih =>
    intro s h
    obtain ⟨r1, r2, r3⟩ := tryHex_spec ch s h
    simp only [runB, runL]
    have := ih (tryHex ch s).2 _ r1
    rw [r3] at this
    rw [r2] at this ⊢
    exact this
  | ei n prev k ih =>
    intro s h
    obtain ⟨r1, r2, r3⟩ := iiLoopB_spec ch ((view s).length + 1) n prev s h (Nat.le_refl _)
    simp only [runB, runL]
    rw [r1, ← iiB_eq]
    have hv := restOK_iiRest _ _ r3
    cases hl : iiLoop n prev (view s) with
    | found d r =>
      have := ih (.found d) _ r2
      rw [hv, hl] at this
      simpa [iiB, iiRest] using this
    | eof =>
      have := ih .eof _ r2
      rw [hv, hl] at this
      simpa [iiB, iiRest] using this
    | capped r =>
      have := ih .capped _ r2
      rw [hv, hl] at this
      simpa [iiB, iiRest] using this
  | len k ih =>
    intro s h
    simp only [runB, runL]
    exact ih _ s h

/-! ## the programs on the whole input are `Model/CNTScan.lean` -/

theorem runL_bind {α β : Type} (p : Prog α) (g : α → Prog β) : ∀ l : Bytes,
    runL (p.bind g) l = runL (g (runL p l).1) (runL p l).2 := by
  induction p with
  | ret a => intro l; rfl
  | rd k ih => intro l; simp only [Prog.bind, runL]; exact ih _ _
  | pk k ih => intro l; simp only [Prog.bind, runL]; exact ih _ _
  | pkN n k ih => intro l; simp only [Prog.bind, runL]; exact ih _ _
  | ws k ih => intro l; simp only [Prog.bind, runL]; exact ih _ _
  | hx k ih => intro l; simp only [Prog.bind, runL]; exact ih _ _
  | ei n prev k ih => intro l; simp only [Prog.bind, runL]; exact ih _ _
  | len k ih => intro l; simp only [Prog.bind, runL]; exact ih _ _

theorem runL_map {α β : Type} (f : α → β) (p : Prog α) (l : Bytes) :
    runL (p.map f) l = (f (runL p l).1, (runL p l).2) := by
  simp [Prog.map, runL_bind, runL]

theorem skipSpP_eq : ∀ (f : Nat) (l : Bytes), l.length + 1 ≤ f →
    runL (skipSpP f) l = ((skipSp l).isEmpty, skipSp l) := by
  intro f
  induction f with
  | zero => intro l h; omega
  | succ f ih =>
    intro l h
    cases l with
    | nil => simp [skipSpP, runL, hdRes, skipSp]
    | cons c t =>
      simp only [skipSpP, runL, hdRes, skipSp]
      by_cases hc : cSpace c = true
      · simp only [hc, if_true, runL, List.tail_cons]
        exact ih t (by simp at h; omega)
      · simp [hc, runL]

theorem cmtP_eq : ∀ (f : Nat) (l : Bytes), l.length + 1 ≤ f → runL (cmtP f) l = spanCmt l := by
  intro f
  induction f with
  | zero => intro l h; omega
  | succ f ih =>
    intro l h
    cases l with
    | nil => simp [cmtP, runL, hdRes, spanCmt]
    | cons c t =>
      simp only [cmtP, runL, hdRes, spanCmt]
      by_cases hc : (c == 10 || c == 13) = true
      · simp [hc, runL]
      · simp only [hc, Bool.false_eq_true, if_false, runL, List.tail_cons, runL_map]
        rw [ih t (by simp at h; omega)]

theorem regP_eq : ∀ (f : Nat) (l : Bytes), l.length + 1 ≤ f → runL (regP f) l = spanReg l := by
  intro f
  induction f with
  | zero => intro l h; omega
  | succ f ih =>
    intro l h
    cases l with
    | nil => simp [regP, runL, hdRes, spanReg]
    | cons c t =>
      simp only [regP, runL, hdRes, spanReg]
      by_cases hc : cReg c = true
      · simp only [hc, if_true, runL, List.tail_cons, runL_map]
        rw [ih t (by simp at h; omega)]
      · simp [hc, runL]

theorem nameBodyS_drop : ∀ (k : Nat) (l : Bytes), nameBodyS k l = nameBodyS 0 (l.drop k) := by
  intro k
  induction k with
  | zero => intro l; simp
  | succ k ih =>
    intro l
    cases l with
    | nil => simp [nameBodyS]
    | cons x t => simp only [nameBodyS, List.drop_succ_cons]; exact ih t

theorem nameP_eq : ∀ (f : Nat) (l : Bytes), l.length + 1 ≤ f → runL (nameP f) l = nameBody l := by
  intro f
  induction f with
  | zero => intro l h; omega
  | succ f ih =>
    intro l h
    cases l with
    | nil => simp [nameP, runL, hdRes, nameBody, nameBodyS]
    | cons c t =>
      simp only [nameP, runL, hdRes, nameBody, nameBodyS]
      by_cases hc : cReg c = true
      · simp only [hc, Bool.not_true, Bool.false_eq_true, if_false]
        by_cases h35 : (c == 35) = true
        · simp only [h35, if_true, runL, List.tail_cons]
          cases hh : hex2 t with
          | none =>
            simp only [runL, List.tail_cons, runL_map]
            have := ih t (by simp at h; omega)
            simp only [nameBody] at this
            rw [this]
          | some v =>
            simp only [runL_map]
            have := ih (t.drop 2) (by simp at h ⊢; omega)
            simp only [nameBody] at this
            rw [nameBodyS_drop 2 t, show List.drop 3 (c :: t) = List.drop 2 t from rfl, this]
        · simp only [h35, Bool.false_eq_true, if_false, runL, List.tail_cons, runL_map]
          have := ih t (by simp at h; omega)
          simp only [nameBody] at this
          rw [this]
      · simp [hc, runL]

theorem toRes_consR (x : Nat) (p : Prog (R Bytes)) (l : Bytes) :
    toRes (runL (consR x p) l) = consB x (toRes (runL p l)) := by
  simp only [consR, runL_map]
  cases h : (runL p l).1 <;> simp [toRes, h, R.map, consB, Res.map]

theorem toRes_map {α β : Type} (g : α → β) (p : Prog (R α)) (l : Bytes) :
    toRes (runL (p.map (R.map g)) l) = (toRes (runL p l)).map g := by
  simp only [runL_map]
  cases h : (runL p l).1 <;> simp [toRes, h, R.map, Res.map]

theorem hexP_eq : ∀ (f : Nat) (hi : Option Nat) (len : Nat) (l : Bytes), l.length + 1 ≤ f →
    toRes (runL (hexP f hi len) l) = readHex hi len l := by
  intro f
  induction f with
  | zero => intro hi len l h; omega
  | succ f ih =>
    intro hi len l h
    cases l with
    | nil => simp [hexP, runL, hdRes, readHex, toRes]
    | cons b t =>
      have ht : t.length + 1 ≤ f := by simp at h; omega
      simp only [hexP, runL, hdRes, readHex, List.tail_cons]
      by_cases h62 : (b == 62) = true
      · simp only [h62, if_true, runL]
        cases hi <;> simp [toRes]
      · simp only [h62, Bool.false_eq_true, if_false]
        by_cases hs : cSpace b = true
        · simp only [hs, if_true]; exact ih hi len t ht
        · simp only [hs, Bool.false_eq_true, if_false]
          cases hv : hexVal b with
          | none => simp [runL, toRes]
          | some lo =>
            simp only []
            cases hi with
            | none => simp only []; exact ih (some lo) len t ht
            | some hh =>
              simp only []
              by_cases hl : len ≥ Gen.content_maxStringBytes
              · simp [hl, runL, toRes]
              · simp only [hl, if_false]
                rw [toRes_consR, ih none (len + 1) t ht]

theorem strP_eq : ∀ (f : Nat) (level : Nat) (ign : Bool) (len : Nat) (l : Bytes), l.length + 1 ≤ f →
    toRes (runL (strP f level ign len) l) = readStr level ign len l := by
  intro f
  induction f with
  | zero => intro level ign len l h; omega
  | succ f ih =>
    intro level ign len l h
    rw [readStr.eq_def]
    simp only [strP]
    by_cases hl : len ≥ Gen.content_maxStringBytes
    · cases l <;> simp [hl, runL, toRes]
    · have hl' : len < Gen.content_maxStringBytes := Nat.not_le.mp hl
      cases l with
      | nil => simp [runL, hdRes, toRes, hl, hl']
      | cons b t =>
        have ht : t.length + 1 ≤ f := by simp at h; omega
        simp only [hl, if_false, runL, hdRes, List.tail_cons]
        by_cases c1 : (ign && b == 10) = true
        · simp only [c1, if_true]; exact ih _ _ _ t ht
        simp only [c1, Bool.false_eq_true, if_false]
        by_cases c2 : (b == 40) = true
        · simp only [c2, if_true]; rw [toRes_consR, ih _ _ _ t ht]
        simp only [c2, Bool.false_eq_true, if_false]
        by_cases c3 : (b == 41) = true
        · simp only [c3, if_true]
          by_cases c4 : (level == 1) = true
          · simp [c4, runL, toRes, hl']
          · simp only [c4, Bool.false_eq_true, if_false]; rw [toRes_consR, ih _ _ _ t ht]
        simp only [c3, Bool.false_eq_true, if_false]
        by_cases c5 : (b == 92) = true
        · simp only [c5, if_true]
          cases t with
          | nil => simp [runL, hdRes, toRes]
          | cons e t' =>
            have ht' : t'.length + 1 ≤ f := by simp at ht; omega
            simp only [runL, hdRes, List.tail_cons]
            by_cases e1 : (e == 110) = true
            · simp only [e1, if_true]; rw [toRes_consR, ih _ _ _ t' ht']
            simp only [e1, Bool.false_eq_true, if_false]
            by_cases e2 : (e == 114) = true
            · simp only [e2, if_true]; rw [toRes_consR, ih _ _ _ t' ht']
            simp only [e2, Bool.false_eq_true, if_false]
            by_cases e3 : (e == 116) = true
            · simp only [e3, if_true]; rw [toRes_consR, ih _ _ _ t' ht']
            simp only [e3, Bool.false_eq_true, if_false]
            by_cases e4 : (e == 98) = true
            · simp only [e4, if_true]; rw [toRes_consR, ih _ _ _ t' ht']
            simp only [e4, Bool.false_eq_true, if_false]
            by_cases e5 : (e == 102) = true
            · simp only [e5, if_true]; rw [toRes_consR, ih _ _ _ t' ht']
            simp only [e5, Bool.false_eq_true, if_false]
            by_cases e6 : (e == 10) = true
            · simp only [e6, if_true]; exact ih _ _ _ t' ht'
            simp only [e6, Bool.false_eq_true, if_false]
            by_cases e7 : (e == 13) = true
            · simp only [e7, if_true]; exact ih _ _ _ t' ht'
            simp only [e7, Bool.false_eq_true, if_false]
            by_cases e8 : isOct e = true
            · simp only [e8, if_true]
              cases t' with
              | nil =>
                simp only [runL, hdRes]
                rw [toRes_consR, ih _ _ _ [] (by simp at ht' ⊢; omega)]
              | cons d2 r2 =>
                have hr2 : r2.length + 1 ≤ f := by simp at ht'; omega
                simp only [runL, hdRes]
                by_cases o2 : isOct d2 = true
                · simp only [o2, if_true, runL, List.tail_cons]
                  cases r2 with
                  | nil =>
                    simp only [hdRes]
                    rw [toRes_consR, ih _ _ _ [] (by simp at hr2 ⊢; omega)]
                  | cons d3 r3 =>
                    simp only [hdRes]
                    by_cases o3 : isOct d3 = true
                    · simp only [o3, if_true, runL, List.tail_cons]
                      rw [toRes_consR, ih _ _ _ r3 (by simp at hr2 ⊢; omega)]
                    · simp only [o3, Bool.false_eq_true, if_false]
                      rw [toRes_consR, ih _ _ _ (d3 :: r3) hr2]
                · simp only [o2, Bool.false_eq_true, if_false]
                  rw [toRes_consR, ih _ _ _ (d2 :: r2) ht']
            · simp only [e8, Bool.false_eq_true, if_false]
              rw [toRes_consR, ih _ _ _ t' ht']
        simp only [c5, Bool.false_eq_true, if_false]
        by_cases c6 : (b == 13) = true
        · simp only [c6, if_true]; rw [toRes_consR, ih _ _ _ t ht]
        · simp only [c6, Bool.false_eq_true, if_false]; rw [toRes_consR, ih _ _ _ t ht]

theorem tokP_eq (l : Bytes) : toRes (runL tokP l) = scanToken l := by
  simp only [tokP, scanToken, runL]
  cases hsk : CNT.skipWS l with
  | nil => simp [runL, toRes]
  | cons c r =>
    simp only [List.isEmpty_cons, Bool.false_eq_true, if_false, runL,
      show ((2 : Fin 4).val) = 2 from rfl, show List.take 2 (c :: r) = c :: List.take 1 r from rfl]
    by_cases c47 : (c == 47) = true
    · simp only [c47, if_true, runL, List.tail_cons]
      rw [runL_bind, nameP_eq _ r (Nat.le_refl _)]
      rcases nameBody r with ⟨n, rest⟩
      simp only [runL, toRes]
      by_cases hn : n.length > Gen.content_maxNameBytes <;> simp [hn]
    simp only [c47, Bool.false_eq_true, if_false]
    by_cases c40 : (c == 40) = true
    · simp only [c40, if_true, runL, List.tail_cons]
      rw [toRes_map, strP_eq _ _ _ _ r (Nat.le_refl _)]
    simp only [c40, Bool.false_eq_true, if_false]
    by_cases c60 : (c == 60) = true
    · simp only [c60, if_true]
      cases r with
      | nil =>
        simp only [List.take_nil, show (([] : Bytes) == [60]) = false from rfl, Bool.false_eq_true, if_false,
          runL, List.tail_cons]
        rw [toRes_map, hexP_eq _ _ _ [] (Nat.le_refl _)]
      | cons d r' =>
        simp only [show List.take 1 (d :: r') = [d] from rfl]
        by_cases d60 : (d == 60) = true
        · have : ([d] == [60]) = true := by simp at d60; simp [d60]
          simp [this, d60, runL, toRes]
        · have : ([d] == [60]) = false := by simp at d60; simp [d60]
          simp only [this, d60, Bool.false_eq_true, if_false, runL, List.tail_cons]
          rw [toRes_map, hexP_eq _ _ _ (d :: r') (Nat.le_refl _)]
    simp only [c60, Bool.false_eq_true, if_false]
    have hgt : (c == 62 && List.take 1 r == [62]) = (c == 62 && r.head? == some 62) := by
      cases r with
      | nil => simp
      | cons d r' => simp
    rw [hgt]
    by_cases c62 : (c == 62 && r.head? == some 62) = true
    · simp only [c62, if_true, runL, List.tail_cons, toRes]
    simp only [c62, Bool.false_eq_true, if_false, runL, List.tail_cons]
    by_cases cr : cReg c = true
    · simp only [cr, if_true, runL]
      rw [runL_bind, regP_eq _ r (Nat.le_refl _)]
      rcases spanReg r with ⟨run, rest⟩
      simp only [runL, toRes]
      by_cases hn : run.length + 1 > Gen.content_maxNameBytes <;> simp [hn]
    · simp [cr, runL, toRes]

theorem take2_prefix (term l : Bytes) (h : term.length = 2) : (l.take 2 == term) = isPrefixOf term l := by
  match term, h with
  | [a, b], _ =>
    match l with
    | [] => simp [isPrefixOf]
    | [x] => simp [isPrefixOf]
    | x :: y :: r => simp [isPrefixOf, Bool.beq_comm]

theorem bind_tok {β : Type} (g : R Obj → Prog (R β)) (l : Bytes) :
    ∃ r rest, runL (tokP.bind g) l = runL (g r) rest ∧ toRes (r, rest) = scanToken l := by
  refine ⟨(runL tokP l).1, (runL tokP l).2, runL_bind _ _ _, ?_⟩
  exact tokP_eq l

theorem value_eq : ∀ (f : Nat),
    (∀ depth l, toRes (runL (valueP f depth) l) = readValue f depth l) ∧
    (∀ depth acc l, toRes (runL (arrP f depth acc) l) = readArr f depth acc l) ∧
    (∀ term vd acc l, term.length = 2 →
      toRes (runL (dictP f term vd acc) l) = readDictBody f term vd acc l) := by
  intro f
  induction f with
  | zero =>
    refine ⟨?_, ?_, ?_⟩ <;> intros <;>
      simp [valueP, arrP, dictP, readValue, readArr, readDictBody, runL, toRes]
  | succ f ih =>
    obtain ⟨ihv, iha, ihd⟩ := ih
    refine ⟨?_, ?_, ?_⟩
    · intro depth l
      simp only [valueP, readValue]
      rw [runL_bind]
      have ht := tokP_eq l
      rcases hrun : runL tokP l with ⟨r, rest⟩
      rw [hrun] at ht
      simp only []
      cases r with
      | ok a =>
        have ht' : scanToken l = Res.ok a rest := ht.symm
        rw [ht']
        cases a with
        | op o =>
          simp only []
          by_cases h91 : (o == [91]) = true
          · simp only [h91, if_true]
            by_cases hd : depth ≥ Gen.content_maxValueDepth
            · simp [hd, runL, toRes]
            · simp only [hd, if_false]; exact iha _ _ _
          · simp only [h91, Bool.false_eq_true, if_false]
            by_cases h60 : (o == [60, 60]) = true
            · simp only [h60, if_true]
              by_cases hd : depth ≥ Gen.content_maxValueDepth
              · simp [hd, runL, toRes]
              · simp only [hd, if_false]
                rw [toRes_map, ihd _ _ _ _ rfl]
            · simp [h60, runL, toRes]
        | _ => simp [runL, toRes]
      | eof => have ht' : scanToken l = Res.eof := ht.symm; rw [ht']; simp [runL, toRes]
      | perr => have ht' : scanToken l = Res.perr rest := ht.symm; rw [ht']; simp [runL, toRes]
      | fuel => have ht' : scanToken l = Res.fuel := ht.symm; rw [ht']; simp [runL, toRes]
    · intro depth acc l
      simp only [arrP, readArr, runL]
      cases hsk : CNT.skipWS l with
      | nil => simp [runL, toRes]
      | cons c r =>
        simp only [List.isEmpty_cons, Bool.false_eq_true, if_false, runL,
          show ((1 : Fin 4).val) = 1 from rfl, show List.take 1 (c :: r) = [c] from rfl]
        by_cases h93 : (c == 93) = true
        · have : ([c] == [93]) = true := by simp at h93; simp [h93]
          simp [this, h93, runL, toRes]
        · have : ([c] == [93]) = false := by simp at h93; simp [h93]
          simp only [this, h93, Bool.false_eq_true, if_false]
          by_cases hlen : acc.length ≥ Gen.content_maxArrayLen
          · simp [hlen, runL, toRes]
          · simp only [hlen, if_false]
            rw [runL_bind]
            have hv := ihv depth (c :: r)
            rcases hrun : runL (valueP f depth) (c :: r) with ⟨rv, rest⟩
            rw [hrun] at hv
            simp only []
            cases rv with
            | ok e =>
              have hv' : readValue f depth (c :: r) = Res.ok e rest := hv.symm
              rw [hv']; exact iha _ _ _
            | eof => have hv' : readValue f depth (c :: r) = Res.eof := hv.symm; rw [hv']; simp [runL, toRes]
            | perr => have hv' : readValue f depth (c :: r) = Res.perr rest := hv.symm; rw [hv']; simp [runL, toRes]
            | fuel => have hv' : readValue f depth (c :: r) = Res.fuel := hv.symm; rw [hv']; simp [runL, toRes]
    · intro term vd acc l hterm
      simp only [dictP, readDictBody, runL]
      cases hsk : CNT.skipWS l with
      | nil => simp [runL, toRes]
      | cons c r =>
        simp only [List.isEmpty_cons, Bool.false_eq_true, if_false, runL,
          show ((2 : Fin 4).val) = 2 from rfl]
        rw [take2_prefix term (c :: r) hterm]
        by_cases hp : isPrefixOf term (c :: r) = true
        · simp only [hp, if_true, runL, toRes, hterm]
          cases r <;> rfl
        · simp only [hp, Bool.false_eq_true, if_false]
          rw [runL_bind]
          have hv := ihv vd (c :: r)
          rcases hrun : runL (valueP f vd) (c :: r) with ⟨rk, rest⟩
          rw [hrun] at hv
          simp only []
          cases rk with
          | ok k =>
            have hv' : readValue f vd (c :: r) = Res.ok k rest := hv.symm
            rw [hv']
            cases k with
            | name key =>
              simp only []
              rw [runL_bind]
              have hv2 := ihv vd rest
              rcases hrun2 : runL (valueP f vd) rest with ⟨rv, rest'⟩
              rw [hrun2] at hv2
              simp only []
              cases rv with
              | ok v =>
                have hv2' : readValue f vd rest = Res.ok v rest' := hv2.symm
                rw [hv2']
                cases v with
                | null => simp only []; exact ihd _ _ _ _ hterm
                | _ =>
                  simp only []
                  cases hc : (!(acc.any fun e => e.1 == key) && decide (acc.length ≥ Gen.content_maxDictLen))
                  · simp only [Bool.false_eq_true, if_false]; exact ihd _ _ _ _ hterm
                  · simp [runL, toRes]
              | eof => have hv2' : readValue f vd rest = Res.eof := hv2.symm; rw [hv2']; simp [runL, toRes]
              | perr => have hv2' : readValue f vd rest = Res.perr rest' := hv2.symm; rw [hv2']; simp [runL, toRes]
              | fuel => have hv2' : readValue f vd rest = Res.fuel := hv2.symm; rw [hv2']; simp [runL, toRes]
            | _ => simp [runL, toRes]
          | eof => have hv' : readValue f vd (c :: r) = Res.eof := hv.symm; rw [hv']; simp [runL, toRes]
          | perr => have hv' : readValue f vd (c :: r) = Res.perr rest := hv.symm; rw [hv']; simp [runL, toRes]
          | fuel => have hv' : readValue f vd (c :: r) = Res.fuel := hv.symm; rw [hv']; simp [runL, toRes]

/-! ### inline images -/

theorem readNP_short : ∀ (n : Nat) (l : Bytes), l.length < n → (runL (readNP n) l).1 = none := by
  intro n
  induction n with
  | zero => intro l h; omega
  | succ n ih =>
    intro l h
    cases l with
    | nil => simp [readNP, runL, hdRes]
    | cons b t =>
      simp only [readNP, runL, hdRes, List.tail_cons, runL_map]
      rw [ih t (by simp at h; omega)]
      rfl

theorem readNP_ok : ∀ (n : Nat) (l : Bytes), n ≤ l.length →
    runL (readNP n) l = (some (l.take n), l.drop n) := by
  intro n
  induction n with
  | zero => intro l _; simp [readNP, runL]
  | succ n ih =>
    intro l h
    cases l with
    | nil => simp at h
    | cons b t =>
      simp only [readNP, runL, hdRes, List.tail_cons, runL_map]
      rw [ih t (by simp at h; omega)]
      simp

theorem finP_eq (kv : List (Bytes × Obj)) (data l : Bytes) :
    toRes (runL (finP kv data) l) = iiFinish kv data l := by
  simp only [finP, runL, show ((2 : Fin 4).val) = 2 from rfl, kwEI]
  match l with
  | [] => simp [iiFinish, runL, toRes]
  | [a] =>
    have : ([a] == [69, 73]) = false := by simp
    simp [this, iiFinish, runL, toRes]
  | a :: b :: rest =>
    simp only [show List.take 2 (a :: b :: rest) = [a, b] from rfl]
    by_cases hab : a = 69 ∧ b = 73
    · obtain ⟨ha, hb⟩ := hab
      subst ha hb
      simp only [show (([69, 73] : Bytes) == [69, 73]) = true from rfl, if_true, runL, List.tail_cons, iiFinish]
      cases rest with
      | nil => simp [hdRes, runL, toRes]
      | cons c t =>
        simp only [hdRes]
        by_cases hc : cReg c = true <;> simp [hc, runL, toRes]
    · have h1 : ([a, b] == [69, 73]) = false := by
        simp only [not_and] at hab
        by_cases ha : a = 69
        · have := hab ha; simp [ha, this]
        · simp [ha]
      simp only [h1, Bool.false_eq_true, if_false, List.length_cons, List.length_nil]
      have h2 : iiFinish kv data (a :: b :: rest) = .perr (a :: b :: rest) := by
        unfold iiFinish
        split
        · rename_i r heq
          simp at heq
          exact absurd ⟨heq.1, heq.2.1⟩ hab
        · rename_i heq; simp at heq
        · rename_i heq; simp at heq
        · rfl
      rw [h2]
      simp [runL, toRes]

theorem dataP_eq (kv : List (Bytes × Obj)) (l : Bytes) (hc : (skipsWS kv && l.isEmpty) = false) :
    toRes (runL (dataP kv) l) = imageData kv l := by
  simp only [dataP, imageData, hc, Bool.false_eq_true, if_false]
  by_cases hpos : iiInt kv nmL nmLength > 0
  · simp only [hpos, if_true]
    by_cases hmax : iiInt kv nmL nmLength > ↑Gen.content_maxInlineImageBytes
    · simp [hmax, runL, toRes]
    · simp only [hmax, if_false]
      rw [runL_bind]
      by_cases hshort : l.length < (iiInt kv nmL nmLength).toNat
      · simp only [hshort, if_true, readNP_short _ _ hshort, runL, toRes]
      · simp only [hshort, if_false]
        rw [readNP_ok _ _ (Nat.le_of_not_lt hshort)]
        simp only [runL]
        cases hsk : CNT.skipWS (List.drop (iiInt kv nmL nmLength).toNat l) with
        | nil => simp [runL, toRes]
        | cons c r =>
          simp only [List.isEmpty_cons, Bool.false_eq_true, if_false]
          exact finP_eq _ _ _
  · simp only [hpos, if_false, runL]
    cases hl : iiLoop 0 0 l with
    | eof => simp [iiB, runL, toRes]
    | capped r => simp [iiB, iiRest, runL, toRes]
    | found d r => simp only [iiB, iiRest]; exact finP_eq _ _ _

theorem goP_eq (kv : List (Bytes × Obj)) (x : Bytes) :
    toRes (runL (goP kv) x) = imageData kv (if skipsWS kv then CNT.skipWS x else x) := by
  unfold goP
  cases hs : skipsWS kv with
  | false =>
    simp only [Bool.false_eq_true, if_false]
    exact dataP_eq kv x (by simp [hs])
  | true =>
    simp only [if_true, runL]
    cases hsk : CNT.skipWS x with
    | nil => simp [runL, toRes, imageData, hs]
    | cons c r =>
      simp only [List.isEmpty_cons, Bool.false_eq_true, if_false]
      exact dataP_eq kv (c :: r) (by simp)

theorem afterIDP_eq (kv : List (Bytes × Obj)) (l : Bytes) :
    toRes (runL (afterIDP kv) l) = imageData kv (afterID kv l) := by
  unfold afterIDP afterID
  cases l with
  | nil => simp only [runL, hdRes]; exact goP_eq kv []
  | cons c r =>
    simp only [runL, hdRes]
    by_cases hc : cSpace c = true
    · simp only [hc, if_true, runL, List.tail_cons]; exact goP_eq kv r
    · simp only [hc, Bool.false_eq_true, if_false]; exact goP_eq kv (c :: r)

theorem imageP_eq (l : Bytes) : toRes (runL imageP l) = readInlineImage l := by
  simp only [imageP, readInlineImage, runL]
  rw [runL_bind]
  have hd := (value_eq (2 * l.length + 2)).2.2 kwID 0 [] l rfl
  rcases hrun : runL (dictP (2 * l.length + 2) kwID 0 []) l with ⟨r, rest⟩
  rw [hrun] at hd
  simp only []
  cases r with
  | ok kv =>
    have hd' : readDictBody (2 * l.length + 2) kwID 0 [] l = Res.ok kv rest := hd.symm
    rw [hd']
    simp only []
    split
    · simp [runL, toRes]
    · split
      · simp [runL, toRes]
      · exact afterIDP_eq kv rest
  | eof =>
    have hd' : readDictBody (2 * l.length + 2) kwID 0 [] l = Res.eof := hd.symm
    rw [hd']; simp [runL, toRes]
  | perr =>
    have hd' : readDictBody (2 * l.length + 2) kwID 0 [] l = Res.perr rest := hd.symm
    rw [hd']; simp [runL, toRes]
  | fuel =>
    have hd' : readDictBody (2 * l.length + 2) kwID 0 [] l = Res.fuel := hd.symm
    rw [hd']; simp [runL, toRes]

/-! ### `Scan`, `pumpScanner` -/

theorem scanLoopP_eq : ∀ (f : Nat) (stk : List Frame) (args : List Obj) (l : Bytes),
    toRes (runL (scanLoopP f stk args) l) = scanLoop f stk args l := by
  intro f
  induction f with
  | zero => intro stk args l; simp [scanLoopP, scanLoop, runL, toRes]
  | succ f ih =>
    intro stk args l
    simp only [scanLoopP, scanLoop]
    rw [runL_bind]
    have ht := tokP_eq l
    rcases hrun : runL tokP l with ⟨r, rest⟩
    rw [hrun] at ht
    simp only []
    cases r with
    | ok tok =>
      have ht' : scanToken l = Res.ok tok rest := ht.symm
      rw [ht']
      simp only []
      cases hs : step stk args tok with
      | cont stk' args' => simp only []; exact ih _ _ _
      | emit name args' => simp [runL, toRes]
      | image => simp only []; exact imageP_eq rest
      | perr => simp [runL, toRes]
    | eof => have ht' : scanToken l = Res.eof := ht.symm; rw [ht']; simp [runL, toRes]
    | perr => have ht' : scanToken l = Res.perr rest := ht.symm; rw [ht']; simp [runL, toRes]
    | fuel => have ht' : scanToken l = Res.fuel := ht.symm; rw [ht']; simp [runL, toRes]

theorem scanOneP_eq (l : Bytes) : toRes (runL scanOneP l) = scanOne l := by
  simp only [scanOneP, scanOne, runL]
  rw [runL_bind, skipSpP_eq _ l (Nat.le_refl _)]
  cases hsk : skipSp l with
  | nil => simp [runL, toRes]
  | cons c r =>
    simp only [List.isEmpty_cons, Bool.false_eq_true, if_false, runL,
      show ((1 : Fin 4).val) = 1 from rfl, show List.take 1 (c :: r) = [c] from rfl]
    by_cases h37 : (c == 37) = true
    · have : ([c] == [37]) = true := by simp at h37; simp [h37]
      simp only [this, h37, if_true, runL]
      rw [runL_bind, cmtP_eq _ (c :: r) (Nat.le_refl _)]
      rcases spanCmt (c :: r) with ⟨cm, rest⟩
      simp only [runL, toRes]
      by_cases hn : cm.length > Gen.content_maxNameBytes <;> simp [hn]
    · have : ([c] == [37]) = false := by simp at h37; simp [h37]
      simp only [this, h37, Bool.false_eq_true, if_false, runL]
      exact scanLoopP_eq _ _ _ _

theorem scanAllP_eq : ∀ (f : Nat) (l : Bytes), (runL (scanAllP f) l).1 = scanAll f l := by
  intro f
  induction f with
  | zero => intro l; simp [scanAllP, scanAll, runL]
  | succ f ih =>
    intro l
    simp only [scanAllP, scanAll]
    rw [runL_bind]
    have ho := scanOneP_eq l
    rcases hrun : runL scanOneP l with ⟨r, rest⟩
    rw [hrun] at ho
    simp only []
    cases r with
    | ok op =>
      have ho' : scanOne l = Res.ok op rest := ho.symm
      rw [ho']
      simp only [runL_map, ih]
    | eof => have ho' : scanOne l = Res.eof := ho.symm; rw [ho']; simp [runL]
    | perr => have ho' : scanOne l = Res.perr rest := ho.symm; rw [ho']; simp only []; exact ih _
    | fuel => have ho' : scanOne l = Res.fuel := ho.symm; rw [ho']; simp [runL]

/-- the program `scanP`, run on the whole input, is the scanner model of `Model/CNTScan.lean` -/
theorem scanP_eq (l : Bytes) : (runL scanP l).1 = scan l := by
  simp only [scanP, scan, runL]
  exact scanAllP_eq _ _

/-! ## the theorem -/

/-- **`scanBuf_refines`.**  For every input and **every chunking** of it by the underlying reader
(any sequence of read sizes ≥ 1, short reads, the last chunk with or without `io.EOF`), the
content scanner running on its 512-byte window — `refill` with one `Read` per call, `Peek`,
`PeekN`, `ReadByte`, `SkipWhiteSpace`, `tryHex`, `checkEI`, the `EI` search, and on top of them
the whole token reader, `readValueDepth`/`readDictBody`, `readInlineImage`, the composite stack of
`Scan` and the resynchronising loop of `pumpScanner` — never hangs and yields exactly the
operator sequence of the whole-input model `scan`: names, strings and inline image data longer
than the window, tokens and operators at any position relative to the window edge. -/
theorem scanBuf_refines (ch : Chunking) (data : Bytes) : scanBuf ch data = some (scan data) := by
  obtain ⟨h1, _, _⟩ := runB_refines ch scanP (BS.init data) (inv_init data)
  unfold scanBuf
  rw [h1, view_init, scanP_eq]

/-- the same for a scanner in the middle of its work: any coherent buffer state -/
theorem scanBuf_refines_from (ch : Chunking) (s : BS) (h : Inv s) :
    (runB ch scanP s).2 = some (scan (view s)) := by
  obtain ⟨h1, _, _⟩ := runB_refines ch scanP s h
  rw [h1, scanP_eq]

/-- one `Scan` call from any coherent state: the operator (or `io.EOF` / parse error) of the
whole-input model, and the scanner is left exactly where the model resumes -/
theorem scanOneBuf_refines (ch : Chunking) (s : BS) (h : Inv s) :
    ∃ r, (runB ch scanOneP s).2 = some r ∧ Inv (runB ch scanOneP s).1 ∧
      toRes (r, view (runB ch scanOneP s).1) = scanOne (view s) := by
  obtain ⟨h1, h2, h3⟩ := runB_refines ch scanOneP s h
  refine ⟨_, h1, h2, ?_⟩
  rw [h3]
  exact scanOneP_eq (view s)

/-- one `ScanToken` call from any coherent state -/
theorem scanTokenBuf_refines (ch : Chunking) (s : BS) (h : Inv s) :
    ∃ r, (runB ch tokP s).2 = some r ∧ Inv (runB ch tokP s).1 ∧
      toRes (r, view (runB ch tokP s).1) = scanToken (view s) := by
  obtain ⟨h1, h2, h3⟩ := runB_refines ch tokP s h
  refine ⟨_, h1, h2, ?_⟩
  rw [h3]
  exact tokP_eq (view s)

/-! ## non-vacuity: a token across the edge of the window -/

/-- 509 blanks, then `/AbCd#41 q`: the name (with its `#41` escape, which `tryHex` peeks with
`PeekN(3)`) occupies the offsets 509–516 and straddles the edge of the 512-byte window -/
def edgeInput : Bytes := List.replicate 509 32 ++ [47, 65, 98, 67, 100, 35, 52, 49, 32, 113, 10]

def isEdgeResult (r : Option (Option (List (Bytes × List Obj)))) : Bool :=
  match r with
  | some (some [(n, [.name x])]) => n == [113] && x == [65, 98, 67, 100, 65]
  | _ => false

/-- reads of one byte each -/
example : isEdgeResult (scanBuf ⟨fun _ => 1, false⟩ edgeInput) = true := by decide +kernel

/-- reads which fill the window (512, then the rest), the last one together with `io.EOF` -/
example : isEdgeResult (scanBuf ⟨fun _ => 512, true⟩ edgeInput) = true := by decide +kernel

/-- irregular short reads -/
example : isEdgeResult (scanBuf ⟨fun k => 7 * k % 13 + 1, false⟩ edgeInput) = true := by decide +kernel

/-- and the whole-input model says the same, as `scanBuf_refines` demands -/
example : isEdgeResult (some (scan edgeInput)) = true := by decide +kernel

end PdfVerif.C15cnty

import PdfVerif.Props.C12cce
/-!
# C12 (part 6) — `Codec.CodeSpaceRange` reports the same codes

`walk` over the node array collects exactly the boxes of the valid leaves of the tree; these
boxes describe the codes of the original range set; the merge loop only joins two boxes that are
adjacent in one byte position and equal elsewhere, which keeps the set of codes.
-/
namespace PdfVerif.C12ccf
open PdfVerif PdfVerif.CC PdfVerif.C12cc PdfVerif.C12ccb PdfVerif.C12ccc PdfVerif.C12ccd PdfVerif.C12cce
open PdfVerif.Spec.CodeSpace

/-! ## the bounds of a child list partition `0 … 255` -/

mutual
def nodeSorted : Node → Prop
  | .sub cs => kidsSorted 0 cs
  | _ => True
/-- the children cover `nl … 255` by consecutive intervals `[nl, hi₀], [hi₀+1, hi₁], …` -/
def kidsSorted : Nat → List (Nat × Node) → Prop
  | nl, [] => nl = 256
  | nl, (hi, n) :: rest => nl ≤ hi ∧ hi < 256 ∧ nodeSorted n ∧ kidsSorted (hi + 1) rest
end

theorem scan_sorted (f : Nat × Nat → Except CErr (Nat × Node)) (p : Nat → Bool) (h256 : p 256 = true)
    (hf : ∀ iv kid, f iv = .ok kid → kid.1 = iv.2 ∧ nodeSorted kid.2) :
    ∀ n x lo, x + n = 257 → lo < x → lo < 256 → (∀ y, lo < y → y < x → p y = false) →
    ∀ kids, mapE f (intervals (lo :: (List.range' x n).filter p)) = .ok kids → kidsSorted lo kids := by
  intro n
  induction n with
  | zero =>
    intro x lo hx hlo hlo2 hnb kids _
    have := hnb 256 (by omega) (by omega)
    simp [h256] at this
  | succ n ihn =>
    intro x lo hx hlo hlo2 hnb kids hk
    rw [List.range'_succ, List.filter_cons] at hk
    by_cases hp : p x = true
    · simp only [hp, if_true, intervals, mapE] at hk
      split at hk
      · cases hk
      · rename_i kid hkid
        split at hk
        · cases hk
        · rename_i kids' hkids'
          injection hk with hk; subst hk
          obtain ⟨e1, e2⟩ := hf _ _ hkid
          obtain ⟨k1, k2⟩ := kid
          simp only at e1 e2
          subst e1
          simp only [kidsSorted]
          refine ⟨by omega, by omega, e2, ?_⟩
          by_cases h6 : x = 256
          · subst h6
            have hn : n = 0 := by omega
            subst hn
            simp [intervals, mapE] at hkids'
            subst hkids'
            simp [kidsSorted]
          · have : x - 1 + 1 = x := by omega
            rw [this]
            exact ihn (x + 1) x (by omega) (by omega) (by omega) (by intro y h1 h2; omega) kids' hkids'
    · have hp' : p x = false := by simpa using hp
      simp only [hp', Bool.false_eq_true, if_false] at hk
      exact ihn (x + 1) lo (by omega) (by omega) hlo2
        (by intro y h1 h2; by_cases h : y = x; subst h; exact hp'; exact hnb y h1 (by omega)) kids hk

theorem newTree_sorted : ∀ (fuel : Nat) (S : CSR) (d : Nat) (cs : List (Nat × Node)),
    newTree fuel S d = .ok cs → kidsSorted 0 cs := by
  intro fuel
  induction fuel with
  | zero => intro S d cs h; simp [newTree] at h
  | succ fuel ih =>
    intro S d cs h
    simp only [newTree] at h
    split at h
    · cases h
    · have e : breaks S d = 0 :: (List.range' 1 256).filter (isBreak S d) := by
        have : isBreak S d 0 = true := by simp [isBreak]
        simp only [breaks, List.range_eq_range']
        rw [show (257 : Nat) = 256 + 1 from rfl, List.range'_succ, List.filter_cons]
        simp [this]
      rw [e] at h
      refine scan_sorted _ (isBreak S d) (by simp [isBreak]) ?_ 256 1 0 rfl (by omega) (by omega)
        (by intro y a b; omega) cs h
      intro iv kid hkid
      simp only [nodeFor] at hkid
      split at hkid
      · injection hkid with hkid; subst hkid; simp [nodeSorted]
      · split at hkid
        · injection hkid with hkid; subst hkid; simp [nodeSorted]
        · split at hkid
          · split at hkid
            · rename_i cs' hcs'
              injection hkid with hkid; subst hkid
              simp only [nodeSorted, true_and]
              exact ih _ _ _ hcs'
            · cases hkid
          · cases hkid

/-! ## the boxes of the valid leaves -/

mutual
/-- for every valid leaf below the node, the intervals on the way down (low and high bytes) -/
def nodeBoxes : Node → List (Bytes × Bytes)
  | .valid => [([], [])]
  | .invalid _ => []
  | .sub cs => kidsBoxes 0 cs
def kidsBoxes : Nat → List (Nat × Node) → List (Bytes × Bytes)
  | _, [] => []
  | nl, (hi, n) :: rest => (nodeBoxes n).map (fun b => (nl :: b.1, hi :: b.2)) ++ kidsBoxes (hi + 1) rest
end

/-- `bs` lies in the box, length included -/
def BoxMatch : Bytes × Bytes → Bytes → Prop
  | ([], []), [] => True
  | (l :: lo, h :: hi), b :: bs => l ≤ b ∧ b ≤ h ∧ BoxMatch (lo, hi) bs
  | _, _ => False

theorem kidsBoxes_low (nl : Nat) (cs : List (Nat × Node)) (hs : kidsSorted nl cs) :
    ∀ b ∈ kidsBoxes nl cs, ∃ l lo, b.1 = l :: lo ∧ nl ≤ l := by
  induction cs generalizing nl with
  | nil => simp [kidsBoxes]
  | cons kid rest ih =>
    obtain ⟨hi, n⟩ := kid
    simp only [kidsSorted] at hs
    intro b hb
    simp only [kidsBoxes, List.mem_append, List.mem_map] at hb
    rcases hb with ⟨b', _, rfl⟩ | hb
    · exact ⟨nl, b'.1, rfl, Nat.le_refl _⟩
    · obtain ⟨l, lo, h1, h2⟩ := ih (hi + 1) hs.2.2.2 b hb
      exact ⟨l, lo, h1, by omega⟩

mutual
theorem node_boxes_sem (n : Node) (hs : nodeSorted n) (t : Bytes) :
    (∃ b ∈ nodeBoxes n, BoxMatch b t) ↔ n.dec t = (t.length, true) := by
  match n with
  | .valid =>
    simp only [nodeBoxes, List.mem_singleton, exists_eq_left, Node.dec, Prod.mk.injEq, and_true]
    cases t <;> simp [BoxMatch]
  | .invalid k => simp [nodeBoxes, Node.dec]
  | .sub cs =>
    simp only [nodeSorted] at hs
    simp only [nodeBoxes, Node.dec]
    rw [kids_boxes_sem 0 cs hs t]
    constructor
    · rintro ⟨_, _, h⟩; exact h
    · intro h
      cases t with
      | nil => simp [kidsDec_nil] at h
      | cons x t => exact ⟨by simp, by simp, h⟩
theorem kids_boxes_sem (nl : Nat) (cs : List (Nat × Node)) (hs : kidsSorted nl cs) (t : Bytes) :
    (∃ b ∈ kidsBoxes nl cs, BoxMatch b t) ↔ (t ≠ [] ∧ (∀ x ∈ t.head?, nl ≤ x) ∧ kidsDec cs t = (t.length, true)) := by
  match cs, t with
  | [], t =>
    simp only [kidsBoxes, List.not_mem_nil, false_and, exists_false, false_iff]
    rintro ⟨h1, _, h3⟩
    cases t with
    | nil => exact h1 rfl
    | cons x t => simp [kidsDec] at h3
  | (hi, n) :: rest, [] =>
    simp only [ne_eq, not_true_eq_false, false_and, iff_false]
    rintro ⟨b, hb, hm⟩
    obtain ⟨l, lo, h1, _⟩ := kidsBoxes_low nl _ hs b hb
    obtain ⟨b1, b2⟩ := b
    simp only at h1; subst h1
    cases b2 <;> simp [BoxMatch] at hm
  | (hi, n) :: rest, x :: t =>
    simp only [kidsSorted] at hs
    obtain ⟨h1, h2, h3, h4⟩ := hs
    simp only [kidsBoxes, List.mem_append, List.mem_map, ne_eq, reduceCtorEq, not_false_eq_true,
      List.head?_cons, Option.mem_def, Option.some.injEq, forall_eq', true_and, List.length_cons, kidsDec]
    by_cases hsel : x ≤ hi
    · simp only [hsel, if_true, Prod.mk.injEq, Nat.add_right_cancel_iff]
      constructor
      · rintro ⟨b, hb, hm⟩
        rcases hb with ⟨b', hb', rfl⟩ | hb
        · simp only [BoxMatch] at hm
          have := (node_boxes_sem n h3 t).mp ⟨b', hb', hm.2.2⟩
          rw [this]; exact ⟨hm.1, rfl, rfl⟩
        · obtain ⟨l, lo, e1, e2⟩ := kidsBoxes_low (hi + 1) rest h4 b hb
          obtain ⟨b1, b2⟩ := b
          simp only at e1; subst e1
          cases b2 with
          | nil => simp [BoxMatch] at hm
          | cons _ _ => simp only [BoxMatch] at hm; omega
      · rintro ⟨hx, hd1, hd2⟩
        obtain ⟨b', hb', hm⟩ := (node_boxes_sem n h3 t).mpr (by rw [← hd1, ← hd2])
        exact ⟨_, .inl ⟨b', hb', rfl⟩, by simp only [BoxMatch]; exact ⟨hx, hsel, hm⟩⟩
    · simp only [hsel, if_false]
      have ih := kids_boxes_sem (hi + 1) rest h4 (x :: t)
      simp only [ne_eq, reduceCtorEq, not_false_eq_true, List.head?_cons, Option.mem_def, Option.some.injEq,
        forall_eq', true_and, List.length_cons] at ih
      constructor
      · rintro ⟨b, hb, hm⟩
        rcases hb with ⟨b', hb', rfl⟩ | hb
        · simp only [BoxMatch] at hm; omega
        · have := ih.mp ⟨b, hb, hm⟩
          exact ⟨by omega, this.2⟩
      · rintro ⟨hx, hd⟩
        obtain ⟨b, hb, hm⟩ := ih.mpr ⟨by omega, hd⟩
        exact ⟨b, .inr hb, hm⟩
end


/-! ## `walk` collects exactly these boxes -/

/-- the `switch c.nodes[cur].child` of `Codec.walk` -/
def walkChild (nodes : List LNode) (fuel : Nat) (acc : CSR) (c : Nat) (low2 high2 : Bytes) : Except CErr CSR :=
  if c == Gen.cc_validLeaf then .ok (acc ++ [⟨low2, high2⟩])
  else if isSpecial c then .ok acc
  else walk nodes fuel nodes.length acc c low2 high2 0

theorem walk_succ (nodes : List LNode) (fuel n : Nat) (acc : CSR) (cur : Nat) (low high : Bytes) (nl : Nat) :
    walk nodes (fuel + 1) (n + 1) acc cur low high nl =
      match nodes[cur]? with
      | none => .error .panic
      | some node =>
        match walkChild nodes fuel acc node.child (low ++ [nl]) (high ++ [node.bound]) with
        | .error e => .error e
        | .ok acc' =>
          if node.bound == 255 then .ok acc'
          else walk nodes (fuel + 1) n acc' (cur + 1) low high (node.bound + 1) := by
  rw [walk]
  cases nodes[cur]? with
  | none => rfl
  | some node => rfl

theorem reprOK_len (nodes : List LNode) (cs : List (Nat × Node)) (idx : Nat) (h : reprOK nodes cs idx = true) :
    cs = [] ∨ idx + cs.length ≤ nodes.length := by
  induction cs generalizing idx with
  | nil => exact .inl rfl
  | cons kid rest ih =>
    right
    obtain ⟨hi, n⟩ := kid
    simp only [reprOK] at h
    split at h
    · cases h
    · rename_i ln hln
      simp only [Bool.and_eq_true] at h
      have hlt : idx < nodes.length := (List.getElem?_eq_some_iff.mp hln).1
      rcases ih (idx + 1) h.2 with h' | h'
      · subst h'; simp; omega
      · simp only [List.length_cons]; omega

def toRange (low high : Bytes) (b : Bytes × Bytes) : Range := ⟨low ++ b.1, high ++ b.2⟩

mutual
theorem walk_node (nodes : List LNode) (n : Node) (c : Nat) (hr : childOK nodes n c = true) (hs : nodeSorted n)
    (fuel : Nat) (hd : nodeDepth n ≤ fuel) (acc : CSR) (low2 high2 : Bytes) :
    walkChild nodes fuel acc c low2 high2 = .ok (acc ++ (nodeBoxes n).map (toRange low2 high2)) := by
  match n with
  | .valid =>
    simp only [childOK, beq_iff_eq] at hr
    simp [walkChild, hr, nodeBoxes, toRange]
  | .invalid k =>
    simp only [childOK, Bool.and_eq_true, decide_eq_true_eq, beq_iff_eq] at hr
    obtain ⟨hk, hc⟩ := hr
    have : k = 0 ∨ k = 1 ∨ k = 2 ∨ k = 3 := by omega
    rcases this with rfl | rfl | rfl | rfl <;>
      simp [walkChild, hc, nodeBoxes, isSpecial, Gen.cc_invalidConsume0, Gen.cc_invalidConsume1,
        Gen.cc_invalidConsume2, Gen.cc_invalidConsume3, Gen.cc_validLeaf]
  | .sub cs =>
    simp only [childOK, Bool.and_eq_true, bne_iff_ne, ne_eq, decide_eq_true_eq] at hr
    obtain ⟨⟨h0, hlt⟩, hrep⟩ := hr
    simp only [nodeSorted] at hs
    simp only [nodeDepth] at hd
    have hne : cs ≠ [] := by intro h; subst h; simp [kidsSorted] at hs
    have e : walkChild nodes fuel acc c low2 high2 = walk nodes fuel nodes.length acc c low2 high2 0 := by
      simp only [walkChild, isSpecial, Gen.cc_validLeaf, Gen.cc_invalidConsume0, Gen.cc_invalidConsume1,
        Gen.cc_invalidConsume2, Gen.cc_invalidConsume3, Gen.cc_maxNodes] at *
      have h1 : (c == 0) = false := by simpa using h0
      have h2 : (c == 65532) = false := by simp; omega
      have h3 : (c == 65533) = false := by simp; omega
      have h4 : (c == 65534) = false := by simp; omega
      have h5 : (c == 65535) = false := by simp; omega
      simp [h1, h2, h3, h4, h5]
    rw [e]
    have hlen : cs.length ≤ nodes.length := by
      rcases reprOK_len nodes cs c hrep with h | h
      · exact absurd h hne
      · omega
    rw [walk_kids nodes cs c hrep 0 hs fuel nodes.length hd hlen acc low2 high2 hne]
    simp [nodeBoxes]
theorem walk_kids (nodes : List LNode) (cs : List (Nat × Node)) (idx : Nat) (hr : reprOK nodes cs idx = true)
    (nl : Nat) (hs : kidsSorted nl cs) (fuel m : Nat) (hd : kidsDepth cs ≤ fuel) (hm : cs.length ≤ m)
    (acc : CSR) (low high : Bytes) :
    cs ≠ [] → walk nodes fuel m acc idx low high nl = .ok (acc ++ (kidsBoxes nl cs).map (toRange low high)) := by
  match cs with
  | [] => intro h; exact absurd rfl h
  | (hi, n) :: rest =>
    intro _
    simp only [kidsDepth] at hd
    simp only [kidsSorted] at hs
    obtain ⟨s1, s2, s3, s4⟩ := hs
    cases fuel with
    | zero => omega
    | succ fuel =>
      cases m with
      | zero => simp at hm
      | succ m =>
        simp only [reprOK] at hr
        split at hr
        · cases hr
        · rename_i ln hln
          simp only [Bool.and_eq_true, beq_iff_eq] at hr
          obtain ⟨⟨hbound, hchild⟩, hrest⟩ := hr
          rw [walk_succ, hln]
          simp only
          rw [walk_node nodes n ln.child hchild s3 fuel (by omega) acc (low ++ [nl]) (high ++ [ln.bound])]
          simp only [hbound]
          by_cases h255 : hi = 255
          · subst h255
            have : rest = [] := by
              cases rest with
              | nil => rfl
              | cons k r => obtain ⟨h', n'⟩ := k; simp only [kidsSorted] at s4; omega
            subst this
            simp [kidsBoxes, toRange, List.map_map]
          · have hne' : rest ≠ [] := by
              intro h; subst h; simp only [kidsSorted] at s4; omega
            have h255' : (hi == 255) = false := by simpa using h255
            simp only [h255', Bool.false_eq_true, if_false]
            rw [walk_kids nodes rest (idx + 1) hrest (hi + 1) s4 (fuel + 1) m (by omega) (by simpa using hm) _ low high hne']
            simp [kidsBoxes, toRange, List.map_map, List.append_assoc]
end


/-! ## the boxes describe the codes of the range set -/

theorem boxMatch_iff (lo hi bs : Bytes) :
    BoxMatch (lo, hi) bs ↔ (bs.length = lo.length ∧ lo.length = hi.length ∧ withinFirst lo hi bs lo.length = true) := by
  induction lo generalizing hi bs with
  | nil =>
    cases hi with
    | nil => cases bs <;> simp [BoxMatch, withinFirst]
    | cons h hi => cases bs <;> simp [BoxMatch]
  | cons l lo ih =>
    cases hi with
    | nil => cases bs <;> simp [BoxMatch]
    | cons h hi =>
      cases bs with
      | nil => simp [BoxMatch]
      | cons b bs =>
        simp only [BoxMatch, ih, List.length_cons, withinFirst, Bool.and_eq_true, decide_eq_true_eq,
          Nat.add_right_cancel_iff]
        constructor
        · rintro ⟨a, b', c, d, e⟩; exact ⟨c, d, ⟨a, b'⟩, e⟩
        · rintro ⟨c, d, ⟨a, b'⟩, e⟩; exact ⟨a, b', c, d, e⟩

theorem boxMatch_allBytes (lo hi bs : Bytes) (hhi : ∀ x ∈ hi, x < 256) (h : BoxMatch (lo, hi) bs) : AllBytes bs := by
  induction lo generalizing hi bs with
  | nil => cases hi <;> cases bs <;> simp_all [BoxMatch]
  | cons l lo ih =>
    cases hi with
    | nil => cases bs <;> simp [BoxMatch] at h
    | cons hh hi =>
      cases bs with
      | nil => simp [BoxMatch] at h
      | cons b bs =>
        simp only [BoxMatch] at h
        simp only [allBytes_cons]
        have := hhi hh (by simp)
        exact ⟨by omega, ih hi bs (fun x hx => hhi x (by simp [hx])) h.2.2⟩

mutual
theorem nodeBoxes_hi (n : Node) (hs : nodeSorted n) : ∀ b ∈ nodeBoxes n, ∀ x ∈ b.2, x < 256 := by
  match n with
  | .valid => simp [nodeBoxes]
  | .invalid k => simp [nodeBoxes]
  | .sub cs => simp only [nodeSorted] at hs; simp only [nodeBoxes]; exact kidsBoxes_hi 0 cs hs
theorem kidsBoxes_hi (nl : Nat) (cs : List (Nat × Node)) (hs : kidsSorted nl cs) :
    ∀ b ∈ kidsBoxes nl cs, ∀ x ∈ b.2, x < 256 := by
  match cs with
  | [] => simp [kidsBoxes]
  | (hi, n) :: rest =>
    simp only [kidsSorted] at hs
    intro b hb x hx
    simp only [kidsBoxes, List.mem_append, List.mem_map] at hb
    rcases hb with ⟨b', hb', rfl⟩ | hb
    · simp only [List.mem_cons] at hx
      rcases hx with rfl | hx
      · exact hs.2.1
      · exact nodeBoxes_hi n hs.2.2.1 b' hb' x hx
    · exact kidsBoxes_hi (hi + 1) rest hs.2.2.2 b hb x hx
end

/-- codes of a set of model ranges -/
def IsCodeOf (csr : CSR) (bs : Bytes) : Prop := ∃ r ∈ csr, (toSpecR r).isCode bs = true

theorem isCodeOf_iff_decode (csr : CSR) (hpf : PrefixFree (toSpec csr)) (bs : Bytes) (hne : bs ≠ []) :
    IsCodeOf csr bs ↔ decode (toSpec csr) bs = (bs.length, true) := by
  constructor
  · rintro ⟨r, hr, hc⟩
    have hp := isCode_parts r bs hc
    have hmem : toSpecR r ∈ toSpec csr := by simp [toSpec]; exact ⟨r, hr, rfl⟩
    rw [decode_valid (toSpec csr) bs hne (toSpecR r) hmem
      (by simp only [CodeRange.startsCode, CodeRange.matchesUpTo, CodeRange.len, toSpecR]; exact hp.2)]
    · simp [CodeRange.len, toSpecR, hp.1]
    · intro r' hr' hs'
      -- the prefix of `bs` that `r'` matches is a code of `r'`
      have hl := (withinFirst_len _ _ _ _ hs').2.2
      have hc' : r'.isCode (bs.take r'.len) = true := by
        simp only [CodeRange.isCode, CodeRange.startsCode, CodeRange.matchesUpTo, Bool.and_eq_true, decide_eq_true_eq]
        refine ⟨by simp [CodeRange.len] at hl ⊢; omega, ?_⟩
        rw [← withinFirst_prefix r'.lo r'.hi r'.len (bs.take r'.len) bs (List.take_prefix _ _)
          (by simp [CodeRange.len] at hl ⊢; omega)]
        exact hs'
      have := hpf r' hr' (toSpecR r) hmem _ _ hc' hc (List.take_prefix _ _)
      simp only [List.length_take] at this
      have hl' : r'.len ≤ bs.length := hl
      simp only [CodeRange.len, toSpecR] at *
      omega
  · intro h
    unfold decode at h
    have : bs.isEmpty = false := by cases bs <;> simp_all
    simp only [this, Bool.false_eq_true, if_false] at h
    split at h
    · rename_i r hr
      have h1 := List.mem_of_find?_eq_some hr
      have h2 := List.find?_some hr
      simp only [Prod.mk.injEq, and_true] at h
      simp only [toSpec, List.mem_map] at h1
      obtain ⟨r', hr', rfl⟩ := h1
      refine ⟨r', hr', ?_⟩
      simp only [CodeRange.isCode, Bool.and_eq_true, decide_eq_true_eq]
      exact ⟨h.symm, h2⟩
    · simp at h

theorem boxes_sameCodes (csr : CSR) (tree : List (Nat × Node)) (hT : newTree 4 csr 0 = .ok tree)
    (hbytes : ∀ r ∈ csr, AllBytes r.high) (bs : Bytes) :
    (∃ b ∈ kidsBoxes 0 tree, BoxMatch b bs) ↔ IsCodeOf csr bs := by
  have hs := newTree_sorted 4 csr 0 tree hT
  have hpf := prefixFree_of_newTree_ok csr tree hT hbytes
  by_cases hne : bs = []
  · subst hne
    constructor
    · rintro ⟨b, hb, hm⟩
      obtain ⟨l, lo, h1, _⟩ := kidsBoxes_low 0 tree hs b hb
      obtain ⟨b1, b2⟩ := b
      simp only at h1; subst h1
      cases b2 <;> simp [BoxMatch] at hm
    · rintro ⟨r, hr, hc⟩
      -- a range of length 0 is not accepted
      exfalso
      have h0 : r.low.length = 0 := by simpa using (isCode_parts r [] hc).1.symm
      have hbrk := newTree_covers 4 csr 0 tree hT
      have := (newTree_step 3 csr 0 tree hT 0 (by omega)).1 r hr
      omega
  · constructor
    · rintro ⟨b, hb, hm⟩
      have hab : AllBytes bs := boxMatch_allBytes b.1 b.2 bs (kidsBoxes_hi 0 tree hs b hb) hm
      have := (kids_boxes_sem 0 tree hs bs).mp ⟨b, hb, hm⟩
      rw [isCodeOf_iff_decode csr hpf bs hne, ← tree_sem csr tree hT bs hab]
      exact this.2.2
    · intro hc
      have hab : AllBytes bs := by
        obtain ⟨r, hr, hc'⟩ := hc
        have hp := isCode_parts r bs hc'
        -- bytes of a code are below the byte bounds of its range
        have hgen : ∀ (lo hi c : Bytes) (k : Nat), AllBytes hi → c.length = k → withinFirst lo hi c k = true → AllBytes c := by
          intro lo hi c k
          induction k generalizing lo hi c with
          | zero => intro _ hc _; have : c = [] := List.length_eq_zero_iff.mp hc; subst this; simp
          | succ k ihk =>
            intro hhi hc hw
            cases lo with
            | nil => simp [withinFirst] at hw
            | cons l lo =>
              cases hi with
              | nil => simp [withinFirst] at hw
              | cons hh hi =>
                cases c with
                | nil => simp at hc
                | cons x c =>
                  simp only [withinFirst, Bool.and_eq_true, decide_eq_true_eq] at hw
                  simp only [allBytes_cons] at hhi ⊢
                  exact ⟨by omega, ihk lo hi c hhi.2 (by simpa using hc) hw.2⟩
        exact hgen _ _ bs _ (hbytes r hr) hp.1 hp.2
      rw [isCodeOf_iff_decode csr hpf bs hne, ← tree_sem csr tree hT bs hab] at hc
      exact (kids_boxes_sem 0 tree hs bs).mpr ⟨hne, by intro x _; omega, hc⟩


/-! ## merging adjacent boxes keeps the set of codes -/

theorem canMergeLoop_used (rl rh sl sh : Bytes) (k : Nat) (hk : 0 < k)
    (h1 : rl.length = rh.length) (h2 : rl.length = sl.length) (h3 : rl.length = sh.length)
    (h : canMergeLoop rl rh sl sh k = true) : rl = sl ∧ rh = sh := by
  induction rl generalizing rh sl sh with
  | nil =>
    have a := List.length_eq_zero_iff.mp h1.symm
    have b := List.length_eq_zero_iff.mp h2.symm
    have c := List.length_eq_zero_iff.mp h3.symm
    subst a b c; exact ⟨rfl, rfl⟩
  | cons a rl ih =>
    cases rh with
    | nil => simp at h1
    | cons b rh =>
      cases sl with
      | nil => simp at h2
      | cons c sl =>
        cases sh with
        | nil => simp at h3
        | cons d sh =>
          simp only [canMergeLoop] at h
          split at h
          · rename_i heq
            simp only [Bool.and_eq_true, beq_iff_eq] at heq
            have := ih rh sl sh (by simpa using h1) (by simpa using h2) (by simpa using h3) h
            rw [heq.1, heq.2, this.1, this.2]; exact ⟨rfl, rfl⟩
          · have : k > 0 := hk
            simp [this] at h

theorem canMergeLoop_sem (rl rh sl sh : Bytes)
    (h1 : rl.length = rh.length) (h2 : rl.length = sl.length) (h3 : rl.length = sh.length)
    (hr : leAll rl rh = true) (hs : leAll sl sh = true)
    (h : canMergeLoop rl rh sl sh 0 = true) :
    leAll rl sh = true ∧ ∀ bs, BoxMatch (rl, sh) bs ↔ (BoxMatch (rl, rh) bs ∨ BoxMatch (sl, sh) bs) := by
  induction rl generalizing rh sl sh with
  | nil =>
    have a := List.length_eq_zero_iff.mp h1.symm
    have b := List.length_eq_zero_iff.mp h2.symm
    have c := List.length_eq_zero_iff.mp h3.symm
    subst a b c
    exact ⟨by simp [leAll], fun bs => by simp⟩
  | cons a rl ih =>
    cases rh with
    | nil => simp at h1
    | cons b rh =>
      cases sl with
      | nil => simp at h2
      | cons c sl =>
        cases sh with
        | nil => simp at h3
        | cons d sh =>
          simp only [leAll, Bool.and_eq_true, Bool.not_eq_true', decide_eq_false_iff_not, Nat.not_lt] at hr hs
          simp only [canMergeLoop] at h
          split at h
          · rename_i heq
            simp only [Bool.and_eq_true, beq_iff_eq] at heq
            obtain ⟨i1, i2⟩ := ih rh sl sh (by simpa using h1) (by simpa using h2) (by simpa using h3) hr.2 hs.2 h
            obtain ⟨e1, e2⟩ := heq
            subst e1 e2
            refine ⟨by simp [leAll, i1]; exact hs.1, ?_⟩
            intro bs
            cases bs with
            | nil => simp [BoxMatch]
            | cons x bs =>
              simp only [BoxMatch, i2 bs]
              constructor
              · rintro ⟨p, q, r | r⟩
                · exact .inl ⟨p, q, r⟩
                · exact .inr ⟨p, q, r⟩
              · rintro (⟨p, q, r⟩ | ⟨p, q, r⟩)
                · exact ⟨p, q, .inl r⟩
                · exact ⟨p, q, .inr r⟩
          · rename_i hne
            split at h
            · cases h
            · rename_i hadj
              simp only [Bool.not_eq_true', Bool.or_eq_true, decide_eq_true_eq, not_or, Bool.not_eq_false,
                beq_iff_eq, Nat.not_lt, Nat.le_zero_eq] at hadj
              obtain ⟨e1, e2⟩ := canMergeLoop_used rl rh sl sh 1 (by omega) (by simpa using h1) (by simpa using h2)
                (by simpa using h3) h
              subst e1 e2
              have hadj' : b + 1 = c := hadj.1
              refine ⟨by simp [leAll, hs.2]; omega, ?_⟩
              intro bs
              cases bs with
              | nil => simp [BoxMatch]
              | cons x bs =>
                simp only [BoxMatch]
                constructor
                · rintro ⟨p, q, r⟩
                  by_cases hx : x ≤ b
                  · exact .inl ⟨p, hx, r⟩
                  · exact .inr ⟨by omega, q, r⟩
                · rintro (⟨p, q, r⟩ | ⟨p, q, r⟩)
                  · exact ⟨p, by omega, r⟩
                  · exact ⟨by omega, q, r⟩

/-- well-shaped range: equal lengths, `low ≤ high` -/
def Shape (r : Range) : Prop := r.low.length = r.high.length ∧ leAll r.low r.high = true

theorem isCode_iff_boxMatch (r : Range) (hs : Shape r) (bs : Bytes) :
    (toSpecR r).isCode bs = true ↔ BoxMatch (r.low, r.high) bs := by
  rw [boxMatch_iff]
  simp only [CodeRange.isCode, CodeRange.startsCode, CodeRange.matchesUpTo, CodeRange.len, toSpecR,
    Bool.and_eq_true, decide_eq_true_eq]
  constructor
  · rintro ⟨a, b⟩; exact ⟨of_decide_eq_true a, hs.1, b⟩
  · rintro ⟨a, _, b⟩; exact ⟨decide_eq_true a, b⟩

theorem merge_pair (r s : Range) (hr : Shape r) (hs : Shape s) (hm : canMerge r s = true) :
    Shape ⟨r.low, s.high⟩ ∧ ∀ bs, (toSpecR ⟨r.low, s.high⟩).isCode bs = true ↔
      ((toSpecR r).isCode bs = true ∨ (toSpecR s).isCode bs = true) := by
  unfold canMerge at hm
  split at hm
  · cases hm
  · rename_i hl
    simp only [bne_iff_ne, ne_eq, Decidable.not_not] at hl
    obtain ⟨m1, m2⟩ := canMergeLoop_sem r.low r.high s.low s.high hr.1 hl (by rw [hl]; exact hs.1) hr.2 hs.2 hm
    have hsh : Shape ⟨r.low, s.high⟩ := ⟨by simp only; rw [hl]; exact hs.1, m1⟩
    refine ⟨hsh, ?_⟩
    intro bs
    rw [isCode_iff_boxMatch _ hsh, isCode_iff_boxMatch _ hr, isCode_iff_boxMatch _ hs]
    exact m2 bs

theorem mapE_mem {α β : Type} (f : α → Except CErr β) : ∀ (l : List α) (out : List β), mapE f l = .ok out →
    ∀ b ∈ out, ∃ a ∈ l, f a = .ok b := by
  intro l
  induction l with
  | nil => intro out h b hb; simp [mapE] at h; subst h; simp at hb
  | cons a l ih =>
    intro out h b hb
    simp only [mapE] at h
    split at h
    · cases h
    · rename_i b0 hb0
      split at h
      · cases h
      · rename_i bs hbs
        injection h with h; subst h
        rcases List.mem_cons.mp hb with rfl | hb
        · exact ⟨a, by simp, hb0⟩
        · obtain ⟨a', ha', h'⟩ := ih bs hbs b hb; exact ⟨a', by simp [ha'], h'⟩

theorem minCand_mem (l : List (Nat × Nat × Nat)) (c : Nat × Nat × Nat) (h : minCand l = some c) : c ∈ l := by
  induction l generalizing c with
  | nil => simp [minCand] at h
  | cons x l ih =>
    simp only [minCand] at h
    split at h
    · injection h with h; subst h; simp
    · rename_i m hm
      split at h
      · injection h with h; subst h; exact List.mem_cons_of_mem _ (ih m hm)
      · injection h with h; subst h; simp

theorem zip_range_mem (l : List Range) (k : Nat) (r : Range) (h : (k, r) ∈ (List.range l.length).zip l) :
    l[k]? = some r := by
  obtain ⟨i, hi⟩ := List.mem_iff_getElem?.mp h
  rw [List.getElem?_zip_eq_some] at hi
  obtain ⟨h1, h2⟩ := hi
  have hlt : i < (List.range l.length).length := (List.getElem?_eq_some_iff.mp h1).1
  rw [List.getElem?_range (by simpa using hlt)] at h1
  injection h1 with h1
  subst h1
  exact h2

theorem candidates_mem (csr : CSR) (cands : List (Nat × Nat × Nat)) (h : candidates csr = .ok cands)
    (c : Nat × Nat × Nat) (hc : c ∈ cands) :
    ∃ ri rj, csr[c.2.1]? = some ri ∧ csr[c.2.2]? = some rj ∧ c.2.1 ≠ c.2.2 ∧ canMerge ri rj = true := by
  unfold candidates at h
  obtain ⟨p, hp, hf⟩ := mapE_mem _ _ _ h c hc
  simp only [List.mem_filter, List.mem_flatMap, List.mem_map, Bool.and_eq_true, bne_iff_ne, ne_eq] at hp
  obtain ⟨⟨a, ha, b, hb, rfl⟩, hne, hcm⟩ := hp
  simp only at hf hne hcm
  split at hf
  · cases hf
  · injection hf with hf; subst hf
    obtain ⟨ai, ar⟩ := a
    obtain ⟨bi, br⟩ := b
    exact ⟨ar, br, zip_range_mem csr ai ar ha, zip_range_mem csr bi br hb, hne, hcm⟩

theorem mem_set_erase (l : List Range) (i j : Nat) (m x : Range) (hij : i ≠ j) (hi : i < l.length) (_hj : j < l.length) :
    x ∈ (l.set i m).eraseIdx j ↔ x = m ∨ ∃ k, k ≠ i ∧ k ≠ j ∧ l[k]? = some x := by
  simp only [List.mem_iff_getElem?, List.getElem?_eraseIdx, List.getElem?_set]
  constructor
  · rintro ⟨k, hk⟩
    split at hk
    · rename_i hkj
      split at hk
      · rename_i hik
        have : x = m := by
          first
            | (injection hk with hk; exact hk.symm)
            | (split at hk
               · injection hk with hk; exact hk.symm
               · cases hk)
        exact .inl this
      · rename_i hik; exact .inr ⟨k, fun h => hik h.symm, by omega, hk⟩
    · rename_i hkj
      split at hk
      · rename_i hik
        have : x = m := by
          first
            | (injection hk with hk; exact hk.symm)
            | (split at hk
               · injection hk with hk; exact hk.symm
               · cases hk)
        exact .inl this
      · rename_i hik; exact .inr ⟨k + 1, fun h => hik h.symm, by omega, hk⟩
  · rintro (rfl | ⟨k, h1, h2, h3⟩)
    · by_cases hij' : i < j
      · exact ⟨i, by simp [hij', hi]⟩
      · refine ⟨i - 1, ?_⟩
        have : ¬ (i - 1 < j) := by omega
        have e : i - 1 + 1 = i := by omega
        simp [this, e, hi]
    · by_cases hkj : k < j
      · refine ⟨k, ?_⟩
        have : ¬ (i = k) := fun h => h1 h.symm
        simp [hkj, this, h3]
      · refine ⟨k - 1, ?_⟩
        have h4 : ¬ (k - 1 < j) := by omega
        have e : k - 1 + 1 = k := by omega
        have : ¬ (i = k) := fun h => h1 h.symm
        simp [h4, e, this, h3]

theorem mergeLoop_sameCodes : ∀ (fuel : Nat) (csr out : CSR), mergeLoop fuel csr = .ok out →
    (∀ r ∈ csr, Shape r) → (∀ r ∈ out, Shape r) ∧ ∀ bs, IsCodeOf out bs ↔ IsCodeOf csr bs := by
  intro fuel
  induction fuel with
  | zero => intro csr out h; simp [mergeLoop] at h
  | succ fuel ih =>
    intro csr out h hsh
    simp only [mergeLoop] at h
    split at h
    · cases h
    · rename_i cands hcands
      split at h
      · injection h with h; subst h; exact ⟨hsh, fun bs => Iff.rfl⟩
      · rename_i pos i j hmin
        have hmem := minCand_mem _ _ hmin
        obtain ⟨ri, rj, hi, hj, hij, hcm⟩ := candidates_mem csr cands hcands _ hmem
        simp only at hi hj hij
        rw [hi, hj] at h
        simp only at h
        have hri : ri ∈ csr := List.mem_of_getElem? hi
        have hrj : rj ∈ csr := List.mem_of_getElem? hj
        obtain ⟨msh, mcodes⟩ := merge_pair ri rj (hsh ri hri) (hsh rj hrj) hcm
        have hilt : i < csr.length := (List.getElem?_eq_some_iff.mp hi).1
        have hjlt : j < csr.length := (List.getElem?_eq_some_iff.mp hj).1
        have hmem' := fun x => mem_set_erase csr i j ⟨ri.low, rj.high⟩ x hij hilt hjlt
        obtain ⟨o1, o2⟩ := ih _ out h (by
          intro r hr
          rcases (hmem' r).mp hr with rfl | ⟨k, _, _, hk⟩
          · exact msh
          · exact hsh r (List.mem_of_getElem? hk))
        refine ⟨o1, ?_⟩
        intro bs
        rw [o2 bs]
        constructor
        · rintro ⟨r, hr, hc⟩
          rcases (hmem' r).mp hr with rfl | ⟨k, _, _, hk⟩
          · rcases (mcodes bs).mp hc with h' | h'
            · exact ⟨ri, hri, h'⟩
            · exact ⟨rj, hrj, h'⟩
          · exact ⟨r, List.mem_of_getElem? hk, hc⟩
        · rintro ⟨r, hr, hc⟩
          obtain ⟨k, hk⟩ := List.mem_iff_getElem?.mp hr
          by_cases hki : k = i
          · subst hki
            rw [hi] at hk; injection hk with hk; subst hk
            exact ⟨_, (hmem' _).mpr (.inl rfl), (mcodes bs).mpr (.inl hc)⟩
          · by_cases hkj : k = j
            · subst hkj
              rw [hj] at hk; injection hk with hk; subst hk
              exact ⟨_, (hmem' _).mpr (.inl rfl), (mcodes bs).mpr (.inr hc)⟩
            · exact ⟨r, (hmem' r).mpr (.inr ⟨k, hki, hkj, hk⟩), hc⟩


/-! ## `Codec.CodeSpaceRange` describes the same codes -/

mutual
theorem nodeBoxes_shape (n : Node) (hs : nodeSorted n) :
    ∀ b ∈ nodeBoxes n, b.1.length = b.2.length ∧ leAll b.1 b.2 = true := by
  match n with
  | .valid => simp [nodeBoxes, leAll]
  | .invalid k => simp [nodeBoxes]
  | .sub cs => simp only [nodeSorted] at hs; simp only [nodeBoxes]; exact kidsBoxes_shape 0 cs hs
theorem kidsBoxes_shape (nl : Nat) (cs : List (Nat × Node)) (hs : kidsSorted nl cs) :
    ∀ b ∈ kidsBoxes nl cs, b.1.length = b.2.length ∧ leAll b.1 b.2 = true := by
  match cs with
  | [] => simp [kidsBoxes]
  | (hi, n) :: rest =>
    simp only [kidsSorted] at hs
    intro b hb
    simp only [kidsBoxes, List.mem_append, List.mem_map] at hb
    rcases hb with ⟨b', hb', rfl⟩ | hb
    · obtain ⟨a1, a2⟩ := nodeBoxes_shape n hs.2.2.1 b' hb'
      simp only [List.length_cons, a1, leAll, a2, Bool.and_true, true_and]
      simp; exact hs.1
    · exact kidsBoxes_shape (hi + 1) rest hs.2.2.2 b hb
end

/-- **`csr_equiv`.**  The range set reported by `Codec.CodeSpaceRange` (the boxes of all valid
leaves found by `walk`, merged while two of them are adjacent in one byte position and equal in
the others) describes exactly the same codes as the range set the codec was built from. -/
theorem csr_equiv (csr : CSR) (c : Codec) (hC : newCodec csr = .ok c) (hbytes : ∀ r ∈ csr, AllBytes r.high)
    (out : CSR) (h : c.codeSpaceRange = .ok out) :
    (∀ r ∈ out, Shape r) ∧ ∀ bs, IsCodeOf out bs ↔ IsCodeOf csr bs := by
  obtain ⟨hv, tree, hT⟩ := newCodec_ok csr c hC
  have hR := (linearize_repr csr tree c hT hC).1
  have hs := newTree_sorted 4 csr 0 tree hT
  have hne := kidsCover_ne_nil tree (newTree_covers 4 csr 0 tree hT)
  have hlen : tree.length ≤ c.nodes.length := by
    rcases reprOK_len c.nodes tree 0 hR with h' | h'
    · exact absurd h' hne
    · omega
  have hw := walk_kids c.nodes tree 0 hR 0 hs 5 c.nodes.length
    (Nat.le_trans (newTree_depth 4 csr 0 tree hT) (by omega)) hlen [] [] [] hne
  unfold Codec.codeSpaceRange at h
  rw [hw] at h
  simp only [List.nil_append] at h
  have hshape : ∀ r ∈ (kidsBoxes 0 tree).map (toRange [] []), Shape r := by
    intro r hr
    simp only [List.mem_map] at hr
    obtain ⟨b, hb, rfl⟩ := hr
    have := kidsBoxes_shape 0 tree hs b hb
    simpa [Shape, toRange] using this
  obtain ⟨m1, m2⟩ := mergeLoop_sameCodes _ _ out h hshape
  refine ⟨m1, ?_⟩
  intro bs
  rw [m2 bs, ← boxes_sameCodes csr tree hT hbytes bs]
  constructor
  · rintro ⟨r, hr, hc⟩
    simp only [List.mem_map] at hr
    obtain ⟨b, hb, rfl⟩ := hr
    refine ⟨b, hb, ?_⟩
    have := (isCode_iff_boxMatch _ (hshape _ (List.mem_map.mpr ⟨b, hb, rfl⟩)) bs).mp hc
    simpa [toRange] using this
  · rintro ⟨b, hb, hm⟩
    refine ⟨toRange [] [] b, List.mem_map.mpr ⟨b, hb, rfl⟩, ?_⟩
    apply (isCode_iff_boxMatch _ (hshape _ (List.mem_map.mpr ⟨b, hb, rfl⟩)) bs).mpr
    simpa [toRange] using hm

/-- the same statement in the vocabulary of the specification -/
theorem csr_sameCodes (csr : CSR) (c : Codec) (hC : newCodec csr = .ok c) (hbytes : ∀ r ∈ csr, AllBytes r.high)
    (out : CSR) (h : c.codeSpaceRange = .ok out) : SameCodes (toSpec out) (toSpec csr) := by
  intro bs
  have := (csr_equiv csr c hC hbytes out h).2 bs
  rw [Bool.eq_iff_iff]
  simp only [List.any_eq_true, toSpec, List.mem_map]
  constructor
  · rintro ⟨r, ⟨r', hr', rfl⟩, hc⟩
    obtain ⟨r2, hr2, hc2⟩ := this.mp ⟨r', hr', hc⟩
    exact ⟨_, ⟨r2, hr2, rfl⟩, hc2⟩
  · rintro ⟨r, ⟨r', hr', rfl⟩, hc⟩
    obtain ⟨r2, hr2, hc2⟩ := this.mpr ⟨r', hr', hc⟩
    exact ⟨_, ⟨r2, hr2, rfl⟩, hc2⟩

end PdfVerif.C12ccf

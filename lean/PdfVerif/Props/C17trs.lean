import PdfVerif.Model.TRSNameTree
/-!
# C17 — name and number trees are faithful, ordered dictionaries: property theorems

All statements are about `Model/TRSNameTree.lean` (internal/pdftree/{write,streaming,memory}.go),
generic over the key type with a lawful strict total order (`LawfulKeyOrd`), instantiated below
for byte strings (name trees, Go string comparison) and integers (number trees).
-/
namespace PdfVerif.C17trs
open PdfVerif PdfVerif.TRSN
set_option linter.unusedSectionVars false

/-! ## the order on keys -/

/-- `KeyOrd.lt` is a decidable strict total order -/
class LawfulKeyOrd (K : Type) [KeyOrd K] : Prop where
  irrefl : ∀ a : K, KeyOrd.lt a a = false
  trans : ∀ {a b c : K}, KeyOrd.lt a b = true → KeyOrd.lt b c = true → KeyOrd.lt a c = true
  total : ∀ a b : K, KeyOrd.lt a b = true ∨ a = b ∨ KeyOrd.lt b a = true

instance : LawfulKeyOrd Int where
  irrefl a := by simp [KeyOrd.lt]
  trans := by intro a b c h1 h2; simp [KeyOrd.lt] at *; omega
  total a b := by simp [KeyOrd.lt]; omega

theorem bytesLt_irrefl : ∀ a : Bytes, bytesLt a a = false
  | [] => by simp [bytesLt]
  | x :: xs => by simp [bytesLt, bytesLt_irrefl xs]

theorem bytesLt_cons (x y : Nat) (xs ys : Bytes) :
    bytesLt (x :: xs) (y :: ys) = true ↔ x < y ∨ (x = y ∧ bytesLt xs ys = true) := by
  simp only [bytesLt]
  by_cases h1 : x < y
  · simp [h1]
  · by_cases h2 : y < x
    · simp [h1, h2]; omega
    · have : x = y := by omega
      subst this; simp

theorem bytesLt_trans : ∀ a b c : Bytes, bytesLt a b = true → bytesLt b c = true → bytesLt a c = true
  | [], [], _, h, _ => by simp [bytesLt] at h
  | [], _ :: _, [], _, h => by simp [bytesLt] at h
  | [], _ :: _, _ :: _, _, _ => by simp [bytesLt]
  | _ :: _, [], _, h, _ => by simp [bytesLt] at h
  | _ :: _, _ :: _, [], _, h => by simp [bytesLt] at h
  | x :: xs, y :: ys, z :: zs, h1, h2 => by
    rw [bytesLt_cons] at h1 h2 ⊢
    rcases h1 with h1 | ⟨e1, h1⟩ <;> rcases h2 with h2 | ⟨e2, h2⟩
    · left; omega
    · left; omega
    · left; omega
    · right; exact ⟨by omega, bytesLt_trans xs ys zs h1 h2⟩

theorem bytesLt_total : ∀ a b : Bytes, bytesLt a b = true ∨ a = b ∨ bytesLt b a = true
  | [], [] => by simp
  | [], _ :: _ => by simp [bytesLt]
  | _ :: _, [] => by simp [bytesLt]
  | x :: xs, y :: ys => by
    rw [bytesLt_cons, bytesLt_cons]
    rcases Nat.lt_trichotomy x y with h | h | h
    · left; left; exact h
    · subst h
      rcases bytesLt_total xs ys with h | h | h
      · left; right; exact ⟨rfl, h⟩
      · right; left; rw [h]
      · right; right; right; exact ⟨rfl, h⟩
    · right; right; left; exact h

instance : LawfulKeyOrd Bytes where
  irrefl := bytesLt_irrefl
  trans := by intro a b c; exact bytesLt_trans a b c
  total := bytesLt_total

section
variable {K V : Type} [KeyOrd K] [LawfulKeyOrd K]

theorem lt_irrefl_k (a : K) : KeyOrd.lt a a = false := LawfulKeyOrd.irrefl a

theorem lt_asymm {a b : K} (h : KeyOrd.lt a b = true) : KeyOrd.lt b a = false := by
  cases hba : KeyOrd.lt b a with
  | false => rfl
  | true => have := LawfulKeyOrd.trans h hba; simp [lt_irrefl_k] at this

theorem lt_ne {a b : K} (h : KeyOrd.lt a b = true) : a ≠ b := by
  intro e; subst e; simp [lt_irrefl_k] at h

theorem kle_refl (a : K) : kle a a = true := by simp [kle, lt_irrefl_k]

theorem kle_of_lt {a b : K} (h : KeyOrd.lt a b = true) : kle a b = true := by
  simp [kle, lt_asymm h]

theorem lt_of_lt_of_le {a b c : K} (h1 : KeyOrd.lt a b = true) (h2 : kle b c = true) :
    KeyOrd.lt a c = true := by
  rcases LawfulKeyOrd.total b c with h | h | h
  · exact LawfulKeyOrd.trans h1 h
  · subst h; exact h1
  · simp [kle, h] at h2

theorem lt_of_le_of_lt {a b c : K} (h1 : kle a b = true) (h2 : KeyOrd.lt b c = true) :
    KeyOrd.lt a c = true := by
  rcases LawfulKeyOrd.total a b with h | h | h
  · exact LawfulKeyOrd.trans h h2
  · subst h; exact h2
  · simp [kle, h] at h1

omit [LawfulKeyOrd K] in
theorem kle_false_iff {a b : K} : kle a b = false ↔ KeyOrd.lt b a = true := by simp [kle]

/-! ## what a tree holds -/

mutual
/-- the key/value pairs below a node, in tree order -/
def entries : NTree K V → List (K × V)
  | .leaf es _ => es
  | .inner kids _ => entriesList kids
def entriesList : List (NTree K V) → List (K × V)
  | [] => []
  | k :: ks => entries k ++ entriesList ks
end

/-- strictly ascending keys (what `addEntry` demands of its input) -/
def Asc (es : List (K × V)) : Prop := es.Pairwise (fun a b => KeyOrd.lt a.1 b.1 = true)

def firstKey (es : List (K × V)) : Option K := es.head?.map (·.1)
def lastKey (es : List (K × V)) : Option K := es.getLast?.map (·.1)

mutual
/-- a well-formed node below the root: not empty, at most `maxChildren` entries or kids,
    `/Limits` present and equal to the least and greatest key below the node, all kids
    well-formed -/
def WF : NTree K V → Prop
  | .leaf es lim =>
    es ≠ [] ∧ es.length ≤ Gen.pdftree_maxChildren ∧
      ∃ lo hi, lim = some (lo, hi) ∧ firstKey es = some lo ∧ lastKey es = some hi
  | .inner kids lim =>
    kids ≠ [] ∧ kids.length ≤ Gen.pdftree_maxChildren ∧ WFList kids ∧
      ∃ lo hi, lim = some (lo, hi) ∧ firstKey (entriesList kids) = some lo ∧
        lastKey (entriesList kids) = some hi
def WFList : List (NTree K V) → Prop
  | [] => True
  | k :: ks => WF k ∧ WFList ks
end

mutual
/-- number of levels -/
def height : NTree K V → Nat
  | .leaf _ _ => 1
  | .inner kids _ => 1 + heightList kids
def heightList : List (NTree K V) → Nat
  | [] => 0
  | k :: ks => max (height k) (heightList ks)
end

end

section
variable {K V : Type} [KeyOrd K] [LawfulKeyOrd K] [DecidableEq K]

/-! ## lookups -/

omit [KeyOrd K] [LawfulKeyOrd K] in
theorem lookupEntries_append (key : K) (a b : List (K × V)) :
    lookupEntries key (a ++ b) =
      match lookupEntries key a with
      | .found v => .found v
      | .notFound => lookupEntries key b
      | .tooDeep => .tooDeep := by
  induction a with
  | nil => simp [lookupEntries]
  | cons e rest ih =>
    obtain ⟨k, v⟩ := e
    simp only [List.cons_append, lookupEntries]
    split
    · rfl
    · exact ih

omit [KeyOrd K] [LawfulKeyOrd K] in
theorem lookupEntries_notMem (key : K) (es : List (K × V)) (h : ∀ e ∈ es, e.1 ≠ key) :
    lookupEntries key es = .notFound := by
  induction es with
  | nil => rfl
  | cons e rest ih =>
    obtain ⟨k, v⟩ := e
    have hk : k ≠ key := h (k, v) (by simp)
    simp only [lookupEntries, hk, if_false]
    exact ih (fun e he => h e (by simp [he]))

omit [DecidableEq K] [LawfulKeyOrd K] in
theorem asc_append {a b : List (K × V)} :
    Asc (a ++ b) ↔ Asc a ∧ Asc b ∧ ∀ x ∈ a, ∀ y ∈ b, KeyOrd.lt x.1 y.1 = true := by
  simp [Asc, List.pairwise_append]

omit [DecidableEq K] in
theorem firstKey_le {es : List (K × V)} (h : Asc es) {lo : K} (hlo : firstKey es = some lo) :
    ∀ e ∈ es, kle lo e.1 = true := by
  cases es with
  | nil => simp
  | cons x rest =>
    simp [firstKey] at hlo
    subst hlo
    intro e he
    simp at he
    rcases he with rfl | he
    · exact kle_refl _
    · simp [Asc] at h
      exact kle_of_lt (h.1 e.1 e.2 he)

omit [DecidableEq K] in
theorem le_lastKey {es : List (K × V)} (h : Asc es) {hi : K} (hhi : lastKey es = some hi) :
    ∀ e ∈ es, kle e.1 hi = true := by
  induction es with
  | nil => simp
  | cons x rest ih =>
    intro e he
    cases rest with
    | nil =>
      simp [lastKey] at hhi
      subst hhi
      simp at he
      subst he
      exact kle_refl _
    | cons y rest' =>
      have hhi' : lastKey (y :: rest') = some hi := by
        simpa [lastKey, List.getLast?_cons_cons] using hhi
      have hasc : Asc (y :: rest') := by
        simp only [Asc, List.pairwise_cons] at h ⊢
        exact h.2
      simp only [List.mem_cons] at he
      rcases he with rfl | he
      · -- e = x: x < y ≤ hi
        have hxy : KeyOrd.lt e.1 y.1 = true := by
          simp only [Asc, List.pairwise_cons] at h
          exact h.1 y (by simp)
        have := ih hasc hhi' y (by simp)
        exact kle_of_lt (lt_of_lt_of_le hxy this)
      · exact ih hasc hhi' e (by simpa using he)


omit [DecidableEq K] [LawfulKeyOrd K] in
theorem WF_limits {t : NTree K V} (h : WF t) :
    ∃ lo hi, t.limits = some (lo, hi) ∧ firstKey (entries t) = some lo ∧ lastKey (entries t) = some hi := by
  cases t with
  | leaf es lim =>
    simp only [WF] at h
    obtain ⟨_, _, lo, hi, h1, h2, h3⟩ := h
    exact ⟨lo, hi, by simp [NTree.limits, h1], by simpa [entries] using h2, by simpa [entries] using h3⟩
  | inner kids lim =>
    simp only [WF] at h
    obtain ⟨_, _, _, lo, hi, h1, h2, h3⟩ := h
    exact ⟨lo, hi, by simp [NTree.limits, h1], by simpa [entries] using h2, by simpa [entries] using h3⟩

/-- a key outside `[lo, hi]` is not below a node with these exact limits -/
theorem not_mem_of_outside {es : List (K × V)} (hasc : Asc es) {lo hi key : K}
    (hlo : firstKey es = some lo) (hhi : lastKey es = some hi)
    (hout : (kle lo key && kle key hi) = false) : ∀ e ∈ es, e.1 ≠ key := by
  intro e he heq
  have h1 := firstKey_le hasc hlo e he
  have h2 := le_lastKey hasc hhi e he
  rw [heq] at h1 h2
  simp [h1, h2] at hout

mutual
/-- on a well-formed subtree with ascending keys that fits under the depth cap, the descent by
    `/Limits` finds exactly what a linear search through all entries below the node finds -/
theorem lookupNode_eq (maxDepth : Nat) (key : K) :
    ∀ (t : NTree K V) (d : Nat), WF t → Asc (entries t) → d + height t ≤ maxDepth →
      lookupNode maxDepth key t d = lookupEntries key (entries t)
  | .leaf es lim, d, _, _, hd => by
    have : ¬ d ≥ maxDepth := by simp [height] at hd; omega
    simp [lookupNode, entries, this]
  | .inner kids lim, d, hwf, hasc, hd => by
    have : ¬ d ≥ maxDepth := by simp [height] at hd; omega
    simp only [lookupNode, entries, this, if_false]
    simp only [WF] at hwf
    exact lookupKids_eq maxDepth key kids d hwf.2.2.1 (by simpa [entries] using hasc)
      (by simp [height] at hd; omega)
theorem lookupKids_eq (maxDepth : Nat) (key : K) :
    ∀ (kids : List (NTree K V)) (d : Nat), WFList kids → Asc (entriesList kids) →
      d + 1 + heightList kids ≤ maxDepth →
      lookupKids maxDepth key kids d = lookupEntries key (entriesList kids)
  | [], _, _, _, _ => by simp [lookupKids, entriesList, lookupEntries]
  | kid :: rest, d, hwf, hasc, hd => by
    simp only [WFList] at hwf
    obtain ⟨hk, hrest⟩ := hwf
    simp only [entriesList] at hasc ⊢
    obtain ⟨hasc1, hasc2, hcross⟩ := asc_append.mp hasc
    obtain ⟨lo, hi, hlim, hlo, hhi⟩ := WF_limits hk
    have hd1 : (d + 1) + height kid ≤ maxDepth := by simp [heightList] at hd; omega
    have hd2 : d + 1 + heightList rest ≤ maxDepth := by simp [heightList] at hd; omega
    simp only [lookupKids, hlim]
    rw [lookupEntries_append]
    by_cases hin : (kle lo key && kle key hi) = true
    · simp only [hin, if_true]
      rw [lookupNode_eq maxDepth key kid (d + 1) hk hasc1 hd1]
      -- not found in this kid: every later key is greater than hi ≥ key
      cases hl : lookupEntries key (entries kid) with
      | found v => rfl
      | tooDeep => rfl
      | notFound =>
        simp only
        symm
        apply lookupEntries_notMem
        intro e he heq
        -- the last entry of the kid has key hi
        have hne : entries kid ≠ [] := by
          intro h0; simp [h0, lastKey] at hhi
        have hlast : ∃ x ∈ entries kid, x.1 = hi := by
          cases hg : (entries kid).getLast? with
          | none => simp [lastKey, hg] at hhi
          | some x =>
            refine ⟨x, List.mem_of_getLast? hg, ?_⟩
            simpa [lastKey, hg] using hhi
        obtain ⟨x, hx, hxk⟩ := hlast
        have := hcross x hx e he
        rw [hxk, heq] at this
        simp only [Bool.and_eq_true] at hin
        have := lt_of_lt_of_le this hin.2
        simp [lt_irrefl_k] at this
    · have hin' : (kle lo key && kle key hi) = false := by simpa using hin
      simp only [hin', Bool.false_eq_true, if_false]
      rw [lookupKids_eq maxDepth key rest d hrest hasc2 hd2]
      rw [lookupEntries_notMem key (entries kid) (not_mem_of_outside hasc1 hlo hhi hin')]
end

end

section
variable {K V : Type} [KeyOrd K] [LawfulKeyOrd K] [DecidableEq K]

/-! ## enumeration -/

mutual
theorem allNode_eq (maxDepth : Nat) :
    ∀ (t : NTree K V) (d : Nat), d + height t ≤ maxDepth → allNode maxDepth t d = entries t
  | .leaf es lim, d, hd => by
    have : ¬ d ≥ maxDepth := by simp [height] at hd; omega
    simp [allNode, entries, this]
  | .inner kids lim, d, hd => by
    have : ¬ d ≥ maxDepth := by simp [height] at hd; omega
    simp only [allNode, entries, this, if_false]
    exact allKids_eq maxDepth kids d (by simp [height] at hd; omega)
theorem allKids_eq (maxDepth : Nat) :
    ∀ (kids : List (NTree K V)) (d : Nat), d + 1 + heightList kids ≤ maxDepth →
      allKids maxDepth kids d = entriesList kids
  | [], _, _ => by simp [allKids, entriesList]
  | kid :: rest, d, hd => by
    simp only [allKids, entriesList]
    rw [allNode_eq maxDepth kid (d + 1) (by simp [heightList] at hd; omega),
        allKids_eq maxDepth rest d (by simp [heightList] at hd; omega)]
end

/-! ## the writer: invariant of `tail` -/

theorem entriesList_append (a b : List (NTree K V)) :
    entriesList (a ++ b) = entriesList a ++ entriesList b := by
  induction a with
  | nil => simp [entriesList]
  | cons x xs ih => simp [entriesList, ih]

theorem WFList_append (a b : List (NTree K V)) : WFList (a ++ b) ↔ WFList a ∧ WFList b := by
  induction a with
  | nil => simp [WFList]
  | cons x xs ih => simp [WFList, ih, and_assoc]

theorem WFList_iff (a : List (NTree K V)) : WFList a ↔ ∀ t ∈ a, WF t := by
  induction a with
  | nil => simp [WFList]
  | cons x xs ih => simp [WFList, ih]

/-- what the writer knows about a completed node -/
def InfoOK (i : Info K V) : Prop :=
  WF i.node ∧ firstKey (entries i.node) = some i.minKey ∧ lastKey (entries i.node) = some i.maxKey

def tailEntries (t : List (Info K V)) : List (K × V) := entriesList (t.map (·.node))

theorem tailEntries_append (a b : List (Info K V)) :
    tailEntries (a ++ b) = tailEntries a ++ tailEntries b := by
  simp [tailEntries, entriesList_append]

theorem entries_ne_nil {t : NTree K V} (h : WF t) : entries t ≠ [] := by
  obtain ⟨lo, hi, _, h1, _⟩ := WF_limits h
  intro h0; simp [h0, firstKey] at h1

theorem firstKey_append_of_ne_nil {a b : List (K × V)} (h : a ≠ []) :
    firstKey (a ++ b) = firstKey a := by
  cases a with
  | nil => exact absurd rfl h
  | cons x xs => simp [firstKey]

theorem lastKey_append_of_ne_nil {a b : List (K × V)} (h : b ≠ []) :
    lastKey (a ++ b) = lastKey b := by
  simp [lastKey, List.getLast?_append]
  cases hb : b.getLast? with
  | none => simp [List.getLast?_eq_none_iff] at hb; exact absurd hb h
  | some x => simp

/-- first key of the entries below a non-empty list of well-formed nodes -/
theorem firstKey_tailEntries {c0 : Info K V} {cs : List (Info K V)} (h0 : InfoOK c0) :
    firstKey (tailEntries (c0 :: cs)) = some c0.minKey := by
  simp only [tailEntries, List.map_cons, entriesList]
  rw [firstKey_append_of_ne_nil (entries_ne_nil h0.1)]
  exact h0.2.1

theorem lastKey_tailEntries {cs : List (Info K V)} {cl : Info K V} (hl : cs.getLast? = some cl)
    (hok : InfoOK cl) : lastKey (tailEntries cs) = some cl.maxKey := by
  obtain ⟨pre, rfl⟩ : ∃ pre, cs = pre ++ [cl] := List.getLast?_eq_some_iff.mp hl
  rw [tailEntries_append]
  have : tailEntries [cl] = entries cl.node := by simp [tailEntries, entriesList]
  rw [lastKey_append_of_ne_nil (by rw [this]; exact entries_ne_nil hok.1), this]
  exact hok.2.2

/-- `mergeNodes` on a valid range: no panic, the new node is well-formed with exact limits,
    nothing is lost or reordered -/
theorem mergeNodes_spec (tail : List (Info K V)) (start stop : Nat)
    (hok : ∀ i ∈ tail, InfoOK i) (h1 : start < stop) (h2 : stop ≤ tail.length)
    (h3 : stop - start ≤ Gen.pdftree_maxChildren) :
    ∃ t', mergeNodes tail start stop = .ok t' ∧ (∀ i ∈ t', InfoOK i) ∧
      tailEntries t' = tailEntries tail ∧ t'.length + (stop - start) = tail.length + 1 ∧
      ∃ m : Info K V, m.depth ≥ 1 ∧ t' = tail.take start ++ m :: tail.drop stop := by
  have hsplit : tail = tail.take start ++ ((tail.drop start).take (stop - start) ++ tail.drop stop) := by
    have e1 : tail.drop stop = (tail.drop start).drop (stop - start) := by
      rw [List.drop_drop]; congr 1; omega
    rw [e1, List.take_append_drop, List.take_append_drop]
  generalize hch : (tail.drop start).take (stop - start) = children at hsplit
  have hlen : children.length = stop - start := by
    rw [← hch, List.length_take, List.length_drop]; omega
  have hchok : ∀ i ∈ children, InfoOK i := by
    intro i hi; apply hok; rw [hsplit]; simp [hi]
  cases hc : children with
  | nil => rw [hc] at hlen; simp at hlen; omega
  | cons c0 cs =>
    have hne : children ≠ [] := by rw [hc]; simp
    cases hgl : children.getLast? with
    | none => simp [List.getLast?_eq_none_iff] at hgl; exact absurd hgl hne
    | some cl =>
      have hcl : InfoOK cl := hchok cl (List.mem_of_getLast? hgl)
      have hc0 : InfoOK c0 := hchok c0 (by rw [hc]; simp)
      refine ⟨tail.take start ++ mkMerged children c0 cl :: tail.drop stop, ?_, ?_, ?_, ?_, mkMerged children c0 cl, by simp [mkMerged], rfl⟩
      · unfold mergeNodes
        have : ¬ start ≥ stop := by omega
        have h2' : ¬ stop > tail.length := by omega
        simp only [this, h2', if_false, hch]
        rw [hgl]
        simp only [hc]
      · intro i hi
        simp only [List.mem_append, List.mem_cons] at hi
        rcases hi with hi | rfl | hi
        · exact hok i (List.mem_of_mem_take hi)
        · refine ⟨?_, ?_, ?_⟩
          · simp only [mkMerged, WF]
            refine ⟨by simp [hne], by simp [hlen, h3], ?_, c0.minKey, cl.maxKey, rfl, ?_, ?_⟩
            · rw [WFList_iff]; intro t ht
              simp at ht
              obtain ⟨i, hi, rfl⟩ := ht
              exact (hchok i hi).1
            · have := firstKey_tailEntries (cs := cs) hc0
              rw [← hc] at this; exact this
            · exact lastKey_tailEntries hgl hcl
          · simp only [mkMerged, entries]
            have := firstKey_tailEntries (cs := cs) hc0
            rw [← hc] at this; exact this
          · simp only [mkMerged, entries]
            exact lastKey_tailEntries hgl hcl
        · exact hok i (List.mem_of_mem_drop hi)
      · conv => rhs; rw [hsplit]
        simp only [tailEntries_append]
        congr 1
      · have : tail.length = (tail.take start).length + (children.length + (tail.drop stop).length) := by
          conv => lhs; rw [hsplit]
          simp
        simp only [List.length_append, List.length_cons]
        rw [this, hlen]; omega

theorem maxChildren_ge_two : 2 ≤ Gen.pdftree_maxChildren := by decide

/-- `mergeTail` terminates within its loop bound, never leaves the slice bounds and keeps the
    entries -/
theorem mergeTail_spec : ∀ (fuel : Nat) (tail : List (Info K V)), (∀ i ∈ tail, InfoOK i) →
    fuel ≥ tail.length + 1 →
    ∃ t', mergeTail fuel tail = .ok t' ∧ (∀ i ∈ t', InfoOK i) ∧ tailEntries t' = tailEntries tail
  | 0, tail, _, hf => by omega
  | fuel + 1, tail, hok, hf => by
    have hM := maxChildren_ge_two
    unfold mergeTail
    by_cases hn : tail.length < Gen.pdftree_maxChildren
    · simp only [hn, if_true]; exact ⟨tail, rfl, hok, rfl⟩
    · simp only [hn, if_false]
      have h1 : tail.length - 1 < tail.length := by omega
      have h2 : tail.length - Gen.pdftree_maxChildren < tail.length := by omega
      rw [List.getElem?_eq_getElem h1, List.getElem?_eq_getElem h2]
      simp only
      by_cases hd : (tail[tail.length - 1].depth != tail[tail.length - Gen.pdftree_maxChildren].depth) = true
      · simp only [hd, if_true]; exact ⟨tail, rfl, hok, rfl⟩
      · simp only [hd, Bool.false_eq_true, if_false]
        obtain ⟨t', e, hok', hent, hlen, _⟩ := mergeNodes_spec tail (tail.length - Gen.pdftree_maxChildren)
          tail.length hok (by omega) (Nat.le_refl _) (by omega)
        rw [e]
        simp only
        obtain ⟨t'', e', hok'', hent'⟩ := mergeTail_spec fuel t' hok' (by omega)
        exact ⟨t'', e', hok'', hent'.trans hent⟩

/-- invariant of the `treeWriter` after the entries `es` have been added -/
structure Inv (w : TW K V) (es : List (K × V)) : Prop where
  tailOK : ∀ i ∈ w.tail, InfoOK i
  ents : tailEntries w.tail ++ w.pending = es
  pend : w.pending.length < Gen.pdftree_maxChildren
  last : w.last = lastKey es

theorem completePendingLeaf_spec (w : TW K V) (hok : ∀ i ∈ w.tail, InfoOK i)
    (hne : w.pending ≠ []) (hlen : w.pending.length ≤ Gen.pdftree_maxChildren) :
    ∃ w', completePendingLeaf w = .ok w' ∧ (∀ i ∈ w'.tail, InfoOK i) ∧
      tailEntries w'.tail = tailEntries w.tail ++ w.pending ∧ w'.pending = [] ∧ w'.last = w.last := by
  unfold completePendingLeaf
  cases hp : w.pending with
  | nil => exact absurd hp hne
  | cons e0 rest =>
    cases hgl : w.pending.getLast? with
    | none => simp [List.getLast?_eq_none_iff] at hgl; exact absurd hgl hne
    | some el =>
      rw [hp] at hgl
      simp only [hgl]
      have hinfo : InfoOK (leafInfo (e0 :: rest) e0 el) := by
        refine ⟨?_, ?_, ?_⟩
        · simp only [leafInfo, WF]
          refine ⟨by simp, by rw [← hp]; exact hlen, e0.1, el.1, rfl, by simp [firstKey], ?_⟩
          simp [lastKey, hgl]
        · simp [leafInfo, entries, firstKey]
        · simp [leafInfo, entries, lastKey, hgl]
      obtain ⟨t', e, hok', hent⟩ := mergeTail_spec (w.tail.length + 2)
        (w.tail ++ [leafInfo (e0 :: rest) e0 el])
        (by intro i hi; simp at hi; rcases hi with hi | rfl; exact hok i hi; exact hinfo)
        (by simp)
      rw [e]
      refine ⟨_, rfl, hok', ?_, rfl, rfl⟩
      simp only [hent, tailEntries_append]
      simp [tailEntries, entriesList, entries, leafInfo]

/-- `addEntry` accepts exactly a key above the last one and keeps the invariant -/
theorem addEntry_ok (w : TW K V) (es : List (K × V)) (k : K) (v : V) (hinv : Inv w es)
    (hk : ∀ l, lastKey es = some l → KeyOrd.lt l k = true) :
    ∃ w', addEntry w k v = .ok w' ∧ Inv w' (es ++ [(k, v)]) := by
  unfold addEntry
  have hbad : keyNotAbove w.last k = false := by
    rw [hinv.last]
    cases hl : lastKey es with
    | none => rfl
    | some l => simp [keyNotAbove, kle, hk l hl]
  simp only [hbad, Bool.false_eq_true, if_false]
  have hlast : lastKey (es ++ [(k, v)]) = some k := by simp [lastKey]
  by_cases hfull : (w.pending ++ [(k, v)]).length ≥ Gen.pdftree_maxChildren
  · simp only [hfull, if_true]
    obtain ⟨w', e, hok', hent, hpend, hl⟩ := completePendingLeaf_spec
      ({ w with last := some k, pending := w.pending ++ [(k, v)] } : TW K V) hinv.tailOK (by simp)
      (by have := hinv.pend; simp at hfull ⊢; omega)
    refine ⟨w', e, hok', ?_, ?_, ?_⟩
    · rw [hent, hpend]; simp only [List.append_nil]
      rw [← hinv.ents]; simp
    · rw [hpend]; have := maxChildren_ge_two; simp; omega
    · rw [hl, hlast]
  · simp only [hfull, if_false]
    refine ⟨_, rfl, hinv.tailOK, ?_, ?_, ?_⟩
    · simp only; rw [← hinv.ents]; simp
    · simp only; omega
    · simp only; rw [hlast]

theorem addEntry_unsorted (w : TW K V) (es : List (K × V)) (k : K) (v : V) (hinv : Inv w es)
    (l : K) (hl : lastKey es = some l) (hk : KeyOrd.lt l k = false) :
    addEntry w k v = .error .unsorted := by
  unfold addEntry
  rw [hinv.last, hl]
  simp [keyNotAbove, kle, hk]

theorem asc_snoc {es : List (K × V)} {k : K} {v : V} (hasc : Asc es)
    (hk : ∀ l, lastKey es = some l → KeyOrd.lt l k = true) : Asc (es ++ [(k, v)]) := by
  rw [asc_append]
  refine ⟨hasc, by simp [Asc], ?_⟩
  intro x hx y hy
  simp at hy; subst hy
  cases hl : lastKey es with
  | none =>
    have : es = [] := by
      cases es with
      | nil => rfl
      | cons a b => simp [lastKey, List.getLast?_cons] at hl
    subst this; simp at hx
  | some l => exact lt_of_le_of_lt (le_lastKey hasc hl x hx) (hk l hl)

/-- `Write` on ascending keys: every entry is accepted -/
theorem addAll_ok : ∀ (rest : List (K × V)) (w : TW K V) (done : List (K × V)), Inv w done →
    Asc (done ++ rest) → ∃ w', addAll w rest = .ok w' ∧ Inv w' (done ++ rest)
  | [], w, done, hinv, _ => ⟨w, rfl, by simpa using hinv⟩
  | (k, v) :: rest, w, done, hinv, hasc => by
    have hk : ∀ l, lastKey done = some l → KeyOrd.lt l k = true := by
      intro l hl
      obtain ⟨_, _, hcross⟩ := asc_append.mp hasc
      cases hg : done.getLast? with
      | none => simp [lastKey, hg] at hl
      | some x =>
        have hx : x.1 = l := by simpa [lastKey, hg] using hl
        have := hcross x (List.mem_of_getLast? hg) (k, v) (by simp)
        rw [hx] at this; exact this
    obtain ⟨w1, e1, hinv1⟩ := addEntry_ok w done k v hinv hk
    obtain ⟨w2, e2, hinv2⟩ := addAll_ok rest w1 (done ++ [(k, v)]) hinv1 (by simpa using hasc)
    refine ⟨w2, ?_, by simpa using hinv2⟩
    simp only [addAll, e1, e2]

/-- `Write` on a sequence that is not strictly ascending: rejected -/
theorem addAll_unsorted : ∀ (rest : List (K × V)) (w : TW K V) (done : List (K × V)), Inv w done →
    Asc done → ¬ Asc (done ++ rest) → addAll w rest = .error .unsorted
  | [], w, done, _, hasc, hn => by simp at hn; exact absurd hasc hn
  | (k, v) :: rest, w, done, hinv, hasc, hn => by
    by_cases hk : ∀ l, lastKey done = some l → KeyOrd.lt l k = true
    · obtain ⟨w1, e1, hinv1⟩ := addEntry_ok w done k v hinv hk
      have := addAll_unsorted rest w1 (done ++ [(k, v)]) hinv1 (asc_snoc hasc hk) (by simpa using hn)
      simp only [addAll, e1, this]
    · have : ∃ l, lastKey done = some l ∧ KeyOrd.lt l k = false := by
        apply Classical.byContradiction
        intro hcon
        apply hk
        intro l hl
        cases hlt : KeyOrd.lt l k with
        | true => rfl
        | false => exact absurd ⟨l, hl, hlt⟩ hcon
      obtain ⟨l, hl, hlt⟩ := this
      simp only [addAll, addEntry_unsorted w done k v hinv l hl hlt]

theorem inv_init : Inv (TW.init : TW K V) [] :=
  ⟨by simp [TW.init], by simp [TW.init, tailEntries, entriesList], by
    have := maxChildren_ge_two; simp [TW.init]; omega, by simp [TW.init, lastKey]⟩

theorem trailingRunStart_le (tail : List (Info K V)) (d : Nat) : ∀ s, trailingRunStart tail d s ≤ s
  | 0 => by simp [trailingRunStart]
  | s + 1 => by
    unfold trailingRunStart
    split
    · split
      · have := trailingRunStart_le tail d s; omega
      · omega
    · omega

/-- `collapse`: when it returns, one node is left, nothing was lost, and no slice expression
    left its bounds on the way -/
theorem collapse_spec : ∀ (fuel : Nat) (tail : List (Info K V)), (∀ i ∈ tail, InfoOK i) →
    ∀ t', collapse fuel tail = .ok t' →
      (∀ i ∈ t', InfoOK i) ∧ tailEntries t' = tailEntries tail ∧ t'.length ≤ 1 ∧
      (tail ≠ [] → t' ≠ []) ∧ (tail.length ≥ 2 → ∀ r, t' = [r] → r.depth ≥ 1)
  | 0, _, _, _, h => by simp [collapse] at h
  | fuel + 1, tail, hok, t', h => by
    have hM := maxChildren_ge_two
    unfold collapse at h
    by_cases hl : tail.length ≤ 1
    · simp only [hl, if_true] at h
      cases h
      exact ⟨hok, rfl, hl, fun h => h, fun h => by omega⟩
    · simp only [hl, if_false] at h
      have h1 : tail.length - 1 < tail.length := by omega
      rw [List.getElem?_eq_getElem h1] at h
      simp only at h
      generalize hs0 : trailingRunStart tail tail[tail.length - 1].depth (tail.length - 1) = start0 at h
      have hs0le : start0 ≤ tail.length - 1 := by rw [← hs0]; exact trailingRunStart_le _ _ _
      generalize hst : (if tail.length - start0 > Gen.pdftree_maxChildren
        then tail.length - Gen.pdftree_maxChildren else start0) = start at h
      have hst1 : start < tail.length := by rw [← hst]; split <;> omega
      have hst2 : tail.length - start ≤ Gen.pdftree_maxChildren := by rw [← hst]; split <;> omega
      obtain ⟨t1, e, hok1, hent1, hlen1, m, hm, ht1⟩ := mergeNodes_spec tail start tail.length hok hst1
        (Nat.le_refl _) hst2
      rw [e] at h
      simp only at h
      obtain ⟨hok2, hent2, hlen2, hne2, hdep2⟩ := collapse_spec fuel t1 hok1 t' h
      refine ⟨hok2, hent2.trans hent1, hlen2, ?_, ?_⟩
      · intro _; apply hne2; intro h0; rw [h0] at hlen1; simp at hlen1; omega
      · intro _ r hr
        by_cases hl1 : t1.length ≥ 2
        · exact hdep2 hl1 r hr
        · -- t1 is the merged node alone
          have hl3 : t1.length = start + 1 := by
            rw [ht1]; simp [List.length_take]; omega
          have hs : start = 0 := by omega
          have : t1 = [m] := by
            rw [ht1, hs]; simp
          subst this
          unfold collapse at h
          cases fuel with
          | zero => simp at h
          | succ f =>
            simp at h
            subst h
            simp at hr; subst hr; exact hm

/-! ## the root -/

/-- the two shapes of a written root for the entries `es`: the entries themselves (fewer than
    `maxChildren`), or a single kid which is a well-formed subtree holding `es`.
    Either way the root carries no `/Limits`. -/
inductive RootOK (es : List (K × V)) : NTree K V → Prop
  | ofEntries : es ≠ [] → es.length < Gen.pdftree_maxChildren → RootOK es (.leaf es none)
  | ofKid (t : NTree K V) : WF t → entries t = es → RootOK es (.inner [t] none)

theorem tailEntries_ne_nil {t : List (Info K V)} (hok : ∀ i ∈ t, InfoOK i) (hne : t ≠ []) :
    tailEntries t ≠ [] := by
  cases t with
  | nil => exact absurd rfl hne
  | cons i rest =>
    simp only [tailEntries, List.map_cons, entriesList]
    have := entries_ne_nil (hok i (by simp)).1
    simp [this]

theorem finishTail_spec (t : List (Info K V)) (hok : ∀ i ∈ t, InfoOK i) (r : Option (NTree K V))
    (h : finishTail t = .ok r) :
    (t = [] ∧ r = none) ∨ (∃ n, r = some (.inner [n] none) ∧ WF n ∧ entries n = tailEntries t) := by
  unfold finishTail at h
  split at h
  · left; cases h; exact ⟨rfl, rfl⟩
  · rename_i i
    right
    have hi := hok i (by simp)
    have hent : entries i.node = tailEntries [i] := by simp [tailEntries, entriesList]
    split at h
    · cases h; exact ⟨i.node, rfl, hi.1, hent⟩
    · rename_i hd
      have : i.depth > 0 := by
        cases hdd : i.depth with
        | zero => simp [hdd] at hd
        | succ n => omega
      simp only [this, if_true] at h
      cases h; exact ⟨i.node, rfl, hi.1, hent⟩
  · rename_i hne1 hne2
    right
    have hlen : t.length ≥ 2 := by
      cases t with
      | nil => exact absurd rfl hne1
      | cons a rest =>
        cases rest with
        | nil => exact absurd rfl (hne2 a)
        | cons b rest' => simp
    split at h
    · cases h
    · rename_i root hc
      obtain ⟨hok', hent, _, _, hdep⟩ := collapse_spec _ t hok _ hc
      have := hdep hlen root rfl
      have hpos : root.depth > 0 := by omega
      simp only [hpos, if_true] at h
      cases h
      refine ⟨root.node, rfl, (hok' root (by simp)).1, ?_⟩
      rw [← hent]; simp [tailEntries, entriesList]
    · cases h

theorem finish_spec (w : TW K V) (es : List (K × V)) (hinv : Inv w es) (r : Option (NTree K V))
    (h : finish w = .ok r) : (es = [] ∧ r = none) ∨ (∃ root, r = some root ∧ RootOK es root) := by
  unfold finish at h
  by_cases hp : w.pending.length > 0
  · simp only [hp, if_true] at h
    by_cases ht : w.tail.length = 0
    · simp only [ht, beq_self_eq_true, if_true] at h
      cases h
      right
      have ht' : w.tail = [] := List.length_eq_zero_iff.mp ht
      have he : w.pending = es := by have := hinv.ents; rw [ht'] at this; simpa [tailEntries, entriesList] using this
      refine ⟨_, rfl, ?_⟩
      rw [he]
      exact RootOK.ofEntries (by rw [← he]; intro h0; simp [h0] at hp) (by rw [← he]; exact hinv.pend)
    · have ht2 : (w.tail.length == 0) = false := by simpa using ht
      simp only [ht2, Bool.false_eq_true, if_false] at h
      obtain ⟨w', e, hok', hent, _, _⟩ := completePendingLeaf_spec w hinv.tailOK
        (by intro h0; simp [h0] at hp) (by have := hinv.pend; omega)
      rw [e] at h
      simp only at h
      rcases finishTail_spec w'.tail hok' r h with ⟨h0, _⟩ | ⟨n, hr, hwf, hn⟩
      · exfalso
        have : tailEntries w'.tail = [] := by rw [h0]; simp [tailEntries, entriesList]
        rw [hent] at this
        have hpe : w.pending = [] := (List.append_eq_nil_iff.mp this).2
        simp [hpe] at hp
      · right
        refine ⟨_, hr, RootOK.ofKid n hwf ?_⟩
        rw [hn, hent, hinv.ents]
  · simp only [hp, if_false] at h
    have hpe : w.pending = [] := by
      cases hpp : w.pending with
      | nil => rfl
      | cons a b => simp [hpp] at hp
    have he : tailEntries w.tail = es := by have := hinv.ents; rw [hpe] at this; simpa using this
    rcases finishTail_spec w.tail hinv.tailOK r h with ⟨h0, hr⟩ | ⟨n, hr, hwf, hn⟩
    · left
      refine ⟨?_, hr⟩
      rw [← he, h0]; simp [tailEntries, entriesList]
    · right
      exact ⟨_, hr, RootOK.ofKid n hwf (by rw [hn, he])⟩

/-! ## the property theorems

`es` is the key/value sequence handed to `Write` (for `WriteMap`: the map's entries in sorted
order).  `write es = .ok r` is the hypothesis "the writer returned"; `write_total` below shows
that it does for every strictly ascending `es`. -/

/-- **empty map → no tree** -/
theorem empty_no_tree : write ([] : List (K × V)) = .ok none := by
  simp [write, addAll, finish, finishTail, TW.init]

/-- **unsorted input is rejected**: a key sequence that is not strictly ascending (out of
    order or with a duplicate) makes `Write` fail with "keys must be in sorted order" -/
theorem unsorted_rejected (es : List (K × V)) (h : ¬ Asc es) : write es = .error .unsorted := by
  unfold write
  rw [addAll_unsorted es TW.init [] inv_init (by simp [Asc]) (by simpa using h)]

/-- the root written for a non-empty ascending sequence -/
theorem write_root (es : List (K × V)) (hasc : Asc es) (r : Option (NTree K V))
    (hw : write es = .ok r) : (es = [] ∧ r = none) ∨ (∃ root, r = some root ∧ RootOK es root) := by
  unfold write at hw
  obtain ⟨w, e, hinv⟩ := addAll_ok es TW.init [] inv_init (by simpa using hasc)
  rw [e] at hw
  exact finish_spec w es (by simpa using hinv) r hw

/-- height of what was written (0 for no tree) -/
def rootHeight : Option (NTree K V) → Nat
  | none => 0
  | some t => height t

theorem lookup_eq_linear (maxDepth : Nat) (es : List (K × V)) (hasc : Asc es) (r : Option (NTree K V))
    (hw : write es = .ok r) (hh : rootHeight r ≤ maxDepth) (key : K) :
    lookup maxDepth r key = lookupEntries key es := by
  rcases write_root es hasc r hw with ⟨he, hr⟩ | ⟨root, hr, hroot⟩
  · subst he hr; simp [lookup, lookupEntries]
  · subst hr
    cases hroot with
    | ofEntries hne hlen =>
      have : ¬ 0 ≥ maxDepth := by simp [rootHeight, height] at hh; omega
      simp [lookup, lookupNode, this]
    | ofKid t hwf hent =>
      have : ¬ 0 ≥ maxDepth := by simp [rootHeight, height] at hh; omega
      simp only [lookup, lookupNode, this, if_false]
      rw [lookupKids_eq maxDepth key [t] 0 (by simp [WFList, hwf])
        (by simpa [entriesList, hent] using hasc) (by simp [rootHeight, height, heightList] at hh ⊢; omega)]
      simp [entriesList, hent]

/-- **lookup_write, present keys**: every stored key is found with its value -/
theorem lookup_write_present (maxDepth : Nat) (es : List (K × V)) (hasc : Asc es)
    (r : Option (NTree K V)) (hw : write es = .ok r) (hh : rootHeight r ≤ maxDepth)
    (k : K) (v : V) (hmem : (k, v) ∈ es) : lookup maxDepth r k = .found v := by
  rw [lookup_eq_linear maxDepth es hasc r hw hh k]
  clear hw hh
  induction es with
  | nil => simp at hmem
  | cons e rest ih =>
    obtain ⟨k', v'⟩ := e
    simp only [Asc, List.pairwise_cons] at hasc
    simp only [List.mem_cons, Prod.mk.injEq] at hmem
    rcases hmem with ⟨rfl, rfl⟩ | hmem
    · simp [lookupEntries]
    · have hne : k' ≠ k := lt_ne (hasc.1 (k, v) hmem)
      simp only [lookupEntries, hne, if_false]
      exact ih hasc.2 hmem

/-- **lookup_write, absent keys**: every other key (between neighbours, below the minimum,
    above the maximum, anything) is reported as not found -/
theorem lookup_write_absent (maxDepth : Nat) (es : List (K × V)) (hasc : Asc es)
    (r : Option (NTree K V)) (hw : write es = .ok r) (hh : rootHeight r ≤ maxDepth)
    (k : K) (habs : ∀ e ∈ es, e.1 ≠ k) : lookup maxDepth r k = .notFound := by
  rw [lookup_eq_linear maxDepth es hasc r hw hh k]
  exact lookupEntries_notMem k es habs

/-- **enumeration sorted and complete**: `All()` yields exactly the entries handed to `Write`,
    in the same (ascending) order, each once -/
theorem all_sorted_complete (maxDepth : Nat) (es : List (K × V)) (hasc : Asc es)
    (r : Option (NTree K V)) (hw : write es = .ok r) (hh : rootHeight r ≤ maxDepth) :
    all maxDepth r = es := by
  rcases write_root es hasc r hw with ⟨he, hr⟩ | ⟨root, hr, hroot⟩
  · subst he hr; simp [all]
  · subst hr
    cases hroot with
    | ofEntries hne hlen =>
      have : ¬ 0 ≥ maxDepth := by simp [rootHeight, height] at hh; omega
      simp [all, allNode, this]
    | ofKid t hwf hent =>
      simp only [all]
      rw [allNode_eq maxDepth _ 0 (by simpa [rootHeight] using hh)]
      simp [entries, entriesList, hent]

mutual
/-- every node of the subtree has at most `maxChildren` kids or entries, and at least one -/
def FanOK : NTree K V → Prop
  | .leaf es _ => 1 ≤ es.length ∧ es.length ≤ Gen.pdftree_maxChildren
  | .inner kids _ => 1 ≤ kids.length ∧ kids.length ≤ Gen.pdftree_maxChildren ∧ FanOKList kids
def FanOKList : List (NTree K V) → Prop
  | [] => True
  | k :: ks => FanOK k ∧ FanOKList ks
end

mutual
theorem fanOK_of_WF : ∀ t : NTree K V, WF t → FanOK t
  | .leaf es lim, h => by
    simp only [WF] at h; simp only [FanOK]
    refine ⟨?_, h.2.1⟩
    cases es with
    | nil => exact absurd rfl h.1
    | cons a b => simp
  | .inner kids lim, h => by
    simp only [WF] at h; simp only [FanOK]
    refine ⟨?_, h.2.1, fanOKList_of_WFList kids h.2.2.1⟩
    cases kids with
    | nil => exact absurd rfl h.1
    | cons a b => simp
theorem fanOKList_of_WFList : ∀ ks : List (NTree K V), WFList ks → FanOKList ks
  | [], _ => by simp [FanOKList]
  | k :: ks, h => by
    simp only [WFList] at h; simp only [FanOKList]
    exact ⟨fanOK_of_WF k h.1, fanOKList_of_WFList ks h.2⟩
end

/-- **fan-out ≤ maxChildren** for every node of the written tree -/
theorem fanout (es : List (K × V)) (hasc : Asc es) (root : NTree K V)
    (hw : write es = .ok (some root)) : FanOK root := by
  rcases write_root es hasc _ hw with ⟨_, hr⟩ | ⟨root', hr, hroot⟩
  · cases hr
  · cases hr
    cases hroot with
    | ofEntries hne hlen =>
      simp only [FanOK]
      refine ⟨?_, by omega⟩
      cases es with
      | nil => exact absurd rfl hne
      | cons a b => simp
    | ofKid t hwf hent =>
      have := maxChildren_ge_two
      simp only [FanOK, FanOKList, List.length_cons, List.length_nil]
      exact ⟨by omega, by omega, fanOK_of_WF t hwf, trivial⟩

/-- **root without /Limits; /Limits exact for every non-root node**: the root carries no
    `/Limits`; everything below it satisfies `WF`, which says for every node that `/Limits` is
    present and equals (least key below, greatest key below) -/
theorem limits_exact (es : List (K × V)) (hasc : Asc es) (root : NTree K V)
    (hw : write es = .ok (some root)) :
    root.limits = none ∧
      ((∃ es', root = .leaf es' none) ∨ (∃ t, root = .inner [t] none ∧ WF t)) := by
  rcases write_root es hasc _ hw with ⟨_, hr⟩ | ⟨root', hr, hroot⟩
  · cases hr
  · cases hr
    cases hroot with
    | ofEntries hne hlen => exact ⟨rfl, .inl ⟨es, rfl⟩⟩
    | ofKid t hwf hent => exact ⟨rfl, .inr ⟨t, rfl, hwf⟩⟩

/-! ### in-memory reader -/

omit [KeyOrd K] [LawfulKeyOrd K] in
theorem mapSet_fresh (k : K) (v : V) : ∀ m : List (K × V), (∀ e ∈ m, e.1 ≠ k) → mapSet k v m = m ++ [(k, v)]
  | [], _ => rfl
  | (k', x) :: rest, h => by
    have hne : k' ≠ k := h (k', x) (by simp)
    simp only [mapSet, hne, if_false, List.cons_append]
    rw [mapSet_fresh k v rest (fun e he => h e (by simp [he]))]

theorem foldl_mapSet_asc : ∀ (es acc : List (K × V)), Asc (acc ++ es) →
    es.foldl (fun m e => mapSet e.1 e.2 m) acc = acc ++ es
  | [], acc, _ => by simp
  | e :: rest, acc, h => by
    simp only [List.foldl_cons]
    have hfresh : ∀ x ∈ acc, x.1 ≠ e.1 := by
      intro x hx
      obtain ⟨_, _, hcross⟩ := asc_append.mp h
      exact lt_ne (hcross x hx e (by simp))
    rw [mapSet_fresh e.1 e.2 acc hfresh]
    have := foldl_mapSet_asc rest (acc ++ [(e.1, e.2)]) (by simpa using h)
    simpa using this

theorem insertSorted_lt (e : K × V) : ∀ rest : List (K × V), (∀ x ∈ rest, KeyOrd.lt e.1 x.1 = true) →
    insertSorted e rest = e :: rest
  | [], _ => rfl
  | x :: rest, h => by
    have : KeyOrd.lt x.1 e.1 = false := lt_asymm (h x (by simp))
    simp [insertSorted, this]

theorem sortByKey_asc : ∀ es : List (K × V), Asc es → sortByKey es = es
  | [], _ => rfl
  | e :: rest, h => by
    simp only [Asc, List.pairwise_cons] at h
    simp only [sortByKey, List.foldr_cons]
    have ih := sortByKey_asc rest h.2
    simp only [sortByKey] at ih
    rw [ih]
    exact insertSorted_lt e rest h.1

omit [KeyOrd K] [LawfulKeyOrd K] in
theorem memLookup_eq (key : K) : ∀ m : List (K × V), memLookup m key = lookupEntries key m
  | [] => rfl
  | (k, v) :: rest => by
    have ih := memLookup_eq key rest
    by_cases hk : k = key
    · simp [memLookup, mapGet, lookupEntries, hk]
    · simp only [memLookup, mapGet, lookupEntries, hk, if_false] at ih ⊢
      exact ih

/-- **readers agree**: the in-memory reader holds exactly the entries the streaming reader
    enumerates, looks every key up with the same result, and enumerates in the same order -/
theorem readers_agree (maxDepth : Nat) (es : List (K × V)) (hasc : Asc es)
    (r : Option (NTree K V)) (hw : write es = .ok r) (hh : rootHeight r ≤ maxDepth) :
    extractInMemory maxDepth r = es ∧
    memAll (extractInMemory maxDepth r) = all maxDepth r ∧
    ∀ key, memLookup (extractInMemory maxDepth r) key = lookup maxDepth r key := by
  have hall := all_sorted_complete maxDepth es hasc r hw hh
  have hex : extractInMemory maxDepth r = es := by
    simp only [extractInMemory, hall]
    simpa using foldl_mapSet_asc es [] (by simpa using hasc)
  refine ⟨hex, ?_, ?_⟩
  · rw [hex, hall]; exact sortByKey_asc es hasc
  · intro key
    rw [hex, lookup_eq_linear maxDepth es hasc r hw hh key]
    exact memLookup_eq key es


end

/-! ### non-vacuity -/

def exEntries : List (Int × Nat) := (List.range 70).map fun (i : Nat) => ((i : Int) * 3 - 100, i)

-- 70 ascending integer keys (more than one leaf): the writer returns a tree; stored keys are
-- found with their values, a key between two neighbours is not, enumeration is complete
example : (match write exEntries with
    | .ok r => (match lookup 256 r 8, lookup 256 r 9, lookup 256 r (-100), lookup 256 r 107 with
        | .found v, .notFound, .found 0, .found 69 => v == 36
        | _, _, _, _ => false) && (all 256 r).length == 70
    | _ => false) = true := by decide +kernel

-- a duplicate key is rejected
example : (match write ([(1, 0), (1, 1)] : List (Int × Nat)) with
    | .error .unsorted => true | _ => false) = true := by decide +kernel

end PdfVerif.C17trs

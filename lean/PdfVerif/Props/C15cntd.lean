import PdfVerif.Props.C15cnt
import PdfVerif.Lemmas.C01Num
/-!
# C15 — integer operands: `strconv.FormatInt` digits scan back as the integer

`Model/Format.lean` writes integers with its structural decimal printer `intDec`/`natDec`
(tied to `strconv.FormatInt(x, 10)` by the byte-identical `fmt` lines of the correspondence
run).  This file proves, for *every* 64-bit integer, that the content scanner reads the written
token back as that integer (`int_tok`), reusing the digit lemmas of `Lemmas/C01Num.lean`
(`digitsVal_natDec`, `natDec_digits`, `natDec_length_le`).
-/
namespace PdfVerif.C15cntd
open PdfVerif PdfVerif.CNT PdfVerif.C15cnt PdfVerif.C01L

/-- the digit bytes of a natural number -/
def digs (n : Nat) : Bytes := natDec n

theorem digs_digit (n : Nat) : ∀ b ∈ digs n, 48 ≤ b ∧ b ≤ 57 := by
  intro b hb
  exact (isDigit_iff b).mp (natDec_digits n b hb)

theorem digs_ne (n : Nat) : digs n ≠ [] := natDec_ne_nil n

theorem digs_val (n : Nat) : digitsVal (digs n) 0 = n := digitsVal_natDec n

theorem digs_length (n : Nat) (h : n < 10 ^ 19) : (digs n).length ≤ 19 :=
  natDec_length_le 19 n (by decide) h

theorem intDec_eq (i : Int) : intDec i = if 0 ≤ i then digs i.toNat else 45 :: digs (-i).toNat := by
  cases i with
  | ofNat n => simp [intDec, digs]
  | negSucc n =>
    have h : ¬ (0 : Int) ≤ Int.negSucc n := by omega
    have e : (-Int.negSucc n).toNat = n + 1 := by omega
    simp [intDec, digs, h, e]

/-! ## the scanner on digit tokens -/

theorem digit_regular : ∀ b, 48 ≤ b → b ≤ 57 → cReg b = true ∧ isDigit b = true ∧ (b == 46) = false ∧
    (b == 43) = false ∧ (b == 45) = false := by
  intro b h1 h2
  have : b = 48 ∨ b = 49 ∨ b = 50 ∨ b = 51 ∨ b = 52 ∨ b = 53 ∨ b = 54 ∨ b = 55 ∨ b = 56 ∨ b = 57 := by omega
  rcases this with h | h | h | h | h | h | h | h | h | h <;> subst h <;> decide +kernel

theorem classify_num (c : Nat) (tl : Bytes) (o : Obj) (hs : isNumStart c = true)
    (hp : parseNumber (c :: tl) = some o) : classify (c :: tl) = o := by
  simp [classify, hs, hp]

theorem all_digits (ds : Bytes) (h : ∀ b ∈ ds, 48 ≤ b ∧ b ≤ 57) :
    ds.all (fun c => c == 46 || isDigit c) = true ∧ ds.all isDigit = true ∧ ds.filter (· == 46) = [] := by
  refine ⟨?_, ?_, ?_⟩
  · simp only [List.all_eq_true]
    intro b hb
    simp [(digit_regular b (h b hb).1 (h b hb).2).2.1]
  · simp only [List.all_eq_true]
    intro b hb
    exact (digit_regular b (h b hb).1 (h b hb).2).2.1
  · simp only [List.filter_eq_nil_iff]
    intro b hb
    simp [(digit_regular b (h b hb).1 (h b hb).2).2.2.1]

/-- `parseNumber` on a string of digits whose value fits int64 -/
theorem parseNumber_digits (ds : Bytes) (hne : ds ≠ []) (h : ∀ b ∈ ds, 48 ≤ b ∧ b ≤ 57)
    (hv : digitsVal ds 0 ≤ 9223372036854775807) :
    parseNumber ds = some (.int (Int.ofNat (digitsVal ds 0))) := by
  match ds, hne with
  | d :: tl, _ =>
    obtain ⟨_, k2, k3, k4, k5⟩ := digit_regular d (h d (by simp)).1 (h d (by simp)).2
    obtain ⟨a1, a2, a3⟩ := all_digits (d :: tl) h
    have hd45 : d ≠ 45 := by simpa using k5
    have hd43 : d ≠ 43 := by simpa using k4
    have hpi : parseInt64 (d :: tl) = some (Int.ofNat (digitsVal (d :: tl) 0)) := by
      unfold parseInt64
      simp at a2
      split
      rename_i neg ds heq
      split at heq
      · rename_i h'; simp at h'; exact absurd h'.1 hd45
      · rename_i h'; simp at h'; exact absurd h'.1 hd43
      · simp at heq
        obtain ⟨h1, h2⟩ := heq
        subst h1 h2
        simp [a2]
        exact ⟨a2.2, by omega⟩
    simp [parseNumber, numBody, k4, k5, a1, a3, hpi]

theorem parseNumber_neg_digits (ds : Bytes) (hne : ds ≠ []) (h : ∀ b ∈ ds, 48 ≤ b ∧ b ≤ 57)
    (hv : digitsVal ds 0 ≤ 9223372036854775808) :
    parseNumber (45 :: ds) = some (.int (-(Int.ofNat (digitsVal ds 0)))) := by
  obtain ⟨a1, a2, a3⟩ := all_digits ds h
  have hpi : parseInt64 (45 :: ds) = some (-(Int.ofNat (digitsVal ds 0))) := by
    have hne' : ds.isEmpty = false := by cases ds <;> simp_all
    simp [parseInt64, hne', a2]
    omega
  simp [parseNumber, numBody, a1, a3, hpi]

/-- **Integer round trip**: for every 64-bit integer, the digits the writer emits are a token of
regular bytes which `ScanToken` classifies as that integer. -/
theorem int_tok (i : Int) (hlo : -9223372036854775808 ≤ i) (hhi : i ≤ 9223372036854775807) :
    RegTok (intDec i) (.int i) := by
  rw [intDec_eq]
  by_cases h0 : 0 ≤ i
  · simp only [h0, if_true]
    have hd := digs_digit i.toNat
    have hval := digs_val i.toNat
    have hlt : i.toNat < 10 ^ 19 := by omega
    refine ⟨digs_ne _, fun b hb => (digit_regular b (hd b hb).1 (hd b hb).2).1, ?_, ?_⟩
    · have := digs_length _ hlt
      have : (19 : Nat) ≤ Gen.content_maxNameBytes := by decide +kernel
      omega
    · match hds : digs i.toNat, digs_ne i.toNat with
      | d :: tl, _ =>
        rw [hds] at hd hval
        obtain ⟨_, k2, _⟩ := digit_regular d (hd d (by simp)).1 (hd d (by simp)).2
        have hp := parseNumber_digits (d :: tl) (by simp) hd (by rw [hval]; omega)
        rw [classify_num d tl _ (by simp [isNumStart, k2]) hp, hval]
        have e : Int.ofNat i.toNat = i := Int.toNat_of_nonneg h0
        rw [e]
  · simp only [h0, if_false]
    have hd := digs_digit (-i).toNat
    have hval := digs_val (-i).toNat
    have hlt : (-i).toNat < 10 ^ 19 := by omega
    refine ⟨by simp, ?_, ?_, ?_⟩
    · intro b hb
      simp at hb
      rcases hb with rfl | hb
      · decide +kernel
      · exact (digit_regular b (hd b hb).1 (hd b hb).2).1
    · have := digs_length _ hlt
      have : (20 : Nat) ≤ Gen.content_maxNameBytes := by decide +kernel
      simp; omega
    · have hp := parseNumber_neg_digits (digs (-i).toNat) (digs_ne _) hd (by rw [hval]; omega)
      rw [classify_num 45 _ _ (by decide) hp, hval]
      have e : Int.ofNat (-i).toNat = -i := Int.toNat_of_nonneg (by omega)
      rw [e, Int.neg_neg]

/-- every 64-bit integer operand is a flat operand -/
theorem flatOk_int (i : Int) (hlo : -9223372036854775808 ≤ i) (hhi : i ≤ 9223372036854775807) :
    FlatOk (.int i) := int_tok i hlo hhi

end PdfVerif.C15cntd

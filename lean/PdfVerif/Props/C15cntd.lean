import PdfVerif.Props.C15cnt
/-!
# C15 — integer operands: `strconv.FormatInt` digits scan back as the integer

`Model/Format.lean` writes integers with Lean's `toString : Int → String` (the decimal digits,
as `strconv.FormatInt(x, 10)`; tied to the Go code by the byte-identical `fmt` lines of the
correspondence run).  This file proves, for *every* 64-bit integer, that the content scanner
reads the written token back as that integer (`int_tok`).
-/
namespace PdfVerif.C15cntd
open PdfVerif PdfVerif.CNT PdfVerif.C15cnt

/-! ## Lean's `String.toUTF8` on ASCII strings -/

theorem ba_size (bs : ByteArray) : bs.size = bs.data.toList.length := by
  cases bs with | mk d => simp [ByteArray.size]

theorem ba_get (bs : ByteArray) (i : Nat) (h : i < bs.data.toList.length) : bs.get! i = bs.data.toList[i] := by
  cases bs with | mk d =>
    simp only [ByteArray.get!]
    have : i < d.size := by simpa using h
    simp [getElem!_pos d i this]

theorem ba_loop (bs : ByteArray) : ∀ (k i : Nat) (r : List UInt8), bs.size - i = k → i ≤ bs.size →
    ByteArray.toList.loop bs i r = r.reverse ++ bs.data.toList.drop i := by
  intro k
  induction k with
  | zero =>
    intro i r hk hi
    rw [ByteArray.toList.loop]
    have h1 : ¬ i < bs.size := by omega
    have h2 : bs.data.toList.length ≤ i := by rw [← ba_size]; omega
    rw [if_neg h1, List.drop_eq_nil_of_le h2, List.append_nil]
  | succ k ih =>
    intro i r hk hi
    rw [ByteArray.toList.loop]
    have hlt : i < bs.size := by omega
    rw [if_pos hlt, ih (i+1) _ (by omega) (by omega)]
    have hlt' : i < bs.data.toList.length := by rw [← ba_size]; exact hlt
    rw [List.drop_eq_getElem_cons hlt', ba_get bs i hlt']
    simp

theorem ba_toList (bs : ByteArray) : bs.toList = bs.data.toList := by
  have := ba_loop bs bs.size 0 [] (by omega) (by omega)
  simpa [ByteArray.toList] using this

/-- the UTF-8 bytes of an ASCII string are its character codes -/
theorem utf8_ascii (l : List Char) (h : ∀ c ∈ l, c.toNat < 128) :
    bytesOfString (String.ofList l) = l.map Char.toNat := by
  have e : (String.ofList l).toUTF8 = (l.flatMap String.utf8EncodeChar).toByteArray := by
    simp [String.toUTF8, List.utf8Encode]
  rw [bytesOfString, e, ba_toList, List.toList_data_toByteArray]
  clear e
  induction l with
  | nil => rfl
  | cons c cs ih =>
    have hc : c.toNat < 128 := h c (by simp)
    have hv : c.val.toNat < 128 := hc
    have h1 : c.utf8Size = 1 := by
      simp only [Char.utf8Size]
      have : c.val ≤ 127 := by
        rw [UInt32.le_iff_toNat_le]; simp; omega
      simp [this]
    have := ih (fun d hd => h d (by simp [hd]))
    simp only [List.flatMap_cons, String.utf8EncodeChar_eq_singleton h1, List.map_cons, List.cons_append,
      List.nil_append]
    rw [this]
    congr 1
    show c.val.toUInt8.toNat = c.val.toNat
    rw [UInt32.toNat_toUInt8]
    omega

/-! ## decimal digits -/

/-- the digit bytes of a natural number -/
def digs (n : Nat) : Bytes := (Nat.toDigits 10 n).map Char.toNat

theorem digit_char (c : Char) (h : c.isDigit = true) : 48 ≤ c.toNat ∧ c.toNat ≤ 57 := by
  simp [Char.isDigit, UInt32.le_iff_toNat_le] at h
  exact h

theorem digs_digit (n : Nat) : ∀ b ∈ digs n, 48 ≤ b ∧ b ≤ 57 := by
  intro b hb
  simp [digs] at hb
  obtain ⟨c, hc, rfl⟩ := hb
  exact digit_char c (Nat.isDigit_of_mem_toDigits (by decide) (by decide) hc)

theorem digs_ne (n : Nat) : digs n ≠ [] := by
  simp [digs, Nat.toDigits_ne_nil]

theorem natToDec_eq (n : Nat) : natToDec n = digs n := by
  rw [natToDec, Nat.toString_eq_ofList_toDigits, digs]
  apply utf8_ascii
  intro c hc
  have := digit_char c (Nat.isDigit_of_mem_toDigits (by decide) (by decide) hc)
  omega

theorem digitsVal_eq (l : List Char) : ∀ acc, digitsVal (l.map Char.toNat) acc = Nat.ofDigitChars 10 l acc := by
  induction l with
  | nil => intro acc; simp [digitsVal]
  | cons c cs ih =>
    intro acc
    simp only [List.map_cons, digitsVal, Nat.ofDigitChars_cons, ih]
    congr 1
    simp [Nat.mul_comm]

theorem digs_val (n : Nat) : digitsVal (digs n) 0 = n := by
  rw [digs, digitsVal_eq, Nat.ofDigitChars_ten_toDigits]

theorem digs_length (n : Nat) (h : n < 10 ^ 19) : (digs n).length ≤ 19 := by
  simp only [digs, List.length_map]
  exact (Nat.length_toDigits_le_iff (by decide) (by decide)).mpr h

theorem intToDec_eq (i : Int) : intToDec i = if 0 ≤ i then digs i.toNat else 45 :: digs (-i).toNat := by
  rw [intToDec, Int.toString_eq_repr, Int.repr_eq_if]
  split
  · exact natToDec_eq _
  · have e : "-" ++ (-i).toNat.repr = String.ofList ('-' :: Nat.toDigits 10 (-i).toNat) := by
      apply String.toList_inj.mp
      simp
    rw [e, utf8_ascii]
    · simp [digs]
    · intro c hc
      simp at hc
      rcases hc with rfl | hc
      · decide
      · have := digit_char c (Nat.isDigit_of_mem_toDigits (by decide) (by decide) hc)
        omega

/-! ## the scanner on digit tokens -/

theorem digit_regular : ∀ b, 48 ≤ b → b ≤ 57 → cReg b = true ∧ isDigit b = true ∧ (b == 46) = false ∧
    (b == 43) = false ∧ (b == 45) = false := by
  intro b h1 h2
  have : b = 48 ∨ b = 49 ∨ b = 50 ∨ b = 51 ∨ b = 52 ∨ b = 53 ∨ b = 54 ∨ b = 55 ∨ b = 56 ∨ b = 57 := by omega
  rcases this with h | h | h | h | h | h | h | h | h | h <;> subst h <;> decide +kernel

theorem classify_num (c : Nat) (tl : Bytes) (o : Obj) (hs : isNumStart c = true)
    (hp : parseNumber (c :: tl) = some o) : classify (c :: tl) = o := by
  simp [classify, hs, hp]

theorem all_digits (ds : Bytes) (h : ∀ b ∈ ds, 48 ≤ b ∧ b ≤ 57) :
    ds.all (fun c => c == 46 || isDigit c) = true ∧ ds.all isDigit = true ∧ ds.filter (· == 46) = [] := by
  refine ⟨?_, ?_, ?_⟩
  · simp only [List.all_eq_true]
    intro b hb
    simp [(digit_regular b (h b hb).1 (h b hb).2).2.1]
  · simp only [List.all_eq_true]
    intro b hb
    exact (digit_regular b (h b hb).1 (h b hb).2).2.1
  · simp only [List.filter_eq_nil_iff]
    intro b hb
    simp [(digit_regular b (h b hb).1 (h b hb).2).2.2.1]

/-- `parseNumber` on a string of digits whose value fits int64 -/
theorem parseNumber_digits (ds : Bytes) (hne : ds ≠ []) (h : ∀ b ∈ ds, 48 ≤ b ∧ b ≤ 57)
    (hv : digitsVal ds 0 ≤ 9223372036854775807) :
    parseNumber ds = some (.int (Int.ofNat (digitsVal ds 0))) := by
  match ds, hne with
  | d :: tl, _ =>
    obtain ⟨_, k2, k3, k4, k5⟩ := digit_regular d (h d (by simp)).1 (h d (by simp)).2
    obtain ⟨a1, a2, a3⟩ := all_digits (d :: tl) h
    have hd45 : d ≠ 45 := by simpa using k5
    have hd43 : d ≠ 43 := by simpa using k4
    have hpi : parseInt64 (d :: tl) = some (Int.ofNat (digitsVal (d :: tl) 0)) := by
      unfold parseInt64
      simp at a2
      split
      rename_i neg ds heq
      split at heq
      · rename_i h'; simp at h'; exact absurd h'.1 hd45
      · rename_i h'; simp at h'; exact absurd h'.1 hd43
      · simp at heq
        obtain ⟨h1, h2⟩ := heq
        subst h1 h2
        simp [a2]
        exact ⟨a2.2, by omega⟩
    simp [parseNumber, k4, k5, a1, a3, hpi]

theorem parseNumber_neg_digits (ds : Bytes) (hne : ds ≠ []) (h : ∀ b ∈ ds, 48 ≤ b ∧ b ≤ 57)
    (hv : digitsVal ds 0 ≤ 9223372036854775808) :
    parseNumber (45 :: ds) = some (.int (-(Int.ofNat (digitsVal ds 0)))) := by
  obtain ⟨a1, a2, a3⟩ := all_digits ds h
  have hpi : parseInt64 (45 :: ds) = some (-(Int.ofNat (digitsVal ds 0))) := by
    have hne' : ds.isEmpty = false := by cases ds <;> simp_all
    simp [parseInt64, hne', a2]
    omega
  simp [parseNumber, a1, a3, hpi]

/-- **Integer round trip**: for every 64-bit integer, the digits the writer emits are a token of
regular bytes which `ScanToken` classifies as that integer. -/
theorem int_tok (i : Int) (hlo : -9223372036854775808 ≤ i) (hhi : i ≤ 9223372036854775807) :
    RegTok (intToDec i) (.int i) := by
  rw [intToDec_eq]
  by_cases h0 : 0 ≤ i
  · simp only [h0, if_true]
    have hd := digs_digit i.toNat
    have hval := digs_val i.toNat
    have hlt : i.toNat < 10 ^ 19 := by omega
    refine ⟨digs_ne _, fun b hb => (digit_regular b (hd b hb).1 (hd b hb).2).1, ?_, ?_⟩
    · have := digs_length _ hlt
      have : (19 : Nat) ≤ Gen.content_maxNameBytes := by decide +kernel
      omega
    · match hds : digs i.toNat, digs_ne i.toNat with
      | d :: tl, _ =>
        rw [hds] at hd hval
        obtain ⟨_, k2, _⟩ := digit_regular d (hd d (by simp)).1 (hd d (by simp)).2
        have hp := parseNumber_digits (d :: tl) (by simp) hd (by rw [hval]; omega)
        rw [classify_num d tl _ (by simp [isNumStart, k2]) hp, hval]
        have e : Int.ofNat i.toNat = i := Int.toNat_of_nonneg h0
        rw [e]
  · simp only [h0, if_false]
    have hd := digs_digit (-i).toNat
    have hval := digs_val (-i).toNat
    have hlt : (-i).toNat < 10 ^ 19 := by omega
    refine ⟨by simp, ?_, ?_, ?_⟩
    · intro b hb
      simp at hb
      rcases hb with rfl | hb
      · decide +kernel
      · exact (digit_regular b (hd b hb).1 (hd b hb).2).1
    · have := digs_length _ hlt
      have : (20 : Nat) ≤ Gen.content_maxNameBytes := by decide +kernel
      simp; omega
    · have hp := parseNumber_neg_digits (digs (-i).toNat) (digs_ne _) hd (by rw [hval]; omega)
      rw [classify_num 45 _ _ (by decide) hp, hval]
      have e : Int.ofNat (-i).toNat = -i := Int.toNat_of_nonneg (by omega)
      rw [e, Int.neg_neg]

/-- every 64-bit integer operand is a flat operand -/
theorem flatOk_int (i : Int) (hlo : -9223372036854775808 ≤ i) (hhi : i ≤ 9223372036854775807) :
    FlatOk (.int i) := int_tok i hlo hhi

end PdfVerif.C15cntd

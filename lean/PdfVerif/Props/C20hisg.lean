import PdfVerif.Model.HISSeq
import PdfVerif.Props.C20hisc
import PdfVerif.Props.C20hisd
import PdfVerif.Props.C20hise
import PdfVerif.Props.C20hisf
/-!
# C20 (part 8) — `locate_complete` for LF line starts: every header is recorded

On top of `find_reaches_header` (Props/C20hisf), the loop bookkeeping, for every file and any
number of scan windows:

* (1) `at_of_header_prefix` / `body_of_header_prefix`: whatever prefix of `LF N ws G ws obj rest` a
  window shows, a match at its head IS this header (line start 1, number `N`, generation `G`): a
  truncated header has no other match (`header_unique`, `span_unique`, `body_obj_shape`).
* (2) `at_no_eol` / `body_no_eol`: a match contains no end-of-line byte behind its line-start
  part, so a match in front of a header ends in front of it.
* `find_ok_spec`, `from_struct`, `at_struct`: what an answer of `Find` is.
* **`locLoop_records_header`**, **`locate_records_header`**: the scan loop / `locateObjects` lists
  every header `LF N ws G ws obj` of at most 64 bytes with number, generation and the offset of its
  first digit.  With `C20hise.locateObjects_line_initial` (nothing is listed in the middle of a
  line): the multi-window listing theorem.

Remaining for the full `locate_complete` / `scan_recovers`: (3) exactly once (offsets increase
strictly); (4) the fuel of the model suffices (the statements assume that the scan returns; `.other`
is not excluded); (5) CR, CR LF and empty lines in front of the header (the byte in front of the
LF must not be an EOL byte); the window state after the `%PDF-x.y` match is a hypothesis
(`runeLen_le` is the bound that is needed for it); the lift of `scan_recovers_flat_partial`.
-/
namespace PdfVerif.C20hisg
open PdfVerif PdfVerif.HIS PdfVerif.C20hisc PdfVerif.C20hisd PdfVerif.C20hisf

/-! ## structure of a match -/

theorem from_struct : ∀ (t : Bytes) (i : Nat) (m : Match (Nat × Marker)), matchMarkerFrom i t = some m →
    ∃ j len, m.a = i + j ∧ m.b = i + j + len ∧ j < t.length ∧
      matchMarkerAt (i + j == 0) (t.drop j) = some (len, m.tag.1, m.tag.2) := by
  intro t
  induction t with
  | nil => intro i m h; simp [matchMarkerFrom] at h
  | cons c cs ih =>
    intro i m h
    unfold matchMarkerFrom at h
    split at h
    · rename_i len lead mk hat
      cases h
      exact ⟨0, len, rfl, rfl, by simp, by simpa using hat⟩
    · obtain ⟨j, len, h1, h2, h3, h4⟩ := ih _ _ h
      refine ⟨j + 1, len, by omega, by omega, by simp; omega, ?_⟩
      have : (i + (j + 1) == 0) = (i + 1 + j == 0) := by congr 1; omega
      rw [this]; simpa using h4

/-- what an answer of `Find` is: a leftmost match in some window text at or behind the start -/
theorem find_ok_spec (file : Bytes) : ∀ (fuel : Nat) (w w' : Win) (p l : Nat) (t : Nat × Marker),
    find file matchMarker fuel w = .ok (w', p, l, t) →
    ∃ P cnt m, w.base + w.pos ≤ P ∧ matchMarker ((file.drop P).take cnt) = some m ∧
      p = P + m.a ∧ t = m.tag ∧ w'.base + w'.pos = P + m.b := by
  intro fuel
  induction fuel with
  | zero => intro w w' p l t h; simp [find] at h
  | succ fuel ih =>
    intro w w' p l t h
    unfold find at h
    simp only [] at h
    split at h
    · rename_i m hm
      simp only [Except.ok.injEq, Prod.mk.injEq] at h
      obtain ⟨hw, hp, _, ht⟩ := h
      refine ⟨w.base + w.pos, w.used - w.pos, m, Nat.le_refl _, hm, hp.symm, ht.symm, ?_⟩
      rw [← hw]; simp only []; omega
    · generalize hp' : (if w.used ≥ Gen.his_scanner_regexpOverlap + w.pos + 1 then w.used - Gen.his_scanner_regexpOverlap else w.pos) = pos' at h
      have hge : pos' ≥ w.pos := by
        rw [← hp']; split <;> omega
      split at h
      · cases h
      · obtain ⟨P, cnt, m, hP, hm, h1, h2, h3⟩ := ih _ _ _ _ _ h
        refine ⟨P, cnt, m, ?_, hm, h1, h2, h3⟩
        simp only [Win.refill] at hP
        omega

/-! ## (2) a match contains no end-of-line byte behind its line-start part -/

theorem spanP_all (p : Nat → Bool) : ∀ t : Bytes, ∀ x ∈ (spanP p t).1, p x = true := by
  intro t
  induction t with
  | nil => intro x hx; simp [spanP] at hx
  | cons c cs ih =>
    intro x hx
    unfold spanP at hx
    split at hx
    · rename_i hc
      simp only [List.mem_cons] at hx
      rcases hx with rfl | hx
      · exact hc
      · exact ih x hx
    · simp at hx

theorem isPrefixOf_split : ∀ (p l : Bytes), isPrefixOf p l = true → ∃ r, l = p ++ r := by
  intro p
  induction p with
  | nil => intro l _; exact ⟨l, rfl⟩
  | cons a as ih =>
    intro l h
    cases l with
    | nil => simp [isPrefixOf] at h
    | cons c cs =>
      simp only [isPrefixOf, Bool.and_eq_true, beq_iff_eq] at h
      obtain ⟨r, hr⟩ := ih cs h.2
      exact ⟨r, by rw [hr, h.1]; rfl⟩

/-- the decomposition of a match of the object alternative -/
theorem body_obj_shape (t : Bytes) (len : Nat) (n g : Bytes) (h : matchMarkerBody t = some (len, .obj n g)) :
    ∃ w1 w2 r, t = headerBytes n w1 g w2 ++ r ∧ len = (headerBytes n w1 g w2).length ∧
      n ≠ [] ∧ w1 ≠ [] ∧ g ≠ [] ∧ w2 ≠ [] ∧
      (∀ x ∈ n, isDigit x = true) ∧ (∀ x ∈ g, isDigit x = true) ∧
      (∀ x ∈ w1, isMarkerWS x = true) ∧ (∀ x ∈ w2, isMarkerWS x = true) := by
  unfold matchMarkerBody at h
  have e1 := spanP_eq isDigit t
  have a1 := spanP_all isDigit t
  rcases hs1 : spanP isDigit t with ⟨n', r1⟩
  have e2 := spanP_eq isMarkerWS r1
  have a2 := spanP_all isMarkerWS r1
  rcases hs2 : spanP isMarkerWS r1 with ⟨w1, r2⟩
  have e3 := spanP_eq isDigit r2
  have a3 := spanP_all isDigit r2
  rcases hs3 : spanP isDigit r2 with ⟨g', r3⟩
  have e4 := spanP_eq isMarkerWS r3
  have a4 := spanP_all isMarkerWS r3
  rcases hs4 : spanP isMarkerWS r3 with ⟨w2, r4⟩
  simp only [hs1, hs2, hs3, hs4] at h e1 e2 e3 e4 a1 a2 a3 a4
  have kwl : ∀ (k : Bytes) (x : Marker), x ≠ .obj n g →
      (if (isPrefixOf k t && wordEnd (t.drop k.length)) = true then some (k.length, x) else none)
      = some (len, Marker.obj n g) → False := by
    intro k x hx hk
    split at hk
    · cases hk; exact hx rfl
    · cases hk
  split at h
  · rename_i r hr
    split at hr
    · rename_i hc
      simp only [Bool.and_eq_true, Bool.not_eq_true', List.isEmpty_eq_false_iff] at hc
      cases hr
      cases h
      obtain ⟨r5, hr5⟩ := isPrefixOf_split _ _ hc.1.2
      refine ⟨w1, w2, r5, ?_, ?_, ?_, ?_, ?_, ?_, a1, a3, a2, a4⟩
      · rw [← e1, ← e2, ← e3, ← e4, hr5]; simp [headerBytes, List.append_assoc]
      · simp [headerBytes, kwObj]; omega
      · intro hh; simp [hh] at hc
      · intro hh; simp [hh] at hc
      · intro hh; simp [hh] at hc
      · intro hh; simp [hh] at hc
    · cases hr
  · exfalso
    repeat' (first | (exact kwl _ _ (by intro hh; cases hh) h) | split at h | (cases h; done))
    all_goals first
      | (rename_i hk; cases h; exact kwl _ _ (by intro hh; cases hh) hk)
      | skip

theorem get_of_append_left (a r : Bytes) (j c : Nat) (hj : j < a.length) (h : (a ++ r)[j]? = some c) : c ∈ a := by
  rw [List.getElem?_append_left hj] at h
  exact List.mem_of_getElem? h

theorem body_kw_no_eol (t : Bytes) (len : Nat) (mk : Marker) (h : matchMarkerBody t = some (len, mk))
    (hno : ∀ n g, mk ≠ .obj n g) : ∀ j c, j < len → t[j]? = some c → isEolByte c = false := by
  intro j c hj hc
  unfold matchMarkerBody at h
  rcases hs1 : spanP isDigit t with ⟨n', r1⟩
  rcases hs2 : spanP isMarkerWS r1 with ⟨w1, r2⟩
  rcases hs3 : spanP isDigit r2 with ⟨g', r3⟩
  rcases hs4 : spanP isMarkerWS r3 with ⟨w2, r4⟩
  simp only [hs1, hs2, hs3, hs4] at h
  have kwl : ∀ (k : Bytes) (x : Marker), (∀ y ∈ k, isEolByte y = false) →
      (if (isPrefixOf k t && wordEnd (t.drop k.length)) = true then some (k.length, x) else none)
      = some (len, mk) → isEolByte c = false := by
    intro k x hk hif
    split at hif
    · rename_i hcnd
      simp only [Bool.and_eq_true] at hcnd
      cases hif
      obtain ⟨r, hr⟩ := isPrefixOf_split _ _ hcnd.1
      rw [hr] at hc
      exact hk c (get_of_append_left _ _ _ _ hj hc)
    · cases hif
  split at h
  · rename_i r hr
    split at hr
    · cases hr; cases h; exact absurd rfl (hno _ _)
    · cases hr
  · repeat' (first | (exact kwl _ _ (by decide) h) | split at h | (cases h; done))
    all_goals first
      | (rename_i hk; cases h; exact kwl _ _ (by decide) hk)
      | skip

/-- (2) the group behind the line start contains no end-of-line byte -/
theorem body_no_eol (t : Bytes) (len : Nat) (mk : Marker) (h : matchMarkerBody t = some (len, mk)) :
    ∀ j c, j < len → t[j]? = some c → isEolByte c = false := by
  intro j c hj hc
  cases mk with
  | obj n g =>
    obtain ⟨w1, w2, r, ht, hl, _, _, _, _, hnd, hgd, hw1s, hw2s⟩ := body_obj_shape t len n g h
    rw [ht] at hc
    exact header_no_eol n w1 g w2 hnd hgd hw1s hw2s c (get_of_append_left _ _ _ _ (by omega) hc)
  | xref => exact body_kw_no_eol t len _ h (by intro n g hh; cases hh) j c hj hc
  | trailer => exact body_kw_no_eol t len _ h (by intro n g hh; cases hh) j c hj hc
  | startxref => exact body_kw_no_eol t len _ h (by intro n g hh; cases hh) j c hj hc
  | eof => exact body_kw_no_eol t len _ h (by intro n g hh; cases hh) j c hj hc

/-- the parts of a match at the head of a text: `lead` line-start bytes, then the group -/
theorem at_struct (b : Bool) (t : Bytes) (len lead : Nat) (mk : Marker)
    (h : matchMarkerAt b t = some (len, lead, mk)) :
    lead ≤ 2 ∧ lead ≤ len ∧ matchMarkerBody (t.drop lead) = some (len - lead, mk) := by
  have key : ∀ (k : Nat),
      (matchMarkerBody (t.drop k)).map (fun (x : Nat × Marker) => (k + x.1, k, x.2)) = some (len, lead, mk) →
      lead = k ∧ k ≤ len ∧ matchMarkerBody (t.drop k) = some (len - k, mk) := by
    intro k hx
    cases hb : matchMarkerBody (t.drop k) with
    | none => rw [hb] at hx; cases hx
    | some x =>
      obtain ⟨l, m2⟩ := x
      rw [hb] at hx
      simp only [Option.map, Option.some.injEq, Prod.mk.injEq] at hx
      obtain ⟨h1, h2, h3⟩ := hx
      subst h1 h2 h3
      exact ⟨rfl, by omega, by simp⟩
  unfold matchMarkerAt at h
  simp only [] at h
  split at h
  · rename_i r hr
    split at hr
    · cases h; obtain ⟨h1, h2, h3⟩ := key 2 hr; subst h1; exact ⟨by omega, h2, h3⟩
    · cases hr
  · split at h
    · rename_i r hr
      split at hr
      · cases h; obtain ⟨h1, h2, h3⟩ := key 1 hr; subst h1; exact ⟨by omega, h2, h3⟩
      · cases hr
    · split at h
      · rename_i r hr
        split at hr
        · cases h; obtain ⟨h1, h2, h3⟩ := key 1 hr; subst h1; exact ⟨by omega, h2, h3⟩
        · cases hr
      · split at h
        · obtain ⟨h1, h2, h3⟩ := key 0 h; subst h1; exact ⟨by omega, h2, h3⟩
        · cases h

theorem at_no_eol (b : Bool) (t : Bytes) (len lead : Nat) (mk : Marker)
    (h : matchMarkerAt b t = some (len, lead, mk)) :
    ∀ j c, lead ≤ j → j < len → t[j]? = some c → isEolByte c = false := by
  intro j c h1 h2 hc
  obtain ⟨_, hle, hb⟩ := at_struct b t len lead mk h
  refine body_no_eol _ _ _ hb (j - lead) c (by omega) ?_
  rw [List.getElem?_drop]
  have : lead + (j - lead) = j := by omega
  rw [this]; exact hc

/-! ## (1) the match at a header carries its number and generation, however the window cuts -/

theorem span_unique (p : Nat → Bool) : ∀ (a a' b b' : Bytes), (∀ x ∈ a, p x = true) → (∀ x ∈ a', p x = true) →
    (∃ c r, b = c :: r ∧ p c = false) → (∃ c r, b' = c :: r ∧ p c = false) →
    a ++ b = a' ++ b' → a = a' ∧ b = b' := by
  intro a
  induction a with
  | nil =>
    intro a' b b' _ ha' hb hb' h
    cases a' with
    | nil => exact ⟨rfl, by simpa using h⟩
    | cons x xs =>
      obtain ⟨c, r, rfl, hc⟩ := hb
      simp only [List.nil_append, List.cons_append, List.cons.injEq] at h
      have := ha' x (by simp)
      rw [← h.1, hc] at this; cases this
  | cons y ys ih =>
    intro a' b b' ha ha' hb hb' h
    cases a' with
    | nil =>
      obtain ⟨c, r, rfl, hc⟩ := hb'
      simp only [List.nil_append, List.cons_append, List.cons.injEq] at h
      have := ha y (by simp)
      rw [h.1, hc] at this; cases this
    | cons x xs =>
      simp only [List.cons_append, List.cons.injEq] at h
      obtain ⟨h1, h2⟩ := ih xs b b' (fun z hz => ha z (by simp [hz])) (fun z hz => ha' z (by simp [hz])) hb hb' h.2
      exact ⟨by rw [h.1, h1], h2⟩

theorem ne_head (l : Bytes) (h : l ≠ []) : ∃ c r, l = c :: r := by
  cases l with
  | nil => exact absurd rfl h
  | cons c r => exact ⟨c, r, rfl⟩

/-- two texts `N ws G ws obj …` with a common beginning have the same parts -/
theorem header_unique (n w1 g w2 r n' w1' g' w2' r' : Bytes)
    (hn : n ≠ []) (hw1 : w1 ≠ []) (hg : g ≠ []) (hw2 : w2 ≠ [])
    (hn' : n' ≠ []) (hw1' : w1' ≠ []) (hg' : g' ≠ []) (hw2' : w2' ≠ [])
    (hnd : ∀ x ∈ n, isDigit x = true) (hgd : ∀ x ∈ g, isDigit x = true)
    (hw1s : ∀ x ∈ w1, isMarkerWS x = true) (hw2s : ∀ x ∈ w2, isMarkerWS x = true)
    (hnd' : ∀ x ∈ n', isDigit x = true) (hgd' : ∀ x ∈ g', isDigit x = true)
    (hw1s' : ∀ x ∈ w1', isMarkerWS x = true) (hw2s' : ∀ x ∈ w2', isMarkerWS x = true)
    (h : headerBytes n w1 g w2 ++ r = headerBytes n' w1' g' w2' ++ r') : n = n' ∧ g = g' ∧ w1 = w1' ∧ w2 = w2' := by
  have ws_not_digit : ∀ x, isMarkerWS x = true → isDigit x = false := by
    intro x hx; simp [isMarkerWS] at hx; rcases hx with ((rfl | rfl) | rfl) | rfl <;> decide
  have digit_not_ws : ∀ x, isDigit x = true → isMarkerWS x = false := by
    intro x hx; simp [isDigit] at hx; simp [isMarkerWS]; omega
  have o_not_ws : isMarkerWS 111 = false := by decide
  have e : ∀ (a b c d e' : Bytes), headerBytes a b c d ++ e' = a ++ (b ++ (c ++ (d ++ (kwObj ++ e')))) := by
    intro a b c d e'; simp [headerBytes, List.append_assoc]
  rw [e, e] at h
  obtain ⟨c1, t1, e1⟩ := ne_head w1 hw1
  obtain ⟨c1', t1', e1'⟩ := ne_head w1' hw1'
  obtain ⟨s1, s2⟩ := span_unique isDigit n n' _ _ hnd hnd'
    ⟨c1, t1 ++ (g ++ (w2 ++ (kwObj ++ r))), by rw [e1]; rfl, ws_not_digit c1 (hw1s c1 (by simp [e1]))⟩
    ⟨c1', t1' ++ (g' ++ (w2' ++ (kwObj ++ r'))), by rw [e1']; rfl, ws_not_digit c1' (hw1s' c1' (by simp [e1']))⟩ h
  obtain ⟨c2, t2, e2⟩ := ne_head g hg
  obtain ⟨c2', t2', e2'⟩ := ne_head g' hg'
  obtain ⟨s3, s4⟩ := span_unique isMarkerWS w1 w1' _ _ hw1s hw1s'
    ⟨c2, t2 ++ (w2 ++ (kwObj ++ r)), by rw [e2]; rfl, digit_not_ws c2 (hgd c2 (by simp [e2]))⟩
    ⟨c2', t2' ++ (w2' ++ (kwObj ++ r')), by rw [e2']; rfl, digit_not_ws c2' (hgd' c2' (by simp [e2']))⟩ s2
  obtain ⟨c3, t3, e3⟩ := ne_head w2 hw2
  obtain ⟨c3', t3', e3'⟩ := ne_head w2' hw2'
  obtain ⟨s5, s6⟩ := span_unique isDigit g g' _ _ hgd hgd'
    ⟨c3, t3 ++ (kwObj ++ r), by rw [e3]; rfl, ws_not_digit c3 (hw2s c3 (by simp [e3]))⟩
    ⟨c3', t3' ++ (kwObj ++ r'), by rw [e3']; rfl, ws_not_digit c3' (hw2s' c3' (by simp [e3']))⟩ s4
  obtain ⟨s7, _⟩ := span_unique isMarkerWS w2 w2' _ _ hw2s hw2s'
    ⟨111, [98, 106] ++ r, by simp [kwObj], o_not_ws⟩ ⟨111, [98, 106] ++ r', by simp [kwObj], o_not_ws⟩ s6
  exact ⟨s1, s5, s3, s7⟩

/-- a keyword match starts with a byte that is not a digit -/
theorem body_kw_head (t : Bytes) (len : Nat) (mk : Marker) (h : matchMarkerBody t = some (len, mk))
    (hno : ∀ n g, mk ≠ .obj n g) : ∃ c r, t = c :: r ∧ isDigit c = false := by
  unfold matchMarkerBody at h
  rcases hs1 : spanP isDigit t with ⟨n', r1⟩
  rcases hs2 : spanP isMarkerWS r1 with ⟨w1, r2⟩
  rcases hs3 : spanP isDigit r2 with ⟨g', r3⟩
  rcases hs4 : spanP isMarkerWS r3 with ⟨w2, r4⟩
  simp only [hs1, hs2, hs3, hs4] at h
  have kwl : ∀ (k : Bytes) (x : Marker), (∃ c r, k = c :: r ∧ isDigit c = false) →
      (if (isPrefixOf k t && wordEnd (t.drop k.length)) = true then some (k.length, x) else none)
      = some (len, mk) → ∃ c r, t = c :: r ∧ isDigit c = false := by
    intro k x hk hif
    split at hif
    · rename_i hcnd
      simp only [Bool.and_eq_true] at hcnd
      obtain ⟨r, hr⟩ := isPrefixOf_split _ _ hcnd.1
      obtain ⟨c, kr, rfl, hc⟩ := hk
      exact ⟨c, kr ++ r, by rw [hr]; rfl, hc⟩
    · cases hif
  split at h
  · rename_i r hr
    split at hr
    · cases hr; cases h; exact absurd rfl (hno _ _)
    · cases hr
  · repeat' (first | (exact kwl _ _ ⟨_, _, rfl, by decide⟩ h) | split at h | (cases h; done))
    all_goals first
      | (rename_i hk; cases h; exact kwl _ _ ⟨_, _, rfl, by decide⟩ hk)
      | skip

/-- (1) whatever prefix of `N ws G ws obj rest` a window shows: if the group matches, it is this header -/
theorem body_of_header_prefix (n w1 g w2 rest : Bytes)
    (hn : n ≠ []) (hw1 : w1 ≠ []) (hg : g ≠ []) (hw2 : w2 ≠ [])
    (hnd : ∀ x ∈ n, isDigit x = true) (hgd : ∀ x ∈ g, isDigit x = true)
    (hw1s : ∀ x ∈ w1, isMarkerWS x = true) (hw2s : ∀ x ∈ w2, isMarkerWS x = true)
    (i l : Nat) (mk : Marker)
    (h : matchMarkerBody ((headerBytes n w1 g w2 ++ rest).take i) = some (l, mk)) :
    mk = .obj n g ∧ l = (headerBytes n w1 g w2).length := by
  have hsplit := List.take_append_drop i (headerBytes n w1 g w2 ++ rest)
  have kwcase : (∀ n' g', mk ≠ .obj n' g') → False := by
    intro hno
    obtain ⟨c, r, hc, hcd⟩ := body_kw_head _ _ _ h hno
    obtain ⟨d, nt, hd⟩ := ne_head n hn
    rw [hc] at hsplit
    have : (headerBytes n w1 g w2 ++ rest) = d :: (nt ++ w1 ++ g ++ w2 ++ kwObj ++ rest) := by
      rw [hd]; simp [headerBytes, List.append_assoc]
    rw [this] at hsplit
    simp only [List.cons_append, List.cons.injEq] at hsplit
    have := hnd d (by simp [hd])
    rw [← hsplit.1, hcd] at this; cases this
  cases mk with
  | obj n' g' =>
    obtain ⟨w1', w2', r, ht, hl, hn', hw1', hg', hw2', hnd', hgd', hw1s', hw2s'⟩ := body_obj_shape _ _ _ _ h
    rw [ht, List.append_assoc] at hsplit
    obtain ⟨e1, e2, e3, e4⟩ := header_unique n w1 g w2 rest n' w1' g' w2' _ hn hw1 hg hw2 hn' hw1' hg' hw2'
      hnd hgd hw1s hw2s hnd' hgd' hw1s' hw2s' hsplit.symm
    subst e1 e2 e3 e4
    exact ⟨rfl, hl⟩
  | xref => exact absurd (fun n' g' hh => by cases hh) (fun x => kwcase x)
  | trailer => exact absurd (fun n' g' hh => by cases hh) (fun x => kwcase x)
  | startxref => exact absurd (fun n' g' hh => by cases hh) (fun x => kwcase x)
  | eof => exact absurd (fun n' g' hh => by cases hh) (fun x => kwcase x)

theorem body_lf_none (x : Bytes) : matchMarkerBody (10 :: x) = none := by
  simp [matchMarkerBody, spanP, isDigit, isPrefixOf, kwXref, kwTrailer, kwStartxref, kwEOF]

/-- (1) a match at the head of any prefix of `LF N ws G ws obj rest` is this header with its LF -/
theorem at_of_header_prefix (n w1 g w2 rest : Bytes)
    (hn : n ≠ []) (hw1 : w1 ≠ []) (hg : g ≠ []) (hw2 : w2 ≠ [])
    (hnd : ∀ x ∈ n, isDigit x = true) (hgd : ∀ x ∈ g, isDigit x = true)
    (hw1s : ∀ x ∈ w1, isMarkerWS x = true) (hw2s : ∀ x ∈ w2, isMarkerWS x = true)
    (b : Bool) (j len lead : Nat) (mk : Marker)
    (h : matchMarkerAt b ((10 :: (headerBytes n w1 g w2 ++ rest)).take j) = some (len, lead, mk)) :
    lead = 1 ∧ mk = .obj n g ∧ len = 1 + (headerBytes n w1 g w2).length := by
  cases j with
  | zero =>
    exfalso
    cases b <;> simp [matchMarkerAt, matchMarkerBody, spanP, isPrefixOf, kwXref, kwTrailer, kwStartxref, kwEOF] at h
  | succ j =>
    simp only [List.take_succ_cons] at h
    have hlf := body_lf_none ((headerBytes n w1 g w2 ++ rest).take j)
    simp only [matchMarkerAt, List.drop_succ_cons, List.drop_zero, hlf, Option.map_none] at h
    cases hb : matchMarkerBody ((headerBytes n w1 g w2 ++ rest).take j) with
    | none =>
      rw [hb] at h
      cases b <;> simp at h
    | some x =>
      obtain ⟨l, m2⟩ := x
      rw [hb] at h
      simp only [Option.map_some, Option.some.injEq, Prod.mk.injEq] at h
      obtain ⟨h1, h2, h3⟩ := h
      obtain ⟨e1, e2⟩ := body_of_header_prefix n w1 g w2 rest hn hw1 hg hw2 hnd hgd hw1s hw2s j l m2 hb
      exact ⟨h2.symm, by rw [← h3]; exact e1, by omega⟩

/-! ## the scan loop records every header -/

theorem win_get (file : Bytes) (P cnt j i c : Nat)
    (h : (((file.drop P).take cnt).drop j)[i]? = some c) : file[P + j + i]? = some c := by
  rw [List.getElem?_drop, List.getElem?_take] at h
  split at h
  · rw [List.getElem?_drop] at h
    have : P + (j + i) = P + j + i := by omega
    rw [this] at h; exact h
  · cases h

theorem win_drop (file : Bytes) (P cnt j : Nat) :
    ((file.drop P).take cnt).drop j = (file.drop (P + j)).take (cnt - j) := by
  rw [List.drop_take, List.drop_drop]

/-- **The scan loop records every line-initial header of at most 64 bytes** — for every file,
every window state at or before the header, any number of windows: if the loop comes to an end
(`locLoop … = .ok`), the header `LF N ws G ws obj` at offset `a` is among the recorded objects with
its number, generation and the offset `a + 1` of its first digit.
Hypotheses: the bound `1 + |N|+|ws|+|G|+|ws|+3 ≤ 64`; number `< maxXRefSize`, generation `< 65536`
(the code's limits); the byte in front of the LF is not itself an end-of-line byte (LF line
starts as the Writer emits them; CR, CR LF and empty lines in front are the remaining point 5). -/
theorem locLoop_records_header (file : Bytes) (a : Nat) (n w1 g w2 rest : Bytes) (h : HeaderAt file a n w1 g w2 rest)
    (hk : 1 + (headerBytes n w1 g w2).length ≤ Gen.his_scanner_regexpOverlap)
    (hprev : a = 0 ∨ ∃ c, file[a - 1]? = some c ∧ isEolByte c = false)
    (hnv : digitsVal n 0 < Gen.his_xref_maxXRefSize) (hgv : digitsVal g 0 < 65536) :
    ∀ (fuel : Nat) (w : Win) (s sfin : LocState) (wfin : Win), Inv file w → w.base + w.pos ≤ a → WF s →
    locLoop file fuel w s = .ok (sfin, wfin) →
    ({ num := digitsVal n 0, gen := digitsVal g 0, start := a + 1 } : FileObject) ∈ allObjs sfin := by
  have hfa : file[a]? = some 10 := by
    have : (file.drop a)[0]? = some 10 := by rw [h.eq]; rfl
    rw [List.getElem?_drop] at this; simpa using this
  intro fuel
  induction fuel with
  | zero => intro w s sfin wfin _ _ _ hl; simp [locLoop] at hl
  | succ fuel ih =>
    intro w s sfin wfin hi hP hw hloop
    unfold locLoop at hloop
    rcases find_reaches_header file a n w1 g w2 rest h hk (file.length + 8) w hi hP with hoth | ⟨w', p, l, t, hf, hpa, hi'⟩
    · rw [hoth] at hloop; cases hloop
    · obtain ⟨lead, mk⟩ := t
      rw [hf] at hloop
      simp only [] at hloop
      obtain ⟨P, cnt, m, hPge, hm, hp, htag, hend⟩ := find_ok_spec file _ _ _ _ _ _ hf
      obtain ⟨j, len, hja, hjb, hjl, hat⟩ := from_struct _ 0 m hm
      simp only [Nat.zero_add] at hja hjb hat
      have htl : m.tag.1 = lead ∧ m.tag.2 = mk := by rw [← htag]; exact ⟨rfl, rfl⟩
      rw [htl.1, htl.2] at hat
      obtain ⟨hlenle, _, hleadpos⟩ := at_props _ _ _ _ _ hat
      by_cases hpeq : p = a
      · -- the match at the header's LF is the header
        have hdrop : ((file.drop P).take cnt).drop j = (10 :: (headerBytes n w1 g w2 ++ rest)).take (cnt - j) := by
          rw [win_drop, ← h.eq]; congr 2; omega
        rw [hdrop] at hat
        obtain ⟨e1, e2, _⟩ := at_of_header_prefix n w1 g w2 rest h.hn h.hw1 h.hg h.hw2 h.hnd h.hgd h.hw1s h.hw2s _ _ _ _ _ hat
        subst e1 e2 hpeq
        have hli : lineInitial file p 1 = true := by simp [lineInitial]
        simp only [hli, if_true] at hloop
        have hw' := wf_locStep s (p + 1) (.obj n g) hw
        have hrec := (locStep_records s (p + 1) n g hnv hgv).1
        have hmem : ({ num := digitsVal n 0, gen := digitsVal g 0, start := p + 1 } : FileObject)
            ∈ allObjs (locStep s (p + 1) (.obj n g)) := by
          unfold allObjs
          apply List.mem_append_right
          cases hc : (locStep s (p + 1) (.obj n g)).cur.objects with
          | nil => rw [hc] at hrec; simp at hrec
          | cons x xs => rw [hc] at hrec; simp at hrec; rw [hrec]; simp
        exact (locLoop_mono _ _ _ _ _ _ hw' hloop).1 _ hmem
      · -- a match in front of the header ends in front of it
        have hplt : p < a := by omega
        have hnext : w'.base + w'.pos ≤ a := by
          rw [hend, hjb]
          by_cases hover : P + (j + len) ≤ a
          · exact hover
          · exfalso
            have hidx : a - p < len := by omega
            have hin : a - p < (((file.drop P).take cnt).drop j).length := by omega
            obtain ⟨c, hc⟩ : ∃ c, (((file.drop P).take cnt).drop j)[a - p]? = some c :=
              ⟨_, List.getElem?_eq_getElem hin⟩
            have hfc := win_get file P cnt j (a - p) c hc
            have hpa' : P + j + (a - p) = a := by omega
            rw [hpa', hfa] at hfc
            cases hfc
            by_cases hl : lead ≤ a - p
            · have := at_no_eol _ _ _ _ _ hat (a - p) 10 hl hidx hc
              simp [isEolByte] at this
            · -- the LF of the header would be the second byte of the match's line start
              have hl0 : lead > 0 := by omega
              obtain ⟨c0, hc0, hc0e⟩ := hleadpos hl0
              have hf0 := win_get file P cnt j 0 c0 hc0
              have hl2 := (at_struct _ _ _ _ _ hat).1
              have hpa1 : P + j + 0 = a - 1 := by omega
              rw [hpa1] at hf0
              rcases hprev with h0 | ⟨c1, hc1, hc1e⟩
              · omega
              · rw [hc1] at hf0; cases hf0; rw [hc0e] at hc1e; cases hc1e
        have hw' : WF (if lineInitial file p lead = true then locStep s (p + lead) mk else s) := by
          split
          · exact wf_locStep s _ _ hw
          · exact hw
        exact ih w' _ sfin wfin hi' hnext hw' hloop

/-! ## from the first `Find` of `locateObjects` -/

theorem runeLen_le : ∀ t : Bytes, runeLen t ≤ t.length := by
  intro t
  cases t with
  | nil => simp [runeLen]
  | cons c rest =>
    unfold runeLen
    simp only []
    repeat' split
    all_goals (simp only [List.length_cons]; omega)

/-- **`locate_complete` for LF line starts (every header is listed), `locateObjects` level**: if the
scan returns a listing, it contains every header `LF N ws G ws obj` of at most 64 bytes that lies
behind the `%PDF-x.y` match, with number, generation and the offset of its first digit — for any
file length, i.e. any number of scan windows.  With `C20hise.locateObjects_line_initial` (nothing
is listed in the middle of a line) this is the multi-window listing theorem.
Still open (named in notes/C20.md): the window state `w0` after the header match is taken as a
hypothesis with its invariant (`runeLen_le` is the missing bound for `startRegexp`); "exactly
once" (3); the sufficiency of the model's fuel (4: the statement assumes that the scan returns);
CR / CR LF / empty-line line starts (5). -/
theorem locate_records_header (file : Bytes) (a : Nat) (n w1 g w2 rest : Bytes) (h : HeaderAt file a n w1 g w2 rest)
    (hk : 1 + (headerBytes n w1 g w2).length ≤ Gen.his_scanner_regexpOverlap)
    (hprev : a = 0 ∨ ∃ c, file[a - 1]? = some c ∧ isEolByte c = false)
    (hnv : digitsVal n 0 < Gen.his_xref_maxXRefSize) (hgv : digitsVal g 0 < 65536)
    (w0 : Win) (p0 l0 : Nat) (v0 : Bytes)
    (hfirst : find file matchStart (file.length + 8) { base := 0, pos := 0, used := 0 } = .ok (w0, p0, l0, v0))
    (hinv : Inv file w0) (hstart : w0.base + w0.pos ≤ a)
    (loc : Located) (hloc : locateObjects file = .ok loc) :
    ({ num := digitsVal n 0, gen := digitsVal g 0, start := a + 1 } : FileObject)
      ∈ loc.sections.flatMap (·.objects) := by
  unfold locateObjects at hloc
  rw [hfirst] at hloc
  simp only [] at hloc
  split at hloc
  · cases hloc
  · rename_i s w hloop
    have hw0 : WF ({ done := [], cur := {}, used := false, inTrailer := false } : LocState) := by intro _; rfl
    have hmem := locLoop_records_header file a n w1 g w2 rest h hk hprev hnv hgv _ _ _ _ _ hinv hstart hw0 hloop
    have hwf := (locLoop_mono file _ _ _ _ _ hw0 hloop).2
    have hfin := mem_finish s hwf _ hmem
    split at hloc
    · cases hloc
    · cases hloc
      simp only [List.mem_flatMap, List.mem_reverse]
      unfold allObjs at hfin
      have hc : s.finish.cur.objects = [] := by unfold LocState.finish; rfl
      rw [hc, List.append_nil, List.mem_flatMap] at hfin
      exact hfin

-- non-vacuity: the two-window file of C20hisf (header `12 0 obj`, LF at 1019, first window ends at
-- 1024): all hypotheses of `locate_records_header` hold
example : ∃ w0 p0 l0 v0,
    find C20hisf.exFile matchStart (C20hisf.exFile.length + 8) { base := 0, pos := 0, used := 0 } = .ok (w0, p0, l0, v0)
    ∧ Inv C20hisf.exFile w0 ∧ w0.base + w0.pos ≤ 1019
    ∧ (∃ c, C20hisf.exFile[1019 - 1]? = some c ∧ isEolByte c = false)
    ∧ digitsVal [49, 50] 0 < Gen.his_xref_maxXRefSize ∧ digitsVal [48] 0 < 65536 := by
  refine ⟨{ base := 0, pos := 9, used := 1024 }, 0, 9, [49, 46, 55], ?_, ?_, by decide, ⟨120, by decide +kernel, by decide⟩, by decide, by decide⟩
  · have : (match find C20hisf.exFile matchStart (C20hisf.exFile.length + 8) { base := 0, pos := 0, used := 0 } with
        | .ok (w, p, l, v) => w == { base := 0, pos := 9, used := 1024 } && p == 0 && l == 9 && v == [49, 46, 55]
        | .error _ => false) = true := by decide +kernel
    split at this
    · rename_i w p l v heq
      simp only [Bool.and_eq_true, beq_iff_eq] at this
      obtain ⟨⟨⟨h1, h2⟩, h3⟩, h4⟩ := this
      rw [heq, h1, h2, h3, h4]
    · cases this
  · exact ⟨by decide, by decide, by decide +kernel, fun hlt => absurd hlt (by decide)⟩

end PdfVerif.C20hisg

import PdfVerif.Props.C11cpyb
/-!
C11 (continued) — programs of Copy/CopyReference/Redirect calls (`run_consistent`), the
independent characterisation of `Resolve` (`resolve_spec`), and a concrete cyclic graph that
instantiates the theorems (non-vacuity).
-/
namespace PdfVerif.C11cpyc
open PdfVerif PdfVerif.CPY PdfVerif.C11cpy PdfVerif.C11cpyb

/-! ### programs: sequences of Copy / CopyReference / Redirect -/

/-- reachability that does not look behind redirected references -/
inductive ReachA (G : Graph) (Rd : List Ref) (r : Ref) : Ref → Prop where
  | root : ReachA G Rd r r
  | step {a b : Ref} : ReachA G Rd r a → ¬ Exempt G Rd a → b ∈ specRefs G a → ReachA G Rd r b

/-- In a consistent state the translated part of the source is closed: everything reachable
from a translated reference is translated, written, and the image of its source. -/
theorem consistent_reach {G : Graph} {Rd : List Ref} {s : St} (hc : Consistent G Rd s) {r t : Ref}
    (hr : assoc r s.trans = some t) :
    ∀ b, ReachA G Rd r b → ∃ t', assoc b s.trans = some t' ∧
      (¬ Exempt G Rd b → ∃ v, assoc t' s.puts = some v ∧ Image s.trans G b v) := by
  intro b hb
  induction hb with
  | root => exact ⟨t, hr, fun hn => hc.2.2 r t (assoc_some_mem _ _ _ hr) hn⟩
  | @step a b _ hna hmem ih =>
    obtain ⟨ta, _, hia⟩ := ih
    obtain ⟨va, _, sv, sp, h1, h2, h3⟩ := hia hna
    have hb : b ∈ valRefs sp := by simpa [specRefs, h1, h2] using hmem
    obtain ⟨tb, htb⟩ := mapVal_refs h3 b hb
    exact ⟨tb, htb, fun hn => hc.2.2 b tb (assoc_some_mem _ _ _ htb) hn⟩

theorem allocPut_ok {s s' : St} {v : Val} {n : Ref} (h : allocPut s v = .ok (n, s')) :
    n = refOf s.next ∧ s'.trans = s.trans ∧ s'.puts = s.puts ++ [(n, v)] ∧ s'.next = s.next + 1 := by
  unfold allocPut at h
  split at h
  · cases h
  · next n1 s1 ha =>
    obtain ⟨hn, hs1⟩ := alloc_ok ha
    split at h
    · cases h
    · next s2 hp =>
      cases h
      have := put_ok hp
      subst hn; subst hs1; subst this
      simp only [refOf, true_and]
      exact ite_self _

theorem allocPut_consistent {G : Graph} {Rd : List Ref} {s s' : St} {v : Val} {n : Ref}
    (hc : Consistent G Rd s) (h : allocPut s v = .ok (n, s')) : Consistent G Rd s' := by
  obtain ⟨hn, ht, hp, hx⟩ := allocPut_ok h
  obtain ⟨c1, c2, c3⟩ := hc
  have hfresh : n ∉ s.puts.map Prod.fst := by
    intro hin; have := c2 n hin; rw [hn] at this; simp [refOf] at this
  refine ⟨?_, ?_, ?_⟩
  · rw [hp, List.map_append, List.nodup_append]
    refine ⟨c1, by simp, ?_⟩
    intro a ha b hb hab
    simp only [List.map_cons, List.map_nil, List.mem_singleton] at hb
    subst hab; subst hb; exact hfresh ha
  · intro k hk
    rw [hp, List.map_append, List.mem_append] at hk
    rcases hk with hk | hk
    · have := c2 k hk; omega
    · simp only [List.map_cons, List.map_nil, List.mem_singleton] at hk
      subst hk; rw [hn, hx]; simp [refOf]
  · intro src t hm hr
    rw [ht] at hm ⊢
    obtain ⟨w, hw, him⟩ := c3 src t hm hr
    refine ⟨w, ?_, him⟩
    rw [hp, assoc_append, hw]

theorem filter_ne_of_not_mem (r : Ref) (tr : List (Ref × Ref)) (h : assoc r tr = none) :
    tr.filter (fun p => p.1 ≠ r) = tr := by
  rw [List.filter_eq_self]
  intro p hp
  have := (assoc_none_iff r tr).mp h
  simp only [ne_eq, decide_not, Bool.not_eq_eq_eq_not, Bool.not_true, decide_eq_false_iff_not]
  intro e
  exact this (List.mem_map.mpr ⟨p, hp, e⟩)

/-- `Redirect(r, n)` before `r` has been copied keeps the state consistent; `r` joins the
    redirected references (whose target object is the caller's business). -/
theorem redirect_consistent {G : Graph} {Rd : List Ref} {s : St} (hc : Consistent G Rd s) (r n : Ref)
    (hfresh : assoc r s.trans = none) : Consistent G (r :: Rd) (redirect s r n) := by
  obtain ⟨c1, c2, c3⟩ := hc
  have htr : (redirect s r n).trans = (r, n) :: s.trans := by
    show (r, n) :: s.trans.filter (fun p => p.1 ≠ r) = (r, n) :: s.trans
    rw [filter_ne_of_not_mem r s.trans hfresh]
  have hext : Extends s.trans ((r, n) :: s.trans) :=
    extends_append [(r, n)] s.trans (by simpa using hfresh)
  refine ⟨c1, c2, ?_⟩
  intro src t hm hr
  rw [htr] at hm ⊢
  have hr2 : ¬ Exempt G Rd src := by
    rintro (h | ⟨x, hx, hl⟩)
    · exact hr (Or.inl (List.mem_cons_of_mem _ h))
    · exact hr (Or.inr ⟨x, List.mem_cons_of_mem _ hx, hl⟩)
  rcases List.mem_cons.mp hm with e | e
  · cases e; exact absurd (Or.inl List.mem_cons_self) hr
  · obtain ⟨w, hw, him⟩ := c3 src t e hr2
    exact ⟨w, hw, Image_stable hext G src w him⟩

/-- after `Redirect(r, n)`, `CopyReference(r)` answers `n` and writes nothing -/
theorem redirect_respected (G : Graph) (s : St) (r n : Ref) (f : Nat) :
    copyRef (f + 1) G (redirect s r n) r = .ok (n, redirect s r n) := by
  apply copy_known
  simp [redirect, setTrans, assoc]

def opRedirect : Op → List Ref
  | .redirectNew r _ => [r]
  | .redirectTo r _ => [r]
  | _ => []

theorem exempt_append {G : Graph} {Rd : List Ref} (l : List Ref) {src : Ref}
    (h : ¬ Exempt G (l ++ Rd) src) : ¬ Exempt G Rd src := by
  rintro (h' | ⟨x, hx, hl⟩)
  · exact h (Or.inl (List.mem_append_right _ h'))
  · exact h (Or.inr ⟨x, List.mem_append_right _ hx, hl⟩)

theorem stepOp_consistent {G : Graph} (hL : LinkInv G) {fuel : Nat} {Rd : List Ref} {s s' : St} {roots : List Ref}
    {op : Op} {t : Ref} (hc : Consistent G Rd s)
    (hfresh : ∀ r ∈ opRedirect op, assoc r s.trans = none)
    (h : stepOp fuel G s roots op = .ok (t, s')) : Consistent G (opRedirect op ++ Rd) s' := by
  cases op with
  | copyRef r =>
    simp only [stepOp] at h
    exact copyRef_consistent hL hc h
  | copyGet r =>
    simp only [stepOp] at h
    split at h
    · cases h
    · next v hv =>
      split at h
      · cases h
      · next v' s1 hc1 =>
        exact allocPut_consistent (Eff.consistent' hL hc ((copy_main G fuel).2.2.2.2.2.1 _ _ _ _ hc1).1
          ((alias_main G hL fuel).2.2.2.2.2.1 _ _ _ _ hc1)) h
  | copyObj o =>
    simp only [stepOp] at h
    split at h
    · cases h
    · next o' s1 hc1 =>
      exact allocPut_consistent (Eff.consistent' hL hc ((copy_main G fuel).1 _ _ _ _ hc1).1
        ((alias_main G hL fuel).1 _ _ _ _ hc1)) h
  | redirectNew r m =>
    simp only [stepOp] at h
    split at h
    · cases h
    · next n s1 ha =>
      have hc1 := allocPut_consistent hc ha
      have ht := (allocPut_ok ha).2.1
      have := redirect_consistent hc1 r n (by rw [ht]; exact hfresh r (by simp [opRedirect]))
      cases h
      exact this
  | redirectTo r k =>
    simp only [stepOp] at h
    split at h
    · cases h
    · next t' ht =>
      have := redirect_consistent hc r t' (hfresh r (by simp [opRedirect]))
      cases h
      exact this

/-- every `Redirect` of the run is applied to a source reference that has not been translated -/
def RedirectsFresh (fuel : Nat) (G : Graph) : St → List Ref → List Op → Prop
  | _, _, [] => True
  | s, roots, op :: ops =>
    (∀ r ∈ opRedirect op, assoc r s.trans = none) ∧
    match stepOp fuel G s roots op with
    | .ok (t, s') => RedirectsFresh fuel G s' (roots ++ [t]) ops
    | .error _ => True

def redirectsOf : List Op → List Ref
  | [] => []
  | op :: ops => redirectsOf ops ++ opRedirect op

/-- **run_consistent.**  Any program of `Copy`, `CopyReference` and (fresh) `Redirect` calls on a
new `Copier` that runs without error leaves a consistent state. -/
theorem run_consistent {G : Graph} (hL : LinkInv G) {fuel : Nat} :
    ∀ (ops : List Op) (Rd : List Ref) (s : St) (roots roots' : List Ref) (s' : St),
      Consistent G Rd s → RedirectsFresh fuel G s roots ops →
      runOps fuel G s roots ops = .ok (roots', s') → Consistent G (redirectsOf ops ++ Rd) s'
  | [], Rd, s, roots, roots', s', hc, _, h => by
    simp only [runOps] at h; cases h; simpa [redirectsOf] using hc
  | op :: ops, Rd, s, roots, roots', s', hc, hf, h => by
    simp only [runOps] at h
    simp only [RedirectsFresh] at hf
    split at h
    · cases h
    · next t s1 hs =>
      rw [hs] at hf
      have hc1 := stepOp_consistent hL hc hf.1 hs
      have := run_consistent hL ops _ s1 _ roots' s' hc1 hf.2 h
      simpa [redirectsOf, List.append_assoc] using this


/-! ### which streams are decrypted: the object's encryption state, never its /Type -/

theorem kvLookup_kvSet_ne {k k' : Bytes} (h : k ≠ k') (v : Obj) :
    ∀ d : KV, kvLookup k (kvSet k' v d) = kvLookup k d
  | [] => by simp [kvSet, kvLookup, Ne.symm h]
  | (a, w) :: rest => by
    simp only [kvSet]
    split
    · next e => subst e; simp [kvLookup, Ne.symm h]
    · next e => simp only [kvLookup]; split <;> simp [kvLookup_kvSet_ne h v rest]

/-- a stream the Reader hands out without a decryption filter (unencrypted file, or the
    catalog's /Metadata stream of a file with /EncryptMetadata false — the only exempt one) is
    copied verbatim -/
theorem recipe_unencrypted (G : Graph) (d : KV) : streamCryptRecipe G d false = .ok .none := by
  simp [streamCryptRecipe]

/-- **recipe_ignores_type.**  Whether (and how) a stream is decrypted does not depend on its
    /Type entry: a stream with /Type /Metadata that is not the catalog's is decrypted like any
    other stream. -/
theorem recipe_ignores_type (G : Graph) (d : KV) (enc : Bool) (v : Obj) :
    streamCryptRecipe G (kvSet keyType v d) enc = streamCryptRecipe G d enc := by
  have h1 : keyFilter ≠ keyType := by decide
  have h2 : keyDecodeParms ≠ keyType := by decide
  simp only [streamCryptRecipe, getFilterKinds, kvLookup_kvSet_ne h1, kvLookup_kvSet_ne h2]


/-! ### `Resolve` follows chains of references to their end (independent characterisation) -/

/-- `Follows G r k v`: starting at `r`, after `k` further hops through objects that are
    themselves references, the chain ends at the non-reference value `v`. -/
inductive Follows (G : Graph) : Ref → Nat → Val → Prop where
  | last {r : Ref} {v : Val} : CPY.get G r true = .ok v → ¬ IsRef v → Follows G r 0 v
  | next {r : Ref} {n g k : Nat} {v : Val} :
      CPY.get G r true = .ok (.obj (.ref n g)) → Follows G (n, g) k v → Follows G r (k+1) v

theorem Follows.det {G : Graph} {r : Ref} {k k' : Nat} {v v' : Val}
    (h : Follows G r k v) (h' : Follows G r k' v') : k = k' ∧ v = v' := by
  induction h generalizing k' v' with
  | last hg hn =>
    cases h' with
    | last hg' _ => rw [hg] at hg'; cases hg'; exact ⟨rfl, rfl⟩
    | next hg' _ => rw [hg] at hg'; cases hg'; exact absurd trivial hn
  | next hg _ ih =>
    cases h' with
    | last hg' hn' => rw [hg] at hg'; cases hg'; exact absurd trivial hn'
    | next hg' hf' =>
      rw [hg] at hg'; cases hg'
      obtain ⟨e1, e2⟩ := ih hf'
      exact ⟨by omega, e2⟩

/-- soundness of the loop w.r.t. the chain relation: a chain of at most `d` references, none of
    them on the path so far, is followed to its end -/
theorem resolveLoop_of_follows {G : Graph} {r : Ref} {k : Nat} {v : Val} (h : Follows G r k v) :
    ∀ (d : Nat) (path : List Ref), k < d → (∀ p ∈ path, ∃ kp, kp > k ∧ Follows G p kp v) →
      resolveLoop G true d path r = .ok v := by
  induction h with
  | @last r v hg hn =>
    intro d path hd hpath
    cases d with
    | zero => omega
    | succ d =>
      have hnot : path.contains r = false := by
        cases hc : path.contains r with
        | false => rfl
        | true =>
          obtain ⟨kp, hk, hf⟩ := hpath r (by simpa using hc)
          have := (Follows.det hf (Follows.last hg hn)).1
          omega
      simp only [resolveLoop, hnot, Bool.false_eq_true, ↓reduceIte, hg]
      cases v with
      | stream _ _ _ => rfl
      | obj o => cases o <;> first | rfl | exact absurd trivial hn
  | @next r n g k v hg hf ih =>
    intro d path hd hpath
    cases d with
    | zero => omega
    | succ d =>
      have hnot : path.contains r = false := by
        cases hc : path.contains r with
        | false => rfl
        | true =>
          obtain ⟨kp, hk, hf'⟩ := hpath r (by simpa using hc)
          have := (Follows.det hf' (Follows.next hg hf)).1
          omega
      simp only [resolveLoop, hnot, Bool.false_eq_true, ↓reduceIte, hg]
      apply ih d (r :: path) (by omega)
      intro p hp
      rcases List.mem_cons.mp hp with e | e
      · subst e; exact ⟨k + 1, by omega, Follows.next hg hf⟩
      · obtain ⟨kp, hk, hf'⟩ := hpath p e
        exact ⟨kp, by omega, hf'⟩

/-- completeness: whatever the loop returns is the end of a chain of fewer than `d` hops -/
theorem follows_of_resolveLoop {G : Graph} :
    ∀ (d : Nat) (path : List Ref) (r : Ref) (v : Val), resolveLoop G true d path r = .ok v →
      ∃ k, k < d ∧ Follows G r k v
  | 0, _, _, _ => by simp [resolveLoop]
  | d+1, path, r, v => by
    simp only [resolveLoop]
    split
    · intro h; cases h
    · split
      · intro h; cases h
      · next n g hg =>
        intro h
        obtain ⟨k, hk, hf⟩ := follows_of_resolveLoop d _ _ v h
        exact ⟨k + 1, by omega, Follows.next hg hf⟩
      · next v' hne hg =>
        intro h; cases h
        refine ⟨0, by omega, Follows.last hg ?_⟩
        intro hr
        cases v with
        | stream _ _ _ => exact hr
        | obj o => cases o <;> first | exact hr | exact hne _ _ rfl

/-- **resolve_spec.**  `Resolve(r)` returns `v` exactly when the chain of references starting at
`r` ends at the non-reference `v` after fewer than `MaxExtractDepth` further hops. -/
theorem resolve_spec (G : Graph) (r : Ref) (v : Val) :
    resolve G true (.ref r.1 r.2) = .ok v ↔ ∃ k, k < Gen.cpy_MaxExtractDepth ∧ Follows G r k v := by
  constructor
  · intro h; exact follows_of_resolveLoop _ _ _ _ h
  · rintro ⟨k, hk, hf⟩
    exact resolveLoop_of_follows hf _ [] hk (by simp)


/-- `Image` read through the chain relation: if the chain from `b` ends at the non-reference
value `v`, the object written for `b` is the image of `v` itself (chain shortening). -/
theorem image_of_chain {tr : List (Ref × Ref)} {G : Graph} {b : Ref} {k : Nat} {v w : Val}
    (hf : Follows G b k v) (hk : k < Gen.cpy_MaxExtractDepth) (him : Image tr G b w) :
    ∃ sp, specVal G v = some sp ∧ mapVal tr sp = some w := by
  obtain ⟨sv, sp, h1, h2, h3⟩ := him
  have hres : resolve G true (.ref b.1 b.2) = .ok v := (resolve_spec G b v).mpr ⟨k, hk, hf⟩
  have : sv = v := by
    unfold resolveOrNull at h1
    rw [hres] at h1
    cases h1; rfl
  subst this
  exact ⟨sp, h2, h3⟩


/-! ### aliases share the copy -/

/-- a property of the copier state which the three state changes of `CopyReference` preserve is
    preserved by every call -/
theorem prim_main (G : Graph) (Q : St → Prop)
    (hK : ∀ s r t chain, Q s → assoc r s.trans = none → walkFrom G s.trans r = .known t chain →
      Q { s with trans := enter chain t s.trans })
    (hA : ∀ s r v chain, Q s → assoc r s.trans = none → walkFrom G s.trans r = .ends v chain →
      Q { trans := enter chain (refOf s.next) s.trans, next := s.next + 1, puts := s.puts, tgtV := s.tgtV })
    (hP : ∀ s n v s', Q s → put s n v = .ok s' → Q s') :
    ∀ f : Nat,
      (∀ s o o' s', copyObj f G s o = .ok (o', s') → Q s → Q s') ∧
      (∀ s xs ys s', copyList f G s xs = .ok (ys, s') → Q s → Q s') ∧
      (∀ s L L' s', copyKV f G s L = .ok (L', s') → Q s → Q s') ∧
      (∀ s src res key res' s', inlineKey f G s src res key = .ok (res', s') → Q s → Q s') ∧
      (∀ s src res s', copyStreamDict f G s src = .ok (res, s') → Q s → Q s') ∧
      (∀ s v v' s', copyVal f G s v = .ok (v', s') → Q s → Q s') ∧
      (∀ s r t s', copyRef f G s r = .ok (t, s') → Q s → Q s') := by
  intro f
  induction f with
  | zero =>
    refine ⟨?_, ?_, ?_, ?_, ?_, ?_, ?_⟩
    · intro s o o' s' h; simp [copyObj] at h
    · intro s o o' s' h; simp [copyList] at h
    · intro s o o' s' h; simp [copyKV] at h
    · intro s a b c d e h; simp [inlineKey] at h
    · intro s o o' s' h; simp [copyStreamDict] at h
    · intro s o o' s' h; simp [copyVal] at h
    · intro s o o' s' h; simp [copyRef] at h
  | succ f ih =>
    obtain ⟨hO, hLi, hKV, hI, hS, hV, hR⟩ := ih
    refine ⟨?_, ?_, ?_, ?_, ?_, ?_, ?_⟩
    · intro s o o' s' h hq
      cases o with
      | dict kv =>
        simp only [copyObj] at h
        split at h
        · cases h
        · next kv' s1 hk => cases h; exact hKV _ _ _ _ hk hq
      | arr xs =>
        simp only [copyObj] at h
        split at h
        · cases h
        · next ys s1 hk => cases h; exact hLi _ _ _ _ hk hq
      | ref n g =>
        simp only [copyObj] at h
        split at h
        · cases h
        · next t s1 hk => cases h; exact hR _ _ _ _ hk hq
      | _ => simp only [copyObj] at h; cases h; exact hq
    · intro s xs ys s' h hq
      cases xs with
      | nil => simp only [copyList] at h; cases h; exact hq
      | cons x xs =>
        simp only [copyList] at h
        split at h
        · cases h
        · next y s1 hy =>
          split at h
          · cases h
          · next ys' s2 hys => cases h; exact hLi _ _ _ _ hys (hO _ _ _ _ hy hq)
    · intro s L L' s' h hq
      cases L with
      | nil => simp only [copyKV] at h; cases h; exact hq
      | cons p rest =>
        obtain ⟨k, v⟩ := p
        by_cases hv : v = .null
        · subst hv
          simp only [copyKV] at h
          split at h
          · cases h
          · next rest' s1 hr => cases h; exact hKV _ _ _ _ hr hq
        · rw [copyKV_cons_nonnull G f s k v rest hv] at h
          cases h1 : copyObj f G s v with
          | error e => rw [h1] at h; simp [kvCont] at h
          | ok p =>
            obtain ⟨y, s1⟩ := p
            rw [h1] at h
            simp only [kvCont] at h
            split at h
            · cases h
            · next rest' s2 hr => cases h; exact hKV _ _ _ _ hr (hO _ _ _ _ h1 hq)
    · intro s src res key res' s' h hq
      simp only [inlineKey] at h
      split at h
      · cases h; exact hq
      · split at h
        · cases h
        · cases h
        · split at h
          · cases h
          · next repl s1 hc => cases h; exact hO _ _ _ _ hc hq
    · intro s src res s' h hq
      simp only [copyStreamDict] at h
      split at h
      · cases h
      · next res1 s1 h1 =>
        split at h
        · cases h
        · next res2 s2 h2 => exact hI _ _ _ _ _ _ h (hI _ _ _ _ _ _ h2 (hKV _ _ _ _ h1 hq))
    · intro s v v' s' h hq
      cases v with
      | obj o =>
        simp only [copyVal] at h
        split at h
        · cases h
        · next o' s1 ho => cases h; exact hO _ _ _ _ ho hq
      | stream dict data enc =>
        simp only [copyVal] at h
        split at h
        · cases h
        · next dict' s1 hd =>
          have := hS _ _ _ _ hd hq
          split at h
          · cases h
          · cases h
          · cases h; exact this
    · intro s r t s' h hq
      simp only [copyRef] at h
      split at h
      · cases h; exact hq
      · next hnone =>
        split at h
        · cases h
        · cases h
        · next t' chain hwk =>
          have := hK s r t' chain hq hnone hwk
          cases h; exact this
        · next v chain hwk =>
          split at h
          · cases h
          · next n s1 ha =>
            obtain ⟨hn, hs1⟩ := alloc_ok ha
            subst hn; subst hs1
            simp only at h
            split at h
            · cases h
            · next v' s3 hc =>
              split at h
              · cases h
              · next s4 hp =>
                cases h
                exact hP _ _ _ _ (hV _ _ _ _ hc (hA s r v chain hq hnone hwk)) hp


/-- the chain of references from `k` ends properly within the depth `Resolve` admits -/
def ProperEnd (G : Graph) (k : Ref) : Prop := ∃ n v, Follows G k n v ∧ n < Gen.cpy_MaxExtractDepth

/-- `e` is the object the reference `a` stands for: the end of its chain of references -/
inductive EndsAt (G : Graph) : Ref → Ref → Prop where
  | here {e : Ref} {v : Val} : CPY.get G e true = .ok v → ¬ IsRef v → EndsAt G e e
  | step {a c e : Ref} : CPY.get G a true = .ok (.obj (.ref c.1 c.2)) → EndsAt G c e → EndsAt G a e

/-- `trans` treats a chain of references as one object: whenever a translated reference is an
    alias object (its value is a reference) whose chain ends properly, the next link has the same
    translation -/
def AliasClosed (G : Graph) (Rd : List Ref) (s : St) : Prop :=
  ∀ k t x, (k, t) ∈ s.trans → ¬ Exempt G Rd k → CPY.get G k true = .ok (.obj (.ref x.1 x.2)) →
    ProperEnd G k → assoc x s.trans = some t

theorem aliasClosed_init (G : Graph) (Rd : List Ref) (n0 : Nat) : AliasClosed G Rd (St.init n0) := by
  intro k t x hm; simp [St.init] at hm

theorem not_properEnd_of_malformed {G : Graph} {r : Ref}
    (h : resolveLoop G true Gen.cpy_MaxExtractDepth [] r = .error .malformed) : ¬ ProperEnd G r := by
  rintro ⟨n, v, hf, hn⟩
  have := (resolve_spec G r v).mpr ⟨n, hn, hf⟩
  simp only [resolve] at this
  rw [h] at this; cases this

theorem assoc_enter_other {chain : List Ref} {t x : Ref} {tr : List (Ref × Ref)} (h : x ∉ chain) :
    assoc x (enter chain t tr) = assoc x tr := by
  unfold enter
  rw [assoc_append]
  have : assoc x (chain.map fun k => (k, t)) = none := by
    rw [assoc_none_iff]; exact fun hm => h (mem_enter_keys.mp hm)
  rw [this]

theorem get_ref_inj {G : Graph} {k x y : Ref} (h1 : CPY.get G k true = .ok (.obj (.ref x.1 x.2)))
    (h2 : CPY.get G k true = .ok (.obj (.ref y.1 y.2))) : x = y := by
  rw [h1] at h2
  injection h2 with h2; injection h2 with h2; injection h2 with ha hb
  exact Prod.ext ha hb

/-- **aliasClosed_copyRef.**  Every call keeps `trans` closed under "next link of the chain". -/
theorem aliasClosed_main (G : Graph) (Rd : List Ref) (f : Nat) :
    ∀ s r t s', copyRef f G s r = .ok (t, s') → AliasClosed G Rd s → AliasClosed G Rd s' := by
  refine (prim_main G (AliasClosed G Rd) ?_ ?_ ?_ f).2.2.2.2.2.2
  · -- a link of the chain was known
    intro s r t chain hq hnone hwk
    have hw := walkFrom_out (G := G) hnone
    rw [hwk] at hw
    obtain ⟨_, w2, _, x0, hx0, _, hnext⟩ := hw
    have hx0c : x0 ∉ chain := fun h => by have := w2 x0 h; rw [hx0] at this; cases this
    intro k t' x hm hex hg hpe
    rcases mem_enter hm with ⟨hk, ht⟩ | hm'
    · subst ht
      obtain ⟨y, hy, hyc⟩ := hnext k hk
      have := get_ref_inj hg hy
      subst this
      rcases hyc with h | h
      · exact assoc_enter_mem h
      · subst h; rw [assoc_enter_other hx0c]; exact hx0
    · have h1 := hq k t' x hm' hex hg hpe
      have hxc : x ∉ chain := fun h => by have := w2 x h; rw [h1] at this; cases this
      show assoc x (enter chain t s.trans) = some t'
      rw [assoc_enter_other hxc]; exact h1
  · -- the chain ended: all its links are entered
    intro s r v chain hq hnone hwk
    have hw := walkFrom_out (G := G) hnone
    rw [hwk] at hw
    obtain ⟨_, _, w2, _, hcase⟩ := hw
    intro k t' x hm hex hg hpe
    simp only at hm
    rcases mem_enter hm with ⟨hk, ht⟩ | hm'
    · subst ht
      rcases hcase with ⟨hc, _, hmal⟩ | ⟨_, e, _, hge, hnr, _, hnext⟩
      · rw [hc] at hk; simp only [List.mem_singleton] at hk; subst hk
        exact absurd hpe (not_properEnd_of_malformed hmal)
      · by_cases hke : k = e
        · subst hke
          rw [hg] at hge; cases hge
          exact absurd trivial hnr
        · obtain ⟨y, hy, hgy⟩ := hnext k hk hke
          have := get_ref_inj hg hgy
          subst this
          exact assoc_enter_mem hy
    · have h1 := hq k t' x hm' hex hg hpe
      have hxc : x ∉ chain := fun h => by have := w2 x h; rw [h1] at this; cases this
      show assoc x (enter chain (refOf s.next) s.trans) = some t'
      rw [assoc_enter_other hxc]; exact h1
  · intro s n v s' hq hp
    have := put_ok hp
    subst this
    exact hq

theorem follows_step {G : Graph} {a c : Ref} {n : Nat} {v : Val}
    (hg : CPY.get G a true = .ok (.obj (.ref c.1 c.2))) (hf : Follows G a n v) :
    ∃ m, n = m + 1 ∧ Follows G c m v := by
  cases hf with
  | last hg' hn => rw [hg] at hg'; cases hg'; exact absurd trivial hn
  | @next _ n' g' k _ hg' hf' =>
    rw [hg] at hg'
    injection hg' with hg'; injection hg' with hg'; injection hg' with ha hb
    have : c = (n', g') := Prod.ext ha hb
    subst this
    exact ⟨k, rfl, hf'⟩

/-- in an alias-closed state the end of the chain has the translation of its first link -/
theorem aliasClosed_end {G : Graph} {Rd : List Ref} {s : St} (hA : AliasClosed G Rd s) {a e : Ref}
    (he : EndsAt G a e) : ∀ {ta : Ref}, assoc a s.trans = some ta → ProperEnd G a → ¬ Exempt G Rd a →
      assoc e s.trans = some ta := by
  induction he with
  | here _ _ => intro ta h _ _; exact h
  | @step a c e hg _ ih =>
    intro ta h hp hx
    have hc := hA a ta c (assoc_some_mem _ _ _ h) hx hg hp
    apply ih hc
    · obtain ⟨n, v, hf, hn⟩ := hp
      obtain ⟨m, hm, hf'⟩ := follows_step hg hf
      exact ⟨m, v, hf', by omega⟩
    · rintro (h' | ⟨x, hx', hl⟩)
      · exact hx (Or.inr ⟨c, h', .one hg⟩)
      · exact hx (Or.inr ⟨x, hx', .more hg hl⟩)

/-- **copy_respects_aliases.**  Two source references which stand for the same object - their
chains of references (`N 0 obj M 0 R endobj`) end at the same object - are translated to the
same target object: an object reached directly and through alias objects is copied once.
(Chains within the depth `Resolve` admits; references the caller redirected are his business.) -/
theorem copy_respects_aliases {G : Graph} {Rd : List Ref} {s : St} (hA : AliasClosed G Rd s)
    {a b e ta tb : Ref} (ha : assoc a s.trans = some ta) (hb : assoc b s.trans = some tb)
    (hea : EndsAt G a e) (heb : EndsAt G b e) (hpa : ProperEnd G a) (hpb : ProperEnd G b)
    (hxa : ¬ Exempt G Rd a) (hxb : ¬ Exempt G Rd b) : ta = tb := by
  have h1 := aliasClosed_end hA hea ha hpa hxa
  have h2 := aliasClosed_end hA heb hb hpb hxb
  rw [h1] at h2; cases h2; rfl


/-! ### a concrete cyclic graph (non-vacuity of the hypotheses above) -/

def kKids : Bytes := [75, 105, 100, 115]
def kSelf : Bytes := [83, 101, 108, 102]
def kE : Bytes := [69]
def kParent : Bytes := [80, 97, 114, 101, 110, 116]
def kD : Bytes := [68]

/-- a cyclic example: 2 → [3] → (chain) 4 → back to 2, a self reference, a dangling reference,
    an empty array, a stream with an indirect /Filter -/
def G0 : Graph :=
  [ ((2, 0), ⟨.val (.obj (.dict [(kKids, .arr [.ref 3 0]), (kSelf, .ref 2 0), (kE, .arr [])])), false⟩),
    ((3, 0), ⟨.val (.obj (.ref 4 0)), false⟩),
    ((4, 0), ⟨.val (.obj (.dict [(kParent, .ref 2 0), (kD, .ref 9 0), (kSelf, .ref 5 0)])), true⟩),
    ((5, 0), ⟨.val (.stream [(keyFilter, .ref 6 0)] [1, 2, 3] true), false⟩),
    ((6, 0), ⟨.val (.obj (.name [65])), false⟩) ]

def showSt (r : Except CErr (Ref × St)) : Option (Ref × Nat × List Ref × List Ref) :=
  match r with
  | .ok (t, s) => some (t, s.next, s.trans.map Prod.fst, s.puts.map Prod.fst)
  | .error _ => none


/-- non-vacuity: the copy of `G0` from object 2 succeeds; five objects are allocated (2..6), the
    dangling reference 9 0 R included, and each is written once; the alias 3 and the object 4 it
    stands for are both translated (to the same object) -/
example : showSt (copyRef 30 G0 (St.init 2) (2, 0)) =
    some ((2, 0), 7, [(6, 0), (5, 0), (9, 0), (3, 0), (4, 0), (2, 0)], [(4, 0), (6, 0), (5, 0), (3, 0), (2, 0)]) := by
  decide +kernel

/-- object 4 is reachable from 2 through the chain 3 → 4 and refers back to 2 (a cycle) -/
example : Reach G0 (2, 0) (2, 0) ∧ Reach G0 (2, 0) (3, 0) := by
  refine ⟨.root, .step .root ?_⟩
  decide +kernel


/-- the stream 5 is reachable from 2 through the chain 3 → 4, and refers on to 6 by /Filter -/
theorem reach_G0 : Reach G0 (2, 0) (5, 0) := by
  refine .step (.step .root ?_) ?_ (a := (3, 0)) <;> decide +kernel

/-- `G0` has no over-deep chain: its only alias object is 3 → 4 -/
theorem linkInv_G0 : LinkInv G0 := by
  intro a n g h
  by_cases h3 : a = (3, 0)
  · subst h3
    have : (n, g) = (4, 0) := by
      simp [CPY.get, G0, assoc] at h
      exact Prod.ext h.1.symm h.2.symm
    rw [this]; rfl
  · exfalso
    by_cases h2 : a = (2, 0)
    · subst h2; simp [CPY.get, G0, assoc] at h
    · by_cases h4 : a = (4, 0)
      · subst h4; simp [CPY.get, G0, assoc] at h
      · by_cases h5 : a = (5, 0)
        · subst h5; simp [CPY.get, G0, assoc] at h
        · by_cases h6 : a = (6, 0)
          · subst h6; simp [CPY.get, G0, assoc] at h
          · have hn : assoc a G0 = none := by
              simp [G0, assoc, Ne.symm h2, Ne.symm h3, Ne.symm h4, Ne.symm h5, Ne.symm h6]
            simp [CPY.get, hn] at h

/-- `copy_iso` applies to `G0` (hypotheses are satisfiable, conclusion is about a stream reached
    through a chain inside a cycle) -/
example : ∀ t s', copyRef 30 G0 (St.init 2) (2, 0) = .ok (t, s') →
    ∃ t' v, assoc (5, 0) s'.trans = some t' ∧ assoc t' s'.puts = some v ∧ Image s'.trans G0 (5, 0) v :=
  fun _ _ h => copy_iso linkInv_G0 (init_consistent G0 2) h (5, 0) reach_G0

/-- `dangling_is_null` applies: 9 0 R is not defined in `G0` -/
example : resolveOrNull G0 (9, 0) = .ok (.obj .null) := resolveOrNull_missing (by decide +kernel)

/-- the chain 3 → 4 ends after one hop (`resolve_spec`) -/
example : ∃ v, Follows G0 (3, 0) 1 v := by
  refine ⟨_, .next (n := 4) (g := 0) rfl (.last (v := .obj (.dict [(kParent, .ref 2 0), (kD, .ref 9 0), (kSelf, .ref 5 0)])) ?_ ?_)⟩
  · rfl
  · simp [IsRef]

/-- the driver's fuel for `G0` and the one-call program -/
example : fuelFor G0 [.copyRef (2, 0)] = 180 := by decide +kernel


/-- non-vacuity: `G0` is benign for the one-call program, for every target (its stream names no
    /Crypt filter) -/
example (tv : Nat) : Benign G0 tv (allRefs G0 [.copyRef (2, 0)]) := by
  intro r hr
  have hmem : r ∈ [(3, 0), (2, 0), (4, 0), (2, 0), (9, 0), (5, 0), (6, 0), (2, 0)] := by
    have : allRefs G0 [.copyRef (2, 0)] = [(3, 0), (2, 0), (4, 0), (2, 0), (9, 0), (5, 0), (6, 0), (2, 0)] := by
      decide +kernel
    rw [this] at hr; exact hr
  simp only [List.mem_cons, List.not_mem_nil, or_false] at hmem
  rcases hmem with h | h | h | h | h | h | h | h <;> subst h
  all_goals first
    | exact ⟨_, rfl, trivial⟩
    | (refine ⟨_, rfl, ?_, ⟨.dflt, rfl, by decide⟩, ?_⟩
       · intro key hk val hv
         rcases hk with e | e <;> subst e
         · cases hv; exact ⟨_, rfl⟩
         · cases hv
       · intro d hd
         have e : specDict G0 [(keyFilter, .ref 6 0)] = some [(keyFilter, .name [65])] := rfl
         rw [e] at hd; cases hd
         rfl)


/-- `copy_respects_aliases` applies to `G0`: the alias 3 and the object 4 share their copy -/
example : ∀ t s', copyRef 30 G0 (St.init 2) (2, 0) = .ok (t, s') →
    ∀ ta tb, assoc (3, 0) s'.trans = some ta → assoc (4, 0) s'.trans = some tb → ta = tb := by
  intro t s' h ta tb ha hb
  have hA := aliasClosed_main G0 [] 30 _ _ _ _ h (aliasClosed_init G0 [] 2)
  have h4 : CPY.get G0 (4, 0) true =
      .ok (.obj (.dict [(kParent, .ref 2 0), (kD, .ref 9 0), (kSelf, .ref 5 0)])) := rfl
  have hn4 : ¬ IsRef (.obj (.dict [(kParent, .ref 2 0), (kD, .ref 9 0), (kSelf, .ref 5 0)])) := by simp [IsRef]
  have h3 : CPY.get G0 (3, 0) true = .ok (.obj (.ref 4 0)) := rfl
  exact copy_respects_aliases hA ha hb (.step (c := (4, 0)) h3 (.here h4 hn4)) (.here h4 hn4)
    ⟨1, _, .next (n := 4) (g := 0) h3 (.last h4 hn4), by decide⟩ ⟨0, _, .last h4 hn4, by decide⟩
    (not_exempt_nil G0 _) (not_exempt_nil G0 _)


end PdfVerif.C11cpyc

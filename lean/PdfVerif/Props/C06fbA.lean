import PdfVerif.Props.C06faC
/-!
# C06 (CCITTFax, work package FB): the round trip with EncodedByteAlign

Extends the proved domain of `C06faC.ccitt_rt_g4_g31d` (K < 0 and K = 0 without EOL codes, with
end-of-block pattern) to `EncodedByteAlign = true`: the writer pads every row with zero bits to a
byte boundary (`flushPending`), the reader skips `validBits % 8` bits after every completed row
(`Rd.alignRow`).  The input is loaded bytewise, so the number of unread bits modulo 8 is the
distance to the next byte boundary (`alignRow_spec`).
-/
namespace PdfVerif.C06fbA
open PdfVerif PdfVerif.FB PdfVerif.Gen PdfVerif.C06fbt PdfVerif.C06faC

/-! ## fill bits -/

/-- zero bits up to the next byte boundary -/
def alignPad (bits : Bits) : Bits := List.replicate ((8 - bits.length % 8) % 8) false

theorem alignPad_length_lt (bits : Bits) : (alignPad bits).length < 8 := by
  unfold alignPad; simp only [List.length_replicate]; omega

theorem alignPad_mod (bits : Bits) : (bits ++ alignPad bits).length % 8 = 0 := by
  unfold alignPad; simp only [List.length_append, List.length_replicate]; omega

/-- **alignRow**: with `pad ++ suffix` unread, fewer than 8 fill bits and a suffix of whole bytes,
the reader skips exactly the fill bits (whatever their values) -/
theorem alignRow_spec (p : CParams) (hal : p.byteAlign = true) (r : Rd) (pad suffix : Bits) (he : Rd.clean r)
    (hs : Rd.stream r = pad ++ suffix) (hp : pad.length < 8) (hm : suffix.length % 8 = 0) :
    Rd.clean (r.alignRow p) ∧ Rd.stream (r.alignRow p) = suffix ∧ (r.alignRow p).line = r.line := by
  have hlen := stream_length r
  rw [hs, List.length_append] at hlen
  unfold Rd.bitsLeft at hlen
  have hk : r.win.length % 8 = pad.length := by omega
  unfold Rd.alignRow
  rw [if_pos ⟨hal, he.1⟩, hk]
  obtain ⟨c1, c2, c3⟩ := consume_spec r pad.length he (by omega) (by rw [hs, List.length_append]; omega)
  refine ⟨c1, ?_, c3⟩
  rw [c2, hs, List.drop_append_of_le_length (Nat.le_refl _), List.drop_of_length_le (Nat.le_refl _), List.nil_append]

/-! ## the aligned encoder, bit by bit -/

/-- bits of the complete rows with EncodedByteAlign: every row is followed by its fill bits -/
def allRowBitsA (p : CParams) : List Bytes → Nat → List Nat → Bits
  | [], _, _ => []
  | row :: rest, c2, ref =>
    (encodeRowBits p c2 ref (pixelsOf p row)).1 ++ alignPad (encodeRowBits p c2 ref (pixelsOf p row)).1 ++
      allRowBitsA p rest (encodeRowBits p c2 ref (pixelsOf p row)).2 (pixelsOf p row)

theorem allRowBitsA_mod (p : CParams) : ∀ (rows : List Bytes) (c2 : Nat) (ref : List Nat),
    (allRowBitsA p rows c2 ref).length % 8 = 0 := by
  intro rows
  induction rows with
  | nil => intro _ _; rfl
  | cons row rest ih =>
    intro c2 ref
    have h1 := alignPad_mod (encodeRowBits p c2 ref (pixelsOf p row)).1
    have h2 := ih (encodeRowBits p c2 ref (pixelsOf p row)).2 (pixelsOf p row)
    simp only [allRowBitsA, List.length_append] at h1 h2 ⊢
    omega

/-- a bit string packed into bytes and flushed is the string followed by its fill bits -/
theorem pack_flush_bits (bits : Bits) :
    bytesToBits ((packBits bits).1 ++ flushPending (packBits bits).2) = bits ++ alignPad bits := by
  obtain ⟨k1, k2⟩ := packBits_spec bits
  obtain ⟨k, hk, hfp⟩ := flushPending_bits (packBits bits).2 k2
  rw [bytesToBits_append, hfp, ← List.append_assoc, k1]
  congr 1
  have hl := congrArg List.length (show bytesToBits ((packBits bits).1 ++ flushPending (packBits bits).2) = bits ++ List.replicate k false by
    rw [bytesToBits_append, hfp, ← List.append_assoc, k1])
  rw [bytesToBits_length] at hl
  simp only [List.length_append, List.length_replicate] at hl
  unfold alignPad
  congr 1
  omega

theorem encodeRowsGo_bitsA (p : CParams) (hal : p.byteAlign = true) : ∀ (rows : List Bytes) (numRows c2 : Nat)
    (ref : List Nat), (∀ row ∈ rows, paddingOk p row = true) →
    (p.maxRows = 0 ∨ numRows + rows.length ≤ p.maxRows) →
    (encodeRowsGo p rows numRows c2 ref []).2.2 = none ∧ (encodeRowsGo p rows numRows c2 ref []).2.1 = [] ∧
    bytesToBits (encodeRowsGo p rows numRows c2 ref []).1 = allRowBitsA p rows c2 ref := by
  intro rows
  induction rows with
  | nil => intro numRows c2 ref _ _; simp [encodeRowsGo, allRowBitsA, bytesToBits]
  | cons row rest ih =>
    intro numRows c2 ref hpad hmax
    have hp := hpad row (by simp)
    have hguard : ¬ (p.maxRows > 0 ∧ numRows ≥ p.maxRows) := by
      simp only [List.length_cons] at hmax; omega
    rw [encodeRowsGo, if_neg hguard]
    simp only [hp, Bool.not_true, Bool.false_eq_true, if_false, hal, if_true, List.nil_append]
    rcases hrb : encodeRowBits p c2 ref (pixelsOf p row) with ⟨bits, c2'⟩
    simp only []
    have hpf := pack_flush_bits bits
    rcases hpk : packBits bits with ⟨bytes, left⟩
    rw [hpk] at hpf
    simp only [] at hpf ⊢
    obtain ⟨i1, i2, i3⟩ := ih (numRows + 1) c2' (pixelsOf p row) (fun r hr => hpad r (by simp [hr]))
      (by simp only [List.length_cons] at hmax; omega)
    rcases hrec : encodeRowsGo p rest (numRows + 1) c2' (pixelsOf p row) [] with ⟨more, pend, err⟩
    rw [hrec] at i1 i2 i3
    simp only [] at i1 i2 i3 ⊢
    refine ⟨i1, i2, ?_⟩
    rw [bytesToBits_append, hpf, i3]
    simp only [allRowBitsA, hrb, List.append_assoc]

/-- **the aligned encoder's output, bit by bit**: every row with its fill bits, the end-of-block
code, zero padding; the tail after the rows consists of whole bytes -/
theorem encodeAll_bitsA (p : CParams) (rows : List Bytes) (hal : p.byteAlign = true) (hlb : 0 < p.lineBytes)
    (hlen : ∀ row ∈ rows, row.length = p.lineBytes) (hpad : ∀ row ∈ rows, paddingOk p row = true)
    (hmax : p.maxRows = 0 ∨ rows.length ≤ p.maxRows) :
    (encodeAll p rows.flatten).2 = none ∧
    ∃ k, k < 8 ∧ (endOfBlockBits p ++ List.replicate k false).length % 8 = 0 ∧
      bytesToBits (encodeAll p rows.flatten).1 =
        allRowBitsA p rows 0 (List.replicate p.columns p.whiteBit) ++ (endOfBlockBits p ++ List.replicate k false) := by
  have hfl := flatten_length_rows p.lineBytes rows hlen
  have hsplit : splitRows p.lineBytes (rows.flatten.length + 1) rows.flatten = rows := by
    apply splitRows_flatten p.lineBytes hlb rows _ hlen
    rw [hfl]
    have : rows.length ≤ rows.length * p.lineBytes := Nat.le_mul_of_pos_right _ hlb
    omega
  unfold encodeAll
  simp only [hsplit]
  obtain ⟨e1, e2, e3⟩ := encodeRowsGo_bitsA p hal rows 0 0 (List.replicate p.columns p.whiteBit) hpad (by simpa using hmax)
  rcases hgo : encodeRowsGo p rows 0 0 (List.replicate p.columns p.whiteBit) [] with ⟨bytes, pending, err⟩
  rw [hgo] at e1 e2 e3
  simp only [] at e1 e2 e3 ⊢
  subst e1 e2
  have hmod : rows.flatten.length % p.lineBytes = 0 := by rw [hfl]; exact Nat.mul_mod_left _ _
  have hpf := pack_flush_bits (endOfBlockBits p)
  simp only [List.nil_append]
  rcases hpk : packBits (endOfBlockBits p) with ⟨tail, left⟩
  rw [hpk] at hpf
  simp only [] at hpf ⊢
  refine ⟨by simp only [hmod, ne_eq, not_true_eq_false, false_and, if_false], (alignPad (endOfBlockBits p)).length,
    alignPad_length_lt _, ?_, ?_⟩
  · have := alignPad_mod (endOfBlockBits p)
    unfold alignPad at this ⊢
    simpa using this
  · rw [List.append_assoc, bytesToBits_append, hpf, e3]
    unfold alignPad
    simp

/-! ## Group 4 with EncodedByteAlign -/

/-- the bits of a sequence of byte-aligned Group 4 rows -/
def rows2DBitsA (p : CParams) : List Nat → List Bytes → Bits
  | _, [] => []
  | ref, row :: rest =>
    encode2DLine p ref (pixelsOf p row) ++ alignPad (encode2DLine p ref (pixelsOf p row)) ++ rows2DBitsA p (pixelsOf p row) rest

theorem rows2DBitsA_mod (p : CParams) : ∀ (rows : List Bytes) (ref : List Nat), (rows2DBitsA p ref rows).length % 8 = 0 := by
  intro rows
  induction rows with
  | nil => intro _; rfl
  | cons row rest ih =>
    intro ref
    have h1 := alignPad_mod (encode2DLine p ref (pixelsOf p row))
    have h2 := ih (pixelsOf p row)
    simp only [rows2DBitsA, List.length_append] at h1 h2 ⊢
    omega

theorem allRowBitsA_kneg (p : CParams) (hk : p.k < 0) : ∀ (rows : List Bytes) (c2 : Nat) (ref : List Nat),
    allRowBitsA p rows c2 ref = rows2DBitsA p ref rows := by
  intro rows
  induction rows with
  | nil => intro _ _; rfl
  | cons row rest ih =>
    intro c2 ref
    have hrb : ∀ c2 ref px, encodeRowBits p c2 ref px = (encode2DLine p ref px, c2) := by
      intro c2 ref px
      unfold encodeRowBits
      have h1 : ¬ p.k > 0 := by omega
      have h2 : ¬ p.k = 0 := by omega
      simp [h1, h2]
    simp only [allRowBitsA, hrb, ih, rows2DBitsA]

/-- **the reader's row loop over byte-aligned Group 4 rows and the EOFB** -/
theorem readRows_g4A (p : CParams) (hk : p.k < 0) (hc : 0 < p.columns) (hal : p.byteAlign = true) (hig : p.ignoreEOB = false)
    (pad : Bits) (hmod : (codeBits 4097 24 ++ pad).length % 8 = 0) :
    ∀ (rows : List Bytes) (r : Rd) (numRows fuel : Nat) (refLine : Bits), Rd.clean r →
      refLine.length = 8 * p.lineBytes →
      Rd.stream r = rows2DBitsA p ((refLine.take p.columns).map b2n) rows ++ (codeBits 4097 24 ++ pad) →
      Rows2DOk p rows → (p.maxRows = 0 ∨ numRows + rows.length ≤ p.maxRows) → rows.length < fuel →
      Rd.readRows r p fuel numRows refLine = (rows, 1) := by
  intro rows
  induction rows with
  | nil =>
    intro r numRows fuel refLine he _ hs _ _ hf
    obtain ⟨f, rfl⟩ : ∃ f, fuel = f + 1 := ⟨fuel - 1, by simp at hf; omega⟩
    rw [Rd.readRows]
    by_cases hg : r.err = 0 ∧ (p.maxRows = 0 ∨ numRows < p.maxRows)
    · rw [if_pos hg]
      simp only [rows2DBitsA, List.nil_append] at hs
      obtain ⟨d1, d2, d3⟩ := dec2D_eofb p hc refLine r pad he hs
      obtain ⟨a1, a2, a3⟩ := alignRow_spec p hal (r.decode2D p refLine) [] (Rd.stream r) d1 (by rw [d2]; rfl) (by simp)
        (by rw [hs]; exact hmod)
      generalize hr1 : (r.decode2D p refLine).alignRow p = r1 at a1 a2 a3
      have h24 : 24 ≤ (Rd.stream r1).length := by
        rw [a2, hs, List.length_append, codeBits_length]; omega
      obtain ⟨g1, g2, _⟩ := decodeG4_after p hig r1 a1 h24
      have hv : bitsToNat ((Rd.stream r1).take 24) = 4097 := by
        rw [a2, hs, List.take_append_of_le_length (by rw [codeBits_length]; omega),
          List.take_of_length_le (by rw [codeBits_length]; omega), eofb_value]
      have g2' := g2 hv
      have hds : (r.decodeScanLine p refLine).1 =
          (if (r1.peek 24).1 = 4097 then { ((r1.peek 24).2.consume 24) with err := 1 } else (r1.peek 24).2) := by
        unfold Rd.decodeScanLine Rd.decodeG4
        simp [hk, hig, hr1]
      rcases hdsl : r.decodeScanLine p refLine with ⟨rr, ref1⟩
      rw [hdsl] at hds
      simp only at hds ⊢
      rw [hds]
      simp only [] at g1 g2'
      rw [g1, a3, d3, g2']
      simp
    · rw [if_neg hg, if_pos he.1]
  | cons row rest ih =>
    intro r numRows fuel refLine he hrl hs hok hmax hf
    obtain ⟨f, rfl⟩ : ∃ f, fuel = f + 1 := ⟨fuel - 1, by simp at hf; omega⟩
    obtain ⟨h1, h2, h3⟩ := hok row (by simp)
    have hg : r.err = 0 ∧ (p.maxRows = 0 ∨ numRows < p.maxRows) := ⟨he.1, by simp only [List.length_cons] at hmax; omega⟩
    rw [Rd.readRows, if_pos hg]
    simp only [rows2DBitsA, List.append_assoc] at hs
    have hrest : 13 ≤ (alignPad (encode2DLine p ((refLine.take p.columns).map b2n) (pixelsOf p row)) ++
        (rows2DBitsA p (pixelsOf p row) rest ++ (codeBits 4097 24 ++ pad))).length := by
      simp only [List.length_append, codeBits_length]; omega
    obtain ⟨d1, d2, d3⟩ := ccitt_g4_row_rt p refLine row r _ hc h1 h3 he hs hrest
    have hsufm : (rows2DBitsA p (pixelsOf p row) rest ++ (codeBits 4097 24 ++ pad)).length % 8 = 0 := by
      have := rows2DBitsA_mod p rest (pixelsOf p row)
      rw [List.length_append]; omega
    obtain ⟨a1, a2, a3⟩ := alignRow_spec p hal (r.decode2D p refLine) _ _ d1 d2 (alignPad_length_lt _) hsufm
    generalize hr1 : (r.decode2D p refLine).alignRow p = r1 at a1 a2 a3
    have h24 : 24 ≤ (Rd.stream r1).length := by
      rw [a2]; simp only [List.length_append, codeBits_length]; omega
    obtain ⟨g1, g2, g3⟩ := decodeG4_after p hig r1 a1 h24
    have hds : r.decodeScanLine p refLine =
        ((if (r1.peek 24).1 = 4097 then
            { ((r1.peek 24).2.consume 24) with err := 1 } else (r1.peek 24).2),
         bytesToBits row) := by
      unfold Rd.decodeScanLine Rd.decodeG4
      simp only [hk, if_true, hig, Bool.not_false, hr1]
      simp only [] at g1
      rw [g1, a3, d3]
      have hbl := bytesToBits_length row
      rw [h1] at hbl
      simp [hrl, hbl]
      rw [List.take_of_length_le (by omega), List.drop_of_length_le (by omega), List.append_nil]
    rw [hds]
    simp only []
    simp only [] at g1 g2 g3
    generalize hr2 : (if (r1.peek 24).1 = 4097 then
            { ((r1.peek 24).2.consume 24) with err := 1 } else (r1.peek 24).2) = r2 at g1 g2 g3
    have hl2 : r2.line = bytesToBits row := by rw [g1, a3, d3]
    have hne : r2.line.isEmpty = false := by
      rw [hl2]
      have hl := bytesToBits_length row
      have : 0 < p.lineBytes := lineBytes_pos p hc
      cases hb : bytesToBits row with
      | nil => rw [hb] at hl; simp at hl; omega
      | cons a as => rfl
    rw [hne]
    simp only [Bool.false_eq_true, if_false]
    rw [hl2, packBits_bytes row h2]
    have hnewref : ((bytesToBits row).take p.columns).map b2n = pixelsOf p row := (pixelsOf_eq p row h1).symm
    cases rest with
    | nil =>
      simp only [rows2DBitsA, List.nil_append] at a2
      have hv : bitsToNat ((Rd.stream r1).take 24) = 4097 := by
        rw [a2, List.take_append_of_le_length (by rw [codeBits_length]; omega),
          List.take_of_length_le (by rw [codeBits_length]; omega), eofb_value]
      have he2 := g2 hv
      have : Rd.readRows { r2 with line := [] } p f (numRows + 1) (bytesToBits row) = ([], 1) := by
        cases f with
        | zero => rfl
        | succ f' =>
          rw [Rd.readRows]
          have : ¬ (({ r2 with line := [] } : Rd).err = 0 ∧ (p.maxRows = 0 ∨ numRows + 1 < p.maxRows)) := by
            intro h; have : r2.err = 0 := h.1; omega
          rw [if_neg this]
          have : ¬ (({ r2 with line := [] } : Rd).err = 0) := by
            intro h; have : r2.err = 0 := h; omega
          rw [if_neg this]
          show ([], r2.err) = _
          rw [he2]
      rw [this]
    | cons row2 rest2 =>
      obtain ⟨i, tail, hi, hhead⟩ := encode2DLine_head p hc (pixelsOf p row) (pixelsOf p row2)
      have hv : bitsToNat ((Rd.stream r1).take 24) ≠ 4097 := by
        rw [a2]
        simp only [rows2DBitsA, hhead, List.append_assoc]
        apply mode_not_eofb i hi
        have := h24
        rw [a2] at this
        simpa [rows2DBitsA, hhead, List.append_assoc] using this
      obtain ⟨e2, s2⟩ := g3 hv
      have hrec := ih { r2 with line := [] } (numRows + 1) f (bytesToBits row) e2
        (by rw [bytesToBits_length, h1])
        (by show Rd.stream r2 = _; rw [s2, a2, hnewref])
        (fun r' hr' => hok r' (by simp [hr'])) (by simp only [List.length_cons] at hmax ⊢; omega) (by simp at hf ⊢; omega)
      rw [hrec]

theorem rows2DBitsA_params (p p' : CParams) (h1 : p'.columns = p.columns) (h2 : p'.blackIs1 = p.blackIs1) :
    ∀ (rows : List Bytes) (ref : List Nat), rows2DBitsA p' ref rows = rows2DBitsA p ref rows := by
  have hw : p'.whiteBit = p.whiteBit := by unfold CParams.whiteBit; rw [h2]
  have hpx : ∀ row, pixelsOf p' row = pixelsOf p row := by
    intro row; unfold pixelsOf; rw [h1, hw]
  have hl : ∀ ref row, encode2DLine p' ref (pixelsOf p row) = encode2DLine p ref (pixelsOf p row) := by
    intro ref row
    have := rows2DBits_params p p' h1 h2 [row] ref
    simpa [rows2DBits, hpx] using this
  intro rows
  induction rows with
  | nil => intro _; rfl
  | cons row rest ih =>
    intro ref
    simp only [rows2DBitsA, hpx, ih, hl]

theorem rows2DBitsA_length (p : CParams) (hc : 0 < p.columns) : ∀ (rows : List Bytes) (ref : List Nat),
    rows.length ≤ (rows2DBitsA p ref rows).length := by
  intro rows
  induction rows with
  | nil => intro _; simp [rows2DBitsA]
  | cons row rest ih =>
    intro ref
    have h1 := rows2DBits_length p hc [row] ref
    have h2 := ih (pixelsOf p row)
    simp only [rows2DBits, rows2DBitsA, List.length_append, List.length_cons, List.length_nil, List.append_nil] at h1 h2 ⊢
    omega

/-- **Group 4 stream round trip with EncodedByteAlign** (K < 0, with EOFB): every list of
admissible rows is decoded back, for any row limit `M` of the reader that is `0` or not below the
number of rows. -/
theorem ccitt_g4_stream_rtA (p : CParams) (M : Nat) (rows : List Bytes)
    (hk : p.k < 0) (hal : p.byteAlign = true) (hig : p.ignoreEOB = false)
    (hc : 0 < p.columns) (hok : Rows2DOk p rows) (hmaxE : p.maxRows = 0 ∨ rows.length ≤ p.maxRows)
    (hmaxD : M = 0 ∨ rows.length ≤ M) :
    decodeAll { p with maxRows := M } (encodeAll p rows.flatten).1 = (rows.flatten, 1) := by
  have hlb := lineBytes_pos p hc
  obtain ⟨_, k, hk8, hmod, hbits⟩ := encodeAll_bitsA p rows hal hlb (fun r hr => (hok r hr).1) (fun r hr => (hok r hr).2.2) hmaxE
  rw [allRowBitsA_kneg p hk] at hbits
  have heob : endOfBlockBits p = codeBits 4097 24 := by
    unfold endOfBlockBits; simp [hig, hk]
  rw [heob] at hbits hmod
  generalize (encodeAll p rows.flatten).1 = data at hbits
  unfold decodeAll decodeRows
  have hk' : ({ p with maxRows := M } : CParams).k ≠ 0 := by show p.k ≠ 0; omega
  simp only [hk', ne_eq, not_false_eq_true, if_true]
  have hfuel : rows.length < 8 * data.length + 8 := by
    have h1 := rows2DBitsA_length p hc rows (List.replicate p.columns p.whiteBit)
    have h2 := congrArg List.length hbits
    rw [bytesToBits_length, List.length_append] at h2
    omega
  have hrefpx : ((List.replicate (p.lineBytes * 8) (!p.blackIs1)).take p.columns).map b2n = List.replicate p.columns p.whiteBit := by
    have hle : p.columns ≤ p.lineBytes * 8 := by unfold CParams.lineBytes; omega
    rw [List.take_replicate, Nat.min_eq_left hle, List.map_replicate, whiteBit_eq]
    congr 1
    cases p.blackIs1 <;> rfl
  have := readRows_g4A { p with maxRows := M } hk hc hal hig (List.replicate k false) hmod rows
    { win := [], src := data, err := 0, line := [] } 0 (8 * data.length + 8)
    (List.replicate (p.lineBytes * 8) (!p.blackIs1)) ⟨rfl, rfl, rfl⟩ (by simp; exact Nat.mul_comm _ _)
    (by
      show bytesToBits data = rows2DBitsA { p with maxRows := M } (((List.replicate (p.lineBytes * 8) (!p.blackIs1)).take p.columns).map b2n) rows ++ _
      rw [rows2DBitsA_params p { p with maxRows := M } rfl rfl, hrefpx]; exact hbits) hok (by simpa using hmaxD) hfuel
  have hlb' : ({ p with maxRows := M } : CParams).lineBytes = p.lineBytes := rfl
  have hb1' : ({ p with maxRows := M } : CParams).blackIs1 = p.blackIs1 := rfl
  rw [hlb', hb1', this]

/-! ## Group 3 one-dimensional rows with EncodedByteAlign (K = 0, no EOL codes) -/

/-- the bits of a sequence of byte-aligned 1-D rows -/
def rows1DBitsA (p : CParams) : List Bytes → Bits
  | [] => []
  | row :: rest => encode1DLine p (pixelsOf p row) ++ alignPad (encode1DLine p (pixelsOf p row)) ++ rows1DBitsA p rest

theorem rows1DBitsA_mod (p : CParams) : ∀ (rows : List Bytes), (rows1DBitsA p rows).length % 8 = 0 := by
  intro rows
  induction rows with
  | nil => rfl
  | cons row rest ih =>
    have h1 := alignPad_mod (encode1DLine p (pixelsOf p row))
    simp only [rows1DBitsA, List.length_append] at h1 ih ⊢
    omega

theorem rows1DBitsA_length (p : CParams) (hc : 0 < p.columns) : ∀ rows : List Bytes, rows.length ≤ (rows1DBitsA p rows).length := by
  intro rows
  induction rows with
  | nil => simp [rows1DBitsA]
  | cons row rest ih =>
    have h1 := rows1DBits_length p hc [row]
    simp only [rows1DBits, List.map_cons, List.map_nil, List.flatten_cons, List.flatten_nil, List.append_nil,
      List.length_cons, List.length_nil] at h1
    simp only [rows1DBitsA, List.length_append, List.length_cons] at ih ⊢
    omega

theorem allRowBitsA_k0 (p : CParams) (hk : p.k = 0) (heol : p.endOfLine = false) : ∀ (rows : List Bytes) (c2 : Nat)
    (ref : List Nat), allRowBitsA p rows c2 ref = rows1DBitsA p rows := by
  intro rows
  induction rows with
  | nil => intro _ _; rfl
  | cons row rest ih =>
    intro c2 ref
    have hrb : ∀ c2 ref px, encodeRowBits p c2 ref px = (encode1DLine p px, c2) := by
      intro c2 ref px
      unfold encodeRowBits
      simp [hk, heol]
    simp only [allRowBitsA, hrb, ih, rows1DBitsA]

theorem rows1DBitsA_maxRows (p : CParams) (M : Nat) : ∀ rows : List Bytes,
    rows1DBitsA { p with maxRows := M } rows = rows1DBitsA p rows := by
  intro rows
  induction rows with
  | nil => rfl
  | cons row rest ih => simp only [rows1DBitsA]; rw [ih]; rfl

/-- **Group 3 one-dimensional row with fill bits**: the row's code, fewer than 8 fill bits, then
whole bytes: `decodeG3ScanLine1D` consumes the code AND the fill bits -/
theorem ccitt_g3_1d_row_rtA (p : CParams) (row : Bytes) (r : Rd) (pad suffix : Bits)
    (hc : 0 < p.columns) (hal : p.byteAlign = true) (hlen : row.length = p.lineBytes) (hpad : paddingOk p row = true)
    (he : Rd.clean r) (hs : Rd.stream r = encode1DLine p (pixelsOf p row) ++ (pad ++ suffix))
    (hp : pad.length < 8) (hm : suffix.length % 8 = 0) (hrest : 13 ≤ (pad ++ suffix).length) :
    Rd.clean (r.decode1D p) ∧ Rd.stream (r.decode1D p) = suffix ∧ (r.decode1D p).line = bytesToBits row := by
  obtain ⟨r', e0, h2, h3, h4⟩ := ccitt_g3_1d_row_rt_pre p row r _ hc hlen hpad he hs hrest
  obtain ⟨a1, a2, a3⟩ := alignRow_spec p hal r' pad suffix h2 h3 hp hm
  rw [e0]
  exact ⟨a1, a2, by rw [a3, h4]⟩

/-- **the reader's row loop over byte-aligned 1-D rows and the return-to-control sequence** -/
theorem readRows_1dA (p : CParams) (hk : p.k = 0) (hc : 0 < p.columns) (hal : p.byteAlign = true) (hig : p.ignoreEOB = false)
    (pad : Bits) (hmod : ((List.replicate 6 (codeBits 1 12)).flatten ++ pad).length % 8 = 0) :
    ∀ (rows : List Bytes) (r : Rd) (numRows fuel : Nat), Rd.clean r →
      Rd.stream r = rows1DBitsA p rows ++ ((List.replicate 6 (codeBits 1 12)).flatten ++ pad) →
      Rows1DOk p rows → (p.maxRows = 0 ∨ numRows + rows.length ≤ p.maxRows) → rows.length < fuel →
      Rd.readRows r p fuel numRows [] = (rows, 1) := by
  intro rows
  induction rows with
  | nil =>
    intro r numRows fuel he hs _ _ hf
    obtain ⟨f, rfl⟩ : ∃ f, fuel = f + 1 := ⟨fuel - 1, by simp at hf; omega⟩
    rw [Rd.readRows]
    by_cases hg : r.err = 0 ∧ (p.maxRows = 0 ∨ numRows < p.maxRows)
    · rw [if_pos hg]
      simp only [rows1DBitsA, List.nil_append] at hs
      have hbl : 72 ≤ r.bitsLeft := by
        rw [← stream_length, hs]; simp [codeBits_length]; omega
      obtain ⟨f2, hf2⟩ : ∃ f2, r.bitsLeft + 2 = f2 + 6 := ⟨r.bitsLeft + 2 - 6, by omega⟩
      have hrtc := dec1D_rtc p hc hig pad 6 { r with line := [] } f2 (by omega) (by omega) he rfl hs
      have hd : (r.decodeScanLine p []).1 = Rd.decode1DGo { r with line := [] } p (f2 + 6) 0 true 0 false := by
        unfold Rd.decodeScanLine
        have hk1 : ¬ p.k < 0 := by omega
        simp only [hk1, if_false, hk, if_true]
        unfold Rd.decode1D
        show Rd.decode1DGo _ p (r.bitsLeft + 2) 0 true 0 false = _
        rw [hf2]
      rcases hds : r.decodeScanLine p [] with ⟨r1, ref1⟩
      rw [hds] at hd
      simp only at hd ⊢
      rw [hd]
      simp only [Nat.sub_self] at hrtc
      simp [hrtc.1, hrtc.2]
    · rw [if_neg hg, if_pos he.1]
  | cons row rest ih =>
    intro r numRows fuel he hs hok hmax hf
    obtain ⟨f, rfl⟩ : ∃ f, fuel = f + 1 := ⟨fuel - 1, by simp at hf; omega⟩
    obtain ⟨h1, h2, h3⟩ := hok row (by simp)
    have hg : r.err = 0 ∧ (p.maxRows = 0 ∨ numRows < p.maxRows) := ⟨he.1, by simp only [List.length_cons] at hmax; omega⟩
    rw [Rd.readRows, if_pos hg]
    simp only [rows1DBitsA, List.append_assoc] at hs
    have hsufm : (rows1DBitsA p rest ++ ((List.replicate 6 (codeBits 1 12)).flatten ++ pad)).length % 8 = 0 := by
      have := rows1DBitsA_mod p rest
      rw [List.length_append]; omega
    have hrest : 13 ≤ (alignPad (encode1DLine p (pixelsOf p row)) ++
        (rows1DBitsA p rest ++ ((List.replicate 6 (codeBits 1 12)).flatten ++ pad))).length := by
      simp [codeBits_length]; omega
    obtain ⟨d1, d2, d3⟩ := ccitt_g3_1d_row_rtA p row r _ _ hc hal h1 h3 he hs (alignPad_length_lt _) hsufm hrest
    have hds : r.decodeScanLine p [] = (r.decode1D p, []) := by
      unfold Rd.decodeScanLine
      have hk1 : ¬ p.k < 0 := by omega
      simp [hk1, hk]
    rw [hds]
    simp only []
    have hne : (r.decode1D p).line.isEmpty = false := by
      rw [d3]
      have hl := bytesToBits_length row
      have : 0 < p.lineBytes := by unfold CParams.lineBytes; omega
      cases hb : bytesToBits row with
      | nil => rw [hb] at hl; simp at hl; omega
      | cons a as => rfl
    rw [hne]
    simp only [Bool.false_eq_true, if_false]
    have hrec := ih { (r.decode1D p) with line := [] } (numRows + 1) f d1 d2
      (fun r' hr' => hok r' (by simp [hr'])) (by simp only [List.length_cons] at hmax; omega) (by simp at hf; omega)
    rw [hrec, d3, packBits_bytes row h2]

/-- **Group 3 one-dimensional stream round trip with EncodedByteAlign** (K = 0, no EOL codes, with
the return-to-control sequence) -/
theorem ccitt_g3_1d_stream_rtA (p : CParams) (M : Nat) (rows : List Bytes)
    (hk : p.k = 0) (heol : p.endOfLine = false) (hal : p.byteAlign = true) (hig : p.ignoreEOB = false)
    (hc : 0 < p.columns) (hok : Rows1DOk p rows) (hmaxE : p.maxRows = 0 ∨ rows.length ≤ p.maxRows)
    (hmaxD : M = 0 ∨ rows.length ≤ M) :
    decodeAll { p with maxRows := M } (encodeAll p rows.flatten).1 = (rows.flatten, 1) := by
  have hlb := lineBytes_pos p hc
  obtain ⟨_, k, hk8, hmod, hbits⟩ := encodeAll_bitsA p rows hal hlb (fun r hr => (hok r hr).1) (fun r hr => (hok r hr).2.2) hmaxE
  rw [allRowBitsA_k0 p hk heol] at hbits
  have heob : endOfBlockBits p = (List.replicate 6 (codeBits 1 12)).flatten := by
    unfold endOfBlockBits; simp [hig, hk]
  rw [heob] at hbits hmod
  generalize (encodeAll p rows.flatten).1 = data at hbits
  unfold decodeAll decodeRows
  have hk' : ({ p with maxRows := M } : CParams).k = 0 := hk
  have href : (if ({ p with maxRows := M } : CParams).k ≠ 0 then
      List.replicate (({ p with maxRows := M } : CParams).lineBytes * 8) (!({ p with maxRows := M } : CParams).blackIs1) else []) = [] := by
    rw [if_neg (by rw [hk']; simp)]
  simp only [href]
  have hfuel : rows.length < 8 * data.length + 8 := by
    have h1 := rows1DBitsA_length p hc rows
    have h2 := congrArg List.length hbits
    rw [bytesToBits_length, List.length_append] at h2
    omega
  have := readRows_1dA { p with maxRows := M } hk hc hal hig (List.replicate k false) hmod rows
    { win := [], src := data, err := 0, line := [] } 0 (8 * data.length + 8) ⟨rfl, rfl, rfl⟩
    (by
      have hsame := rows1DBitsA_maxRows p M rows
      show bytesToBits data = _
      rw [hsame]; exact hbits) hok (by simpa using hmaxD) hfuel
  rw [this]

/-! ## the statement of C06fbt, now with any EncodedByteAlign -/

/-- the full statement `C06fbt.ccitt_rt_statement` restricted by a predicate on the filter value -/
def ccitt_rt_supported_statement (supported : FCCITT → Prop) : Prop :=
  ∀ (f : FCCITT) (rows : List Bytes), f.validate = true → ccittAdmissible f.encParams rows →
    (rows.length : Int) ≤ f.decodeMaxRows → supported f →
    decodeAll f.decParams (encodeAll f.encParams rows.flatten).1 = (rows.flatten, 1)

/-- the parameter classes of the full statement (`K` × `EndOfLine` × `EncodedByteAlign` ×
`EndOfBlock`) for which the round trip is a THEOREM (every pixel content, every number of rows
up to the cap):

* K < 0 (Group 4), EncodedByteAlign any, with EOFB — proved
* K = 0 (Group 3 1-D) without EOL codes, EncodedByteAlign any, with RTC — proved

and the ones that are validated only (oracle `fb-ccitt-rt`, model correspondence, x/image/ccitt):

* K = 0 with EndOfLine (EOL code before each row; with EncodedByteAlign the fill bits precede it)
* IgnoreEndOfBlock (termination by `/Rows`, look-ahead beyond the end of the data: `srcErr`/`fake`)
* K > 0 (rows tagged 1-D/2-D, RTC of six EOL+1) -/
def provedClass (f : FCCITT) : Prop :=
  f.ignoreEOB = false ∧ (f.k < 0 ∨ (f.k = 0 ∧ f.endOfLine = false))

/-- **`ccitt_rt_statement` for Group 4 and Group 3 1-D without EOL codes, with the end-of-block
pattern, with AND without EncodedByteAlign** (`C06faC.ccitt_rt_g4_g31d` covers
`EncodedByteAlign = false`) -/
theorem ccitt_rt_supported_partial : ccitt_rt_supported_statement provedClass := by
  intro f rows hv hadm hrows ⟨hig, hmode⟩
  by_cases hal : f.byteAlign = false
  · exact ccitt_rt_g4_g31d f rows hv hadm hrows hig hal hmode
  · have hal : f.byteAlign = true := by simpa using hal
    have hcols : 0 < f.encParams.columns := by
      unfold FCCITT.validate at hv
      show 0 < f.cols.toNat
      unfold FCCITT.cols
      split at hv
      · simp at hv
      · rename_i h1
        split <;> omega
    obtain ⟨hadm1, hadm2⟩ := hadm
    have hk : f.encParams.k = f.k := rfl
    have heol : f.encParams.endOfLine = f.endOfLine := rfl
    have hM : f.decodeMaxRows.toNat = 0 ∨ rows.length ≤ f.decodeMaxRows.toNat := by right; omega
    show decodeAll { f.encParams with maxRows := f.decodeMaxRows.toNat } _ = _
    rcases hmode with hm | ⟨hm, he⟩
    · exact ccitt_g4_stream_rtA f.encParams _ rows (by rw [hk]; exact hm) hal hig hcols hadm1 hadm2 hM
    · exact ccitt_g3_1d_stream_rtA f.encParams _ rows (by rw [hk]; exact hm) (by rw [heol]; exact he) hal hig hcols hadm1 hadm2 hM

/-- the full statement follows from the supported statement for the predicate `True`; what is
missing for it are exactly the three validated classes listed at `provedClass` -/
theorem full_of_supported_true : ccitt_rt_supported_statement (fun _ => True) → ccitt_rt_statement :=
  fun h f rows hv hadm hrows => h f rows hv hadm hrows trivial

-- non-vacuity: byte-aligned Group 4 and Group 3 1-D parameter sets with rows that meet every
-- hypothesis, and the round trip itself evaluated by the kernel on the same inputs
example : (⟨-1, false, true, 3, 0, false, false, 0⟩ : FCCITT).validate = true ∧
    ccittAdmissible (⟨-1, false, true, 3, 0, false, false, 0⟩ : FCCITT).encParams w3 ∧
    provedClass ⟨-1, false, true, 3, 0, false, false, 0⟩ := by
  refine ⟨by decide, by decide, rfl, Or.inl (by decide)⟩
example : (⟨0, false, true, 10, 0, false, true, 0⟩ : FCCITT).validate = true ∧
    ccittAdmissible (⟨0, false, true, 10, 0, false, true, 0⟩ : FCCITT).encParams [[0xAA, 0x80], [0xFF, 0xC0]] ∧
    provedClass ⟨0, false, true, 10, 0, false, true, 0⟩ := by
  refine ⟨by decide, by decide, rfl, Or.inr ⟨rfl, rfl⟩⟩
example : decodeAll (⟨0, false, true, 10, 0, false, true, 0⟩ : FCCITT).decParams
    (encodeAll (⟨0, false, true, 10, 0, false, true, 0⟩ : FCCITT).encParams [0xAA, 0x80, 0xFF, 0xC0]).1 =
      ([0xAA, 0x80, 0xFF, 0xC0], 1) := by decide +kernel
-- the fill bits are really there: the aligned encoding is longer than the unaligned one
example : (encodeAll (⟨-1, false, true, 3, 0, false, false, 0⟩ : FCCITT).encParams w3.flatten).1.length = 8 ∧
    (encodeAll (⟨-1, false, false, 3, 0, false, false, 0⟩ : FCCITT).encParams w3.flatten).1.length = 4 := by decide +kernel

end PdfVerif.C06fbA

import PdfVerif.Props.C03fio
import PdfVerif.Props.C02fiod
/-!
# C02 (work package FIO) — the whole-file round trip for classic cross-reference tables

`file_rt_table`: what a reader finds in a file produced by the writer model in table mode.
The chain: `findXRef` (last `startxref`) finds the table; `readXRefSubsections` yields the
writer's map; `readerGet` seeks to the entry and `readIndirectObject` returns the object that was
written there.  The document that must be found is the ghost field `WState.doc` of the writer
model (every plain object that reached the file, with its reference).
-/
namespace PdfVerif.C02fioe
open PdfVerif PdfVerif.FIO PdfVerif.C02fio PdfVerif.C02fiob PdfVerif.C02fioc PdfVerif.C02fiod
open PdfVerif.C01b PdfVerif.C01L PdfVerif.C01d

/-! ## finding the table -/

theorem firstIdx_skip (pat : Bytes) (p0 : Nat) (ps : Bytes) (hpat : pat = p0 :: ps) (a : Bytes) :
    ∀ (b : Bytes) (i : Nat), (∀ c ∈ a, c ≠ p0) →
      firstIdx pat (a ++ b) i = firstIdx pat b (i + a.length) := by
  induction a with
  | nil => intro b i _; simp
  | cons x xs ih =>
    intro b i h
    have hx : x ≠ p0 := h x (by simp)
    have hb : (p0 == x) = false := by simp; exact fun h => hx h.symm
    simp only [List.cons_append, firstIdx, hpat, isPrefixOf, hb, Bool.false_and, Bool.false_eq_true, ↓reduceIte]
    rw [← hpat, ih b (i + 1) (fun c hc => h c (by simp [hc]))]
    congr 1; simp; omega

theorem isPrefixOf_self (p rest : Bytes) : isPrefixOf p (p ++ rest) = true := by
  induction p with
  | nil => simp [isPrefixOf]
  | cons x xs ih => simp [isPrefixOf, ih]

/-- the last `startxref` of a file that ends as `Close` ends it is that of `Close` -/
theorem lastOccurrence_tail (pre : Bytes) (p : Nat) (hp : p < 10 ^ 19) :
    lastOccurrence kwStartxrefR (pre ++ [10] ++ kStartxref ++ decOf p ++ kEOF) = some (pre.length + 1) := by
  obtain ⟨hall, _, _, _⟩ := decOf_spec p 19 hp (by omega)
  have hrev : (pre ++ [10] ++ kStartxref ++ decOf p ++ kEOF).reverse
      = (kEOF.reverse ++ (decOf p).reverse ++ [10]) ++ (kwStartxrefR.reverse ++ (10 :: pre.reverse)) := by
    simp [kStartxref, kwStartxrefR]
  have hno : ∀ c ∈ kEOF.reverse ++ (decOf p).reverse ++ [10], c ≠ 102 := by
    intro c hc
    simp only [List.mem_append, List.mem_reverse, List.mem_singleton] at hc
    rcases hc with (hc | hc) | hc
    · simp [kEOF] at hc; omega
    · have := List.all_eq_true.1 hall c hc
      simp [isDigit] at this; omega
    · omega
  unfold lastOccurrence
  rw [hrev, firstIdx_skip kwStartxrefR.reverse 102 [101, 114, 120, 116, 114, 97, 116, 115] (by decide) _ _ 0 hno]
  have : firstIdx kwStartxrefR.reverse (kwStartxrefR.reverse ++ (10 :: pre.reverse))
      (0 + (kEOF.reverse ++ (decOf p).reverse ++ [10]).length) = some (0 + (kEOF.reverse ++ (decOf p).reverse ++ [10]).length) := by
    have h := isPrefixOf_self kwStartxrefR.reverse (10 :: pre.reverse)
    cases hk : kwStartxrefR.reverse ++ (10 :: pre.reverse) with
    | nil => simp [kwStartxrefR] at hk
    | cons c cs => rw [hk] at h; simp [firstIdx, h]
  rw [this]
  simp [kEOF, kStartxref, kwStartxrefR]
  omega

/-- **findXRef** on a file ending in `… EOL startxref\n p \n%%EOF\n` returns `p` -/
theorem findXRef_tail (pre : Bytes) (p : Nat) (hp0 : 0 < p)
    (hp : p < (pre ++ [10] ++ kStartxref ++ decOf p ++ kEOF).length) (hp63 : p ≤ 9223372036854775807) :
    findXRef (pre ++ [10] ++ kStartxref ++ decOf p ++ kEOF) 0 = .ok p := by
  have hdrop : (pre ++ [10] ++ kStartxref ++ decOf p ++ kEOF).drop (pre.length + 1 + 9)
      = 10 :: (decOf p ++ kEOF) := by
    have : pre ++ [10] ++ kStartxref ++ decOf p ++ kEOF = (pre ++ [10] ++ kwStartxrefR) ++ (10 :: (decOf p ++ kEOF)) := by
      simp [kStartxref, kwStartxrefR]
    rw [this, List.drop_left' (by simp [kwStartxrefR])]
  have hri : readIntegerE (10 :: (decOf p ++ kEOF)) = .ok ((p : Int), kEOF) := by
    rw [readIntegerE_ws 10 (.inr rfl)]
    exact readIntegerE_decOf p hp63 kEOF (by simp [kEOF, NumEnd, isDigit])
  have hlo := lastOccurrence_tail pre p (by omega)
  generalize pre ++ [10] ++ kStartxref ++ decOf p ++ kEOF = file at hp hdrop hlo
  unfold findXRef
  rw [hlo]
  simp only [hdrop, hri]
  have hc : (decide ((p : Int) ≤ 0) || decide ((p : Int) ≥ (file.length : Int) - ((0 : Nat) : Int))) = false := by
    simp; omega
  simp only [hc, Bool.false_eq_true, ↓reduceIte, Int.toNat_natCast, Nat.add_zero]


/-! ## reading the table -/

theorem i64_small (n : Nat) (h : n < 9223372036854775808) : i64 (n : Int) = (n : Int) := by
  unfold i64 two63 two64
  rw [Int.emod_eq_of_lt (by omega) (by omega)]
  omega

theorem u32_small (n : Nat) (h : n < 4294967296) : u32 (n : Int) = n := by
  unfold u32 two32
  rw [Int.emod_eq_of_lt (by omega) (by omega)]
  simp

theorem decOf_zero : decOf 0 = [48] := by decide

/-- a non-empty run of table lines starts with a digit -/
theorem xrefLines_head (m : XMap) (i k : Nat)
    (h : ∀ x, m.get i = some x → x.pos < 10000000000 ∧ x.gen ≤ 65535) (rest : Bytes) :
    ∃ c t, xrefLines m i (k + 1) ++ rest = c :: t ∧ isDigit c = true := by
  have key : ∀ p g c', ∃ c t, tabLine p g c' ++ (xrefLines m (i + 1) k ++ rest) = c :: t ∧ isDigit c = true := by
    intro p g c'
    have hd := fixDec_digits 10 p
    cases hf : fixDec 10 p with
    | nil => have := fixDec_length 10 p; rw [hf] at this; simp at this
    | cons d ds =>
      rw [hf] at hd
      refine ⟨d, ds ++ ([32] ++ fixDec 5 g ++ [32, c', 13, 10] ++ (xrefLines m (i + 1) k ++ rest)), ?_, ?_⟩
      · simp [tabLine, hf]
      · simp at hd; exact hd.1
  simp only [xrefLines, List.append_assoc]
  cases hg : m.get i with
  | none => rw [xrefLine_eq none (by simp)]; exact key _ _ _
  | some x =>
    rw [xrefLine_eq (some x) (by intro y hy; cases hy; exact h x hg)]
    simp only; split <;> exact key _ _ _

theorem skipWS_nonspace (c : Nat) (t : Bytes) (h1 : isSpace c = false) (h2 : c ≠ 37) :
    skipWS (c :: t) = (c :: t, false) := by
  have : (c == 37) = false := by simp [h2]
  simp [skipWS, this, h1]

theorem subsections_step (fuel : Nat) (m : XMap) (c : Nat) (t : Bytes) (start length : Int)
    (r1 r2 r3 r4 r5 : Bytes) (m' : XMap) (hd : isDigit c = true)
    (e1 : readIntegerE (c :: t) = .ok (start, r1)) (e2 : readIntegerE r1 = .ok (length, r2))
    (hchk : (decide (start < 0) || decide (length < 0) || decide (start ≥ (Gen.fio_maxXRefSize : Nat)) ||
      decide (i64 (start + length) > (Gen.fio_maxXRefSize : Nat))) = false)
    (e3 : skipWS r2 = (r3, false))
    (hdec : decodeXRefSection (u32 start) m r3 (u32 start) 0 (u32 (i64 (start + length)) - u32 start) = .ok (m', r4))
    (e5 : skipWS r4 = (r5, false)) :
    readXRefSubsections (fuel + 1) m (c :: t) = readXRefSubsections fuel m' r5 := by
  rw [readXRefSubsections]
  simp only [hd, Bool.not_true, Bool.false_eq_true, ↓reduceIte, e1, e2, hchk, e3, hdec, e5]

theorem subsections_stop (fuel : Nat) (m : XMap) (c : Nat) (t : Bytes) (hd : isDigit c = false) :
    readXRefSubsections (fuel + 1) m (c :: t) = .ok (m, c :: t) := by
  rw [readXRefSubsections]
  simp [hd]

/-- **The reader's subsection loop on the writer's table.**  Behind `xref` EOL, the reader finds
the subsection `0 N`, decodes exactly the `N` lines into the writer's map (free for never-written
numbers) and stops at the `trailer` keyword. -/
theorem readXRefSubsections_table (m : XMap) (n : Nat) (tail : Bytes) (fuel : Nat) (hfuel : 2 ≤ fuel)
    (hn : n ≤ Gen.fio_maxXRefSize)
    (hok : ∀ j, j < n → ∀ x, m.get j = some x → x.pos < 10000000000 ∧ x.gen ≤ 65535) :
    ∃ m', readXRefSubsections fuel []
        ([48, 32] ++ decOf n ++ [10] ++ xrefLines m 0 n ++ (kwTrailer ++ tail)) = .ok (m', kwTrailer ++ tail) ∧
      (∀ j, j < n → m'.get j = some (normTab (m.get j))) ∧ (∀ j, n ≤ j → m'.get j = none) := by
  obtain ⟨m', hdec, h1, h2⟩ := xref_table_rt m n (kwTrailer ++ tail) hok
  refine ⟨m', ?_, h1, h2⟩
  obtain ⟨f, rfl⟩ : ∃ f, fuel = f + 2 := ⟨fuel - 2, by omega⟩
  have hn' : n < 9223372036854775808 := by simp [Gen.fio_maxXRefSize] at hn; omega
  have hin : [48, 32] ++ decOf n ++ [10] ++ xrefLines m 0 n ++ (kwTrailer ++ tail)
      = decOf 0 ++ (32 :: (decOf n ++ (10 :: (xrefLines m 0 n ++ (kwTrailer ++ tail))))) := by
    simp [decOf_zero]
  have e1 : readIntegerE (decOf 0 ++ (32 :: (decOf n ++ (10 :: (xrefLines m 0 n ++ (kwTrailer ++ tail))))))
      = .ok ((0 : Int), 32 :: (decOf n ++ (10 :: (xrefLines m 0 n ++ (kwTrailer ++ tail))))) := by
    have := readIntegerE_decOf 0 (by omega) (32 :: (decOf n ++ (10 :: (xrefLines m 0 n ++ (kwTrailer ++ tail)))))
      (by simp [NumEnd, isDigit])
    simpa using this
  have e2 : readIntegerE (32 :: (decOf n ++ (10 :: (xrefLines m 0 n ++ (kwTrailer ++ tail)))))
      = .ok ((n : Int), 10 :: (xrefLines m 0 n ++ (kwTrailer ++ tail))) := by
    rw [readIntegerE_ws 32 (.inl rfl)]
    exact readIntegerE_decOf n (by omega) _ (by simp [NumEnd, isDigit])
  have ht : skipWS (kwTrailer ++ tail) = (kwTrailer ++ tail, false) := by
    have h116 : isSpace 116 = false := by decide +kernel
    exact skipWS_nonspace 116 _ h116 (by omega)
  have e3 : skipWS (10 :: (xrefLines m 0 n ++ (kwTrailer ++ tail))) = (xrefLines m 0 n ++ (kwTrailer ++ tail), false) := by
    rw [skipWS_space 10 (.inr rfl)]
    cases n with
    | zero => simpa [xrefLines] using ht
    | succ k =>
      obtain ⟨c, t, hct, hc⟩ := xrefLines_head m 0 k (hok 0 (by omega)) (kwTrailer ++ tail)
      rw [hct]
      obtain ⟨h37, hsp⟩ := digit_facts c (isDigit_lt c hc) hc
      exact skipWS_nonspace c t hsp (by simpa using h37)
  have hu0 : u32 (0 : Int) = 0 := u32_small 0 (by omega)
  have hun : u32 (i64 ((0 : Int) + (n : Int))) = n := by
    rw [Int.zero_add, i64_small n hn']
    exact u32_small n (by simp [Gen.fio_maxXRefSize] at hn; omega)
  have hchk : (decide ((0 : Int) < 0) || decide ((n : Int) < 0) || decide ((0 : Int) ≥ (Gen.fio_maxXRefSize : Nat)) ||
      decide (i64 ((0 : Int) + (n : Int)) > (Gen.fio_maxXRefSize : Nat))) = false := by
    rw [Int.zero_add, i64_small n hn']
    simp [Gen.fio_maxXRefSize] at hn ⊢; omega
  have e1' : readIntegerE (48 :: (32 :: (decOf n ++ (10 :: (xrefLines m 0 n ++ (kwTrailer ++ tail))))))
      = .ok ((0 : Int), 32 :: (decOf n ++ (10 :: (xrefLines m 0 n ++ (kwTrailer ++ tail))))) := by
    rw [← e1]; simp [decOf_zero]
  rw [show [48, 32] ++ decOf n ++ [10] ++ xrefLines m 0 n ++ (kwTrailer ++ tail)
      = 48 :: (32 :: (decOf n ++ (10 :: (xrefLines m 0 n ++ (kwTrailer ++ tail))))) by simp]
  rw [subsections_step (f + 1) [] 48 _ 0 n _ _ _ _ _ m' (by decide) e1' e2 hchk e3
    (by rw [hu0, hun]; exact hdec) ht]
  have h116 : isDigit 116 = false := by decide
  exact subsections_stop f m' 116 _ h116

/-! ## the document invariant: every plain object that reached the file stays where its entry points -/

/-- the plain object `x = (n, g, o)` is in the file: the entry of `n` is in use with generation
    `g`, and at its offset stand `n g obj`, the formatted object and `endobj`; the seek-back
    patch of an open stream lies behind it -/
def DocAt (s : WState) (x : Nat × Nat × Obj) : Prop :=
  ∃ e body, s.xref.get x.1 = some e ∧ e.gen = x.2.1 ∧ e.inStream = 0 ∧ 0 ≤ e.pos ∧
    wformat s.opts [x.2.2] = some body ∧
    At s.out e.pos.toNat (objHeader x.1 x.2.1 ++ body ++ kEndobj) ∧
    ∀ st p, s.stm = some st → st.patchPos = some p →
      e.pos.toNat + (objHeader x.1 x.2.1 ++ body ++ kEndobj).length ≤ p

/-- how an operation may change the state: options fixed, entries only added, bytes only
    appended or patched at the patch position of the open stream, new patch positions lie in
    the new bytes, new document objects are in the file -/
structure Grow (s s' : WState) : Prop where
  opts : s'.opts = s.opts
  mono : Mono s s'
  len : s.out.length ≤ s'.out.length
  keep : ∀ pos h, At s.out pos h →
    (∀ st p, s.stm = some st → st.patchPos = some p → pos + h.length ≤ p) → At s'.out pos h
  patch : ∀ st' p', s'.stm = some st' → st'.patchPos = some p' →
    (∃ st, s.stm = some st ∧ st.patchPos = some p') ∨ s.out.length ≤ p'
  doc : ∀ x, x ∈ s'.doc → x ∈ s.doc ∨ DocAt s' x
  docmono : ∀ x, x ∈ s.doc → x ∈ s'.doc

theorem DocAt.grow {a b : WState} {x : Nat × Nat × Obj} (hd : DocAt a x) (hg : Grow a b) : DocAt b x := by
  obtain ⟨e, body, h1, h2, h3, h4, h5, h6, h7⟩ := hd
  refine ⟨e, body, hg.mono _ _ h1, h2, h3, h4, by rw [hg.opts]; exact h5, hg.keep _ _ h6 h7, ?_⟩
  intro st' p' hs hp
  rcases hg.patch st' p' hs hp with ⟨st, ha, hb⟩ | hle
  · exact h7 st p' ha hb
  · have := h6.end_le; omega

theorem Grow.refl (s : WState) : Grow s s :=
  ⟨rfl, Mono.refl s, Nat.le_refl _, fun _ _ h _ => h, fun st _ h1 h2 => .inl ⟨st, h1, h2⟩, fun _ h => .inl h, fun _ h => h⟩

theorem Grow.trans {a b c : WState} (h1 : Grow a b) (h2 : Grow b c) : Grow a c := by
  refine ⟨by rw [h2.opts, h1.opts], h1.mono.trans h2.mono, Nat.le_trans h1.len h2.len, ?_, ?_, ?_,
    fun x hx => h2.docmono x (h1.docmono x hx)⟩
  · intro pos h ha hb
    refine h2.keep pos h (h1.keep pos h ha hb) ?_
    intro st' p' hs hp
    rcases h1.patch st' p' hs hp with ⟨st, hx, hy⟩ | hle
    · exact hb st p' hx hy
    · have := ha.end_le; omega
  · intro st'' p'' hs hp
    rcases h2.patch st'' p'' hs hp with ⟨st', hx, hy⟩ | hle
    · exact h1.patch st' p'' hx hy
    · exact .inr (Nat.le_trans h1.len hle)
  · intro x hx
    rcases h2.doc x hx with hb | hd
    · rcases h1.doc x hb with ha | hd
      · exact .inl ha
      · exact .inr (hd.grow h2)
    · exact .inr hd

/-- an operation that only appends bytes -/
theorem grow_append {s s' : WState} (hopts : s'.opts = s.opts) (hm : Mono s s') (bs : Bytes)
    (hout : s'.out = s.out ++ bs)
    (hp : ∀ st' p', s'.stm = some st' → st'.patchPos = some p' →
      (∃ st, s.stm = some st ∧ st.patchPos = some p') ∨ s.out.length ≤ p')
    (hdoc : s'.doc = s.doc) : Grow s s' :=
  ⟨hopts, hm, by rw [hout]; simp, fun pos h ha _ => by rw [hout]; exact ha.append bs, hp,
   fun x hx => .inl (by rw [← hdoc]; exact hx), fun x hx => by rw [hdoc]; exact hx⟩

theorem alloc_grow {s s' : WState} {r : Nat} (h : alloc s = some (s', r)) :
    Grow s s' ∧ s'.stm = s.stm ∧ s'.out = s.out ∧ s'.doc = s.doc ∧ s'.pos = s.pos := by
  unfold alloc at h
  split at h
  · simp at h
  · simp only [Option.some.injEq, Prod.mk.injEq] at h
    obtain ⟨rfl, _⟩ := h
    exact ⟨grow_append rfl (Mono.of_eq rfl) [] (by simp) (fun st p h1 h2 => .inl ⟨st, h1, h2⟩) rfl, rfl, rfl, rfl, rfl⟩

theorem putPlain_grow {s s' : WState} {num gen : Nat} {o : Obj} (hi : Inv s) (hs : s.stm = none)
    (h : putPlain s num gen o = .ok s') : Grow s s' := by
  have hm := putPlain_mono h
  unfold putPlain at h
  split at h
  · simp at h
  · rename_i x n hset
    obtain ⟨hnone, hx, hn1, hn2⟩ := setXRef_ok hset
    split at h
    · simp at h
    · rename_i body hb
      simp only [Except.ok.injEq] at h
      subst h
      refine ⟨by simp [emit], hm, by simp [emit], fun pos h ha _ => by simp only [emit]; exact ha.append _,
        fun st p h1 => by simp [emit, hs] at h1, ?_, fun x hx => by simp [emit, hx]⟩
      intro y hy
      simp only [emit, List.mem_append, List.mem_singleton] at hy
      rcases hy with hy | hy
      · exact .inl hy
      · right
        subst hy
        refine ⟨{ inStream := 0, pos := s.pos, gen := gen }, body, ?_, rfl, rfl, by simp, by simpa [emit] using hb, ?_, ?_⟩
        · simp only [emit]; rw [hx, C02fiob.get_set]; simp
        · simp only [emit, hi.pos_eq, Int.toNat_natCast]
          have := At.here s.out (objHeader num gen ++ body ++ kEndobj) (prettyNL s.opts)
          simpa [List.append_assoc] using this
        · intro st p h1; simp [emit, hs] at h1

theorem openStream_grow {s s' : WState} {num gen : Nat} {dict : List (Bytes × Obj)} {ul : Option Int}
    (h : openStream s num gen dict ul = .ok s') : Grow s s' := by
  have hm := openStream_mono h
  unfold openStream at h
  split at h
  · simp at h
  · split at h
    · simp at h
    · simp only [Except.ok.injEq] at h
      subst h
      exact grow_append rfl hm [] (by simp) (fun st _ h1 h2 => by
        simp only [Option.some.injEq] at h1; subst h1; simp at h2) rfl

/-- `startWriting` appends the header, the dictionary and the buffered bytes; a patch position,
    if one is recorded, lies in the new bytes -/
theorem startWriting_shape {s s3 : WState} {st st' : OpenStm} {known : Option Nat}
    (hi : Inv s) (h : startWriting s st known = .ok (s3, st')) :
    (∃ bs, s3.out = s.out ++ bs) ∧ s3.doc = s.doc ∧ s3.stm = s.stm ∧
      (∀ p, st'.patchPos = some p → s.out.length ≤ p) := by
  unfold startWriting at h
  simp only at h
  split at h
  · simp at h
  · rename_i s1 st1 value hsel
    have hsame : s1.out = s.out ∧ s1.pos = s.pos ∧ s1.stm = s.stm ∧ s1.doc = s.doc := by
      split at hsel
      · simp only [Option.some.injEq, Prod.mk.injEq] at hsel
        obtain ⟨rfl, rfl, rfl⟩ := hsel
        simp
      · split at hsel
        · simp only [Option.some.injEq, Prod.mk.injEq] at hsel
          obtain ⟨rfl, rfl, rfl⟩ := hsel
          simp
        · split at hsel
          · simp only [Option.some.injEq, Prod.mk.injEq] at hsel
            obtain ⟨rfl, rfl, rfl⟩ := hsel
            simp
          · split at hsel
            · simp at hsel
            · rename_i sa r ha
              simp only [Option.some.injEq, Prod.mk.injEq] at hsel
              obtain ⟨rfl, rfl, rfl⟩ := hsel
              obtain ⟨_, h1, h2, h3, h4⟩ := alloc_grow ha
              exact ⟨h2, h4, h1, h3⟩
    obtain ⟨ho, hp, hstm, hdoc⟩ := hsame
    split at h
    · simp at h
    · rename_i dictBytes off hfd
      simp only [Except.ok.injEq, Prod.mk.injEq] at h
      obtain ⟨h3, hst'⟩ := h
      subst h3; subst hst'
      refine ⟨⟨_, by simp only [emit, ho, List.append_assoc]; rfl⟩, by simp [emit, hdoc], by simp [emit, hstm], ?_⟩
      intro p hpp
      simp only at hpp
      split at hpp
      · simp only [Option.some.injEq] at hpp
        subst hpp
        rw [hp, hi.pos_eq]; omega
      · simp at hpp

theorem streamWrite_grow {s s' : WState} {p : Bytes} (hi : Inv s) (h : streamWrite s p = .ok s') :
    Grow s s' := by
  have hm := streamWrite_mono h
  unfold streamWrite at h
  split at h
  · simp at h
  · rename_i st hs
    split at h
    · simp only [Except.ok.injEq] at h
      subst h
      exact grow_append rfl hm p rfl (fun st' p' h1 h2 => .inl ⟨st', h1, h2⟩) rfl
    · rename_i hst
      have hst' : st.started = false := by simpa using hst
      split at h
      · simp only [Except.ok.injEq] at h
        subst h
        refine grow_append rfl hm [] (by simp) (fun st' p' h1 h2 => ?_) rfl
        simp only [Option.some.injEq] at h1
        subst h1
        exact .inl ⟨st, hs, h2⟩
      · split at h
        · simp at h
        · rename_i s1 st1 hsw
          simp only [Except.ok.injEq] at h
          subst h
          obtain ⟨⟨bs, hout⟩, hdoc, _, hpp⟩ := startWriting_shape hi hsw
          obtain ⟨_, _, _, hop, _, _⟩ := startWriting_inv hi hs hst' hsw
          refine grow_append (by simp [emit, hop]) hm (bs ++ p) (by simp [emit, hout]) (fun st' p' h1 h2 => ?_)
            (by simp [emit, hdoc])
          simp only [emit, Option.some.injEq] at h1
          subst h1
          exact .inr (hpp p' h2)

theorem closeLength_grow {s s1 : WState} {st st1 : OpenStm} {len : Nat} (hi : Inv s) (hs : s.stm = some st)
    (hr : closeLength s st = .ok (s1, st1, len)) : Grow s s1 ∧ s1.stm = s.stm := by
  unfold closeLength at hr
  split at hr
  · simp only at hr
    split at hr
    · simp only [Except.ok.injEq, Prod.mk.injEq] at hr
      obtain ⟨rfl, rfl, rfl⟩ := hr
      exact ⟨grow_append rfl (Mono.of_eq rfl) [] (by simp) (fun st' p' h1 h2 => .inl ⟨st', h1, h2⟩) rfl, rfl⟩
    · rename_i p hlr hpp
      split at hr
      · simp at hr
      · rename_i hlen
        simp only [Except.ok.injEq, Prod.mk.injEq] at hr
        obtain ⟨rfl, rfl, rfl⟩ := hr
        obtain ⟨hp12, _⟩ := hi.patch st p hs hpp
        have hlen' := patchAt_length s.out p (decOf (s.pos - st.startPos)) (by omega)
        refine ⟨⟨rfl, Mono.of_eq rfl, by simp [hlen'], ?_, fun st' p' h1 h2 => .inl ⟨st', h1, h2⟩, fun x hx => .inl hx, fun x hx => hx⟩, rfl⟩
        intro pos h ha hb
        exact ha.patch p _ (hb st p hs hpp)
    · simp only [Except.ok.injEq, Prod.mk.injEq] at hr
      obtain ⟨rfl, rfl, rfl⟩ := hr
      exact ⟨Grow.refl _, rfl⟩
  · rename_i hstarted
    have hst' : st.started = false := by simpa using hstarted
    simp only at hr
    split at hr
    · simp at hr
    · rename_i sx stx hsw
      simp only [Except.ok.injEq, Prod.mk.injEq] at hr
      obtain ⟨rfl, rfl, rfl⟩ := hr
      obtain ⟨⟨bs, hout⟩, hdoc, hstm, _⟩ := startWriting_shape hi hsw
      obtain ⟨_, _, _, hop, hx, _⟩ := startWriting_inv hi hs hst' hsw
      refine ⟨grow_append hop (Mono.of_eq hx) bs hout (fun st' p' h1 h2 => ?_) hdoc, hstm⟩
      rw [hstm] at h1
      exact .inl ⟨st', h1, h2⟩

/-- what the replay loop needs from the way deferred stream objects are written -/
def PutSGrow (putS : WState → Nat → Nat → List (Bytes × Obj) → Option Int → Bytes → Except Err WState) : Prop :=
  ∀ {s s' : WState} {n g : Nat} {d : List (Bytes × Obj)} {ul : Option Int} {raw : Bytes},
    Inv s → s.stm = none → putS s n g d ul raw = .ok s' → Grow s s'

theorem replayWith_grow {putS} (hput : PutSOk putS) (hg : PutSGrow putS) (l : List (Nat × Nat × PutObj)) :
    ∀ {s s' : WState}, Inv s → s.stm = none → replayWith putS s l = .ok s' → Grow s s' := by
  induction l with
  | nil => intro s s' hi hs h; simp [replayWith] at h; subst h; exact Grow.refl _
  | cons x rest ih =>
    intro s s' hi hs h
    obtain ⟨num, gen, po⟩ := x
    cases po with
    | plain o =>
      simp only [replayWith] at h
      split at h
      · simp at h
      · rename_i s1 hp
        obtain ⟨hi1, hs1, _, _, _⟩ := putPlain_inv hi hs hp
        exact (putPlain_grow hi hs hp).trans (ih hi1 hs1 h)
    | stream d ul raw =>
      simp only [replayWith] at h
      split at h
      · simp at h
      · rename_i s1 hp
        obtain ⟨hi1, hs1, _⟩ := hput hi hs hp
        exact (hg hi hs hp).trans (ih hi1 hs1 h)

theorem streamCloseWith_grow {putS} (hput : PutSOk putS) (hg : PutSGrow putS) {s s' : WState} (hi : Inv s)
    (h : streamCloseWith putS s = .ok s') : Grow s s' := by
  unfold streamCloseWith at h
  split at h
  · simp at h
  · rename_i st hs
    split at h
    · simp at h
    · rename_i s1 st1 len hr
      obtain ⟨stx, hi1, hstx, hop1⟩ := closeLength_inv hi hs hr
      obtain ⟨g1, _⟩ := closeLength_grow hi hs hr
      by_cases hc : lengthMismatch st.userLen len = true
      · simp [hc] at h
      · rw [if_neg hc] at h
        simp only at h
        have hi2 : Inv (emit { s1 with stm := some stx } (kEndstream ++ prettyNL s.opts)) :=
          emit_inv hi1 _ (fun st0 h0 => by simp at h0; subst h0; exact hstx)
        have hi3 := dropStm_inv hi2 (fun st0 h0 => by simp [emit] at h0; subst h0; exact hstx)
        have hi4 : ∀ sd, Inv ({ emit s1 (kEndstream ++ prettyNL s.opts) with stm := none, after := [], sdoc := sd } : WState) :=
          fun sd => ⟨hi3.pos_eq, hi3.entries, fun st2 p2 h1 => by simp at h1, hi3.below, hi3.npos⟩
        have g2 : ∀ sd, Grow s1 ({ emit s1 (kEndstream ++ prettyNL s.opts) with stm := none, after := [], sdoc := sd } : WState) :=
          fun sd => grow_append rfl (Mono.of_eq rfl) (kEndstream ++ prettyNL s.opts) rfl (fun st' p' h1 => by simp at h1) rfl
        exact (g1.trans (g2 _)).trans (replayWith_grow hput hg _ (hi4 _) rfl h)

theorem putStreamWith_grow {close : WState → Except Err WState}
    (hclose : ∀ {s s' : WState}, Inv s → close s = .ok s' → Grow s s')
    {s s' : WState} {num gen : Nat} {d : List (Bytes × Obj)} {ul : Option Int} {raw : Bytes}
    (hi : Inv s) (h : putStreamWith close s num gen d ul raw = .ok s') : Grow s s' := by
  unfold putStreamWith at h
  split at h
  · simp at h
  · rename_i s1 h1
    obtain ⟨i1, _, _, _, _, _⟩ := openStream_inv hi h1
    split at h
    · simp at h
    · rename_i s2 h2
      obtain ⟨i2, _, _, _, _⟩ := streamWrite_inv i1 h2
      exact ((openStream_grow h1).trans (streamWrite_grow i1 h2)).trans (hclose i2 h)

theorem noDeferredStream_grow : PutSGrow noDeferredStream := by
  intro s s' n g d ul raw _ _ h; simp [noDeferredStream] at h

theorem streamClose0_grow {s s' : WState} (hi : Inv s) (h : streamClose0 s = .ok s') : Grow s s' :=
  streamCloseWith_grow noDeferredStream_ok noDeferredStream_grow hi h

theorem putStream0_grow : PutSGrow putStream0 := by
  intro s s' n g d ul raw hi _ h
  exact putStreamWith_grow (fun hi h => streamClose0_grow hi h) hi h

theorem streamClose_grow {s s' : WState} (hi : Inv s) (h : streamClose s = .ok s') : Grow s s' :=
  streamCloseWith_grow putStream0_ok putStream0_grow hi h

theorem putStream_grow {s s' : WState} {num gen : Nat} {d : List (Bytes × Obj)} {ul : Option Int} {raw : Bytes}
    (hi : Inv s) (h : putStream s num gen d ul raw = .ok s') : Grow s s' :=
  putStreamWith_grow (fun hi h => streamClose_grow hi h) hi h

theorem put_grow {s s' : WState} {num gen : Nat} {o : PutObj} (hi : Inv s) (h : put s num gen o = .ok s') :
    Grow s s' := by
  unfold put at h
  split at h
  · simp only [Except.ok.injEq] at h
    subst h
    exact grow_append rfl (Mono.of_eq rfl) [] (by simp) (fun st' p' h1 h2 => .inl ⟨st', h1, h2⟩) rfl
  · rename_i hs
    split at h
    · exact putPlain_grow hi hs h
    · exact putStream_grow hi h

theorem putAll_grow (l : List (Nat × Nat × Obj)) :
    ∀ {s s' : WState}, Inv s → s.stm = none → putAll s l = .ok s' → Grow s s' := by
  induction l with
  | nil => intro s s' hi hs h; simp [putAll] at h; subst h; exact Grow.refl _
  | cons x rest ih =>
    intro s s' hi hs h
    obtain ⟨num, gen, o⟩ := x
    simp only [putAll] at h
    split at h
    · simp at h
    · rename_i s1 hp
      obtain ⟨i1, _, n1⟩ := put_inv hi hp
      exact (put_grow hi hp).trans (ih i1 (n1 hs) h)

theorem writeCompressed_grow {s s' : WState} {items : List (Nat × Nat × Obj)} {raws : List Bytes}
    (hi : Inv s) (hobj : s.opts.objStm = false) (h : writeCompressed s items raws = .ok s') : Grow s s' := by
  unfold writeCompressed at h
  split at h
  · simp at h
  · rename_i hs
    have hs' : s.stm = none := by simpa using hs
    split at h
    · simp at h
    · split at h
      · simp only [Except.ok.injEq] at h; subst h; exact Grow.refl _
      · simp only [hobj, Bool.not_false, ↓reduceIte] at h
        exact putAll_grow items hi hs' h

theorem optPut_grow {s s' : WState} {o : Option Obj} {r : Option Nat} (hi : Inv s) (_hs : s.stm = none)
    (h : optPut s o = .ok (s', r)) : Grow s s' := by
  unfold optPut at h
  split at h
  · simp only [Except.ok.injEq, Prod.mk.injEq] at h
    obtain ⟨rfl, _⟩ := h
    exact Grow.refl _
  · split at h
    · simp at h
    · rename_i s1 r1 ha
      obtain ⟨i1, _⟩ := alloc_inv hi ha
      obtain ⟨g1, _⟩ := alloc_grow ha
      split at h
      · simp at h
      · rename_i s2 hp
        simp only [Except.ok.injEq, Prod.mk.injEq] at h
        obtain ⟨rfl, _⟩ := h
        exact g1.trans (put_grow i1 hp)

theorem close_grow {s s' : WState} {cat : Obj} {info : Option Obj} {tr : List (Bytes × Obj)} {raw : Bytes}
    (hi : Inv s) (hobj : s.opts.objStm = false) (h : close s cat info tr raw = .ok s') : Grow s s' := by
  unfold close at h
  split at h
  · simp at h
  · rename_i hs
    have hs' : s.stm = none := by simpa using hs
    split at h
    · simp at h
    · rename_i s1 catRef h1
      obtain ⟨i1, n1, o1⟩ := optPut_inv hi hs' h1
      split at h
      · simp at h
      · rename_i s2 infoRef h2
        obtain ⟨i2, n2, o2⟩ := optPut_inv i1 n1 h2
        simp only [hobj, Bool.false_eq_true, ↓reduceIte] at h
        split at h
        · rename_i body td hb htd
          simp only [Except.ok.injEq] at h
          subst h
          have g3 : Grow s2 (emit (emit s2 (body ++ kTrailerNL ++ td ++ [10])) (kStartxref ++ decOf s2.pos ++ kEOF)) :=
            grow_append rfl (Mono.of_eq rfl) ((body ++ kTrailerNL ++ td ++ [10]) ++ (kStartxref ++ decOf s2.pos ++ kEOF))
              (by simp [emit]) (fun st' p' h1 => by simp [emit, n2] at h1) rfl
          exact ((optPut_grow hi hs' h1).trans (optPut_grow i1 n1 h2)).trans g3
        · simp at h

theorem step_grow {s s' : WState} {op : Op} (hi : Inv s) (hobj : s.opts.objStm = false)
    (h : step s op = .ok s') : Grow s s' := by
  cases op with
  | alloc =>
    simp only [step] at h
    split at h
    · rename_i s1 r ha
      simp only [Except.ok.injEq] at h
      subst h
      exact (alloc_grow ha).1
    · simp at h
  | put num gen o => exact put_grow hi h
  | openStream num gen dict ul => exact openStream_grow h
  | write p => exact streamWrite_grow hi h
  | closeStream => exact streamClose_grow hi h
  | writeCompressed items raw => exact writeCompressed_grow hi hobj h
  | close cat info tr raw => exact close_grow hi hobj h
  | openStreamFail num gen =>
    obtain ⟨_, _, n, _, _, rfl⟩ := openStreamFail_fields h
    exact grow_append rfl (Mono.of_eq rfl) [] (by simp) (fun st p h1 h2 => .inl ⟨st, h1, h2⟩) rfl
  | rejected op => rw [rejected_fields h]; exact Grow.refl s

theorem run_grow (ops : List Op) : ∀ {s s' : WState} {i : Nat}, Inv s → s.opts.objStm = false →
    run s ops i = .ok s' → Grow s s' := by
  induction ops with
  | nil => intro s s' i hi _ h; simp [run] at h; subst h; exact Grow.refl _
  | cons op rest ih =>
    intro s s' i hi hobj h
    simp only [run] at h
    split at h
    · simp at h
    · rename_i s1 h1
      obtain ⟨i1, o1⟩ := step_inv hi h1
      exact (step_grow hi hobj h1).trans (ih i1 (by rw [o1]; exact hobj) h)

/-- **doc_invariant.**  For every program the writer model accepts in table mode, every plain
object that reached the file (directly, from the queue of a stream, as the indirect `/Length`
of a stream on a non-seekable sink, through `WriteCompressed`, or as the catalog / Info of
`Close`) is still there at the end: its entry is in use with the generation given, and at the
entry's offset stand `N G obj`, the formatted object and `endobj` — untouched by later writes
and by the seek-back `/Length` patches. -/
theorem doc_invariant (o : WOpts) (s0 s : WState) (ops : List Op) (hobj : o.objStm = false)
    (h0 : initState o = some s0) (h : run s0 ops 0 = .ok s) :
    ∀ x, x ∈ s.doc → DocAt s x := by
  have hi0 := init_inv o s0 h0
  have hopts : s0.opts = o := by
    unfold initState at h0
    cases hh : header o with
    | none => simp [hh] at h0
    | some hd => simp only [hh, Option.map_some, Option.some.injEq] at h0; subst h0; rfl
  have hdoc0 : s0.doc = [] := by
    unfold initState at h0
    cases hh : header o with
    | none => simp [hh] at h0
    | some hd => simp only [hh, Option.map_some, Option.some.injEq] at h0; subst h0; rfl
  have hg := run_grow ops hi0 (by rw [hopts]; exact hobj) h
  intro x hx
  rcases hg.doc x hx with h | h
  · rw [hdoc0] at h; cases h
  · exact h

theorem At.drop {out : Bytes} {pos : Nat} {h : Bytes} (ha : At out pos h) :
    ∃ rest, out.drop pos = h ++ rest := by
  obtain ⟨pre, rest, h1, h2⟩ := ha
  refine ⟨rest, ?_⟩
  subst h1; subst h2
  simp

/-- **get_plain_rt.**  `Reader.get` on an in-use entry at whose offset a written plain object
stands returns that object (up to the normal form of C01). -/
theorem get_plain_rt (file : Bytes) (m : XMap) (opt : FmtOpt) (n g : Nat) (o : Obj) (pos : Int) (body : Bytes)
    (hm : m.get n = some { inStream := 0, pos := pos, gen := g }) (hpos : 0 ≤ pos)
    (hfmt : format opt [o] = some body)
    (hat : At file pos.toNat (objHeader n g ++ body ++ kEndobj))
    (hg : good o = true) (hd : depthOk o) (hr : isRefObj o = false)
    (hnum : n < Gen.fio_maxXRefSize) (hgen : g ≤ Gen.fio_maxGeneration)
    (inflate : Bytes → Option Bytes) (getInt : Obj → Except Err Int) :
    ∃ r, readerGet file m 0 inflate getInt n g = .ok (some (.plain r)) ∧ nrm r = nrm o := by
  obtain ⟨rest, hdrop⟩ := At.drop hat
  obtain ⟨body', r, hf', hread, hn⟩ := indirect_obj_rt opt o hg hd hr n g hnum hgen pos.toNat getInt rest
  rw [hfmt] at hf'
  cases hf'
  refine ⟨r, ?_, hn⟩
  unfold readerGet
  have hu : entryUsable (some { inStream := 0, pos := pos, gen := g }) g = true := by
    simp [entryUsable, isFree]; omega
  simp only [hm, hu, Bool.not_true, Bool.false_eq_true, ↓reduceIte, bne_self_eq_false, Nat.add_zero]
  rw [hdrop, hread]
  simp

/-- numbers without an entry, and free entries, are `null` -/
theorem get_free (file : Bytes) (m : XMap) (n g : Nat) (e : XEntry)
    (hm : m.get n = none ∨ (m.get n = some e ∧ e.pos < 0))
    (inflate : Bytes → Option Bytes) (getInt : Obj → Except Err Int) :
    readerGet file m 0 inflate getInt n g = .ok none := by
  unfold readerGet
  rcases hm with h | ⟨h, hp⟩
  · simp [h, entryUsable, isFree]
  · simp [h, entryUsable, isFree, hp]

/-- a reference with the wrong generation is `null` -/
theorem get_wrong_gen (file : Bytes) (m : XMap) (n g : Nat) (e : XEntry)
    (hm : m.get n = some e) (hg : e.gen ≠ g)
    (inflate : Bytes → Option Bytes) (getInt : Obj → Except Err Int) :
    readerGet file m 0 inflate getInt n g = .ok none := by
  unfold readerGet
  simp [hm, entryUsable, hg]


/-! ## the file `Close` leaves behind -/

theorem run_append (ops : List Op) (op : Op) : ∀ {s s' : WState} {i : Nat},
    run s (ops ++ [op]) i = .ok s' → ∃ s1, run s ops i = .ok s1 ∧ step s1 op = .ok s' := by
  induction ops with
  | nil =>
    intro s s' i h
    simp only [List.nil_append, run] at h
    split at h
    · simp at h
    · rename_i s1 h1
      simp only [Except.ok.injEq] at h
      subst h
      exact ⟨s, rfl, h1⟩
  | cons o rest ih =>
    intro s s' i h
    simp only [List.cons_append, run] at h
    split at h
    · simp at h
    · rename_i s1 h1
      obtain ⟨sa, ha, hb⟩ := ih h
      exact ⟨sa, by simp only [run, h1]; exact ha, hb⟩

/-- the `Root` / `Info` entry of the trailer -/
def refOfO (r : Option Nat) (k : Bytes) : List (Bytes × Obj) :=
  match r with | some n => [(k, .ref n 0)] | none => []

/-- the trailer dictionary `Close` writes behind a cross-reference table: the entries fixed at
    `NewWriter`, `Root`, `Info` (if any) and `Size` -/
def closeTrailer (tr : List (Bytes × Obj)) (cr ir : Option Nat) (size : Nat) : List (Bytes × Obj) :=
  (tr.filter fun e => e.1 != kRoot && e.1 != kInfo && e.1 != kSize) ++ refOfO cr kRoot ++ refOfO ir kInfo ++
    [(kSize, .int size)]

/-- `optPut`: the object is allocated a number below the limit and written as a plain object -/
theorem optPut_ref {s s' : WState} {o : Option Obj} {r : Option Nat} (hs : s.stm = none)
    (h : optPut s o = .ok (s', r)) :
    (o = none → r = none) ∧ (∀ v, o = some v → ∃ n, r = some n ∧ n < Gen.fio_maxXRefSize ∧ (n, 0, v) ∈ s'.doc) := by
  unfold optPut at h
  split at h
  · simp only [Except.ok.injEq, Prod.mk.injEq] at h
    exact ⟨fun _ => h.2.symm, fun v hv => by cases hv⟩
  · rename_i v
    split at h
    · simp at h
    · rename_i s1 r1 ha
      split at h
      · simp at h
      · rename_i s2 hp
        simp only [Except.ok.injEq, Prod.mk.injEq] at h
        obtain ⟨rfl, rfl⟩ := h
        refine ⟨fun h0 => (by cases h0), fun v' hv' => ?_⟩
        cases hv'
        have hlt : r1 < Gen.fio_maxXRefSize := by
          unfold alloc at ha
          split at ha
          · simp at ha
          · simp only [Option.some.injEq, Prod.mk.injEq] at ha
            obtain ⟨_, rfl⟩ := ha
            omega
        have hs1 : s1.stm = none := by rw [(alloc_grow ha).2.1, hs]
        refine ⟨r1, rfl, hlt, ?_⟩
        unfold put at hp
        simp only [hs1] at hp
        unfold putPlain at hp
        split at hp
        · simp at hp
        · split at hp
          · simp at hp
          · simp only [Except.ok.injEq] at hp
            subst hp
            simp [emit]

/-- what `Close` appends in table mode, with the state `s2` after the catalog and Info -/
theorem close_table_layout2 {s s' : WState} {cat : Obj} {info : Option Obj} {tr : List (Bytes × Obj)} {raw : Bytes}
    (hi : Inv s) (hobj : s.opts.objStm = false) (h : close s cat info tr raw = .ok s') :
    ∃ (s2 : WState) (td : Bytes), s.stm = none ∧ Inv s2 ∧ Grow s s2 ∧ s2.stm = none ∧ hasInStream s2.xref s2.nextRef = false ∧
      s'.out = s2.out ++ (kwXref ++ [10, 48, 32] ++ decOf s2.nextRef ++ [10] ++ xrefLines s2.xref 0 s2.nextRef
        ++ kTrailerNL ++ td ++ [10]) ++ (kStartxref ++ decOf s2.pos ++ kEOF) ∧
      s'.xref = s2.xref ∧ s'.nextRef = s2.nextRef ∧ s'.doc = s2.doc ∧ s'.opts = s.opts ∧
      (∃ cr ir, format s.opts.fmtPlain [.dict (closeTrailer tr cr ir s2.nextRef)] = some td ∧
        (∃ n, cr = some n ∧ n < Gen.fio_maxXRefSize ∧ (n, 0, cat) ∈ s2.doc) ∧
        (info = none → ir = none) ∧
        (∀ i, info = some i → ∃ n, ir = some n ∧ n < Gen.fio_maxXRefSize ∧ (n, 0, i) ∈ s2.doc)) := by
  unfold close at h
  split at h
  · simp at h
  · rename_i hs
    have hs' : s.stm = none := by simpa using hs
    split at h
    · simp at h
    · rename_i s1 catRef h1
      obtain ⟨i1, n1, o1⟩ := optPut_inv hi hs' h1
      split at h
      · simp at h
      · rename_i s2 infoRef h2
        obtain ⟨i2, n2, o2⟩ := optPut_inv i1 n1 h2
        simp only [hobj, Bool.false_eq_true, ↓reduceIte] at h
        split at h
        · rename_i body td hb htd
          simp only [Except.ok.injEq] at h
          subst h
          have hbody : body = kwXref ++ [10, 48, 32] ++ decOf s2.nextRef ++ [10] ++ xrefLines s2.xref 0 s2.nextRef ∧
              hasInStream s2.xref s2.nextRef = false := by
            unfold xrefTableBody at hb
            split at hb
            · simp at hb
            · rename_i hh
              split at hb
              · simp at hb
              · simp only [Option.some.injEq] at hb
                exact ⟨hb.symm, by simpa using hh⟩
          obtain ⟨hbody, hnoStm⟩ := hbody
          subst hbody
          obtain ⟨_, hc⟩ := optPut_ref hs' h1
          obtain ⟨n, hn1, hn2, hn3⟩ := hc cat rfl
          obtain ⟨hi0, hi1⟩ := optPut_ref n1 h2
          exact ⟨s2, td, hs', i2, (optPut_grow hi hs' h1).trans (optPut_grow i1 n1 h2), n2, hnoStm, by simp [emit], by simp [emit],
            by simp [emit], by simp [emit], by simp [emit]; rw [o2, o1],
            ⟨catRef, infoRef, htd, ⟨n, hn1, hn2, (optPut_grow i1 n1 h2).docmono _ hn3⟩, hi0, hi1⟩⟩
        · simp at h

/-- the reader's way to the table of a single-section file: `%PDF-`, the last `startxref`, the
    `xref` keyword and the subsections (`openTable` continues with the trailer dictionary) -/
def openTableXRef (file : Bytes) : Except Err (XMap × Bytes) :=
  match findHeaderOffset file with
  | none => .error .malformed
  | some hdrOff =>
    match findXRef file hdrOff with
    | .error e => .error e
    | .ok start =>
      let sec := file.drop start
      if !isPrefixOf kwXref sec then .error .other else
      match skipWS (sec.drop 4) with
      | (_, true) => .error .eof
      | (r0, false) => readXRefSubsections (r0.length + 1) [] r0

theorem findHeaderOffset_zero (rest : Bytes) : findHeaderOffset (kPdf ++ rest) = some 0 := by
  unfold findHeaderOffset
  have : (kPdf ++ rest).take 1024 = 37 :: ([80, 68, 70, 45] ++ rest.take 1019) := by
    simp [kPdf]
  rw [this]
  simp [firstIdx, kwPdfR, isPrefixOf]

/-- **reader_xref_eq_writer (table).**  On the file a table-mode `Close` leaves behind, the reader
finds the table through the last `startxref` and decodes from it exactly the writer's map. -/
theorem openTableXRef_close {s s' : WState} {cat : Obj} {info : Option Obj} {tr : List (Bytes × Obj)} {raw : Bytes}
    (hi : Inv s) (hobj : s.opts.objStm = false) (h : close s cat info tr raw = .ok s')
    (hhdr : ∃ rest, s.out = kPdf ++ rest)
    (hsize : s'.out.length < 10000000000)
    (hgen : ∀ n e, s'.xref.get n = some e → e.gen ≤ 65535)
    (hnr : s'.nextRef ≤ Gen.fio_maxXRefSize) :
    ∃ m td tail cr ir, openTableXRef s'.out = .ok (m, kwTrailer ++ (10 :: (td ++ tail))) ∧
      (∀ j, j < s'.nextRef → m.get j = some (normTab (s'.xref.get j))) ∧
      (∀ j, s'.nextRef ≤ j → m.get j = none) ∧
      format s.opts.fmtPlain [.dict (closeTrailer tr cr ir s'.nextRef)] = some td ∧
      (∃ n, cr = some n ∧ n < Gen.fio_maxXRefSize ∧ (n, 0, cat) ∈ s'.doc) ∧
      (info = none → ir = none) ∧
      (∀ i, info = some i → ∃ n, ir = some n ∧ n < Gen.fio_maxXRefSize ∧ (n, 0, i) ∈ s'.doc) := by
  obtain ⟨s2, td, hsn, i2, g2, n2, hnoStm, hout, hx, hn, hdoc2, _, cr, ir, htd, hcr, hir0, hir1⟩ := close_table_layout2 hi hobj h
  have hkeep : ∀ pos hb, At s.out pos hb → At s'.out pos hb := fun pos hb ha =>
    (close_grow hi hobj h).keep pos hb ha (fun st p h1 => by rw [hsn] at h1; cases h1)
  obtain ⟨rest0, hr0⟩ := hhdr
  -- the header
  have hh : ∃ rest, s'.out = kPdf ++ rest := by
    obtain ⟨pre, rest, h1, h2⟩ := hkeep 0 kPdf ⟨[], rest0, by simpa using hr0, rfl⟩
    have : pre = [] := by simpa using h2
    subst this
    exact ⟨rest, by simpa using h1⟩
  obtain ⟨resth, hrh⟩ := hh
  have hho : findHeaderOffset s'.out = some 0 := by rw [hrh]; exact findHeaderOffset_zero _
  -- startxref
  have hp0 : 0 < s2.pos := by
    rw [i2.pos_eq]
    have := g2.len
    rw [hr0] at this
    simp [kPdf] at this
    omega
  have hlen2 : s2.out.length ≤ s'.out.length := by rw [hout]; simp
  have hfile : s'.out = (s2.out ++ (kwXref ++ [10, 48, 32] ++ decOf s2.nextRef ++ [10] ++ xrefLines s2.xref 0 s2.nextRef
        ++ kTrailerNL ++ td)) ++ [10] ++ kStartxref ++ decOf s2.pos ++ kEOF := by
    rw [hout]; simp only [List.append_assoc]
  have hfx : findXRef s'.out 0 = .ok s2.pos := by
    have := findXRef_tail (s2.out ++ (kwXref ++ [10, 48, 32] ++ decOf s2.nextRef ++ [10] ++ xrefLines s2.xref 0 s2.nextRef
        ++ kTrailerNL ++ td)) s2.pos hp0 (by rw [← hfile, i2.pos_eq]; rw [hout]; simp [kwXref]) (by rw [i2.pos_eq]; omega)
    rw [← hfile] at this
    exact this
  -- the section
  have hsec : s'.out.drop s2.pos = kwXref ++ (10 :: ([48, 32] ++ decOf s2.nextRef ++ [10] ++ xrefLines s2.xref 0 s2.nextRef
      ++ (kwTrailer ++ ([10] ++ td ++ [10] ++ (kStartxref ++ decOf s2.pos ++ kEOF))))) := by
    rw [hout, i2.pos_eq, List.append_assoc, List.drop_left]
    simp [kTrailerNL]
  have hins : ∀ n e, s2.xref.get n = some e → e.inStream = 0 := by
    intro n e hg
    have hlt := i2.below n e hg
    unfold hasInStream at hnoStm
    have := List.any_eq_false.1 hnoStm n (by simp; exact hlt)
    simp [hg] at this
    exact this
  have hok : ∀ j, j < s2.nextRef → ∀ x, s2.xref.get j = some x → x.pos < 10000000000 ∧ x.gen ≤ 65535 := by
    intro j _ x hxj
    refine ⟨?_, hgen j x (by rw [hx]; exact hxj)⟩
    by_cases hneg : x.pos < 0
    · omega
    · rcases i2.entries j x hxj (hins j x hxj) (by omega) with ha | ⟨st, h1, _⟩
      · have := ha.end_le
        omega
      · rw [n2] at h1; cases h1
  obtain ⟨m, hsub, hm1, hm2⟩ := readXRefSubsections_table s2.xref s2.nextRef
    ([10] ++ td ++ [10] ++ (kStartxref ++ decOf s2.pos ++ kEOF))
    (([48, 32] ++ decOf s2.nextRef ++ [10] ++ xrefLines s2.xref 0 s2.nextRef
      ++ (kwTrailer ++ ([10] ++ td ++ [10] ++ (kStartxref ++ decOf s2.pos ++ kEOF)))).length + 1)
    (by simp) (by rw [← hn]; exact hnr) hok
  refine ⟨m, td, [10] ++ (kStartxref ++ decOf s2.pos ++ kEOF), cr, ir, ?_, by rw [hn, hx]; exact hm1, by rw [hn]; exact hm2,
    by rw [hn]; exact htd, by rw [hdoc2]; exact hcr, hir0, by rw [hdoc2]; exact hir1⟩
  have hrest : (10 :: (td ++ ([10] ++ (kStartxref ++ decOf s2.pos ++ kEOF))))
      = [10] ++ td ++ [10] ++ (kStartxref ++ decOf s2.pos ++ kEOF) := by simp
  rw [hrest]
  unfold openTableXRef
  simp only [hho, hfx, hsec, isPrefixOf_self, Bool.not_true, Bool.false_eq_true, ↓reduceIte]
  rw [List.drop_left' (by simp [kwXref]), skipWS_space 10 (.inr rfl)]
  have h48 : skipWS ([48, 32] ++ decOf s2.nextRef ++ [10] ++ xrefLines s2.xref 0 s2.nextRef
      ++ (kwTrailer ++ ([10] ++ td ++ [10] ++ (kStartxref ++ decOf s2.pos ++ kEOF))))
      = ([48, 32] ++ decOf s2.nextRef ++ [10] ++ xrefLines s2.xref 0 s2.nextRef
      ++ (kwTrailer ++ ([10] ++ td ++ [10] ++ (kStartxref ++ decOf s2.pos ++ kEOF))), false) := by
    have h48s : isSpace 48 = false := by decide +kernel
    simp only [List.cons_append, List.append_assoc, List.nil_append]
    exact skipWS_nonspace 48 _ h48s (by omega)
  rw [h48]
  exact hsub


theorem run_opts (ops : List Op) : ∀ {s s' : WState} {i : Nat}, Inv s → run s ops i = .ok s' → s'.opts = s.opts := by
  induction ops with
  | nil => intro s s' i _ h; simp [run] at h; subst h; rfl
  | cons op rest ih =>
    intro s s' i hi h
    simp only [run] at h
    split at h
    · simp at h
    · rename_i s1 h1
      obtain ⟨i1, o1⟩ := step_inv hi h1
      rw [ih i1 h, o1]

theorem initState_facts (o : WOpts) (s0 : WState) (h0 : initState o = some s0) :
    s0.opts = o ∧ s0.doc = [] ∧ s0.stm = none ∧ ∃ rest, s0.out = kPdf ++ rest := by
  unfold initState at h0
  cases hh : header o with
  | none => simp [hh] at h0
  | some hd =>
    simp only [hh, Option.map_some, Option.some.injEq] at h0
    subst h0
    refine ⟨rfl, rfl, rfl, ?_⟩
    unfold header at hh
    cases hv : versionString o.version with
    | none => simp [hv] at hh
    | some vs =>
      simp only [hv, Option.map_some, Option.some.injEq] at hh
      exact ⟨vs ++ kBinary ++ (if o.human then [10] else []), by rw [← hh]; simp⟩

/-- **file_rt_table_partial.**  For every option set without object streams and without
encryption and every program the writer model accepts that ends in `Close` (any mix of `Alloc`,
`Put` of plain objects and of stream objects, `OpenStream`/`Write`/`Close` with any of the three
`/Length` strategies, `Put` while a stream is open, `WriteCompressed`, never-written references),
if the file is shorter than 10^10 bytes, generations are ≤ 65535 and object numbers are below the
reader's limit, then the reader model, applied to the bytes of the file alone,

* finds `%PDF-` at offset 0, follows the last `startxref` to the `xref` keyword and decodes the
  subsections into a map `m` that agrees with the writer's map on every number below `Size`
  (never-written numbers are free) and has no other entries, stopping at `trailer`;
* `Reader.get` with that map returns, for every plain object `(n, g, ob)` that reached the file
  (`WState.doc`: direct and deferred `Put`s, indirect `/Length` objects, catalog, Info) and is
  within C01's documented limits, an object equal to `ob` up to C01's normal form;
* `Reader.get` returns `null` for every reference whose number was never written, is free, or
  was written with another generation.

The trailer dictionary and the stream objects are added in `Props/C02fiog.lean`
(`file_rt_table`). -/
theorem file_rt_table_partial (o : WOpts) (s0 s : WState) (ops : List Op)
    (cat : Obj) (info : Option Obj) (tr : List (Bytes × Obj)) (raw : Bytes)
    (hobj : o.objStm = false) (henc : o.encrypted = false)
    (h0 : initState o = some s0)
    (h : run s0 (ops ++ [.close cat info tr raw]) 0 = .ok s)
    (hsize : s.out.length < 10000000000)
    (hgen : ∀ n e, s.xref.get n = some e → e.gen ≤ 65535)
    (hnr : s.nextRef ≤ Gen.fio_maxXRefSize)
    (inflate : Bytes → Option Bytes) (getInt : Obj → Except Err Int) :
    ∃ m rest, openTableXRef s.out = .ok (m, kwTrailer ++ rest) ∧
      (∀ j, j < s.nextRef → m.get j = some (normTab (s.xref.get j))) ∧
      (∀ j, s.nextRef ≤ j → m.get j = none) ∧
      (∀ n g ob, (n, g, ob) ∈ s.doc → good ob = true → depthOk ob → isRefObj ob = false →
        ∃ r, readerGet s.out m 0 inflate getInt n g = .ok (some (.plain r)) ∧ nrm r = nrm ob) ∧
      (∀ n g, (∀ e, s.xref.get n = some e → e.pos < 0 ∨ e.gen ≠ g) →
        readerGet s.out m 0 inflate getInt n g = .ok none) := by
  obtain ⟨hopts0, hdoc0, hstm0, rest0, hout0⟩ := initState_facts o s0 h0
  have hi0 := init_inv o s0 h0
  obtain ⟨s1, hrun, hstep⟩ := run_append ops _ h
  have hclose : close s1 cat info tr raw = .ok s := hstep
  have hi1 := run_inv ops hi0 hrun
  have hopts1 : s1.opts = o := by rw [run_opts ops hi0 hrun, hopts0]
  have hobj1 : s1.opts.objStm = false := by rw [hopts1]; exact hobj
  have g01 := run_grow ops hi0 (by rw [hopts0]; exact hobj) hrun
  have g1s := close_grow hi1 hobj1 hclose
  obtain ⟨his, hoptss⟩ := close_inv hi1 hclose
  have hhdr1 : ∃ rest, s1.out = kPdf ++ rest := by
    obtain ⟨pre, rest, h1, h2⟩ := g01.keep 0 kPdf ⟨[], rest0, by simpa using hout0, rfl⟩
      (fun st p hs => by rw [hstm0] at hs; cases hs)
    have : pre = [] := by simpa using h2
    subst this
    exact ⟨rest, by simpa using h1⟩
  obtain ⟨m, td, tail, _, _, hopen, hm1, hm2, _⟩ := openTableXRef_close hi1 hobj1 hclose hhdr1 hsize hgen hnr
  refine ⟨m, 10 :: (td ++ tail), hopen, hm1, hm2, ?_, ?_⟩
  · intro n g ob hmem hgood hdep hnref
    have hdocat : DocAt s (n, g, ob) := by
      rcases (g01.trans g1s).doc _ hmem with hh | hh
      · rw [hdoc0] at hh; cases hh
      · exact hh
    obtain ⟨e, body, hxe, heg, hins, hpos, hwf, hat, _⟩ := hdocat
    simp only at hxe heg hwf hat
    have hlt : n < s.nextRef := his.below n e hxe
    have hfmt : format o.fmt [ob] = some body := by
      rw [hoptss, hopts1] at hwf
      simpa [wformat, WOpts.litStr, henc] using hwf
    have hmn : m.get n = some { inStream := 0, pos := e.pos, gen := g } := by
      rw [hm1 n hlt, hxe]
      simp [normTab, hpos, heg]
    have hg65 : g ≤ Gen.fio_maxGeneration := by
      have := hgen n e hxe
      rw [heg] at this
      simpa [Gen.fio_maxGeneration] using this
    exact get_plain_rt s.out m o.fmt n g ob e.pos body hmn hpos hfmt hat hgood hdep hnref (by omega) hg65 inflate getInt
  · intro n g hfree
    by_cases hlt : n < s.nextRef
    · have hmn := hm1 n hlt
      cases hxe : s.xref.get n with
      | none =>
        rw [hxe] at hmn
        exact get_free s.out m n g _ (.inr ⟨hmn, by simp [normTab]⟩) inflate getInt
      | some e =>
        rw [hxe] at hmn
        by_cases hp : e.pos < 0
        · exact get_free s.out m n g _ (.inr ⟨hmn, by simp [normTab]; split <;> simp <;> omega⟩) inflate getInt
        · rcases hfree e hxe with hh | hh
          · omega
          · refine get_wrong_gen s.out m n g _ hmn ?_ inflate getInt
            simp [normTab]; split
            · exact hh
            · omega
    · exact get_free s.out m n g default (.inl (hm2 n (by omega))) inflate getInt


-- The full statement (trailer dictionary and stream objects included) is proved in
-- `Props/C02fiog.lean`: `PdfVerif.C02fiog.file_rt_table`.

-- non-vacuity of `file_rt_table_partial`: a table-form program (PDF 1.3, seekable sink, a long
-- stream whose `/Length` is patched, a `Put` deferred while the stream is open); the hypotheses
-- hold, `openTableXRef` finds the table, and `Reader.get` returns objects 1 and 3 and the catalog
example : (match initState { C02fiob.exOpts with version := 4 } with
    | some s0 => (match run s0 C02fiob.exProg 0 with
      | .ok s => (match openTableXRef s.out with
          | .ok (m, rest) =>
            isPrefixOf kwTrailer rest && s.opts.objStm == false && s.nextRef == 5 && s.doc.length == 3 &&
            (match readerGet s.out m 0 (fun _ => none) (fun _ => .error .malformed) 1 0 with
             | .ok (some (.plain (.int 5))) => true | _ => false) &&
            (match readerGet s.out m 0 (fun _ => none) (fun _ => .error .malformed) 3 0 with
             | .ok (some (.plain (.name [65]))) => true | _ => false) &&
            (match readerGet s.out m 0 (fun _ => none) (fun _ => .error .malformed) 4 0 with
             | .ok (some (.plain (.dict [([84], .int 1)]))) => true | _ => false) &&
            (match readerGet s.out m 0 (fun _ => none) (fun _ => .error .malformed) 3 1 with
             | .ok none => true | _ => false) &&
            (match readerGet s.out m 0 (fun _ => none) (fun _ => .error .malformed) 7 0 with
             | .ok none => true | _ => false)
          | _ => false)
      | _ => false)
    | none => false) = true := by decide +kernel

end PdfVerif.C02fioe

import PdfVerif.Props.C02fiog
/-!
# C02 (work package FIO) — files with cross-reference streams and object streams

The writer-side invariants of `C02fioe`/`C02fiog` (`Grow`, `SGrow`, `Cover`) without the
restriction to classic tables: `WriteCompressed` making object streams and `Close` writing a
cross-reference stream keep every plain object and every stream object where its entry points.
`file_rt_xrefstream_partial` composes them with the reader model; what is missing for the full
statement is listed there.
-/
namespace PdfVerif.C02fioh
open PdfVerif PdfVerif.FIO PdfVerif.C02fio PdfVerif.C02fiob PdfVerif.C02fioe PdfVerif.C02fiof PdfVerif.C02fiog
open PdfVerif.C01b PdfVerif.C01L PdfVerif.C01d

/-- the three writer-side facts about one operation -/
structure Step (s s' : WState) : Prop where
  grow : Grow s s'
  sgrow : SGrow s s'
  cover : Cover s'

theorem Step.trans {a b c : WState} (h1 : Step a b) (h2 : Step b c) : Step a c :=
  ⟨h1.grow.trans h2.grow, h1.sgrow.trans h2.sgrow h2.grow, h2.cover⟩

/-- one object stream: `Alloc`, the members' compressed entries, the stream -/
theorem writeObjStmAt_step {s s' : WState} {items : List (Nat × Nat × Obj)} {raw : Bytes}
    (hi : Inv s) (hs' : s.stm = none) (hc : Cover s) (h : writeObjStmAt s items raw = .ok s') : Step s s' := by
  unfold writeObjStmAt at h
  split at h
  · simp at h
  · rename_i s1 sRef ha
    obtain ⟨i1, ho, hp, hst, hx, _, hop, hr, hnr⟩ := alloc_inv hi ha
    have st1 : Step s s1 := ⟨(alloc_grow ha).1, (alloc_s (OpenInv.of_none hs') ha).1, alloc_cover hc ha⟩
    split at h
    · simp at h
    · rename_i x n hse
      have hsRef : 0 < sRef := by rw [hr]; exact hi.npos
      obtain ⟨m1, m2, m3, m4⟩ := setEntries_ok sRef items hse hsRef
      split at h
      · simp at h
      · rename_i cnt first hoc
        have hs1 : s1.stm = none := by rw [hst, hs']
        have i2 : Inv { s1 with xref := x, nextRef := n } := by
          refine ⟨i1.pos_eq, ?_, ?_, ?_, by have := i1.npos; simp only; omega⟩
          · intro k e hg h0 hpe
            rcases m2 k e hg with h1 | h1
            · rcases i1.entries k e h1 h0 hpe with ha1 | ⟨st, hst1, _⟩
              · exact .inl ha1
              · rw [hs1] at hst1; cases hst1
            · omega
          · intro st p hst1; simp only at hst1; rw [hs1] at hst1; cases hst1
          · intro k e hg
            rcases m3 k e hg with h1 | h1
            · have := i1.below k e h1; simp only; omega
            · exact h1
        have st2 : Step s1 { s1 with xref := x, nextRef := n } := by
          refine ⟨grow_append rfl (fun k e hk => m1 k e hk) [] (by simp) (fun st p h1 h2 => .inl ⟨st, h1, h2⟩) rfl,
            SGrow.of_eq rfl, ?_⟩
          intro k e hg h0 hpe
          rcases m2 k e hg with h1 | h1
          · exact st1.cover k e h1 h0 hpe
          · omega
        simp only at h
        split at h
        · simp at h
        · rename_i s2 h2
          obtain ⟨i3, _, _, _, _, _⟩ := openStream_inv i2 h2
          obtain ⟨sg3, o3⟩ := openStream_s h2
          have st3 : Step { s1 with xref := x, nextRef := n } s2 :=
            ⟨openStream_grow h2, sg3, openStream_cover st2.cover h2⟩
          split at h
          · simp at h
          · rename_i s3 h3
            obtain ⟨i4, _, _, _, _⟩ := streamWrite_inv i3 h3
            obtain ⟨sg4, o4⟩ := streamWrite_s i3 o3 h3
            have st4 : Step s2 s3 := ⟨streamWrite_grow i3 h3, sg4, streamWrite_cover st3.cover h3⟩
            have st5 : Step s3 s' := ⟨streamClose_grow i4 h, streamClose_s i4 o4 h, streamClose_cover i4 st4.cover h⟩
            exact (((st1.trans st2).trans st3).trans st4).trans st5

theorem writeObjStm_step {s s' : WState} {items : List (Nat × Nat × Obj)} {raw : Bytes}
    (hi : Inv s) (hs' : s.stm = none) (hc : Cover s) (h : writeObjStm s items raw = .ok s') : Step s s' := by
  have st0 : Step s (reserveNumbers s items) :=
    ⟨grow_append rfl (Mono.of_eq rfl) [] (by simp [reserveNumbers]) (fun st p h1 h2 => .inl ⟨st, h1, h2⟩) rfl,
     SGrow.of_eq rfl, hc⟩
  exact st0.trans (writeObjStmAt_step (s := reserveNumbers s items) (reserveNumbers_inv hi items) hs' hc h)

theorem writeObjStms_step (fuel : Nat) : ∀ {s s' : WState} {items : List (Nat × Nat × Obj)} {raws : List Bytes},
    Inv s → s.stm = none → Cover s → writeObjStms fuel s items raws = .ok s' → Step s s' := by
  induction fuel with
  | zero => intro s s' items raws _ _ _ h; simp [writeObjStms] at h
  | succ f ih =>
    intro s s' items raws hi hs hc h
    simp only [writeObjStms] at h
    split at h
    · split at h
      · simp at h
      · rename_i s1 h1
        obtain ⟨a, b, _⟩ := writeObjStm_inv hi hs h1
        have st1 := writeObjStm_step hi hs hc h1
        exact st1.trans (ih a b st1.cover h)
    · exact writeObjStm_step hi hs hc h

theorem putAll_step (l : List (Nat × Nat × Obj)) :
    ∀ {s s' : WState}, Inv s → s.stm = none → Cover s → putAll s l = .ok s' → Step s s' := by
  induction l with
  | nil => intro s s' _ _ hc h; simp [putAll] at h; subst h; exact ⟨Grow.refl _, SGrow.of_eq rfl, hc⟩
  | cons x rest ih =>
    intro s s' hi hs hc h
    obtain ⟨num, gen, o⟩ := x
    simp only [putAll] at h
    split at h
    · simp at h
    · rename_i s1 hp
      obtain ⟨i1, _, n1⟩ := put_inv hi hp
      have st1 : Step s s1 := ⟨put_grow hi hp, (put_s hi (OpenInv.of_none hs) hp).1, put_cover hi hc hp⟩
      exact st1.trans (ih i1 (n1 hs) st1.cover h)

theorem writeCompressed_step {s s' : WState} {items : List (Nat × Nat × Obj)} {raws : List Bytes}
    (hi : Inv s) (hc : Cover s) (h : writeCompressed s items raws = .ok s') : Step s s' ∧ s'.stm = none := by
  unfold writeCompressed at h
  split at h
  · simp at h
  · rename_i hs
    have hs' : s.stm = none := by simpa using hs
    split at h
    · simp at h
    · split at h
      · simp only [Except.ok.injEq] at h; subst h; exact ⟨⟨Grow.refl _, SGrow.of_eq rfl, hc⟩, hs'⟩
      · split at h
        · exact ⟨putAll_step items hi hs' hc h, (putAll_inv items hi hs' h).2.2⟩
        · exact ⟨writeObjStms_step _ hi hs' hc h, (writeObjStms_inv _ hi hs' h).2.1⟩

theorem optPut_step {s s' : WState} {o : Option Obj} {r : Option Nat} (hi : Inv s) (hs : s.stm = none) (hc : Cover s)
    (h : optPut s o = .ok (s', r)) : Step s s' :=
  ⟨optPut_grow hi hs h, optPut_s hi hs h, optPut_cover hi hc h⟩

/-- `Close` in both forms: with a table, or with the cross-reference stream written as a stream
    object of its own -/
theorem close_step {s s' : WState} {cat : Obj} {info : Option Obj} {tr : List (Bytes × Obj)} {raw : Bytes}
    (hi : Inv s) (hc : Cover s) (h : close s cat info tr raw = .ok s') : Step s s' ∧ s'.stm = none := by
  unfold close at h
  split at h
  · simp at h
  · rename_i hs
    have hs' : s.stm = none := by simpa using hs
    split at h
    · simp at h
    · rename_i s1 catRef h1
      obtain ⟨i1, n1, _⟩ := optPut_inv hi hs' h1
      have st1 := optPut_step hi hs' hc h1
      split at h
      · simp at h
      · rename_i s2 infoRef h2
        obtain ⟨i2, n2, _⟩ := optPut_inv i1 n1 h2
        have st2 := st1.trans (optPut_step i1 n1 st1.cover h2)
        simp only at h
        split at h
        · split at h
          · simp at h
          · rename_i s3 ref ha
            obtain ⟨i3, _, _, hst3, _⟩ := alloc_inv i2 ha
            have hs3 : s3.stm = none := by rw [hst3, n2]
            have st3 : Step s2 s3 := ⟨(alloc_grow ha).1, (alloc_s (OpenInv.of_none n2) ha).1, alloc_cover st2.cover ha⟩
            split at h
            · simp at h
            · rename_i s4 h4
              obtain ⟨i4, _, _, _, _, _⟩ := openStream_inv i3 h4
              obtain ⟨sg4, o4⟩ := openStream_s h4
              have st4 : Step s3 s4 := ⟨openStream_grow h4, sg4, openStream_cover st3.cover h4⟩
              split at h
              · simp at h
              · rename_i s5 h5
                obtain ⟨i5, _, _, _, _⟩ := streamWrite_inv i4 h5
                obtain ⟨sg5, o5⟩ := streamWrite_s i4 o4 h5
                have st5 : Step s4 s5 := ⟨streamWrite_grow i4 h5, sg5, streamWrite_cover st4.cover h5⟩
                split at h
                · simp at h
                · rename_i s6 h6
                  obtain ⟨i6, n6, _⟩ := streamClose_inv i5 h6
                  have st6 : Step s5 s6 := ⟨streamClose_grow i5 h6, streamClose_s i5 o5 h6, streamClose_cover i5 st5.cover h6⟩
                  simp only [Except.ok.injEq] at h
                  subst h
                  have st7 : Step s6 (emit s6 (kStartxref ++ decOf s2.pos ++ kEOF)) :=
                    ⟨grow_append rfl (Mono.of_eq rfl) _ rfl (fun st' p' h1 => by simp [emit, n6] at h1) rfl,
                     SGrow.of_eq rfl, by
                       intro k e hg h0 hpe
                       rcases st6.cover k e hg h0 hpe with hh | hh | ⟨st, hh, _⟩
                       · exact .inl hh
                       · exact .inr (.inl hh)
                       · rw [n6] at hh; cases hh⟩
                  exact ⟨((((st2.trans st3).trans st4).trans st5).trans st6).trans st7, by simp [emit, n6]⟩
        · split at h
          · rename_i body td hb htd
            simp only [Except.ok.injEq] at h
            subst h
            have st3 : Step s2 (emit (emit s2 (body ++ kTrailerNL ++ td ++ [10])) (kStartxref ++ decOf s2.pos ++ kEOF)) :=
              ⟨grow_append rfl (Mono.of_eq rfl) ((body ++ kTrailerNL ++ td ++ [10]) ++ (kStartxref ++ decOf s2.pos ++ kEOF))
                 (by simp [emit]) (fun st' p' h1 => by simp [emit, n2] at h1) rfl,
               SGrow.of_eq (by simp [emit]), by
                 intro k e hg h0 hpe
                 rcases st2.cover k e (by simpa [emit] using hg) h0 hpe with hh | hh | ⟨st, hh, _⟩
                 · exact .inl (by simpa [emit] using hh)
                 · exact .inr (.inl (by simpa [emit] using hh))
                 · rw [n2] at hh; cases hh⟩
            exact ⟨st2.trans st3, by simp [emit, n2]⟩
          · simp at h

theorem step_step {s s' : WState} {op : Op} (hi : Inv s) (ho : OpenInv s) (hc : Cover s)
    (h : step s op = .ok s') : Step s s' ∧ OpenInv s' := by
  cases op with
  | alloc =>
    simp only [step] at h
    split at h
    · rename_i s1 r ha
      simp only [Except.ok.injEq] at h
      subst h
      obtain ⟨a, b⟩ := alloc_s ho ha
      exact ⟨⟨(alloc_grow ha).1, a, alloc_cover hc ha⟩, b⟩
    · simp at h
  | put num gen o =>
    obtain ⟨a, b⟩ := put_s hi ho h
    exact ⟨⟨put_grow hi h, a, put_cover hi hc h⟩, b⟩
  | openStream num gen dict ul =>
    obtain ⟨a, b⟩ := openStream_s h
    exact ⟨⟨openStream_grow h, a, openStream_cover hc h⟩, b⟩
  | write p =>
    obtain ⟨a, b⟩ := streamWrite_s hi ho h
    exact ⟨⟨streamWrite_grow hi h, a, streamWrite_cover hc h⟩, b⟩
  | closeStream =>
    exact ⟨⟨streamClose_grow hi h, streamClose_s hi ho h, streamClose_cover hi hc h⟩,
      OpenInv.of_none (streamClose_inv hi h).2.1⟩
  | writeCompressed items raw =>
    obtain ⟨a, b⟩ := writeCompressed_step hi hc h
    exact ⟨a, OpenInv.of_none b⟩
  | close cat info tr raw =>
    obtain ⟨a, b⟩ := close_step hi hc h
    exact ⟨a, OpenInv.of_none b⟩
  | openStreamFail num gen =>
    obtain ⟨hs, _, n, _, _, rfl⟩ := openStreamFail_fields h
    exact ⟨⟨grow_append rfl (Mono.of_eq rfl) [] (by simp) (fun st p h1 h2 => .inl ⟨st, h1, h2⟩) rfl, SGrow.of_eq rfl, hc⟩,
      OpenInv.of_none hs⟩
  | rejected op => rw [rejected_fields h]; exact ⟨⟨Grow.refl s, SGrow.of_eq rfl, hc⟩, ho⟩

theorem run_step (ops : List Op) : ∀ {s s' : WState} {i : Nat}, Inv s → OpenInv s → Cover s →
    run s ops i = .ok s' → Step s s' := by
  induction ops with
  | nil => intro s s' i _ _ hc h; simp [run] at h; subst h; exact ⟨Grow.refl _, SGrow.of_eq rfl, hc⟩
  | cons op rest ih =>
    intro s s' i hi ho hc h
    simp only [run] at h
    split at h
    · simp at h
    · rename_i s1 h1
      obtain ⟨i1, _⟩ := step_inv hi h1
      obtain ⟨st1, o1⟩ := step_step hi ho hc h1
      exact st1.trans (ih i1 o1 st1.cover h)

/-- **writer_objects_stay (all output forms).**  For every option set and every program the writer
model accepts — with classic tables or with object streams and a cross-reference stream — every
plain object written directly and every completed stream object (the object streams made by
`WriteCompressed` and the cross-reference stream of `Close` included) stands in the file where its
entry points, and every in-use entry which is not a member of an object stream belongs to one of
them or to the stream still open. -/
theorem writer_objects_stay (o : WOpts) (s0 s : WState) (ops : List Op)
    (h0 : initState o = some s0) (h : run s0 ops 0 = .ok s) :
    (∀ x, x ∈ s.doc → DocAt s x) ∧ (∀ x, x ∈ s.sdoc → SDocAt s x) ∧ Cover s := by
  obtain ⟨_, hdoc0, hstm0, _⟩ := initState_facts o s0 h0
  have hsd0 : s0.sdoc = [] := by
    unfold initState at h0
    cases hh : header o with
    | none => simp [hh] at h0
    | some hd => simp only [hh, Option.map_some, Option.some.injEq] at h0; subst h0; rfl
  have hc0 : Cover s0 := by
    intro n e hg _ hp
    unfold initState at h0
    cases hh : header o with
    | none => simp [hh] at h0
    | some hd =>
      simp only [hh, Option.map_some, Option.some.injEq] at h0
      subst h0
      simp only [XMap.get, List.lookup_cons, List.lookup_nil] at hg
      split at hg
      · simp at hg; subst hg; simp at hp
      · simp at hg
  have st := run_step ops (init_inv o s0 h0) (OpenInv.of_none hstm0) hc0 h
  refine ⟨?_, ?_, st.cover⟩
  · intro x hx
    rcases st.grow.doc x hx with hh | hh
    · rw [hdoc0] at hh; cases hh
    · exact hh
  · intro x hx
    rcases st.sgrow x hx with hh | hh
    · rw [hsd0] at hh; cases hh
    · exact hh

/-- **file_rt_xrefstream_partial.**  The object level of the whole-file round trip for every output
form (classic table, or object streams with a cross-reference stream), unencrypted.

For every program the writer model accepts that ends in `Close` (Put, WriteCompressed, OpenStream /
Write / Close with all `/Length` strategies, Put while a stream is open, failed operations), every
set `P` of object numbers and every cross-reference map `m` which agrees on `P` with the writer's
table in the entries that are not members of object streams — in-use entries with their offset and
generation, free and never-written numbers free or absent —, the reader model applied to the bytes
of the file returns, for numbers in `P`,

* for every plain object written directly (`WState.doc`) an object equal to it up to C01's
  comparison form,
* for every completed stream object (`WState.sdoc`; the object streams made by `WriteCompressed`
  included) a stream whose extent in the file holds exactly the bytes handed to `Write`, with the
  dictionary given (without `/Length`) up to comparison form,
* `null` for every reference whose number was never written or is free.

`P` is there because the map of a real file does not agree everywhere: `writeXRefStream` encodes
the rows before the cross-reference stream's own entry is made, so the reader sees that one number
as free (`P n := n ≠ that number`; see the `example` at the end of this file).
`xrefstream_map_agrees` below shows that the map decoded from the rows of a table `x` (zlib
trusted: hypothesis `inflate raw = predicted rows`, as for `file_rt_table`'s compression
parameter; then `xref_payload_undo`, `xref_stream_rt`, `xref_stream_free_gen_exact`) agrees with
`x` in exactly this sense, and has the members of object streams with container and index.

`getInt` (resolution of `/Length`) is a parameter as in `file_rt_table`.  The Flate layer does not
enter this statement: the bytes of object streams and of the cross-reference stream are the
parameters `raws` / `xrefRaw` of the writer model, and they are returned byte-identically.

The two parts missing here are supplied by later modules:
1. the opening sequence on the file (`startxref` → `ReadIndirectObject` on the cross-reference
   stream object → `checkXRefStreamDict` on the dictionary read back → `decodeXRefData`) and the
   fact that the table `Close` encodes is the final table minus the stream's own entry (writer
   invariant "no stream open ⇒ no deferred `Put`s", `run_na`): `Props/C02fioj.lean`,
   `close_xrefstream_form`, `open_xrefstream_rt`, and the composed **`file_rt_xrefstream`** — for
   files without fixed trailer entries (no `/ID`);
2. the members of object streams: `Props/C02fioi.lean`, `objstm_member_rt`, `get_member_rt`,
   `file_rt_xrefstream_members` — every member of every `WriteCompressed` of at most
   `maxObjStmObjects` members reads back as the object written, under `inflate raw = content`. -/
theorem file_rt_xrefstream_partial (o : WOpts) (s0 s : WState) (ops : List Op)
    (cat : Obj) (info : Option Obj) (tr : List (Bytes × Obj)) (raw : Bytes)
    (henc : o.encrypted = false)
    (h0 : initState o = some s0)
    (h : run s0 (ops ++ [.close cat info tr raw]) 0 = .ok s)
    (hsize : s.out.length < 9223372036854775808)
    (hgen : ∀ n e, s.xref.get n = some e → e.gen ≤ 65535)
    (hnr : s.nextRef ≤ Gen.fio_maxXRefSize)
    (m : XMap) (P : Nat → Prop)
    (hm : ∀ n e, P n → s.xref.get n = some e → e.inStream = 0 → 0 ≤ e.pos →
      m.get n = some { inStream := 0, pos := e.pos, gen := e.gen })
    (hmfree : ∀ n, P n → (s.xref.get n = none ∨ ∃ e, s.xref.get n = some e ∧ e.inStream = 0 ∧ e.pos < 0) →
      (m.get n = none ∨ ∃ x, m.get n = some x ∧ x.pos < 0))
    (inflate : Bytes → Option Bytes) (getInt : Obj → Except Err Int)
    (hgi : ∀ i, getInt (.int i) = .ok i)
    (hgr : ∀ r len, (r, 0, Obj.int len) ∈ s.doc → getInt (.ref r 0) = .ok len) :
    (∀ n g ob, P n → (n, g, ob) ∈ s.doc → good ob = true → depthOk ob → isRefObj ob = false →
      ∃ r, readerGet s.out m 0 inflate getInt n g = .ok (some (.plain r)) ∧ nrm r = nrm ob) ∧
    (∀ n g d body, P n → (n, g, d, body) ∈ s.sdoc → good (.dict (sdKv0 d)) = true → depthOk (.dict (sdKv0 d)) →
      ∃ rdict start, readerGet s.out m 0 inflate getInt n g = .ok (some (.stream rdict start body.length)) ∧
        (s.out.drop start).take body.length = body ∧
        nrm (.dict rdict) = nrm (.dict (d.filter fun e => e.1 != kLength))) ∧
    (∀ n g, P n → (s.xref.get n = none ∨ ∃ e, s.xref.get n = some e ∧ e.inStream = 0 ∧ e.pos < 0) →
      readerGet s.out m 0 inflate getInt n g = .ok none) := by
  obtain ⟨hopts0, _, _, _⟩ := initState_facts o s0 h0
  have hi0 := init_inv o s0 h0
  have his := run_inv _ hi0 h
  have hoptss : s.opts = o := by rw [run_opts _ hi0 h, hopts0]
  have hlit : s.opts.litStr = false := by rw [hoptss]; simp [WOpts.litStr, henc]
  obtain ⟨hdoc, hsdoc, _⟩ := writer_objects_stay o s0 s _ h0 h
  have hbound : ∀ n (e : XEntry), s.xref.get n = some e → n < Gen.fio_maxXRefSize ∧ e.gen ≤ Gen.fio_maxGeneration := by
    intro n e hxe
    have hlt : n < s.nextRef := his.below n e hxe
    exact ⟨by omega, by have := hgen n e hxe; simpa [Gen.fio_maxGeneration] using this⟩
  refine ⟨?_, ?_, ?_⟩
  · intro n g ob hP hmem hgood hdep hnref
    obtain ⟨e, body, hxe, heg, hins, hpos, hwf, hat, _⟩ := hdoc _ hmem
    simp only at hxe heg hwf hat
    obtain ⟨hn, hg65⟩ := hbound n e hxe
    have hmn := hm n e hP hxe hins hpos
    rw [heg] at hmn hg65
    have hfmt : format o.fmt [ob] = some body := by
      rw [hoptss] at hwf
      simpa [wformat, WOpts.litStr, henc] using hwf
    exact get_plain_rt s.out m o.fmt n g ob e.pos body hmn hpos hfmt hat hgood hdep hnref hn hg65 inflate getInt
  · intro n g d body hP hmem hgood hdep
    obtain ⟨e, dictBytes, value, off, hxe, heg, hins, hpos, hfd, hlt, hat, _⟩ := hsdoc _ hmem
    simp only at hxe heg hfd hlt hat
    obtain ⟨hn, hg65⟩ := hbound n e hxe
    have hmn := hm n e hP hxe hins hpos
    rw [heg] at hmn hg65
    rw [hlit] at hfd
    have hbl : body.length ≤ 9223372036854775807 := by
      have := hat.end_le
      simp at this
      omega
    obtain ⟨start, hget, hbody⟩ := get_stream_rt s.out m s.opts.fmt n g d body e.pos dictBytes value off s.doc
      hmn hpos hfd hlt hat hgood hdep hn hg65 hbl hsize inflate getInt hgi hgr
    exact ⟨_, start, hget, hbody, stream_dict_nrm d hgood hdep⟩
  · intro n g hP hfree
    rcases hmfree n hP hfree with hnone | ⟨x, hx, hxp⟩
    · exact get_free s.out m n g default (.inl hnone) inflate getInt
    · exact get_free s.out m n g x (.inr ⟨hx, hxp⟩) inflate getInt

/-! ## the map the reader decodes from the cross-reference stream -/

/-- what `Reader` does with the data of a cross-reference stream whose dictionary says
    `/W [1 w2 w3]`, `/Size n` (no `/Index`), `/Filter /FlateDecode` with `/Predictor 12`,
    `/Columns 1+w2+w3`: inflate (zlib, a parameter), undo the predictor, decode the rows -/
def decodeXRefData (inflate : Bytes → Option Bytes) (w2 w3 n : Nat) (raw : Bytes) : Except Err XMap :=
  match inflate raw with
  | none => .error .malformed
  | some p =>
    match pngUndo (1 + w2 + w3) p with
    | .error e => .error e
    | .ok rows => decodeXRefStream 1 w2 w3 [] rows [(0, n)]

/-- **xrefstream_map_agrees.**  Let `x`, `n` be the table `writeXRefStream` encodes and `raw` the
compressed rows, with zlib trusted (`inflate raw` = the predicted rows, the hypothesis
`inflate ∘ deflate = id` of `file_rt_table`'s compression parameter).  The map the reader decodes
agrees with `x` in the sense `file_rt_xrefstream_partial` asks for: in-use entries exactly, free
and unwritten numbers free or absent, members of object streams with their container and index. -/
theorem xrefstream_map_agrees (x : XMap) (n : Nat) (hok : ∀ j, j < n → EntryOK (x.get j))
    (hbelow : ∀ j e, x.get j = some e → j < n)
    (inflate : Bytes → Option Bytes) (raw : Bytes)
    (hinf : inflate raw = some (xrefStreamPayload x n).2.2) :
    ∃ m', decodeXRefData inflate (xrefStreamPayload x n).1 (xrefStreamPayload x n).2.1 n raw = .ok m' ∧
      (∀ j e, x.get j = some e → e.inStream = 0 → 0 ≤ e.pos →
        m'.get j = some { inStream := 0, pos := e.pos, gen := e.gen }) ∧
      (∀ j, (x.get j = none ∨ ∃ e, x.get j = some e ∧ e.inStream = 0 ∧ e.pos < 0) →
        (m'.get j = none ∨ ∃ y, m'.get j = some y ∧ y.pos < 0)) ∧
      (∀ j e, x.get j = some e → e.inStream ≠ 0 → 0 ≤ e.pos →
        m'.get j = some { inStream := e.inStream, pos := e.pos, gen := 0 }) := by
  obtain ⟨_, _, m', hdec, hlt, hge⟩ := xref_stream_rt x n hok
  have hundo := xref_payload_undo x n
  refine ⟨m', ?_, ?_, ?_, ?_⟩
  · simp only [decodeXRefData, hinf]
    simp only at hundo
    rw [hundo]
    simpa [xrefStreamPayload] using hdec
  · intro j e hj hins hpos
    rw [hlt j (hbelow j e hj), hj]
    have : ¬ e.pos < 0 := by omega
    simp [normStm, this, hins]
  · intro j hfree
    by_cases hjn : j < n
    · right
      rcases hfree with hnone | ⟨e, he, _, hneg⟩
      · exact ⟨_, by rw [hlt j hjn, hnone], by simp [normStm]⟩
      · exact ⟨_, by rw [hlt j hjn, he], by simp [normStm, hneg]⟩
    · exact .inl (hge j (by omega))
  · intro j e hj hins hpos
    rw [hlt j (hbelow j e hj), hj]
    have : ¬ e.pos < 0 := by omega
    simp [normStm, this, hins]

/-! ## non-vacuity -/

/-- PDF 1.5, not human-readable: object streams and a cross-reference stream -/
def exOpts : WOpts := { C02fiob.exOpts with version := 6 }
def exItems : List (Nat × Nat × Obj) := [(4, 0, .int 7), (5, 0, .name [66])]
/-- the content of the object stream (with `inflate := some`: stored uncompressed) -/
def exObjStm : Bytes :=
  match objStmContent exOpts.fmtPlain (exItems.map fun (n, _, o) => (n, o)) with | some (c, _, _) => c | none => []
/-- plain objects 1 and 3, the stream object 2 of 1030 bytes (with `Put` of 3 deferred while it is
    open), the object stream 6 with members 4 and 5, `Close` (catalog 7, cross-reference stream 8) -/
def exProg (xrefRaw : Bytes) : List Op :=
  [.alloc, .alloc, .alloc, .alloc, .alloc, .put 1 0 (.plain (.int 5)), .openStream 2 0 [] none,
   .write (List.replicate 1030 65), .put 3 0 (.plain (.name [65])), .closeStream,
   .writeCompressed exItems [exObjStm], .close (.dict [([84], .int 1)]) none [] xrefRaw]
def exGetInt : Obj → Except Err Int := fun o => match o with | .int i => .ok i | _ => .error .malformed

-- non-vacuity of `file_rt_xrefstream_partial` and `xrefstream_map_agrees` on one concrete file with
-- an object stream and a stream object, zlib replaced by "stored" (`inflate := some`): the program
-- runs, the hypotheses hold (size, generations, the map decoded from the cross-reference stream
-- data agrees with the writer's table on every number but the cross-reference stream's own, 8),
-- and the conclusions are observed: the plain objects, the stream with exactly its 1030 bytes, the
-- object stream 6 with exactly its bytes, null for 8 and 9 — and (beyond what is proved) the
-- members 4 and 5 are returned from the object stream
example : (match initState exOpts with
    | some s0 => (match run s0 (exProg []) 0 with
      | .ok sa =>
        let x := sa.xref.filter (fun (p : Nat × XEntry) => p.1 != 8)
        let pl := xrefStreamPayload x sa.nextRef
        (match run s0 (exProg pl.2.2) 0 with
         | .ok s =>
           (match decodeXRefData some pl.1 pl.2.1 s.nextRef pl.2.2 with
            | .ok m =>
              exOpts.objStm && s.nextRef == 9 && s.xref == sa.xref && decide (s.out.length < 9223372036854775808) &&
              s.doc.length == 3 && s.sdoc.length == 3 &&
              (List.range 9).all (fun n => n == 8 || (match s.xref.get n with
                | none => false
                | some e =>
                  decide (e.gen ≤ 65535) &&
                  (if e.inStream == 0 then
                     (if 0 ≤ e.pos then m.get n == some ⟨0, e.pos, e.gen⟩
                      else (match m.get n with | some y => decide (y.pos < 0) | none => true))
                   else m.get n == some ⟨e.inStream, e.pos, 0⟩))) &&
              (match readerGet s.out m 0 some exGetInt 1 0 with | .ok (some (.plain (.int 5))) => true | _ => false) &&
              (match readerGet s.out m 0 some exGetInt 3 0 with | .ok (some (.plain (.name [65]))) => true | _ => false) &&
              (match readerGet s.out m 0 some exGetInt 2 0 with
               | .ok (some (.stream [] start 1030)) => (s.out.drop start).take 1030 == List.replicate 1030 65
               | _ => false) &&
              (match readerGet s.out m 0 some exGetInt 6 0 with
               | .ok (some (.stream _ start len)) => (s.out.drop start).take len == exObjStm
               | _ => false) &&
              (match readerGet s.out m 0 some exGetInt 8 0 with | .ok none => true | _ => false) &&
              (match readerGet s.out m 0 some exGetInt 9 0 with | .ok none => true | _ => false) &&
              (match readerGet s.out m 0 some exGetInt 4 0 with | .ok (some (.plain (.int 7))) => true | _ => false) &&
              (match readerGet s.out m 0 some exGetInt 5 0 with | .ok (some (.plain (.name [66]))) => true | _ => false)
            | _ => false)
         | _ => false)
      | _ => false)
    | none => false) = true := by decide +kernel

end PdfVerif.C02fioh
